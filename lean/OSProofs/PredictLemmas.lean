import OSModel
/-!
# List lemmas behind the prediction functions

`predict_win` / `predict_draw` / `predict_rank` compute one term per ordered pair of teams
(`itertools.permutations(teams, 2)` = `orderedPairs`) and then cut that flat list into consecutive
groups of `n - 1` (`zip_longest(*[iter(p)] * (n - 1))` = `chunk (n - 1)`).  The lemmas here show
that the groups are exactly "for each team, its terms against the other teams, in order".
Mathlib-free.
-/
namespace OS

theorem chunk_nil {β : Type} (k : Nat) : chunk k ([] : List β) = [] := by
  rw [chunk]

/-- a block of exactly `k` elements is split off as the first chunk -/
theorem chunk_append {β : Type} {k : Nat} (hk : 0 < k) (xs rest : List β) (h : xs.length = k) :
    chunk k (xs ++ rest) = xs :: chunk k rest := by
  cases xs with
  | nil => simp at h; omega
  | cons x xs =>
    rw [List.cons_append, chunk, if_neg (by omega), ← List.cons_append,
      List.take_left' h, List.drop_left' h]

/-- cutting a concatenation of blocks of length `k` into chunks of `k` gives the blocks back -/
theorem chunk_flatMap {β γ : Type} {k : Nat} (hk : 0 < k) (l : List β) (g : β → List γ)
    (h : ∀ a ∈ l, (g a).length = k) : chunk k (l.flatMap g) = l.map g := by
  induction l with
  | nil => simp [chunk_nil]
  | cons a l ih =>
    rw [List.flatMap_cons, chunk_append hk _ _ (h a (by simp)), List.map_cons,
      ih (fun b hb => h b (by simp [hb]))]

/-- the entries of `zipIdx l k` whose index is not `k + i`, stripped of the index, are
`l` without its `i`-th entry -/
theorem filter_zipIdx_ne_map_fst {β : Type} (l : List β) (k i : Nat) :
    ((l.zipIdx k).filter (fun b => b.2 != k + i)).map (·.1) = l.eraseIdx i := by
  induction l generalizing k i with
  | nil => simp
  | cons x xs ih =>
    rw [List.zipIdx_cons]
    cases i with
    | zero =>
      have hall : (xs.zipIdx (k + 1)).filter (fun b => b.2 != k + 0) = xs.zipIdx (k + 1) := by
        rw [List.filter_eq_self]
        intro b hb
        have := List.le_snd_of_mem_zipIdx hb
        simp only [Nat.add_zero, bne_iff_ne, ne_eq]
        omega
      rw [List.filter_cons_of_neg (by simp), hall, List.zipIdx_map_fst, List.eraseIdx_zero]
      rfl
    | succ j =>
      rw [List.filter_cons_of_pos (by simp), List.map_cons, List.eraseIdx_cons_succ]
      have := ih (k + 1) j
      rw [show k + 1 + j = k + (j + 1) by omega] at this
      rw [this]

/-- opponents as a list: the other entries of `l.zipIdx`, without their indices -/
theorem filter_zipIdx_ne_eq_eraseIdx {β : Type} (l : List β) (i : Nat) :
    (l.zipIdx.filter (fun b => b.2 != i)).map (·.1) = l.eraseIdx i := by
  have := filter_zipIdx_ne_map_fst l 0 i
  simpa using this

/-- each team has exactly `n - 1` opponents -/
theorem length_filter_zipIdx_ne {β : Type} (l : List β) (i : Nat) (hi : i < l.length) :
    (l.zipIdx.filter (fun b => b.2 != i)).length = l.length - 1 := by
  have := congrArg List.length (filter_zipIdx_ne_eq_eraseIdx l i)
  rw [List.length_map, List.length_eraseIdx_of_lt hi] at this
  exact this

theorem orderedPairs_map {β γ : Type} (l : List β) (f : β × β → γ) :
    (orderedPairs l).map f
      = l.zipIdx.flatMap (fun a => (l.zipIdx.filter (fun b => b.2 != a.2)).map
          (fun b => f (a.1, b.1))) := by
  simp only [orderedPairs, List.map_flatMap, List.map_map]
  rfl

/-- regrouping the pairwise terms by `n - 1` gives, for each team (in order), the list of its
terms against every other team (in order) -/
theorem chunk_orderedPairs_map {β γ : Type} (l : List β) (hn : 2 ≤ l.length) (f : β × β → γ) :
    chunk (l.length - 1) ((orderedPairs l).map f)
      = l.zipIdx.map (fun a => (l.zipIdx.filter (fun b => b.2 != a.2)).map
          (fun b => f (a.1, b.1))) := by
  rw [orderedPairs_map]
  apply chunk_flatMap (by omega)
  intro a ha
  rw [List.length_map]
  apply length_filter_zipIdx_ne
  have := List.snd_lt_of_mem_zipIdx ha
  simpa using this

theorem filter_zipIdx_ne_map {β γ : Type} (l : List β) (i : Nat) (g : β → γ) :
    (l.zipIdx.filter (fun b => b.2 != i)).map (fun b => g b.1) = (l.eraseIdx i).map g := by
  rw [← filter_zipIdx_ne_eq_eraseIdx, List.map_map]
  rfl

/-- the same with the opponents written as `l.eraseIdx i` -/
theorem chunk_orderedPairs_map_eraseIdx {β γ : Type} (l : List β) (hn : 2 ≤ l.length)
    (f : β × β → γ) :
    chunk (l.length - 1) ((orderedPairs l).map f)
      = l.zipIdx.map (fun a => (l.eraseIdx a.2).map (fun b => f (a.1, b))) := by
  rw [chunk_orderedPairs_map l hn]
  apply List.map_congr_left
  intro a _
  exact filter_zipIdx_ne_map l a.2 (fun b => f (a.1, b))

/-- the flat list of pairwise terms, as a concatenation over the teams -/
theorem orderedPairs_map_eraseIdx {β γ : Type} (l : List β) (f : β × β → γ) :
    (orderedPairs l).map f
      = l.zipIdx.flatMap (fun a => (l.eraseIdx a.2).map (fun b => f (a.1, b))) := by
  rw [orderedPairs_map, List.flatMap_def, List.flatMap_def]
  congr 1
  apply List.map_congr_left
  intro a _
  exact filter_zipIdx_ne_map l a.2 (fun b => f (a.1, b))

/-! ### `picks`: every element together with the list of the others -/

/-- each entry of the list paired with the list of the remaining entries (order kept) -/
def picks {β : Type} : List β → List (β × List β)
  | [] => []
  | x :: xs => (x, xs) :: (picks xs).map (fun p => (p.1, x :: p.2))

theorem zipIdx_map_eraseIdx_aux {β : Type} (l : List β) (k : Nat) :
    (l.zipIdx k).map (fun a => (a.1, l.eraseIdx (a.2 - k))) = picks l := by
  induction l generalizing k with
  | nil => simp [picks]
  | cons x xs ih =>
    rw [List.zipIdx_cons, List.map_cons, picks, ← ih (k + 1), List.map_map]
    congr 1
    · simp
    · apply List.map_congr_left
      intro a ha
      have := List.le_snd_of_mem_zipIdx ha
      simp only [Function.comp]
      rw [show a.2 - k = (a.2 - (k + 1)) + 1 by omega, List.eraseIdx_cons_succ]

theorem zipIdx_map_eraseIdx {β : Type} (l : List β) :
    l.zipIdx.map (fun a => (a.1, l.eraseIdx a.2)) = picks l := by
  simpa using zipIdx_map_eraseIdx_aux l 0

theorem zipIdx_map_eraseIdx' {β γ : Type} (l : List β) (h : β → List β → γ) :
    l.zipIdx.map (fun a => h a.1 (l.eraseIdx a.2)) = (picks l).map (fun p => h p.1 p.2) := by
  rw [← zipIdx_map_eraseIdx, List.map_map]
  rfl

theorem picks_map_fst {β : Type} (l : List β) : (picks l).map (·.1) = l := by
  induction l with
  | nil => rfl
  | cons x xs ih =>
    simp only [picks, List.map_cons, List.map_map]
    congr 1

theorem length_picks {β : Type} (l : List β) : (picks l).length = l.length := by
  have := congrArg List.length (picks_map_fst l)
  simpa using this

theorem getElem_picks {β : Type} (l : List β) (i : Nat) (hi : i < l.length) :
    (picks l)[i]'(by rw [length_picks]; exact hi) = (l[i], l.eraseIdx i) := by
  have h := zipIdx_map_eraseIdx l
  have : (picks l)[i]'(by rw [length_picks]; exact hi)
      = (l.zipIdx.map (fun a => (a.1, l.eraseIdx a.2)))[i]'(by simpa using hi) := by
    simp only [h]
  rw [this]
  simp

/-- a value computed from "own entry" and the *multiset* of the others is permuted when the
list is permuted -/
theorem picks_map_perm {β γ : Type} {l l' : List β} (hp : l.Perm l') :
    ∀ (W : β → List β → γ), (∀ y r r', r.Perm r' → W y r = W y r') →
      ((picks l).map (fun p => W p.1 p.2)).Perm ((picks l').map (fun p => W p.1 p.2)) := by
  induction hp with
  | nil => intro W _; exact List.Perm.refl _
  | @cons x l l' h ih =>
    intro W hW
    simp only [picks, List.map_cons, List.map_map]
    rw [hW x l l' h]
    apply List.Perm.cons
    exact ih (fun y r => W y (x :: r)) (fun y r r' hr => hW y _ _ (hr.cons x))
  | swap x y l =>
    intro W hW
    simp only [picks, List.map_cons, List.map_map]
    have : ∀ p : β × List β, W p.1 (x :: y :: p.2) = W p.1 (y :: x :: p.2) :=
      fun p => hW _ _ _ (List.Perm.swap _ _ _)
    have hfun : ((fun p : β × List β => W p.1 p.2) ∘ (fun p : β × List β => (p.1, y :: p.2)) ∘
          fun p : β × List β => (p.1, x :: p.2))
        = ((fun p : β × List β => W p.1 p.2) ∘ (fun p : β × List β => (p.1, x :: p.2)) ∘
          fun p : β × List β => (p.1, y :: p.2)) := by
      funext p
      exact (this p).symm
    rw [hfun]
    exact List.Perm.swap _ _ _
  | trans _ _ ih₁ ih₂ =>
    intro W hW
    exact (ih₁ W hW).trans (ih₂ W hW)

/-! ### unordered pairs -/

/-- every unordered pair of positions once, as (earlier entry, later entry) -/
def unorderedPairs {β : Type} : List β → List (β × β)
  | [] => []
  | x :: xs => xs.map (fun b => (x, b)) ++ unorderedPairs xs

/-- there are `n (n - 1) / 2` unordered pairs -/
theorem length_unorderedPairs {β : Type} (l : List β) :
    2 * (unorderedPairs l).length = l.length * (l.length - 1) := by
  induction l with
  | nil => rfl
  | cons x xs ih =>
    simp only [unorderedPairs, List.length_append, List.length_map, List.length_cons,
      Nat.add_sub_cancel, Nat.mul_add, ih]
    generalize xs.length = m
    cases m with
    | zero => rfl
    | succ k =>
      simp only [Nat.add_sub_cancel, Nat.mul_add, Nat.add_mul, Nat.mul_one, Nat.one_mul]
      omega

/-- there are `n (n - 1)` ordered pairs -/
theorem length_orderedPairs {β : Type} (l : List β) :
    (orderedPairs l).length = l.length * (l.length - 1) := by
  have h := orderedPairs_map_eraseIdx l (fun p => p)
  rw [List.map_id'] at h
  rw [h, List.length_flatMap]
  have : ∀ a ∈ l.zipIdx, (List.map (fun b => (a.1, b)) (l.eraseIdx a.2)).length = l.length - 1 := by
    intro a ha
    have := List.snd_lt_of_mem_zipIdx ha
    rw [List.length_map, List.length_eraseIdx_of_lt (by simpa using this)]
  rw [List.map_congr_left this]
  rw [List.map_const', List.sum_replicate_nat, List.length_zipIdx]

end OS
