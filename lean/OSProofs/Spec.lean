import OSProofs.RealInst
import Mathlib.Algebra.BigOperators.Fin

/-!
# The published Weng–Lin updates, as index sums

A game is `n` teams indexed by `Fin n`: `θ i` the team mean, `s2 i` the team variance (after the
tau inflation), `r i` the rank (smaller is better, equal = tie).  `β`, `κ` are the model
parameters, `γ c i` the value of the gamma callback for team `i` at normaliser `c`, and
`L : Leaves ℝ` the four functions v, w, ṽ, w̃.  All sums are `Finset` sums; nothing in this file
mentions a list, a fold or an iteration order.  `OSProofs/Props/C01.lean` proves that the
code-shaped `omegaDelta` / `compute` of `OSModel/Compute.lean` compute exactly these.
-/

noncomputable section
namespace OS
open Finset

/-- a game seen by `_compute`: team means, team variances, ranks -/
structure Game (n : ℕ) where
  θ : Fin n → ℝ
  s2 : Fin n → ℝ
  r : Fin n → ℕ

/-- the ladder neighbours of position `i`: the positions `i − 1` and `i + 1` that exist -/
def nbrs {n : ℕ} (i : Fin n) : Finset (Fin n) :=
  univ.filter (fun q : Fin n => q.1 + 1 = i.1 ∨ q.1 = i.1 + 1)

/-- the per-player tail of every model:
`μ' = μ + (σ²/s2)·Ω`, `σ' = σ·√(max(1 − (σ²/s2)·Δ, κ))` -/
def specPlayer (κ s2 ω δ : ℝ) (p : Rating ℝ) : Rating ℝ :=
  { p with mu := p.mu + (p.sigma ^ 2 / s2) * ω,
           sigma := p.sigma * Real.sqrt (max (1 - (p.sigma ^ 2 / s2) * δ) κ) }

/-! ### Plackett–Luce -/
namespace SpecPL
variable {n : ℕ} (G : Game n) (β : ℝ)

/-- `c = √(Σ_i (s2_i + β²))` -/
def c : ℝ := Real.sqrt (∑ i, (G.s2 i + β ^ 2))

/-- `e_i = exp(θ_i / c)` -/
def e (i : Fin n) : ℝ := Real.exp (G.θ i / c G β)

/-- `S_q = Σ_{j : r_q ≤ r_j} e_j` -/
def S (q : Fin n) : ℝ := ∑ j ∈ univ.filter (fun j => G.r q ≤ G.r j), e G β j

/-- `A_q = #{s : r_s = r_q}` -/
def A (q : Fin n) : ℕ := (univ.filter (fun s => G.r s = G.r q)).card

/-- `p_{iq} = e_i / S_q` -/
def p (i q : Fin n) : ℝ := e G β i / S G β q

/-- `Ω_i = (s2_i / c) · Σ_{q : r_q ≤ r_i} ([q = i] − p_iq) / A_q` -/
def Ω (i : Fin n) : ℝ :=
  (G.s2 i / c G β) *
    ∑ q ∈ univ.filter (fun q => G.r q ≤ G.r i), ((if q = i then 1 else 0) - p G β i q) / (A G q : ℝ)

/-- `Δ_i = (Σ_{q : r_q ≤ r_i} p_iq (1 − p_iq) / A_q) · (s2_i / c²) · γ_i` -/
def Δ (γ : ℝ → Fin n → ℝ) (i : Fin n) : ℝ :=
  (∑ q ∈ univ.filter (fun q => G.r q ≤ G.r i), p G β i q * (1 - p G β i q) / (A G q : ℝ))
    * (G.s2 i / c G β ^ 2) * γ (c G β) i

end SpecPL

/-! ### Bradley–Terry -/
namespace SpecBT
variable {n : ℕ} (G : Game n) (β : ℝ) (γ : ℝ → Fin n → ℝ)

/-- `c_iq = √(s2_i + s2_q + 2β²)` -/
def c (i q : Fin n) : ℝ := Real.sqrt (G.s2 i + G.s2 q + 2 * β ^ 2)

/-- `p_iq = 1 / (1 + exp((θ_q − θ_i)/c_iq))` -/
def p (i q : Fin n) : ℝ := 1 / (1 + Real.exp ((G.θ q - G.θ i) / c G β i q))

/-- the score of `i` against `q`: 1 win, 1/2 tie, 0 loss -/
def s (i q : Fin n) : ℝ := if G.r i < G.r q then 1 else if G.r i = G.r q then 1 / 2 else 0

/-- the pair term of Ω -/
def ω (i q : Fin n) : ℝ := (G.s2 i / c G β i q) * (s G i q - p G β i q)

/-- the pair term of Δ -/
def δ (i q : Fin n) : ℝ :=
  ((γ (c G β i q) i * (G.s2 i / c G β i q)) / c G β i q) * p G β i q * (1 - p G β i q)

/-- full pairing: every other team -/
def ΩF (i : Fin n) : ℝ := ∑ q ∈ univ.filter (fun q => q ≠ i), ω G β i q
def ΔF (i : Fin n) : ℝ := ∑ q ∈ univ.filter (fun q => q ≠ i), δ G β γ i q

/-- partial pairing: the neighbours `i−1`, `i+1` that exist -/
def ΩP (i : Fin n) : ℝ := ∑ q ∈ nbrs i, ω G β i q
def ΔP (i : Fin n) : ℝ := ∑ q ∈ nbrs i, δ G β γ i q

end SpecBT

/-! ### Thurstone–Mosteller (`cmul` = 1 full pairing, 2 partial pairing) -/
namespace SpecTM
variable {n : ℕ} (G : Game n) (L : Leaves ℝ) (cmul β κ : ℝ) (γ : ℝ → Fin n → ℝ)

/-- `c_iq = cmul · √(s2_i + s2_q + 2β²)` -/
def c (i q : Fin n) : ℝ := cmul * Real.sqrt (G.s2 i + G.s2 q + 2 * β ^ 2)

/-- `x_iq = (θ_i − θ_q)/c_iq` -/
def x (i q : Fin n) : ℝ := (G.θ i - G.θ q) / c G cmul β i q

/-- `t_iq = κ / c_iq` -/
def t (i q : Fin n) : ℝ := κ / c G cmul β i q

/-- the pair term of Ω: `v` on a win, `−v(−x)` on a loss, `ṽ` on a tie -/
def ω (i q : Fin n) : ℝ :=
  if G.r i < G.r q then
    (G.s2 i / c G cmul β i q) * L.v (x G cmul β i q) (t G cmul β κ i q)
  else if G.r q < G.r i then
    (-(G.s2 i / c G cmul β i q)) * L.v (-(x G cmul β i q)) (t G cmul β κ i q)
  else (G.s2 i / c G cmul β i q) * L.vt (x G cmul β i q) (t G cmul β κ i q)

/-- the pair term of Δ: `w` on a win, `w(−x)` on a loss, `w̃` on a tie -/
def δ (i q : Fin n) : ℝ :=
  γ (c G cmul β i q) i * (G.s2 i / c G cmul β i q) / c G cmul β i q *
    (if G.r i < G.r q then L.w (x G cmul β i q) (t G cmul β κ i q)
     else if G.r q < G.r i then L.w (-(x G cmul β i q)) (t G cmul β κ i q)
     else L.wt (x G cmul β i q) (t G cmul β κ i q))

def ΩF (i : Fin n) : ℝ := ∑ q ∈ univ.filter (fun q => q ≠ i), ω G L 1 β κ i q
def ΔF (i : Fin n) : ℝ := ∑ q ∈ univ.filter (fun q => q ≠ i), δ G L 1 β κ γ i q
def ΩP (i : Fin n) : ℝ := ∑ q ∈ nbrs i, ω G L 2 β κ i q
def ΔP (i : Fin n) : ℝ := ∑ q ∈ nbrs i, δ G L 2 β κ γ i q

end SpecTM

/-! ### the game and the gamma callback read off a list of team aggregates -/

/-- team `i` of the list, as the index-form game -/
def gameOf (ts : List (TeamAgg ℝ)) : Game ts.length :=
  { θ := fun i => ts[i].mu, s2 := fun i => ts[i].sig2, r := fun i => ts[i].rank }

/-- the gamma callback, called as the code calls it: `gamma(c, k, mu_i, sigma_i², team, rank_i)` -/
def gammaOf (g : GammaFn ℝ) (ts : List (TeamAgg ℝ)) : ℝ → Fin ts.length → ℝ :=
  fun c i => gammaVal g c ts.length ts[i].mu ts[i].sig2 ts[i].players ts[i].rank

/-- the published `(Ω_i, Δ_i)` of each of the five models -/
def specOmegaDelta (K : Kind) (L : Leaves ℝ) (P : Params ℝ) (ts : List (TeamAgg ℝ))
    (i : Fin ts.length) : ℝ × ℝ :=
  match K with
  | .PL => (SpecPL.Ω (gameOf ts) P.beta i, SpecPL.Δ (gameOf ts) P.beta (gammaOf P.gamma ts) i)
  | .BTF => (SpecBT.ΩF (gameOf ts) P.beta i, SpecBT.ΔF (gameOf ts) P.beta (gammaOf P.gamma ts) i)
  | .BTP => (SpecBT.ΩP (gameOf ts) P.beta i, SpecBT.ΔP (gameOf ts) P.beta (gammaOf P.gamma ts) i)
  | .TMF => (SpecTM.ΩF (gameOf ts) L P.beta P.kappa i,
             SpecTM.ΔF (gameOf ts) L P.beta P.kappa (gammaOf P.gamma ts) i)
  | .TMP => (SpecTM.ΩP (gameOf ts) L P.beta P.kappa i,
             SpecTM.ΔP (gameOf ts) L P.beta P.kappa (gammaOf P.gamma ts) i)

/-- the published posterior of a game whose aggregated teams are `ts`: every player of team `i`
gets the per-player update with the model's `(Ω_i, Δ_i)` -/
def specCompute (K : Kind) (L : Leaves ℝ) (P : Params ℝ) (ts : List (TeamAgg ℝ)) :
    List (List (Rating ℝ)) :=
  List.ofFn (fun i : Fin ts.length =>
    ts[i].players.map
      (specPlayer P.kappa ts[i].sig2 (specOmegaDelta K L P ts i).1 (specOmegaDelta K L P ts i).2))

end OS
end
