import OSModel.PyNum
import OSModel.Scalar
/-
  HiPrec: a big-float evaluator (arbitrary precision, integer arithmetic only) for
  exp, sqrt, π, erf/erfc, Φ, φ, Φ⁻¹ and the *exact* V, W, Ṽ, W̃.
  It is the "independent high-precision evaluation" the C12 / C17 correspondences compare
  the implementation with.  Nothing here uses `Float` arithmetic except the final rounding
  of a result to the nearest double.
-/
namespace OS.HP

/-- value = m · 2^e -/
structure BF where
  m : Int
  e : Int
  deriving Repr, Inhabited

def bitLen (n : Nat) : Nat := if n = 0 then 0 else n.log2 + 1

def norm (P : Nat) (x : BF) : BF :=
  let n := x.m.natAbs
  if n = 0 then ⟨0, 0⟩
  else
    let b := bitLen n
    if b ≤ P then x
    else
      let sh := b - P
      let q : Int := Int.ofNat (n >>> sh)
      ⟨if x.m < 0 then -q else q, x.e + Int.ofNat sh⟩

def ofInt (i : Int) : BF := ⟨i, 0⟩

def ofFloat (f : Float) : BF :=
  let (m, e) := floatDecompose f
  ⟨m, e⟩

def neg (a : BF) : BF := ⟨-a.m, a.e⟩

def mul (P : Nat) (a b : BF) : BF := norm P ⟨a.m * b.m, a.e + b.e⟩

def add (P : Nat) (a b : BF) : BF :=
  if a.m = 0 then b else if b.m = 0 then a else
  let (hi, lo) := if a.e ≥ b.e then (a, b) else (b, a)
  let d := (hi.e - lo.e).toNat
  -- |lo| < 2^(lo.e + P), |hi| ≥ 2^hi.e : if d > 2P + 8 the small one is below the precision
  if d > 2 * P + 64 ∧ bitLen lo.m.natAbs ≤ P + 8 then hi
  else norm P ⟨hi.m * (2 : Int) ^ d + lo.m, lo.e⟩

def sub (P : Nat) (a b : BF) : BF := add P a (neg b)

def div (P : Nat) (a b : BF) : BF :=
  if b.m = 0 then ⟨0, 0⟩ else
  let s := P + 8 + bitLen b.m.natAbs
  let q := Int.tdiv (a.m * (2 : Int) ^ s) b.m
  norm P ⟨q, a.e - b.e - Int.ofNat s⟩

def sqrt (P : Nat) (a : BF) : BF :=
  if a.m ≤ 0 then ⟨0, 0⟩ else
  let n := a.m.natAbs
  let need := 2 * P + 4
  let s0 := if bitLen n ≥ need then 0 else need - bitLen n
  -- make the resulting exponent even
  let s := if (a.e - Int.ofNat s0) % 2 = 0 then s0 else s0 + 1
  let r := Nat.sqrt (n <<< s)
  norm P ⟨Int.ofNat r, (a.e - Int.ofNat s) / 2⟩

def lt (a b : BF) : Bool :=
  -- sign of a - b, exactly
  let (hi, lo, swapped) := if a.e ≥ b.e then (a, b, false) else (b, a, true)
  let d := (hi.e - lo.e).toNat
  let diff := hi.m * (2 : Int) ^ d - lo.m       -- = (hi - lo) / 2^lo.e
  if swapped then decide (diff > 0) else decide (diff < 0)

def isNeg (a : BF) : Bool := decide (a.m < 0)
def abs (a : BF) : BF := ⟨Int.ofNat a.m.natAbs, a.e⟩

/-- floor of a big float -/
def floor (a : BF) : Int :=
  if a.e ≥ 0 then a.m * (2 : Int) ^ a.e.toNat else Int.fdiv a.m ((2 : Int) ^ (-a.e).toNat)

def scale2 (a : BF) (k : Int) : BF := ⟨a.m, a.e + k⟩

/-- nearest double (round half up on the 54th bit; subnormals via scaleB) -/
def toFloat (a : BF) : Float :=
  let n := a.m.natAbs
  if n = 0 then 0.0 else
  let b := bitLen n
  let (top, e) := if b > 54 then (n >>> (b - 54), a.e + Int.ofNat (b - 54)) else (n, a.e)
  let (top, e) := if b > 54 then ((top + 1) >>> 1, e + 1) else (top, e)
  let f := (Float.ofNat top).scaleB e
  if a.m < 0 then -f else f

/-! ### constants (fixed-point integer series) -/

/-- ln 2 = 2·atanh(1/3) = 2 Σ 1/((2k+1) 3^(2k+1)) -/
def ln2 (P : Nat) : BF := Id.run do
  let W := P + 32
  let one : Nat := 1 <<< W
  let mut term := one / 3
  let mut sum := term
  let mut k := 1
  while term > 0 do
    term := term / 9
    sum := sum + term / (2 * k + 1)
    k := k + 1
  return norm P ⟨Int.ofNat (2 * sum), -Int.ofNat W⟩

/-- atan(1/q)·2^W -/
def atanInv (W q : Nat) : Int := Id.run do
  let one : Nat := 1 <<< W
  let mut term := one / q
  let mut sum : Int := Int.ofNat term
  let mut k := 1
  let mut sgn : Int := -1
  while term > 0 do
    term := term / (q * q)
    sum := sum + sgn * Int.ofNat (term / (2 * k + 1))
    sgn := -sgn
    k := k + 1
  return sum

/-- Machin: π = 16 atan(1/5) − 4 atan(1/239) -/
def pi (P : Nat) : BF :=
  let W := P + 32
  norm P ⟨16 * atanInv W 5 - 4 * atanInv W 239, -Int.ofNat W⟩

/-- exp by argument reduction x = k ln2 + r, r/2^s by Taylor, s squarings -/
def exp (P : Nat) (x : BF) : BF := Id.run do
  let Q := P + 96
  let l2 := ln2 Q
  let k := floor (add Q (div Q x l2) ⟨1, -1⟩)
  let r := sub Q x (mul Q (ofInt k) l2)
  let s : Nat := 32
  let r' := scale2 r (-(Int.ofNat s))
  -- Taylor
  let mut term : BF := ⟨1, 0⟩
  let mut sum : BF := ⟨1, 0⟩
  let mut n : Nat := 1
  let mut go := true
  while go do
    term := div Q (mul Q term r') (ofInt (Int.ofNat n))
    sum := add Q sum term
    n := n + 1
    if term.m = 0 ∨ (Int.ofNat (bitLen term.m.natAbs) + term.e < -(Int.ofNat Q) - 8) ∨ n > 400 + Q / 8 then go := false
  let mut y := sum
  for _ in [0:s] do
    y := mul Q y y
  return norm P (scale2 y k)

/-- erf(z), z ≥ 0:  2/√π · e^{−z²} · Σ 2ⁿ z^{2n+1}/(2n+1)!!  (all terms positive) -/
def erfPos (P : Nat) (z : BF) : BF := Id.run do
  let z2x2 := scale2 (mul P z z) 1
  let mut term := z
  let mut sum := z
  let mut n : Nat := 0
  let mut go := decide (z.m ≠ 0)
  while go do
    term := div P (mul P term z2x2) (ofInt (Int.ofNat (2 * n + 3)))
    sum := add P sum term
    n := n + 1
    if term.m = 0 ∨ (Int.ofNat (bitLen term.m.natAbs) + term.e
        < Int.ofNat (bitLen sum.m.natAbs) + sum.e - Int.ofNat P - 8) ∨ n > 100000 then go := false
  let pre := div P (mul P ⟨2, 0⟩ (exp P (neg (mul P z z)))) (sqrt P (pi P))
  return mul P pre sum

/-- precision (bits) needed so that 1 − erf(z) keeps `extra` good bits -/
def precFor (z : BF) (extra : Nat) : Nat :=
  let zz := (floor (mul 64 z z)).toNat + 1
  extra + (zz * 3) / 2 + 64

/-- erfc(z), z ≥ 16, by the asymptotic expansion  e^{−z²}/(z√π) · Σ (−1)ⁿ (2n−1)!!/(2z²)ⁿ.
The terms decrease until n ≈ z² ≥ 256 and the error is below the first omitted term, so stopping at 2^-(P+8)
(reached within ~70 terms) gives full working precision with no cancellation and no precision blow-up:
the series evaluator above needs about 1.5·z² extra bits, which is what made it unusable beyond |x| ≈ 130. -/
def erfcAsym (P : Nat) (z : BF) : BF := Id.run do
  let z2x2 := scale2 (mul P z z) 1
  let mut term : BF := ⟨1, 0⟩
  let mut sum : BF := ⟨1, 0⟩
  let mut n : Nat := 0
  let mut go := true
  while go do
    term := neg (div P (mul P term (ofInt (Int.ofNat (2 * n + 1)))) z2x2)
    sum := add P sum term
    n := n + 1
    if term.m = 0 ∨ (Int.ofNat (bitLen term.m.natAbs) + term.e < -(Int.ofNat P) - 8) ∨ n > 240 then go := false
  let pre := div P (exp P (neg (mul P z z))) (mul P z (sqrt P (pi P)))
  return mul P pre sum

/-- erfc by the convergent series only (any z; precision grows with z²) — kept to cross-check `erfcAsym` where both apply -/
def erfcSeries (extra : Nat) (z : BF) : BF :=
  let a := abs z
  let P := precFor a extra
  let one : BF := ⟨1, 0⟩
  if isNeg z then add P one (erfPos P a) else sub P one (erfPos P a)

/-- erfc(z) for any real z, with about `extra` correct bits -/
def erfc (extra : Nat) (z : BF) : BF :=
  let a := abs z
  if lt ⟨16, 0⟩ a then
    let P := extra + 96
    if isNeg z then sub P ⟨2, 0⟩ (erfcAsym P a) else erfcAsym P a
  else erfcSeries extra z

def half : BF := ⟨1, -1⟩

/-- Φ(x) = ½ erfc(−x/√2) -/
def Phi (extra : Nat) (x : BF) : BF :=
  let P := if lt ⟨22, 0⟩ (abs x) then extra + 96 else precFor (abs x) extra
  let z := div P (neg x) (sqrt P ⟨2, 0⟩)
  norm (extra + 64) (mul P half (erfc extra z))

/-- Φ through the convergent series only (cross-check of the asymptotic branch) -/
def PhiSeries (extra : Nat) (x : BF) : BF :=
  let P := precFor (abs x) extra
  let z := div P (neg x) (sqrt P ⟨2, 0⟩)
  norm (extra + 64) (mul P half (erfcSeries extra z))

/-- φ(x) = e^{−x²/2}/√(2π) -/
def phi (extra : Nat) (x : BF) : BF :=
  let P := extra + 64
  div P (exp P (neg (scale2 (mul P x x) (-1)))) (sqrt P (scale2 (pi P) 1))

/-- Φ⁻¹(p) for p in (0,1): bisection on [−40, 40] to 2^-(extra) -/
def PhiInv (extra : Nat) (p : BF) : BF := Id.run do
  let P := extra + 64
  let mut lo : BF := ⟨-40, 0⟩
  let mut hi : BF := ⟨40, 0⟩
  for _ in [0:extra + 8] do
    let mid := scale2 (add P lo hi) (-1)
    if lt (Phi (extra + 16) mid) p then lo := mid else hi := mid
  return scale2 (add P lo hi) (-1)

/-! ### the exact correction functions (no guards, no asymptotes) -/

structure LeafVals where
  v : BF
  w : BF
  vt : BF
  wt : BF
  PhiXT : BF

def leaves (extra : Nat) (x t : BF) : LeafVals :=
  let P := extra + 64
  let xt := sub P x t
  let Pxt := Phi extra xt
  let pxt := phi extra xt
  let v := div P pxt Pxt
  let w := mul P v (add P v xt)
  -- Ṽ is odd and W̃ even in x: evaluate at |x| (differences of lower tails keep relative accuracy)
  let xx := abs x
  let a := sub P t xx           -- t − |x|
  let b := sub P (neg t) xx     -- −t − |x|
  let Z := sub P (Phi extra a) (Phi extra b)
  let pa := phi extra a
  let pb := phi extra b
  let vt0 := div P (sub P pb pa) Z
  let vt := if isNeg x then neg vt0 else vt0
  let wt := add P (div P (sub P (mul P a pa) (mul P b pb)) Z) (mul P vt vt)
  ⟨v, w, vt, wt, Pxt⟩

end OS.HP

/-! ### the model's scalar interface at high precision
    (`rate`, `predict_*` and the leaves can be run on big floats: the same Lean terms the
    theorems are about, a third instantiation next to `Float` and `ℝ`) -/
namespace OS
open HP

/-- working precision of the `Scalar BF` instance (bits kept after every operation) -/
def hpBits : Nat := 192

instance : LT BF := ⟨fun a b => HP.lt a b = true⟩
instance : LE BF := ⟨fun a b => HP.lt b a = false⟩

instance : Scalar BF where
  add := HP.add hpBits
  sub := HP.sub hpBits
  mul := HP.mul hpBits
  div := HP.div hpBits
  neg := HP.neg
  ofNat n := ⟨Int.ofNat n, 0⟩
  sqrt := HP.sqrt hpBits
  exp := HP.exp hpBits
  Phi := HP.Phi 128
  phi := HP.phi 128
  PhiInv := HP.PhiInv 96
  decLt a b := inferInstanceAs (Decidable (HP.lt a b = true))
  decLe a b := inferInstanceAs (Decidable (HP.lt b a = false))

end OS
