import OSProofs.C01dLemmas
/-!
# C01d — replacing the code's truncated-Gaussian corrections by the exact ones moves the
# Thurstone–Mosteller update by at most the per-pair leaf errors, propagated linearly

Property C01 demands agreement of the code with the paper's formulas "except where the model
itself substitutes a documented asymptotic form for the truncated-Gaussian corrections, where it
is within that form's stated error".  The code's leaves `codeLeaves = ⟨vCode, wCode, vtCode,
wtCode⟩` (with guard branches) and the paper's `exactLeaves = ⟨vExact, wExact, vtExact, wtExact⟩`
enter the two Thurstone–Mosteller models only through `tmPair`, linearly.  Hence:

* `LeafGap L L' εv εw εvt εwt` (in `C01dLemmas`): the interface "for every positive margin `t`,
  `|L.f x t − L'.f x t| ≤ εf x t`" for the four leaves;
* `tmPair_gap`: one pair term moves by at most `σ_i²/c · e₁` (Ω part) and `|γ|·σ_i²/c/c · e₂`
  (Δ part), where `e₁,e₂` is the ε of the leaf the rank comparison selects (`pairLeafErr`);
* `C01_leaf_gap_TMF`, `C01_leaf_gap_TMP`: a team's `(Ω, Δ)` moves by at most the list sum of these
  over its opponents (`othersOf`, resp. `neighboursOf` with `cmul = 2`);
* `C01_leaf_gap_player`: a change `(dω, dδ)` of a team's `(Ω, Δ)` moves a player's new mean by
  exactly `share·dω` and the square of the new sigma by at most `σ̂²·share·|dδ|`
  (`C01_leaf_gap_player_sigma`: the new sigma itself by at most `σ̂·share·|dδ| / (2√κ)`);
* `C01_leaf_gap_compute_TMF/TMP`, `C01_leaf_gap_rating_TMF/TMP`: the same end to end through
  `compute`, player by player;
* `leafGap_code_exact`: the instance for the code's leaves against the exact ones, with the errors
  `codeGapV` (0 off the guard, `V/64` on it), `codeGapW` (0 off the guard, `1/50` on it — and `1` in
  the corner `x ≥ 0`, which needs a margin `t > 8`, see `C17_w_asym_nonneg_x`), `codeGapVt = 2t`,
  `codeGapWt = 4t²` (the last one is a hypothesis here; it is `C17_wt_code_error`).

All statements are over ℝ.
-/
noncomputable section
namespace OS
open Scalar Gauss

variable {L L' : Leaves ℝ} {εv εw εvt εwt : ℝ → ℝ → ℝ}

/-! ### one pair -/

/-- **Pair level.**  With `c = cmul·√(σ_i² + σ_q² + 2β²) > 0`, `κ > 0` and `σ_i² ≥ 0`: swapping the
leaf record `L` for `L'` changes the Ω term of the pair `(i, q)` by at most `σ_i²/c · e₁` and the Δ
term by at most `|γ|·(σ_i²/c)/c · e₂`, where `(e₁, e₂)` are the leaf errors of the branch the ranks
select: `(εv x t, εw x t)` for a win, `(εv (−x) t, εw (−x) t)` for a loss, `(εvt x t, εwt x t)` for
a tie, at `x = (μ_i − μ_q)/c`, `t = κ/c`.  (`pairGapΩ`, `pairGapΔ`, `pairLeafErr` spell this out.) -/
theorem tmPair_gap (h : LeafGap L L' εv εw εvt εwt) (cmul beta kappa : ℝ) (g : GammaFn ℝ) (n : Nat)
    (ti tq : TeamAgg ℝ) (hc : 0 < cmul * √(ti.sig2 + tq.sig2 + 2 * (beta * beta)))
    (hk : 0 < kappa) (hs : 0 ≤ ti.sig2) :
    |(tmPair L cmul beta kappa g n ti tq).1 - (tmPair L' cmul beta kappa g n ti tq).1|
        ≤ pairGapΩ εv εvt cmul beta kappa ti tq ∧
    |(tmPair L cmul beta kappa g n ti tq).2 - (tmPair L' cmul beta kappa g n ti tq).2|
        ≤ pairGapΔ εw εwt cmul beta kappa g n ti tq := by
  have hc' : 0 < lgp_tmC cmul beta ti tq := hc
  have ht : 0 < kappa / lgp_tmC cmul beta ti tq := div_pos hk hc'
  have hs2c : 0 ≤ ti.sig2 / lgp_tmC cmul beta ti tq := div_nonneg hs hc'.le
  constructor
  · rw [lgp_tmPair_fst, lgp_tmPair_fst, ← mul_sub, abs_mul, abs_of_nonneg hs2c]
    unfold pairGapΩ pairLeafErr
    apply mul_le_mul_of_nonneg_left _ hs2c
    simp only
    split_ifs
    · exact h.v _ _ ht
    · rw [neg_sub_neg, abs_sub_comm]; exact h.v _ _ ht
    · exact h.vt _ _ ht
  · rw [lgp_tmPair_snd, lgp_tmPair_snd, ← mul_sub, abs_mul]
    unfold pairGapΔ pairLeafErr
    rw [abs_div, abs_mul, abs_of_nonneg hs2c, abs_of_pos hc']
    apply mul_le_mul_of_nonneg_left _ (by positivity)
    simp only
    split_ifs
    · exact h.w _ _ ht
    · exact h.w _ _ ht
    · exact h.wt _ _ ht

/-! ### one team's `(Ω, Δ)` -/

/-- **Team level, full pairing.**  For every position `i`, swapping the leaves changes `Ω_i` by at
most `Σ_{q ≠ i} σ_i²/c_iq · e₁(i,q)` and `Δ_i` by at most `Σ_{q ≠ i} |γ|·σ_i²/c_iq² · e₂(i,q)`
(explicit list sums over `othersOf ts i`). -/
theorem C01_leaf_gap_TMF (h : LeafGap L L' εv εw εvt εwt) (P : Params ℝ) (ts : List (TeamAgg ℝ))
    (hk : 0 < P.kappa) (hs : ∀ a ∈ ts, 0 ≤ a.sig2)
    (hpos : ∀ a ∈ ts, ∀ b ∈ ts, 0 < a.sig2 + b.sig2 + 2 * (P.beta * P.beta))
    (i : Nat) (hi : i < ts.length) :
    |((omegaDelta .TMF L P ts)[i]'(omegaDelta_lt L P ts hi)).1
        - ((omegaDelta .TMF L' P ts)[i]'(omegaDelta_lt L' P ts hi)).1|
      ≤ ((othersOf ts i).map (pairGapΩ εv εvt 1 P.beta P.kappa ts[i])).sum ∧
    |((omegaDelta .TMF L P ts)[i]'(omegaDelta_lt L P ts hi)).2
        - ((omegaDelta .TMF L' P ts)[i]'(omegaDelta_lt L' P ts hi)).2|
      ≤ ((othersOf ts i).map (pairGapΔ εw εwt 1 P.beta P.kappa P.gamma ts.length ts[i])).sum := by
  rw [omegaDelta_TMF_getElem L P ts i hi, omegaDelta_TMF_getElem L' P ts i hi]
  simp only [sc_ofNat, Nat.cast_one]
  apply lgp_sumPairs_gap
  intro q hq
  have hqm : q ∈ ts := othersOf_subset ts i q hq
  have him : ts[i] ∈ ts := List.getElem_mem hi
  exact tmPair_gap h 1 P.beta P.kappa P.gamma ts.length ts[i] q
    (mul_pos one_pos (Real.sqrt_pos.mpr (hpos _ him _ hqm))) hk (hs _ him)

/-- **Team level, partial pairing.**  The same with the (at most two) ladder neighbours and
`c_iq = 2·√(σ_i² + σ_q² + 2β²)`. -/
theorem C01_leaf_gap_TMP (h : LeafGap L L' εv εw εvt εwt) (P : Params ℝ) (ts : List (TeamAgg ℝ))
    (hk : 0 < P.kappa) (hs : ∀ a ∈ ts, 0 ≤ a.sig2)
    (hpos : ∀ a ∈ ts, ∀ b ∈ ts, 0 < a.sig2 + b.sig2 + 2 * (P.beta * P.beta))
    (i : Nat) (hi : i < ts.length) :
    |((omegaDelta .TMP L P ts)[i]'(omegaDelta_lt L P ts hi)).1
        - ((omegaDelta .TMP L' P ts)[i]'(omegaDelta_lt L' P ts hi)).1|
      ≤ ((neighboursOf ts i).map (pairGapΩ εv εvt 2 P.beta P.kappa ts[i])).sum ∧
    |((omegaDelta .TMP L P ts)[i]'(omegaDelta_lt L P ts hi)).2
        - ((omegaDelta .TMP L' P ts)[i]'(omegaDelta_lt L' P ts hi)).2|
      ≤ ((neighboursOf ts i).map
          (pairGapΔ εw εwt 2 P.beta P.kappa P.gamma ts.length ts[i])).sum := by
  rw [omegaDelta_TMP_getElem L P ts i hi, omegaDelta_TMP_getElem L' P ts i hi]
  simp only [sc_ofNat, Nat.cast_ofNat]
  apply lgp_sumPairs_gap
  intro q hq
  obtain ⟨j, hj, _, rfl⟩ := ne_of_mem_neighboursOf ts i q hq
  have hqm : ts[j] ∈ ts := List.getElem_mem hj
  have him : ts[i] ∈ ts := List.getElem_mem hi
  exact tmPair_gap h 2 P.beta P.kappa P.gamma ts.length ts[i] ts[j]
    (mul_pos two_pos (Real.sqrt_pos.mpr (hpos _ him _ hqm))) hk (hs _ him)

/-- the positivity hypothesis of the two team-level theorems holds whenever `β ≠ 0` -/
theorem C01_leaf_gap_pos_of_beta (P : Params ℝ) (ts : List (TeamAgg ℝ)) (hb : P.beta ≠ 0)
    (hs : ∀ a ∈ ts, 0 ≤ a.sig2) :
    ∀ a ∈ ts, ∀ b ∈ ts, 0 < a.sig2 + b.sig2 + 2 * (P.beta * P.beta) := by
  intro a ha b hb'
  have := mul_self_pos.mpr hb
  have := hs a ha
  have := hs b hb'
  linarith

/-! ### one player -/

/-- **Player level.**  If a team's `(Ω, Δ)` is `(ω, δ)` in one computation and `(ω', δ')` in the
other, then for a player with prior `σ̂` and `share = σ̂²/σ_team²`:
* the new means differ by exactly `share·(ω − ω')`, so (`σ_team² ≥ 0`) in absolute value by
  `share·|ω − ω'|`;
* with `f(δ) = σ̂·√max(1 − share·δ, κ)` the new sigma, `|f(δ)² − f(δ')²| ≤ σ̂²·share·|δ − δ'|`
  (the floor `max(·, κ)` is 1-Lipschitz, `κ > 0`). -/
theorem C01_leaf_gap_player {kappa sig2 : ℝ} (hk : 0 < kappa) (hs : 0 ≤ sig2)
    (omega delta omega' delta' : ℝ) (p : Rating ℝ) :
    (updPlayer kappa sig2 omega delta p).mu - (updPlayer kappa sig2 omega' delta' p).mu
        = p.sigma * p.sigma / sig2 * (omega - omega') ∧
    |(updPlayer kappa sig2 omega delta p).mu - (updPlayer kappa sig2 omega' delta' p).mu|
        = p.sigma * p.sigma / sig2 * |omega - omega'| ∧
    |(updPlayer kappa sig2 omega delta p).sigma ^ 2 - (updPlayer kappa sig2 omega' delta' p).sigma ^ 2|
        ≤ p.sigma ^ 2 * (p.sigma * p.sigma / sig2) * |delta - delta'| ∧
    (updPlayer kappa sig2 omega delta p).id = (updPlayer kappa sig2 omega' delta' p).id := by
  have hshare : 0 ≤ p.sigma * p.sigma / sig2 := div_nonneg (mul_self_nonneg _) hs
  have hmu : (updPlayer kappa sig2 omega delta p).mu - (updPlayer kappa sig2 omega' delta' p).mu
      = p.sigma * p.sigma / sig2 * (omega - omega') := by
    rw [lgp_updPlayer_mu, lgp_updPlayer_mu]; ring
  refine ⟨hmu, ?_, ?_, rfl⟩
  · rw [hmu, abs_mul, abs_of_nonneg hshare]
  · rw [lgp_updPlayer_sigma_sq hk, lgp_updPlayer_sigma_sq hk, ← mul_sub, abs_mul,
      abs_of_nonneg (sq_nonneg _), mul_assoc]
    apply mul_le_mul_of_nonneg_left _ (sq_nonneg _)
    refine (abs_max_sub_max_le_abs _ _ _).trans ?_
    have : 1 - p.sigma * p.sigma / sig2 * delta - (1 - p.sigma * p.sigma / sig2 * delta')
        = -(p.sigma * p.sigma / sig2 * (delta - delta')) := by ring
    rw [this, abs_neg, abs_mul, abs_of_nonneg hshare]

/-- the new sigma itself (not squared): `|f(δ) − f(δ')| ≤ |σ̂|·share·|δ − δ'| / (2√κ)`, because `√` is
`1/(2√κ)`-Lipschitz above the floor `κ > 0` -/
theorem C01_leaf_gap_player_sigma {kappa sig2 : ℝ} (hk : 0 < kappa) (hs : 0 ≤ sig2)
    (omega delta omega' delta' : ℝ) (p : Rating ℝ) :
    |(updPlayer kappa sig2 omega delta p).sigma - (updPlayer kappa sig2 omega' delta' p).sigma|
      ≤ |p.sigma| * (p.sigma * p.sigma / sig2) * |delta - delta'| / (2 * √kappa) := by
  have hshare : 0 ≤ p.sigma * p.sigma / sig2 := div_nonneg (mul_self_nonneg _) hs
  rw [updPlayer_sigma, updPlayer_sigma, ← mul_sub, abs_mul]
  have key : |√(max (1 - p.sigma * p.sigma / sig2 * delta) kappa)
        - √(max (1 - p.sigma * p.sigma / sig2 * delta') kappa)|
      ≤ p.sigma * p.sigma / sig2 * |delta - delta'| / (2 * √kappa) := by
    refine (lgp_sqrt_lipschitz hk (le_max_right _ _) (le_max_right _ _)).trans ?_
    apply div_le_div_of_nonneg_right _ (by positivity)
    refine (abs_max_sub_max_le_abs _ _ _).trans ?_
    have : 1 - p.sigma * p.sigma / sig2 * delta - (1 - p.sigma * p.sigma / sig2 * delta')
        = -(p.sigma * p.sigma / sig2 * (delta - delta')) := by ring
    rw [this, abs_neg, abs_mul, abs_of_nonneg hshare]
  calc |p.sigma| * |√(max (1 - p.sigma * p.sigma / sig2 * delta) kappa)
          - √(max (1 - p.sigma * p.sigma / sig2 * delta') kappa)|
      ≤ |p.sigma| * (p.sigma * p.sigma / sig2 * |delta - delta'| / (2 * √kappa)) :=
        mul_le_mul_of_nonneg_left key (abs_nonneg _)
    _ = |p.sigma| * (p.sigma * p.sigma / sig2) * |delta - delta'| / (2 * √kappa) := by ring

/-- `applyTeam` form: the two updated teams correspond player by player (same length, same ids),
means `share·|ω − ω'|` apart, squared sigmas at most `σ̂²·share·|δ − δ'|` apart, where `σ̂`, `share`
are read off the common input player. -/
theorem C01_leaf_gap_applyTeam {kappa : ℝ} (hk : 0 < kappa) (t : TeamAgg ℝ) (hs : 0 ≤ t.sig2)
    (omega delta omega' delta' : ℝ) :
    (applyTeam kappa t omega delta).length = t.players.length ∧
    (applyTeam kappa t omega' delta').length = t.players.length ∧
    ∀ (j : Nat) (hj : j < t.players.length) (h1 : j < (applyTeam kappa t omega delta).length)
      (h2 : j < (applyTeam kappa t omega' delta').length),
      ((applyTeam kappa t omega delta)[j]).id = ((applyTeam kappa t omega' delta')[j]).id ∧
      |((applyTeam kappa t omega delta)[j]).mu - ((applyTeam kappa t omega' delta')[j]).mu|
        = t.players[j].sigma * t.players[j].sigma / t.sig2 * |omega - omega'| ∧
      |((applyTeam kappa t omega delta)[j]).sigma ^ 2
          - ((applyTeam kappa t omega' delta')[j]).sigma ^ 2|
        ≤ t.players[j].sigma ^ 2 * (t.players[j].sigma * t.players[j].sigma / t.sig2)
            * |delta - delta'| := by
  refine ⟨by simp [applyTeam_eq_map], by simp [applyTeam_eq_map], ?_⟩
  intro j hj h1 h2
  simp only [applyTeam_eq_map, List.getElem_map]
  obtain ⟨_, hb, hc, hd⟩ :=
    C01_leaf_gap_player hk hs omega delta omega' delta' t.players[j]
  exact ⟨hd, hb, hc⟩

/-! ### end to end through `compute` -/

/-- **End to end, full pairing.**  Team `i` of `compute .TMF L …` and of `compute .TMF L' …` are the
per-player updates of the same input team with `(Ω, Δ)` pairs that differ by at most the summed
per-pair leaf errors. -/
theorem C01_leaf_gap_compute_TMF (h : LeafGap L L' εv εw εvt εwt) (P : Params ℝ)
    (hk : 0 < P.kappa) (hb : P.beta ≠ 0) (teams : List (List (Rating ℝ))) (dense : List Nat)
    (i : Nat) (h1 : i < teams.length) (h2 : i < dense.length) :
    ∃ ω δ ω' δ' : ℝ,
      (compute .TMF L P teams dense)[i]'(compute_lt h1 h2)
        = teams[i].map (updPlayer P.kappa
            ((teamAggs teams dense)[i]'(lgp_teamAggs_lt h1 h2)).sig2 ω δ) ∧
      (compute .TMF L' P teams dense)[i]'(compute_lt h1 h2)
        = teams[i].map (updPlayer P.kappa
            ((teamAggs teams dense)[i]'(lgp_teamAggs_lt h1 h2)).sig2 ω' δ') ∧
      |ω - ω'| ≤ ((othersOf (teamAggs teams dense) i).map (pairGapΩ εv εvt 1 P.beta P.kappa
          ((teamAggs teams dense)[i]'(lgp_teamAggs_lt h1 h2)))).sum ∧
      |δ - δ'| ≤ ((othersOf (teamAggs teams dense) i).map (pairGapΔ εw εwt 1 P.beta P.kappa P.gamma
          (teamAggs teams dense).length
          ((teamAggs teams dense)[i]'(lgp_teamAggs_lt h1 h2)))).sum := by
  have hs : ∀ a ∈ teamAggs teams dense, 0 ≤ a.sig2 := fun a ha => teamAggs_sig2_nonneg ha
  obtain ⟨g1, g2⟩ := C01_leaf_gap_TMF h P (teamAggs teams dense) hk hs
    (C01_leaf_gap_pos_of_beta P _ hb hs) i (lgp_teamAggs_lt h1 h2)
  exact ⟨_, _, _, _, lgp_compute_team .TMF L P teams dense i h1 h2,
    lgp_compute_team .TMF L' P teams dense i h1 h2, g1, g2⟩

/-- **End to end, partial pairing.** -/
theorem C01_leaf_gap_compute_TMP (h : LeafGap L L' εv εw εvt εwt) (P : Params ℝ)
    (hk : 0 < P.kappa) (hb : P.beta ≠ 0) (teams : List (List (Rating ℝ))) (dense : List Nat)
    (i : Nat) (h1 : i < teams.length) (h2 : i < dense.length) :
    ∃ ω δ ω' δ' : ℝ,
      (compute .TMP L P teams dense)[i]'(compute_lt h1 h2)
        = teams[i].map (updPlayer P.kappa
            ((teamAggs teams dense)[i]'(lgp_teamAggs_lt h1 h2)).sig2 ω δ) ∧
      (compute .TMP L' P teams dense)[i]'(compute_lt h1 h2)
        = teams[i].map (updPlayer P.kappa
            ((teamAggs teams dense)[i]'(lgp_teamAggs_lt h1 h2)).sig2 ω' δ') ∧
      |ω - ω'| ≤ ((neighboursOf (teamAggs teams dense) i).map (pairGapΩ εv εvt 2 P.beta P.kappa
          ((teamAggs teams dense)[i]'(lgp_teamAggs_lt h1 h2)))).sum ∧
      |δ - δ'| ≤ ((neighboursOf (teamAggs teams dense) i).map (pairGapΔ εw εwt 2 P.beta P.kappa
          P.gamma (teamAggs teams dense).length
          ((teamAggs teams dense)[i]'(lgp_teamAggs_lt h1 h2)))).sum := by
  have hs : ∀ a ∈ teamAggs teams dense, 0 ≤ a.sig2 := fun a ha => teamAggs_sig2_nonneg ha
  obtain ⟨g1, g2⟩ := C01_leaf_gap_TMP h P (teamAggs teams dense) hk hs
    (C01_leaf_gap_pos_of_beta P _ hb hs) i (lgp_teamAggs_lt h1 h2)
  exact ⟨_, _, _, _, lgp_compute_team .TMP L P teams dense i h1 h2,
    lgp_compute_team .TMP L' P teams dense i h1 h2, g1, g2⟩

/-- **End to end, per rating, full pairing.**  Player `j` of team `i`: the two new means differ by
at most `share · Σ_q pairGapΩ`, the squares of the two new sigmas by at most
`σ̂² · share · Σ_q pairGapΔ`, with `share = σ̂²/σ_team²`. -/
theorem C01_leaf_gap_rating_TMF (h : LeafGap L L' εv εw εvt εwt) (P : Params ℝ)
    (hk : 0 < P.kappa) (hb : P.beta ≠ 0) (teams : List (List (Rating ℝ))) (dense : List Nat)
    (i : Nat) (h1 : i < teams.length) (h2 : i < dense.length) (j : Nat) (hj : j < teams[i].length) :
    |(((compute .TMF L P teams dense)[i]'(compute_lt h1 h2))[j]'(by
          rw [lgp_compute_team_length .TMF L P teams dense i h1 h2]; exact hj)).mu
      - (((compute .TMF L' P teams dense)[i]'(compute_lt h1 h2))[j]'(by
          rw [lgp_compute_team_length .TMF L' P teams dense i h1 h2]; exact hj)).mu|
      ≤ teams[i][j].sigma * teams[i][j].sigma
          / ((teamAggs teams dense)[i]'(lgp_teamAggs_lt h1 h2)).sig2
        * ((othersOf (teamAggs teams dense) i).map (pairGapΩ εv εvt 1 P.beta P.kappa
            ((teamAggs teams dense)[i]'(lgp_teamAggs_lt h1 h2)))).sum ∧
    |(((compute .TMF L P teams dense)[i]'(compute_lt h1 h2))[j]'(by
          rw [lgp_compute_team_length .TMF L P teams dense i h1 h2]; exact hj)).sigma ^ 2
      - (((compute .TMF L' P teams dense)[i]'(compute_lt h1 h2))[j]'(by
          rw [lgp_compute_team_length .TMF L' P teams dense i h1 h2]; exact hj)).sigma ^ 2|
      ≤ teams[i][j].sigma ^ 2 * (teams[i][j].sigma * teams[i][j].sigma
          / ((teamAggs teams dense)[i]'(lgp_teamAggs_lt h1 h2)).sig2)
        * ((othersOf (teamAggs teams dense) i).map (pairGapΔ εw εwt 1 P.beta P.kappa P.gamma
            (teamAggs teams dense).length
            ((teamAggs teams dense)[i]'(lgp_teamAggs_lt h1 h2)))).sum := by
  have hs : ∀ a ∈ teamAggs teams dense, 0 ≤ a.sig2 := fun a ha => teamAggs_sig2_nonneg ha
  have hsi := hs _ (List.getElem_mem (lgp_teamAggs_lt h1 h2))
  obtain ⟨g1, g2⟩ := C01_leaf_gap_TMF h P (teamAggs teams dense) hk hs
    (C01_leaf_gap_pos_of_beta P _ hb hs) i (lgp_teamAggs_lt h1 h2)
  rw [lgp_compute_player .TMF L P teams dense i h1 h2 j hj,
    lgp_compute_player .TMF L' P teams dense i h1 h2 j hj]
  obtain ⟨_, e2, e3, _⟩ := C01_leaf_gap_player hk hsi
    ((omegaDelta .TMF L P (teamAggs teams dense))[i]'(omegaDelta_lt L P _ (lgp_teamAggs_lt h1 h2))).1
    ((omegaDelta .TMF L P (teamAggs teams dense))[i]'(omegaDelta_lt L P _ (lgp_teamAggs_lt h1 h2))).2
    ((omegaDelta .TMF L' P (teamAggs teams dense))[i]'(omegaDelta_lt L' P _ (lgp_teamAggs_lt h1 h2))).1
    ((omegaDelta .TMF L' P (teamAggs teams dense))[i]'(omegaDelta_lt L' P _ (lgp_teamAggs_lt h1 h2))).2
    (teams[i][j])
  have hshare : 0 ≤ teams[i][j].sigma * teams[i][j].sigma
      / ((teamAggs teams dense)[i]'(lgp_teamAggs_lt h1 h2)).sig2 :=
    div_nonneg (mul_self_nonneg _) hsi
  constructor
  · rw [e2]; exact mul_le_mul_of_nonneg_left g1 hshare
  · exact e3.trans (mul_le_mul_of_nonneg_left g2 (mul_nonneg (sq_nonneg _) hshare))

/-- **End to end, per rating, partial pairing.** -/
theorem C01_leaf_gap_rating_TMP (h : LeafGap L L' εv εw εvt εwt) (P : Params ℝ)
    (hk : 0 < P.kappa) (hb : P.beta ≠ 0) (teams : List (List (Rating ℝ))) (dense : List Nat)
    (i : Nat) (h1 : i < teams.length) (h2 : i < dense.length) (j : Nat) (hj : j < teams[i].length) :
    |(((compute .TMP L P teams dense)[i]'(compute_lt h1 h2))[j]'(by
          rw [lgp_compute_team_length .TMP L P teams dense i h1 h2]; exact hj)).mu
      - (((compute .TMP L' P teams dense)[i]'(compute_lt h1 h2))[j]'(by
          rw [lgp_compute_team_length .TMP L' P teams dense i h1 h2]; exact hj)).mu|
      ≤ teams[i][j].sigma * teams[i][j].sigma
          / ((teamAggs teams dense)[i]'(lgp_teamAggs_lt h1 h2)).sig2
        * ((neighboursOf (teamAggs teams dense) i).map (pairGapΩ εv εvt 2 P.beta P.kappa
            ((teamAggs teams dense)[i]'(lgp_teamAggs_lt h1 h2)))).sum ∧
    |(((compute .TMP L P teams dense)[i]'(compute_lt h1 h2))[j]'(by
          rw [lgp_compute_team_length .TMP L P teams dense i h1 h2]; exact hj)).sigma ^ 2
      - (((compute .TMP L' P teams dense)[i]'(compute_lt h1 h2))[j]'(by
          rw [lgp_compute_team_length .TMP L' P teams dense i h1 h2]; exact hj)).sigma ^ 2|
      ≤ teams[i][j].sigma ^ 2 * (teams[i][j].sigma * teams[i][j].sigma
          / ((teamAggs teams dense)[i]'(lgp_teamAggs_lt h1 h2)).sig2)
        * ((neighboursOf (teamAggs teams dense) i).map (pairGapΔ εw εwt 2 P.beta P.kappa P.gamma
            (teamAggs teams dense).length
            ((teamAggs teams dense)[i]'(lgp_teamAggs_lt h1 h2)))).sum := by
  have hs : ∀ a ∈ teamAggs teams dense, 0 ≤ a.sig2 := fun a ha => teamAggs_sig2_nonneg ha
  have hsi := hs _ (List.getElem_mem (lgp_teamAggs_lt h1 h2))
  obtain ⟨g1, g2⟩ := C01_leaf_gap_TMP h P (teamAggs teams dense) hk hs
    (C01_leaf_gap_pos_of_beta P _ hb hs) i (lgp_teamAggs_lt h1 h2)
  rw [lgp_compute_player .TMP L P teams dense i h1 h2 j hj,
    lgp_compute_player .TMP L' P teams dense i h1 h2 j hj]
  obtain ⟨_, e2, e3, _⟩ := C01_leaf_gap_player hk hsi
    ((omegaDelta .TMP L P (teamAggs teams dense))[i]'(omegaDelta_lt L P _ (lgp_teamAggs_lt h1 h2))).1
    ((omegaDelta .TMP L P (teamAggs teams dense))[i]'(omegaDelta_lt L P _ (lgp_teamAggs_lt h1 h2))).2
    ((omegaDelta .TMP L' P (teamAggs teams dense))[i]'(omegaDelta_lt L' P _ (lgp_teamAggs_lt h1 h2))).1
    ((omegaDelta .TMP L' P (teamAggs teams dense))[i]'(omegaDelta_lt L' P _ (lgp_teamAggs_lt h1 h2))).2
    (teams[i][j])
  have hshare : 0 ≤ teams[i][j].sigma * teams[i][j].sigma
      / ((teamAggs teams dense)[i]'(lgp_teamAggs_lt h1 h2)).sig2 :=
    div_nonneg (mul_self_nonneg _) hsi
  constructor
  · rw [e2]; exact mul_le_mul_of_nonneg_left g1 hshare
  · exact e3.trans (mul_le_mul_of_nonneg_left g2 (mul_nonneg (sq_nonneg _) hshare))

/-! ### the instance: the code's leaves against the exact ones -/

/-- **The code's leaves are within their documented errors of the exact ones**, for every `x` and
every positive margin `t` (no upper restriction on `t`):
* `v`: equal off the guard `Φ(x−t) < 2⁻⁵²`; on it within `V/64` (`C17_v_asym_error`);
* `w`: equal off the guard; on it within `1/50` when `x < 0` (`C17_w_asym_error`); in the corner
  `x ≥ 0` on the guard — only reachable with a margin `t > 8` — the code returns 0 where the exact
  value lies in `(0.98, 1)`, so there the error bound is the trivial 1 (`C17_w_asym_nonneg_x`);
  `codeGapW_of_le_eight` states that for `t ≤ 8` the error is the plain "1/50 on the guard, else 0";
* `vt`: within `2t` (`C17_vt_within_2t`);
* `wt`: within `4t²` — taken as the hypothesis `hwt` (proved separately as `C17_wt_code_error`). -/
theorem leafGap_code_exact
    (hwt : ∀ x t : ℝ, 0 < t → |wtCode x t - wtExact x t| ≤ 4 * t ^ 2) :
    LeafGap (codeLeaves : Leaves ℝ) exactLeaves codeGapV codeGapW codeGapVt codeGapWt where
  v x t _ := lgp_v_gap x t
  w x t _ := lgp_w_gap x t
  vt x t ht := C17_vt_within_2t x t ht
  wt x t ht := hwt x t ht

/-- for margins `t ≤ 8` (every sensible configuration: `t = κ/c_iq` with `κ = 10⁻⁴`) the `w` error
is `1/50` on the guard and `0` off it -/
theorem codeGapW_of_le_eight {x t : ℝ} (ht : t ≤ 8) :
    codeGapW x t = if Gauss.Phi (x - t) < epsF then 1 / 50 else 0 :=
  lgp_codeGapW_of_le_eight ht

/-- off the guard of `v`/`w` (that is, unless `x − t < −8`, `C17_asymptote_below_minus_8`) the `v`
and `w` errors vanish: the only leaf errors left in a game whose scaled mean differences stay
above `−8` are those of the tie leaves, `2t` and `4t²` -/
theorem codeGapVW_eq_zero {x t : ℝ} (hx : -8 ≤ x - t) : codeGapV x t = 0 ∧ codeGapW x t = 0 := by
  have hn : ¬ Gauss.Phi (x - t) < epsF := fun hg => by
    have := C17_asymptote_below_minus_8 hg
    linarith
  simp only [codeGapV, codeGapW, if_neg hn, and_self]

/-- **Headline, full pairing**: the code's Thurstone–Mosteller `(Ω_i, Δ_i)` against the ones
computed with the paper's exact `V, W, Ṽ, W̃`: they differ by at most the summed per-pair errors
of the code's leaves (`codeGapV/W/Vt/Wt`). -/
theorem C01_code_vs_exact_TMF
    (hwt : ∀ x t : ℝ, 0 < t → |wtCode x t - wtExact x t| ≤ 4 * t ^ 2)
    (P : Params ℝ) (ts : List (TeamAgg ℝ))
    (hk : 0 < P.kappa) (hs : ∀ a ∈ ts, 0 ≤ a.sig2)
    (hpos : ∀ a ∈ ts, ∀ b ∈ ts, 0 < a.sig2 + b.sig2 + 2 * (P.beta * P.beta))
    (i : Nat) (hi : i < ts.length) :
    |((omegaDelta .TMF codeLeaves P ts)[i]'(omegaDelta_lt _ P ts hi)).1
        - ((omegaDelta .TMF exactLeaves P ts)[i]'(omegaDelta_lt _ P ts hi)).1|
      ≤ ((othersOf ts i).map (pairGapΩ codeGapV codeGapVt 1 P.beta P.kappa ts[i])).sum ∧
    |((omegaDelta .TMF codeLeaves P ts)[i]'(omegaDelta_lt _ P ts hi)).2
        - ((omegaDelta .TMF exactLeaves P ts)[i]'(omegaDelta_lt _ P ts hi)).2|
      ≤ ((othersOf ts i).map
          (pairGapΔ codeGapW codeGapWt 1 P.beta P.kappa P.gamma ts.length ts[i])).sum :=
  C01_leaf_gap_TMF (leafGap_code_exact hwt) P ts hk hs hpos i hi

/-- **Headline, partial pairing.** -/
theorem C01_code_vs_exact_TMP
    (hwt : ∀ x t : ℝ, 0 < t → |wtCode x t - wtExact x t| ≤ 4 * t ^ 2)
    (P : Params ℝ) (ts : List (TeamAgg ℝ))
    (hk : 0 < P.kappa) (hs : ∀ a ∈ ts, 0 ≤ a.sig2)
    (hpos : ∀ a ∈ ts, ∀ b ∈ ts, 0 < a.sig2 + b.sig2 + 2 * (P.beta * P.beta))
    (i : Nat) (hi : i < ts.length) :
    |((omegaDelta .TMP codeLeaves P ts)[i]'(omegaDelta_lt _ P ts hi)).1
        - ((omegaDelta .TMP exactLeaves P ts)[i]'(omegaDelta_lt _ P ts hi)).1|
      ≤ ((neighboursOf ts i).map (pairGapΩ codeGapV codeGapVt 2 P.beta P.kappa ts[i])).sum ∧
    |((omegaDelta .TMP codeLeaves P ts)[i]'(omegaDelta_lt _ P ts hi)).2
        - ((omegaDelta .TMP exactLeaves P ts)[i]'(omegaDelta_lt _ P ts hi)).2|
      ≤ ((neighboursOf ts i).map
          (pairGapΔ codeGapW codeGapWt 2 P.beta P.kappa P.gamma ts.length ts[i])).sum :=
  C01_leaf_gap_TMP (leafGap_code_exact hwt) P ts hk hs hpos i hi

/-! ### non-vacuity -/

/-- the hypotheses of the team-level theorems are satisfiable, and the right-hand side evaluates:
two tied teams with `σ² = 1`, `β = 1`, `κ = 10⁻⁴` give `c = 2`, `t = κ/2`, and the Ω bound
for team 0 under `(εvt x t = 2t)` is `σ²/c · 2t = 1/20000`. -/
example :
    let P : Params ℝ := ⟨1, 1 / 10000, 0, false, .dflt⟩
    let ts : List (TeamAgg ℝ) := [⟨25, 1, 0, []⟩, ⟨30, 1, 0, []⟩]
    0 < P.kappa ∧ (∀ a ∈ ts, 0 ≤ a.sig2) ∧
    (∀ a ∈ ts, ∀ b ∈ ts, 0 < a.sig2 + b.sig2 + 2 * (P.beta * P.beta)) ∧
    ((othersOf ts 0).map (pairGapΩ codeGapV codeGapVt 1 P.beta P.kappa ts[0])).sum = 1 / 20000 := by
  intro P ts
  have h4 : √(1 + 1 + 2 * (1 * 1) : ℝ) = 2 := by
    rw [show (1 + 1 + 2 * (1 * 1) : ℝ) = 2 ^ 2 by norm_num]
    exact Real.sqrt_sq (by norm_num)
  refine ⟨by norm_num [P], ?_, ?_, ?_⟩
  · intro a ha
    simp only [ts, List.mem_cons, List.not_mem_nil, or_false] at ha
    rcases ha with rfl | rfl <;> norm_num
  · intro a ha b hb
    simp only [ts, List.mem_cons, List.not_mem_nil, or_false] at ha hb
    rcases ha with rfl | rfl <;> rcases hb with rfl | rfl <;> norm_num [P]
  · have ho : othersOf ts 0 = [⟨30, 1, 0, []⟩] := rfl
    rw [ho]
    simp only [List.map_cons, List.map_nil, List.sum_cons, List.sum_nil, add_zero]
    show pairGapΩ codeGapV codeGapVt 1 1 (1 / 10000) ⟨25, 1, 0, []⟩ ⟨30, 1, 0, []⟩ = 1 / 20000
    simp only [pairGapΩ, pairLeafErr, lgp_tmC, codeGapVt, h4, lt_irrefl, if_false]
    norm_num

/-- and the leaf-gap interface is inhabited non-trivially: any leaf record against itself, and the
code against the exact leaves as soon as the `wt` bound is supplied -/
example (L : Leaves ℝ) : LeafGap L L (fun _ _ => 0) (fun _ _ => 0) (fun _ _ => 0) (fun _ _ => 0) :=
  LeafGap.refl L

end OS
end
