#!/usr/bin/env python3
"""
py2lean: a translator from the straight-line numeric functions of openskill.py to Lean 4 definitions over the model's
`Scalar` class, plus the tie theorems that say "the generated definition IS the hand-written model definition".

    tools/py2lean.py [--repo /repo] [--out FILE]        print / write the generated Lean file

Translated (regenerated from the source text on every check run, see harness/gentie.py):
    openskill/models/weng_lin/common.py     v, w, vt, wt                       -> OS.Gen.v …      = vCode wCode vtCode wtCode
                                            phi_major / phi_minor / phi_major_inverse: recognised as Φ, φ, Φ⁻¹ (shape check only:
                                            the `Scalar` class has Φ as a primitive; its accuracy is C17's sweep)
    openskill/models/common.py              _unary_minus                       -> OS.Gen.unaryMinus
    each of the five model files            <Rating>.ordinal, __lt__ __le__ __gt__ __ge__ __eq__, _gamma
                                                                                -> OS.Gen.ordinal_K … = ordinal, cmpOp, eqOp, gammaVal .dflt

The Python subset: `def` with positional parameters; a body of docstring, `name = expr`, `if cond: … [else: …]` whose branches end in
`return`/`raise`, `return expr`; expressions: names, int/float literals, `+ - * /`, unary minus, `**2`, one comparison
(`< <= > >= ==`), `a and b`, `x if c else y`, `abs(x)`, calls of the translated/recognised functions, `math.sqrt`, `self.attr`,
`sys.float_info.epsilon`, `isinstance(other, <own class>)`, `NotImplemented`.  Anything else raises `Untranslatable` (reported by the
caller as "static tie not established"; never an alarm by itself).
"""
import ast, hashlib, os, sys

KINDS = [("PL", "plackett_luce.py", "PlackettLuceRating"), ("BTF", "bradley_terry_full.py", "BradleyTerryFullRating"),
         ("BTP", "bradley_terry_part.py", "BradleyTerryPartRating"), ("TMF", "thurstone_mosteller_full.py", "ThurstoneMostellerFullRating"),
         ("TMP", "thurstone_mosteller_part.py", "ThurstoneMostellerPartRating")]


class Untranslatable(Exception):
    pass


def fail(node, why):
    raise Untranslatable("%s (line %s: %s)" % (why, getattr(node, "lineno", "?"), ast.unparse(node)[:80] if node is not None else ""))


class Fn:
    """translation context of one function"""

    def __init__(self, name, scalars, calls, attrs=None, own_class=None):
        self.name = name
        self.scalars = set(scalars)          # names bound to scalars
        self.calls = calls                   # python callee name -> (lean name, arity)
        self.attrs = attrs or {}             # ('self','mu') -> lean expr
        self.own_class = own_class

    # ---------------------------------------------------------------- expressions (scalar valued)
    def num(self, v, node):
        if isinstance(v, bool):
            fail(node, "bool literal in scalar position")
        if isinstance(v, int):
            if v < 0:
                fail(node, "negative literal")
            return "ofNat %d" % v
        if isinstance(v, float):
            if v == int(v) and abs(v) < 2 ** 53:
                return "ofNat %d" % int(v)
            # a decimal literal m·10^-k written in the source: the double nearest to it is what `ofNat m / ofNat 10^k` rounds to
            # whenever m and 10^k are exactly representable and the quotient is correctly rounded (IEEE division is)
            from fractions import Fraction
            from decimal import Decimal
            src = ast.get_source_segment(self.src, node) or repr(v)
            fr = Fraction(Decimal(src))
            if fr.numerator < 2 ** 53 and fr.denominator < 2 ** 53 and float(fr.numerator) / float(fr.denominator) == v:
                return "(ofNat %d / ofNat %d)" % (fr.numerator, fr.denominator)
            fail(node, "float literal without an exact small-fraction form")
        fail(node, "literal of unsupported type")

    def expr(self, e):
        if isinstance(e, ast.Constant):
            return self.num(e.value, e)
        if isinstance(e, ast.Name):
            if e.id in self.scalars:
                return e.id
            fail(e, "unknown name")
        if isinstance(e, ast.Attribute):
            src = ast.unparse(e)
            if src == "sys.float_info.epsilon":
                return "epsF"
            if isinstance(e.value, ast.Name) and (e.value.id, e.attr) in self.attrs:
                return self.attrs[(e.value.id, e.attr)]
            fail(e, "unknown attribute")
        if isinstance(e, ast.UnaryOp) and isinstance(e.op, ast.USub):
            return "(-%s)" % self.expr(e.operand)
        if isinstance(e, ast.BinOp):
            if isinstance(e.op, ast.Pow):
                if isinstance(e.right, ast.Constant) and e.right.value == 2:
                    a = self.expr(e.left)
                    return "(%s * %s)" % (a, a)
                fail(e, "power other than **2")
            ops = {ast.Add: "+", ast.Sub: "-", ast.Mult: "*", ast.Div: "/"}
            if type(e.op) not in ops:
                fail(e, "unsupported binary operator")
            return "(%s %s %s)" % (self.expr(e.left), ops[type(e.op)], self.expr(e.right))
        if isinstance(e, ast.IfExp):
            return "(if %s then %s else %s)" % (self.cond(e.test), self.expr(e.body), self.expr(e.orelse))
        if isinstance(e, ast.Call):
            f = ast.unparse(e.func)
            if e.keywords:
                fail(e, "keyword arguments")
            if f == "abs" and len(e.args) == 1:
                return "(sabs %s)" % self.expr(e.args[0])
            if f == "math.sqrt" and len(e.args) == 1:
                return "(sqrt %s)" % self.expr(e.args[0])
            if f == "self.ordinal" and not e.args and ("self", "ordinal") in self.attrs:
                return self.attrs[("self", "ordinal")]
            if f == "other.ordinal" and not e.args and ("other", "ordinal") in self.attrs:
                return self.attrs[("other", "ordinal")]
            if f in self.calls and len(e.args) == self.calls[f][1]:
                return "(%s %s)" % (self.calls[f][0], " ".join(self.expr(a) for a in e.args))
            fail(e, "call of an untranslated function")
        fail(e, "unsupported expression")

    def cond(self, c):
        if isinstance(c, ast.Compare) and len(c.ops) == 1:
            a, b = self.expr(c.left), self.expr(c.comparators[0])
            op = c.ops[0]
            if isinstance(op, ast.Lt):
                return "%s < %s" % (a, b)
            if isinstance(op, ast.LtE):
                return "%s ≤ %s" % (a, b)
            if isinstance(op, ast.Gt):
                return "%s < %s" % (b, a)
            if isinstance(op, ast.GtE):
                return "%s ≤ %s" % (b, a)
            if isinstance(op, ast.Eq):
                return "feq %s %s = true" % (a, b)
            fail(c, "unsupported comparison")
        if isinstance(c, ast.BoolOp) and isinstance(c.op, ast.And):
            return " ∧ ".join("(%s)" % self.cond(v) for v in c.values)
        fail(c, "unsupported condition")

    # ---------------------------------------------------------------- statements
    def block(self, stmts, ret, indent):
        """translate a statement list that must end in return/raise on every path; `ret(e)` renders a returned expression"""
        pad = "  " * indent
        if not stmts:
            fail(None, "control reaches the end of %s without return" % self.name)
        s, rest = stmts[0], stmts[1:]
        if isinstance(s, ast.Expr) and isinstance(s.value, ast.Constant) and isinstance(s.value.value, str):
            return self.block(rest, ret, indent)
        if isinstance(s, ast.Assign) and len(s.targets) == 1 and isinstance(s.targets[0], ast.Name):
            rhs = self.expr(s.value)
            self.scalars.add(s.targets[0].id)
            return "%slet %s := %s\n%s" % (pad, s.targets[0].id, rhs, self.block(rest, ret, indent))
        if isinstance(s, ast.Return):
            if rest:
                fail(rest[0], "statements after return")
            return pad + ret(s.value)
        if isinstance(s, ast.Raise):
            return pad + ret(s)
        if isinstance(s, ast.If):
            if isinstance(s.test, ast.Call) and ast.unparse(s.test.func) == "isinstance":
                return self.isinstance_split(s, rest, ret, indent)
            c = self.cond(s.test)
            saved = set(self.scalars)
            then = self.block(s.body, ret, indent + 1)
            self.scalars = set(saved)
            els = self.block((s.orelse or []) + rest, ret, indent + 1)   # `if c: return A` followed by the rest = else-branch
            self.scalars = saved
            if s.orelse and rest:
                fail(rest[0], "statements after an if/else whose branches return")
            return "%sif %s then\n%s\n%selse\n%s" % (pad, c, then, pad, els)
        fail(s, "unsupported statement")

    def isinstance_split(self, s, rest, ret, indent):
        pad = "  " * indent
        a = s.test.args
        if not (len(a) == 2 and ast.unparse(a[0]) == "other" and ast.unparse(a[1]) == self.own_class):
            fail(s.test, "isinstance test other than isinstance(other, <own class>)")
        if rest:
            fail(rest[0], "statements after the isinstance split")
        then = self.block(s.body, ret, indent + 2)
        els = self.block(s.orelse, ret, indent + 2)
        return "%smatch b with\n%s| .same other =>\n%s\n%s| .foreign =>\n%s" % (pad, pad, then, pad, els)


def get_fn(tree, name, cls=None):
    body = tree.body
    if cls:
        for n in body:
            if isinstance(n, ast.ClassDef) and n.name == cls:
                body = n.body
                break
        else:
            raise Untranslatable("class %s not found" % cls)
    for n in body:
        if isinstance(n, ast.FunctionDef) and n.name == name:
            if n.decorator_list:
                fail(n, "decorated function")
            return n
    raise Untranslatable("function %s%s not found" % (cls + "." if cls else "", name))


def params(fn, skip_self=False):
    a = fn.args
    if a.vararg or a.kwarg or a.kwonlyargs or a.posonlyargs:
        fail(fn, "unsupported parameter kinds")
    names = [x.arg for x in a.args]
    return names[1:] if skip_self else names


def recognise_primitive(tree, name, shapes):
    """phi_major etc.: not translated (Φ is a primitive of the Scalar class) but its text must have one of the known shapes"""
    fn = get_fn(tree, name)
    body = [s for s in fn.body if not (isinstance(s, ast.Expr) and isinstance(s.value, ast.Constant))]
    if len(body) == 1 and isinstance(body[0], ast.Return):
        txt = ast.unparse(body[0].value)
        if txt in shapes:
            return txt
    raise Untranslatable("%s is not one of the recognised forms %s" % (name, shapes))


def translate(repo):
    out, notes = [], []

    def attempt(label, thunk):
        """translate one function; a function outside the subset is recorded, the others are still translated and tied"""
        mark = len(out)
        try:
            thunk()
        except Untranslatable as e:
            del out[mark:]
            out.append("-- UNTRANSLATABLE %s: %s\n" % (label, str(e).replace("\n", " ")))
    wl = os.path.join(repo, "openskill", "models", "weng_lin")
    csrc = open(os.path.join(wl, "common.py")).read()
    ctree = ast.parse(csrc)
    h = hashlib.sha256()
    h.update(csrc.encode())
    # ---- primitives
    for pname, shapes in (("phi_major", ["0.5 * math.erfc(-x / math.sqrt(2.0))"]), ("phi_minor", ["_normal.pdf(x)"]),
                          ("phi_major_inverse", ["_normal.inv_cdf(x)"])):
        try:
            notes.append(pname + " := " + recognise_primitive(ctree, pname, shapes))
        except Untranslatable as e:
            out.append("-- UNTRANSLATABLE %s: %s\n" % (pname, e))
    prim = {"phi_major": ("Phi", 1), "phi_minor": ("phi", 1), "phi_major_inverse": ("PhiInv", 1)}
    out.append("/-! ### openskill/models/weng_lin/common.py -/")
    leafs = {}
    for name, model in (("v", "vCode"), ("w", "wCode"), ("vt", "vtCode"), ("wt", "wtCode")):
        def leaf(name=name, model=model):
            fn = get_fn(ctree, name)
            ps = params(fn)
            if ps != ["x", "t"]:
                fail(fn, "parameters of %s are not (x, t)" % name)
            calls = dict(prim)
            calls.update(leafs)
            f = Fn(name, ps, calls)
            f.src = csrc
            body = f.block(fn.body, lambda e: f.expr(e) if not isinstance(e, ast.Raise) else fail(e, "raise in a leaf"), 1)
            out.append("def %s (x t : α) : α :=\n%s\n" % (name, body))
            out.append("theorem %s_eq (x t : α) : Gen.%s x t = %s x t := by\n  rfl\n" % (name, name, model))
            leafs[name] = ("Gen." + name, 2)
        attempt(name, leaf)
    # ---- models/common.py
    msrc = open(os.path.join(repo, "openskill", "models", "common.py")).read()
    h.update(msrc.encode())
    mtree = ast.parse(msrc)
    out.append("/-! ### openskill/models/common.py -/")

    def unary():
        fn = get_fn(mtree, "_unary_minus")
        f = Fn("_unary_minus", params(fn), {})
        f.src = msrc
        out.append("def unaryMinus (%s : α) : α :=\n%s\n" % (params(fn)[0], f.block(fn.body, f.expr, 1)))
        out.append("theorem unaryMinus_eq (a : α) : Gen.unaryMinus a = -a := rfl\n")
    attempt("_unary_minus", unary)
    # ---- the five model files
    for kind, fname, cls in KINDS:
        src = open(os.path.join(wl, fname)).read()
        h.update(src.encode())
        try:
            tree = ast.parse(src)
        except SyntaxError as e:
            out.append("-- UNTRANSLATABLE %s: %s\n" % (fname, e))
            continue
        out.append("/-! ### openskill/models/weng_lin/%s -/" % fname)
        have_ordinal = [False]

        def ordinal_(kind=kind, cls=cls, tree=tree, src=src):
            fn = get_fn(tree, "ordinal", cls)
            ps = params(fn, skip_self=True)
            if ps != ["z"] or len(fn.args.defaults) != 1 or not isinstance(fn.args.defaults[0], ast.Constant) or fn.args.defaults[0].value != 3.0:
                fail(fn, "ordinal's signature is not (self, z=3.0)")
            f = Fn("ordinal", ps, {}, attrs={("self", "mu"): "self.mu", ("self", "sigma"): "self.sigma"})
            f.src = src
            out.append("def ordinal_%s (z : α) (self : Rating α) : α :=\n%s\n" % (kind, f.block(fn.body, f.expr, 1)))
            out.append("theorem ordinal_%s_eq (z : α) (r : Rating α) : Gen.ordinal_%s z r = ordinal z r := rfl\n" % (kind, kind))
            have_ordinal[0] = True
        attempt("ordinal_" + kind, ordinal_)
        # order operators and ==   (when `ordinal` itself could not be translated the operators are translated against the model's ordinal)
        ordf = ("Gen.ordinal_%s" % kind) if have_ordinal[0] else "ordinal"
        attrs = {("self", "mu"): "self.mu", ("self", "sigma"): "self.sigma", ("other", "mu"): "other.mu", ("other", "sigma"): "other.sigma",
                 ("self", "ordinal"): "(%s three self)" % ordf, ("other", "ordinal"): "(%s three other)" % ordf}
        for meth, op in (("__lt__", "lt"), ("__le__", "le"), ("__gt__", "gt"), ("__ge__", "ge")):
            def cmp_(meth=meth, op=op, kind=kind, cls=cls, tree=tree, src=src, attrs=attrs, ordf=ordf):
                fn = get_fn(tree, meth, cls)
                if params(fn, skip_self=True) != ["other"]:
                    fail(fn, "parameters")
                f = Fn(meth, [], {}, attrs=attrs, own_class=cls)
                f.src = src

                def ret(e):
                    if isinstance(e, ast.Raise):
                        if e.exc is not None and ast.unparse(e.exc).startswith("ValueError"):
                            return ".valueError"
                        fail(e, "raise of something other than ValueError")
                    if isinstance(e, ast.Constant) and e.value is True:
                        return ".bool true"
                    if isinstance(e, ast.Constant) and e.value is False:
                        return ".bool false"
                    return ".bool (decide (%s))" % f.cond(e)
                out.append("def %s_%s (self : Rating α) (b : Operand α) : CmpOut :=\n%s\n" % (op, kind, f.block(fn.body, ret, 1)))
                out.append("theorem %s_%s_eq (a : Rating α) (b : Operand α) : Gen.%s_%s a b = cmpOp .%s a b := by\n"
                           "  cases b <;> simp only [Gen.%s_%s, cmpOp] <;> (try unfold %s ordinal) <;> (try split) <;> simp_all\n" % (
                               op, kind, op, kind, op, op, kind, ordf if ordf != "ordinal" else ""))
            attempt("%s_%s" % (op, kind), cmp_)

        def eq_(kind=kind, cls=cls, tree=tree, src=src, attrs=attrs):
            fn = get_fn(tree, "__eq__", cls)
            if params(fn, skip_self=True) != ["other"]:
                fail(fn, "parameters")
            f = Fn("__eq__", [], {}, attrs=attrs, own_class=cls)
            f.src = src

            def reteq(e):
                if isinstance(e, ast.Raise):
                    fail(e, "raise in __eq__")
                if isinstance(e, ast.Constant) and e.value is True:
                    return "true"
                if isinstance(e, ast.Constant) and e.value is False:
                    return "false"
                if isinstance(e, ast.Name) and e.id == "NotImplemented":
                    return "false   -- NotImplemented: Python falls back to identity, a foreign operand is another object"
                return "decide (%s)" % f.cond(e)
            out.append("def eq_%s (self : Rating α) (b : Operand α) : Bool :=\n%s\n" % (kind, f.block(fn.body, reteq, 1)))
            out.append("theorem eq_%s_eq (a : Rating α) (b : Operand α) : Gen.eq_%s a b = eqOp a b := by\n"
                       "  cases b <;> simp only [Gen.eq_%s, eqOp] <;> (try split) <;> simp_all\n" % (kind, kind, kind))
        attempt("eq_" + kind, eq_)

        def gamma_(kind=kind, tree=tree, src=src):
            fn = get_fn(tree, "_gamma")
            ps = params(fn)
            if ps != ["c", "k", "mu", "sigma_squared", "team", "rank"]:
                fail(fn, "parameters of _gamma")
            f = Fn("_gamma", ["c", "mu", "sigma_squared"], {})
            f.src = src
            out.append("def gamma_%s (c : α) (k : Nat) (mu sigma_squared : α) (team : List (Rating α)) (rank : Nat) : α :=\n%s\n" % (kind, f.block(fn.body, f.expr, 1)))
            out.append("theorem gamma_%s_eq (c : α) (k : Nat) (mu s2 : α) (team : List (Rating α)) (rank : Nat) :\n"
                       "    Gen.gamma_%s c k mu s2 team rank = GAMMAVAL_DFLT := rfl\n" % (kind, kind))
        attempt("gamma_" + kind, gamma_)
    header = ("import OSModel\n/-!\n# Generated by tools/py2lean.py from the source text of openskill.py — do not edit\n\n"
              "source digest (common.py, models/common.py, the five model files): %s\n\n"
              "Every `def` below is a mechanical translation of one Python function; every `theorem …_eq` says that the translation IS the\n"
              "hand-written model definition the theorems of OSProofs are about (for every scalar type, so also at `Float`).\n"
              "recognised primitives: %s\n-/\nset_option linter.unusedVariables false\nset_option linter.unusedSectionVars false\nnamespace OS\nnamespace Gen\nopen Scalar\nvariable {α : Type} [Scalar α]\n\n" % (h.hexdigest()[:16], "; ".join(notes)))
    return header + "\n".join(out) + "\n/-! ### constructing and copying ratings (rating classes, model.rating, model.create_rating) -/\n" + translate_construction(repo) + "\nend Gen\nend OS\n"


GAMMAVAL_OLD = "gammaVal .dflt c k mu s2 rank"
GAMMAVAL_NEW = "gammaVal .dflt c k mu s2 team rank"


def render(repo, lean_dir=None):
    txt = translate(repo)
    # the signature of gammaVal in the model (with or without the `team` argument)
    team_arg = False
    if lean_dir:
        t = open(os.path.join(lean_dir, "OSModel", "Team.lean")).read()
        team_arg = "(team : List (Rating α))" in t.split("def gammaVal")[1].split(":=")[0]
    return txt.replace("GAMMAVAL_DFLT", GAMMAVAL_NEW if team_arg else GAMMAVAL_OLD)


# ------------------------------------------------------------------------------------------------------------------
# the argument validation (`_check_teams`, the head of `rate`): translated into a term of the deep embedding OSModel/VLang.lean
def _vtest(t, own_cls):
    if isinstance(t, ast.Name):
        return '(.truthy "%s")' % t.id
    if isinstance(t, ast.UnaryOp) and isinstance(t.op, ast.Not):
        return "(.not %s)" % _vtest(t.operand, own_cls)
    if isinstance(t, ast.BoolOp) and isinstance(t.op, ast.And) and len(t.values) == 2:
        return "(.and %s %s)" % (_vtest(t.values[0], own_cls), _vtest(t.values[1], own_cls))
    if isinstance(t, ast.Call) and ast.unparse(t.func) == "isinstance" and len(t.args) == 2 and isinstance(t.args[0], ast.Name):
        x, ty = t.args[0].id, ast.unparse(t.args[1])
        if ty == "list":
            return '(.isList "%s")' % x
        if ty in ("(int, float)", "(float, int)"):
            return '(.isNumber "%s")' % x
        if ty == own_cls:
            return '(.isOwnRating "%s")' % x
        fail(t, "isinstance against an unsupported type")
    if isinstance(t, ast.Compare) and len(t.ops) == 1:
        l, r = t.left, t.comparators[0]

        def is_len(e):
            return isinstance(e, ast.Call) and ast.unparse(e.func) == "len" and len(e.args) == 1 and isinstance(e.args[0], ast.Name)
        if is_len(l) and isinstance(t.ops[0], ast.Lt) and isinstance(r, ast.Constant) and isinstance(r.value, int):
            return '(.lenLt "%s" %d)' % (l.args[0].id, r.value)
        if is_len(l) and is_len(r) and isinstance(t.ops[0], ast.NotEq):
            return '(.lenNe "%s" "%s")' % (l.args[0].id, r.args[0].id)
    fail(t, "unsupported test in validation code")


def _vstmts(stmts, own_cls, inline):
    out = None
    for s_ in stmts:
        if isinstance(s_, ast.Expr) and isinstance(s_.value, ast.Constant) and isinstance(s_.value.value, str):
            continue
        if isinstance(s_, ast.Pass):
            t = ".pass"
        elif isinstance(s_, ast.Raise):
            exc = ast.unparse(s_.exc.func) if isinstance(s_.exc, ast.Call) else ast.unparse(s_.exc) if s_.exc is not None else ""
            if exc not in ("TypeError", "ValueError"):
                fail(s_, "raise of something other than TypeError/ValueError")
            t = "(.raise .%s)" % exc
        elif isinstance(s_, ast.If):
            t = "(.ite %s %s %s)" % (_vtest(s_.test, own_cls), _vstmts(s_.body, own_cls, inline), _vstmts(s_.orelse, own_cls, inline))
        elif isinstance(s_, ast.For) and isinstance(s_.target, ast.Name) and isinstance(s_.iter, ast.Name) and not s_.orelse:
            t = '(.forIn "%s" "%s" %s)' % (s_.target.id, s_.iter.id, _vstmts(s_.body, own_cls, inline))
        elif isinstance(s_, ast.Expr) and isinstance(s_.value, ast.Call) and ast.unparse(s_.value.func) in ("self._check_teams", "%s._check_teams" % own_cls.replace("Rating", "")) \
                and [ast.unparse(a) for a in s_.value.args] == ["teams"] and inline is not None:
            t = inline
        else:
            fail(s_, "unsupported statement in validation code")
        out = t if out is None else "(.seq %s %s)" % (out, t)
    return out or ".pass"


def translate_validation(repo):
    """-> {kind: (checkTeams term, rateHead term) | Untranslatable text}"""
    wl = os.path.join(repo, "openskill", "models", "weng_lin")
    res = {}
    for kind, fname, cls in KINDS:
        try:
            tree = ast.parse(open(os.path.join(wl, fname)).read())
            model_cls = None
            for n in tree.body:
                if isinstance(n, ast.ClassDef) and any(isinstance(m, ast.FunctionDef) and m.name == "rate" for m in n.body):
                    model_cls = n
            if model_cls is None:
                raise Untranslatable("model class not found")
            ct = [m for m in model_cls.body if isinstance(m, ast.FunctionDef) and m.name == "_check_teams"]
            rt = [m for m in model_cls.body if isinstance(m, ast.FunctionDef) and m.name == "rate"]
            if len(ct) != 1 or len(rt) != 1:
                raise Untranslatable("_check_teams / rate not found")
            if [a.arg for a in ct[0].args.args] != ["teams"]:
                fail(ct[0], "parameters of _check_teams")
            if [a.arg for a in rt[0].args.args][:4] != ["self", "teams", "ranks", "scores"]:
                fail(rt[0], "parameters of rate")
            check = _vstmts(ct[0].body, cls, None)
            head = []
            for s_ in rt[0].body:
                if isinstance(s_, ast.Expr) and isinstance(s_.value, ast.Constant):
                    continue
                if isinstance(s_, (ast.If, ast.For, ast.Raise, ast.Pass)) or (isinstance(s_, ast.Expr) and isinstance(s_.value, ast.Call) and "_check_teams" in ast.unparse(s_.value.func)):
                    head.append(s_)
                else:
                    break                    # the first statement that is not validation (the deep copy of the teams)
            res[kind] = (check, _vstmts(head, cls, check))
        except Untranslatable as e:
            res[kind] = str(e)
    return res


def render_validation(repo):
    tr = translate_validation(repo)
    out = ["import OSModel\nimport OSProofs.VLangTie\n/-!\n# Generated by tools/py2lean.py from `_check_teams` and the head of `rate` of the five model files — do not edit\n\n"
           "Each `def` is the source text of the validation code as a term of the embedded statement language `VStmt` (OSModel/VLang.lean); each\n"
           "theorem says that running it (`exec`) gives exactly the model's `checkTeams` / `validateRate` verdict for EVERY argument triple.\n-/\n"
           "namespace OS\nnamespace Gen\n"]
    for kind, _f, _c in KINDS:
        v = tr[kind]
        if isinstance(v, str):
            out.append("-- UNTRANSLATABLE validation_%s: %s\n" % (kind, v.replace("\n", " ")))
            continue
        check, head = v
        out.append("def checkTeams_%s : VStmt :=\n  %s\n" % (kind, check))
        out.append("def rateHead_%s : VStmt :=\n  %s\n" % (kind, head))
        out.append("theorem checkTeams_%s_eq (t : PyVal) : exec .%s Gen.checkTeams_%s [(\"teams\", t)] = checkTeams .%s t :=\n"
                   "  VLangTie.exec_checkTeams .%s Gen.checkTeams_%s rfl t\n" % (kind, kind, kind, kind, kind, kind))
        out.append("theorem rateHead_%s_eq (t r s : PyVal) :\n    exec .%s Gen.rateHead_%s [(\"teams\", t), (\"ranks\", r), (\"scores\", s)] = validateRate .%s t r s :=\n"
                   "  VLangTie.exec_rateHead .%s Gen.rateHead_%s rfl t r s\n" % (kind, kind, kind, kind, kind, kind))
    out.append("end Gen\nend OS\n")
    return "\n".join(out)


# ------------------------------------------------------------------------------------------------------------------
# constructing and copying ratings (C20): the rating class's __init__ and __deepcopy__, the model's rating() and create_rating()
def _ctor_fields(init_fn):
    """__init__(self, mu, sigma, name=None) -> which expression each attribute receives; id must be a fresh uuid"""
    ps = [a.arg for a in init_fn.args.args]
    if ps != ["self", "mu", "sigma", "name"]:
        fail(init_fn, "rating __init__ parameters")
    got = {}
    for s_ in init_fn.body:
        if isinstance(s_, ast.Expr) and isinstance(s_.value, ast.Constant):
            continue
        tgt = s_.target if isinstance(s_, ast.AnnAssign) else (s_.targets[0] if isinstance(s_, ast.Assign) and len(s_.targets) == 1 else None)
        if tgt is None or not (isinstance(tgt, ast.Attribute) and isinstance(tgt.value, ast.Name) and tgt.value.id == "self") or s_.value is None:
            fail(s_, "statement in rating __init__ other than self.attr = expr")
        got[tgt.attr] = ast.unparse(s_.value)
    if set(got) != {"id", "name", "mu", "sigma"}:
        fail(init_fn, "rating __init__ sets attributes %s" % sorted(got))
    if got["mu"] != "mu" or got["sigma"] != "sigma" or got["name"] != "name" or got["id"] not in ("uuid.uuid4().hex.lower()", "uuid.uuid4().hex"):
        fail(init_fn, "rating __init__ does not store its arguments unchanged / id is not a fresh uuid4: %r" % got)
    return True


def _ctor_call(e, rating_cls, env):
    """Cls(a, b[, c]) / self.Cls(...) / Cls(mu=a, sigma=b[, name=c]) -> (mu expr, sigma expr) as Lean terms"""
    if not (isinstance(e, ast.Call) and ast.unparse(e.func) in (rating_cls, "self." + rating_cls)):
        fail(e, "expected a call of the rating class")
    args = {}
    for i, a in enumerate(e.args):
        args[("mu", "sigma", "name")[i]] = a
    for k in e.keywords:
        args[k.arg] = k.value
    if "mu" not in args or "sigma" not in args:
        fail(e, "rating constructed without mu / sigma")

    def tr(x):
        if isinstance(x, ast.IfExp) and isinstance(x.test, ast.Compare) and len(x.test.ops) == 1 and isinstance(x.test.ops[0], ast.IsNot) \
                and isinstance(x.test.comparators[0], ast.Constant) and x.test.comparators[0].value is None \
                and ast.unparse(x.test.left) == ast.unparse(x.body) and ast.unparse(x.body) in env["opt"]:
            return "(match %s with | some v => v | none => %s)" % (ast.unparse(x.body), tr(x.orelse))
        src = ast.unparse(x)
        if src in env["plain"]:
            return env["plain"][src]
        fail(x, "unsupported constructor argument")
    return tr(args["mu"]), tr(args["sigma"])


def translate_construction(repo):
    wl = os.path.join(repo, "openskill", "models", "weng_lin")
    out = []
    for kind, fname, cls in KINDS:
        try:
            tree = ast.parse(open(os.path.join(wl, fname)).read())
            rcls = [n for n in tree.body if isinstance(n, ast.ClassDef) and n.name == cls][0]
            mcls = [n for n in tree.body if isinstance(n, ast.ClassDef) and any(isinstance(m, ast.FunctionDef) and m.name == "rate" for m in n.body)][0]
            fn = {m.name: m for m in rcls.body if isinstance(m, ast.FunctionDef)}
            mf = {m.name: m for m in mcls.body if isinstance(m, ast.FunctionDef)}
            _ctor_fields(fn["__init__"])
            # __deepcopy__: x = Cls(self.mu, self.sigma, self.name); x.id = self.id; return x
            body = [s_ for s_ in fn["__deepcopy__"].body if not (isinstance(s_, ast.Expr) and isinstance(s_.value, ast.Constant))]
            if not (len(body) == 3 and isinstance(body[0], ast.Assign) and isinstance(body[1], ast.Assign) and isinstance(body[2], ast.Return)):
                fail(fn["__deepcopy__"], "__deepcopy__ is not (construct; copy the id; return)")
            var = body[0].targets[0].id
            dm, ds = _ctor_call(body[0].value, cls, dict(opt=set(), plain={"self.mu": "self.mu", "self.sigma": "self.sigma"}))
            if ast.unparse(body[1]) != "%s.id = self.id" % var or ast.unparse(body[2].value) != var:
                fail(fn["__deepcopy__"], "__deepcopy__ does not copy the id onto the new object and return it")
            out.append("def deepcopy_%s (self : Rating α) : Rating α :=\n  { id := self.id, mu := %s, sigma := %s }\n" % (kind, dm, ds))
            out.append("theorem deepcopy_%s_eq (r : Rating α) : Gen.deepcopy_%s r = deepcopyRating r := rfl\n" % (kind, kind))
            # model.rating(mu=None, sigma=None, name=None)
            rf = mf["rating"]
            if [a.arg for a in rf.args.args] != ["self", "mu", "sigma", "name"] or [ast.unparse(d) for d in rf.args.defaults] != ["None", "None", "None"]:
                fail(rf, "signature of rating()")
            rb = [s_ for s_ in rf.body if not (isinstance(s_, ast.Expr) and isinstance(s_.value, ast.Constant))]
            if not (len(rb) == 1 and isinstance(rb[0], ast.Return)):
                fail(rf, "rating() is not a single return")
            rm, rs = _ctor_call(rb[0].value, cls, dict(opt={"mu", "sigma"}, plain={"self.mu": "selfMu", "self.sigma": "selfSigma"}))
            out.append("def rating_%s (selfMu selfSigma : α) (freshId : Nat) (mu sigma : Option α) : Rating α :=\n  { id := freshId, mu := %s, sigma := %s }\n" % (kind, rm, rs))
            out.append("theorem rating_%s_eq (dm ds : α) (i : Nat) (mu sigma : Option α) : Gen.rating_%s dm ds i mu sigma = mkRating dm ds i mu sigma := by\n"
                       "  cases mu <;> cases sigma <;> rfl\n" % (kind, kind))
            # create_rating(rating, name=None): every `return` builds Cls(mu=rating[0], sigma=rating[1] ...)
            cf = mf["create_rating"]
            rets = [n for n in ast.walk(cf) if isinstance(n, ast.Return)]
            if not rets:
                fail(cf, "create_rating has no return")
            pairs = set(_ctor_call(r_.value, cls, dict(opt=set(), plain={"rating[0]": "mu", "rating[1]": "sigma"})) for r_ in rets)
            if pairs != {("mu", "sigma")}:
                fail(cf, "create_rating does not build the rating from rating[0], rating[1]")
            out.append("def createRating_%s (freshId : Nat) (mu sigma : α) : Rating α :=\n  { id := freshId, mu := mu, sigma := sigma }\n" % kind)
            out.append("theorem createRating_%s_eq (i : Nat) (mu sigma : α) : Gen.createRating_%s i mu sigma = createRating i mu sigma := rfl\n" % (kind, kind))
            hs = [s_ for s_ in fn["__hash__"].body if isinstance(s_, ast.Return)]
            if not (hs and ast.unparse(hs[0].value) == "hash((self.id, self.mu, self.sigma))"):
                out.append("-- NOTE __hash__ of %s is not hash((self.id, self.mu, self.sigma))\n" % cls)
        except Untranslatable as e:
            out.append("-- UNTRANSLATABLE construction_%s: %s\n" % (kind, str(e).replace("\n", " ")))
        except (KeyError, IndexError) as e:
            out.append("-- UNTRANSLATABLE construction_%s: missing %s\n" % (kind, e))
    return "\n".join(out)


if __name__ == "__main__":
    import argparse
    ap = argparse.ArgumentParser()
    ap.add_argument("--repo", default=os.environ.get("OPENSKILL_REPO", "/repo"))
    ap.add_argument("--out", default=None)
    ap.add_argument("--validation", action="store_true", help="emit the validation tie file instead")
    a = ap.parse_args()
    here = os.path.dirname(os.path.dirname(os.path.abspath(__file__)))
    try:
        txt = render_validation(a.repo) if a.validation else render(a.repo, os.path.join(here, "lean"))
    except Untranslatable as e:
        print("UNTRANSLATABLE: %s" % e)
        sys.exit(3)
    if a.out:
        open(a.out, "w").write(txt)
    else:
        sys.stdout.write(txt)
