import OSProofs.RealInst
import Mathlib.Algebra.BigOperators.Group.List.Basic
/-!
# C04 — equivariance under reordering (players within a team; pair terms)

Over ℝ the left folds of the code are sums, and sums do not depend on the order of their terms.
-/
noncomputable section
namespace OS

/-- `sumL` is invariant under any permutation of its terms (over ℝ) -/
theorem sumL_perm {l l' : List ℝ} (h : l.Perm l') : sumL l = sumL l' := by
  rw [sumL_eq_sum, sumL_eq_sum]; exact h.sum_eq

/-- listing the players of a team in a different order leaves the team's mu and variance unchanged -/
theorem C04_teamAgg_perm {t t' : List (Rating ℝ)} (h : t.Perm t') (rk : Nat) :
    (teamAgg t rk).mu = (teamAgg t' rk).mu ∧ (teamAgg t rk).sig2 = (teamAgg t' rk).sig2 := by
  constructor
  · exact sumL_perm (h.map _)
  · exact sumL_perm (h.map _)

/-- the per-player update is applied player by player: a reordered team gets the reordered result -/
theorem C04_applyTeam_perm {t t' : TeamAgg ℝ} (κ ω δ : ℝ) (h : t.players.Perm t'.players)
    (hs : t.sig2 = t'.sig2) : (applyTeam κ t ω δ).Perm (applyTeam κ t' ω δ) := by
  unfold applyTeam
  rw [hs]
  exact h.map _

/-- full pairing: the (omega, delta) of a team is a sum over the other teams, so it does not depend
on the order in which the other teams are listed -/
theorem C04_sumPairs_perm {l l' : List (ℝ × ℝ)} (h : l.Perm l') : sumPairs l = sumPairs l' := by
  unfold sumPairs
  rw [sumL_perm (h.map _), sumL_perm (h.map _)]

/-- Plackett–Luce normaliser: `c` does not depend on the order of the teams -/
theorem C04_plC_perm {ts ts' : List (TeamAgg ℝ)} (β : ℝ) (h : ts.Perm ts') : plC β ts = plC β ts' := by
  unfold plC
  rw [sumL_perm (h.map _)]

end OS
end
