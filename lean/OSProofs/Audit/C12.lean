import OSProofs.Gauss
#print axioms Gauss.Phi_PhiInv
#print axioms Gauss.Phi_neg
