"""
Checks for C13 (malformed calls), C14 (statelessness), C18 (comparison operators),
C19 (five models differ only in the update rule), C20 (build / store / restore).
"""
import copy, decimal, fractions, hashlib, inspect, itertools, json, math, os, random, subprocess, sys, threading
import core
from core import (KINDS, MODEL_CLS, RATING_CLS, make_game, build_model, build_teams, call_rate, impl_teams, f2h, h2f,
                  size, Driver, describe, rate_line, corr_games)
import gen
from gen import gen_game, gen_teams, gen_config, random_weak_order, encode_ranks
from props import register
import p_pred

# =============================================================================== C13
# terms: ('N',) ('B',b) ('I',i) ('F',x) ('S',s) ('L',[..]) ('T',[..]) ('D',n) ('E',n) ('R',kind,mu,sigma) ('O',which)
OBJECTS = ["object", "decimal", "fraction", "complex", "bytes", "range", "lambda", "array", "array2", "memoryview", "deque", "listlike", "listlike2", "dictkeys"]


def tok(term):
    k = term[0]
    if k == "N": return ["N"]
    if k == "B": return ["B1" if term[1] else "B0"]
    if k == "I": return ["I%d" % term[1]]
    if k == "F": return ["F0" if term[1] == 0.0 else "F1"]
    if k == "S": return ["S%d" % len(term[1])]
    if k in ("L", "T"):
        out = ["%s%d" % (k, len(term[1]))]
        for x in term[1]:
            out += tok(x)
        return out
    if k == "D": return ["D%d" % term[1]]
    if k == "E": return ["E%d" % term[1]]
    if k == "R": return ["R" + term[1]]
    if k == "O": return ["O"]
    raise ValueError(term)


_MODELS = {}


class _ListLike:
    """a numpy-flavoured sequence: len, iteration, indexing, tolist() — but not a list"""

    def __init__(self, xs):
        self._xs = list(xs)

    def __len__(self):
        return len(self._xs)

    def __iter__(self):
        return iter(self._xs)

    def __getitem__(self, i):
        return self._xs[i]

    def tolist(self):
        return list(self._xs)


def materialize(term, registry):
    k = term[0]
    if k == "N": return None
    if k == "B": return bool(term[1])
    if k == "I": return int(term[1])
    if k == "F": return float(term[1])
    if k == "S": return term[1]
    if k == "L": return [materialize(x, registry) for x in term[1]]
    if k == "T": return tuple(materialize(x, registry) for x in term[1])
    if k == "D": return {i: i for i in range(term[1])}
    if k == "E": return set(range(term[1]))
    if k == "R":
        m = _MODELS.setdefault(term[1], MODEL_CLS[term[1]]())
        r = m.rating(mu=term[2], sigma=term[3], name="x")
        registry.append(r)
        return r
    if k == "O":
        w = term[1]
        return {"object": object(), "decimal": decimal.Decimal("1.5"), "fraction": fractions.Fraction(3, 2),
                "complex": complex(1, 1), "bytes": b"ab", "range": range(3), "lambda": (lambda: 0),
                # sized, iterable, indexable containers of numbers that are NOT lists (some offer .tolist()): never a valid ranks / scores / teams
                "array": __import__("array").array("d", [1.0, 2.0, 3.0]), "array2": __import__("array").array("i", [2, 1]),
                "memoryview": memoryview(b"\x01\x02\x03"), "deque": __import__("collections").deque([1, 2, 3]),
                "listlike": _ListLike([2.0, 1.0, 3.0]), "listlike2": _ListLike([1, 2]), "dictkeys": {1: 0, 2: 0, 3: 0}.keys()}[w]
    raise ValueError(term)


def valid_teams_term(rng, kind, n=None):
    n = n or rng.randint(2, 5)
    return ("L", [("L", [("R", kind, rng.gauss(25, 5), rng.uniform(1, 9)) for _ in range(rng.randint(1, 3))]) for _ in range(n)])


def number_term(rng):
    r = rng.random()
    if r < 0.3: return ("I", rng.randint(-5, 9))
    if r < 0.55: return ("F", rng.choice([0.0, -0.0, 1.5, -2.25, 3.0, 1e20, float("inf"), float("-inf"), float("nan")]))
    if r < 0.7: return ("B", rng.random() < 0.5)
    if r < 0.8: return ("I", rng.choice([0, 10 ** 20, -10 ** 20]))
    return ("F", rng.uniform(-10, 10))


def junk_term(rng, kind, level):
    """something that is wrong at this place"""
    other = rng.choice([k for k in KINDS if k != kind])
    pool = [("N",), ("I", rng.choice([0, 1, 7])), ("F", rng.choice([0.0, 2.5])), ("S", rng.choice(["", "ab"])), ("B", rng.random() < 0.5),
            ("D", rng.choice([0, 2])), ("E", rng.choice([0, 2])), ("O", rng.choice(OBJECTS)), ("R", other, 25.0, 8.0),
            ("T", []), ("T", [("R", kind, 25.0, 8.0)]), ("L", []), ("T", [("F", 25.0), ("F", 8.0)]), ("L", [("F", 25.0), ("F", 8.0)])]
    if level != "player":
        pool.append(("R", kind, 25.0, 8.0))
    return rng.choice(pool)


def mutate_teams(rng, kind, teams):
    teams = ("L", [("L", list(t[1])) for t in teams[1]])
    r = rng.random()
    if r < 0.15:
        j = junk_term(rng, kind, "teams")
        if j[0] == "L":
            j = ("T", [("L", [("R", kind, 25.0, 8.0)]), ("L", [("R", kind, 25.0, 8.0)])])
        return j
    if r < 0.25:
        return ("L", teams[1][:rng.choice([0, 1])])
    if r < 0.3:
        return ("T", teams[1])
    i = rng.randrange(len(teams[1]))
    if r < 0.55:
        j = junk_term(rng, kind, "team")
        if j[0] == "L" and j[1] and all(x[0] == "R" and x[1] == kind for x in j[1]):
            j = ("L", [])
        teams[1][i] = j
        return teams
    pj = rng.randrange(len(teams[1][i][1]))
    teams[1][i][1][pj] = junk_term(rng, kind, "player")
    return teams


def mutate_selector(rng, kind, n):
    r = rng.random()
    good = [number_term(rng) for _ in range(n)]
    if r < 0.25:
        return rng.choice([("T", good), ("S", "ab"), ("I", 3), ("F", 2.5), ("D", 2), ("E", 2), ("O", rng.choice(OBJECTS)), ("B", True),
                           ("R", kind, 25.0, 8.0)])
    if r < 0.45:
        k = rng.choice([n - 1, n + 1, 1, n + 3])
        return ("L", [number_term(rng) for _ in range(max(1, k))])
    i = rng.randrange(n)
    good[i] = rng.choice([("N",), ("S", "1"), ("O", rng.choice(OBJECTS)), ("L", [("I", 1)]), ("T", [("I", 1)]), ("R", kind, 25.0, 8.0), ("D", 0)])
    return ("L", good)


FALSY = [("N",), ("L", []), ("I", 0), ("F", 0.0), ("S", ""), ("T", []), ("D", 0), ("B", False), ("E", 0)]


def gen_call(rng, kind):
    """-> (op, teams_term, ranks_term, scores_term, label)"""
    op = rng.choice(["rate", "rate", "rate", "predict_win", "predict_draw", "predict_rank"])
    teams = valid_teams_term(rng, kind)
    n = len(teams[1])
    ranks, scores = ("N",), ("N",)
    mode = rng.random()
    label = "wellformed"
    if mode < 0.3:
        teams = mutate_teams(rng, kind, teams); label = "bad-teams"
        if rng.random() < 0.5:
            ranks = ("L", [number_term(rng) for _ in range(n)])
    elif op != "rate":
        pass
    elif mode < 0.5:
        ranks = mutate_selector(rng, kind, n); label = "bad-ranks"
        if rng.random() < 0.35:
            # two faults at once: the order of the checks decides the exception class
            scores = rng.choice([("L", [number_term(rng) for _ in range(n)]), mutate_selector(rng, kind, n)]); label = "bad-ranks+scores"
    elif mode < 0.65:
        scores = mutate_selector(rng, kind, n); label = "bad-scores"
    elif mode < 0.73:
        ranks = ("L", [number_term(rng) for _ in range(n)]); scores = ("L", [number_term(rng) for _ in range(n)]); label = "both"
    elif mode < 0.8:
        ranks = rng.choice(FALSY); scores = rng.choice([("L", [number_term(rng) for _ in range(n)]), rng.choice(FALSY)]); label = "falsy-ranks"
    elif mode < 0.85:
        scores = rng.choice(FALSY); ranks = ("L", [number_term(rng) for _ in range(n)]); label = "falsy-scores"
    elif mode < 0.93:
        ranks = ("L", [number_term(rng) for _ in range(n)])
    else:
        scores = ("L", [number_term(rng) for _ in range(n)])
    return op, teams, ranks, scores, label


def snapshot_ratings(registry):
    return [(id(r), r.id, r.name, repr(r.mu), repr(r.sigma)) for r in registry]


def model_state(m):
    return p_state(m)


def c13_call(res, kind, call, drv_out):
    op, teams_t, ranks_t, scores_t, label = call
    inp = dict(type="c13", kind=kind, call=[op, teams_t, ranks_t, scores_t, label])
    registry = []
    teams = materialize(teams_t, registry)
    ranks = materialize(ranks_t, registry)
    scores = materialize(scores_t, registry)
    model = MODEL_CLS[kind]()
    before_r, before_m = snapshot_ratings(registry), model_state(model)
    exc = None
    import warnings as _w
    _cw = _w.catch_warnings()
    _cw.__enter__()
    _w.simplefilter("error")          # an application may run with warnings turned into errors: a well-formed call must not emit one
    try:
        if op == "rate":
            # every other call also carries per-call options that differ from the model's settings: a rejected call must leave the
            # model's attributes alone whatever it was asked
            hk = len(show(teams_t)) + len(show(ranks_t)) * 3 + len(show(scores_t)) * 7
            if hk % 2:
                res.count("rate_calls_with_per_call_options")
                model.rate(teams, ranks=ranks, scores=scores, tau=(0.0, 1.5, 0.25)[hk % 3], limit_sigma=(hk % 5 != 0))
            else:
                model.rate(teams, ranks=ranks, scores=scores)
        else:
            getattr(model, op)(teams)
    except Exception as e:  # noqa: BLE001
        exc = type(e).__name__
    finally:
        _cw.__exit__(None, None, None)
    res.count("label_" + label)
    res.count("outcome_" + (exc or "accepted"))
    res.traces += 1
    want = drv_out  # 'ok' | 'TypeError' | 'ValueError'  (the model; by theorem validate_iff: ok <-> WellFormed)
    if exc is None:
        if want != "ok":
            res.fail("property", "C13: malformed call (%s; model rejects with %s) returned normally: %s(%s, ranks=%s, scores=%s)" % (
                label, want, op, show(teams_t), show(ranks_t), show(scores_t)), inp)
        return
    if exc not in ("TypeError", "ValueError"):
        res.fail("property", "C13: %s raised %s (neither TypeError nor ValueError): %s(%s, ranks=%s, scores=%s)" % (
            label, exc, op, show(teams_t), show(ranks_t), show(scores_t)), inp)
        return
    if want == "ok":
        res.fail("property", "C13: well-formed call rejected with %s: %s(%s, ranks=%s, scores=%s)" % (
            exc, op, show(teams_t), show(ranks_t), show(scores_t)), inp)
        return
    if snapshot_ratings(registry) != before_r:
        res.fail("property", "C13: a rating object was modified before the call was rejected (%s): %s(%s, ranks=%s, scores=%s)" % (
            exc, op, show(teams_t), show(ranks_t), show(scores_t)), inp)
    if model_state(model) != before_m:
        res.fail("property", "C13: a model attribute was modified before the call was rejected", inp)
    if exc != want:
        res.fail("correspondence", "C13: implementation raises %s where the model raises %s: %s(%s, ranks=%s, scores=%s)" % (
            exc, want, op, show(teams_t), show(ranks_t), show(scores_t)), inp)


def show(t):
    s = " ".join(tok(t))
    return s if len(s) < 70 else s[:67] + "..."


def c13_line(kind, call):
    op, teams_t, ranks_t, scores_t, _ = call
    if op == "rate":
        return "VRATE %s %s %s %s" % (kind, " ".join(tok(teams_t)), " ".join(tok(ranks_t)), " ".join(tok(scores_t)))
    return "VPRED %s %s" % (kind, " ".join(tok(teams_t)))


def totuple(x):
    if isinstance(x, list):
        if x and isinstance(x[0], str) and x[0] in ("N", "B", "I", "F", "S", "L", "T", "D", "E", "R", "O"):
            if x[0] in ("L", "T"):
                return (x[0], [totuple(y) for y in x[1]])
            return tuple(x)
    return x


def c13_item(res, item):
    if item.get("type") == "c13subclass":
        return c13_number_subclasses(res)
    if item.get("type") == "c13classes":
        return c13_user_classes(res)
    if item.get("type") == "c13many":
        return c13_many_teams(res)
    if item.get("type") == "c13flags":
        return c13_interpreter_flags(res)
    if item.get("type") == "c13shared":
        return c13_shared_ids(res)
    kind = item["kind"]
    op, a, b, c, label = item["call"]
    call = (op, totuple(a), totuple(b), totuple(c), label)
    res.case(item)
    out = Driver().run([c13_line(kind, call)])[0]
    c13_call(res, kind, call, out)


def c13_systematic(rng, kind):
    """every junk piece at every position of one valid game"""
    calls = []
    base = valid_teams_term(rng, kind, n=3)
    n = 3
    junk_all = [("N",), ("I", 0), ("I", 7), ("F", 0.0), ("F", 2.5), ("S", ""), ("S", "ab"), ("B", True), ("B", False), ("D", 0), ("D", 2),
                ("E", 0), ("E", 2), ("T", []), ("L", [])] + [("O", o) for o in OBJECTS] + \
               [("R", k, 25.0, 8.0) for k in KINDS] + [("T", [("F", 25.0), ("F", 8.0)]), ("L", [("F", 25.0), ("F", 8.0)])]
    for j in junk_all:
        calls.append(("rate", j, ("N",), ("N",), "bad-teams"))
        for op in ("predict_win", "predict_draw", "predict_rank"):
            calls.append((op, j, ("N",), ("N",), "bad-teams"))
        for i in range(n):
            t = ("L", [("L", list(x[1])) for x in base[1]]); t[1][i] = j
            lab = "wellformed" if (j[0] == "L" and j[1] and False) else "bad-teams"
            calls.append(("rate", t, ("N",), ("N",), lab))
            calls.append(("predict_win", t, ("N",), ("N",), lab))
            for pj in range(len(base[1][i][1])):
                t = ("L", [("L", list(x[1])) for x in base[1]]); t[1][i][1][pj] = j
                lab = "wellformed" if (j[0] == "R" and j[1] == kind) else "bad-teams"
                calls.append(("rate", t, ("N",), ("N",), lab))
                calls.append((rng.choice(["predict_draw", "predict_rank"]), t, ("N",), ("N",), lab))
        # as the selector itself, and at each position inside it
        good = [("I", 2), ("F", 0.5), ("B", True)]
        for sel in (0, 1):
            args = [("N",), ("N",)]; args[sel] = j
            calls.append(("rate", base, args[0], args[1], "selector=" + j[0]))
            for i in range(n):
                v = list(good); v[i] = j
                args = [("N",), ("N",)]; args[sel] = ("L", v)
                calls.append(("rate", base, args[0], args[1], "selector-element=" + j[0]))
        calls.append(("rate", base, ("L", good), j, "both?"))
        calls.append(("rate", base, j, ("L", good), "both?"))
    return calls


def c13_shared_ids(res):
    """well-formed games stay well-formed when entrants share an id or a snapshot plays next to the live player"""
    for kind in KINDS:
        M = MODEL_CLS[kind]
        for variant in ("guest", "snapshot", "same-object-two-seats-predict"):
            m = M()
            a, b, c = m.rating(25.0, 8.0, "a"), m.rating(20.0, 3.0, "b"), m.rating(30.0, 2.0, "c")
            try:
                if variant == "guest":
                    a.id = b.id = "guest"
                    m.rate([[a], [b, c]], ranks=[2, 1]); m.predict_win([[a], [b, c]])
                elif variant == "snapshot":
                    snap = copy.deepcopy(a)
                    a.mu = 27.0
                    m.rate([[a], [snap], [b]], scores=[1.0, 1.0, 3.0]); m.predict_rank([[a], [snap], [b]])
                else:
                    m.predict_win([[a, b], [a, c]]); m.predict_draw([[a], [a]]); m.predict_rank([[a], [b], [a]])
                res.count("shared_id_calls_accepted")
            except Exception as e:  # noqa: BLE001
                res.fail("property", "C13: a well-formed %s call (%s) was rejected with %s: %s" % (kind, variant, type(e).__name__, e),
                         dict(type="c13shared", kind=kind, variant=variant))


def c13_shared_ids_rejected(res):
    """a call rejected at the ranks / scores stage whose (well-formed) teams hold distinct objects sharing one id with different values
    (a player next to an earlier snapshot of itself; a guest account): no rating may change"""
    for kind in KINDS:
        m = MODEL_CLS[kind]()
        a, b = m.rating(25.0, 8.0, "a"), m.rating(20.0, 3.0, "b")
        snap = copy.deepcopy(a)
        a.mu, a.sigma = 29.5, 6.25
        g1, g2 = m.rating(31.0, 2.0, "g1"), m.rating(17.0, 4.0, "g2")
        g1.id = g2.id = "guest"
        flat = [a, snap, b, g1, g2]
        for teams in ([[a], [snap], [b]], [[snap, b], [a]], [[g1], [g2, b]], [[a, g1], [snap, g2]]):
            for kw in (dict(ranks=[1]), dict(ranks=[1, "x", 3][: len(teams)] if len(teams) == 3 else ["x", 1]), dict(scores=list(range(len(teams) + 1))),
                       dict(ranks=list(range(len(teams))), scores=list(range(len(teams)))), dict(scores=[None] * len(teams)),
                       dict(ranks=[1] * (len(teams) + 2), tau=0.5, limit_sigma=True)):
                before = [(p.mu, p.sigma, p.id, p.name) for p in flat]
                ms = model_state(m)
                res.count("shared_id_rejected_calls")
                try:
                    m.rate(teams, **kw)
                    res.fail("property", "C13: %s: malformed selector %r accepted" % (kind, sorted(kw)), dict(type="c13shared", kind=kind)); continue
                except (TypeError, ValueError):
                    pass
                except Exception as e:  # noqa: BLE001
                    res.fail("property", "C13: %s: malformed selector raised %s" % (kind, type(e).__name__), dict(type="c13shared", kind=kind)); continue
                if [(p.mu, p.sigma, p.id, p.name) for p in flat] != before or model_state(m) != ms:
                    res.fail("property", "C13: %s: a call rejected at the ranks/scores stage modified a rating or the model (teams with entrants sharing an id): %r -> %r" % (
                        kind, before, [(p.mu, p.sigma, p.id, p.name) for p in flat]), dict(type="c13shared", kind=kind))
                    return


def c13_number_subclasses(res):
    """ranks / scores whose elements are instances of proper subclasses of int and float (an IntEnum place, a unit-carrying
    float): they are numbers, the call is well-formed and the result is the one for the plain values"""
    import enum

    class Place(enum.IntEnum):
        FIRST = 1
        SECOND = 2
        THIRD = 3

    class Points(float):
        pass

    class Seed(int):
        pass
    variants = [("IntEnum", [Place.SECOND, Place.FIRST, Place.THIRD], [2, 1, 3]),
                ("float subclass", [Points(2.5), Points(0.0), Points(7.25)], [2.5, 0.0, 7.25]),
                ("int subclass", [Seed(3), Seed(3), Seed(1)], [3, 3, 1]),
                ("mixed", [Place.FIRST, Points(1.0), 2], [1, 1.0, 2])]
    for kind in KINDS:
        for mode in ("ranks", "scores"):
            for label, vals, plain in variants:
                m = MODEL_CLS[kind]()
                mk = lambda: [[m.rating(25.0, 8.0), m.rating(20.0, 4.0)], [m.rating(30.0, 3.0)], [m.rating(22.0, 6.0)]]  # noqa: E731
                res.count("number_subclass_calls")
                try:
                    got = [[(p.mu, p.sigma) for p in t] for t in m.rate(mk(), **{mode: list(vals)})]
                except Exception as e:  # noqa: BLE001
                    res.fail("property", "C13: well-formed call rejected with %s: %s rate(%s=%s elements)" % (type(e).__name__, kind, mode, label),
                             dict(type="c13subclass", kind=kind)); continue
                want = [[(p.mu, p.sigma) for p in t] for t in m.rate(mk(), **{mode: list(plain)})]
                if got != want:
                    res.fail("property", "C13: %s rate(%s=%s elements) differs from the call with the plain numbers" % (kind, mode, label),
                             dict(type="c13subclass", kind=kind))


def c13_user_classes(res):
    """(a) players that are instances of a user's subclass of the rating class with its own constructor signature: well-formed,
    accepted by rate (which deep-copies its input) and by the predictions, same numbers as plain ratings; (b) objects of an
    unrelated class that merely has the SAME NAME as the model's rating class (a dataclass row, an empty stub): not ratings,
    rejected with TypeError before any side effect"""
    import dataclasses
    for kind in KINDS:
        R = RATING_CLS[kind]
        A = core.account_class(R)
        m = MODEL_CLS[kind]()
        mk = lambda sub: [[(A("ann", "eu", 25.0, 8.0) if sub else m.rating(25.0, 8.0, "ann")), m.rating(20.0, 4.0)],   # noqa: E731
                          [(A("bob", "us", 30.0, 3.0) if sub else m.rating(30.0, 3.0, "bob"))], [m.rating(22.0, 6.0)]]
        res.count("user_subclass_calls")
        try:
            got = [[(p.mu, p.sigma, p.name) for p in t] for t in m.rate(mk(True), ranks=[2, 1, 2])]
            pg = (m.predict_win(mk(True)), m.predict_draw(mk(True)), m.predict_rank(mk(True)))
        except Exception as e:  # noqa: BLE001
            res.fail("property", "C13: a well-formed %s call whose players are instances of a user subclass of the rating class was rejected with %s: %s" % (
                kind, type(e).__name__, str(e)[:90]), dict(type="c13classes", kind=kind)); continue
        want = [[(p.mu, p.sigma, p.name) for p in t] for t in m.rate(mk(False), ranks=[2, 1, 2])]
        if got != want or pg != (m.predict_win(mk(False)), m.predict_draw(mk(False)), m.predict_rank(mk(False))):
            res.fail("property", "C13: %s: players that are instances of a user subclass give other numbers than plain ratings" % kind, dict(type="c13classes", kind=kind))
        Row = dataclasses.make_dataclass(R.__name__, [("mu", float), ("sigma", float), ("id", str), ("name", str)])
        Stub = type(R.__name__, (), {})
        for label, fake in (("dataclass", Row(25.0, 8.0, "x", "x")), ("stub", Stub())):
            for op in ("rate", "predict_win", "predict_draw", "predict_rank"):
                good = [m.rating(25.0, 8.0), m.rating(21.0, 5.0)]
                snap = [(g_.mu, g_.sigma) for g_ in good]
                res.count("lookalike_calls")
                try:
                    getattr(m, op)([[good[0], fake], [good[1]]])
                    res.fail("property", "C13: %s.%s accepted a player of an unrelated class named %s (%s)" % (kind, op, R.__name__, label), dict(type="c13classes", kind=kind)); break
                except TypeError:
                    pass
                except Exception as e:  # noqa: BLE001
                    res.fail("property", "C13: %s.%s with a player of an unrelated class named %s (%s) raised %s, not TypeError" % (kind, op, R.__name__, label, type(e).__name__),
                             dict(type="c13classes", kind=kind)); break
                if [(g_.mu, g_.sigma) for g_ in good] != snap:
                    res.fail("property", "C13: %s.%s modified a rating before rejecting a look-alike player" % (kind, op), dict(type="c13classes", kind=kind)); break


def c13_many_teams(res):
    """well-formed calls with several hundred teams (a battle-royale lobby): accepted, finite, and the length checks do not
    depend on how the interpreter caches small integers"""
    for kind in KINDS:
        for n in ((257, 300) if res.tier == "quick" else (256, 257, 258, 300, 400)):
            m = MODEL_CLS[kind]()
            for mode in ("ranks", "scores"):
                teams = [[m.rating(25.0 + (i % 7), 8.0 - (i % 5))] for i in range(n)]
                vals = [(i * 37) % n for i in range(n)]
                res.count("many_team_calls")
                try:
                    out = m.rate(teams, **{mode: vals})
                    if len(out) != n or not all(math.isfinite(p.mu) and math.isfinite(p.sigma) for t in out for p in t):
                        res.fail("property", "C13: %s rate of %d teams returned a malformed or non-finite result" % (kind, n), dict(type="c13many", kind=kind))
                except Exception as e:  # noqa: BLE001
                    res.fail("property", "C13: well-formed %s call with %d teams (%s given) rejected with %s: %s" % (kind, n, mode, type(e).__name__, str(e)[:80]),
                             dict(type="c13many", kind=kind))
                for bad in (n - 1, n + 1):
                    try:
                        m.rate(teams, **{mode: list(range(bad))})
                        res.fail("property", "C13: %s accepted %d %s for %d teams" % (kind, bad, mode, n), dict(type="c13many", kind=kind))
                    except ValueError:
                        pass
                    except Exception as e:  # noqa: BLE001
                        res.fail("property", "C13: %s: %d %s for %d teams raised %s, not ValueError" % (kind, bad, mode, n, type(e).__name__), dict(type="c13many", kind=kind))


def c13_battery_outcomes(seed):
    """the systematic battery on every class: outcome class of each call and whether a rating changed (run in this process and
    in child interpreters started with other flags)"""
    rng = random.Random(seed)
    out = []
    for kind in KINDS:
        for call in c13_systematic(rng, kind):
            op, teams_t, ranks_t, scores_t, _ = call
            registry = []
            teams, ranks, scores = materialize(teams_t, registry), materialize(ranks_t, registry), materialize(scores_t, registry)
            model = MODEL_CLS[kind]()
            before = snapshot_ratings(registry)
            try:
                if op == "rate":
                    model.rate(teams, ranks=ranks, scores=scores)
                else:
                    getattr(model, op)(teams)
                o = "accepted"
            except Exception as e:  # noqa: BLE001
                o = type(e).__name__
            out.append([kind, op, show(teams_t), show(ranks_t), show(scores_t), o, o != "accepted" and snapshot_ratings(registry) != before])
    return out


C13_CHILD = """
import sys, json
sys.path.insert(0, %(harness)r)
import p_api
print(json.dumps(dict(optimize=sys.flags.optimize, out=p_api.c13_battery_outcomes(%(seed)d))))
"""


def c13_interpreter_flags(res):
    """the same battery in a child interpreter started with -O / -OO (assert statements and `if __debug__:` blocks removed,
    docstrings dropped): validation must not live in code the optimiser removes"""
    here = c13_battery_outcomes(res.seed)
    for flag in (["-O"] if res.tier == "quick" else ["-O", "-OO"]):
        env = dict(os.environ, OPENSKILL_REPO=core.REPO)
        p = subprocess.run([sys.executable, "-B"] + [flag, "-c", C13_CHILD % dict(harness=os.path.dirname(os.path.abspath(__file__)), seed=res.seed)],
                           stdout=subprocess.PIPE, stderr=subprocess.PIPE, env=env)
        if p.returncode != 0:
            res.fail("property", "C13: the library cannot be used under python %s: %s" % (flag, p.stderr.decode()[-300:]), dict(type="c13flags", flag=flag))
            continue
        body = json.loads(p.stdout.decode().strip().split("\n")[-1])
        there = body["out"]
        res.count("battery_calls_under_%s" % flag.strip("-"), len(there))
        if body["optimize"] < 1:
            res.notes.append("child interpreter did not run optimised")
        if len(here) != len(there):
            res.fail("correspondence", "C13: battery sizes differ between interpreters", dict(type="c13flags", flag=flag)); continue
        for a, b in zip(here, there):
            if a[:5] != b[:5]:
                res.fail("correspondence", "C13: batteries differ between interpreters", dict(type="c13flags", flag=flag)); break
            if a[5] != b[5] or b[6]:
                res.fail("property", "C13: under python %s, %s.%s(%s, ranks=%s, scores=%s) -> %s%s; in the default interpreter -> %s" % (
                    flag, a[0], a[1], a[2], a[3], a[4], b[5], " after modifying a rating" if b[6] else "", a[5]), dict(type="c13flags", flag=flag))
                break


def c13_after_wellformed(res, rng):
    """Malformed calls built from objects the library has already seen and accepted: the same rating objects right after well-formed
    rate / predict calls on them, and the very list object that rate() returned, damaged in place.  Rejection must not depend on what was
    accepted before, nor on where a container came from."""
    for kind in KINDS:
        M = MODEL_CLS[kind]
        for rep in range(size(res, 6, 30)):
            model = M()
            n = rng.randint(2, 4)
            teams = [[model.rating(mu=rng.gauss(25, 5), sigma=rng.uniform(2, 8)) for _ in range(rng.randint(1, 3))] for _ in range(n)]
            foreign = MODEL_CLS[KINDS[(KINDS.index(kind) + 1 + rep % 4) % 5]]().rating()
            try:
                model.predict_win(teams); model.predict_draw(teams); model.predict_rank(teams)
                returned = model.rate(teams, ranks=list(range(n)))
                model.predict_win(returned); model.predict_rank(returned)
            except Exception as e:  # noqa: BLE001
                res.fail("property", "C13: %s: a well-formed sequence of calls raised %s" % (kind, type(e).__name__), dict(type="c13seq", kind=kind)); break
            flat = [p for t in returned for p in t]

            def damaged(base):
                """(description, argument, undo) — `base` is damaged IN PLACE where possible and repaired afterwards"""
                out = []
                out.append(("outer tuple of the same teams", tuple(base), None))
                out.append(("a generator over the same teams", (t for t in base), None))
                t1 = base[1]

                def mk(i, val):
                    old = base[i]
                    base[i] = val
                    return lambda: base.__setitem__(i, old)
                out.append(("team 1 replaced by a tuple of its players", base, (1, tuple(t1))))
                out.append(("team 0 emptied", base, (0, [])))
                out.append(("team 1 replaced by a bare rating", base, (1, t1[0])))
                out.append(("a foreign model's rating in team 0", base, (0, [foreign] + list(base[0][1:]))))
                out.append(("None in team 1", base, (1, list(t1) + [None])))
                out.append(("a float where a player should be", base, (1, [25.0])))
                return out
            for label, container in (("the caller's own list after well-formed calls", teams), ("the list object returned by rate()", returned)):
                for desc, arg, patch in damaged(container):
                    for opname in ("rate", "predict_win", "predict_draw", "predict_rank"):
                        old = None
                        if patch is not None:
                            old = container[patch[0]]
                            container[patch[0]] = patch[1]
                        if desc.startswith("a generator"):
                            arg = (t for t in container)
                        before = [(p.mu, p.sigma) for p in flat]
                        mdict = {k_: v_ for k_, v_ in model.__dict__.items()}
                        res.count("malformed_after_wellformed_calls")
                        try:
                            getattr(model, opname)(arg)
                            res.fail("property", "C13: %s.%s accepted %s (%s)" % (kind, opname, desc, label), dict(type="c13seq", kind=kind))
                        except (TypeError, ValueError):
                            pass
                        except Exception as e:  # noqa: BLE001
                            res.fail("property", "C13: %s.%s on %s (%s) raised %s, not TypeError/ValueError" % (kind, opname, desc, label, type(e).__name__),
                                     dict(type="c13seq", kind=kind))
                        finally:
                            if patch is not None:
                                container[patch[0]] = old
                        if [(p.mu, p.sigma) for p in flat] != before or {k_: v_ for k_, v_ in model.__dict__.items()} != mdict:
                            res.fail("property", "C13: %s.%s rejected %s (%s) but a rating or a model attribute was modified" % (kind, opname, desc, label),
                                     dict(type="c13seq", kind=kind))
                # truncated to one team, in place
                one = container[1:]
                del container[1:]
                for opname in ("rate", "predict_win", "predict_draw", "predict_rank"):
                    try:
                        getattr(model, opname)(container)
                        res.fail("property", "C13: %s.%s accepted a single team (%s, cut down in place)" % (kind, opname, label), dict(type="c13seq", kind=kind))
                    except (TypeError, ValueError):
                        pass
                    except Exception as e:  # noqa: BLE001
                        res.fail("property", "C13: %s.%s on a single team (%s) raised %s" % (kind, opname, label, type(e).__name__), dict(type="c13seq", kind=kind))
                container.extend(one)
            if len(res.failures) > 10:
                return


def c13(res):
    rng = random.Random(res.seed)
    import gentie
    gentie.note_validation(res)
    c13_shared_ids(res)
    c13_shared_ids_rejected(res)
    c13_after_wellformed(res, rng)
    if res.shard == 0:
        c13_number_subclasses(res)
        c13_user_classes(res)
        c13_many_teams(res)
        c13_interpreter_flags(res)
    calls = []
    for kind in KINDS:
        if res.shard == 0:
            calls += [(kind, c) for c in c13_systematic(rng, kind)]
    for _ in range(size(res, 4000, 20000)):
        kind = rng.choice(KINDS)
        calls.append((kind, gen_call(rng, kind)))
    outs = Driver().run([c13_line(k, c) for (k, c) in calls])
    for (kind, call), o in zip(calls, outs):
        res.case(dict(kind=kind, call=[call[0], show(call[1]), show(call[2]), show(call[3])]))
        c13_call(res, kind, call, o)
    res.rule = ("a grammar of argument terms (None, bool, int, float, str, list, tuple, dict, set, own/foreign rating, Decimal, Fraction, "
                "complex, bytes, range, function) injected systematically at every position of a valid 3-team game (teams, team, player, "
                "selector, selector element, both selectors) for all five classes, plus random calls; materialised as real Python objects; "
                "accept/reject compared with the Lean validation model (proved equivalent to the property's well-formedness predicate), "
                "exception class in {TypeError, ValueError}, snapshots of every rating and of model.__dict__ before/after")


register("C13", c13, c13_item)


# =============================================================================== C14
class WriteLog(list):
    pass


def traced_model(kind, log, **kw):
    cls = MODEL_CLS[kind]

    class Traced(cls):
        def __setattr__(self, k, v):
            if self.__dict__.get("_verif_armed"):
                log.append(k)
            object.__setattr__(self, k, v)

        def __delattr__(self, k):
            log.append("del " + k)
            object.__delattr__(self, k)
    m = Traced(**kw)
    object.__setattr__(m, "_verif_armed", True)
    return m


def gen_calls(rng, kind, beta, ncalls):
    calls = []
    for _ in range(ncalls):
        op = rng.choice(["rate", "rate", "rate", "predict_win", "predict_draw", "predict_rank"])
        teams = gen_teams(rng, rng.choice(["typical", "mismatch", "equalsize"]), beta, n=rng.randint(2, 4), maxsize=3)
        n = len(teams)
        # newcomers with exactly the default values recur from call to call (value-keyed caches would hit)
        sc = beta / core.DEFAULTS["beta"]
        for t in teams:
            for j in range(len(t)):
                if rng.random() < 0.35:
                    t[j] = (25.0 * sc, 25.0 / 3.0 * sc)
        kw = {}
        if op == "rate":
            r = rng.random()
            if r < 0.5: kw["ranks"] = encode_ranks(rng, random_weak_order(rng, n))
            elif r < 0.8: kw["scores"] = encode_ranks(rng, random_weak_order(rng, n), "frac")
            if rng.random() < 0.5: kw["tau"] = rng.choice([0.0, beta / 10, beta / 50, 2 * beta])
            if rng.random() < 0.5: kw["limit_sigma"] = rng.random() < 0.5
        calls.append((op, teams, kw))
    return calls


def do_call(model, op, teams_vals, kw, namer, share_ids=False):
    teams = [[model.rating(mu=m, sigma=s, name=namer()) for (m, s) in t] for t in teams_vals]
    if share_ids:
        # several entrants carry the same id (guest accounts, a snapshot of a player entered next to the live one)
        for t in teams:
            for p in t:
                p.id = "guest"
    if op == "rate":
        out = model.rate(teams, **{k: (list(v) if isinstance(v, list) else v) for k, v in kw.items()})
        return [[(p.mu, p.sigma) for p in t] for t in out]
    out = getattr(model, op)(teams)
    return out


def c14_history(res, rng, kind):
    beta, kappa, tau = gen_config(rng, 0.5)
    cfg = dict(beta=beta, kappa=kappa, tau=tau, limit_sigma=rng.random() < 0.3)
    calls = gen_calls(rng, kind, beta, size(res, 30, 120))
    log = WriteLog()
    shared = traced_model(kind, log, **cfg)
    ctr = itertools.count()
    for k, (op, teams, kw) in enumerate(calls):
        inp = dict(type="c14", kind=kind, cfg=cfg, calls=core.jsonable(calls[:k + 1]))
        before = p_state(shared)
        if k % 2 == 1:
            # an unrelated, differently configured model of the same class is constructed (and used) in between
            other = MODEL_CLS[kind](beta=cfg["beta"] * 3.7, kappa=cfg["kappa"] * 10, tau=cfg["tau"] * 0.5 + 0.01, mu=1.0, sigma=2.0)
            other.predict_draw([[other.rating()], [other.rating()]])
            res.count("unrelated_models_constructed")
        try:
            got = do_call(shared, op, teams, kw, lambda: "n%d" % next(ctr), share_ids=(k % 3 == 1))
        except Exception as e:  # noqa: BLE001
            res.fail("property", "C14: valid call raised %s" % type(e).__name__, inp); return
        res.count("calls_" + op)
        res.evaluations += 1
        if log:
            res.fail("property", "C14: %s(%s) wrote model attribute(s) %s" % (op, sorted(kw), sorted(set(log))), inp); return
        if p_state(shared) != before:
            res.fail("property", "C14: %s changed the model's __dict__" % op, inp); return
        fresh = MODEL_CLS[kind](**cfg)
        want = do_call(fresh, op, teams, kw, lambda: None)
        if got != want:
            res.fail("property", "C14: call %d (%s %s) on a shared model after %d earlier calls (and other models constructed in between) returns %r, on a fresh model %r" % (
                k, op, kw, k, first_mismatch(got, want), None), inp); return


def p_state(m):
    """deep snapshot of the model object: a cache dict mutated in place must show up"""
    out = {}
    for k, v in m.__dict__.items():
        if k == "_verif_armed":
            continue
        if callable(v):
            out[k] = id(v)
        else:
            try:
                out[k] = copy.deepcopy(v)
            except Exception:  # noqa: BLE001
                out[k] = repr(v)
    return out


def first_mismatch(a, b):
    return (a, b) if not isinstance(a, list) else next(((x, y) for x, y in zip(a, b) if x != y), None)


def c14_threads(res, rng, kind):
    beta, kappa, tau = gen_config(rng, 0.5)
    cfg = dict(beta=beta, kappa=kappa, tau=tau, limit_sigma=rng.random() < 0.3)
    nthreads = 4
    per = [gen_calls(rng, kind, beta, size(res, 40, 150)) for _ in range(nthreads)]
    shared = MODEL_CLS[kind](**cfg)
    results = [None] * nthreads
    errors = []
    start = threading.Barrier(nthreads)

    def work(t):
        try:
            start.wait()
            results[t] = [do_call(shared, op, teams, kw, lambda: None) for (op, teams, kw) in per[t]]
        except Exception as e:  # noqa: BLE001
            errors.append(repr(e))
    old = sys.getswitchinterval()
    sys.setswitchinterval(1e-6)
    try:
        ths = [threading.Thread(target=work, args=(t,)) for t in range(nthreads)]
        for th in ths: th.start()
        for th in ths: th.join()
    finally:
        sys.setswitchinterval(old)
    inp = dict(type="c14threads", kind=kind, cfg=cfg)
    if errors:
        res.fail("property", "C14: concurrent valid calls raised %s" % errors[:2], inp); return
    for t in range(nthreads):
        fresh = MODEL_CLS[kind](**cfg)
        serial = [do_call(fresh, op, teams, kw, lambda: None) for (op, teams, kw) in per[t]]
        res.count("thread_calls", len(serial))
        if serial != results[t]:
            k = next(i for i, (a, b) in enumerate(zip(serial, results[t])) if a != b)
            res.fail("property", "C14: thread %d call %d (%s %s) returned a different result concurrently than serially" % (
                t, k, per[t][k][0], per[t][k][2]), inp)
            return


PROBE = r'''
import sys, json, random, hashlib
sys.path.insert(0, %(harness)r)
import core, p_api, gen
rng = random.Random(%(seed)d)
h = hashlib.sha256()
for kind in core.KINDS:
    m = core.MODEL_CLS[kind]()
    for (op, teams, kw) in p_api.gen_calls(rng, kind, m.beta, 25):
        h.update(repr(p_api.do_call(m, op, teams, kw, lambda: None)).encode())
print(h.hexdigest())
'''


def c14_hashseed(res):
    digests = {}
    for hs in ("0", "1", "4242", "random"):
        env = dict(os.environ, PYTHONHASHSEED=hs, OPENSKILL_REPO=core.REPO)
        p = subprocess.run([sys.executable, "-B", "-c", PROBE % dict(harness=os.path.dirname(os.path.abspath(__file__)), seed=res.seed)],
                           stdout=subprocess.PIPE, stderr=subprocess.PIPE, env=env)
        if p.returncode != 0:
            raise RuntimeError("hash-seed probe failed: " + p.stderr.decode()[-400:])
        digests[hs] = p.stdout.decode().strip()
        res.count("hashseed_runs")
    if len(set(digests.values())) != 1:
        res.fail("property", "C14: results depend on PYTHONHASHSEED: %r" % digests, dict(type="c14hash"))


def c14_objects_history(res, rng, kind):
    """the rating OBJECTS persist from call to call on one model (a league); before every call a second set is rebuilt from nothing
    but the (mu, sigma) values on a fresh or the same model: a result may depend on the values only, not on what an object
    has been through (marks left on it by earlier calls, games that left its sigma bit-for-bit unchanged, ...)"""
    c20_league(res, rng, kind, [], prop="C14", rebuild_p=1.0, polarised_p=1.0)
    c20_league(res, rng, kind, [], prop="C14", rebuild_p=1.0, polarised_p=0.0)


def c14_item(res, item):
    rng = random.Random(res.seed)
    res.case(item)
    if item.get("type") == "c14":
        kind, cfg = item["kind"], item["cfg"]
        log = WriteLog()
        shared = traced_model(kind, log, **cfg)
        for k, (op, teams, kw) in enumerate(item["calls"]):
            teams = [[tuple(p) for p in t] for t in teams]
            before = p_state(shared)
            got = do_call(shared, op, teams, kw, lambda: None)
            want = do_call(MODEL_CLS[kind](**cfg), op, teams, kw, lambda: None)
            if log or p_state(shared) != before:
                res.fail("property", "C14: %s wrote model attribute(s) %s" % (op, sorted(set(log))), item); return
            if json.dumps(core.jsonable(got)) != json.dumps(core.jsonable(want)):
                res.fail("property", "C14: call %d depends on the call history" % k, item); return
    elif item.get("type") == "c20league":
        for rep in range(6):
            c14_objects_history(res, rng, item.get("kind", "PL"))
    else:
        for kind in KINDS:
            c14_history(res, rng, kind)


def c14_line_interleave(res, rng):
    """Interleavings at the granularity of source lines, made deterministic.  Call A runs under sys.settrace; when its k-th line event
    inside the library fires, a complete call B on the SAME model (other rating objects) is executed right there — what a second thread
    pre-empting A at that line would do.  For every ordered pair of the four operations: A is first traced alone to list its line events;
    then, for every event that lies in the shared helper modules (weng_lin/common.py, models/common.py — where module-level state would
    live) and for a sample of the others, the pair is replayed from FRESH module-level state (the helper modules are re-initialised with
    importlib.reload, so first-use paths — tables being built, lazy initialisation — are pre-empted too) with B at that event.
    Interleaved results must be bit-identical to the two calls made one after the other."""
    import sys as _sys, importlib
    import openskill.models.common as mcommon
    repo_prefix = os.path.realpath(core.REPO) + os.sep
    ops = ("predict_draw", "predict_rank", "rate", "predict_win")
    pairs = [(a, b) for a in ops for b in ops]
    n_pairs = size(res, 16, 64)
    cap = size(res, 40, 120)

    def fresh_state():
        for m_ in (mcommon, core.wl_common):
            try:
                importlib.reload(m_)
            except Exception:  # noqa: BLE001
                pass

    def lobby(n_players, seed_):
        r_ = random.Random(seed_)
        nt = r_.randint(2, 4)
        sizes = [1] * nt
        for _ in range(max(0, n_players - nt)):
            sizes[r_.randrange(nt)] += 1
        return [[(r_.gauss(25, 6), r_.uniform(1.5, 8)) for _ in range(sz)] for sz in sizes]

    def run(mdl, op, vals):
        teams = [[mdl.rating(mu=m, sigma=s_) for (m, s_) in t] for t in vals]
        out = getattr(mdl, op)(teams)
        if op == "rate":
            return [[(p.mu, p.sigma) for p in t] for t in out]
        return out

    def traced(mdl, op, vals, at, inner):
        st = {"n": 0, "events": [], "b": None, "err": None}

        def tracer(frame, event, arg):
            if not frame.f_code.co_filename.startswith(repo_prefix):
                return None
            if event == "line":
                if at is None:
                    st["events"].append(frame.f_code.co_filename)
                elif st["n"] == at:
                    try:
                        st["b"] = inner()
                    except Exception as e:  # noqa: BLE001
                        st["err"] = e
                st["n"] += 1
            return tracer
        old = _sys.gettrace()
        _sys.settrace(tracer)
        try:
            out = run(mdl, op, vals)
        finally:
            _sys.settrace(old)
        return out, st
    try:
        for it in range(n_pairs):
            kind = KINDS[it % 5]
            a_op, b_op = pairs[it % len(pairs)]
            na = rng.randint(5, 14)
            va, vb = lobby(na, res.seed * 7919 + it), lobby(max(2, na - rng.randint(1, 2)), res.seed * 104729 + it)
            fresh_state()
            ref_model = MODEL_CLS[kind]()
            sa, st0 = traced(ref_model, a_op, va, None, None)
            sb = run(ref_model, b_op, vb)
            ev = st0["events"]
            shared_ev = [k_ for k_, f_ in enumerate(ev) if f_.endswith(os.sep + "common.py")]
            others = [k_ for k_, f_ in enumerate(ev) if not f_.endswith(os.sep + "common.py")]
            ks = shared_ev[:: max(1, len(shared_ev) // cap)][:cap] + rng.sample(others, min(8, len(others)))
            for k_ in ks:
                fresh_state()
                model = MODEL_CLS[kind]()
                try:
                    ra, st = traced(model, a_op, va, k_, lambda: run(model, b_op, vb))
                except Exception as e:  # noqa: BLE001
                    res.fail("property", "C14: %s.%s raised %s when %s ran on the same model at its line event %d" % (kind, a_op, type(e).__name__, b_op, k_),
                             dict(type="c14line", kind=kind)); break
                res.count("line_interleaved_calls")
                if st["err"] is not None:
                    res.fail("property", "C14: %s.%s, run while %s was in progress on the same model (its line event %d, in %s), raised %s" % (
                        kind, b_op, a_op, k_, os.path.basename(ev[k_]), type(st["err"]).__name__), dict(type="c14line", kind=kind)); break
                if ra != sa or st["b"] != sb:
                    res.fail("property", "C14: %s: %s pre-empted at its line event %d (in %s) by %s on the same model: interleaved results %r / %r, one after the other %r / %r" % (
                        kind, a_op, k_, os.path.basename(ev[k_]), b_op, ra, st["b"], sa, sb), dict(type="c14line", kind=kind, a=a_op, b=b_op, at=k_, va=va, vb=vb))
                    break
            res.count("line_interleaved_pairs")
            if len(res.failures) > 5:
                return
    finally:
        fresh_state()


def c14(res):
    rng = random.Random(res.seed)
    c14_line_interleave(res, rng)
    for rep in range(size(res, 2, 8)):
        for kind in KINDS:
            res.case(dict(kind=kind, rep=rep, what="history"))
            c14_history(res, rng, kind)
            res.case(dict(kind=kind, rep=rep, what="objects with a history"))
            c14_objects_history(res, rng, kind)
    for rep in range(size(res, 1, 6)):
        for kind in KINDS:
            res.case(dict(kind=kind, rep=rep, what="threads"))
            c14_threads(res, rng, kind)
    if res.shard == 0:
        c14_hashseed(res)
    # the numbers of rate calls with per-call options also against the Lean model (pure function of values)
    games = [gen_game(rng, options=True) for _ in range(size(res, 300, 1500))]
    corr_games(res, games, "correspondence", "C14 rate as a pure function of (params, values, arguments)")
    # predictions of many differently configured models in ONE process (a module- or class-level cache keyed by too
    # little would make a result depend on an earlier call of ANOTHER model): each must be the model's pure function
    pg = [p_pred.pred_game(rng, n=rng.choice([2, 3, 3]), maxsize=2) for _ in range(size(res, 250, 1200))]
    for kind in KINDS:
        for _ in range(4):
            pg.append(p_pred.pred_game(rng, kind=kind, stratum="hash-collide"))     # values told apart by ==, never by hash()
        # the same squad (one list object) entered in several slots: the numbers depend on the values, not on object identity
        for n in (3, 4, 5):
            g = p_pred.pred_game(rng, kind=kind, stratum="identical", n=n, maxsize=3)
            g["alias"] = True
            pg.append(g)
    p_pred.corr_pred(res, pg, "property", "C14 predictions depend only on the model's parameters and the values (many models in one process)")
    for g in pg[:: max(1, len(pg) // 60)]:
        p_pred.reconfigure_sequence(res, g, rng, "C14")
    res.rule = ("(0) leagues in which the rating OBJECTS persist on one model, against players rebuilt from their (mu, sigma) values before every game "
                "(incl. polarised leagues whose foregone conclusions leave sigma bit-for-bit unchanged): bit-identical; "
                "(i) every attribute write on a traced subclass of the model during random rate/predict calls with per-call tau/limit_sigma, and "
                "model.__dict__ before/after; (ii) each call on the shared model vs the same call on a fresh model with fresh rating objects "
                "(other ids, no names): bit-identical; (iii) 4 real threads on disjoint ratings through one shared model, switch interval 1e-6, "
                "vs serial: bit-identical; (iv) a fixed sample re-run in subprocesses under PYTHONHASHSEED 0/1/4242/random: identical digest")


register("C14", c14, c14_item,
         assumptions=["the GIL's real switch points and the process hash seed live in the runtime: (iii) and (iv) are explorations supporting the footprint claim the interleaving theorem needs, not theorems"])


# =============================================================================== C18
GRID = [-25.0, -3.0, -1.0, -0.0, 0.0, 0.5, 1.0, 3.0, 8.333333333333334, 25.0, 27.5, 1e-300]


NAME_PAIRS = [(None, None), ("ann", None), (None, "bob"), ("ann", "bob"), ("bob", "ann"), ("ann", "ann"), ("", "zed")]


def c18_pair(res, kind, a, b, drv_lines, checks, names=None):
    R = RATING_CLS[kind]
    # names (and the ids) never take part in a comparison: every pair is built with one of seven name combinations
    na, nb = names if names is not None else NAME_PAIRS[len(checks) // 5 % len(NAME_PAIRS)]
    ra, rb = R(a[0], a[1], na), R(b[0], b[1], nb)
    res.count("pairs_named_%s_%s" % ("none" if na is None else "str", "none" if nb is None else "str"))
    for op in ("lt", "le", "gt", "ge", "eq"):
        drv_lines.append("CMP %s %s %s 1 %s %s" % (op, f2h(a[0]), f2h(a[1]), f2h(b[0]), f2h(b[1])))
        checks.append((kind, op, a, b, ra, rb))


PYOP = {"lt": lambda x, y: x < y, "le": lambda x, y: x <= y, "gt": lambda x, y: x > y, "ge": lambda x, y: x >= y, "eq": lambda x, y: x == y}


def c18_eval(res, checks, outs):
    for (kind, op, a, b, ra, rb), o in zip(checks, outs):
        inp = dict(type="c18", kind=kind, op=op, a=list(a), b=list(b), names=[ra.name, rb.name])
        try:
            got = PYOP[op](ra, rb)
        except Exception as e:  # noqa: BLE001
            res.fail("property", "C18: %s %s on two ratings of one class raised %s" % (kind, op, type(e).__name__), inp); continue
        res.traces += 1
        oa, ob = a[0] - 3.0 * a[1], b[0] - 3.0 * b[1]
        want = PYOP[op](oa, ob) if op != "eq" else (a[0] == b[0] and a[1] == b[1])
        if got is not want and got != want:
            res.fail("property", "C18: %s: (%r,%r) %s (%r,%r) is %r but the ordinals are %r and %r" % (kind, a[0], a[1], op, b[0], b[1], got, oa, ob), inp)
        if str(bool(got)) != o:
            res.fail("correspondence", "C18: %s %s: implementation %r, model %s" % (kind, op, got, o), inp)


def c18_subclass(res, kind):
    """a user's subclass of the rating class IS a rating of that model: it compares with plain ratings (in both operand orders)
    and with other subclass instances exactly as the ordinals do; copies made by the library are plain ratings"""
    R = RATING_CLS[kind]
    A = core.account_class(R)
    vals = [(25.0, 8.0), (28.0, 9.0), (1.0, 0.0), (-2.0, -1.0), (30.0, 2.0)]
    for (m1, s1) in vals:
        for (m2, s2) in vals:
            for x, y in ((A("a", "eu", m1, s1), R(m2, s2)), (R(m1, s1), A("b", "us", m2, s2)), (A("a", "eu", m1, s1), A("b", "us", m2, s2)),
                         (A("a", "eu", m1, s1), copy.deepcopy(A("b", "us", m2, s2)))):
                o1, o2 = m1 - 3.0 * s1, m2 - 3.0 * s2
                res.count("subclass_pairs")
                try:
                    got = (x < y, x <= y, x > y, x >= y, x == y, x != y)
                except Exception as e:  # noqa: BLE001
                    res.fail("property", "C18: %s: comparing a user-subclass rating with a rating of the same model raised %s" % (kind, type(e).__name__),
                             dict(type="c18sub", kind=kind)); return
                want = (o1 < o2, o1 <= o2, o1 > o2, o1 >= o2, (m1, s1) == (m2, s2), (m1, s1) != (m2, s2))
                if got != want:
                    res.fail("property", "C18: %s: (%r,%r) vs (%r,%r) with a user-subclass operand gives %r, the ordinals / values say %r" % (kind, m1, s1, m2, s2, got, want),
                             dict(type="c18sub", kind=kind)); return


def c18_foreign(res, kind):
    R = RATING_CLS[kind]
    a = R(25.0, 8.0)
    others = [None, 3, 2.5, "x", (25.0, 8.0), [25.0, 8.0], object()] + [RATING_CLS[k](25.0, 8.0) for k in KINDS if k != kind]
    for o in others:
        for op in ("lt", "le", "gt", "ge"):
            for x, y in ((a, o),):
                try:
                    PYOP[op](x, y)
                    res.fail("property", "C18: %s rating %s %r did not raise" % (kind, op, type(o).__name__), dict(type="c18foreign", kind=kind)); return
                except ValueError:
                    res.count("foreign_valueerror")
                except Exception as e:  # noqa: BLE001
                    res.fail("property", "C18: %s rating %s %r raised %s, not ValueError" % (kind, op, type(o).__name__, type(e).__name__),
                             dict(type="c18foreign", kind=kind)); return
        try:
            if (a == o) is not False or (a != o) is not True:
                res.fail("property", "C18: %s rating == %r is not simply unequal" % (kind, type(o).__name__), dict(type="c18foreign", kind=kind)); return
        except Exception as e:  # noqa: BLE001
            res.fail("property", "C18: %s rating == %r raised %s" % (kind, type(o).__name__, type(e).__name__), dict(type="c18foreign", kind=kind)); return


def c18_item(res, item):
    res.case(item)
    if item.get("type") == "c18":
        lines, checks = [], []
        c18_pair(res, item["kind"], tuple(item["a"]), tuple(item["b"]), lines, checks,
                 names=tuple(item["names"]) if item.get("names") else None)
        c18_eval(res, checks, Driver().run(lines))
    else:
        for kind in KINDS:
            c18_foreign(res, kind)


def c18(res):
    rng = random.Random(res.seed)
    import gentie
    st = gentie.note(res, "ordinal, __lt__, __le__, __gt__, __ge__, __eq__ of the five rating classes")
    st_consts = {}
    if not all(st["ops_ok"].values()):
        # the static tie of some operator is not established: its numeric literals (tolerances, thresholds) steer extra near-equal pairs
        _, ops_c = gentie.harvest()
        st_consts = {k: sorted(c for c in v if 0 < abs(c) < 1) for k, v in ops_c.items() if not st["ops_ok"][k]}
    grid = GRID if res.tier == "quick" else GRID + [rng.uniform(-30, 30) for _ in range(14)]
    pts = [(m, s) for m in grid for s in grid if True]
    pts = rng.sample(pts, size(res, 40, 120))
    # equal ordinals from different (mu, sigma), exactly representable
    pts += [(25.0, 8.0), (28.0, 9.0), (1.0, 0.0), (4.0, 1.0), (-2.0, -1.0), (0.0, 0.0), (-0.0, 0.0), (3.0, 1.0)]
    lines, checks = [], []
    k = 0
    for kind in KINDS:
        for a in pts:
            for b in pts:
                k += 1
                if k % res.nshards != res.shard:
                    continue
                if res.tier == "quick" and k % 5 != KINDS.index(kind):
                    continue
                res.case(dict(kind=kind, a=a, b=b))
                c18_pair(res, kind, a, b, lines, checks)
        # small integers (every pair, every class, both tiers): values whose Python hashes collide although they differ
        # (hash(-1.0) == hash(-2.0), hash(1.0) == hash(2.0**61)), equal ordinals, sign changes
        small = [(m, s_) for m in (-2.0, -1.0, 0.0, 1.0, 2.0, 2.0 ** 61) for s_ in (1.0, 2.0)]
        for a in small:
            for b in small:
                res.case(dict(kind=kind, a=a, b=b, grid="small"))
                c18_pair(res, kind, a, b, lines, checks)
        # nearly equal values: pairs a few ulps, 1e-15 ... 1e-6 relative or 1e-12 ... 1e-300 absolute apart are DIFFERENT ratings:
        # == is exact, the order operators follow the ordinals exactly (a tolerance in either would show here)
        near = []
        for (m, s_) in ((25.0, 25.0 / 3.0), (30.0, 4.166666666666667e-4), (-7.5, 2.0), (0.0, 1.0), (1e-12, 3.0)):
            for eps_ in (2.0 ** -52, 1e-15, 1e-13, 1e-11, 4e-10, 1e-9, 1e-8, 1e-6):
                near += [((m, s_), (m * (1 + eps_) if m else eps_ * 1e-3, s_)), ((m, s_), (m, s_ * (1 + eps_))),
                         ((m, s_), (math.nextafter(m, math.inf), s_)), ((m, s_), (m + 3.0 * s_ * eps_, s_ * (1 + eps_)))]
        for extra in st_consts.get(kind, ()):
            for f_ in (0.5, 1.0, 2.0):
                near += [((25.0, 8.0), (25.0 * (1 + extra * f_), 8.0)), ((25.0, 8.0), (25.0 + extra * f_, 8.0)), ((25.0, 8.0), (25.0, 8.0 + extra * f_))]
        for a_, b_ in near[:: (3 if res.tier == "quick" else 1)]:
            res.case(dict(kind=kind, a=a_, b=b_, grid="near"))
            c18_pair(res, kind, a_, b_, lines, checks)
            c18_pair(res, kind, b_, a_, lines, checks)
        res.count("near_equal_pairs", len(near))
        c18_foreign(res, kind)
        c18_subclass(res, kind)
        # ordinal and sorting
        R = RATING_CLS[kind]
        for (m, s) in pts[:30]:
            for z in (3.0, 0.0, 1.0, -2.0, 2.5):
                if R(m, s).ordinal(z) != m - z * s or R(m, s).ordinal() != m - 3.0 * s:
                    res.fail("property", "C18: %s ordinal(%r) of (%r,%r) is not mu - z*sigma" % (kind, z, m, s), dict(type="c18ord", kind=kind)); break
        # the same object queried repeatedly with different z, then compared and sorted
        for (m, s) in pts[:20]:
            r = R(m, s)
            o = R(m + 1.0, s + 0.25)
            seq = [r.ordinal(1.0), r.ordinal(), r.ordinal(0.0), r.ordinal(3.0), o.ordinal(2.0)]
            want = [m - 1.0 * s, m - 3.0 * s, m - 0.0 * s, m - 3.0 * s, (m + 1.0) - 2.0 * (s + 0.25)]
            res.count("ordinal_sequences")
            if seq != want or (r < o) != (m - 3.0 * s < (m + 1.0) - 3.0 * (s + 0.25)) or (o <= r) != ((m + 1.0) - 3.0 * (s + 0.25) <= m - 3.0 * s):
                res.fail("property", "C18: %s: repeated ordinal(z) calls / comparisons on the same object are inconsistent with mu - z*sigma: %r vs %r" % (kind, seq, want),
                         dict(type="c18ord", kind=kind)); break
        # a deepcopy snapshot (same id) of a rating whose values have since moved on is simply unequal to it
        live = R(25.0, 8.0, "p"); snap = copy.deepcopy(live); live.mu += 2.5
        if (snap == live) is not False or (snap != live) is not True or (copy.deepcopy(live) == live) is not True:
            res.fail("property", "C18: %s: == between a snapshot and the updated rating of the same player does not follow (mu, sigma)" % kind,
                     dict(type="c18snap", kind=kind))
        # the very same object on both sides, and two names for one object
        for (m_, s_) in pts[:12]:
            a_ = R(m_, s_); b_ = a_
            refl = (a_ <= a_, a_ >= a_, a_ < a_, a_ > a_, a_ == a_, a_ != a_, a_ <= b_, b_ >= a_, all(a_ >= p_ for p_ in [a_]), max([a_, a_]) is a_)
            res.count("reflexive_comparisons")
            if refl != (True, True, False, False, True, False, True, True, True, True):
                res.fail("property", "C18: %s: comparing a rating (%r, %r) with itself gives (<=, >=, <, >, ==, !=, ...) = %r" % (kind, m_, s_, refl),
                         dict(type="c18refl", kind=kind)); break
        # a live rating and an earlier snapshot of it (same id, other values) are ordered by THEIR OWN ordinals, whichever is asked first
        for first in ("live", "snap"):
            live = R(25.0, 8.0, "p"); snap = copy.deepcopy(live)
            snap.ordinal(); live.ordinal()
            live.mu += 2.5; live.sigma = 7.0
            seq = (live.ordinal(), snap.ordinal()) if first == "live" else (snap.ordinal(), live.ordinal())[::-1]
            facts = (seq, snap < live, live > snap, live <= snap, snap >= live, sorted([live, snap])[0] is snap, snap == live)
            if facts != ((27.5 - 21.0, 25.0 - 24.0), True, True, False, False, True, False):
                res.fail("property", "C18: %s: a rating and an earlier snapshot of it (same id) are not ordered by their own ordinals (asked %s first): %r" % (kind, first, facts),
                         dict(type="c18snap", kind=kind))
        # ratings that were looked at (ordinal, comparisons, sorting) by a gamma callback WHILE a game was being rated, then updated by that game
        M_ = MODEL_CLS[kind]
        dflt = M_().gamma

        def peeking(c, k_, mu, s2, team, rank, _d=dflt):
            sorted(team); [p.ordinal() for p in team]; [p.ordinal(1.0) for p in team]
            return _d(c, k_, mu, s2, team, rank)
        mdl = M_(gamma=peeking)
        tms = [[mdl.rating(mu=m, sigma=abs(s) + 0.5) for (m, s) in pts[i:i + 2]] for i in range(0, 6, 2)]
        for t in tms:
            for p in t:
                p.ordinal()
        try:
            outg = mdl.rate(tms, ranks=[2, 1, 3])
            flatg = [p for t in outg for p in t]
            bad = [p for p in flatg if p.ordinal() != p.mu - 3.0 * p.sigma]
            ordr = sorted(flatg)
            if bad or any(a.mu - 3.0 * a.sigma > b.mu - 3.0 * b.sigma for a, b in zip(ordr, ordr[1:])):
                res.fail("property", "C18: %s: after a game whose gamma callback looked at the players' ordinals, ordinal() / sorting no longer follow mu - 3 sigma" % kind,
                         dict(type="c18peek", kind=kind))
        except Exception as e:  # noqa: BLE001
            res.fail("property", "C18: %s: rating a game with a gamma callback that sorts the team raised %s" % (kind, type(e).__name__), dict(type="c18peek", kind=kind))
        rs = [R(m, s) for (m, s) in pts]
        for r in rs[::2]:
            r.ordinal(1.0)          # a display query with a non-default z before sorting
        rng.shuffle(rs)
        srt = sorted(rs)
        ords = [r.ordinal() for r in srt]
        if any(x > y for x, y in zip(ords, ords[1:])):
            res.fail("property", "C18: sorting %s ratings does not give the leaderboard order by ordinal" % kind, dict(type="c18sort", kind=kind))
    c18_eval(res, checks, Driver().run(lines))
    res.rule = ("per rating class: all ordered pairs over a grid of (mu, sigma) incl. negatives, zeros, -0.0, equal ordinals from different "
                "(mu, sigma); the five operators compared with the ordinals and with the Lean model; ordinal(z); sorting; foreign operands "
                "(None, numbers, str, tuple, list, object, the other four rating classes): ValueError for < <= > >=, unequal for ==")


register("C18", c18, c18_item)


# =============================================================================== C19
PUBLIC = ["rate", "predict_win", "predict_draw", "predict_rank", "rating", "create_rating", "__init__"]
RPUBLIC = ["__init__", "ordinal", "__eq__", "__lt__", "__le__", "__gt__", "__ge__", "__hash__", "__deepcopy__"]


def norm_sig(fn, clsnames):
    """parameter names, kinds and defaults (annotations name the model's own classes and are left out)"""
    out = []
    for p in inspect.signature(fn).parameters.values():
        d = p.default
        if d is inspect.Parameter.empty:
            d = "<required>"
        elif callable(d):
            d = getattr(d, "__name__", "callable")
        out.append((p.name, str(p.kind), repr(d)))
    return repr(out)


def c19_signatures(res):
    names = []
    for k in KINDS:
        names += [MODEL_CLS[k].__name__ + "TeamRating", MODEL_CLS[k].__name__ + "Rating", MODEL_CLS[k].__name__]
    names.sort(key=len, reverse=True)
    for meth in PUBLIC:
        sigs = {k: norm_sig(getattr(MODEL_CLS[k], meth), names) for k in KINDS}
        res.count("signatures")
        if len(set(sigs.values())) != 1:
            res.fail("property", "C19: signature of %s differs between the models: %r" % (meth, sigs), dict(type="c19sig"))
    for meth in RPUBLIC:
        sigs = {k: norm_sig(getattr(RATING_CLS[k], meth), names) for k in KINDS}
        if len(set(sigs.values())) != 1:
            res.fail("property", "C19: signature of rating.%s differs between the models: %r" % (meth, sigs), dict(type="c19sig"))
    for what, table in (("model constructor", MODEL_CLS), ("rating constructor", RATING_CLS)):
        sigs = {k: norm_sig(table[k].__init__, names) for k in KINDS}
        res.count("signatures")
        if len(set(sigs.values())) != 1:
            res.fail("property", "C19: signature of the %s differs between the models: %r" % (what, sigs), dict(type="c19sig"))
    # the documented positional order of the constructor: (mu, sigma, beta, kappa, gamma, tau, limit_sigma)
    for k in KINDS:
        M = MODEL_CLS[k]
        dg = M().gamma
        m1 = M(30.0, 10.0, 5.0, 1e-3, dg, 0.25, True)
        got = (m1.mu, m1.sigma, m1.beta, m1.kappa, m1.gamma is dg, m1.tau, m1.limit_sigma)
        if got != (30.0, 10.0, 5.0, 1e-3, True, 0.25, True):
            res.fail("property", "C19: %s(mu, sigma, beta, kappa, gamma, tau, limit_sigma) given by position is configured as %r" % (M.__name__, got), dict(type="c19sig"))
    pubs = {k: sorted(n for n in dir(MODEL_CLS[k]) if not n.startswith("_") and not n.endswith("Rating")) for k in KINDS}
    if len(set(map(tuple, pubs.values()))) != 1:
        res.fail("property", "C19: the models expose different public operations: %r" % pubs, dict(type="c19sig"))


def c19_item(res, item):
    res.case(item)
    if item.get("type") == "pred":
        c19_pred(res, item["game"])
    elif item.get("type") == "game":
        c19_two(res, item["game"])
    elif item.get("type") == "c13":
        op, a, b, c, label = item["call"]
        c19_malformed(res, (op, totuple(a), totuple(b), totuple(c), label))
    elif item.get("type") == "c19retuned":
        c19_retuned(res, item["game"], None, factors=tuple(item["factors"]))
    elif item.get("type") == "c19special":
        vals = [float(v[2:]) if isinstance(v, str) and v.startswith("f:") else v for v in item["values"]]
        c19_special_outcomes(res, None, fixed=(item["mode"], vals, [[tuple(p) for p in t] for t in item["teams"]]))
    else:
        c19_signatures(res)


def c19_pred(res, g):
    outs = {}
    for k in KINDS:
        g2 = dict(g); g2["kind"] = k
        try:
            outs[k] = p_pred.impl_pred(g2)
        except Exception as e:  # noqa: BLE001
            outs[k] = "raised " + type(e).__name__
    res.traces += 1
    if any(outs[k] != outs["PL"] for k in KINDS):
        bad = [k for k in KINDS if outs[k] != outs["PL"]]
        res.fail("property", "C19: predictions differ between models for identical values and parameters: %s vs PL" % bad, dict(type="pred", game=g))


def retag(term, kind):
    if term[0] in ("L", "T"):
        return (term[0], [retag(x, kind) for x in term[1]])
    if term[0] == "R":
        return ("R", term[1] if term[1].startswith("!") else kind, term[2], term[3]) if not term[1].startswith("!") else term
    return term


def c19_malformed(res, call):
    """the same call shape against each class (own ratings re-tagged to that class; foreign ones stay foreign)"""
    op, teams_t, ranks_t, scores_t, label = call
    outs = {}
    for k in KINDS:
        foreign = KINDS[(KINDS.index(k) + 1) % 5]

        def rt(term):
            if term[0] in ("L", "T"):
                return (term[0], [rt(x) for x in term[1]])
            if term[0] == "R":
                return ("R", k if term[1] == "own" else foreign, term[2], term[3])
            return term
        reg = []
        teams, ranks, scores = materialize(rt(teams_t), reg), materialize(rt(ranks_t), reg), materialize(rt(scores_t), reg)
        m = MODEL_CLS[k]()
        try:
            if op == "rate":
                m.rate(teams, ranks=ranks, scores=scores)
            else:
                getattr(m, op)(teams)
            outs[k] = "accepted"
        except Exception as e:  # noqa: BLE001
            outs[k] = type(e).__name__
    res.traces += 1
    if len(set(outs.values())) != 1:
        res.fail("property", "C19: the models do not accept/reject the same arguments with the same exception class: %r for %s(%s, ranks=%s, scores=%s)" % (
            outs, op, show(teams_t), show(ranks_t), show(scores_t)), dict(type="c13", call=[op, teams_t, ranks_t, scores_t, label]))


def own_tag(term, kind):
    if term[0] in ("L", "T"):
        return (term[0], [own_tag(x, kind) for x in term[1]])
    if term[0] == "R":
        return ("R", "own" if term[1] == kind else "other", term[2], term[3])
    return term


def c19_two(res, g):
    """two-team games: BT partial pairing returns exactly what BT full pairing returns"""
    if len(g["teams"]) != 2:
        res.count("two_team_comparison_skipped_not_two_teams")
        return
    a = dict(g); a["kind"] = "BTF"
    b = dict(g); b["kind"] = "BTP"
    try:
        A, B = impl_teams(a), impl_teams(b)
        if core.game_hash(g) % 5 == 2:
            # a roster that lists one rating object twice: whatever the library does with it (it is updated twice in sequence), both
            # Bradley-Terry variants do the same on a two-team game
            outs = []
            for gk in (a, b):
                m = build_model(gk)
                ts = build_teams(m, gk)
                ts[0] = ts[0] + [ts[0][0]]
                kw = {}
                if gk["oc"][0] == "R": kw["ranks"] = list(gk["oc"][1])
                elif gk["oc"][0] == "S": kw["scores"] = list(gk["oc"][1])
                if gk["tauopt"] is not None: kw["tau"] = gk["tauopt"]
                if gk["lsopt"] is not None: kw["limit_sigma"] = gk["lsopt"]
                outs.append([[(p.mu, p.sigma) for p in t] for t in m.rate(ts, **kw)])
            res.count("two_team_games_member_listed_twice")
            if outs[0] != outs[1]:
                res.fail("property", "C19: two-team game with a member listed twice: BradleyTerryPart %r differs from BradleyTerryFull %r" % (outs[1][0][0], outs[0][0][0]),
                         dict(type="game", game=a)); return
    except Exception as e:  # noqa: BLE001
        res.fail("property", "C19: valid call raised %s" % type(e).__name__, dict(type="game", game=g)); return
    res.count("two_team_games")
    if A != B:
        res.fail("property", "C19: two-team game: BradleyTerryPart %r differs from BradleyTerryFull %r" % (B[0][0], A[0][0]), dict(type="game", game=a))


def c19_retuned(res, g, rng, factors=None):
    """the public attributes re-assigned in place on all five models (a running system changing its units or tuning
    beta): the five still predict identically, the two Bradley-Terry and the two Thurstone-Mosteller variants still
    agree on two-team games, and each agrees with a model constructed with the new parameters"""
    k1, k2 = factors if factors else (rng.choice([0.25, 0.5, 3.0]), rng.choice([0.5, 2.0, 10.0]))
    inp = dict(type="c19retuned", game=g, factors=[k1, k2])
    teams = [[(m * k1, s * k1) for (m, s) in t] for t in g["teams"]]
    # rate() is not defined for a team of zero variance (nor far outside the numeric range): those games are only predicted
    ratable = all(any(s_ * s_ > 0 for (_m, s_) in t) for t in teams + g["teams"]) and \
        all(abs(m_) <= 20 * g["beta"] and 1e-4 * g["beta"] <= s_ <= 10 * g["beta"] for t in g["teams"] for (m_, s_) in t)
    outs, fresh, two = {}, {}, {}
    try:
        for k in KINDS:
            M = MODEL_CLS[k]
            m = M(beta=g["beta"], kappa=g["kappa"], tau=g["tau"])
            ts0 = [[m.rating(mu=a, sigma=b) for (a, b) in t] for t in g["teams"]]
            m.predict_win(ts0); m.predict_draw(ts0); m.predict_rank(ts0)
            if ratable:
                m.rate(ts0)
            m.beta = g["beta"] * k1; m.kappa = g["kappa"] * k2; m.tau = g["tau"] * k1; m.mu = m.mu * k1; m.sigma = m.sigma * k1
            ts = [[m.rating(mu=a, sigma=b) for (a, b) in t] for t in teams]
            outs[k] = (m.predict_win(ts), m.predict_draw(ts), m.predict_rank(ts))
            f = M(beta=g["beta"] * k1, kappa=g["kappa"] * k2, tau=g["tau"] * k1)
            tf = [[f.rating(mu=a, sigma=b) for (a, b) in t] for t in teams]
            fresh[k] = (f.predict_win(tf), f.predict_draw(tf), f.predict_rank(tf))
            pair = [[m.rating(mu=a, sigma=b) for (a, b) in t] for t in teams[:2]]
            pairf = [[f.rating(mu=a, sigma=b) for (a, b) in t] for t in teams[:2]]
            two[k] = ([[(p.mu, p.sigma) for p in t] for t in m.rate(pair, ranks=[1, 0])],
                      [[(p.mu, p.sigma) for p in t] for t in f.rate(pairf, ranks=[1, 0])]) if ratable else (None, None)
    except Exception as e:  # noqa: BLE001
        res.fail("property", "C19: a valid call raised %s after the model's public attributes were re-assigned" % type(e).__name__, inp); return
    res.count("retuned_in_place_cross_class")
    bad = [k for k in KINDS if outs[k] != outs["PL"]]
    if bad:
        res.fail("property", "C19: after re-assigning beta/kappa/tau in place the predictions of %s differ from PlackettLuce's for identical values and parameters" % bad, inp); return
    bad = [k for k in KINDS if outs[k] != fresh[k]]
    if bad:
        res.fail("property", "C19: %s re-tuned in place predicts differently from the same class constructed with those parameters" % bad, inp); return
    bad = [k for k in KINDS if two[k][0] != two[k][1]]
    if bad:
        res.fail("property", "C19: %s re-tuned in place rates a two-team game differently from the same class constructed with those parameters" % bad, inp); return
    if two["BTF"][0] != two["BTP"][0]:
        res.fail("property", "C19: two-team game after re-tuning in place: BradleyTerryPart differs from BradleyTerryFull", inp)


SPECIAL_OUTCOMES = [float("inf"), float("-inf"), 10 ** 400, -10 ** 400, 1e308, -1e308, 5e-324, True, False, 0, -0.0, 2 ** 53 + 1,
                    float(2 ** 53), 1, 2, 2.5, -3]


def c19_special_outcomes(res, rng, fixed=None):
    """valid but unusual rank / score values (infinities for did-not-finish, ints beyond the float range, bools, denormals):
    every class must treat the call the same way (same exception class or all accepted with finite results)"""
    if fixed:
        mode, vals, prior = fixed
    else:
        n = rng.randint(2, 5)
        vals = [rng.choice(SPECIAL_OUTCOMES) for _ in range(n)]
        mode = rng.choice(["ranks", "scores"])
        prior = [[(rng.gauss(25, 5), rng.uniform(2, 9)) for _ in range(rng.randint(1, 2))] for _ in range(n)]
    inp = dict(type="c19special", mode=mode, values=[("f:" + repr(v)) if isinstance(v, float) else v for v in vals], teams=prior)
    outs = {}
    for k in KINDS:
        m = MODEL_CLS[k]()
        ts = [[m.rating(mu=a, sigma=b) for (a, b) in t] for t in prior]
        try:
            r = m.rate(ts, **{mode: list(vals)})
            outs[k] = "accepted" if all(math.isfinite(p.mu) and math.isfinite(p.sigma) for t in r for p in t) else "non-finite"
        except Exception as e:  # noqa: BLE001
            outs[k] = type(e).__name__
    res.count("special_outcome_calls")
    res.count("special_outcome_" + outs["PL"])
    if len(set(outs.values())) != 1:
        res.fail("property", "C19: rate(%s=%s) is not treated alike by the five models: %r" % (mode, [repr(v)[:24] for v in vals], outs), inp)


class _Matcher:
    def __init__(self, verdict):
        self.verdict = verdict

    def __eq__(self, other):
        return self.verdict

    def __ne__(self, other):
        return not self.verdict

    __hash__ = None


_ANY, _NEVER = _Matcher(True), _Matcher(False)


def c19_rating_rules(res, rng):
    for it_ in range(96):
        m, s = rng.gauss(25, 8), rng.uniform(0, 9)
        if it_ % 12 == 11:
            m, s = 30.0, 4.166666666666667e-4          # a settled player
        # unrelated values, and values a few ulps / 1e-13 ... 1e-8 relative apart (different ratings under every class's rules)
        e_ = rng.choice([2.0 ** -52, 1e-15, 1e-13, 1e-11, 4e-10, 1e-9, 1e-8])
        m2, s2 = rng.choice([(m, s), (m + 1, s), (m, s + 1), (m + 3, s + 1), (m * (1 + e_), s), (m, s * (1 + e_)),
                             (math.nextafter(m, math.inf), s), (m + 3.0 * s * e_, s * (1 + e_))])
        rows = {}
        for k in KINDS:
            R = RATING_CLS[k]
            a, b = R(m, s, "n"), R(m2, s2)
            a.history = [1, 2]                       # an application attribute hung on the rating
            hx = R(m, s, "h"); h0_ = hash(hx); {hx: 1}; hsnap = copy.deepcopy(hx)
            hx.mu += 1.5; hx.sigma *= 0.5
            hash_rule = (h0_ == hash((hx.id, m, s)), hash(hx) == hash((hx.id, hx.mu, hx.sigma)), hash(hsnap) == hash((hsnap.id, m, s)), hsnap in {hsnap}, (hsnap in {hx}) == (hsnap == hx and hash(hsnap) == hash(hx)))
            c = copy.deepcopy(a)
            A = core.account_class(R)
            u = A("acc", "eu", m, s)
            cu = copy.deepcopy(u)
            try:
                mdl = MODEL_CLS[k]()
                rated = mdl.rate([[A("acc", "eu", m, s)], [R(m2, s2)]], ranks=[1, 2])
                sub_rate = ("accepted", type(rated[0][0]).__name__ == "Account")
            except Exception as e:  # noqa: BLE001
                sub_rate = (type(e).__name__, None)
            rows[k] = (a == b, a < b, a <= b, a > b, a >= b, a.ordinal(), hash(a) == hash((a.id, a.mu, a.sigma)),
                       (c.mu, c.sigma, c.name) == (a.mu, a.sigma, a.name), c.id == a.id, c is not a, hash(c) == hash(a),
                       # a user's subclass of the rating class: what a copy of it is, how it compares, whether rate takes it
                       type(cu) is R, type(cu).__name__ == "Account", (cu.mu, cu.sigma, cu.name, cu.id) == (u.mu, u.sigma, u.name, u.id),
                       u == a, (u < b, u <= b, b > u, b >= u), sub_rate,
                       # what a copy does with an attribute the application added; == / != against an object that claims to equal everything
                       hasattr(c, "history"), getattr(c, "history", None) is a.history, (a == _ANY, a != _ANY, _ANY == a, [a].count(_ANY), a in [_ANY]),
                       (a == _NEVER, a != _NEVER), hash_rule)
        res.count("rating_rule_rows")
        if len(set(rows.values())) != 1:
            res.fail("property", "C19: rating classes compare/hash/copy by different rules: %r" % rows, dict(type="c19rules"))
            return


def c19_source_diff(res):
    """The five model files are five copies of one text outside _compute.  Where a copy has drifted, the cross-class
    comparisons are concentrated: this is a search heuristic (how hard to hammer), never a failure by itself —
    a harmless edit of one copy is not a violation.  The comparison is on the syntax tree: docstrings dropped, class names
    unified, local variables renamed by order of first binding."""
    import ast
    import textwrap

    def norm(cls_names, fn):
        try:
            node = ast.parse(textwrap.dedent(inspect.getsource(fn))).body[0]
        except (OSError, TypeError, SyntaxError, IndexError):
            return None
        for sub in ast.walk(node):
            if isinstance(sub, (ast.FunctionDef, ast.Lambda)) and not isinstance(sub, ast.Lambda):
                b = sub.body
                if b and isinstance(b[0], ast.Expr) and isinstance(getattr(b[0], "value", None), ast.Constant) \
                        and isinstance(b[0].value.value, str):
                    sub.body = b[1:] or [ast.Pass()]
        local = {}
        for sub in ast.walk(node):
            if isinstance(sub, ast.Name) and isinstance(sub.ctx, ast.Store) and sub.id not in local:
                local[sub.id] = "_v%d" % len(local)
        for sub in ast.walk(node):
            if isinstance(sub, ast.Name):
                if sub.id in local:
                    sub.id = local[sub.id]
                elif sub.id in cls_names:
                    sub.id = cls_names[sub.id]
            elif isinstance(sub, ast.Attribute) and sub.attr in cls_names:
                sub.attr = cls_names[sub.attr]
            elif isinstance(sub, ast.Constant) and isinstance(sub.value, str):
                for n in sorted(cls_names, key=len, reverse=True):
                    sub.value = sub.value.replace(n, cls_names[n])
        return ast.dump(node, annotate_fields=False, include_attributes=False)
    differing = []
    compared = 0
    cls_maps = {}
    for k in KINDS:
        base = MODEL_CLS[k].__name__
        cls_maps[k] = {base: "M", base + "Rating": "R", base + "TeamRating": "T"}
    skip = {"__str__", "__repr__", "_compute"}
    for label, table in (("", MODEL_CLS), ("rating.", RATING_CLS)):
        meths = sorted(set().union(*[{n for n, v in vars(table[k]).items() if inspect.isfunction(v)} for k in KINDS]) - skip)
        for meth in meths:
            texts = {k: norm(cls_maps[k], vars(table[k]).get(meth)) for k in KINDS}
            compared += 1
            if len(set(texts.values())) != 1:
                differing.append(label + meth)
    res.notes.append("syntax-tree comparison of the five copies outside _compute: %d methods compared, drifted: %s"
                     % (compared, differing or "none"))
    res.count("shared_methods_compared", compared)
    res.count("drifted_shared_methods", len(differing))
    return differing


def c19(res):
    rng = random.Random(res.seed)
    drift = c19_source_diff(res)
    boost = 4 if drift else 1
    _size = core.size
    core_size = lambda r, q, t: _size(r, q, t) * boost      # noqa: E731
    globals()["size"] = core_size
    try:
        c19_body(res, rng)
    finally:
        globals()["size"] = _size


def c19_body(res, rng):
    import gentie
    st = gentie.note(res, "ordinal, comparison operators, == and default gamma: each of the five classes separately against ONE model definition")
    gentie.note_validation(res)
    if len(set(st["ops_ok"].values())) > 1:
        res.notes.append("static tie: the rating operators of %s are no longer identified with the shared model definition while the others are: the five copies differ in text there" % (
            ", ".join(k for k, v in st["ops_ok"].items() if not v)))
    c19_signatures(res)
    c19_rating_rules(res, rng)
    for i in range(size(res, 400, 3000)):
        g = p_pred.pred_game(rng, kind="PL")
        res.case(g); describe(res, g)
        c19_pred(res, g)
        if i % 4 == 0:
            c19_retuned(res, g, rng)
    for _ in range(size(res, 300, 2000)):
        c19_special_outcomes(res, rng)
    for _ in range(size(res, 600, 4000)):
        kind = "PL"
        call = gen_call(rng, kind)
        call = (call[0], own_tag(call[1], kind), own_tag(call[2], kind), own_tag(call[3], kind), call[4])
        res.case(dict(call=[call[0], show(call[1]), show(call[2]), show(call[3])]))
        c19_malformed(res, call)
    games = []
    for _ in range(size(res, 500, 4000)):
        g = gen_game(rng, kind="BTF", n=2)
        res.case(g)
        c19_two(res, g)
        games.append(g)
        g2 = dict(g); g2["kind"] = "BTP"; games.append(g2)
    corr_games(res, games, "correspondence", "C19 two-team BT games")
    # each of the five classes separately against the single kind-free model
    pg = []
    for _ in range(size(res, 60, 400)):
        for k in KINDS:
            pg.append(p_pred.pred_game(rng, kind=k))
    p_pred.corr_pred(res, pg, "correspondence", "C19 each class vs the kind-free model")
    res.rule = ("cross-class on the implementation: predictions bit-identical for identical values/parameters; the C13 grammar (own vs foreign "
                "rating re-tagged per class) accepted/rejected with the same class; inspect.signature of public methods; compare/hash/deepcopy "
                "rows; two-team games: BradleyTerryPart == BradleyTerryFull bit-exactly; each class separately against the kind-free Lean model")


register("C19", c19, c19_item,
         assumptions=["equality of method signatures is a reflection check in the harness (inspect.signature), not a theorem"])


# =============================================================================== C20
VALS = [0.0, -0.0, 25.0, -3.5, 1e-300, 1e300, 8.333333333333334, 0, -7, 3, True, False, 5e-324]


def same_value(a, b):
    return type(a) is type(b) and (a == b) and (not isinstance(a, float) or math.copysign(1, a) == math.copysign(1, b))


def c20_construct(res, kind, seen_ids):
    M = MODEL_CLS[kind]
    m = M(mu=31.0, sigma=7.0)
    inp = dict(type="c20", kind=kind)
    for mu in VALS:
        for sg in VALS:
            for name in (None, "alice", "a b"):
                r = m.rating(mu, sigma=sg, name=name)
                res.count("constructed")
                if not (same_value(r.mu, mu) and same_value(r.sigma, sg) and r.name == name):
                    res.fail("property", "C20: %s.rating(%r, %r, %r) holds (%r, %r, %r)" % (kind, mu, sg, name, r.mu, r.sigma, r.name), inp); return
                r2 = M.create_rating([mu, sg], name)
                if not (same_value(r2.mu, mu) and same_value(r2.sigma, sg) and r2.name == name):
                    res.fail("property", "C20: %s.create_rating([%r, %r], %r) holds (%r, %r, %r)" % (kind, mu, sg, name, r2.mu, r2.sigma, r2.name), inp); return
                for x in (r, r2):
                    if x.id in seen_ids:
                        res.fail("property", "C20: rating id %r is not fresh" % x.id, inp); return
                    seen_ids.add(x.id)
                c = copy.deepcopy(r)
                if not (c is not r and same_value(c.mu, r.mu) and same_value(c.sigma, r.sigma) and c.name == r.name and c.id == r.id):
                    res.fail("property", "C20: deepcopy of a rating does not preserve mu/sigma/name/id in a distinct object", inp); return
    # ids stay fresh when the program re-seeds the global random generator (reproducible simulations)
    st = random.getstate()
    try:
        for rep in range(3):
            random.seed(1234)
            for _ in range(3):
                for x in (m.rating(1.0, 2.0), M.create_rating([1.0, 2.0])):
                    if x.id in seen_ids:
                        res.fail("property", "C20: rating id %r repeats after random.seed()" % x.id, inp); return
                    seen_ids.add(x.id)
    finally:
        random.setstate(st)
    # a snapshot (deepcopy keeps the id) next to the live player whose values have moved on
    live = m.rating(5.0, 6.5, "p")
    snap = copy.deepcopy(live)
    live.mu, live.sigma = -3.5, 7.25
    cp = copy.deepcopy([[snap], [live], [snap, live]])
    vals = [[(p.mu, p.sigma, p.id) for p in t] for t in cp]
    want = [[(5.0, 6.5, live.id)], [(-3.5, 7.25, live.id)], [(5.0, 6.5, live.id), (-3.5, 7.25, live.id)]]
    if vals != want:
        res.fail("property", "C20: deepcopy of a nested list holding a snapshot and the live rating of one player gives %r, expected %r" % (vals, want), inp); return
    # a copy keeps the name exactly, the empty string included (only create_rating documents turning "" into None)
    e_ = m.rating(3.0, 1.5, "")
    for c_ in (copy.deepcopy(e_), copy.deepcopy([[e_]])[0][0]):
        if not (same_value(c_.name, e_.name) if isinstance(e_.name, float) else (c_.name == e_.name and type(c_.name) is type(e_.name))):
            res.fail("property", "C20: deepcopy of a rating named %r holds the name %r" % (e_.name, c_.name), inp); return
    d = m.rating()
    if not (d.mu == 31.0 and d.sigma == 7.0 and d.name is None):
        res.fail("property", "C20: rating() without arguments does not use the model defaults", inp)
    d = m.rating(sigma=0.0)
    if not (d.mu == 31.0 and same_value(d.sigma, 0.0)):
        res.fail("property", "C20: rating(sigma=0.0) does not hold sigma 0.0 / default mu", inp)
    d = m.rating(mu=0)
    if not (same_value(d.mu, 0) and d.sigma == 7.0):
        res.fail("property", "C20: rating(mu=0) does not hold mu 0 / default sigma", inp)
    nested = [[m.rating(1.0, 2.0, "x"), m.rating(3.0, 4.0)], [m.rating(5.0, 6.0, "y")]]
    cp = copy.deepcopy(nested)
    for t, tc in zip(nested, cp):
        for p, q in zip(t, tc):
            if not (q is not p and (q.mu, q.sigma, q.name, q.id) == (p.mu, p.sigma, p.name, p.id)):
                res.fail("property", "C20: deepcopy of nested team lists does not preserve the ratings", inp); return


def c20_league(res, rng, kind, games_out, prop="C20", rebuild_p=0.6, polarised_p=0.3):
    beta, kappa, tau = gen_config(rng, 0.6)
    cfg = dict(beta=beta, kappa=kappa, tau=tau, limit_sigma=rng.random() < 0.3)
    model = MODEL_CLS[kind](**cfg)
    npl = rng.randint(5, 10)
    sc = beta / core.DEFAULTS["beta"]
    A = [model.rating(rng.gauss(25, 8) * sc, rng.uniform(1, 9) * sc, "p%d" % i) for i in range(npl)]
    polarised = rng.random() < polarised_p
    if polarised:
        # a polarised league: settled players at the two ends of the range; squads of one kind meet squads of the other and the
        # result is the expected one, so the game carries no information and leaves every sigma bit-for-bit where tau put it
        npl = 10
        A = [model.rating((1 if i % 2 else -1) * rng.uniform(17, 20) * beta, rng.uniform(0.05, 0.5) * beta, "p%d" % i) for i in range(npl)]
        res.count("polarised_leagues")
    B = [model.rating(a.mu, a.sigma) for a in A]
    for gi in range(size(res, 40, 200)):
        nt = rng.randint(2, 4)
        ids = rng.sample(range(npl), rng.randint(nt, min(npl, 2 * nt)))
        tid = [[] for _ in range(nt)]
        for k, p in enumerate(ids):
            tid[k % nt].append(p)
        ranks = encode_ranks(rng, random_weak_order(rng, nt))
        if polarised and rng.random() < 0.6:
            strong = rng.sample([i for i in range(npl) if i % 2], rng.randint(2, 4))
            weak = rng.sample([i for i in range(npl) if not i % 2], rng.randint(2, 4))
            tid, ranks = ([strong, weak], [1, 2]) if rng.random() < 0.5 else ([weak, strong], [2, 1])
            nt = 2
            res.count("foregone_conclusions")
        kw = dict(ranks=ranks)
        if rng.random() < 0.3: kw["tau"] = rng.choice([0.0, beta / 10])
        if rng.random() < 0.3: kw["limit_sigma"] = rng.random() < 0.5
        # B: serialise to (mu, sigma) and rebuild before some games (fresh model too, now and then)
        if rng.random() < rebuild_p:
            store = [(b.mu, b.sigma) for b in B]
            mB = MODEL_CLS[kind](**cfg) if rng.random() < 0.5 else model
            B = [mB.create_rating([m, s]) if rng.random() < 0.5 else mB.rating(m, s) for (m, s) in store]
            res.count("rebuilds")
        tA = [[A[p] for p in t] for t in tid]
        tB = [[B[p] for p in t] for t in tid]
        inp = dict(type="c20league", kind=kind, cfg=cfg, prop=prop)
        pa = (model.predict_win(tA), model.predict_draw(tA), model.predict_rank(tA))
        pb = (model.predict_win(tB), model.predict_draw(tB), model.predict_rank(tB))
        if nt >= 2 and gi % 3 == 0:
            # the same squad list entered twice (objects with a history) against two separately rebuilt squads with the same values
            qa = [tA[0], tA[0]] + tA[1:]
            qb = [tB[0], list(tB[0])] + tB[1:]
            res.count("squad_entered_twice")
            if (model.predict_win(qa), model.predict_draw(qa), model.predict_rank(qa)) != (model.predict_win(qb), model.predict_draw(qb), model.predict_rank(qb)):
                res.fail("property", "%s: predictions for a squad entered twice as one list object differ from those for rebuilt ratings in separate lists at game %d" % (prop, gi), inp); return
        if pa != pb:
            res.fail("property", "%s: predictions with rebuilt ratings differ from the originals (objects with a history) at game %d" % (prop, gi), inp); return
        if rng.random() < 0.2:
            # a malformed call on the objects with a history, rejected and caught by the caller: it must leave no trace
            bad = rng.choice([dict(scores=[1.0] * (nt + 1)), dict(ranks=[1] * (nt - 1)), dict(scores=["x"] * nt), dict(ranks=[None] * nt),
                              dict(scores=[1.0] * nt, ranks=[1] * nt)])
            try:
                model.rate(tA, **bad)
                res.fail("property", "%s: a malformed rate call (%s) was accepted" % (prop, sorted(bad)), inp); return
            except (TypeError, ValueError):
                res.count("rejected_calls_in_between")
        oA = model.rate(tA, **dict(kw, ranks=list(ranks)))
        oB = model.rate(tB, **dict(kw, ranks=list(ranks)))
        res.count("league_games")
        res.evaluations += 1
        for t, ta, tb in zip(tid, oA, oB):
            for p, a, b in zip(t, ta, tb):
                if (a.mu, a.sigma) != (b.mu, b.sigma):
                    res.fail("property", "%s: game %d: a player rebuilt from its (mu, sigma) values (%d) ends (%r, %r), the object with a history (%r, %r)" % (prop, gi, p, b.mu, b.sigma, a.mu, a.sigma), inp)
                    return
                A[p], B[p] = a, b


def c20_item(res, item):
    rng = random.Random(res.seed)
    res.case(item)
    kind = item.get("kind", "PL")
    c20_construct(res, kind, set())
    c20_league(res, rng, kind, [])


def c20_store_aliasing(res, rng):
    """A store of plain [mu, sigma] lists: a rating built from such a list holds the VALUES, it is not a view of the list; and a player
    meeting an earlier snapshot of itself (deepcopy keeps the id) in one lobby is predicted exactly like two rebuilt players."""
    for kind in KINDS:
        model = MODEL_CLS[kind]()
        for rep in range(size(res, 4, 20)):
            store = {"a": [rng.gauss(25, 6), rng.uniform(2, 8)], "b": [rng.gauss(25, 6), rng.uniform(2, 8)], "c": [rng.gauss(25, 6), rng.uniform(2, 8)]}
            keep = {k_: list(v_) for k_, v_ in store.items()}
            players = {k_: model.create_rating(v_, k_) for k_, v_ in store.items()}
            res.count("store_aliasing_probes")
            try:
                out = model.rate([[players["a"]], [players["b"]], [players["c"]]], ranks=[2, 1, 3])
            except Exception as e:  # noqa: BLE001
                res.fail("property", "C20: %s: rating players built by create_rating raised %s" % (kind, type(e).__name__), dict(type="c20alias", kind=kind)); break
            if {k_: list(v_) for k_, v_ in store.items()} != keep:
                res.fail("property", "C20: %s: rating a player built by create_rating(values) rewrote the caller's values list %r -> %r" % (kind, keep, store),
                         dict(type="c20alias", kind=kind)); break
            store["a"][0] += 5.0; store["a"][1] *= 0.5
            if (players["a"].mu, players["a"].sigma) != (out[0][0].mu, out[0][0].sigma) or (out[0][0].mu == store["a"][0]):
                res.fail("property", "C20: %s: editing the list a rating was created from changed the rating" % kind, dict(type="c20alias", kind=kind)); break
            # rebuild twice from the (unchanged) stored values of b: both rebuilds hold exactly those values
            r1, r2 = model.create_rating(store["b"], "b"), model.create_rating(store["b"], "b")
            if (r1.mu, r1.sigma, r2.mu, r2.sigma) != (keep["b"][0], keep["b"][1], keep["b"][0], keep["b"][1]):
                res.fail("property", "C20: %s: two rebuilds from the same stored values differ from them: %r %r vs %r" % (
                    kind, (r1.mu, r1.sigma), (r2.mu, r2.sigma), keep["b"]), dict(type="c20alias", kind=kind)); break
            # a team and its deepcopy twin (same ids, same values) tied in one game are two teams, rated like rebuilt players
            try:
                squad = [model.rating(mu=rng.gauss(25, 6), sigma=rng.uniform(2, 8)) for _ in range(rng.randint(1, 3))]
                twin = copy.deepcopy(squad)
                third = [model.rating(mu=rng.gauss(25, 6), sigma=rng.uniform(2, 8))]
                fresh = MODEL_CLS[kind]()
                reb = [[fresh.rating(mu=p.mu, sigma=p.sigma) for p in t] for t in (squad, twin, third)]
                gt = model.rate([squad, twin, third], ranks=[1, 1, 2])
                wt_ = fresh.rate(reb, ranks=[1, 1, 2])
                if [[(p.mu, p.sigma) for p in t] for t in gt] != [[(p.mu, p.sigma) for p in t] for t in wt_]:
                    res.fail("property", "C20: %s: a squad tied with its deepcopy twin (same ids, same values) is not rated like rebuilt players: %r vs %r" % (
                        kind, [[(p.mu, p.sigma) for p in t] for t in gt], [[(p.mu, p.sigma) for p in t] for t in wt_]), dict(type="c20alias", kind=kind)); break
            except Exception as e:  # noqa: BLE001
                res.fail("property", "C20: %s: a game between a squad and its deepcopy twin raised %s" % (kind, type(e).__name__), dict(type="c20alias", kind=kind)); break
            # snapshot vs live: same id, different values, in one lobby of >= 3 teams
            live = [model.rating(mu=rng.gauss(25, 6), sigma=rng.uniform(2, 8), name="p%d" % i) for i in range(3)]
            snaps = copy.deepcopy(live)
            try:
                model.rate([[live[0]], [live[1]], [live[2]]], ranks=[1, 2, 3])
                lobby = [[live[0]], [snaps[0]], [live[1], snaps[2]], [snaps[1]]]
                got = (model.predict_win(lobby), model.predict_draw(lobby), model.predict_rank(lobby))
                fresh = MODEL_CLS[kind]()
                rebuilt = [[fresh.rating(mu=p.mu, sigma=p.sigma) for p in t] for t in lobby]
                want = (fresh.predict_win(rebuilt), fresh.predict_draw(rebuilt), fresh.predict_rank(rebuilt))
                got2 = model.rate([list(t) for t in copy.deepcopy(lobby)], ranks=[1, 2, 3, 4])
                want2 = fresh.rate(rebuilt, ranks=[1, 2, 3, 4])
            except Exception as e:  # noqa: BLE001
                res.fail("property", "C20: %s: a lobby holding players and earlier snapshots of them raised %s" % (kind, type(e).__name__), dict(type="c20alias", kind=kind)); break
            if got != want or [[(p.mu, p.sigma) for p in t] for t in got2] != [[(p.mu, p.sigma) for p in t] for t in want2]:
                res.fail("property", "C20: %s: a lobby holding players next to earlier snapshots of them (same ids, other values) is not predicted / rated like "
                         "players rebuilt from the same values: %r vs %r" % (kind, got, want), dict(type="c20alias", kind=kind)); break


def c20_forked_workers(res):
    """ratings created in forked worker processes (the default way multiprocessing starts workers on Linux) after the parent has created
    some: every id is fresh — unique across the workers and the parent.  (Plain os.fork with a pipe per child, so that the probe also works
    inside the worker processes of the thorough tier.)"""
    if not hasattr(os, "fork"):
        return
    for kind in KINDS:
        model = MODEL_CLS[kind]()
        parent = [str(model.rating().id) for _ in range(3)]
        got = []
        for _child in range(3):
            r_, w_ = os.pipe()
            pid = os.fork()
            if pid == 0:
                code = 0
                try:
                    os.close(r_)
                    m2 = MODEL_CLS[kind]()
                    ids_ = [str(m2.rating().id) for _ in range(4)] + [str(m2.create_rating([25.0, 8.0]).id)]
                    os.write(w_, json.dumps(ids_).encode())
                    os.close(w_)
                except BaseException:  # noqa: BLE001
                    code = 1
                finally:
                    os._exit(code)
            os.close(w_)
            buf = b""
            while True:
                chunk = os.read(r_, 65536)
                if not chunk:
                    break
                buf += chunk
            os.close(r_)
            os.waitpid(pid, 0)
            try:
                got.append(json.loads(buf.decode()))
            except Exception:  # noqa: BLE001
                res.count("forked_worker_probe_failed")
        ids = parent + [i_ for g_ in got for i_ in g_]
        res.count("ids_from_forked_workers", len(ids) - len(parent))
        if len(set(ids)) != len(ids):
            res.fail("property", "C20: %s: ratings created in forked worker processes share ids (%d ids, %d distinct)" % (kind, len(ids), len(set(ids))),
                     dict(type="c20fork", kind=kind))


def c20_interleaved_creation(res):
    """model.rating() / create_rating() pre-empted at every source line by another creation (what a second thread registering a
    newcomer at that moment does): every id is still fresh"""
    import sys as _sys
    prefix = os.path.realpath(core.REPO) + os.sep
    for kind in KINDS:
        model = MODEL_CLS[kind]()
        for maker in ((lambda: model.rating()), (lambda: model.create_rating([25.0, 8.0])), (lambda: RATING_CLS[kind](25.0, 8.0))):
            n_events = [0]

            def count(frame, event, arg):
                if not frame.f_code.co_filename.startswith(prefix):
                    return None
                if event == "line":
                    n_events[0] += 1
                return count
            old = _sys.gettrace(); _sys.settrace(count)
            try:
                maker()
            finally:
                _sys.settrace(old)
            for k_ in range(n_events[0]):
                st = {"n": 0, "inner": []}

                def tr(frame, event, arg):
                    if not frame.f_code.co_filename.startswith(prefix):
                        return None
                    if event == "line":
                        if st["n"] == k_:
                            st["inner"] = [maker().id, maker().id]
                        st["n"] += 1
                    return tr
                old = _sys.gettrace(); _sys.settrace(tr)
                try:
                    outer = maker().id
                finally:
                    _sys.settrace(old)
                after = maker().id
                ids = [outer, after] + st["inner"]
                res.count("rating_creations_pre_empted_at_a_line")
                if len(set(map(str, ids))) != len(ids):
                    res.fail("property", "C20: %s: a rating created while another creation was in progress (pre-empted at line event %d) shares its id: %r" % (kind, k_, ids),
                             dict(type="c20ids", kind=kind))
                    return


def c20(res):
    rng = random.Random(res.seed)
    c20_store_aliasing(res, rng)
    if res.shard == 0:
        c20_interleaved_creation(res)
    if res.shard == 0:
        c20_forked_workers(res)
    seen = set()
    for kind in KINDS:
        res.case(dict(kind=kind, what="constructors"))
        c20_construct(res, kind, seen)
    for rep in range(size(res, 2, 10)):
        for kind in KINDS:
            res.case(dict(kind=kind, rep=rep, what="league with rebuilds"))
            c20_league(res, rng, kind, [])
    games = [gen_game(rng) for _ in range(size(res, 300, 1500))]
    corr_games(res, games, "correspondence", "C20 rate as a function of (mu, sigma) values")
    res.rule = ("rating(mu, sigma, name) / create_rating([mu, sigma], name) over a grid incl. 0, -0.0, negatives, ints, bools, denormals: "
                "exact value and type preserved, defaults only for omitted arguments, ids pairwise distinct; deepcopy of ratings and nested "
                "lists; leagues run twice, once with every player serialised to (mu, sigma) and rebuilt (rating / create_rating, same or fresh "
                "model) before ~60% of the games: all predictions and posteriors bit-identical")


register("C20", c20, c20_item)
