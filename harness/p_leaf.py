"""
C17: the Gaussian correction functions v, w, vt, wt and the normal CDF against the model's
exact definitions (evaluated by the driver), within the bounds the property states.
"""
import math, random, sys
import core
from core import f2h, h2f, size, Driver, wl_common
from props import register

EPS = sys.float_info.epsilon
TINY = 2.2250738585072014e-308
ORACLE = "H"


def oracle_lines(fn, x, t):
    if ORACLE == "H":
        return "HLEAF %s %s %s" % (fn, f2h(x), f2h(t))
    return "LEAF %s %s %s" % ({"v": "vx", "w": "wx", "vt": "vtx", "wt": "wtx", "Phi": "Phi"}[fn], f2h(x), f2h(t))


def bisect(f, lo, hi, target, it=200):
    """f increasing"""
    for _ in range(it):
        mid = (lo + hi) / 2
        if f(mid) < target:
            lo = mid
        else:
            hi = mid
    return hi


def t_neighbourhood(x0, t):
    """points whose distance from a threshold is of the order of the draw margin (the natural scale of x - t)"""
    return [x0 + t * k / 4.0 for k in range(-8, 9) if k]


def ulp_neighbourhood(x, k=6):
    out, a, b = [x], x, x
    for _ in range(k):
        a = math.nextafter(a, -math.inf); b = math.nextafter(b, math.inf)
        out += [a, b]
    for s in (1e-12, 1e-9, 1e-6):
        out += [x * (1 - s), x * (1 + s)]
    return out


def thresholds(t):
    pm = wl_common.phi_major
    xs = []
    u = bisect(pm, -9.0, -7.0, EPS)               # Phi(u) = eps      (v, w)
    xs += [u + t]
    b = lambda xx: -(pm(t - xx) - pm(-t - xx))     # increasing in xx for xx >= 0
    if -b(0.0) > 1e-5:
        x5 = bisect(b, 0.0, 40.0, -1e-5)
        xs += [x5, -x5]
    if -b(0.0) > EPS:
        xe = bisect(b, 0.0, 40.0, -EPS)
        xs += [xe, -xe]
    return xs


def sweep_points(res, rng):
    step = 0.05 if res.tier == "quick" else 0.004
    ts = [1e-8, 1e-7, 1e-6, 7e-6, 1e-5, 1e-4, 1e-3, 1e-2] if res.tier == "quick" else \
        [10 ** (-8 + 6 * k / 36) for k in range(37)] + [7e-6, 1.2e-5]
    pts = []
    k = 0
    nx = int(80 / step)
    for ti, t in enumerate(ts):
        for i in range(nx + 1):
            k += 1
            if k % res.nshards != res.shard:
                continue
            x = -40 + i * step + rng.uniform(-step / 2, step / 2) * (i % 2)
            if res.tier == "quick" and ((i + ti) % 4 or (abs(x) > 12 and i % 40)):
                continue
            pts.append((max(-40.0, min(40.0, x)), t))
        if res.shard == ti % res.nshards:
            for x0 in thresholds(t):
                for x in ulp_neighbourhood(x0) + t_neighbourhood(x0, t):
                    pts.append((x, t))
            for x in (0.0, -0.0, 1e-300, -1e-300, t, -t, 40.0, -40.0):
                pts.append((x, t))
    return pts


def c17_point(res, x, t, exact, phix, order=("v", "w", "vt", "wt")):
    """exact: dict fn -> oracle value;  phix: exact Phi(x - t)"""
    inp = dict(type="leaf", x=x, t=t)
    try:
        got = {}
        for fn_ in order:
            got[fn_] = getattr(wl_common, fn_)(x, t)
    except Exception as e:  # noqa: BLE001
        res.fail("property", "C17: a correction function raised %s at x=%r t=%r" % (type(e).__name__, x, t), inp)
        return
    res.traces += 1
    for fn, y in got.items():
        if not math.isfinite(y):
            res.fail("property", "C17: %s(%r, %r) = %r is not finite" % (fn, x, t, y), inp); return
    slack = 1e-13 / t
    if "v" in got and got["v"] < 0:
        res.fail("property", "C17: v(%r, %r) = %r < 0" % (x, t, got["v"]), inp)
    for fn in ("w", "wt"):
        if fn in got and not (-slack <= got[fn] <= 1 + slack):
            res.fail("property", "C17: %s(%r, %r) = %r outside [0, 1] (slack %.3g)" % (fn, x, t, got[fn], slack), inp)
    # v, w against V, W
    if phix >= EPS * (1 + 1e-9):
        res.count("v_w_exact_branch")
        for fn in ("v", "w"):
            if fn not in got:
                continue
            e = exact[fn]
            if abs(e) < TINY:
                ok = abs(got[fn] - e) <= 1e-307
            else:
                ok = abs(got[fn] - e) <= 1e-6 * abs(e)
            if not ok:
                res.fail("property", "C17: %s(%r, %r) = %r, exact %r: relative error above 1e-6 with Gaussian mass %r above the guard" % (
                    fn, x, t, got[fn], e, phix), inp)
    else:
        res.count("v_w_asymptotic_branch" if phix < EPS * (1 - 1e-9) else "v_w_knife_edge")
        for fn in ("v", "w"):
            if fn not in got:
                continue
            e = exact[fn]
            if abs(got[fn] - e) > 0.02 * abs(e):
                res.fail("property", "C17: %s(%r, %r) = %r, exact %r: more than 2 percent off on the asymptotic branch" % (fn, x, t, got[fn], e), inp)
    if "vt" in got and abs(got["vt"] - exact["vt"]) > 2 * t * (1 + 1e-9) + 4e-16 * abs(exact["vt"]):
        res.fail("property", "C17: vt(%r, %r) = %r, exact %r: off by more than 2t" % (x, t, got["vt"], exact["vt"]), inp)
    if "wt" not in got:
        return
    if abs(got["wt"] - exact["wt"]) > 20 * t + 1e-13 / t:
        res.fail("property", "C17: wt(%r, %r) = %r, exact %r: off by more than 20t + 1e-13/t = %.3g" % (
            x, t, got["wt"], exact["wt"], 20 * t + 1e-13 / t), inp)
    res.count("wt_err_frac_of_bound_%d" % min(9, int(10 * abs(got["wt"] - exact["wt"]) / (20 * t + 1e-13 / t))))


def c17_points(res, pts):
    drv = Driver()
    outs = drv.run(["HLEAFS %s %s" % (f2h(x), f2h(t)) for (x, t) in pts])
    rows = []
    for (x, t), o in zip(pts, outs):
        vals = [h2f(y) for y in o.split(" ")[1:]]
        rows.append((x, t, dict(v=vals[0], w=vals[1], vt=vals[2], wt=vals[3]), vals[4]))
        c17_point(res, x, t, rows[-1][2], vals[4], order=(("v", "w", "vt", "wt"), ("w", "v", "wt", "vt"), ("wt", "vt", "w", "v"), ("vt", "v", "wt", "w"))[len(rows) % 4])
    # the four functions are functions of (x, t) alone: the same points again in the opposite order, each point's four calls in another
    # order (w before v, wt before vt) — what an earlier call computed or remembered must not change a later answer
    nf0 = len(res.failures)
    for k, (x, t, ex, phix) in enumerate(reversed(rows)):
        c17_point(res, x, t, ex, phix, order=(("w", "v", "wt", "vt"), ("wt", "w", "vt", "v"), ("w", "vt", "v", "wt"))[k % 3])
        res.count("leaf_points_re_evaluated_in_another_call_order")
        if len(res.failures) > nf0 + 20:
            break
    # under process-wide settings an application may have changed (decimal precision 5, warnings as errors, reseeded random module): the
    # functions are functions of (x, t) alone
    with core.odd_ambient():
        for k, (x, t, ex, phix) in enumerate(rows[:: max(1, len(rows) // 600)]):
            c17_point(res, x, t, ex, phix)
            res.traces -= 1
            res.count("leaf_points_under_odd_ambient_settings")
            if len(res.failures) > nf0 + 20:
                break
    # one function at a time, ascending and then descending in x - t (a guard position or a table remembered from earlier calls of the
    # SAME function must not change a later answer either)
    asc = sorted(rows, key=lambda r: (r[0] - r[1], r[1]))
    import importlib
    for fn_ in ("w", "v", "wt", "vt"):
        try:
            importlib.reload(wl_common)      # module-level state as in a process that has not called any correction function yet
        except Exception:  # noqa: BLE001
            pass
        for seq in (asc, asc[::-1]):
            for (x, t, ex, phix) in seq:
                c17_point(res, x, t, ex, phix, order=(fn_,))
                res.traces -= 1
            if len(res.failures) > nf0 + 40:
                return


def c17_cdf(res, xs):
    drv = Driver()
    outs = drv.run(["HPHI %s" % f2h(x) for x in xs])
    for x, o in zip(xs, outs):
        e = h2f(o.split(" ")[1])
        try:
            got = wl_common.phi_major(x)
        except Exception as ex:  # noqa: BLE001
            res.fail("property", "C17: phi_major(%r) raised %s" % (x, type(ex).__name__), dict(type="cdf", x=x)); continue
        res.traces += 1
        res.count("cdf_points")
        if e < TINY:
            ok = abs(got - e) <= 1e-12 * TINY
        else:
            ok = abs(got - e) <= 1e-12 * e
        if not ok:
            res.fail("property", "C17: normal CDF at %r is %r, exact %r (relative error %.3g > 1e-12)" % (x, got, e, abs(got - e) / max(e, 1e-320)),
                     dict(type="cdf", x=x))


def c17_item(res, item):
    res.case(item)
    if item.get("type") == "cdf":
        c17_cdf(res, [item["x"]])
    else:
        c17_points(res, [(item["x"], item["t"])])
        import exact
        fns = [item["fn"]] if item.get("fn") in ("v", "w", "vt", "wt") else ["v", "w", "vt", "wt"]
        exact.exact_leaf_points(res, [(fn, item["x"], item["t"]) for fn in fns], "C17 code-shaped leaves")


def c17_oracle_selfcheck(res, rng):
    """the two independent Lean evaluators of Phi (own Float erfc: series/continued fraction; big-float: integer series)
    must agree to 1e-12 relative over the whole range: a defect in either oracle would show here"""
    xs = [rng.uniform(-38.4, 8.0) for _ in range(size(res, 300, 600))]
    drv = Driver()
    a = drv.run(["LEAF Phi %s %s" % (f2h(x), f2h(0.0)) for x in xs])
    b = drv.run(["HPHI %s" % f2h(x) for x in xs])
    for x, u, v in zip(xs, a, b):
        u, v = h2f(u.split(" ")[1]), h2f(v.split(" ")[1])
        res.count("oracle_selfcheck_points")
        if not abs(u - v) <= 1e-12 * max(v, TINY):
            res.fail("correspondence", "C17: the model's two evaluators of Phi disagree at %r: Float %r, big-float %r" % (x, u, v), dict(type="cdf", x=x))
    # the big-float Phi switches from the convergent series to the asymptotic expansion of erfc at |x| = 22.63: both are evaluated
    # where both apply (the series needs ~1.5 x^2/2 extra bits, so only up to |x| = 40 here) and must agree to 1e-40
    import symtrace
    ys = [s_ * (22.63 + rng.uniform(0.0, 17.0)) for s_ in (-1, -1, -1, 1) for _ in range(4)] + [-22.63, -22.7, -38.4, -40.0, 22.7]
    for x, o in zip(ys, drv.run(["HPHI2 %s" % f2h(x) for x in ys])):
        p_ = o.split(" ")
        a_, b_ = symtrace.parse_bf(p_[1]), symtrace.parse_bf(p_[2])
        res.count("oracle_asymptotic_vs_series_points")
        if b_ == 0 or abs(a_ - b_) / abs(b_) > 1e-40:
            res.fail("correspondence", "C17: the big-float Phi's asymptotic branch and its convergent series disagree at %r: %r vs %r" % (x, float(a_), float(b_)),
                     dict(type="cdf", x=x))


def directed_leaf_points(res):
    """the static tie of v, w, vt, wt is not established for the current source: every numeric literal of the edited leaf functions is
    probed as an argument, as a gap to the margin, and (if in (0, 1)) as a level of the Gaussian masses the guards test"""
    import gentie
    consts, _ = gentie.harvest()
    pm = wl_common.phi_major
    ts = [1e-8, 1e-6, 7e-6, 1e-4, 1e-3, 1e-2]
    pts = []
    for c in sorted(consts):
        for t in ts:
            xs = []
            if 0 < abs(c) <= 80:
                xs += [c, -c, c + t, c - t, -c + t, -c - t]
            if 0 < c < 1:
                try:
                    u = bisect(pm, -40.0, 10.0, c)
                    xs += [u + t, -(u + t), u, -u]
                    b = lambda xx: -(pm(t - xx) - pm(-t - xx))
                    if -b(0.0) > c:
                        xb = bisect(b, 0.0, 40.0, -c)
                        xs += [xb, -xb]
                except Exception:  # noqa: BLE001
                    pass
            for x0 in xs:
                if abs(x0) <= 40:
                    for x in ulp_neighbourhood(x0, 3):
                        if abs(x) <= 40:
                            pts.append((x, t))
    res.count("static_tie_directed_leaf_points", len(pts))
    return pts[:20000]


def c17_interleave(res, rng):
    """the correction functions and the normal CDF called from two threads: call A is pre-empted at every one of its source lines
    (sys.settrace) by a complete call B with other arguments, from fresh module state; both must return what they return alone"""
    import sys as _sys, os as _os, importlib
    prefix = _os.path.realpath(core.REPO) + _os.sep
    fns = ("v", "w", "vt", "wt", "phi_major")
    args = [(-1.5, 1e-4), (-9.5, 1e-3), (0.25, 7e-6), (3.0, 1e-2), (-8.2, 1e-5), (0.0, 1e-4), (-2.0, 1e-4)]

    def call(fn, a):
        f = getattr(wl_common, fn)
        return f(a[0] - a[1]) if fn == "phi_major" else f(a[0], a[1])

    def traced(fa, aa, at, inner):
        st = {"n": 0, "b": None, "err": None}

        def tr(frame, event, arg):
            if not frame.f_code.co_filename.startswith(prefix):
                return None
            if event == "line":
                if at is not None and st["n"] == at:
                    try:
                        st["b"] = inner()
                    except Exception as e:  # noqa: BLE001
                        st["err"] = e
                st["n"] += 1
            return tr
        old = _sys.gettrace()
        _sys.settrace(tr)
        try:
            out = call(fa, aa)
        finally:
            _sys.settrace(old)
        return out, st
    try:
        for fa in fns:
            for fb in fns:
                aa, ab = rng.choice(args), rng.choice(args)
                if aa == ab:
                    ab = args[(args.index(aa) + 3) % len(args)]
                importlib.reload(wl_common)
                sa, st0 = traced(fa, aa, None, None)
                sb = call(fb, ab)
                for k_ in range(st0["n"]):
                    importlib.reload(wl_common)
                    ra, st = traced(fa, aa, k_, lambda: call(fb, ab))
                    res.count("leaf_calls_pre_empted_at_a_line")
                    # afterwards, in the same module state, both again (a value remembered half-way must not survive)
                    ra2, rb2 = call(fa, aa), call(fb, ab)
                    if st["err"] is not None or ra != sa or st["b"] != sb or ra2 != sa or rb2 != sb:
                        res.fail("property", "C17: %s%r pre-empted at its line event %d by %s%r: returns %r / %r (then %r / %r), alone %r / %r%s" % (
                            fa, aa, k_, fb, ab, ra, st["b"], ra2, rb2, sa, sb, "" if st["err"] is None else " raised " + type(st["err"]).__name__),
                            dict(type="leaf", x=aa[0], t=aa[1]))
                        return
    finally:
        importlib.reload(wl_common)


def c17(res):
    rng = random.Random(res.seed)
    c17_oracle_selfcheck(res, rng)
    if res.shard == 0:
        c17_interleave(res, rng)
    pts = sweep_points(res, rng)
    import gentie
    st = gentie.note(res, "v, w, vt, wt")
    if not st["leaves_ok"] and res.shard == 0:
        dpts = directed_leaf_points(res)
        c17_points(res, dpts)
        import exact as _exact
        sub_ = dpts[:: max(1, len(dpts) // 600)]
        _exact.exact_leaf_points(res, [(fn, p[0], p[1]) for p in sub_ for fn in ("v", "w", "vt", "wt")], "C17 code-shaped leaves (directed by the literals of the edited source)")
    for p in pts[:: max(1, len(pts) // 2000)]:
        res.case(dict(x=p[0], t=p[1]))
    res.evaluations = len(pts)
    c17_points(res, pts)
    # tier B-exact: common.py's v, w, vt, wt traced operation by operation against the code-shaped Lean leaves (guards, asymptotes
    # and branch choices included), both on 192-bit floats
    import exact
    sub = pts[:: max(1, len(pts) // core.size(res, 120, 400))]
    exact.exact_leaf_points(res, [(fn, p[0], p[1]) for p in sub for fn in ("v", "w", "vt", "wt")], "C17 code-shaped leaves")
    step = 0.05 if res.tier == "quick" else 0.002
    n = int(75.5 / step)
    xs = [min(38.0, -37.5 + i * step + rng.uniform(0, step)) for i in range(n) if i % res.nshards == res.shard] + [-37.5, 38.0, 0.0, -8.3, -5.0]
    c17_cdf(res, xs)
    res.evaluations += len(xs)
    res.rule = ("x swept over [-40, 40] (step %.3g, jittered) x t in %s, plus 18-point ulp/relative neighbourhoods of every branch threshold "
                "(Phi(x-t)=eps, b=1e-5, b=eps, located by bisection on the implementation's CDF) and x in {0, -0, +-1e-300, +-t, +-40}; the "
                "exported v, w, vt, wt against the model's exact V, W, V~, W~ evaluated by the Lean big-float oracle (>= 320 bits), with the "
                "bounds the property states; CDF on [-37.5, 38] to 1e-12 relative" % (0.05 if res.tier == "quick" else 0.004,
                                                                                    "8 values in [1e-8,1e-2]" if res.tier == "quick" else "39 log-dense values in [1e-8,1e-2]"))


register("C17", c17, c17_item,
         assumptions=["accuracy of libm erfc/exp and rounding of the float expressions cannot be carried by a theorem over the reals: those clauses are "
                      "established by this correspondence with the high-precision evaluator",
                      "range clause 'up to rounding of order 1e-14/t' is read as 1e-13/t (the accuracy the same property grants wt)"],
         extra_trust=["the Lean big-float evaluator OSModel/HiPrec.lean (series for erf, exp, pi; cross-checked against the Float port)"])
