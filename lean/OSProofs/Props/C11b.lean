import OSProofs.Props.C10Teams
import OSProofs.Props.C11
import OSProofs.Props.C12
import OSProofs.C11bLemmas
import Mathlib.Tactic.NormNum

/-!
# C11, last clause — rank probabilities plus draw probability sum to 1 (three or more teams)

`predict_rank` returns one probability per team: for team `i` the sum over its opponents `b` of
`Φ((θi − θb − m)/s_ib)`, divided by `n(n−1)/2`.  `predict_draw` adds, over all ordered pairs,
`Φ((m − θa + θb)/s_ab) − Φ((θa − θb − m)/s_ab)`, takes the absolute value and divides by
`n(n−1)` when `n > 2` (by 1 when `n ≤ 2`).  Here `m = drawMargin β N` is the draw margin and
`s_ab = pairDenom n β a b = √(n β² + σa² + σb²)` the (symmetric) scale of the pair.

For one unordered pair {a,b} with gap `d = θa − θb`:
`Φ((d − m)/s)`  (a beats b by more than the margin) `+ Φ((−d − m)/s)` (b beats a by more than the
margin) `+ pairBand m s d / 2` (the difference falls inside the margin) `= 1`
(`C11_pair_identity`).  Summing over the `n(n−1)/2` unordered pairs and dividing by `n(n−1)/2`
gives: the probabilities of `predict_rank` plus `predict_draw` of the same teams sum to 1
(`C11_sum_one`), for every game with at least three teams and β ≥ 0.  No other hypothesis is
needed (teams may even be empty; the scale may be 0).  For two teams the divisor of
`predict_draw` is 1 instead of 2, so the total is `1 + pairBand/2`, which exceeds 1 for a real
game (`C11_two_team_sum`, `C11_two_team_sum_gt_one`); this is why the clause is restricted to
three or more teams.  All statements are over ℝ.
-/

noncomputable section
namespace OS
open Gauss

/-! ### one unordered pair -/

/-- **Pair identity.**  For every gap `d`, margin `m` and scale `s` (no sign condition at all):
"a wins by more than m" + "b wins by more than m" + half of the pair's draw contribution = 1. -/
theorem C11_pair_identity (m s d : ℝ) :
    Phi ((d - m) / s) + Phi ((-d - m) / s) + pairBand m s d / 2 = 1 := by
  rw [pairBand_eq]
  have h : (-d - m) / s = -((d + m) / s) := by ring
  rw [h, Phi_neg]
  ring

/-- what the unordered pair `p = (a, b)` of team aggregates contributes to the sum of the
`predict_rank` probabilities: the term of the ordered pair (a,b) plus that of (b,a) -/
def rks_rankPair (n : ℕ) (β m : ℝ) (p : TeamAgg ℝ × TeamAgg ℝ) : ℝ :=
  Phi ((p.1.mu - p.2.mu - m) / pairDenom n β p.1 p.2)
    + Phi ((p.2.mu - p.1.mu - m) / pairDenom n β p.2 p.1)

/-- the pair identity for the model's terms: rank contribution + half the draw contribution of
an unordered pair of teams is 1 -/
theorem C11_rankPair_add_drawPair (n : ℕ) (β m : ℝ) (p : TeamAgg ℝ × TeamAgg ℝ) :
    rks_rankPair n β m p + drawPair n β m p / 2 = 1 := by
  unfold rks_rankPair drawPair
  rw [pairDenom_symm n β p.1 p.2, show p.2.mu - p.1.mu - m = -(p.1.mu - p.2.mu) - m by ring]
  exact C11_pair_identity m _ _

/-! ### the sum of the rank probabilities -/

/-- **Sum of the `predict_rank` probabilities** (two or more teams): it is the sum over the
unordered pairs of teams of `Φ((θa − θb − m)/s_ab) + Φ((θb − θa − m)/s_ab)`, divided by
`n(n−1)/2`. -/
theorem C11_sum_rank_probs (β : ℝ) (teams : List (List (Rating ℝ))) (hn : 2 ≤ teams.length) :
    (predictRankProbs β teams).sum
      = ((unorderedPairs (aggs teams)).map
            (rks_rankPair teams.length β (drawMargin β (playerCount teams)))).sum
        / (((teams.length * (teams.length - 1) : ℕ) : ℝ) / 2) := by
  have h := pairSum_eq_zipIdx
    (fun a b : TeamAgg ℝ => Phi ((a.mu - b.mu - drawMargin β (playerCount teams))
      / Real.sqrt (teams.length * β ^ 2 + a.sig2 + b.sig2))) (aggs teams)
  rw [pairSum_eq_unordered] at h
  rw [C12_rank_probs β teams hn, rks_sum_map_div, ← h]
  congr 2
  apply List.map_congr_left
  intro p _
  simp only [rks_rankPair, pairDenom_eq]

/-- the same for the list returned by `predict_rank` (second components) -/
theorem C11_sum_predictRank (β : ℝ) (teams : List (List (Rating ℝ))) (hn : 2 ≤ teams.length) :
    ((predictRank β teams).map (·.2)).sum
      = ((unorderedPairs (aggs teams)).map
            (rks_rankPair teams.length β (drawMargin β (playerCount teams)))).sum
        / (((teams.length * (teams.length - 1) : ℕ) : ℝ) / 2) := by
  rw [C11_predictRank_probs, C11_sum_rank_probs β teams hn]

/-! ### rank probabilities + draw probability -/

/-- sum over the unordered pairs: rank contributions + half the draw contributions = number of
unordered pairs `n(n−1)/2` -/
theorem C11_sum_pairs (n : ℕ) (β m : ℝ) (ts : List (TeamAgg ℝ)) :
    ((unorderedPairs ts).map (rks_rankPair n β m)).sum
        + ((unorderedPairs ts).map (drawPair n β m)).sum / 2
      = 1 * ((unorderedPairs ts).length : ℝ) :=
  rks_sum_add_half _ _ _ 1 (fun p _ => C11_rankPair_add_drawPair n β m p)

/-- the scale of a pair is a square root, hence ≥ 0 -/
theorem rks_pairDenom_nonneg (n : ℕ) (β : ℝ) (a b : TeamAgg ℝ) : 0 ≤ pairDenom n β a b := by
  rw [pairDenom_eq]
  exact Real.sqrt_nonneg _

/-- with a margin ≥ 0 every unordered-pair draw contribution is ≥ 0, whatever the teams
(scale 0 included: then the contribution is 0) -/
theorem rks_drawPair_nonneg (n : ℕ) (β : ℝ) {m : ℝ} (hm : 0 ≤ m)
    (p : TeamAgg ℝ × TeamAgg ℝ) : 0 ≤ drawPair n β m p := by
  unfold drawPair
  rw [pairBand_eq]
  have hs := rks_pairDenom_nonneg n β p.1 p.2
  have h : (p.1.mu - p.2.mu - m) / pairDenom n β p.1 p.2
      ≤ (p.1.mu - p.2.mu + m) / pairDenom n β p.1 p.2 :=
    div_le_div_of_nonneg_right (by linarith) hs
  have := Phi_strictMono.monotone h
  linarith

/-- **C11, last clause, general form**: three or more teams and a non-negative draw margin.
The probabilities returned by `predict_rank` plus `predict_draw` of the same teams sum to 1. -/
theorem C11_sum_one_of_margin_nonneg (β : ℝ) (teams : List (List (Rating ℝ)))
    (hn : 3 ≤ teams.length) (hm : 0 ≤ drawMargin β (playerCount teams)) :
    ((predictRank β teams).map (·.2)).sum + predictDraw β teams = 1 := by
  have hk2 : 2 * (unorderedPairs (aggs teams)).length = teams.length * (teams.length - 1) := by
    rw [length_unorderedPairs, length_aggs]
  have hk : 0 < (unorderedPairs (aggs teams)).length := by
    have : 0 < teams.length * (teams.length - 1) := Nat.mul_pos (by omega) (by omega)
    omega
  have hnn : 0 ≤ ((unorderedPairs (aggs teams)).map
      (drawPair teams.length β (drawMargin β (playerCount teams)))).sum := by
    apply List.sum_nonneg
    intro x hx
    obtain ⟨p, _, rfl⟩ := List.mem_map.mp hx
    exact rks_drawPair_nonneg _ _ hm p
  rw [C11_sum_predictRank β teams (by omega), predictDraw_eq_unordered, abs_of_nonneg hnn,
    if_pos (by omega : teams.length > 2)]
  apply rks_final_arith _ _ ((unorderedPairs (aggs teams)).length : ℝ) _
    (by exact_mod_cast hk) _ (C11_sum_pairs _ _ _ _)
  rw [← hk2]
  push_cast
  rfl

/-- **C11, last clause**: for three or more teams and β ≥ 0, the probabilities returned by
`predict_rank` plus `predict_draw` of the same teams sum to 1.  (Nothing else is assumed: the
teams may have any sizes, ratings and sigmas.) -/
theorem C11_sum_one (β : ℝ) (teams : List (List (Rating ℝ))) (hn : 3 ≤ teams.length)
    (hβ : 0 ≤ β) :
    ((predictRank β teams).map (·.2)).sum + predictDraw β teams = 1 :=
  C11_sum_one_of_margin_nonneg β teams hn (C10_drawMargin_nonneg hβ _)

/-! ### two teams: the total is NOT 1 -/

/-- **Two teams** (β ≥ 0): the two `predict_rank` probabilities plus `predict_draw` equal
`1 + pairBand/2`, not 1 — `predict_draw` divides the pair's contribution by 1, not by `n(n−1) = 2`,
when there are only two teams. -/
theorem C11_two_team_sum (β : ℝ) (hβ : 0 ≤ β) (ta tb : List (Rating ℝ)) :
    ((predictRank β [ta, tb]).map (·.2)).sum + predictDraw β [ta, tb]
      = 1 + pairBand (drawMargin β (ta.length + tb.length))
              (pairDenom 2 β (teamAgg ta 0) (teamAgg tb 0))
              ((teamAgg ta 0).mu - (teamAgg tb 0).mu) / 2 := by
  have hpc : playerCount [ta, tb] = ta.length + tb.length := playerCount_pair ta tb
  have hm : 0 ≤ drawMargin β (ta.length + tb.length) := C10_drawMargin_nonneg hβ _
  have hid := C11_rankPair_add_drawPair 2 β (drawMargin β (ta.length + tb.length))
    (teamAgg ta 0, teamAgg tb 0)
  have hnn := rks_drawPair_nonneg 2 β hm (teamAgg ta 0, teamAgg tb 0)
  rw [C11_sum_predictRank β [ta, tb] (by simp), predictDraw_two_eq, hpc]
  unfold drawPair at hid hnn
  dsimp only at hid hnn
  simp only [aggs, unorderedPairs, List.map_cons, List.map_nil, List.append_nil, List.sum_cons,
    List.sum_nil, List.length_cons, List.length_nil, add_zero]
  rw [abs_of_nonneg hnn,
    show (((0 + 1 + 1) * (0 + 1 + 1 - 1) : ℕ) : ℝ) / 2 = 1 by norm_num, div_one]
  linarith

/-- the draw margin is strictly positive for β > 0 and at least two players -/
theorem rks_drawMargin_pos {β : ℝ} (hβ : 0 < β) {N : ℕ} (hN : 2 ≤ N) : 0 < drawMargin β N := by
  rw [drawMargin_real]
  have hN' : (2:ℝ) ≤ N := by exact_mod_cast hN
  have hNpos : (0:ℝ) < N := by linarith
  have hinv : 1 / (N:ℝ) ≤ 1 / 2 := one_div_le_one_div_of_le (by norm_num) hN'
  have hinv0 : 0 < 1 / (N:ℝ) := by positivity
  apply mul_pos (mul_pos (Real.sqrt_pos.mpr hNpos) hβ)
  exact rks_PhiInv_pos (by linarith) (by linarith)

/-- **Two teams, real game** (β > 0, both teams non-empty): the total of the two `predict_rank`
probabilities and `predict_draw` is strictly greater than 1 — so the "sum to 1" clause cannot be
extended to two teams. -/
theorem C11_two_team_sum_gt_one (β : ℝ) (hβ : 0 < β) (ta tb : List (Rating ℝ))
    (ha : ta ≠ []) (hb : tb ≠ []) :
    1 < ((predictRank β [ta, tb]).map (·.2)).sum + predictDraw β [ta, tb] := by
  rw [C11_two_team_sum β hβ.le ta tb, pairBand_eq]
  have h1 := List.length_pos_iff.mpr ha
  have h2 := List.length_pos_iff.mpr hb
  have hm : 0 < drawMargin β (ta.length + tb.length) := rks_drawMargin_pos hβ (by omega)
  have hs : 0 < pairDenom 2 β (teamAgg ta 0) (teamAgg tb 0) :=
    pairDenom_pos (by norm_num) hβ (sig2_nonneg ta) (sig2_nonneg tb)
  have hlt : ((teamAgg ta 0).mu - (teamAgg tb 0).mu - drawMargin β (ta.length + tb.length))
        / pairDenom 2 β (teamAgg ta 0) (teamAgg tb 0)
      < ((teamAgg ta 0).mu - (teamAgg tb 0).mu + drawMargin β (ta.length + tb.length))
        / pairDenom 2 β (teamAgg ta 0) (teamAgg tb 0) :=
    div_lt_div_of_pos_right (by linarith) hs
  have := Phi_strictMono hlt
  linarith

/-! ### non-vacuity -/

/-- the hypotheses of `C11_sum_one` are satisfiable: three one-player teams, β = 25/6 -/
example : ∃ (β : ℝ) (teams : List (List (Rating ℝ))), 3 ≤ teams.length ∧ 0 ≤ β
    ∧ (∀ t ∈ teams, t ≠ [])
    ∧ ((predictRank β teams).map (·.2)).sum + predictDraw β teams = 1 :=
  ⟨25 / 6, [[⟨0, 25, 25 / 3⟩], [⟨1, 30, 25 / 3⟩], [⟨2, 20, 25 / 3⟩]], by simp, by norm_num,
    by simp, C11_sum_one _ _ (by simp) (by norm_num)⟩

/-- … and so are those of the two-team remark -/
example : ∃ (β : ℝ) (ta tb : List (Rating ℝ)), 0 < β ∧ ta ≠ [] ∧ tb ≠ []
    ∧ 1 < ((predictRank β [ta, tb]).map (·.2)).sum + predictDraw β [ta, tb] :=
  ⟨25 / 6, [⟨0, 25, 25 / 3⟩], [⟨1, 30, 25 / 3⟩], by norm_num, by simp, by simp,
    C11_two_team_sum_gt_one _ (by norm_num) _ _ (by simp) (by simp)⟩

end OS
end
