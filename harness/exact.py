"""Tier B-exact: the formula the Python code evaluates (recorded by `symtrace`) against the Lean model, both on 192-bit
big floats.  See symtrace.py for the mechanism."""
from fractions import Fraction

import core
import symtrace
from core import KINDS, MODEL_CLS, f2h, rate_line, teams_tokens
from symtrace import inp, out_id, parse_bf, rel_dev, tracing, xeval_line

import openskill.models.weng_lin.common as _wl_common

# Alarm threshold.  Agreement observed on the pinned tree: identical to the last of 192 bits for Plackett-Luce and Bradley-Terry,
# better than 1e-45 for Thurstone-Mosteller and predict_win, 1e-14 for predict_draw / predict_rank (the code computes the
# literal 1/N and (1 + 1/N)/2 in doubles before any traced operand is involved).  A deviation above the threshold cannot be
# rounding; it is reported as a broken CORRESPONDENCE (the theorems are about the model's formula, and the code now
# evaluates another one), never as a property failure by itself: the properties grant 1e-9.
EXACT_TOL = 1e-12


def traced_modules(kind=None):
    mods = [_wl_common]
    for k in (KINDS if kind is None else [kind]):
        mods.append(core.MODULES[k])
    return mods


def gamma_callable_exact(tape, tag, arg):
    """the tagged gamma family written with traced arithmetic (so 1/k is the real 1/k, as in the model)"""
    if tag == "D":
        return None
    one = inp(tape, 1.0)
    if tag == "C":
        return lambda c, k, mu, s2, team, rank: inp(tape, arg)
    if tag == "I":
        return lambda c, k, mu, s2, team, rank: one / k
    if tag == "R":
        return lambda c, k, mu, s2, team, rank: one / (rank + 1)
    if tag == "Q":
        return lambda c, k, mu, s2, team, rank: s2 / (c * c)
    if tag == "Z":
        return lambda c, k, mu, s2, team, rank: inp(tape, 0.0)
    if tag == "T":
        return lambda c, k, mu, s2, team, rank: symtrace.MathShim.sqrt(sum(p.sigma * p.sigma for p in team)) / c
    raise ValueError(tag)


def trace_rate(g):
    """-> dict(status, line, outs=[(slot, mu_is_traced, sigma_is_traced)], tape stats)"""
    with tracing(traced_modules(g["kind"])) as tape:
        cls = MODEL_CLS[g["kind"]]
        kw = dict(beta=inp(tape, g["beta"]), kappa=inp(tape, g["kappa"]), tau=inp(tape, g["tau"]), limit_sigma=g["ls"])
        cb = gamma_callable_exact(tape, *g["gamma"])
        if cb is not None:
            kw["gamma"] = cb
        try:
            model = cls(**kw)
            teams = []
            slot = {}
            k = 0
            for t in g["teams"]:
                team = []
                for (m, s) in t:
                    r = model.rating(mu=inp(tape, m), sigma=inp(tape, s), name="p%d" % k)
                    slot[r.id] = k
                    k += 1
                    team.append(r)
                teams.append(team)
            ckw = {}
            if g["oc"][0] == "R":
                ckw["ranks"] = list(g["oc"][1])
            elif g["oc"][0] == "S":
                ckw["scores"] = list(g["oc"][1])
            if g["tauopt"] is not None:
                ckw["tau"] = inp(tape, g["tauopt"])
            if g["lsopt"] is not None:
                ckw["limit_sigma"] = g["lsopt"]
            res = model.rate(teams, **ckw)
        except Exception as e:  # noqa: BLE001
            return dict(status="EXC", exc=type(e).__name__)
        outs, meta = [], []
        for t in res:
            row = []
            for p in t:
                a, ta = out_id(tape, p.mu)
                b, tb = out_id(tape, p.sigma)
                if a is None or b is None:
                    return dict(status="NONNUM")
                outs += [a, b]
                row.append((slot.get(p.id, -1), ta, tb))
            meta.append(row)
        return dict(status="OK", line=xeval_line(tape, outs), meta=meta, untraced=tape.untraced + getattr(tape, 'rounded_constants', 0),
                    nodes=len(tape.nodes), compares=tape.compares)


def parse_ratex(line):
    parts = line.split(" ")
    if parts[0] != "OK":
        return None
    teams = [[]]
    for tok in parts[1:]:
        if tok == "":
            continue
        if tok == "/":
            teams.append([])
            continue
        i, m, s = tok.split(":")
        teams[-1].append((int(i), parse_bf(m), parse_bf(s)))
    return teams


def exact_rate_games(res, games, label, kind_on_mismatch="correspondence", drv=None):
    """every game: trace the implementation, evaluate the tape and the model on big floats, compare the posterior.
    Relative to the size of the update itself (|mu' - mu|, |sigma' - sigma|), floored at 1e-15 sigma."""
    kind_on_mismatch = "correspondence"
    drv = drv or core.Driver()
    traced = []
    for g in games:
        t = trace_rate(g)
        res.count("exact_status_" + t["status"])
        if t["status"] != "OK":
            continue
        traced.append((g, t))
    lines = []
    for g, t in traced:
        lines.append(t["line"])
        lines.append(rate_line(dict(g, leaves="c")).replace("RATE", "HRATEX", 1))
    out = drv.run(lines)
    worst = 0.0
    for i, (g, t) in enumerate(traced):
        a, b = out[2 * i], out[2 * i + 1]
        pa = a.split(" ")
        model = parse_ratex(b)
        if pa[0] != "OK" or model is None:
            res.fail("correspondence", "%s: exact evaluation failed: tape -> %s ; model -> %s" % (label, a[:80], b[:80]),
                     dict(type="game", game=g))
            continue
        mism = int(pa[1])
        vals = [parse_bf(x) for x in pa[2:]]
        res.count("exact_games")
        res.count("exact_tape_nodes", t["nodes"])
        res.count("exact_compares_recorded", t["compares"])
        if t["untraced"]:
            # an operation the tape cannot express left the trace as a double: that double is good to an ulp of ITS value, which is not
            # small against an update of 1e-5 sigma — the rounding-free tier does not speak for this game, the double tiers do
            res.count("exact_games_with_untraced_operations")
            continue
        if mism:
            # a comparison the code made on doubles comes out differently on big floats: a knife-edge, not comparable
            res.count("exact_knife_edge_skipped")
            continue
        flat = [p for row in t["meta"] for p in row]
        mflat = [p for row in model for p in row]
        if len(flat) != len(mflat):
            res.fail(kind_on_mismatch, "%s: result shape differs from the model" % label, dict(type="game", game=g))
            continue
        priors = [ms for tm in g["teams"] for ms in tm]
        for j, ((slot, _ta, _tb), (mid, mmu, msig)) in enumerate(zip(flat, mflat)):
            imu, isig = vals[2 * j], vals[2 * j + 1]
            if slot != mid:
                res.fail(kind_on_mismatch, "%s: player order of the result differs from the model (slot %s vs %s)" % (label, slot, mid),
                         dict(type="game", game=g))
                break
            pm, ps = priors[slot] if 0 <= slot < len(priors) else (0.0, 1.0)
            fl = Fraction(ps) * Fraction(1, 10 ** 15) if ps > 0 else Fraction(1, 10 ** 300)
            if _ta and _tb:
                dmu = rel_dev(imu, mmu, max(abs(mmu - Fraction(pm)), fl))
                dsg = rel_dev(isig, msig, max(abs(msig - Fraction(ps)), fl))
            else:
                # the value left the trace on its way out (a conversion the tape cannot follow): it is a double, good to an ulp of
                # the VALUE, not of the update
                res.count("exact_outputs_outside_the_trace")
                dmu = rel_dev(imu, mmu, max(abs(mmu), Fraction(g["beta"]))) / 1e4
                dsg = rel_dev(isig, msig, max(abs(msig), fl)) / 1e4
            worst = max(worst, dmu, dsg)
            if dmu > EXACT_TOL or dsg > EXACT_TOL:
                res.fail(kind_on_mismatch,
                         "%s: the formula the code evaluates differs from the model beyond any rounding (both evaluated on 192-bit "
                         "floats): player %d mu' %.17g vs %.17g (rel. to the update %.3g), sigma' %.17g vs %.17g (%.3g)"
                         % (label, slot, float(imu), float(mmu), dmu, float(isig), float(msig), dsg), dict(type="game", game=g))
                break
    res.maxstat("exact_worst_relative_deviation", worst)
    return worst


# ------------------------------------------------------------------------------------------------ predictions
def trace_predict(kind, beta, teams, which):
    with tracing(traced_modules(kind)) as tape:
        cls = MODEL_CLS[kind]
        try:
            model = cls(beta=inp(tape, beta))
            ts = [[model.rating(mu=inp(tape, m), sigma=inp(tape, s)) for (m, s) in t] for t in teams]
            if which == "win":
                r = list(model.predict_win(ts))
            elif which == "draw":
                r = [model.predict_draw(ts)]
            else:
                rr = model.predict_rank(ts)
                ranks = [int(x[0]) for x in rr]
                r = [x[1] for x in rr]
        except Exception as e:  # noqa: BLE001
            return dict(status="EXC", exc=type(e).__name__)
        outs = []
        for x in r:
            a, _ = out_id(tape, x)
            if a is None:
                return dict(status="NONNUM")
            outs.append(a)
        # (the predictions are well conditioned: a rounded constant such as 1/N moves them by 1e-14, far below the threshold — they stay
        # in the rounding-free tier; only operations the tape cannot express take a prediction out of it)
        return dict(status="OK", line=xeval_line(tape, outs), untraced=tape.untraced, nodes=len(tape.nodes),
                    ranks=ranks if which == "rank" else None)


def exact_predict_games(res, cases, which, label, kind_on_mismatch="correspondence", drv=None):
    """cases: (kind, beta, teams).  Compared relative to the value itself (floored at 1e-300)."""
    kind_on_mismatch = "correspondence"
    drv = drv or core.Driver()
    op = {"win": "HPWINX", "draw": "HPDRAWX", "rank": "HPRANKX"}[which]
    traced = []
    for (kind, beta, teams) in cases:
        t = trace_predict(kind, beta, teams, which)
        res.count("exact_status_" + t["status"])
        if t["status"] == "OK":
            traced.append(((kind, beta, teams), t))
    lines = []
    for (kind, beta, teams), t in traced:
        lines.append(t["line"])
        lines.append(" ".join([op, f2h(beta)] + teams_tokens(teams)))
    out = drv.run(lines)
    worst = 0.0
    for i, ((kind, beta, teams), t) in enumerate(traced):
        a, b = out[2 * i].split(" "), out[2 * i + 1].split(" ")
        item = dict(type="predict", kind=kind, beta=beta, teams=teams, which=which)
        if a[0] != "OK" or b[0] != "OK":
            res.fail("correspondence", "%s: exact evaluation failed: %s / %s" % (label, " ".join(a)[:80], " ".join(b)[:80]), item)
            continue
        res.count("exact_predictions")
        if t["untraced"]:
            res.count("exact_predictions_with_untraced_operations")
            continue
        if int(a[1]):
            res.count("exact_knife_edge_skipped")
            continue
        vals = [parse_bf(x) for x in a[2:]]
        mtoks = [x for x in b[1:] if x]
        if which == "rank":
            mvals = [parse_bf(x.split(":")[1]) for x in mtoks]
        else:
            mvals = [parse_bf(x) for x in mtoks]
        if len(vals) != len(mvals):
            res.fail(kind_on_mismatch, "%s: %d values against the model's %d" % (label, len(vals), len(mvals)), item)
            continue
        for j, (x, y) in enumerate(zip(vals, mvals)):
            d = rel_dev(x, y, max(abs(y), Fraction(1, 10 ** 300)))
            worst = max(worst, d)
            if d > EXACT_TOL:
                res.fail(kind_on_mismatch, "%s: predict_%s of %s: the formula the code evaluates differs from the model beyond any "
                         "rounding (192-bit floats): entry %d %.17g vs %.17g (rel %.3g)" % (label, which, kind, j, float(x), float(y), d), item)
                break
    res.maxstat("exact_worst_relative_deviation_predict_" + which, worst)
    return worst


# ------------------------------------------------------------------------------------------------ leaves
def exact_leaf_points(res, points, label, kind_on_mismatch="correspondence", drv=None):
    """points: (fn, x, t) with fn in v, w, vt, wt: common.py's function traced against vCode … on big floats."""
    kind_on_mismatch = "correspondence"
    drv = drv or core.Driver()
    fns = {"v": "v", "w": "w", "vt": "vt", "wt": "wt"}
    traced = []
    for (fn, x, t) in points:
        with tracing([_wl_common]) as tape:
            try:
                r = getattr(_wl_common, fns[fn])(inp(tape, x), inp(tape, t))
            except Exception as e:  # noqa: BLE001
                res.count("exact_leaf_exc_" + type(e).__name__)
                continue
            a, _ = out_id(tape, r)
            if a is None:
                continue
            traced.append(((fn, x, t), xeval_line(tape, [a]), tape.untraced + getattr(tape, 'rounded_constants', 0)))
    lines = []
    for (fn, x, t), line, _u in traced:
        lines.append(line)
        lines.append("HLEAFX %s %s %s" % (fn, f2h(x), f2h(t)))
    out = drv.run(lines)
    worst = 0.0
    for i, ((fn, x, t), _line, _u) in enumerate(traced):
        a, b = out[2 * i].split(" "), out[2 * i + 1].split(" ")
        item = dict(type="leaf", fn=fn, x=x, t=t)
        if _u:
            res.count("exact_leaf_points_with_untraced_operations")
            continue
        if a[0] != "OK" or b[0] != "OK":
            res.fail("correspondence", "%s: exact evaluation failed: %s / %s" % (label, " ".join(a)[:80], " ".join(b)[:80]), item)
            continue
        res.count("exact_leaf_points")
        if int(a[1]):
            res.count("exact_knife_edge_skipped")
            continue
        xv, yv = parse_bf(a[2]), parse_bf(b[1])
        d = rel_dev(xv, yv, max(abs(yv), Fraction(1, 10 ** 300)))
        worst = max(worst, d)
        if d > EXACT_TOL:
            res.fail(kind_on_mismatch, "%s: %s(%r, %r): the formula the code evaluates differs from the model beyond any rounding "
                     "(192-bit floats): %.17g vs %.17g (rel %.3g)" % (label, fn, x, t, float(xv), float(yv), d), item)
    res.maxstat("exact_worst_relative_deviation_leaf", worst)
    return worst


# ------------------------------------------------------------------------------------------------ leagues
def exact_leagues(res, rng, n, label="league (exact)", drv=None):
    """short leagues with the rating values fed back from game to game, ONE tape per league: the composition load / rate /
    write back of the code against the Lean league machine `playLeague`, both on 192-bit floats.  The model kind changes
    from game to game (one model object per kind, same parameters)."""
    import random as _random
    from gen import gen_config, encode_ranks
    drv = drv or core.Driver()
    lines, metas = [], []
    for _ in range(n):
        beta, kappa, tau = gen_config(rng, default_bias=0.6)
        ls = rng.random() < 0.3
        sc = beta / core.DEFAULTS["beta"]
        npl = rng.randint(4, 8)
        init = [(rng.gauss(25, 8) * sc, rng.uniform(1, 9) * sc) for _ in range(npl)]
        ng = rng.randint(2, 5)
        plan = []
        for _g in range(ng):
            kind = rng.choice(KINDS)
            nt = rng.randint(2, min(4, npl // 2))
            ids = rng.sample(range(npl), rng.randint(nt, min(npl, 2 * nt)))
            tid = [[] for _ in range(nt)]
            for k, pid in enumerate(ids):
                tid[k % nt].append(pid)
            dense = [rng.randint(0, nt - 1) for _ in range(nt)]
            mode = rng.choice(["R", "S", "N"])
            vals = encode_ranks(rng, dense, rng.choice(["int", "float", "frac"])) if mode != "N" else None
            tauopt = None if rng.random() < 0.6 else rng.choice([0.0, beta / 10])
            lsopt = None if rng.random() < 0.7 else (rng.random() < 0.5)
            plan.append((kind, tid, mode, vals, tauopt, lsopt))
        toks = [f2h(beta), f2h(kappa), f2h(tau), "1" if ls else "0", "D", f2h(0.0), str(npl)]
        for (m, s_) in init:
            toks += [f2h(m), f2h(s_)]
        toks.append(str(ng))
        for (kind, tid, mode, vals, tauopt, lsopt) in plan:
            toks += [kind, "-" if tauopt is None else f2h(tauopt), "-" if lsopt is None else ("1" if lsopt else "0"), mode,
                     str(len(tid))] + [str(len(t)) for t in tid] + [str(p) for t in tid for p in t]
            if vals is not None:
                toks += [core.num_token(v) for v in vals]
        status = "OK"
        with tracing(traced_modules()) as tape:
            try:
                models = {k: MODEL_CLS[k](beta=inp(tape, beta), kappa=inp(tape, kappa), tau=inp(tape, tau), limit_sigma=ls) for k in KINDS}
                pool = [(inp(tape, m), inp(tape, s_)) for (m, s_) in init]
                for (kind, tid, mode, vals, tauopt, lsopt) in plan:
                    RC = core.RATING_CLS[kind]
                    teams = [[RC(pool[p][0], pool[p][1]) for p in t] for t in tid]
                    kw = {}
                    if mode != "N":
                        kw["ranks" if mode == "R" else "scores"] = list(vals)
                    if tauopt is not None:
                        kw["tau"] = inp(tape, tauopt)
                    if lsopt is not None:
                        kw["limit_sigma"] = lsopt
                    out = models[kind].rate(teams, **kw)
                    for t, to in zip(tid, out):
                        for pid, pl in zip(t, to):
                            pool[pid] = (pl.mu, pl.sigma)
            except Exception as e:  # noqa: BLE001
                status = "EXC_" + type(e).__name__
            outs = []
            if status == "OK":
                for (m, s_) in pool:
                    a, _ = out_id(tape, m)
                    b, _ = out_id(tape, s_)
                    if a is None or b is None:
                        status = "NONNUM"
                        break
                    outs += [a, b]
            line = xeval_line(tape, outs) if status == "OK" else None
            untraced = tape.untraced + getattr(tape, 'rounded_constants', 0)
        res.count("exact_league_status_" + status)
        if status != "OK":
            continue
        lines += [line, "LEAGUEX " + " ".join(toks)]
        metas.append((beta, init, ng, untraced, " ".join(toks)))
    out = drv.run(lines)
    worst = 0.0
    for i, (beta, init, ng, untraced, toks) in enumerate(metas):
        a, b = out[2 * i].split(" "), out[2 * i + 1].split(" ")
        item = dict(type="league", line=toks)
        if a[0] != "OK" or b[0] != "OK":
            res.fail("correspondence", "%s: exact evaluation failed: %s / %s" % (label, " ".join(a)[:80], " ".join(b)[:80]), item)
            continue
        res.count("exact_leagues")
        res.count("exact_league_games", ng)
        if untraced:
            res.count("exact_leagues_with_untraced_operations")
            continue
        if int(a[1]):
            res.count("exact_knife_edge_skipped")
            continue
        vals = [parse_bf(x) for x in a[2:]]
        want = [tuple(parse_bf(y) for y in tok.split(":")) for tok in b[1:] if tok]
        for pid, (wm, ws) in enumerate(want):
            im, isg = vals[2 * pid], vals[2 * pid + 1]
            dm = rel_dev(im, wm, max(abs(wm), Fraction(beta)))
            ds = rel_dev(isg, ws, max(abs(ws), Fraction(1, 10 ** 300)))
            worst = max(worst, dm, ds)
            if dm > EXACT_TOL or ds > EXACT_TOL:
                res.fail("correspondence", "%s: after %d fed-back games player %d holds (%.17g, %.17g) by the formula the code evaluates, "
                         "(%.17g, %.17g) on the Lean league machine (both on 192-bit floats; rel %.3g / %.3g)"
                         % (label, ng, pid, float(im), float(isg), float(wm), float(ws), dm, ds), item)
                break
    res.maxstat("exact_worst_relative_deviation_league", worst)
    return worst
