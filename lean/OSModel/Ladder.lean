import OSModel.Compute
/-
  common.py :: _ladder_pairs, literally:
      left  = [None] + teams[:-1]
      right = teams[1:] + [None]
      for l, r in zip_longest(left, right):  [l, r] / [l] / [r] / []   (by truthiness; team ratings are truthy)
  and its agreement with `neighboursOf` (the closed form `compute` uses for partial pairing).
-/
namespace OS

def ladderPairsCode {β : Type} (teams : List β) : List (List β) :=
  let left : List (Option β) := none :: teams.dropLast.map some
  let right : List (Option β) := teams.tail.map some ++ [none]
  (left.zip right).map (fun lr => lr.1.toList ++ lr.2.toList)

end OS
