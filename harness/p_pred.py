"""
Checks for the prediction properties C09-C12.
"""
import itertools, math, random
import core
from core import (KINDS, MODEL_CLS, make_game, build_model, build_teams, teams_tokens, f2h, h2f, size, Driver, describe)
import gen
from gen import gen_teams, gen_config
from props import register


def pred_game(rng, kind=None, stratum=None, n=None, maxsize=8):
    kind = kind or rng.choice(KINDS)
    beta, kappa, tau = gen_config(rng)
    stratum = stratum or rng.choice(["typical", "typical", "wide", "corners", "mismatch", "identical", "identical", "equalsize", "tiny-sigma", "equal-ordinal",
                                     "near-identical", "near-identical", "zero-sigma", "newcomers", "crushing", "hash-collide", "ragged", "ragged"])
    if stratum == "ragged":
        # lobbies whose players share values while the teams differ in size: (a) everybody holds one rating; (b) one sigma, different mu;
        # (c) the library's default sigma 25/3 with non-default mu; (d) some mu exactly 0.0 (a falsy number) — next to teams of other sizes
        n = n or rng.randint(2, 5)
        beta = core.DEFAULTS["beta"]
        var = rng.choice("abcdef")
        if var == "e":
            # same-sized teams drawn from the same two or three distinct ratings in different multiplicities
            kinds_ = [(rng.gauss(25, 6), rng.uniform(1, 9)) for _ in range(rng.randint(2, 3))]
            sz = rng.randint(2, 4)
            teams = []
            for _ in range(n):
                teams.append([rng.choice(kinds_) for _ in range(sz)])
            teams[0] = [kinds_[0]] * (sz - 1) + [kinds_[1]]
            teams[1] = [kinds_[0]] + [kinds_[1]] * (sz - 1)
            rng.shuffle(teams)
            sizes = []
        if var == "f":
            # two large teams of settled players whose totals differ by a relative 1e-10 .. 1e-8 at |mu| near the edge of the range
            sz = rng.randint(4, 8)
            a = [(rng.uniform(15, 20) * beta, beta * 10 ** rng.uniform(-4, -2.5)) for _ in range(sz)]
            b = list(a)
            rng.shuffle(b)
            b[0] = (b[0][0] + sum(m for m, _ in a) * rng.choice([1e-10, 3e-10, 1e-9, 3e-9, -1e-9]), b[0][1])
            teams = [a, b]
            sizes = []
        sizes = [rng.randint(1, min(4, maxsize)) for _ in range(n)]
        if len(set(sizes)) == 1:
            sizes[0] = sizes[0] % min(4, maxsize) + 1 if maxsize > 1 else 1
        one = rng.choice([(25.0, 25.0 / 3.0), (rng.gauss(25, 6), rng.uniform(1, 9))])
        sg = rng.choice([25.0 / 3.0, rng.uniform(1, 9)])
        if var in "ef":
            sizes = []
        else:
            teams = []
        for k_ in sizes:
            if var == "a":
                teams.append([one] * k_)
            elif var == "b":
                teams.append([(rng.gauss(25, 6), sg) for _ in range(k_)])
            elif var == "c":
                teams.append([(rng.choice([30.0, 20.0, 27.5, rng.gauss(25, 6)]), 25.0 / 3.0) for _ in range(k_)])
            else:
                teams.append([(0.0 if rng.random() < 0.5 else rng.gauss(3, 6), rng.uniform(1, 9)) for _ in range(k_)])
    elif stratum == "hash-collide":
        # team totals that differ although their Python hashes coincide (hash(-1.0) == hash(-2.0), hash(-1) == hash(-2), hash(1.0) ==
        # hash(2.0**61)): values are never to be told apart, or identified, through hash()
        n = n or rng.randint(3, 5)
        beta = rng.choice([core.DEFAULTS["beta"], 1.0, 0.5])
        sg = rng.choice([beta * 2.0, 1.0, 8.0])
        pool = [[(-1.0, sg)], [(-2.0, sg)], [(-1.5, sg), (0.5, 0.0)], [(-0.5, sg), (-1.5, 0.0)], [(1.0, sg)], [(0.0, sg)], [(-1.0, sg * 0.5)]]
        if rng.random() < 0.5:
            # whole-number ratings one and two points apart with one sigma: pairwise gaps of exactly -1.0 and -2.0 at equal variance
            b0 = float(rng.choice([25, 24, 3, 0]))
            pool = [[(b0 - 1.0, sg)], [(b0 - 2.0, sg)], [(b0, sg)], [(b0, sg)], [(b0 + 1.0, sg)], [(b0 - 3.0, sg)], [(b0 - 1.0, sg * 0.5)]]
        teams = [pool[0], pool[1], pool[rng.choice([2, 5])]] + [rng.choice(pool[2:]) for _ in range(n - 3)]
        teams = [list(t) for t in teams]
        rng.shuffle(teams)
    elif stratum == "crushing":
        # large teams of settled players at opposite ends of the range: some pairwise z beyond 38.6, where Phi is exactly 0.0 / 1.0 in
        # doubles, next to pairs with a real contest
        n = n or rng.randint(3, 5)
        sz = rng.randint(5, 8)
        teams = []
        for i in range(n):
            lo, hi = [(15, 20), (-20, -15), (12, 20), (14, 19)][i % 4] if i < 2 or rng.random() < 0.7 else (-20, -14)
            teams.append([(rng.uniform(lo, hi) * beta, beta * 10 ** rng.uniform(-3, -0.5)) for _ in range(sz)])
        if rng.random() < 0.35:
            # a hopeless solo, a certain strong team, and an even stronger but very uncertain team: from the solo's side the certain team is
            # out of reach (probability exactly 0.0 in doubles) while the stronger one is not
            k1, k2 = rng.randint(3, 5), rng.randint(6, 8)
            teams = [[(-20.0 * beta, beta * 10 ** rng.uniform(-3, -1))],
                     [(rng.uniform(14, 16) * beta, 0.01 * beta) for _ in range(k1)],
                     [(rng.uniform(9, 11) * beta * k1 * 1.6 / k2 + 0.0, rng.uniform(8, 10) * beta) for _ in range(k2)]] + teams[3:n]
            rng.shuffle(teams)
        elif rng.random() < 0.5:
            # ... next to a team of uncertain players (sigma ~ 10 beta) whose total lies in between: out of reach for nobody
            teams[-1] = [(rng.uniform(5, 12) * beta, rng.uniform(6, 10) * beta) for _ in range(rng.randint(4, 8))]
            teams[0] = [(-20.0 * beta, beta * 10 ** rng.uniform(-3, -1))]
        rng.shuffle(teams)
    elif stratum == "newcomers":
        # new players hold the model's default rating: equal (mu, sigma) within a team and across teams, next to a few others
        n = n or rng.randint(2, 6)
        sc = beta / core.DEFAULTS["beta"]
        dflt = (25.0 * sc, 25.0 / 3.0 * sc)
        alt = (rng.gauss(25, 6) * sc, rng.uniform(1, 9) * sc)
        teams = []
        for i in range(n):
            sz = rng.randint(1, min(4, maxsize))
            teams.append([dflt if rng.random() < 0.7 else (alt if rng.random() < 0.6 else (rng.gauss(25, 6) * sc, rng.uniform(1, 9) * sc)) for _ in range(sz)])
    elif stratum == "zero-sigma":
        # perfectly known players (sigma exactly 0.0, or so small that its square underflows to 0.0): whole teams, or one member
        n = n or rng.randint(2, 5)
        sc = beta / core.DEFAULTS["beta"]
        teams = []
        for i in range(n):
            sz = rng.randint(1, min(3, maxsize))
            z = rng.choice([0.0, 0.0, 1e-170 * sc])
            if i == 0 or rng.random() < 0.4:
                teams.append([(rng.gauss(25, 4) * sc, z) for _ in range(sz)])
            elif rng.random() < 0.3:
                teams.append([(rng.gauss(25, 4) * sc, z)] + [(rng.gauss(25, 4) * sc, rng.uniform(1, 9) * sc) for _ in range(sz - 1)])
            else:
                teams.append([(rng.gauss(25, 4) * sc, rng.uniform(1, 9) * sc) for _ in range(sz)])
        rng.shuffle(teams)
    elif stratum == "near-identical":
        # teams that differ by a few ulps in one mu: their probabilities may round to the same double
        n = n or rng.randint(3, 4)
        beta = core.DEFAULTS["beta"]
        m0 = rng.choice([1.0, 25.0, 3.0])
        t = [(m0, rng.choice([25.0 / 3, 2.0]))]
        teams = []
        for i in range(n):
            if i < 2:
                m = m0
                for _ in range(i * rng.randint(1, 16)):
                    m = math.nextafter(m, math.inf)
                teams.append([(m, t[0][1])])
            else:
                teams.append([(rng.choice([25.0, 18.0, 30.0]), 25.0 / 3)])
        rng.shuffle(teams)
    elif stratum == "equal-ordinal":
        # teams whose players have slot-wise equal ordinals mu - 3 sigma but different (mu, sigma), exactly representable
        n = n or rng.randint(3, 5)
        sz = rng.randint(1, 2)
        base = [(float(rng.randint(20, 30)), float(rng.randint(2, 8))) for _ in range(sz)]
        teams = []
        for i in range(n):
            d = float(rng.choice([0, 1, 2, -1]))
            teams.append([(m + 3 * d, s + d) for (m, s) in base] if i < 3 else [(float(rng.randint(10, 40)), float(rng.randint(1, 9))) for _ in range(sz)])
        beta = core.DEFAULTS["beta"]
    elif stratum == "tiny-sigma":
        n = n or rng.randint(2, 4)
        teams = [[(rng.gauss(25, 2) * beta / core.DEFAULTS["beta"], 1e-4 * beta) for _ in range(rng.randint(1, 2))] for _ in range(n)]
    else:
        teams = gen_teams(rng, stratum, beta, n=n, maxsize=maxsize)
    if stratum == "identical" and rng.random() < 0.5 and len(teams) > 2:
        # only some of the teams identical
        teams[-1] = [(m + beta, s) for (m, s) in teams[-1]]
    g = make_game(kind, teams, beta=beta, kappa=kappa, tau=tau)
    if stratum == "identical" and rng.random() < 0.5:
        g["alias"] = True
    return g


def pred_lines(g):
    t = " ".join(teams_tokens(g["teams"]))
    b = f2h(g["beta"])
    return ["PWIN %s %s" % (b, t), "PDRAW %s %s" % (b, t), "PRANK %s %s" % (b, t)]


def parse_pred(lines):
    w = [h2f(x) for x in lines[0].split(" ")[1:]]
    d = h2f(lines[1].split(" ")[1])
    r = []
    for tok in lines[2].split(" ")[1:]:
        a, b = tok.split(":")
        r.append((int(a), h2f(b)))
    return w, d, r


PRED_STATS = {"aliased": 0, "interleaved": 0}


def impl_pred(g, cls=None, probe=None):
    """the three predictions of game g on one model object.
    * identical teams share ONE list object when g['alias'] is set (the same squad entered twice);
    * every few games the call is interleaved deterministically with an unrelated prediction on the same model:
      a rating subclass whose `mu` property, at its k-th read, runs the three predictions on other teams."""
    model = build_model(g, cls)
    kind_cls = core.RATING_CLS[g["kind"]] if cls is None else None
    h = core.game_hash(g)
    if probe is None:
        probe = core.REENTRANT_EVERY > 0 and h % core.REENTRANT_EVERY == 1
    teams = build_teams(model, g)
    # value coincidences inside one team are served by object sharing every other time: a member listed twice IS one object
    # (`[model.rating()] * 2`), which must count twice, exactly like two different players with those values
    if h % 2 == 0:
        for t in teams:
            for j in range(1, len(t)):
                for i in range(j):
                    if (t[i].mu, t[i].sigma) == (t[j].mu, t[j].sigma):
                        t[j] = t[i]
                        PRED_STATS["member_listed_twice"] = PRED_STATS.get("member_listed_twice", 0) + 1
                        break
    if cls is None:
        teams = core.with_user_subclass(teams, h)
    # ids are labels: every eleventh game all first players carry one id (clones of a template; a guest account)
    if h % 11 == 3:
        PRED_STATS["shared_ids"] = PRED_STATS.get("shared_ids", 0) + 1
        for t in teams:
            t[0].id = teams[0][0].id
    if g.get("alias"):
        for i in range(len(teams)):
            for j in range(i):
                if g["teams"][i] == g["teams"][j]:
                    teams[i] = teams[j]
                    PRED_STATS["aliased"] += 1
                    break
    if probe and kind_cls is not None:
        PRED_STATS["interleaved"] += 1
        state = {"n": 0, "at": 1 + h // 11 % 2, "busy": False}
        other = [[model.rating(mu=m * 0.5 + g["beta"], sigma=s * 1.5 + 0.01 * g["beta"]) for (m, s) in t] for t in reversed(g["teams"])]
        other = other + [other[0][:1]]

        class Probe(kind_cls):
            @property
            def mu(self):
                state["n"] += 1
                if state["n"] == state["at"] and not state["busy"]:
                    state["busy"] = True
                    model.predict_win(other); model.predict_draw(other); model.predict_rank(other)
                    state["busy"] = False
                return self.__dict__["_mu"]

            @mu.setter
            def mu(self, v):
                self.__dict__["_mu"] = v
        t0 = teams[h % len(teams)]
        k = h // 3 % len(t0)
        old = t0[k]
        pr = Probe(old.mu, old.sigma, old.name)
        pr.id = old.id
        t0[k] = pr
        out = []
        for fn in (model.predict_win, model.predict_draw, model.predict_rank):
            # the nested prediction runs at the first or second read of the probe's mu inside EACH of the three calls
            state["n"] = 0
            out.append(fn(teams))
        return tuple(out)
    if core.HISTORY_EVERY and h % core.HISTORY_EVERY == 2 and not g.get("_no_history"):
        teams = pred_history(model, teams, g, h)
    # the three queries in one of the six possible orders (a query must not depend on which other query was made before it)
    order = ((0, 1, 2), (2, 0, 1), (1, 2, 0), (2, 1, 0), (0, 2, 1), (1, 0, 2))[h // 7 % 6]
    fns = (model.predict_win, model.predict_draw, model.predict_rank)
    out = [None, None, None]
    for k in order:
        if h % 8 == 6:
            out[k] = core.in_thread(lambda k=k: fns[k](teams))
        elif h % 8 == 7:
            with core.odd_ambient():
                out[k] = fns[k](teams)
        else:
            out[k] = fns[k](teams)
    if h % 4 == 1 and not g.get("_no_history"):
        # the caller owns what a query returns: the returned lists are edited in place (percentages, sorting, popping) and the same
        # queries repeated — every answer is a fresh object holding the same numbers
        PRED_STATS["results_edited_then_repeated"] = PRED_STATS.get("results_edited_then_repeated", 0) + 1
        keep = (list(out[0]), out[1], [tuple(x) for x in out[2]])
        try:
            out[0][:] = [100.0 * x for x in reversed(out[0])]
            out[2].sort(key=lambda x: -x[1]); out[2].pop()
        except Exception:  # noqa: BLE001
            pass
        again = (model.predict_win(teams), model.predict_draw(teams), model.predict_rank(teams))
        if (list(again[0]), again[1], [tuple(x) for x in again[2]]) != keep:
            core.INTERLEAVE_FAILURES.append(("a prediction repeated after the caller edited the returned list in place gives %r, the first answer was %r" % (
                again, keep), dict(g, _pred=True)))
        out = [list(keep[0]), keep[1], [tuple(x) for x in keep[2]]]
    return tuple(out)


def pred_history(model, teams, g, h):
    """what was asked of this model, and of these rating objects, BEFORE the queries under test must not matter; returns the list object
    to query (mode 3 hands back the very list object that earlier queries saw with another content)"""
    mode = (h // 5) % 6
    PRED_STATS["history_mode_%d" % mode] = PRED_STATS.get("history_mode_%d" % mode, 0) + 1
    flat = []
    for t in teams:
        for p in t:
            if not any(p is q for q in flat):
                flat.append(p)
    prior = [(p.mu, p.sigma) for p in flat]

    def restore():
        for p, (m, s_) in zip(flat, prior):
            p.mu, p.sigma = m, s_
    three = lambda mdl, ts: (mdl.predict_win(ts), mdl.predict_draw(ts), mdl.predict_rank(ts))   # noqa: E731
    try:
        if mode == 1:
            # another model object of the same class with another beta answers the same questions about the same objects first
            other = type(model)(beta=g["beta"] * 2.5 + 0.5)
            three(other, teams)
            three(type(model)(beta=g["beta"] * 0.5), teams)
            # ... and shallow copies of THIS model object, re-tuned afterwards (copy.copy shares whatever the object holds by reference)
            import copy as _copy
            twin = _copy.copy(model)
            three(model, teams)
            twin.beta = g["beta"] * 3.0 + 1.0
            three(twin, teams)
        elif mode == 2:
            # queries that fail half-way (a later team contains a rating whose sigma is None), made while the players held other values
            for p in flat:
                p.mu, p.sigma = p.mu * 0.5 - g["beta"], p.sigma * 1.5 + 0.1 * g["beta"]
            bad = model.rating(mu=g["beta"], sigma=g["beta"])
            bad.sigma = None
            for fn in (model.predict_draw, model.predict_rank, model.predict_win):
                try:
                    fn(teams + [[bad]])
                except Exception:  # noqa: BLE001
                    pass
            restore()
        elif mode == 3:
            # the same outer list object queried with fewer / more teams before (a lobby that filled up), and sub-lobbies of it
            extra = [model.rating(mu=g["beta"] * 5.5, sigma=g["beta"] * 1.75)]
            lobby = list(teams)
            if len(lobby) > 2:
                last = lobby.pop()
                three(model, lobby)
                lobby.append(last)
            three(model, lobby)
            lobby.append(extra)
            three(model, lobby)
            lobby.pop()
            return lobby
        elif mode == 4:
            # the same queries were answered earlier, when these players held other values (attributes assigned since)
            for p in flat:
                p.mu, p.sigma = p.mu + 1.5 * g["beta"], p.sigma * 0.5
            three(model, teams)
            restore()
        elif mode == 5:
            # the same players in malformed containers (must be rejected whatever was answered before), after a well-formed query
            three(model, teams)
            for bad in (tuple(teams), [tuple(t) for t in teams], teams[:1], [teams[0], []]):
                for fn in (model.predict_win, model.predict_draw, model.predict_rank):
                    try:
                        fn(bad)
                        core.INTERLEAVE_FAILURES.append(("%s accepted a malformed argument (%s) after a well-formed query on the same players" % (
                            fn.__name__, type(bad).__name__ if not isinstance(bad, list) else "list with a malformed team"), dict(g, _pred=True)))
                    except (TypeError, ValueError):
                        pass
                    except Exception as e:  # noqa: BLE001
                        core.INTERLEAVE_FAILURES.append(("%s on a malformed argument raised %s" % (fn.__name__, type(e).__name__), dict(g, _pred=True)))
    finally:
        restore()
    return teams


def corr_pred(res, games, kind_on_mismatch, label, which=("win", "draw", "rank"), hp=False):
    drv = Driver()
    lines = []
    for g in games:
        lines += [("H" + l) if hp else l for l in pred_lines(g)]
    if hp:
        res.count("highprec_prediction_comparisons", len(games))
    outs = drv.run(lines)
    if not hp:
        # every 4th game also through the literal statement-by-statement models of the three predictions (ops P*LOOP): they must agree
        # bit for bit with the closed-form model at Float (the equality theorems predict*Loop_eq assume `0 + x = x` for the first listed
        # player's values, which Float, opaque to the kernel, exhibits only by running; it fails exactly for a first mu of -0.0)
        sub = [(k_, g_) for k_, g_ in enumerate(games) if k_ % 4 == 0 and not any(t and t[0][0] == 0.0 and math.copysign(1.0, t[0][0]) < 0 for t in g_["teams"])]
        llines = []
        for _k, g_ in sub:
            llines += [l.replace("PWIN", "PWINLOOP").replace("PDRAW", "PDRAWLOOP").replace("PRANK", "PRANKLOOP") for l in pred_lines(g_)]
        louts = drv.run(llines) if llines else []
        for j_, (k_, g_) in enumerate(sub):
            res.count("literal_prediction_models_vs_closed_form_games")
            if louts[3 * j_: 3 * j_ + 3] != outs[3 * k_: 3 * k_ + 3]:
                res.fail("correspondence", "%s: the literal models of the predictions and the closed-form model differ at Float" % label, dict(type="pred", game=g_))
    for k, g in enumerate(games):
        inp = dict(type="pred", game=g)
        try:
            w, d, r = impl_pred(g)
        except Exception as e:  # noqa: BLE001
            res.fail("property", "%s: a predict operation raised %s: %s" % (label, type(e).__name__, e), inp)
            continue
        mw, md, mr = parse_pred(outs[3 * k:3 * k + 3])
        res.traces += 1
        if "win" in which:
            if len(w) != len(mw) or any(not abs(a - b) <= 1e-9 for a, b in zip(w, mw)):
                res.fail(kind_on_mismatch, "%s: predict_win %r differs from the model %r" % (label, w, mw), inp)
        if "draw" in which:
            if not abs(d - md) <= 1e-9:
                res.fail(kind_on_mismatch, "%s: predict_draw %r differs from the model %r" % (label, d, md), inp)
        if "rank" in which:
            if len(r) != len(mr) or any(not abs(a[1] - b[1]) <= 1e-9 for a, b in zip(r, mr)):
                res.fail(kind_on_mismatch, "%s: predict_rank probabilities %r differ from the model %r" % (label, r, mr), inp)
            else:
                # integer ranks are compared when the probabilities are separated (or exactly tied on both sides)
                ps = [p for (_, p) in r]
                mps = [p for (_, p) in mr]
                safe = all((ps[a] == ps[b] and mps[a] == mps[b]) or abs(ps[a] - ps[b]) > 1e-8
                           for a in range(len(ps)) for b in range(a + 1, len(ps)))
                if safe and not hp and [a for (a, _) in r] != [a for (a, _) in mr]:
                    res.fail(kind_on_mismatch, "%s: predict_rank ranks %r differ from the model %r" % (label, r, mr), inp)
    if not hp and games:
        # tier B-exact: the formula the code evaluates, recorded operation by operation, against the model on 192-bit floats
        import exact
        ex = games[:: max(1, len(games) // size(res, 16, 48))]
        for wh in which:
            exact.exact_predict_games(res, [(g["kind"], g["beta"], g["teams"]) for g in ex], wh, label, kind_on_mismatch, drv=drv)


def permuted(g, perm, rng=None):
    g2 = dict(g)
    teams = [list(g["teams"][p]) for p in perm]
    if rng is not None:
        for t in teams:
            rng.shuffle(t)
    g2["teams"] = teams
    return g2


def reconfigure_sequence(res, g, rng, prop, kind_on_mismatch="property"):
    """one model object re-tuned in place between queries (model.beta = x, a unit conversion of a running system):
    every later prediction must be what a model constructed with the new parameters returns"""
    inp = dict(type="pred", game=g)
    try:
        model = build_model(g)
        teams = build_teams(model, g)
        model.predict_win(teams); model.predict_draw(teams); model.predict_rank(teams)
        for k in (rng.choice([0.25, 3.0, 40.0]), 1e-3 if rng.random() < 0.3 else 2.0):
            g2 = dict(g); g2["beta"] = g["beta"] * k
            g2["teams"] = [[(m * k, s * k) for (m, s) in t] for t in g["teams"]]
            model.beta = g2["beta"]; model.mu *= k; model.sigma *= k; model.tau *= k
            for t in teams:
                for p in t:
                    p.mu *= k; p.sigma *= k
            got = (model.predict_win(teams), model.predict_draw(teams), model.predict_rank(teams))
            want = impl_pred(dict(g2, beta=model.beta, teams=[[(p.mu, p.sigma) for p in t] for t in teams]), probe=False)
            res.count("reconfigured_in_place")
            w_, d_, r_ = got
            if not (all(-1e-12 <= x <= 1 + 1e-12 for x in w_) and abs(sum(w_) - 1) <= 1e-9 and -1e-12 <= d_ <= 1 + 1e-12
                    and all(-1e-12 <= x[1] <= 1 + 1e-12 for x in r_)):
                res.fail("property", "%s: after re-tuning the model in place (beta x %r) a prediction leaves [0, 1] or predict_win does not sum to 1: win %r draw %r rank %r" % (
                    prop, k, w_, d_, r_), inp)
                return
            if got != want:
                res.fail(kind_on_mismatch, "%s: after re-tuning the model in place (beta x %r) the predictions %r differ from a model constructed with those parameters %r" % (
                    prop, k, got, want), inp)
                return
            g = g2
    except Exception as e:  # noqa: BLE001
        res.fail("property", "%s: a predict operation raised %s after re-tuning the model in place" % (prop, type(e).__name__), inp)


def inplace_sequence(res, g, rng, prop):
    """what a league does: the same rating objects are rated (mutated in place) or assigned to, then predicted
    with again on the same model; every prediction must equal the one for fresh objects holding the same values"""
    inp = dict(type="pred", game=g)
    try:
        model = build_model(g)
        objs = build_teams(model, g)
        model.predict_rank(objs); model.predict_draw(objs)
        ratable = all(any(s_ * s_ > 0 for (_m, s_) in t) for t in g["teams"])      # rate() is not defined for a team of zero variance
        if rng.random() < 0.6 and ratable:
            model.rate(objs, ranks=list(range(len(objs))))
        else:
            p = objs[rng.randrange(len(objs))][0]
            p.sigma = p.sigma * 0.5 + 0.1 * g["beta"]
            p.mu = p.mu + g["beta"]
        got = (model.predict_win(objs), model.predict_draw(objs), model.predict_rank(objs))
        g2 = dict(g); g2["teams"] = [[(p.mu, p.sigma) for p in t] for t in objs]; g2.pop("alias", None)
        want = impl_pred(g2, probe=False)
        res.count("in_place_then_predict")
        if got != want:
            which = [n_ for n_, a, b in zip(("predict_win", "predict_draw", "predict_rank"), got, want) if a != b]
            res.fail("property", "%s: after the rating objects were updated in place, %s on the same objects differs from fresh objects with the same values: %r vs %r" % (
                prop, "/".join(which), got, want), inp)
        elif len(objs) >= 3:
            tot = math.fsum(p for (_, p) in got[2]) + got[1]
            if abs(tot - 1) > 1e-9:
                res.fail("property", "%s: after an in-place update predict_rank + predict_draw = %r" % (prop, tot), inp)
    except Exception as e:  # noqa: BLE001
        res.fail("property", "%s: a predict operation raised %s after an in-place update" % (prop, type(e).__name__), inp)


# =============================================================================== C09
def c09_one(res, g, rng):
    inp = dict(type="pred", game=g)
    n = len(g["teams"])
    try:
        w = impl_pred(g)[0]
    except Exception as e:  # noqa: BLE001
        res.fail("property", "C09: predict_win raised %s" % type(e).__name__, inp)
        return
    if len(w) != n:
        res.fail("property", "C09: predict_win returned %d numbers for %d teams" % (len(w), n), inp); return
    if any(not (0.0 <= x <= 1.0) for x in w):
        res.fail("property", "C09: predict_win value outside [0,1]: %r" % (w,), inp); return
    if abs(math.fsum(w) - 1) > 1e-9:
        res.fail("property", "C09: predict_win sums to %r" % math.fsum(w), inp)
    # permutations
    perms = list(itertools.permutations(range(n))) if n <= 3 else []
    for _ in range(3):
        p = list(range(n)); rng.shuffle(p); perms.append(tuple(p))
    for perm in perms:
        w2 = impl_pred(permuted(g, perm, rng))[0]
        res.count("permutations")
        if any(abs(w2[k] - w[p]) > 1e-10 for k, p in enumerate(perm)):
            res.fail("property", "C09: permuting the teams by %s does not permute predict_win: %r vs %r" % (perm, w, w2),
                     dict(type="pred", game=g, perm=list(perm)))
            break
    # identical teams
    for a in range(n):
        for b in range(a + 1, n):
            if g["teams"][a] == g["teams"][b]:
                res.count("identical_pairs")
                if abs(w[a] - w[b]) > 1e-12:
                    res.fail("property", "C09: identical teams %d and %d get %r and %r" % (a, b, w[a], w[b]), inp)
    if n == 2 and g["teams"][0] == g["teams"][1]:
        res.count("two_identical")
        if w != [0.5, 0.5]:
            res.fail("property", "C09: two identical teams get %r, not exactly one half each" % (w,), inp)
    # the same model object and the same rating objects, values changed in place between predictions
    # (what a league does after rate(): ids stay, numbers move)
    try:
        model = build_model(g)
        objs = build_teams(model, g)
        w_a = model.predict_win(objs)
        i = rng.randrange(n); j = rng.randrange(len(objs[i]))
        step = g["beta"] * 10 ** rng.uniform(-2, 1)
        objs[i][j].mu += step
        w_b = model.predict_win(objs)
        g3 = dict(g); g3["teams"] = [[(p.mu, p.sigma) for p in t] for t in objs]
        w_fresh = impl_pred(g3, probe=False)[0]
        res.count("in_place_updates")
        if any(abs(a - b) > 1e-12 for a, b in zip(w_b, w_fresh)):
            res.fail("property", "C09: after changing a rating in place, predict_win on the same model gives %r; identical values in fresh objects give %r" % (w_b, w_fresh),
                     dict(type="pred", game=g))
        elif w_b[i] < w_a[i] - 1e-13:
            res.fail("property", "C09: raising mu of [%d][%d] in place lowers its team's win probability %r -> %r" % (i, j, w_a[i], w_b[i]), dict(type="pred", game=g))
    except Exception as e:  # noqa: BLE001
        res.fail("property", "C09: predict_win raised %s after an in-place update" % type(e).__name__, dict(type="pred", game=g))
    # monotone in any member's mu
    for _ in range(3):
        i = rng.randrange(n); j = rng.randrange(len(g["teams"][i]))
        step = g["beta"] * 10 ** rng.uniform(-6, 1.3)
        g2 = dict(g); g2["teams"] = [list(t) for t in g["teams"]]
        m, s = g2["teams"][i][j]
        g2["teams"][i][j] = (m + step, s)
        w2 = impl_pred(g2)[0]
        res.count("increments")
        if w2[i] < w[i] - 1e-13:
            res.fail("property", "C09: raising mu of [%d][%d] by %r lowers its team's win probability %r -> %r" % (i, j, step, w[i], w2[i]),
                     dict(type="pred", game=g, inc=[i, j, step]))
        for q in range(n):
            if q != i and w2[q] > w[q] + 1e-13:
                res.fail("property", "C09: raising mu of [%d][%d] by %r raises team %d's win probability %r -> %r" % (i, j, step, q, w[q], w2[q]),
                         dict(type="pred", game=g, inc=[i, j, step]))


def c09_item(res, item):
    rng = random.Random(res.seed)
    g = item["game"]
    res.case(g)
    c09_one(res, g, rng)
    corr_pred(res, [g], "correspondence", "C09", which=("win",))


def c09_range_sweep(res, rng):
    """many cheap lopsided games (a hopeless team in any slot, also the last): every entry must lie in [0, 1] exactly —
    a Phi value is in [0,1] and a mean of such values cannot leave it, so no slack is granted"""
    n_games = size(res, 120000, 120000)
    models = {k: MODEL_CLS[k]() for k in KINDS}
    for i in range(n_games):
        kind = KINDS[i % 5]
        m = models[kind]
        n = rng.randint(3, 5)
        teams = [[m.rating(float(rng.randint(5, 45)), float(rng.randint(1, 8)))] for _ in range(n)]
        weak = [m.rating(float(rng.randint(-83, -60)), float(rng.randint(1, 3)))]     # |mu| <= 20 beta = 83.3
        teams[rng.choice([n - 1, n - 1, rng.randrange(n)])] = weak
        w = m.predict_win(teams)
        res.evaluations += 1
        if any(not (0.0 <= x <= 1.0) for x in w) or abs(math.fsum(w) - 1) > 1e-9:
            g = make_game(kind, [[(p.mu, p.sigma) for p in t] for t in teams])
            res.fail("property", "C09: predict_win value outside [0,1] (or sum off): %r" % (w,), dict(type="pred", game=g))
            return
    res.count("lopsided_range_sweep_games", n_games)


def c09(res):
    rng = random.Random(res.seed)
    c09_range_sweep(res, rng)
    games = []
    for _ in range(size(res, 700, 5000)):
        g = pred_game(rng)
        res.case(g); describe(res, g)
        c09_one(res, g, rng)
        games.append(g)
    for g in games[:: max(1, len(games) // 120)]:
        reconfigure_sequence(res, g, rng, "C09")
        inplace_sequence(res, g, rng, "C09")
    for kind in KINDS:      # two identical teams, every model
        for sz in (1, 2, 5):
            t = [(rng.gauss(25, 8), rng.uniform(0.5, 9)) for _ in range(sz)]
            g = make_game(kind, [list(t), list(t)])
            res.case(g); c09_one(res, g, rng); games.append(g)
    corr_pred(res, games, "correspondence", "C09", which=("win",))
    res.rule = ("predict_win on the implementation: length, range, sum 1 (1e-9), permutation equivariance (all n! for n<=3, sampled above), "
                "identical teams, exactly one half for two identical teams, monotonicity under single-player mu increments over a geometric "
                "ladder of step sizes 1e-6..20 beta; numbers also compared with the Lean model (1e-9 abs)")


register("C09", c09, c09_item)


# =============================================================================== C10
def c10_one(res, g, rng):
    inp = dict(type="pred", game=g)
    n = len(g["teams"])
    try:
        d = impl_pred(g)[1]
    except Exception as e:  # noqa: BLE001
        res.fail("property", "C10: predict_draw raised %s" % type(e).__name__, inp)
        return
    if not (-1e-12 <= d <= 1 + 1e-12):
        res.fail("property", "C10: predict_draw = %r is outside [0, 1]" % d, inp)
        return
    for _ in range(3):
        p = list(range(n)); rng.shuffle(p)
        d2 = impl_pred(permuted(g, p, rng))[1]
        res.count("reorderings")
        if abs(d2 - d) > 1e-10:
            res.fail("property", "C10: predict_draw depends on the order of teams/players: %r vs %r (order %s)" % (d, d2, p),
                     dict(type="pred", game=g, perm=p))
    if n == 2:
        # never increases as the gap widens
        th = [sum(m for (m, _) in t) for t in g["teams"]]
        hi = 0 if th[0] >= th[1] else 1
        prev = d
        for k in range(6):
            step = g["beta"] * 10 ** rng.uniform(-4, 1)
            g2 = dict(g); g2["teams"] = [list(t) for t in g["teams"]]
            m, s = g2["teams"][hi][0]
            g2["teams"][hi][0] = (m + step, s)
            d2 = impl_pred(g2)[1]
            res.count("gap_steps")
            if d2 > prev + 1e-13:
                res.fail("property", "C10: two teams: widening the gap by %r raises predict_draw %r -> %r" % (step, prev, d2),
                         dict(type="pred", game=g2))
                break
            g, prev = g2, d2
    else:
        # equalising all team totals never lowers it
        th = [sum(m for (m, _) in t) for t in g["teams"]]
        target = sum(th) / n
        g2 = dict(g); g2["teams"] = [list(t) for t in g["teams"]]
        for i in range(n):
            sz = len(g2["teams"][i])
            g2["teams"][i] = [(target / sz, s) for (_, s) in g2["teams"][i]]
        d2 = impl_pred(g2)[1]
        res.count("equalised")
        if d2 < d - 1e-12:
            res.fail("property", "C10: equalising all teams' total mu lowers predict_draw %r -> %r" % (d, d2), inp)


def c10_item(res, item):
    rng = random.Random(res.seed)
    g = item["game"]
    res.case(g)
    c10_one(res, g, rng)
    corr_pred(res, [g], "correspondence", "C10", which=("draw",))


def c10(res):
    rng = random.Random(res.seed)
    games = []
    for _ in range(size(res, 900, 6000)):
        g = pred_game(rng, n=2 if rng.random() < 0.35 else None, maxsize=rng.choice([2, 8, 8, 16]))
        res.case(g); describe(res, g)
        c10_one(res, g, rng)
        games.append(g)
    # N = 2 and sigma -> 0: value 1 up to rounding
    for kind in KINDS:
        for sg in (1e-4, 1e-8, 0.0, 1.0):
            g = make_game(kind, [[(25.0, sg)], [(25.0, sg)]])
            res.case(g); c10_one(res, g, rng); games.append(g)
    for g in games[:: max(1, len(games) // 150)]:
        inplace_sequence(res, g, rng, "C10")
        reconfigure_sequence(res, g, rng, "C10")
    corr_pred(res, games, "correspondence", "C10", which=("draw",))
    res.rule = ("predict_draw on the implementation: range [0,1] (1e-12 slack), independence of team and player order, two teams: "
                "non-increasing along a ladder of widening gaps, n teams: equalised copy not lower; incl. N=2 with sigma->0 and teams of up "
                "to 16; numbers also compared with the Lean model (1e-9 abs)")


register("C10", c10, c10_item)


# =============================================================================== C11
def c11_one(res, g):
    inp = dict(type="pred", game=g)
    n = len(g["teams"])
    try:
        w, d, r = impl_pred(g)
    except Exception as e:  # noqa: BLE001
        res.fail("property", "C11: predict_rank raised %s" % type(e).__name__, inp)
        return
    if len(r) != n or any(len(x) != 2 for x in r):
        res.fail("property", "C11: predict_rank returned %r for %d teams" % (r, n), inp); return
    ranks = [x[0] for x in r]; ps = [x[1] for x in r]
    if any(not (isinstance(k, int) and 1 <= k <= n) for k in ranks):
        res.fail("property", "C11: ranks %r are not integers in 1..%d" % (ranks, n), inp); return
    if any(not (-1e-15 <= p <= 1 + 1e-15) for p in ps):
        res.fail("property", "C11: probabilities %r outside [0,1]" % (ps,), inp); return
    for a in range(n):
        for b in range(n):
            if ps[a] > ps[b] and not ranks[a] < ranks[b]:
                res.fail("property", "C11: team %d has the larger probability (%r > %r) but rank %d vs %d" % (a, ps[a], ps[b], ranks[a], ranks[b]), inp); return
            if ps[a] == ps[b] and ranks[a] != ranks[b]:
                res.fail("property", "C11: equal probabilities %r but ranks %d and %d" % (ps[a], ranks[a], ranks[b]), inp); return
    if ranks[max(range(n), key=lambda k: ps[k])] != 1:
        res.fail("property", "C11: the most likely team does not have rank 1: %r" % (r,), inp); return
    if len(set(ps)) < n:
        res.count("probability_ties")
    if n >= 3:
        tot = math.fsum(ps) + d
        res.count("sum_checked")
        if abs(tot - 1) > 1e-9:
            res.fail("property", "C11: predict_rank probabilities + predict_draw = %r, not 1" % tot, inp)


def c11_item(res, item):
    g = item["game"]
    res.case(g)
    c11_one(res, g)
    corr_pred(res, [g], "correspondence", "C11", which=("rank", "draw"))


def c11_rank_data(res, rng):
    """the literal (loop-shaped) Lean model of _rank_data against the real function, exactly"""
    lines, cases = [], []
    for _ in range(size(res, 400, 2000)):
        n = rng.randint(0, 9)
        pool = [rng.random() for _ in range(rng.randint(1, 4))]
        v = [rng.choice(pool) if rng.random() < 0.6 else rng.random() for _ in range(n)]
        lines.append("RANKDATA %d %s" % (n, " ".join(core.f2h(x) for x in v)))
        cases.append(v)
    outs = Driver().run(lines)
    for v, o in zip(cases, outs):
        want = [int(x) for x in o.split(" ")[1:] if x]
        got = list(core.m_common._rank_data(v))
        res.traces += 1
        res.count("rank_data_literal_comparisons")
        if got != want:
            res.fail("correspondence", "C11: _rank_data(%r) = %r differs from the literal Lean model %r" % (v, got, want), dict(type="rankdata", v=v))


def c11(res):
    rng = random.Random(res.seed)
    c11_rank_data(res, rng)
    games = []
    for _ in range(size(res, 1500, 10000)):
        g = pred_game(rng)
        res.case(g); describe(res, g)
        c11_one(res, g)
        games.append(g)
    # probabilities that are equal as doubles although the inputs differ by a few ulps (and the other way round): the ranks must follow
    # the returned probabilities, not some intermediate quantity
    for k in range(size(res, 600, 3000)):
        g = pred_game(rng, kind=KINDS[k % 5], stratum="near-identical")
        res.case(g); res.count("near_identical_games")
        c11_one(res, g)
    # ... and a fixed family (no random choice): two one-player teams 1..12 ulps apart next to a third team, both listings, every class
    if res.shard == 0:
        for kind in KINDS:
            for m0 in (1.0, 25.0, 3.0):
                for s0 in (25.0 / 3, 2.0):
                    for third in (25.0, 18.0, 30.0):
                        m = m0
                        for k in range(1, 13):
                            m = math.nextafter(m, math.inf)
                            for teams in ([[(m0, s0)], [(m, s0)], [(third, 25.0 / 3)]], [[(third, 25.0 / 3)], [(m, s0)], [(m0, s0)]]):
                                g = dict(kind=kind, beta=core.DEFAULTS["beta"], kappa=core.DEFAULTS["kappa"], tau=core.DEFAULTS["tau"], ls=False,
                                         gamma=("D", 0.0), teams=teams, _no_history=True)
                                res.count("near_identical_family_games")
                                c11_one(res, g)
    for g in games[:: max(1, len(games) // 150)]:
        inplace_sequence(res, g, rng, "C11")
        reconfigure_sequence(res, g, rng, "C11")
    corr_pred(res, games, "correspondence", "C11", which=("rank", "draw"))
    res.rule = ("predict_rank on the implementation: one pair per team, probabilities in [0,1], integer ranks in 1..n consistent with the "
                "probabilities (strict, ties, best = 1), n>=3: probabilities + predict_draw = 1 (1e-9); incl. exactly identical teams; "
                "numbers and (where separated) ranks also compared with the Lean model")


register("C11", c11, c11_item)


# =============================================================================== C12
def c12_item(res, item):
    g = item["game"]
    res.case(g)
    corr_pred(res, [g], "property", "C12 closed forms")


def c12(res):
    rng = random.Random(res.seed)
    games = []
    for _ in range(size(res, 2500, 15000)):
        g = pred_game(rng, maxsize=rng.choice([4, 8]))
        res.case(g); describe(res, g)
        games.append(g)
    corr_pred(res, games, "property", "C12 closed forms")
    for g in games[:: max(1, len(games) // 120)]:
        reconfigure_sequence(res, g, rng, "C12")
        inplace_sequence(res, g, rng, "C12")
    corr_pred(res, games[:: max(1, len(games) // size(res, 150, 60))], "property", "C12 closed forms (192-bit evaluation)", hp=True)
    res.rule = ("predict_win / predict_draw / predict_rank on the implementation against the Lean model evaluated at Float with its own "
                "erfc-based Phi and bisection/Newton Phi^-1 (independent of CPython's NormalDist), 1e-9 absolute; the model is proved equal "
                "to the documented closed forms (theorems R5)")


register("C12", c12, c12_item)
