/-
  `_calculate_rankings`: dense, tie-aware ranks from the sorted rank values
  (`s` = index of the first team of the tie group).  As repaired by fix F4: the rank value
  is used whatever its numeric type.
-/
namespace OS

def denseRanksAux {ρ : Type} (lt : ρ → ρ → Bool) : ρ → Nat → Nat → List ρ → List Nat
  | _, _, _, [] => []
  | prev, idx, s, x :: xs =>
    let s' := if lt prev x then idx else s
    s' :: denseRanksAux lt x (idx + 1) s' xs

def denseRanks {ρ : Type} (lt : ρ → ρ → Bool) : List ρ → List Nat
  | [] => []
  | x :: xs => 0 :: denseRanksAux lt x 1 0 xs

end OS
