import OSProofs.Props.C08
import OSProofs.LeafCode
import OSProofs.SortLemmas
import Mathlib.Tactic.Linarith
import Mathlib.Tactic.Positivity
import Mathlib.Tactic.Ring
import Mathlib.Tactic.NormNum
/-!
# Helper lemmas for C08b (the arithmetic guards of every site of the model)

List facts (bounds of sums, membership in `teamAggs`, `unwind`, `aggs`) and the numeric
consequences of the domain for one team aggregate.  Every lemma is prefixed `grd_`.
-/
noncomputable section
namespace OS

/-! ### sums over lists -/

theorem grd_abs_sum_le {γ : Type} (l : List γ) (f : γ → ℝ) (B : ℝ)
    (h : ∀ x ∈ l, |f x| ≤ B) : |(l.map f).sum| ≤ l.length * B := by
  induction l with
  | nil => simp
  | cons a l ih =>
    have h1 := h a (by simp)
    have h2 := ih (fun x hx => h x (by simp [hx]))
    have h3 := abs_add_le (f a) (l.map f).sum
    have h4 : (((a :: l).length : ℕ) : ℝ) * B = B + l.length * B := by
      simp only [List.length_cons, Nat.cast_succ]; ring
    rw [h4]
    simp only [List.map_cons, List.sum_cons]
    linarith

theorem grd_sum_ge {γ : Type} (l : List γ) (f : γ → ℝ) (m : ℝ)
    (h : ∀ x ∈ l, m ≤ f x) : l.length * m ≤ (l.map f).sum := by
  induction l with
  | nil => simp
  | cons a l ih =>
    have h1 := h a (by simp)
    have h2 := ih (fun x hx => h x (by simp [hx]))
    have h4 : (((a :: l).length : ℕ) : ℝ) * m = m + l.length * m := by
      simp only [List.length_cons, Nat.cast_succ]; ring
    rw [h4]
    simp only [List.map_cons, List.sum_cons]
    linarith

theorem grd_sum_pos {γ : Type} (l : List γ) (f : γ → ℝ) (hne : l ≠ [])
    (h : ∀ x ∈ l, 0 < f x) : 0 < (l.map f).sum := by
  cases l with
  | nil => exact absurd rfl hne
  | cons a l =>
    have h1 := h a (by simp)
    have h2 : 0 ≤ (l.map f).sum := by
      apply List.sum_nonneg
      intro x hx
      obtain ⟨y, hy, rfl⟩ := List.mem_map.mp hx
      exact (h y (by simp [hy])).le
    simp only [List.map_cons, List.sum_cons]
    linarith

/-! ### membership -/

theorem grd_mem_teamAggs {teams : List (List (Rating ℝ))} {dense : List Nat} {t : TeamAgg ℝ}
    (h : t ∈ teamAggs teams dense) : ∃ team ∈ teams, ∃ rk, t = teamAgg team rk := by
  unfold teamAggs at h
  obtain ⟨⟨tm, rk⟩, hm, rfl⟩ := List.mem_map.mp h
  exact ⟨tm, (List.of_mem_zip hm).1, rk, rfl⟩

theorem grd_mem_aggs {teams : List (List (Rating ℝ))} {t : TeamAgg ℝ}
    (h : t ∈ aggs teams) : ∃ team ∈ teams, t = teamAgg team 0 := by
  unfold aggs at h
  obtain ⟨tm, hm, rfl⟩ := List.mem_map.mp h
  exact ⟨tm, hm, rfl⟩

/-- `_unwind` only re-orders: every object it returns is one of the objects it was given -/
theorem grd_mem_unwind {κ γ : Type} (le : κ → κ → Bool) (tenet : List κ) (objs : List γ) {x : γ}
    (h : x ∈ (unwind le tenet objs).1) : x ∈ objs := by
  simp only [unwind, sortByKey] at h
  obtain ⟨⟨k, o, i⟩, hm, rfl⟩ := List.mem_map.mp h
  rw [List.mem_mergeSort] at hm
  have h2 := (List.of_mem_zip hm).2
  exact (List.mem_zipIdx' h2).2 ▸ List.getElem_mem _

theorem grd_mem_inflate {τ : ℝ} {teams : List (List (Rating ℝ))} {t : List (Rating ℝ)}
    (h : t ∈ inflate τ teams) :
    ∃ t0 ∈ teams, t = t0.map (fun p => { p with sigma := Real.sqrt (p.sigma * p.sigma + τ * τ) }) := by
  unfold inflate at h
  obtain ⟨t0, h0, rfl⟩ := List.mem_map.mp h
  exact ⟨t0, h0, rfl⟩

/-! ### one team aggregate on the domain -/

theorem grd_team_mu_bound (team : List (Rating ℝ)) (rk : Nat) (β : ℝ) (hβ : 0 < β)
    (hlen : team.length ≤ 16) (h : ∀ p ∈ team, |p.mu| ≤ 20 * β) :
    |(teamAgg team rk).mu| ≤ 320 * β := by
  simp only [teamAgg, sumL_eq_sum]
  have h1 := grd_abs_sum_le team (fun p => p.mu) (20 * β) h
  have h2 : (team.length : ℝ) ≤ 16 := by exact_mod_cast hlen
  have h3 : (team.length : ℝ) * (20 * β) ≤ 16 * (20 * β) :=
    mul_le_mul_of_nonneg_right h2 (by positivity)
  linarith

theorem grd_team_var_nonneg (team : List (Rating ℝ)) (rk : Nat) : 0 ≤ (teamAgg team rk).sig2 := by
  simp only [teamAgg, sumL_eq_sum]
  apply List.sum_nonneg
  intro x hx
  obtain ⟨q, _, rfl⟩ := List.mem_map.mp hx
  exact mul_self_nonneg _

theorem grd_team_var_pos (team : List (Rating ℝ)) (rk : Nat) (hlen : 1 ≤ team.length)
    (h : ∀ p ∈ team, 0 < p.sigma) : 0 < (teamAgg team rk).sig2 := by
  cases team with
  | nil => simp at hlen
  | cons p rest =>
    exact C08_team_var_pos (p :: rest) rk ⟨p, by simp, (h p (by simp)).ne'⟩

/-- `1.414 < √2` -/
theorem grd_sqrt_two_gt : (1.414 : ℝ) < Real.sqrt 2 := by
  rw [show (1.414 : ℝ) = Real.sqrt (1.414 ^ 2) from (Real.sqrt_sq (by norm_num)).symm]
  exact Real.sqrt_lt_sqrt (by norm_num) (by norm_num)

/-- the Plackett–Luce normaliser of n ≥ 2 teams is at least √2·β -/
theorem grd_plC_ge (β : ℝ) (hβ : 0 < β) (ts : List (TeamAgg ℝ)) (hlen : 2 ≤ ts.length)
    (hs : ∀ t ∈ ts, 0 ≤ t.sig2) : Real.sqrt 2 * β ≤ plC β ts := by
  unfold plC
  rw [sc_sqrt, sumL_eq_sum]
  have h0 : Real.sqrt 2 * β = Real.sqrt (2 * (β * β)) := by
    rw [Real.sqrt_mul (by norm_num), Real.sqrt_mul_self hβ.le]
  rw [h0]
  apply Real.sqrt_le_sqrt
  have h1 := grd_sum_ge ts (fun t => t.sig2 + β * β) (β * β)
    (fun t ht => by have := hs t ht; linarith)
  have h2 : (2 : ℝ) ≤ ts.length := by exact_mod_cast hlen
  have h3 : 2 * (β * β) ≤ (ts.length : ℝ) * (β * β) :=
    mul_le_mul_of_nonneg_right h2 (by positivity)
  linarith

/-- the number of players of a game whose teams are non-empty is at least the number of teams -/
theorem grd_playerCount_ge {γ : Type} (teams : List (List γ)) (h : ∀ t ∈ teams, 1 ≤ t.length) :
    teams.length ≤ playerCount teams := by
  unfold playerCount
  have key : ∀ (l : List Nat) (a : Nat), List.foldl (· + ·) a l = a + l.sum := by
    intro l
    induction l with
    | nil => intro a; simp
    | cons x xs ih => intro a; simp [ih, Nat.add_assoc]
  rw [key, Nat.zero_add]
  induction teams with
  | nil => simp
  | cons t ts ih =>
    have h1 := h t (by simp)
    have h2 := ih (fun x hx => h x (by simp [hx]))
    simp only [List.map_cons, List.sum_cons, List.length_cons]
    omega

end OS
end
