"""Exact-arithmetic correspondence (DESIGN: tier B-exact).

The real Python code is run on instrumented floats (`Sym`, a subclass of `float`) that record every arithmetic operation,
library call and comparison the code performs on them.  The recorded tape is the function of the inputs that the code
computed on that path; the Lean driver evaluates it on 192-bit big floats (op XEVAL: `OSModel/Tape.lean`, the same `Scalar`
interface the theorems are about) and the result is compared with the model evaluated on the same big floats (HRATEX,
HPWINX, …).  Double rounding is out of the picture on both sides, so the comparison tolerance is 1e-12 (observed
agreement: better than 1e-30) instead of the 1e-9 the double-against-double tier needs, and catastrophic cancellation in
the Thurstone-Mosteller tie terms needs no budget at all.

Instrumentation is in-process and temporary (module attributes `math`, `_normal`, `NormalDist` of the six Weng-Lin
modules are swapped inside a `with tracing():` block); /repo is not touched and nothing is guarded in the source.

An operation the tape cannot express (log, pow with a non-integer exponent, a C function reading the double directly)
drops out of the trace: the value continues as a plain double constant.  That never raises an alarm by itself — the
constant is within a few ulp of the exact value, far below the 1e-12 threshold — and it is counted (`untraced`).
"""
import math, os
import statistics
import struct
from contextlib import contextmanager
from fractions import Fraction

_TAPE = None          # the active tape (list of node tokens) or None


def _plain(x):
    return float.__pos__(x) if isinstance(x, float) else x


def _hex(x):
    return struct.pack(">d", x).hex()


class Tape:
    def __init__(self):
        self.nodes = []
        self.untraced = 0
        self.compares = 0
        self.cache = {}

    def emit(self, tok):
        self.nodes.append(tok)
        return len(self.nodes) - 1

    def const(self, x):
        if isinstance(x, bool):
            x = int(x)
        key = ("i", x) if isinstance(x, int) else ("f", _hex(x))
        nid = self.cache.get(key)
        if nid is None:
            nid = self.emit(("i%d" % x) if isinstance(x, int) else ("f" + _hex(x)))
            self.cache[key] = nid
        return nid

    def nid(self, x):
        """node of an operand, or None when it cannot take part (not a real number)"""
        if isinstance(x, Sym):
            if x.tape is self:
                return x.nid
            return self.const(_plain(x))
        if isinstance(x, bool):
            return self.const(int(x))
        if isinstance(x, int):
            if abs(x) > 10 ** 300:
                return None
            return self.const(x)
        if isinstance(x, float):
            if x != x or x in (math.inf, -math.inf):
                return None
            if x != 0.0:
                # a float constant that is not a traced input: short dyadic rationals (2.0, 0.5, 2^-52) are exact; anything with a long
                # mantissa (a precomputed sqrt(2*pi), 1/3, a decimal literal) is a ROUNDED stand-in for some real number — the
                # rounding-free tier cannot speak for a formula that contains one (its 1e-16 is amplified by the same cancellations
                # the tier measures against), so the tape is marked and the game is left to the double tiers
                m, _e = math.frexp(x)
                if (m * 2.0 ** 53) % 2.0 ** 23 != 0.0:
                    self.rounded_constants = getattr(self, "rounded_constants", 0) + 1
                    if os.environ.get("VERIF_DEBUG_CONST"):
                        import traceback as _tb
                        print("ROUNDED-CONST", repr(x), [f.name + ":" + str(f.lineno) for f in _tb.extract_stack()[-6:-1]])
            return self.const(x)
        return None


class Sym(float):
    """a double that remembers how it was computed"""

    def __new__(cls, val, tape=None, nid=None):
        o = float.__new__(cls, val)
        o.tape = tape
        o.nid = nid
        return o

    def __copy__(self):
        return self

    def __deepcopy__(self, memo):
        return self

    def __reduce__(self):
        return (float, (_plain(self),))

    # ---- arithmetic
    def _bin(self, other, tok, fn, swap=False):
        t = self.tape
        if t is None or t is not _TAPE:
            a, b = (_plain(other), _plain(self)) if swap else (_plain(self), _plain(other))
            return fn(a, b)
        if not isinstance(other, (int, float)):
            return NotImplemented
        a, b = (other, self) if swap else (self, other)
        val = fn(_plain(a), _plain(b))          # raises what plain floats raise (ZeroDivisionError, OverflowError)
        na, nb = t.nid(a), t.nid(b)
        if na is None or nb is None or not isinstance(val, float) or val != val or val in (math.inf, -math.inf):
            t.untraced += 1
            return val
        return Sym(val, t, t.emit("%s:%d:%d" % (tok, na, nb)))

    def __add__(self, o):
        return self._bin(o, "A", lambda a, b: a + b)

    def __radd__(self, o):
        return self._bin(o, "A", lambda a, b: a + b, swap=True)

    def __sub__(self, o):
        return self._bin(o, "S", lambda a, b: a - b)

    def __rsub__(self, o):
        return self._bin(o, "S", lambda a, b: a - b, swap=True)

    def __mul__(self, o):
        return self._bin(o, "M", lambda a, b: a * b)

    def __rmul__(self, o):
        return self._bin(o, "M", lambda a, b: a * b, swap=True)

    def __truediv__(self, o):
        return self._bin(o, "D", lambda a, b: a / b)

    def __rtruediv__(self, o):
        return self._bin(o, "D", lambda a, b: a / b, swap=True)

    def _un(self, tok, fn):
        t = self.tape
        val = fn(_plain(self))
        if t is None or t is not _TAPE:
            return val
        if not isinstance(val, float) or val != val or val in (math.inf, -math.inf):
            t.untraced += 1
            return val
        return Sym(val, t, t.emit("%s:%d" % (tok, self.nid)))

    def __neg__(self):
        return self._un("N", lambda a: -a)

    def __pos__(self):
        return self

    def __abs__(self):
        return self._un("B", abs)

    def __pow__(self, e, mod=None):
        t = self.tape
        if mod is None and t is not None and t is _TAPE and not isinstance(e, Sym):
            if isinstance(e, float) and e == int(e) and abs(e) < 64:
                e = int(e) if e != 0.5 else e
            if isinstance(e, int) and not isinstance(e, bool) and 1 <= e <= 16:
                r = self
                for _ in range(e - 1):
                    r = r * self
                return r
            if e == 0.5 and _plain(self) >= 0:
                return self._un("Q", math.sqrt)
            if isinstance(e, int) and -16 <= e <= -1:
                return 1 / (self ** (-e))
        if t is not None and t is _TAPE:
            t.untraced += 1
        return pow(_plain(self), _plain(e)) if mod is None else pow(_plain(self), _plain(e), mod)

    def __rpow__(self, b):
        if self.tape is not None and self.tape is _TAPE:
            self.tape.untraced += 1
        return pow(_plain(b), _plain(self))

    # anything else falls back to float's own method and leaves the trace
    def _escape(name):  # noqa: N805
        def f(self, *a):
            if self.tape is not None and self.tape is _TAPE:
                self.tape.untraced += 1
            return getattr(float, name)(_plain(self), *[_plain(x) for x in a])
        f.__name__ = name
        return f

    for _n in ("__mod__", "__rmod__", "__floordiv__", "__rfloordiv__", "__divmod__", "__rdivmod__", "__round__"):
        locals()[_n] = _escape(_n)
    del _n, _escape

    # ---- comparisons: decided on the doubles, recorded with the answer
    def _cmp(self, other, tok, fn, swap=False):
        t = self.tape
        if not isinstance(other, (int, float)):
            return NotImplemented
        a, b = (other, self) if swap else (self, other)
        out = fn(_plain(a), _plain(b))
        if t is not None and t is _TAPE:
            rc = getattr(t, "rounded_constants", 0)
            na, nb = t.nid(a), t.nid(b)
            t.rounded_constants = rc          # a threshold in a comparison is a decision, re-decided on big floats — not a rounded quantity
            if na is not None and nb is not None:
                t.emit("%s:%d:%d:%d" % (tok, na, nb, 1 if out else 0))
                t.compares += 1
        return out

    def __lt__(self, o):
        return self._cmp(o, "L", lambda a, b: a < b)

    def __le__(self, o):
        return self._cmp(o, "G", lambda a, b: a <= b)

    def __gt__(self, o):
        return self._cmp(o, "L", lambda a, b: a < b, swap=True)

    def __ge__(self, o):
        return self._cmp(o, "G", lambda a, b: a <= b, swap=True)

    def __eq__(self, o):
        return self._cmp(o, "E", lambda a, b: a == b)

    def __ne__(self, o):
        r = self._cmp(o, "E", lambda a, b: a == b)
        return r if r is NotImplemented else not r

    def __bool__(self):
        return not self._cmp(0, "E", lambda a, b: a == b)

    def __hash__(self):
        return hash(_plain(self))


# -------------------------------------------------------------------------------------------------- library shims
def _lib1(tok, fn):
    def f(x, *rest):
        t = _TAPE
        if t is not None and not rest and not isinstance(x, Sym) and isinstance(x, (int, float)) and not isinstance(x, bool):
            # a library call on a literal (math.sqrt(2.0)): the real number it denotes, not its double rounding
            nid = t.nid(x)
            if nid is not None:
                x = Sym(float(x), t, nid)
        if rest or not isinstance(x, Sym) or x.tape is None or x.tape is not t:
            return fn(_plain(x), *[_plain(r) for r in rest])
        return x._un(tok, fn)
    return f


class MathShim:
    """stands in for the `math` module inside the Weng-Lin modules while tracing"""
    sqrt = staticmethod(_lib1("Q", math.sqrt))
    exp = staticmethod(_lib1("X", math.exp))
    erfc = staticmethod(_lib1("R", math.erfc))
    fabs = staticmethod(_lib1("B", math.fabs))

    @staticmethod
    def erf(x):
        if isinstance(x, Sym) and x.tape is _TAPE and _TAPE is not None:
            return 1 - MathShim.erfc(x)
        return math.erf(_plain(x))

    @staticmethod
    def pow(x, y):
        if isinstance(x, Sym):
            return x ** y
        return math.pow(_plain(x), _plain(y))

    @staticmethod
    def fsum(xs):
        xs = list(xs)
        if any(isinstance(x, Sym) for x in xs):
            acc = 0
            for x in xs:
                acc = acc + x
            return acc
        return math.fsum(xs)

    @staticmethod
    def hypot(*xs):
        # as a real function hypot(a, b, ...) IS sqrt(a*a + b*b + ...); its careful rounding is invisible to the rounding-free tier
        if any(isinstance(x, Sym) for x in xs):
            acc = 0
            for x in xs:
                acc = acc + x * x
            return MathShim.sqrt(acc)
        return math.hypot(*xs)

    @staticmethod
    def prod(xs, start=1):
        acc = start
        for x in xs:
            acc = acc * x
        return acc

    def __getattr__(self, name):
        v = getattr(math, name)
        if callable(v):
            def f(*a):
                if _TAPE is not None and any(isinstance(x, Sym) for x in a):
                    _TAPE.untraced += 1
                return v(*[_plain(x) for x in a])
            return f
        return v


class NormalShim:
    """stands in for `statistics.NormalDist()` (the standard normal) while tracing"""
    _real = statistics.NormalDist()
    cdf = staticmethod(_lib1("C", _real.cdf))
    pdf = staticmethod(_lib1("P", _real.pdf))
    inv_cdf = staticmethod(_lib1("I", _real.inv_cdf))

    def __getattr__(self, name):
        return getattr(self._real, name)


def _normaldist_factory(mu=0.0, sigma=1.0):
    if _plain(mu) == 0.0 and _plain(sigma) == 1.0:
        return NormalShim()
    if _TAPE is not None:
        _TAPE.untraced += 1
    return statistics.NormalDist(_plain(mu), _plain(sigma))


class _FloatMeta(type):
    def __instancecheck__(cls, inst):
        return isinstance(inst, float)

    def __subclasscheck__(cls, sub):
        return issubclass(sub, float)

    def __call__(cls, *a, **k):
        if len(a) == 1 and not k and isinstance(a[0], Sym):
            return a[0]               # float(x) on a traced double keeps the trace (the value is unchanged)
        return float(*a, **k)


class FloatShim(float, metaclass=_FloatMeta):
    """stands in for the builtin name `float` inside the traced modules: `float(x)` is the identity on doubles"""
    fromhex = float.fromhex


_ABSENT = object()

_MATH_FUNCS = {getattr(math, n): n for n in ("sqrt", "exp", "erfc", "erf", "fabs", "pow", "fsum", "prod")}


@contextmanager
def tracing(modules):
    """swap the numeric libraries of `modules` for the recording shims and activate a fresh tape"""
    global _TAPE
    shim = MathShim()
    saved = []
    for mod in modules:
        for name, val in list(vars(mod).items()):
            new = None
            if val is math:
                new = shim
            elif isinstance(val, statistics.NormalDist) and val.mean == 0.0 and val.stdev == 1.0:
                new = NormalShim()
            elif val is statistics.NormalDist:
                new = _normaldist_factory
            elif val is statistics:
                new = None
            else:
                try:
                    if val in _MATH_FUNCS:
                        new = getattr(shim, _MATH_FUNCS[val])
                except TypeError:
                    pass
            if new is not None:
                saved.append((mod, name, val))
                setattr(mod, name, new)
    for mod in modules:
        saved.append((mod, "float", vars(mod).get("float", _ABSENT)))
        setattr(mod, "float", FloatShim)
    tape = Tape()
    prev = _TAPE
    _TAPE = tape
    try:
        yield tape
    finally:
        _TAPE = prev
        for mod, name, val in reversed(saved):
            if val is _ABSENT:
                delattr(mod, name)
            else:
                setattr(mod, name, val)


def inp(tape, x):
    """an input of the traced computation (an exact double)"""
    return Sym(float(x), tape, tape.const(float(x)))


def out_id(tape, x):
    """node of an output value; a value that fell out of the trace comes back as a constant"""
    if isinstance(x, Sym) and x.tape is tape:
        return x.nid, True
    if isinstance(x, bool) or not isinstance(x, (int, float)):
        return None, False
    nid = tape.nid(x)
    return nid, False


def xeval_line(tape, outs):
    return "XEVAL %d %s %d %s" % (len(outs), " ".join(str(o) for o in outs), len(tape.nodes), " ".join(tape.nodes))


def parse_bf(tok):
    m, e = tok.split("@")
    m, e = int(m), int(e)
    return Fraction(m) * (Fraction(2) ** e)


def rel_dev(a, b, scale):
    """|a-b| / scale as a float (a, b Fractions)"""
    d = abs(a - b)
    if d == 0:
        return 0.0
    s = Fraction(scale) if not isinstance(scale, Fraction) else scale
    if s <= 0:
        s = max(abs(a), abs(b))
    q = d / s
    # float(q) can underflow/overflow only far outside anything of interest
    try:
        return float(q)
    except OverflowError:
        return math.inf
