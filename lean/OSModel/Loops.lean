import OSModel.Compute
import OSModel.Ladder
import OSModel.Rate
import OSModel.CodeShaped
/-
  Loop-shaped (literal) transliterations of the five `_compute` bodies of
  /repo/openskill/models/weng_lin/{plackett_luce, bradley_terry_full, bradley_terry_part,
  thurstone_mosteller_full, thurstone_mosteller_part}.py (the code AS REPAIRED at /repo HEAD), and of
  the loops of `rate` itself that `OSModel/Rate.lean` abbreviates.

  `OSModel/Compute.lean` replaces every loop by a `sumL ∘ map ∘ filter` expression.  Here the loops are
  kept as loops: statement by statement, accumulator by accumulator, in the code's iteration order.

  Conventions
  * `for k, x in enumerate(xs): …` is a `foldl` over `xs.zipIdx`; the loop variable is the pair `(x, k)`.
    The state of the fold is the tuple of the variables the loop body assigns to.
  * `result.append(x)` is `result ++ [x]`;  `continue` returns the state unchanged.
  * `omega += x` is `omega + x`, `omega -= x` is `omega - x`, `omega *= y` is `omega * y`, `x**2` is `x * x`;
    the literals `0`, `0.0`, `1`, `1.0`, `2` are `ofNat`, `0.5` is `ofNat 1 / ofNat 2`; an `int` that meets a
    `float` in arithmetic (`a[q]`) is converted by `ofNat`.
  * A list read `l[k]` is `l.getD k default`; every index that occurs is in range (this is proved, not
    assumed: the equality theorems of `OSProofs/Props/Loops.lean` go through the reads).
  * Python objects are values here (no aliasing): `modified_player.mu = mu` is a record update.
  * The inner `for q …` loop of every full-pairing model is a separate definition (`loop…Inner`) called
    from the outer loop, only so that the proofs can name it; the two partial-pairing models are nested
    functions (`i_map`, `od_reduce`) in the Python text already.
  * The helper METHODS `_c`, `_sum_q`, `_a`, `_calculate_team_ratings`, `_ladder_pairs`, `gamma`, `v w vt wt`
    are calls, modelled by `plC`, `plSumQ`, `plA`, `teamAggs`, `ladderPairsCode`, `gammaVal`, `L.v …`
    (`plSumQCode` of `CodeShaped.lean` is the literal `_sum_q`; `computeLoopPLCodeOn` below uses it together
    with the literal `_c`; the second half of the file has the literal `_calculate_team_ratings`,
    `_calculate_rankings` and the loops of `rate`, assembled in `computeCode` and `rateLoop`).

  Nothing else in `OSModel` uses this file.  `OSProofs/Props/Loops.lean` proves
  `computeLoop K L P teams dense = compute K L P teams dense`.
-/
namespace OS
open Scalar
variable {α : Type} [Scalar α]

/-- the value of an out-of-range list read (never reached) -/
def Rating.dflt : Rating α := { id := 0, mu := ofNat 0, sigma := ofNat 0 }

/-! ### the player loop (the same text in all five files) -/

/-- ```
    intermediate_result_per_team = []
    for j, j_players in enumerate(team_i.team):
        mu = j_players.mu
        sigma = j_players.sigma
        mu += (sigma**2 / team_i.sigma_squared) * omega
        sigma *= math.sqrt(max(1 - (sigma**2 / team_i.sigma_squared) * delta, self.kappa))
        modified_player = original_teams[i][j]      # full pairing and Plackett-Luce
        modified_player = team_i.team[j]            # partial pairing
        modified_player.mu = mu
        modified_player.sigma = sigma
        intermediate_result_per_team.append(modified_player)
    ```
    `src` is the list the modified player is read from (`original_teams[i]` or `team_i.team`). -/
def loopPlayers (kappa : α) (team_i : TeamAgg α) (src : List (Rating α)) (omega delta : α) :
    List (Rating α) :=
  team_i.players.zipIdx.foldl                           -- for j, j_players in enumerate(team_i.team):
    (fun intermediate_result_per_team jp =>
      let j_players := jp.1
      let j := jp.2
      let mu := j_players.mu                            -- mu = j_players.mu
      let sigma := j_players.sigma                      -- sigma = j_players.sigma
      let mu := mu + (sigma * sigma / team_i.sig2) * omega
                                                        -- mu += (sigma**2 / team_i.sigma_squared) * omega
      let sigma := sigma * sqrt (smax (ofNat 1 - (sigma * sigma / team_i.sig2) * delta) kappa)
                                                        -- sigma *= math.sqrt(max(1 - (sigma**2 / team_i.sigma_squared) * delta, self.kappa))
      let modified_player := src.getD j Rating.dflt     -- modified_player = original_teams[i][j]   /  team_i.team[j]
      let modified_player := { modified_player with mu := mu }        -- modified_player.mu = mu
      let modified_player := { modified_player with sigma := sigma }  -- modified_player.sigma = sigma
      intermediate_result_per_team ++ [modified_player])              -- intermediate_result_per_team.append(modified_player)
    []                                                  -- intermediate_result_per_team = []

/-! ### Plackett–Luce -/

/-- the inner loop of `PlackettLuce._compute` for a fixed `(i, team_i)`; returns `(omega, delta)` -/
def loopPLInner (team_ratings : List (TeamAgg α)) (c : α) (sum_q : List α) (a : List Nat)
    (i : Nat) (team_i : TeamAgg α) : α × α :=
  let omega : α := ofNat 0                              -- omega = 0.0
  let delta : α := ofNat 0                              -- delta = 0.0
  let i_mu_over_c := exp (team_i.mu / c)                -- i_mu_over_c = math.exp(team_i.mu / c)
  team_ratings.zipIdx.foldl                             -- for q, team_q in enumerate(team_ratings):
    (fun od tq =>
      let omega := od.1
      let delta := od.2
      let team_q := tq.1
      let q := tq.2
      let i_mu_over_ce_over_sum_q := i_mu_over_c / sum_q.getD q (ofNat 0)
                                                        -- i_mu_over_ce_over_sum_q = i_mu_over_c / sum_q[q]
      if team_q.rank ≤ team_i.rank then                 -- if team_q.rank <= team_i.rank:
        let delta := delta +
          i_mu_over_ce_over_sum_q * (ofNat 1 - i_mu_over_ce_over_sum_q) / ofNat (a.getD q 0)
                                                        -- delta += (i_mu_over_ce_over_sum_q * (1 - i_mu_over_ce_over_sum_q) / a[q])
        if q = i then                                   -- if q == i:
          let omega := omega + (ofNat 1 - i_mu_over_ce_over_sum_q) / ofNat (a.getD q 0)
                                                        -- omega += (1 - i_mu_over_ce_over_sum_q) / a[q]
          (omega, delta)
        else                                            -- else:
          let omega := omega - i_mu_over_ce_over_sum_q / ofNat (a.getD q 0)
                                                        -- omega -= i_mu_over_ce_over_sum_q / a[q]
          (omega, delta)
      else (omega, delta))
    (omega, delta)

/-- the body of `PlackettLuce._compute` after `team_ratings = …`; the methods `_c` and `_sum_q` are
    parameters (`cF`, `sumQF`) so that the same text can be run with their closed forms (`plC`,
    `plSumQ`) and with their literal loops (`plCLoop`, `plSumQCode`).  `_a` is `plA`, which is the
    Python text already (`list(map(lambda i: len(list(filter(lambda q: i.rank == q.rank, …))), …))`). -/
def computeLoopPLWith (cF : α → List (TeamAgg α) → α) (sumQF : List (TeamAgg α) → α → List α)
    (P : Params α) (teams : List (List (Rating α))) (team_ratings : List (TeamAgg α)) :
    List (List (Rating α)) :=
  let original_teams := teams                           -- original_teams = teams
  let c := cF P.beta team_ratings                       -- c = self._c(team_ratings)
  let sum_q := sumQF team_ratings c                     -- sum_q = self._sum_q(team_ratings, c)
  let a := plA team_ratings                             -- a = self._a(team_ratings)
  team_ratings.zipIdx.foldl                             -- for i, team_i in enumerate(team_ratings):
    (fun result it =>
      let team_i := it.1
      let i := it.2
      let od := loopPLInner team_ratings c sum_q a i team_i   -- (omega = 0.0 … end of the `for q` loop)
      let omega := od.1
      let delta := od.2
      let omega := omega * (team_i.sig2 / c)            -- omega *= team_i.sigma_squared / c
      let delta := delta * (team_i.sig2 / (c * c))      -- delta *= team_i.sigma_squared / c**2
      let gamma_value := gammaVal P.gamma c team_ratings.length team_i.mu team_i.sig2 team_i.players team_i.rank
                                                        -- gamma_value = self.gamma(c, len(team_ratings), team_i.mu, team_i.sigma_squared, team_i.team, team_i.rank)
      let delta := delta * gamma_value                  -- delta *= gamma_value
      let intermediate_result_per_team :=
        loopPlayers P.kappa team_i (original_teams.getD i []) omega delta   -- (the player loop)
      result ++ [intermediate_result_per_team])         -- result.append(intermediate_result_per_team)
    []                                                  -- result = []

/-- `PlackettLuce._compute` after `team_ratings = …`, with `_c` and `_sum_q` as modelled in
    `Compute.lean` -/
def computeLoopPLOn (_L : Leaves α) (P : Params α) (teams : List (List (Rating α)))
    (team_ratings : List (TeamAgg α)) : List (List (Rating α)) :=
  computeLoopPLWith plC plSumQ P teams team_ratings

/-- `_c(team_ratings)`, literally -/
def plCLoop (beta : α) (team_ratings : List (TeamAgg α)) : α :=
  let beta_squared := beta * beta                       -- beta_squared = self.beta**2
  let collective_team_sigma : α := ofNat 0              -- collective_team_sigma = 0.0
  let collective_team_sigma := team_ratings.foldl       -- for team in team_ratings:
    (fun collective_team_sigma team =>
      collective_team_sigma + (team.sig2 + beta_squared))   -- collective_team_sigma += team.sigma_squared + beta_squared
    collective_team_sigma
  sqrt collective_team_sigma                            -- return math.sqrt(collective_team_sigma)

/-- `PlackettLuce._compute` after `team_ratings = …`, with the literal `_c` (`plCLoop`) and the literal
    `_sum_q` (`plSumQCode`, the dict-building double loop of `CodeShaped.lean`) -/
def computeLoopPLCodeOn (_L : Leaves α) (P : Params α) (teams : List (List (Rating α)))
    (team_ratings : List (TeamAgg α)) : List (List (Rating α)) :=
  computeLoopPLWith plCLoop plSumQCode P teams team_ratings

/-! ### Bradley–Terry, full pairing -/

/-- the inner loop of `BradleyTerryFull._compute` for a fixed `(i, team_i)` -/
def loopBTFInner (P : Params α) (team_ratings : List (TeamAgg α)) (i : Nat) (team_i : TeamAgg α) :
    α × α :=
  let beta := P.beta                                    -- beta = self.beta
  let omega : α := ofNat 0                              -- omega = 0.0
  let delta : α := ofNat 0                              -- delta = 0.0
  team_ratings.zipIdx.foldl                             -- for q, team_q in enumerate(team_ratings):
    (fun od tq =>
      let omega := od.1
      let delta := od.2
      let team_q := tq.1
      let q := tq.2
      if q = i then (omega, delta) else                 -- if q == i: continue
      let c_iq := sqrt (team_i.sig2 + team_q.sig2 + (ofNat 2 * (beta * beta)))
                                                        -- c_iq = math.sqrt(team_i.sigma_squared + team_q.sigma_squared + (2 * beta**2))
      let piq := ofNat 1 / (ofNat 1 + exp ((team_q.mu - team_i.mu) / c_iq))
                                                        -- piq = 1 / (1 + math.exp((team_q.mu - team_i.mu) / c_iq))
      let sigma_squared_to_ciq := team_i.sig2 / c_iq    -- sigma_squared_to_ciq = team_i.sigma_squared / c_iq
      let s : α := ofNat 0                              -- s = 0.0
      let s : α :=
        if team_q.rank > team_i.rank then ofNat 1       -- if team_q.rank > team_i.rank: s = 1.0
        else if team_q.rank = team_i.rank then ofNat 1 / ofNat 2   -- elif team_q.rank == team_i.rank: s = 0.5
        else s
      let omega := omega + sigma_squared_to_ciq * (s - piq)   -- omega += sigma_squared_to_ciq * (s - piq)
      let gamma_value := gammaVal P.gamma c_iq team_ratings.length team_i.mu team_i.sig2 team_i.players team_i.rank
                                                        -- gamma_value = self.gamma(c_iq, len(team_ratings), team_i.mu, team_i.sigma_squared, team_i.team, team_i.rank)
      let delta := delta + ((gamma_value * sigma_squared_to_ciq) / c_iq) * piq * (ofNat 1 - piq)
                                                        -- delta += ((gamma_value * sigma_squared_to_ciq) / c_iq) * piq * (1 - piq)
      (omega, delta))
    (omega, delta)

/-- `BradleyTerryFull._compute`, loop-shaped.  (The Python text also evaluates `c = self._c(…)`,
    `sum_q = self._sum_q(…)`, `a = self._a(…)` and never reads them: dead assignments, left out.) -/
def computeLoopBTFOn (_L : Leaves α) (P : Params α) (teams : List (List (Rating α)))
    (team_ratings : List (TeamAgg α)) : List (List (Rating α)) :=
  let original_teams := teams                           -- original_teams = teams
  team_ratings.zipIdx.foldl                             -- for i, team_i in enumerate(team_ratings):
    (fun result it =>
      let team_i := it.1
      let i := it.2
      let od := loopBTFInner P team_ratings i team_i    -- (omega = 0.0 … end of the `for q` loop)
      let omega := od.1
      let delta := od.2
      let intermediate_result_per_team :=
        loopPlayers P.kappa team_i (original_teams.getD i []) omega delta   -- (the player loop)
      result ++ [intermediate_result_per_team])         -- result.append(intermediate_result_per_team)
    []                                                  -- result = []

/-! ### Bradley–Terry, partial pairing -/

/-- `od_reduce(od, game_q)` of `BradleyTerryPart._compute.i_map` -/
def loopBTPReduce (P : Params α) (n : Nat) (team_i : TeamAgg α) (od : α × α)
    (game_q : List (TeamAgg α)) : α × α :=
  let beta := P.beta                                    -- beta = self.beta
  game_q.foldl                                          -- omega, delta = od ; for team_q in game_q:
    (fun od team_q =>
      let omega := od.1
      let delta := od.2
      let c_iq := sqrt (team_i.sig2 + team_q.sig2 + (ofNat 2 * (beta * beta)))
                                                        -- c_iq = math.sqrt(team_i.sigma_squared + team_q.sigma_squared + (2 * beta**2))
      let p_iq := ofNat 1 / (ofNat 1 + exp ((team_q.mu - team_i.mu) / c_iq))
                                                        -- p_iq = 1 / (1 + math.exp((team_q.mu - team_i.mu) / c_iq))
      let sigma_squared_to_ciq := team_i.sig2 / c_iq    -- sigma_squared_to_ciq = team_i.sigma_squared / c_iq
      let s : α := ofNat 0                              -- s = 0.0
      let s : α :=
        if team_q.rank > team_i.rank then ofNat 1       -- if team_q.rank > team_i.rank: s = 1
        else if team_q.rank = team_i.rank then ofNat 1 / ofNat 2   -- elif team_q.rank == team_i.rank: s = 0.5
        else s
      let omega := omega + sigma_squared_to_ciq * (s - p_iq)   -- omega += sigma_squared_to_ciq * (s - p_iq)
      let gamma_value := gammaVal P.gamma c_iq n team_i.mu team_i.sig2 team_i.players team_i.rank
                                                        -- gamma_value = self.gamma(c_iq, len(team_ratings), team_i.mu, team_i.sigma_squared, team_i.team, team_i.rank)
      let delta := delta + ((gamma_value * sigma_squared_to_ciq) / c_iq) * p_iq * (ofNat 1 - p_iq)
                                                        -- delta += (((gamma_value * sigma_squared_to_ciq) / c_iq) * p_iq * (1 - p_iq))
      (omega, delta))
    od                                                  -- return omega, delta

/-- `BradleyTerryPart._compute`, loop-shaped -/
def computeLoopBTPOn (_L : Leaves α) (P : Params α) (_teams : List (List (Rating α)))
    (team_ratings : List (TeamAgg α)) : List (List (Rating α)) :=
  let adjacent_teams := ladderPairsCode team_ratings    -- adjacent_teams = _ladder_pairs(team_ratings)
  let i_map := fun (team_i : TeamAgg α) (adjacent_i : List (TeamAgg α)) =>   -- def i_map(team_i, adjacent_i):
    let od := loopBTPReduce P team_ratings.length team_i (ofNat 0, ofNat 0) adjacent_i
                                                        -- i_omega, i_delta = od_reduce([0.0, 0.0], adjacent_i)
    let i_omega := od.1
    let i_delta := od.2
    loopPlayers P.kappa team_i team_i.players i_omega i_delta   -- (the player loop; return intermediate_result_per_team)
  (team_ratings.zip adjacent_teams).map (fun i => i_map i.1 i.2)
                                                        -- return list(map(lambda i: i_map(i[0], i[1]), zip(team_ratings, adjacent_teams)))

/-! ### Thurstone–Mosteller, full pairing -/

/-- the inner loop of `ThurstoneMostellerFull._compute` for a fixed `(i, team_i)` -/
def loopTMFInner (L : Leaves α) (P : Params α) (team_ratings : List (TeamAgg α)) (i : Nat)
    (team_i : TeamAgg α) : α × α :=
  let beta := P.beta                                    -- beta = self.beta
  let omega : α := ofNat 0                              -- omega = 0.0
  let delta : α := ofNat 0                              -- delta = 0.0
  team_ratings.zipIdx.foldl                             -- for q, team_q in enumerate(team_ratings):
    (fun od tq =>
      let omega := od.1
      let delta := od.2
      let team_q := tq.1
      let q := tq.2
      if q = i then (omega, delta) else                 -- if q == i: continue
      let c_iq := sqrt (team_i.sig2 + team_q.sig2 + (ofNat 2 * (beta * beta)))
                                                        -- c_iq = math.sqrt(team_i.sigma_squared + team_q.sigma_squared + (2 * beta**2))
      let delta_mu := (team_i.mu - team_q.mu) / c_iq    -- delta_mu = (team_i.mu - team_q.mu) / c_iq
      let sigma_squared_to_ciq := team_i.sig2 / c_iq    -- sigma_squared_to_ciq = team_i.sigma_squared / c_iq
      let gamma_value := gammaVal P.gamma c_iq team_ratings.length team_i.mu team_i.sig2 team_i.players team_i.rank
                                                        -- gamma_value = self.gamma(c_iq, len(team_ratings), team_i.mu, team_i.sigma_squared, team_i.team, team_i.rank)
      if team_q.rank > team_i.rank then                 -- if team_q.rank > team_i.rank:
        let omega := omega + sigma_squared_to_ciq * L.v delta_mu (P.kappa / c_iq)
                                                        -- omega += sigma_squared_to_ciq * v(delta_mu, self.kappa / c_iq)
        let delta := delta + gamma_value * sigma_squared_to_ciq / c_iq * L.w delta_mu (P.kappa / c_iq)
                                                        -- delta += (gamma_value * sigma_squared_to_ciq / c_iq * w(delta_mu, self.kappa / c_iq))
        (omega, delta)
      else if team_q.rank < team_i.rank then            -- elif team_q.rank < team_i.rank:
        let omega := omega + -sigma_squared_to_ciq * L.v (-delta_mu) (P.kappa / c_iq)
                                                        -- omega += -sigma_squared_to_ciq * v(-delta_mu, self.kappa / c_iq)
        let delta := delta + gamma_value * sigma_squared_to_ciq / c_iq * L.w (-delta_mu) (P.kappa / c_iq)
                                                        -- delta += (gamma_value * sigma_squared_to_ciq / c_iq * w(-delta_mu, self.kappa / c_iq))
        (omega, delta)
      else                                              -- else:
        let omega := omega + sigma_squared_to_ciq * L.vt delta_mu (P.kappa / c_iq)
                                                        -- omega += sigma_squared_to_ciq * vt(delta_mu, self.kappa / c_iq)
        let delta := delta + gamma_value * sigma_squared_to_ciq / c_iq * L.wt delta_mu (P.kappa / c_iq)
                                                        -- delta += (gamma_value * sigma_squared_to_ciq / c_iq * wt(delta_mu, self.kappa / c_iq))
        (omega, delta))
    (omega, delta)

/-- `ThurstoneMostellerFull._compute`, loop-shaped.  (Dead assignments `c`, `sum_q`, `a` left out,
    as for Bradley–Terry full.) -/
def computeLoopTMFOn (L : Leaves α) (P : Params α) (teams : List (List (Rating α)))
    (team_ratings : List (TeamAgg α)) : List (List (Rating α)) :=
  let original_teams := teams                           -- original_teams = teams
  team_ratings.zipIdx.foldl                             -- for i, team_i in enumerate(team_ratings):
    (fun result it =>
      let team_i := it.1
      let i := it.2
      let od := loopTMFInner L P team_ratings i team_i  -- (omega = 0.0 … end of the `for q` loop)
      let omega := od.1
      let delta := od.2
      let intermediate_result_per_team :=
        loopPlayers P.kappa team_i (original_teams.getD i []) omega delta   -- (the player loop)
      result ++ [intermediate_result_per_team])         -- result.append(intermediate_result_per_team)
    []                                                  -- result = []

/-! ### Thurstone–Mosteller, partial pairing -/

/-- `od_reduce(od, game_q)` of `ThurstoneMostellerPart._compute.i_map` -/
def loopTMPReduce (L : Leaves α) (P : Params α) (n : Nat) (team_i : TeamAgg α) (od : α × α)
    (game_q : List (TeamAgg α)) : α × α :=
  let beta := P.beta                                    -- beta = self.beta
  game_q.foldl                                          -- omega, delta = od ; for team_q in game_q:
    (fun od team_q =>
      let omega := od.1
      let delta := od.2
      let c_iq := ofNat 2 * sqrt (team_i.sig2 + team_q.sig2 + (ofNat 2 * (beta * beta)))
                                                        -- c_iq = 2 * math.sqrt(team_i.sigma_squared + team_q.sigma_squared + (2 * beta**2))
      let delta_mu := (team_i.mu - team_q.mu) / c_iq    -- delta_mu = (team_i.mu - team_q.mu) / c_iq
      let sigma_squared_to_c_iq := team_i.sig2 / c_iq   -- sigma_squared_to_c_iq = team_i.sigma_squared / c_iq
      let gamma_value := gammaVal P.gamma c_iq n team_i.mu team_i.sig2 team_i.players team_i.rank
                                                        -- gamma_value = self.gamma(c_iq, len(team_ratings), team_i.mu, team_i.sigma_squared, team_i.team, team_i.rank)
      if team_q.rank > team_i.rank then                 -- if team_q.rank > team_i.rank:
        let omega := omega + sigma_squared_to_c_iq * L.v delta_mu (P.kappa / c_iq)
                                                        -- omega += sigma_squared_to_c_iq * v(delta_mu, self.kappa / c_iq)
        let delta := delta + (gamma_value * sigma_squared_to_c_iq) / c_iq * L.w delta_mu (P.kappa / c_iq)
                                                        -- delta += ((gamma_value * sigma_squared_to_c_iq) / c_iq * w(delta_mu, self.kappa / c_iq))
        (omega, delta)
      else if team_q.rank < team_i.rank then            -- elif team_q.rank < team_i.rank:
        let omega := omega + -sigma_squared_to_c_iq * L.v (-delta_mu) (P.kappa / c_iq)
                                                        -- omega += -sigma_squared_to_c_iq * v(-delta_mu, self.kappa / c_iq)
        let delta := delta + (gamma_value * sigma_squared_to_c_iq) / c_iq * L.w (-delta_mu) (P.kappa / c_iq)
                                                        -- delta += ((gamma_value * sigma_squared_to_c_iq) / c_iq * w(-delta_mu, self.kappa / c_iq))
        (omega, delta)
      else                                              -- else:
        let omega := omega + sigma_squared_to_c_iq * L.vt delta_mu (P.kappa / c_iq)
                                                        -- omega += sigma_squared_to_c_iq * vt(delta_mu, self.kappa / c_iq)
        let delta := delta + (gamma_value * sigma_squared_to_c_iq) / c_iq * L.wt delta_mu (P.kappa / c_iq)
                                                        -- delta += ((gamma_value * sigma_squared_to_c_iq) / c_iq * wt(delta_mu, self.kappa / c_iq))
        (omega, delta))
    od                                                  -- return omega, delta

/-- `ThurstoneMostellerPart._compute`, loop-shaped -/
def computeLoopTMPOn (L : Leaves α) (P : Params α) (_teams : List (List (Rating α)))
    (team_ratings : List (TeamAgg α)) : List (List (Rating α)) :=
  let adjacent_teams := ladderPairsCode team_ratings    -- adjacent_teams = _ladder_pairs(team_ratings)
  let i_map := fun (team_i : TeamAgg α) (adjacent_i : List (TeamAgg α)) =>   -- def i_map(team_i, adjacent_i):
    let od := loopTMPReduce L P team_ratings.length team_i (ofNat 0, ofNat 0) adjacent_i
                                                        -- i_omega, i_delta = od_reduce([0.0, 0.0], adjacent_i)
    let i_omega := od.1
    let i_delta := od.2
    loopPlayers P.kappa team_i team_i.players i_omega i_delta   -- (the player loop; return intermediate_result_per_team)
  (team_ratings.zip adjacent_teams).map (fun i => i_map i.1 i.2)
                                                        -- return list(map(lambda i: i_map(i[0], i[1]), zip(team_ratings, adjacent_teams)))

/-! ### dispatch -/

/-- the body of `model._compute` after its first assignment, for the model of kind `K` -/
def computeLoopOn (K : Kind) (L : Leaves α) (P : Params α) (teams : List (List (Rating α)))
    (team_ratings : List (TeamAgg α)) : List (List (Rating α)) :=
  match K with
  | .PL => computeLoopPLOn L P teams team_ratings
  | .BTF => computeLoopBTFOn L P teams team_ratings
  | .BTP => computeLoopBTPOn L P teams team_ratings
  | .TMF => computeLoopTMFOn L P teams team_ratings
  | .TMP => computeLoopTMPOn L P teams team_ratings

/-- `PlackettLuce._compute(teams, ranks)`, loop-shaped (the dense ranks are already computed) -/
def computeLoopPL (L : Leaves α) (P : Params α) (teams : List (List (Rating α))) (dense : List Nat) :
    List (List (Rating α)) :=
  let team_ratings := teamAggs teams dense              -- team_ratings = self._calculate_team_ratings(teams, ranks=ranks)
  computeLoopPLOn L P teams team_ratings               -- (the rest of the body)

/-- `BradleyTerryFull._compute(teams, ranks)`, loop-shaped (the dense ranks are already computed) -/
def computeLoopBTF (L : Leaves α) (P : Params α) (teams : List (List (Rating α))) (dense : List Nat) :
    List (List (Rating α)) :=
  let team_ratings := teamAggs teams dense              -- team_ratings = self._calculate_team_ratings(teams, ranks=ranks)
  computeLoopBTFOn L P teams team_ratings               -- (the rest of the body)

/-- `BradleyTerryPart._compute(teams, ranks)`, loop-shaped (the dense ranks are already computed) -/
def computeLoopBTP (L : Leaves α) (P : Params α) (teams : List (List (Rating α))) (dense : List Nat) :
    List (List (Rating α)) :=
  let team_ratings := teamAggs teams dense              -- team_ratings = self._calculate_team_ratings(teams, ranks=ranks)
  computeLoopBTPOn L P teams team_ratings               -- (the rest of the body)

/-- `ThurstoneMostellerFull._compute(teams, ranks)`, loop-shaped (the dense ranks are already computed) -/
def computeLoopTMF (L : Leaves α) (P : Params α) (teams : List (List (Rating α))) (dense : List Nat) :
    List (List (Rating α)) :=
  let team_ratings := teamAggs teams dense              -- team_ratings = self._calculate_team_ratings(teams, ranks=ranks)
  computeLoopTMFOn L P teams team_ratings               -- (the rest of the body)

/-- `ThurstoneMostellerPart._compute(teams, ranks)`, loop-shaped (the dense ranks are already computed) -/
def computeLoopTMP (L : Leaves α) (P : Params α) (teams : List (List (Rating α))) (dense : List Nat) :
    List (List (Rating α)) :=
  let team_ratings := teamAggs teams dense              -- team_ratings = self._calculate_team_ratings(teams, ranks=ranks)
  computeLoopTMPOn L P teams team_ratings               -- (the rest of the body)

/-- `model._compute(teams, ranks)` for the model of kind `K`, loop-shaped -/
def computeLoop (K : Kind) (L : Leaves α) (P : Params α) (teams : List (List (Rating α)))
    (dense : List Nat) : List (List (Rating α)) :=
  match K with
  | .PL => computeLoopPL L P teams dense
  | .BTF => computeLoopBTF L P teams dense
  | .BTP => computeLoopBTP L P teams dense
  | .TMF => computeLoopTMF L P teams dense
  | .TMP => computeLoopTMP L P teams dense

/-- `rateCore` (Rate.lean) with `compute` replaced by `computeLoop` -/
def rateCoreLoop {ρ : Type} (K : Kind) (L : Leaves α) (P : Params α) (le : ρ → ρ → Bool)
    (teams : List (List (Rating α))) (ranks : Option (List ρ)) (o : CallOpts α) :
    List (List (Rating α)) :=
  let infl := inflate (resolveTau P o) teams
  let res := match ranks with
    | none => computeLoop K L P infl (List.range infl.length)
    | some r =>
      let u := unwind le r infl
      let dense := denseRanks (fun a b => !le b a) (sortedKeys le r)
      (unwind leNat u.2 (computeLoop K L P u.1 dense)).1
  if resolveLimit P o then clampTeams teams res else res

/-! ## The loops of `rate` and of the helpers `_compute` calls

  `_calculate_team_ratings`, `_calculate_rankings` (the same text in all five files), the tau loop, the
  score negation, the copy into `processed_result`, the `limit_sigma` loop. -/

/-- `functools.reduce(lambda x, y: x + y, xs)` — NO initial value: the fold starts from the first
    element.  (On an empty sequence Python raises `TypeError`; validation rejects empty teams, `ofNat 0`
    stands for that unreachable case.) -/
def reduceAdd : List α → α
  | [] => ofNat 0
  | x :: xs => xs.foldl (fun x y => x + y) x

/-- `_calculate_team_ratings(game, ranks)` after its first statement (`rank = self._calculate_rankings(…)`) -/
def teamRatingsLoop (game : List (List (Rating α))) (rank : List Nat) : List (TeamAgg α) :=
  game.zipIdx.foldl                                     -- for index, team in enumerate(game):
    (fun result ti =>
      let team := ti.1
      let index := ti.2
      let mu_summed := reduceAdd (team.map (fun p => p.mu))
                                                        -- mu_summed = reduce(lambda x, y: x + y, map(lambda p: p.mu, team))
      let sigma_squared := reduceAdd (team.map (fun p => p.sigma * p.sigma))
                                                        -- sigma_squared = reduce(lambda x, y: x + y, map(lambda p: p.sigma**2, team))
      result ++ [{ mu := mu_summed, sig2 := sigma_squared, players := team, rank := rank.getD index 0 }])
                                                        -- result.append(…TeamRating(mu_summed, sigma_squared, team, rank[index]))
    []                                                  -- result = []

/-- Python `d[k] = v` on a dict represented by its items in insertion order -/
def dictSet {β : Type} : List (Nat × β) → Nat → β → List (Nat × β)
  | [], k, v => [(k, v)]
  | (k', v') :: rest, k, v =>
    if k' = k then (k', v) :: rest else (k', v') :: dictSet rest k v

/-- the second half of `_calculate_rankings`: from `team_scores` to `list(rank_output.values())`.
    The reads `team_scores[index - 1]`, `team_scores[index]` are `[·]?`; both are in range whenever the
    guard `index > 0` holds. -/
def rankOutputLoop {ρ : Type} (lt : ρ → ρ → Bool) (team_scores : List ρ) : List Nat :=
  let rank_output : List (Nat × Nat) := []              -- rank_output = {}
  let s : Nat := 0                                      -- s = 0
  let st := team_scores.zipIdx.foldl                    -- for index, value in enumerate(team_scores):
    (fun (st : Nat × List (Nat × Nat)) vi =>
      let s := st.1
      let rank_output := st.2
      let index := vi.2
      let s :=
        if index > 0 then                               -- if index > 0:
          match team_scores[index - 1]?, team_scores[index]? with
          | some a, some b => if lt a b then index else s   -- if team_scores[index - 1] < team_scores[index]: s = index
          | _, _ => s
        else s
      (s, dictSet rank_output index s))                 -- rank_output[index] = s
    (s, rank_output)
  st.2.map (·.2)                                        -- return list(rank_output.values())

/-- `_calculate_rankings(game, ranks)` with `ranks` truthy -/
def rankingsLoopRanks {ρ γ : Type} (lt : ρ → ρ → Bool) (game : List γ) (ranks : List ρ) : List Nat :=
  let team_scores : List ρ := game.zipIdx.foldl         -- team_scores = [] ; for index, _ in enumerate(game):
    (fun team_scores gi =>
      let index := gi.2
      team_scores ++ (ranks[index]?).toList)            -- team_scores.append(ranks[index])
    []
  rankOutputLoop lt team_scores

/-- `_calculate_rankings(game)` (no ranks): the scores are the positions, compared as `int`s -/
def rankingsLoopNone {γ : Type} (game : List γ) : List Nat :=
  let team_scores : List Nat := game.zipIdx.map (fun gi => gi.2)   -- team_scores = [i for i, _ in enumerate(game)]
  rankOutputLoop (fun a b => decide (a < b)) team_scores

/-- `_calculate_team_ratings(game, ranks)`, literally: `ranks = none` is "ranks falsy" -/
def teamRatingsCode {ρ : Type} (lt : ρ → ρ → Bool) (game : List (List (Rating α)))
    (ranks : Option (List ρ)) : List (TeamAgg α) :=
  let rank := match ranks with
    | some ranks => rankingsLoopRanks lt game ranks     -- if ranks: rank = self._calculate_rankings(game, ranks)
    | none => rankingsLoopNone game                     -- else: rank = self._calculate_rankings(game)
  teamRatingsLoop game rank

/-- `model._compute(teams, ranks)`, everything literal: `_calculate_team_ratings`,
    `_calculate_rankings`, the loops of the body, and for Plackett–Luce `_c` and `_sum_q` -/
def computeCode {ρ : Type} (K : Kind) (L : Leaves α) (P : Params α) (lt : ρ → ρ → Bool)
    (teams : List (List (Rating α))) (ranks : Option (List ρ)) : List (List (Rating α)) :=
  let team_ratings := teamRatingsCode lt teams ranks    -- team_ratings = self._calculate_team_ratings(teams, ranks=ranks)
  match K with
  | .PL => computeLoopPLCodeOn L P teams team_ratings
  | K => computeLoopOn K L P teams team_ratings

/-- the tau loop of `rate`.  The Python loop writes `teams[team_index][player_index].sigma` in place
    while it enumerates `teams`; slot `(i, j)` is written exactly once, at iteration `(i, j)`, from the
    value the loop variable `player` had before. -/
def inflateLoop (tau : α) (teams : List (List (Rating α))) : List (List (Rating α)) :=
  let tau_squared := tau * tau                          -- tau_squared = tau * tau
  teams.zipIdx.foldl                                    -- for team_index, team in enumerate(teams):
    (fun teams tt =>
      let team := tt.1
      let team_index := tt.2
      team.zipIdx.foldl                                 -- for player_index, player in enumerate(team):
        (fun teams pp =>
          let player := pp.1
          let player_index := pp.2
          teams.modify team_index (fun row => row.modify player_index (fun obj =>
            { obj with sigma := sqrt (player.sigma * player.sigma + tau_squared) })))
                                                        -- teams[team_index][player_index].sigma = math.sqrt(player.sigma * player.sigma + tau_squared)
        teams)
    teams

/-- `ranks = []; for score in scores: ranks.append(_unary_minus(score))` -/
def negateLoop {ρ : Type} (neg : ρ → ρ) (scores : List ρ) : List ρ :=
  scores.foldl (fun ranks score => ranks ++ [neg score]) []

/-- `for item in result: team = []; for player in item: team.append(player); processed_result.append(team)` -/
def copyLoop {β : Type} (result : List (List β)) : List (List β) :=
  result.foldl                                          -- for item in result:
    (fun processed_result item =>
      let team := item.foldl (fun team player => team ++ [player]) []   -- team = [] ; for player in item: team.append(player)
      processed_result ++ [team])                       -- processed_result.append(team)
    []                                                  -- processed_result = []

/-- the `limit_sigma` loop of `rate` -/
def clampLoop (original_teams processed_result : List (List (Rating α))) : List (List (Rating α)) :=
  processed_result.zipIdx.foldl                         -- for team_index, team in enumerate(processed_result):
    (fun final_result tt =>
      let team := tt.1
      let team_index := tt.2
      let final_team := team.zipIdx.foldl               -- final_team = [] ; for player_index, player in enumerate(team):
        (fun final_team pp =>
          let player := pp.1
          let player_index := pp.2
          let player_original := (original_teams.getD team_index []).getD player_index Rating.dflt
                                                        -- player_original = original_teams[team_index][player_index]
          let player :=
            if player.sigma ≤ player_original.sigma then    -- if player.sigma <= player_original.sigma:
              { player with sigma := player.sigma }         -- player.sigma = player.sigma
            else                                            -- else:
              { player with sigma := player_original.sigma }   -- player.sigma = player_original.sigma
          final_team ++ [player])                       -- final_team.append(player)
        []
      final_result ++ [final_team])                     -- final_result.append(final_team)
    []                                                  -- final_result = []

/-- `rate(teams, ranks, scores, tau, limit_sigma)` after validation, every loop literal.  The three
    library calls that are not loops of this function stay calls: `_unwind` (`unwind`), `sorted`
    (`sortedKeys`), `copy.deepcopy` (values are immutable here).  `lt a b` is Python's `a < b` on rank
    values; in `rateCore` it is `!le b a`. -/
def rateLoop {ρ : Type} (K : Kind) (L : Leaves α) (P : Params α) (le : ρ → ρ → Bool) (neg : ρ → ρ)
    (teams : List (List (Rating α))) (oc : Outcome ρ) (o : CallOpts α) : List (List (Rating α)) :=
  let lt : ρ → ρ → Bool := fun a b => !le b a
  let original_teams := teams                           -- original_teams = copy.deepcopy(teams)
  let tau := resolveTau P o                             -- tau = tau if tau is not None else self.tau
  let teams := inflateLoop tau teams                    -- tau_squared = tau * tau ; for … (the tau loop)
  let ranks : Option (List ρ) := match oc with
    | .omitted => none
    | .ranks r => some r
    | .scores s => some (negateLoop neg s)              -- if not ranks and scores: ranks = [] ; for score in scores: …
  let processed_result := match ranks with
    | some ranks =>                                     -- if ranks:
      let rank_teams_unwound := unwind le ranks teams   -- rank_teams_unwound = _unwind(ranks, teams)
      let ordered_teams := rank_teams_unwound.1         -- ordered_teams = rank_teams_unwound[0]
      let tenet := rank_teams_unwound.2                 -- tenet = rank_teams_unwound[1]
      let teams := ordered_teams                        -- teams = ordered_teams
      let ranks := sortedKeys le ranks                  -- ranks = sorted(ranks)
      let result := computeCode K L P lt teams (some ranks)   -- if ranks and tenet: result = self._compute(teams, ranks)
      let unwound_result := (unwind leNat tenet result).1     -- unwound_result = _unwind(tenet, result)[0]
      copyLoop unwound_result                           -- for item in unwound_result: …
    | none =>                                           -- else:
      let result := computeCode K L P lt teams none     -- result = self._compute(teams)
      copyLoop result                                   -- for item in result: …
  let final_result := processed_result                  -- final_result = processed_result
  let limit_sigma := resolveLimit P o                   -- if limit_sigma is None: limit_sigma = self.limit_sigma
  if limit_sigma then                                   -- if limit_sigma:
    clampLoop original_teams processed_result           -- final_result = [] ; for … (the limit_sigma loop)
  else final_result                                     -- return final_result

end OS
