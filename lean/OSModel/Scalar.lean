/-
  Scalar: the arithmetic interface the openskill.py Weng-Lin code uses.
  One definition of every model function, two instantiations:
  `Float` (executed by the driver) and `ℝ` (what the theorems are about).
  No Mathlib import anywhere under OSModel.
-/
namespace OS

class Scalar (α : Type) extends Add α, Sub α, Mul α, Div α, Neg α, LT α, LE α where
  ofNat : Nat → α
  sqrt : α → α
  exp : α → α
  Phi : α → α
  phi : α → α
  PhiInv : α → α
  decLt : (a b : α) → Decidable (a < b)
  decLe : (a b : α) → Decidable (a ≤ b)

instance {α : Type} [Scalar α] (a b : α) : Decidable (a < b) := Scalar.decLt a b
instance {α : Type} [Scalar α] (a b : α) : Decidable (a ≤ b) := Scalar.decLe a b

section
variable {α : Type} [Scalar α]
open Scalar

/-- Python `acc = 0.0; for x in l: acc += x` -/
def sumL (l : List α) : α := l.foldl (· + ·) (ofNat 0)

/-- Python `max(a, b)` (returns `a` unless `b` is strictly larger) -/
def smax (a b : α) : α := if a < b then b else a

/-- Python `abs(a)` -/
def sabs (a : α) : α := if a < ofNat 0 then -a else a

/-- `sys.float_info.epsilon` = 2^-52 -/
def epsF : α := ofNat 1 / ofNat 4503599627370496

/-- the literal `1e-5` -/
def tiny5 : α := ofNat 1 / ofNat 100000

end
end OS
