import OSProofs.C08MagLemmasB
/-!
# C08Mag — magnitudes: on the supported numeric range every intermediate quantity of `rate` and of
the predictions is far inside the range of IEEE doubles

`C08b` proves over ℝ that no divisor is zero, no root argument negative and no `exp` argument
above 453.  This file adds explicit MAGNITUDE bounds, relative to β, for the same model terms, so
that (i) nothing can overflow (1.8e308) and (ii) the positive quantities that are divided by or
multiplied further cannot underflow (4.9e-324): inside that range IEEE arithmetic agrees with real
arithmetic up to relative error 2⁻⁵³ per operation.

The domain is `Mag.Domain β κ τ lo teams` (file `C08MagLemmas`): `β > 0`, `0 < κ ≤ 1/100`,
`0 ≤ τ ≤ 10β`, 2..8 teams of 1..16 players, `|mu| ≤ 20β`, `0 ≤ sigma ≤ 10β`, and a floor `lo > 0`
with `lo ≤ sigma ∨ lo ≤ τ` for every player (`lo = 1e-4·β` when all sigmas are at least `1e-4·β`;
`lo = min(1e-4·β, τ)` when `sigma = 0` is admitted together with `τ > 0`).  It implies
`Grd.Domain` (`C08_mag_domain_implies_guard_domain`); what `_compute` receives is
`Mag.Inflated β lo` (`lo ≤ σ̂`, `σ̂² ≤ 200β²`), whose aggregates satisfy `Mag.AggBounds β lo`
(`|θ_i| ≤ 320β`, `lo² ≤ σ_i² ≤ 3200β²`).  All constants are explicit numerals times a power of β
(and `lo`, `κ` where they enter); `C08_no_overflow_corollary` evaluates them for
`β ∈ [4e-3, 4e3]`, `lo = 1e-4·β`, `κ ∈ [1e-200, 1e-2]`.

Gamma is the library default `√σ_i²/c` (in `[lo/c, 1]`); the bounds on `Ω_i` hold for every gamma
(gamma only enters `Δ_i`).  The Thurstone–Mosteller statements are for any leaves satisfying
`Mag.LeafBounds` (`|v| ≤ |x|+|t|+1`, `w, wt ∈ [0,1]`, `|vt| ≤ |x|+t`), proved for the code's
leaves (`C08_leafBounds_code`).

What is NOT bounded below on the domain (reported, benign): see the end of this file.
-/
noncomputable section
namespace OS
open Gauss

/-! ## the domain -/

/-- the magnitude domain implies the guard domain of `C08b` -/
theorem C08_mag_domain_implies_guard_domain {β κ τ lo : ℝ} {teams : List (List (Rating ℝ))}
    (D : Mag.Domain β κ τ lo teams) : Grd.Domain β κ τ teams := mag_domain_toGrd D

/-- what `_compute` receives: the inflated game has `lo ≤ σ̂`, `σ̂² ≤ 200β²`, and so has the game
sorted by rank -/
theorem C08_mag_inflated {ρ : Type} {β κ τ lo : ℝ} {teams : List (List (Rating ℝ))}
    (D : Mag.Domain β κ τ lo teams) :
    Mag.Inflated β lo (inflate τ teams)
    ∧ ∀ (le : ρ → ρ → Bool) (r : List ρ), r.length = teams.length →
        Mag.Inflated β lo (unwind le r (inflate τ teams)).1 := by
  have I := mag_inflate_domain D
  refine ⟨I, fun le r hr => mag_unwind_inflated I le r ?_⟩
  rw [hr]; simp [inflate]

/-- **team aggregates of an inflated game**: `|θ_i| ≤ 320β`, `lo² ≤ σ_i² ≤ 3200β²`, and for every
member `|mu| ≤ 20β`, `lo ≤ σ̂`, `σ̂² ≤ 200β²`, `σ̂² ≤ σ_i²` -/
theorem C08_magnitudes_aggregates {β lo : ℝ} {teams : List (List (Rating ℝ))}
    (I : Mag.Inflated β lo teams) (dense : List Nat) (hd : dense.length = teams.length) :
    Mag.AggBounds β lo (teamAggs teams dense) := mag_aggBounds I dense hd

/-- the code's `v, w, vt, wt` satisfy the leaf bounds (`v`: Sampford's inequality) -/
theorem C08_leafBounds_code : Mag.LeafBounds (codeLeaves : Leaves ℝ) := mag_leafBounds_code

/-! ## Bradley–Terry -/

namespace Mag

/-- all bounds for `_compute` of a Bradley–Terry model (`K = BTF` or `BTP`) on the aggregates `ts` -/
structure RateBoundsBT (K : Kind) (L : Leaves ℝ) (P : Params ℝ) (β lo : ℝ)
    (ts : List (TeamAgg ℝ)) : Prop where
  /-- `|θ_i| ≤ 320β`, `lo² ≤ σ_i² ≤ 3200β²`, … -/
  agg : AggBounds β lo ts
  /-- per ordered pair: `√2β ≤ c_iq ≤ 81β`, `|arg| ≤ 453`, `e^{-453} ≤ exp ≤ e^{453}`,
  `p_iq, 1−p_iq ∈ [e^{-453}/2, 1]`, `σ_i²/c_iq ∈ [lo²/(81β), 81β]`, `γ ∈ [lo/(81β), 1]`,
  `|ω_iq| ≤ 81β`, `δ_iq ∈ [lo³/(81β)³·e^{-453}/4, 1/4]` -/
  pair : ∀ ti ∈ ts, ∀ tq ∈ ts, BTPairBounds β lo ts.length ti tq
  omega_abs : ∀ od ∈ omegaDelta K L P ts, |od.1| ≤ 648 * β
  delta_nonneg : ∀ od ∈ omegaDelta K L P ts, 0 ≤ od.2
  delta_le : ∀ od ∈ omegaDelta K L P ts, od.2 ≤ 2
  /-- the update of every player by every `(Ω, Δ)` of the list (in particular its own team's) -/
  update : ∀ t ∈ ts, ∀ od ∈ omegaDelta K L P ts, ∀ p ∈ t.players,
    PlayerUpdateBounds β lo P.kappa (648 * β) 2 t p od.1 od.2

end Mag

/-- **Magnitudes, Bradley–Terry (full and partial pairing), default gamma.**  For the aggregates of
an inflated game in the domain every intermediate quantity of `_compute` is bounded as listed in
`Mag.RateBoundsBT` (`|Ω_i| ≤ 648β`, `0 ≤ Δ_i ≤ 2`, `|μ'| ≤ 668β`, `√κ·σ̂ ≤ σ' ≤ σ̂`). -/
theorem C08_magnitudes_rate_BT {β lo : ℝ} (K : Kind) (hK : K = .BTF ∨ K = .BTP) (L : Leaves ℝ)
    (P : Params ℝ) (hP : P.beta = β) (hg : P.gamma = .dflt) (hκ0 : 0 < P.kappa) (hκ1 : P.kappa ≤ 1)
    (teams : List (List (Rating ℝ))) (I : Mag.Inflated β lo teams)
    (dense : List Nat) (hd : dense.length = teams.length) :
    Mag.RateBoundsBT K L P β lo (teamAggs teams dense) := by
  have A := mag_aggBounds I dense hd
  have H := mag_omegaDelta_BT K hK L P hP hg A
  exact ⟨A, fun ti hi tq hq => mag_btPair_bounds A _ hi hq, fun od h => (H od h).1,
    fun od h => (H od h).2.1, fun od h => (H od h).2.2,
    fun t ht od h p hp => mag_player_update A hκ0 hκ1 (H od h).1 (H od h).2.1 (H od h).2.2 ht hp⟩

/-! ## Plackett–Luce -/

namespace Mag

/-- all bounds for `_compute` of the Plackett–Luce model on the aggregates `ts` -/
structure RateBoundsPL (L : Leaves ℝ) (P : Params ℝ) (β lo : ℝ) (ts : List (TeamAgg ℝ)) : Prop where
  agg : AggBounds β lo ts
  /-- `√2·β ≤ c ≤ 161β` -/
  c_ge : Real.sqrt 2 * β ≤ plC β ts
  c_le : plC β ts ≤ 161 * β
  /-- every `exp` argument `θ_i / c` is at most 227 in absolute value, so `e^{-227} ≤ exp ≤ e^{227}` -/
  exp_arg : ∀ t ∈ ts, |t.mu / plC β ts| ≤ 227
  exp_ge : ∀ t ∈ ts, Real.exp (-227) ≤ Real.exp (t.mu / plC β ts)
  exp_le : ∀ t ∈ ts, Real.exp (t.mu / plC β ts) ≤ Real.exp 227
  /-- every entry of `sum_q` lies in `[e^{-227}, 8·e^{227}]` -/
  sumq_ge : ∀ s ∈ plSumQ ts (plC β ts), Real.exp (-227) ≤ s
  sumq_le : ∀ s ∈ plSumQ ts (plC β ts), s ≤ 8 * Real.exp 227
  /-- every entry of `A` lies in `[1, 8]` -/
  a_ge : ∀ a ∈ plA ts, 1 ≤ a
  a_le : ∀ a ∈ plA ts, a ≤ 8
  /-- `p_iq = e_i / sum_q[q] ∈ [e^{-454}/8, 1]` for the `q` the loop of team `i` visits -/
  p_ge : ∀ ti ∈ ts, ∀ tq ∈ ts, tq.rank ≤ ti.rank → Real.exp (-454) / 8 ≤
    Real.exp (ti.mu / plC β ts) / sumL ((ts.filter (fun tj => decide (tq.rank ≤ tj.rank))).map
      (fun tj => Scalar.exp (tj.mu / plC β ts)))
  p_le : ∀ ti ∈ ts, ∀ tq ∈ ts, tq.rank ≤ ti.rank →
    Real.exp (ti.mu / plC β ts) / sumL ((ts.filter (fun tj => decide (tq.rank ≤ tj.rank))).map
      (fun tj => Scalar.exp (tj.mu / plC β ts))) ≤ 1
  /-- `σ_i²/c ∈ [lo²/(161β), 161β]`, `σ_i²/c² ∈ [lo²/(161β)², 1]`, `γ_i ∈ [lo/(161β), 1]` -/
  s2c_ge : ∀ ti ∈ ts, lo * lo / (161 * β) ≤ ti.sig2 / plC β ts
  s2c_le : ∀ ti ∈ ts, ti.sig2 / plC β ts ≤ 161 * β
  s2cc_ge : ∀ ti ∈ ts, lo * lo / (161 * β) / (161 * β) ≤ ti.sig2 / (plC β ts * plC β ts)
  s2cc_le : ∀ ti ∈ ts, ti.sig2 / (plC β ts * plC β ts) ≤ 1
  gamma_ge : ∀ ti ∈ ts,
    lo / (161 * β) ≤ gammaVal .dflt (plC β ts) ts.length ti.mu ti.sig2 ti.players ti.rank
  gamma_le : ∀ ti ∈ ts, gammaVal .dflt (plC β ts) ts.length ti.mu ti.sig2 ti.players ti.rank ≤ 1
  omega_abs : ∀ od ∈ omegaDelta .PL L P ts, |od.1| ≤ 1288 * β
  delta_nonneg : ∀ od ∈ omegaDelta .PL L P ts, 0 ≤ od.2
  delta_le : ∀ od ∈ omegaDelta .PL L P ts, od.2 ≤ 2
  update : ∀ t ∈ ts, ∀ od ∈ omegaDelta .PL L P ts, ∀ p ∈ t.players,
    PlayerUpdateBounds β lo P.kappa (1288 * β) 2 t p od.1 od.2

end Mag

/-- **Magnitudes, Plackett–Luce, default gamma.**  For the aggregates of an inflated game in the
domain every intermediate quantity of `_compute` is bounded as listed in `Mag.RateBoundsPL`
(`|Ω_i| ≤ 1288β`, `0 ≤ Δ_i ≤ 2`, `|μ'| ≤ 1308β`, `√κ·σ̂ ≤ σ' ≤ σ̂`).  The same bounds on `c`, the
`exp` arguments and values, `sum_q` and `A` hold for the computations the two full-pairing models
evaluate and discard (`C08c`). -/
theorem C08_magnitudes_rate_PL {β lo : ℝ} (L : Leaves ℝ)
    (P : Params ℝ) (hP : P.beta = β) (hg : P.gamma = .dflt) (hκ0 : 0 < P.kappa) (hκ1 : P.kappa ≤ 1)
    (teams : List (List (Rating ℝ))) (I : Mag.Inflated β lo teams)
    (dense : List Nat) (hd : dense.length = teams.length) :
    Mag.RateBoundsPL L P β lo (teamAggs teams dense) := by
  have A := mag_aggBounds I dense hd
  have H := mag_omegaDelta_PL L P hP hg A
  obtain ⟨hc1, hc2, _, _⟩ := mag_plC_bounds A
  have harg : ∀ t ∈ teamAggs teams dense, |t.mu / plC β (teamAggs teams dense)| ≤ 227 :=
    fun t ht => mag_pl_exp_arg_bound β _ _ A.beta_pos (A.mu t ht) hc1
  refine ⟨A, hc1, hc2, harg, fun t ht => (mag_exp_bounds (harg t ht)).1,
    fun t ht => (mag_exp_bounds (harg t ht)).2, ?_, ?_, ?_, ?_,
    fun ti hi tq hq hr => (mag_pl_p_bounds A _ harg ti tq hi hq hr).1,
    fun ti hi tq hq hr => (mag_pl_p_bounds A _ harg ti tq hi hq hr).2,
    fun ti hi => (mag_pl_team_factors A hi).1.1, fun ti hi => (mag_pl_team_factors A hi).1.2,
    fun ti hi => (mag_pl_team_factors A hi).2.1.1, fun ti hi => (mag_pl_team_factors A hi).2.1.2,
    fun ti hi => (mag_pl_team_factors A hi).2.2.1, fun ti hi => (mag_pl_team_factors A hi).2.2.2,
    fun od h => (H od h).1, fun od h => (H od h).2.1, fun od h => (H od h).2.2,
    fun t ht od h p hp => mag_player_update A hκ0 hκ1 (H od h).1 (H od h).2.1 (H od h).2.2 ht hp⟩
  · intro s hs
    unfold plSumQ at hs
    obtain ⟨tq, htq, rfl⟩ := List.mem_map.mp hs
    exact (mag_plSumQ_bounds A _ harg tq htq).1
  · intro s hs
    unfold plSumQ at hs
    obtain ⟨tq, htq, rfl⟩ := List.mem_map.mp hs
    exact (mag_plSumQ_bounds A _ harg tq htq).2
  · intro a ha
    unfold plA at ha
    obtain ⟨ti, hti, rfl⟩ := List.mem_map.mp ha
    exact (mag_plA_bounds A ti hti).1
  · intro a ha
    unfold plA at ha
    obtain ⟨ti, hti, rfl⟩ := List.mem_map.mp ha
    exact (mag_plA_bounds A ti hti).2

/-! ## Thurstone–Mosteller -/

namespace Mag

/-- all bounds for `_compute` of a Thurstone–Mosteller model (`K = TMF`, `cmul = 1`, or `K = TMP`,
`cmul = 2`) on the aggregates `ts` -/
structure RateBoundsTM (K : Kind) (cmul : ℝ) (L : Leaves ℝ) (P : Params ℝ) (β lo : ℝ)
    (ts : List (TeamAgg ℝ)) : Prop where
  agg : AggBounds β lo ts
  /-- per ordered pair, with `c = cmul·c_iq`: `√2β ≤ c ≤ 162β`, `|x| = |(θ_i−θ_q)/c| ≤ 453`,
  `κ/(162β) ≤ t = κ/c ≤ κ/β`, `σ_i²/c ∈ [lo²/(162β), 81β]`, `γ ∈ [lo/(162β), 1]`,
  `|ω_iq| ≤ 36774β + κ`, `δ_iq ∈ [0, 1]` -/
  pair : ∀ ti ∈ ts, ∀ tq ∈ ts, TMPairBounds L β lo P.kappa cmul ts.length ti tq
  omega_abs : ∀ od ∈ omegaDelta K L P ts, |od.1| ≤ 294192 * β + 8 * P.kappa
  delta_nonneg : ∀ od ∈ omegaDelta K L P ts, 0 ≤ od.2
  delta_le : ∀ od ∈ omegaDelta K L P ts, od.2 ≤ 8
  update : ∀ t ∈ ts, ∀ od ∈ omegaDelta K L P ts, ∀ p ∈ t.players,
    PlayerUpdateBounds β lo P.kappa (294192 * β + 8 * P.kappa) 8 t p od.1 od.2

end Mag

/-- **Magnitudes, Thurstone–Mosteller (full and partial pairing), default gamma**, for leaves
satisfying `Mag.LeafBounds` (the code's do: `C08_leafBounds_code`).  For the aggregates of an inflated
game in the domain every intermediate quantity of `_compute` outside the leaves is bounded as listed
in `Mag.RateBoundsTM` (`|Ω_i| ≤ 294192β + 8κ`, `0 ≤ Δ_i ≤ 8`, `|μ'| ≤ 294212β + 8κ`,
`√κ·σ̂ ≤ σ' ≤ σ̂`). -/
theorem C08_magnitudes_rate_TM {β lo : ℝ} (K : Kind) (cmul : ℝ)
    (hK : (K = .TMF ∧ cmul = 1) ∨ (K = .TMP ∧ cmul = 2)) (L : Leaves ℝ) (LB : Mag.LeafBounds L)
    (P : Params ℝ) (hP : P.beta = β) (hg : P.gamma = .dflt) (hκ0 : 0 < P.kappa) (hκ1 : P.kappa ≤ 1)
    (teams : List (List (Rating ℝ))) (I : Mag.Inflated β lo teams)
    (dense : List Nat) (hd : dense.length = teams.length) :
    Mag.RateBoundsTM K cmul L P β lo (teamAggs teams dense) := by
  have A := mag_aggBounds I dense hd
  have hK' : K = .TMF ∨ K = .TMP := by rcases hK with h | h; exact Or.inl h.1; exact Or.inr h.1
  have hc : 1 ≤ cmul ∧ cmul ≤ 2 := by rcases hK with h | h <;> rw [h.2] <;> norm_num
  have H := mag_omegaDelta_TM K hK' L LB P hP hg hκ0 A
  exact ⟨A, fun ti hi tq hq => mag_tmPair_bounds LB A hκ0 hc.1 hc.2 _ hi hq, fun od h => (H od h).1,
    fun od h => (H od h).2.1, fun od h => (H od h).2.2,
    fun t ht od h p hp => mag_player_update A hκ0 hκ1 (H od h).1 (H od h).2.1 (H od h).2.2 ht hp⟩

/-! ## `rate`, end to end -/

/-- **Magnitudes of `rate`** (`rateCore`: any of the five models, default gamma, per-call tau /
limit_sigma, ranks omitted or as many ranks as teams; scores reach `rateCore` as ranks).  For a
game in `Mag.Domain`, with `τ` the resolved tau:

1. both argument lists that `rateCore` can pass to `_compute` (the inflated teams with ranks
   `0..n−1`; the inflated teams sorted by rank with their dense ranks) have aggregates satisfying
   `Mag.AggBounds` — so `C08_magnitudes_rate_BT / _PL / _TM` apply to exactly the lists computed on;
2. every returned rating has `|μ'| ≤ 20β + W` with `W = Mag.W K β κ` (`648β` Bradley–Terry, `1288β`
   Plackett–Luce, `294192β + 8κ` Thurstone–Mosteller), `0 ≤ σ'`, `σ'² ≤ 200β²`, and `√κ·lo ≤ σ'` —
   unless limit_sigma replaced `σ'` by the (smaller) unchanged input sigma, which is a copy. -/
theorem C08_magnitudes_rate {ρ : Type} (K : Kind) (L : Leaves ℝ)
    (LB : K = .TMF ∨ K = .TMP → Mag.LeafBounds L) (P : Params ℝ) (le : ρ → ρ → Bool)
    (teams : List (List (Rating ℝ))) (ranks : Option (List ρ)) (o : CallOpts ℝ) {lo : ℝ}
    (D : Mag.Domain P.beta P.kappa (resolveTau P o) lo teams) (hg : P.gamma = .dflt)
    (hr : ∀ r, ranks = some r → r.length = teams.length) :
    Mag.AggBounds P.beta lo (teamAggs (inflate (resolveTau P o) teams)
        (List.range (inflate (resolveTau P o) teams).length))
    ∧ (∀ r : List ρ, r.length = teams.length →
        Mag.AggBounds P.beta lo (teamAggs (unwind le r (inflate (resolveTau P o) teams)).1
          (denseRanks (fun a b => !le b a) (sortedKeys le r))))
    ∧ ∀ T ∈ rateCore K L P le teams ranks o, ∀ p' ∈ T,
        Mag.RateOutOK P.beta lo P.kappa (Mag.W K P.beta P.kappa) teams p' := by
  have I := mag_inflate_domain D
  have hlen : (inflate (resolveTau P o) teams).length = teams.length := by simp [inflate]
  refine ⟨mag_aggBounds I _ (by simp), ?_, ?_⟩
  · intro r hr'
    have h := hr'.trans hlen.symm
    apply mag_aggBounds (mag_unwind_inflated I le r h)
    rw [denseRanks_length, sortedKeys_length, unwind_fst_length, h, Nat.min_self]
  · exact mag_rateCore_out K L P le teams ranks o D
      (mag_odBounds K L LB P rfl hg D.kappa_pos) hr

/-- the three entry points of `rate` (ranks omitted / ranks / scores) -/
theorem C08_magnitudes_rate_entry {ρ : Type} (K : Kind) (L : Leaves ℝ)
    (LB : K = .TMF ∨ K = .TMP → Mag.LeafBounds L) (P : Params ℝ) (le : ρ → ρ → Bool) (neg : ρ → ρ)
    (teams : List (List (Rating ℝ))) (oc : Outcome ρ) (o : CallOpts ℝ) {lo : ℝ}
    (D : Mag.Domain P.beta P.kappa (resolveTau P o) lo teams) (hg : P.gamma = .dflt)
    (hr : ∀ r, (oc = .ranks r ∨ oc = .scores r) → r.length = teams.length) :
    ∀ T ∈ rate K L P le neg teams oc o, ∀ p' ∈ T,
      Mag.RateOutOK P.beta lo P.kappa (Mag.W K P.beta P.kappa) teams p' := by
  cases oc with
  | omitted =>
    exact (C08_magnitudes_rate K L LB P le teams none o D hg (fun r h => by cases h)).2.2
  | ranks r =>
    refine (C08_magnitudes_rate K L LB P le teams (some r) o D hg (fun r' h => ?_)).2.2
    cases h; exact hr r (Or.inl rfl)
  | scores s =>
    refine (C08_magnitudes_rate K L LB P le teams (some (s.map neg)) o D hg (fun r' h => ?_)).2.2
    cases h; rw [List.length_map]; exact hr s (Or.inr rfl)

/-! ## predictions -/

namespace Mag

/-- all bounds for `predict_win`, `predict_draw`, `predict_rank` on `teams` (`n` teams, `N` players,
`m` the draw margin) -/
structure PredictBounds (β : ℝ) (teams : List (List (Rating ℝ))) : Prop where
  n_ge : 2 ≤ teams.length
  n_le : teams.length ≤ 8
  N_ge : 2 ≤ playerCount teams
  N_le : playerCount teams ≤ 128
  /-- aggregates (no inflation): `|θ| ≤ 320β`, `0 ≤ σ² ≤ 1600β²` -/
  agg : ∀ a ∈ aggs teams, |a.mu| ≤ 320 * β ∧ 0 ≤ a.sig2 ∧ a.sig2 ≤ 1600 * (β * β)
  /-- pair denominators with `nb = n`: `√2β ≤ d ≤ 58β`, `√n·β ≤ d` -/
  denom_n : ∀ a ∈ aggs teams, ∀ b ∈ aggs teams,
    Real.sqrt 2 * β ≤ pairDenom teams.length β a b ∧ pairDenom teams.length β a b ≤ 58 * β
    ∧ Real.sqrt teams.length * β ≤ pairDenom teams.length β a b
  /-- pair denominators with `nb = N` (two-team branch of `predict_win`) -/
  denom_N : ∀ a ∈ aggs teams, ∀ b ∈ aggs teams,
    Real.sqrt 2 * β ≤ pairDenom (playerCount teams) β a b
    ∧ pairDenom (playerCount teams) β a b ≤ 58 * β
    ∧ Real.sqrt (playerCount teams) * β ≤ pairDenom (playerCount teams) β a b
  /-- the `inv_cdf` argument lies in `(1/2, 3/4]`, its value in `[0, Φ⁻¹(3/4)]`, and `Φ⁻¹(3/4) < 1` -/
  invcdf_arg : 1 / 2 < (1 + 1 / (playerCount teams : ℝ)) / 2
    ∧ (1 + 1 / (playerCount teams : ℝ)) / 2 ≤ 3 / 4
  invcdf_val : 0 ≤ PhiInv ((1 + 1 / (playerCount teams : ℝ)) / 2)
    ∧ PhiInv ((1 + 1 / (playerCount teams : ℝ)) / 2) ≤ PhiInv (3 / 4)
  invcdf_34 : PhiInv (3 / 4) < 1
  /-- the draw margin: `0 ≤ m ≤ √N·β·Φ⁻¹(3/4) ≤ √N·β ≤ 12β`, `m ≤ N·β` -/
  margin_nonneg : 0 ≤ drawMargin β (playerCount teams)
  margin_le : drawMargin β (playerCount teams) ≤ Real.sqrt (playerCount teams) * β * PhiInv (3 / 4)
  margin_le_sqrt : drawMargin β (playerCount teams) ≤ Real.sqrt (playerCount teams) * β
  margin_le_12 : drawMargin β (playerCount teams) ≤ 12 * β
  margin_le_N : drawMargin β (playerCount teams) ≤ playerCount teams * β
  /-- the Φ arguments -/
  win_arg_N : ∀ a ∈ aggs teams, ∀ b ∈ aggs teams,
    |(a.mu - b.mu) / pairDenom (playerCount teams) β a b| ≤ 453
  win_arg_n : ∀ a ∈ aggs teams, ∀ b ∈ aggs teams,
    |(a.mu - b.mu) / pairDenom teams.length β a b| ≤ 453
  draw_arg : ∀ a ∈ aggs teams, ∀ b ∈ aggs teams,
    |(drawMargin β (playerCount teams) - a.mu + b.mu) / pairDenom teams.length β a b| ≤ 462
  rank_arg : ∀ a ∈ aggs teams, ∀ b ∈ aggs teams,
    |(a.mu - b.mu - drawMargin β (playerCount teams)) / pairDenom teams.length β a b| ≤ 462
  /-- the normalising denominators: `1 ≤ n(n−1)/2 ≤ 28`, `1 ≤ (n(n−1) if n > 2 else 1) ≤ 56` -/
  norm_half : 1 ≤ ((teams.length * (teams.length - 1) : ℕ) : ℝ) / 2
    ∧ ((teams.length * (teams.length - 1) : ℕ) : ℝ) / 2 ≤ 28
  norm_full : 1 ≤ (if teams.length > 2 then ((teams.length * (teams.length - 1) : ℕ) : ℝ)
      else ((1 : ℕ) : ℝ))
    ∧ (if teams.length > 2 then ((teams.length * (teams.length - 1) : ℕ) : ℝ) else ((1 : ℕ) : ℝ)) ≤ 56
  /-- the returned numbers -/
  win_out : ∀ p ∈ predictWin β teams, 0 ≤ p ∧ p ≤ 1
  draw_out : 0 ≤ predictDraw β teams ∧ predictDraw β teams ≤ 2
  rank_out : ∀ p ∈ predictRankProbs β teams, 0 ≤ p ∧ p ≤ 1

end Mag

/-- **Magnitudes of the predictions.**  For a game in `Grd.PredictDomain` (β > 0, 2..8 teams of
1..16 players, `|mu| ≤ 20β`, `0 ≤ sigma ≤ 10β`) every intermediate quantity of `predict_win`,
`predict_draw`, `predict_rank` is bounded as listed in `Mag.PredictBounds`.  (The values of Φ lie in
(0,1); Φ is total, so its arguments — at most 462 in absolute value — need no guard.) -/
theorem C08_magnitudes_predict (β : ℝ) (teams : List (List (Rating ℝ)))
    (D : Grd.PredictDomain β teams) : Mag.PredictBounds β teams := by
  have hβ := D.beta_pos
  have hn := D.teams_ge
  have hN2 : 2 ≤ playerCount teams := le_trans hn (grd_playerCount_ge teams D.players_ge)
  have hN128 : playerCount teams ≤ 128 := by
    have h1 := mag_playerCount_le teams 16 D.players_le
    have h2 : teams.length * 16 ≤ 8 * 16 := Nat.mul_le_mul_right 16 D.teams_le
    omega
  have hagg := fun a ha => mag_predict_agg D (a := a) ha
  have hden : ∀ nb : ℕ, 2 ≤ nb → nb ≤ 128 → ∀ a ∈ aggs teams, ∀ b ∈ aggs teams,
      Real.sqrt 2 * β ≤ pairDenom nb β a b ∧ pairDenom nb β a b ≤ 58 * β
      ∧ Real.sqrt nb * β ≤ pairDenom nb β a b :=
    fun nb h2 h128 a ha b hb => mag_pairDenom_bounds nb β a b hβ h2 h128 (hagg a ha).2.1
      (hagg b hb).2.1 (hagg a ha).2.2 (hagg b hb).2.2
  obtain ⟨m1, m2, m3, m4, m5, m6, m7⟩ := mag_drawMargin_bounds β hβ (playerCount teams) hN2 hN128
  have hdiff : ∀ a ∈ aggs teams, ∀ b ∈ aggs teams, |a.mu - b.mu| ≤ 640 * β := by
    intro a ha b hb
    have := abs_sub a.mu b.mu
    have := (hagg a ha).1
    have := (hagg b hb).1
    linarith
  have hn8 : teams.length ≤ 128 := le_trans D.teams_le (by norm_num)
  obtain ⟨k, hk⟩ : ∃ k, teams.length = k + 2 := ⟨teams.length - 2, by omega⟩
  have hk6 : (k : ℝ) ≤ 6 := by
    have : k ≤ 6 := by have := D.teams_le; omega
    exact_mod_cast this
  have hk0 : (0 : ℝ) ≤ k := Nat.cast_nonneg k
  have hprod : ((teams.length * (teams.length - 1) : ℕ) : ℝ) = ((k : ℝ) + 2) * ((k : ℝ) + 1) := by
    rw [hk]; simp only [show k + 2 - 1 = k + 1 by omega]; push_cast; ring
  refine ⟨hn, D.teams_le, hN2, hN128, hagg, hden _ hn hn8, hden _ hN2 hN128, m1, m2,
    mag_PhiInv_three_quarters_lt_one, m3, m4, m5, m6, m7, ?_, ?_, ?_, ?_, ?_, ?_,
    C09_range β teams hn, mag_predictDraw_range β teams hn, mag_predictRankProbs_range β teams hn⟩
  · exact fun a ha b hb => C08_bt_exp_arg_bound β _ _ hβ (hdiff a ha b hb) (hden _ hN2 hN128 a ha b hb).1
  · exact fun a ha b hb => C08_bt_exp_arg_bound β _ _ hβ (hdiff a ha b hb) (hden _ hn hn8 a ha b hb).1
  · intro a ha b hb
    refine mag_predict_arg_bound β _ _ hβ ?_ (hden _ hn hn8 a ha b hb).1
    have h1 := hdiff a ha b hb
    rw [abs_le] at h1 ⊢
    constructor <;> linarith
  · intro a ha b hb
    refine mag_predict_arg_bound β _ _ hβ ?_ (hden _ hn hn8 a ha b hb).1
    have h1 := hdiff a ha b hb
    rw [abs_le] at h1 ⊢
    constructor <;> linarith
  · rw [hprod]; constructor <;> nlinarith
  · split_ifs
    · rw [hprod]; constructor <;> nlinarith
    · norm_num

/-! ## far inside the range of doubles -/

namespace Mag
/-- every constant that appears as an UPPER bound in `RateBoundsBT/PL/TM`, `PlayerUpdateBounds`,
`RateOutOK`, `PredictBounds` is below `10^250`, and every constant that appears as a LOWER bound of a
positive quantity is above `10^-250` -/
structure SafeConstants (β lo κ : ℝ) : Prop where
  -- upper bounds
  up_theta : 320 * β < 10 ^ 250
  up_var : 3200 * (β * β) < 10 ^ 250
  up_sigma_sq : 200 * (β * β) < 10 ^ 250
  up_c_bt : 81 * β < 10 ^ 250
  up_c_pl : 161 * β < 10 ^ 250
  up_c_tm : 162 * β < 10 ^ 250
  up_denom_predict : 58 * β < 10 ^ 250
  up_margin : 128 * β < 10 ^ 250
  up_exp_bt : 2 * Real.exp 453 < 10 ^ 250
  up_exp_pl : 8 * Real.exp 227 < 10 ^ 250
  up_omega_bt : 648 * β < 10 ^ 250
  up_omega_pl : 1288 * β < 10 ^ 250
  up_omega_tm : 294192 * β + 8 * κ < 10 ^ 250
  up_mu_bt : 20 * β + 648 * β < 10 ^ 250
  up_mu_pl : 20 * β + 1288 * β < 10 ^ 250
  up_mu_tm : 20 * β + (294192 * β + 8 * κ) < 10 ^ 250
  up_t_tm : κ / β < 10 ^ 250
  -- lower bounds
  dn_lo : 1 / 10 ^ 250 < lo
  dn_var : 1 / 10 ^ 250 < lo * lo
  dn_c : 1 / 10 ^ 250 < β
  dn_exp_bt : 1 / 10 ^ 250 < Real.exp (-453) / 4
  dn_exp_pl : 1 / 10 ^ 250 < Real.exp (-227)
  dn_p_pl : 1 / 10 ^ 250 < Real.exp (-454) / 8
  dn_s2c_bt : 1 / 10 ^ 250 < lo * lo / (81 * β)
  dn_s2cc_bt : 1 / 10 ^ 250 < lo * lo / (81 * β) / (81 * β)
  dn_gamma_bt : 1 / 10 ^ 250 < lo / (81 * β)
  dn_delta_bt : 1 / 10 ^ 250 <
    lo / (81 * β) * (lo * lo / (81 * β) / (81 * β)) * (Real.exp (-453) / 4)
  dn_s2c_pl : 1 / 10 ^ 250 < lo * lo / (161 * β)
  dn_s2cc_pl : 1 / 10 ^ 250 < lo * lo / (161 * β) / (161 * β)
  dn_gamma_pl : 1 / 10 ^ 250 < lo / (161 * β)
  dn_s2c_tm : 1 / 10 ^ 250 < lo * lo / (162 * β)
  dn_s2cc_tm : 1 / 10 ^ 250 < lo * lo / (162 * β) / (162 * β)
  dn_gamma_tm : 1 / 10 ^ 250 < lo / (162 * β)
  dn_t_tm : 1 / 10 ^ 250 < κ / (162 * β)
  dn_share : 1 / 10 ^ 250 < lo * lo / (3200 * (β * β))
  dn_kappa : 1 / 10 ^ 250 < κ
  dn_root : 1 / 10 ^ 250 < Real.sqrt κ
  dn_sigma : 1 / 10 ^ 250 < Real.sqrt κ * lo
end Mag

theorem mag_ratio_const {β : ℝ} (hβ : 0 < β) (k : ℝ) (hk : 0 < k) :
    β / 10 ^ 4 / (k * β) = 1 / (10 ^ 4 * k) := by
  field_simp

theorem mag_ratio_sq {β : ℝ} (hβ : 0 < β) (k : ℝ) (hk : 0 < k) :
    β / 10 ^ 4 * (β / 10 ^ 4) / (k * β) = β / (10 ^ 8 * k) := by
  field_simp

theorem mag_ratio_sq2 {β : ℝ} (hβ : 0 < β) (k : ℝ) (hk : 0 < k) :
    β / 10 ^ 4 * (β / 10 ^ 4) / (k * β) / (k * β) = 1 / (10 ^ 8 * k * k) := by
  field_simp

/-- **No overflow, no underflow.**  For `β ∈ [4e-3, 4e3]`, the sigma floor `lo = 1e-4·β` and
`κ ∈ [1e-200, 1e-2]`, every constant that bounds a quantity of `rate` or of the predictions from above
is `< 10^250`, and every constant that bounds a positive quantity from below is `> 10^-250` — far
inside the range `[2.2e-308, 1.8e308]` of normal doubles.  (`e^453 < 10^197` is derived from
`e < 2.7182818286`.)  The lower bound on κ is needed because the property's `κ ∈ (0, 1e-2]` has no
positive floor while `t = κ/c`, `√κ` and `σ' ≥ √κ·σ̂` scale with it; every positive double κ ≥ 1e-200
qualifies. -/
theorem C08_no_overflow_corollary {β lo κ : ℝ} (hβ1 : 4 / 1000 ≤ β) (hβ2 : β ≤ 4000)
    (hlo : lo = β / 10 ^ 4) (hκ1 : 1 / 10 ^ 200 ≤ κ) (hκ2 : κ ≤ 1 / 100) :
    Mag.SafeConstants β lo κ := by
  have hβ : 0 < β := lt_of_lt_of_le (by norm_num) hβ1
  have hκ : 0 < κ := lt_of_lt_of_le (by positivity) hκ1
  have hββ : β * β ≤ 16000000 := by nlinarith
  have hββ0 : (16 : ℝ) / 10 ^ 6 ≤ β * β := by nlinarith
  have e453 := mag_exp_453_lt
  have e227 := mag_exp_227_lt
  have n453 : (1 : ℝ) / 10 ^ 197 < Real.exp (-453) := mag_exp_neg_gt e453
  have n227 : (1 : ℝ) / 10 ^ 99 < Real.exp (-227) := mag_exp_neg_gt e227
  have n454 : (1 : ℝ) / 10 ^ 198 < Real.exp (-454) := mag_exp_neg_gt mag_exp_454_lt
  have hroot : (1 : ℝ) / 10 ^ 100 ≤ Real.sqrt κ := by
    rw [Real.le_sqrt' (by positivity)]
    calc ((1 : ℝ) / 10 ^ 100) ^ 2 = 1 / 10 ^ 200 := by norm_num
      _ ≤ κ := hκ1
  subst hlo
  refine
    { up_theta := by linarith, up_var := by linarith, up_sigma_sq := by linarith,
      up_c_bt := by linarith, up_c_pl := by linarith, up_c_tm := by linarith,
      up_denom_predict := by linarith, up_margin := by linarith,
      up_exp_bt := by linarith, up_exp_pl := by linarith,
      up_omega_bt := by linarith, up_omega_pl := by linarith, up_omega_tm := by linarith,
      up_mu_bt := by linarith, up_mu_pl := by linarith, up_mu_tm := by linarith,
      up_t_tm := by rw [div_lt_iff₀ hβ]; linarith,
      dn_lo := by linarith,
      dn_var := ?_, dn_c := by linarith,
      dn_exp_bt := by linarith, dn_exp_pl := by linarith, dn_p_pl := by linarith,
      dn_s2c_bt := ?_, dn_s2cc_bt := ?_, dn_gamma_bt := ?_, dn_delta_bt := ?_,
      dn_s2c_pl := ?_, dn_s2cc_pl := ?_, dn_gamma_pl := ?_,
      dn_s2c_tm := ?_, dn_s2cc_tm := ?_, dn_gamma_tm := ?_, dn_t_tm := ?_,
      dn_share := ?_, dn_kappa := by linarith, dn_root := by linarith, dn_sigma := ?_ }
  · have : β / 10 ^ 4 * (β / 10 ^ 4) = β * β / 10 ^ 8 := by ring
    rw [this]; linarith
  · rw [mag_ratio_sq hβ 81 (by norm_num)]; linarith
  · rw [mag_ratio_sq2 hβ 81 (by norm_num)]; norm_num
  · rw [mag_ratio_const hβ 81 (by norm_num)]; norm_num
  · rw [mag_ratio_const hβ 81 (by norm_num), mag_ratio_sq2 hβ 81 (by norm_num)]; linarith
  · rw [mag_ratio_sq hβ 161 (by norm_num)]; linarith
  · rw [mag_ratio_sq2 hβ 161 (by norm_num)]; norm_num
  · rw [mag_ratio_const hβ 161 (by norm_num)]; norm_num
  · rw [mag_ratio_sq hβ 162 (by norm_num)]; linarith
  · rw [mag_ratio_sq2 hβ 162 (by norm_num)]; norm_num
  · rw [mag_ratio_const hβ 162 (by norm_num)]; norm_num
  · have h1 : (1 : ℝ) / 10 ^ 200 / (162 * 4000) ≤ κ / (162 * β) :=
      mag_div_le_div (by positivity) hκ1 (by positivity) (by linarith)
    have h2 : (1 : ℝ) / 10 ^ 250 < 1 / 10 ^ 200 / (162 * 4000) := by norm_num
    linarith
  · have : β / 10 ^ 4 * (β / 10 ^ 4) / (3200 * (β * β)) = 1 / (10 ^ 8 * 3200) := by field_simp
    rw [this]; norm_num
  · have h1 : (1 : ℝ) / 10 ^ 100 * (4 / 10 ^ 7) ≤ Real.sqrt κ * (β / 10 ^ 4) :=
      mul_le_mul hroot (by linarith) (by positivity) (Real.sqrt_nonneg _)
    have h2 : (1 : ℝ) / 10 ^ 250 < 1 / 10 ^ 100 * (4 / 10 ^ 7) := by norm_num
    linarith


/-- **The numbers `rate` returns neither overflow nor underflow** (all five models, default gamma,
the code's leaves for Thurstone–Mosteller): for `β ∈ [4e-3, 4e3]`, `κ ∈ [1e-200, 1e-2]` and a game in
`Mag.Domain` with floor `lo = 1e-4·β`, every returned rating has `|μ'| < 10^250`, `σ' < 10^250`, and
`σ' > 10^-250` unless limit_sigma copied an input sigma into it. -/
theorem C08_no_overflow_rate {ρ : Type} (K : Kind) (P : Params ℝ) (le : ρ → ρ → Bool) (neg : ρ → ρ)
    (teams : List (List (Rating ℝ))) (oc : Outcome ρ) (o : CallOpts ℝ)
    (hβ1 : 4 / 1000 ≤ P.beta) (hβ2 : P.beta ≤ 4000) (hκ1 : 1 / 10 ^ 200 ≤ P.kappa)
    (D : Mag.Domain P.beta P.kappa (resolveTau P o) (P.beta / 10 ^ 4) teams) (hg : P.gamma = .dflt)
    (hr : ∀ r, (oc = .ranks r ∨ oc = .scores r) → r.length = teams.length) :
    ∀ T ∈ rate K codeLeaves P le neg teams oc o, ∀ p' ∈ T,
      |p'.mu| < 10 ^ 250 ∧ p'.sigma < 10 ^ 250
      ∧ (1 / 10 ^ 250 < p'.sigma ∨ ∃ S ∈ teams, ∃ p ∈ S, p'.sigma = p.sigma) := by
  have S := C08_no_overflow_corollary hβ1 hβ2 rfl hκ1 D.kappa_le
  intro T hT p' hp'
  obtain ⟨h1, h2, h3, h4⟩ := C08_magnitudes_rate_entry K codeLeaves (fun _ => mag_leafBounds_code)
    P le neg teams oc o D hg hr T hT p' hp'
  refine ⟨lt_of_le_of_lt h1 ?_, ?_, ?_⟩
  · cases K
    · exact S.up_mu_pl
    · exact S.up_mu_bt
    · exact S.up_mu_bt
    · exact S.up_mu_tm
    · exact S.up_mu_tm
  · have := S.up_sigma_sq
    by_contra hc
    have hc := not_lt.mp hc
    have : (10 : ℝ) ^ 250 * 10 ^ 250 ≤ p'.sigma * p'.sigma :=
      mul_le_mul hc hc (by positivity) h2
    have : (10 : ℝ) ^ 250 ≤ 10 ^ 250 * 10 ^ 250 := by norm_num
    linarith
  · rcases h4 with h | h
    · exact Or.inl (lt_of_lt_of_le S.dn_sigma h)
    · exact Or.inr h

/-! ## the hypotheses are satisfiable -/

/-- the default configuration (β = 25/6, κ = 1/10000, τ = 1/12) with a two-team game of default
ratings and one player with sigma = 0 lies in the magnitude domain with floor `lo = 1e-4·β` -/
example : Mag.Domain (25 / 6) (1 / 10000) (1 / 12) (25 / 6 / 10 ^ 4)
    [[⟨0, 25, 25 / 3⟩], [⟨1, 25, 25 / 3⟩, ⟨2, 30, 0⟩]] := by
  constructor <;> norm_num

/-- … and the default β, κ satisfy the hypotheses of `C08_no_overflow_corollary` -/
example : Mag.SafeConstants (25 / 6) (25 / 6 / 10 ^ 4) (1 / 10000) :=
  C08_no_overflow_corollary (by norm_num) (by norm_num) rfl (by norm_num) (by norm_num)

example : Grd.PredictDomain (25 / 6) [[⟨0, 25, 25 / 3⟩], [⟨1, 25, 25 / 3⟩, ⟨2, 30, 0⟩]] := by
  constructor <;> norm_num

/-!
## What is NOT bounded below on the domain

* `κ` has no positive floor in the property (`κ ∈ (0, 1e-2]`): `t = κ/c`, `√κ`, and the floor
  `σ' ≥ √κ·σ̂` scale with it.  The corollary assumes `κ ≥ 1e-200`.
* `sigma = 0` together with a tiny `τ > 0`: the floor is then `lo = τ`, and `σ̂² = τ²` is below
  `1e-250` as soon as `τ < 1e-125` (for `τ < 1.5e-162` the double `τ·τ` underflows to 0 and
  a team whose members all have `sigma = 0` gets `σ_i² = 0.0`: `0.0/0.0` in `share` raises
  `ZeroDivisionError`).  Over ℝ the guard `σ_i² > 0` of `C08b` holds; in doubles it needs `τ ≳ 1e-150`.
  The magnitude statements carry `lo` explicitly for this reason.
* inside the Thurstone–Mosteller leaves `φ(x − t)` with `|x − t|` up to 453 + κ/β is as small as
  `e^{-102605}`: it underflows to `0.0` in doubles.  It is only a numerator (`v = φ/Φ` with
  `Φ ≥ 2⁻⁵²` on the dividing branch, `Zc ≥ 1e-5` resp. `2⁻⁵²`), so `v`, `w` round to their limits
  `0`; `w`, `wt`, hence `δ_iq` and `Δ_i`, have no positive lower bound (they may be exactly 0 in the
  code's asymptotic branches as well).  Likewise the values of Φ in the predictions (arguments up to
  462 in absolute value) underflow to 0 for arguments below about −38.5: they are only summed.
* `Ω_i` itself and `s − p_iq` are differences and can be 0 or arbitrarily small: no lower bound is
  claimed for them (nor needed: they are not divisors).
-/

end OS
end
