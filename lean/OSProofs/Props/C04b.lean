import OSProofs.C04Lemmas
import OSProofs.C04SortLemmas
import OSProofs.C04FullLemmas
import OSProofs.C04PlayerLemmas
import OSProofs.Props.C02

/-!
# C04 (game level) — `rate` is equivariant under reordering of teams and of players within a team

Over ℝ (the statements of group 2 are generic in the scalar type: they never look at a number).

1. **Teams in a different order**, Plackett–Luce and the two full-pairing models: permuting the list
   of team aggregates (with their ranks attached) permutes the list of `(Ω, Δ)` in the same way
   (`C04b_omegaDelta_teamPerm`).  At the `rate` level: for these three models the rank sort is
   immaterial (`C04b_rate_full_sortfree`) and `rate` is equivariant under EVERY reordering of the
   teams, tied teams included (`C04b_rate_teamPerm_full`).
2. **The sort.**  `rate` sorts the teams by rank with a STABLE sort before it calls `_compute`;
   two presentations of the same game in which mutually tied teams keep their relative order are
   sorted to the same list (`C04b_unwind_stable`, `C04b_sortedKeys_stable`, `C04b_unwind_tiefree`),
   so all five models — including the two partial-pairing ones, whose ladder neighbours depend on
   the list order — return the same result team by team (`C04b_rate_teamPerm_stable`,
   `C04b_rate_teamPerm_tiefree`).  An `example` at the end shows that for BTP the condition on tied
   teams cannot be dropped.
3. **Players within a team in a different order**, all five models, any gamma callback whose value
   does not depend on the order of the players it is handed (`GammaPermInv`: the tagged family, the
   team-reading callback `gammaTeamSigma`, …; `…_tagged` versions have no hypothesis on gamma): the team aggregates, hence
   `(Ω, Δ)`, are unchanged, and every player gets the same posterior — at the level of `_compute`
   (`C04b_compute_playerPerm*`) and of `rate` (`C04b_rate_playerPerm*`).
-/

noncomputable section
namespace OS

/-! ## 1. Teams in a different order (PL, BTF, TMF) -/

/-- **Teams listed in a different order: each team keeps its `(Ω, Δ)`.**  Plackett–Luce and the two
full-pairing models.  `ts` is any list of team aggregates (mu, variance and RANK of each team;
nothing is assumed about the ranks, they need not be sorted), `σ` any permutation of the
positions.  Position `i` of the permuted list holds team `σ i`, and it receives exactly the
`(Ω, Δ)` that `σ i` receives in the original list. -/
theorem C04b_omegaDelta_teamPerm (K : Kind) (hK : K = .PL ∨ K = .BTF ∨ K = .TMF)
    (L : Leaves ℝ) (P : Params ℝ) (ts : List (TeamAgg ℝ)) (σ : Equiv.Perm (Fin ts.length)) :
    omegaDelta K L P (List.ofFn (fun i => ts[σ i]))
      = List.ofFn (fun i : Fin ts.length =>
          (omegaDelta K L P ts)[(σ i).1]'(by rw [omegaDelta_length]; exact (σ i).2)) := by
  have hfull : K.eqv_full := by rcases hK with rfl | rfl | rfl <;> trivial
  set ts' := List.ofFn (fun i => ts[σ i]) with hts'
  have hlen : ts'.length = ts.length := by simp [hts']
  have hget : ∀ i : Fin ts'.length, ts'[i] = ts[((finCongr hlen).trans σ) i] := by
    intro i; simp [hts']; rfl
  rw [eqv_omegaDelta_reindex K L P ts ts' ((finCongr hlen).trans σ)
    (fun i => by rw [hget]) (fun i => by rw [hget]) (fun i => by rw [hget])
    (fun i => gam_sameCalls_of_eq _ (hget i)) (Or.inl hfull)]
  apply List.ext_getElem
  · simp [hlen]
  · intro k h1 h2
    simp

/-- the same statement entry by entry: `(Ω, Δ)` at position `i` of the permuted list is `(Ω, Δ)`
at position `σ i` of the original list -/
theorem C04b_omegaDelta_teamPerm_getElem (K : Kind) (hK : K = .PL ∨ K = .BTF ∨ K = .TMF)
    (L : Leaves ℝ) (P : Params ℝ) (ts : List (TeamAgg ℝ)) (σ : Equiv.Perm (Fin ts.length))
    (i : Fin ts.length) :
    (omegaDelta K L P (List.ofFn (fun i => ts[σ i])))[i.1]'(by
        rw [omegaDelta_length, List.length_ofFn]; exact i.2)
      = (omegaDelta K L P ts)[(σ i).1]'(by rw [omegaDelta_length]; exact (σ i).2) := by
  simp only [C04b_omegaDelta_teamPerm K hK L P ts σ, List.getElem_ofFn]

/-! ## 3. Players within a team in a different order (all five models) -/

/-- **The team aggregates do not depend on the order of the players.**  If every team of `teams'`
lists the players of the corresponding team of `teams` in some other order, the aggregated teams
have the same mu, the same variance and the same rank (and rosters that are permutations of each
other). -/
theorem C04b_teamAggs_playerPerm {teams teams' : List (List (Rating ℝ))}
    (h : List.Forall₂ List.Perm teams teams') (dense : List ℕ) :
    List.Forall₂ (fun t t' : TeamAgg ℝ => t.mu = t'.mu ∧ t.sig2 = t'.sig2 ∧ t.rank = t'.rank ∧
        t.players.Perm t'.players) (teamAggs teams dense) (teamAggs teams' dense) :=
  eqv_teamAggs_forall₂ h dense

/-- **`(Ω, Δ)` reads the rosters only through the gamma callback**: for each of the five models
`omegaDelta` depends only on the list of (mu, variance, rank) triples of the teams and on what the
gamma callback returns for each team (`gam_SameCalls`: the calls `gamma(c, n, mu, σ², team, rank)` for
the two teams of a slot agree for all `c`, `n`). -/
theorem C04b_omegaDelta_congr (K : Kind) (L : Leaves ℝ) (P : Params ℝ) (ts ts' : List (TeamAgg ℝ))
    (h : ts.map (fun t => (t.mu, t.sig2, t.rank)) = ts'.map (fun t => (t.mu, t.sig2, t.rank)))
    (hg : List.Forall₂ (gam_SameCalls P.gamma) ts ts') :
    omegaDelta K L P ts = omegaDelta K L P ts' :=
  eqv_omegaDelta_congr K L P ts ts' h hg

/-- **`(Ω, Δ)` never reads the rosters when gamma is one of the tagged family**: `omegaDelta` then
depends only on the list of (mu, variance, rank) triples of the teams. -/
theorem C04b_omegaDelta_congr_tagged (K : Kind) (L : Leaves ℝ) (P : Params ℝ) (hg : P.gamma.Tagged)
    (ts ts' : List (TeamAgg ℝ))
    (h : ts.map (fun t => (t.mu, t.sig2, t.rank)) = ts'.map (fun t => (t.mu, t.sig2, t.rank))) :
    omegaDelta K L P ts = omegaDelta K L P ts' := by
  refine eqv_omegaDelta_congr K L P ts ts' h ?_
  have hl : ts.length = ts'.length := by simpa using congrArg List.length h
  refine List.forall₂_of_length_eq_of_get hl (fun i h₁ h₂ => ?_)
  have hk : (ts.map (fun t => (t.mu, t.sig2, t.rank)))[i]'(by simpa using h₁)
      = (ts'.map (fun t => (t.mu, t.sig2, t.rank)))[i]'(by simpa using h₂) := by simp only [h]
  simp only [List.getElem_map, Prod.mk.injEq] at hk
  exact gam_sameCalls_tagged hg hk.2.1 hk.2.2

/-- **Reordering players leaves every team's `(Ω, Δ)` unchanged** (all five models; any gamma
callback that does not depend on the order in which the players are handed over, `GammaPermInv`). -/
theorem C04b_omegaDelta_playerPerm (K : Kind) (L : Leaves ℝ) (P : Params ℝ)
    (hg : GammaPermInv P.gamma)
    {teams teams' : List (List (Rating ℝ))} (h : List.Forall₂ List.Perm teams teams')
    (dense : List ℕ) :
    omegaDelta K L P (teamAggs teams dense) = omegaDelta K L P (teamAggs teams' dense) :=
  eqv_omegaDelta_congr K L P _ _ (eqv_teamAggs_key h dense) (gam_teamAggs_sameCalls hg h dense)

/-- **Every player gets the same posterior, whatever the order of the players in the teams**
(all five models).  There is ONE update function per team (`fs[i]`, which keeps the player's id)
such that in both presentations the result for team `i` is `fs[i]` applied to each player of
team `i`, slot by slot.  So a player's posterior depends on the player and on the game, not on
where in the team list he is written. -/
theorem C04b_compute_playerPerm_fn (K : Kind) (L : Leaves ℝ) (P : Params ℝ) (hg : GammaPermInv P.gamma)
    {teams teams' : List (List (Rating ℝ))} (h : List.Forall₂ List.Perm teams teams')
    (dense : List ℕ) :
    ∃ fs : List (Rating ℝ → Rating ℝ), (∀ f ∈ fs, ∀ p, (f p).id = p.id) ∧
      compute K L P teams dense = List.zipWith (fun f t => t.map f) fs teams ∧
      compute K L P teams' dense = List.zipWith (fun f t => t.map f) fs teams' := by
  obtain ⟨fs, -, hid, h1, h2⟩ := eqv_compute_fn K L P hg h dense
  exact ⟨fs, hid, h1, h2⟩

/-- **Each result team is a permutation of the other** (all five models). -/
theorem C04b_compute_playerPerm (K : Kind) (L : Leaves ℝ) (P : Params ℝ) (hg : GammaPermInv P.gamma)
    {teams teams' : List (List (Rating ℝ))} (h : List.Forall₂ List.Perm teams teams')
    (dense : List ℕ) :
    List.Forall₂ List.Perm (compute K L P teams dense) (compute K L P teams' dense) := by
  obtain ⟨fs, -, h1, h2⟩ := C04b_compute_playerPerm_fn K L P hg h dense
  rw [h1, h2]
  exact eqv_zipWith_map_perm fs h

/-- **Players identified by id.**  If the ids within team `i` are distinct, then the result
players of team `i` in the two presentations that carry the same id are equal (same posterior mu
and sigma). -/
theorem C04b_compute_playerPerm_id (K : Kind) (L : Leaves ℝ) (P : Params ℝ) (hg : GammaPermInv P.gamma)
    {teams teams' : List (List (Rating ℝ))} (h : List.Forall₂ List.Perm teams teams')
    (dense : List ℕ) (i : ℕ) (t r r' : List (Rating ℝ))
    (ht : teams[i]? = some t) (hnd : (t.map (·.id)).Nodup)
    (hr : (compute K L P teams dense)[i]? = some r)
    (hr' : (compute K L P teams' dense)[i]? = some r')
    (q q' : Rating ℝ) (hq : q ∈ r) (hq' : q' ∈ r') (hid : q.id = q'.id) : q = q' := by
  obtain ⟨fs, hfid, h1, h2⟩ := C04b_compute_playerPerm_fn K L P hg h dense
  rw [h1] at hr
  rw [h2] at hr'
  exact eqv_fn_id h fs hfid i t r r' ht hnd hr hr' q q' hq hq' hid

/-! ### … and at the level of `rate` (tau inflation, rank sort, `_compute`, unsort, clamp) -/

section ratePlayers
variable {ρ : Type}

/-- **`rate` is equivariant under reordering of the players within the teams** — all five models,
outcome omitted / ranks / scores, any `tau`, with or without the `limit_sigma` clamp.  There is
one id-preserving update function per team, `hs[i]`, such that for BOTH presentations of the
rosters the returned team `i` is `hs[i]` applied to each listed player, slot by slot. -/
theorem C04b_rate_playerPerm_fn (K : Kind) (L : Leaves ℝ) (P : Params ℝ) (hg : GammaPermInv P.gamma)
    (le : ρ → ρ → Bool)
    (neg : ρ → ρ) {teams teams' : List (List (Rating ℝ))}
    (h : List.Forall₂ List.Perm teams teams') (oc : Outcome ρ) (o : CallOpts ℝ)
    (hoc : oc.fits teams.length) :
    ∃ hs : List (Rating ℝ → Rating ℝ), (∀ f ∈ hs, ∀ p, (f p).id = p.id) ∧
      rate K L P le neg teams oc o = List.zipWith (fun f t => t.map f) hs teams ∧
      rate K L P le neg teams' oc o = List.zipWith (fun f t => t.map f) hs teams' := by
  cases oc with
  | omitted => exact eqv_rateCore_player_fn le K L P hg o h none (fun _ h => nomatch h)
  | ranks r => exact eqv_rateCore_player_fn le K L P hg o h (some r) (fun _ h => by cases h; exact hoc)
  | scores s =>
    exact eqv_rateCore_player_fn le K L P hg o h (some (s.map neg))
      (fun _ h => by cases h; rw [List.length_map]; exact hoc)

/-- each returned team is a permutation of the team returned for the other presentation -/
theorem C04b_rate_playerPerm (K : Kind) (L : Leaves ℝ) (P : Params ℝ) (hg : GammaPermInv P.gamma)
    (le : ρ → ρ → Bool)
    (neg : ρ → ρ) {teams teams' : List (List (Rating ℝ))}
    (h : List.Forall₂ List.Perm teams teams') (oc : Outcome ρ) (o : CallOpts ℝ)
    (hoc : oc.fits teams.length) :
    List.Forall₂ List.Perm (rate K L P le neg teams oc o) (rate K L P le neg teams' oc o) := by
  obtain ⟨hs, -, h1, h2⟩ := C04b_rate_playerPerm_fn K L P hg le neg h oc o hoc
  rw [h1, h2]
  exact eqv_zipWith_map_perm hs h

/-- players identified by id: if the ids within team `i` are distinct, the players of the two
returned teams `i` that carry the same id are equal (same posterior mu and sigma) -/
theorem C04b_rate_playerPerm_id (K : Kind) (L : Leaves ℝ) (P : Params ℝ) (hg : GammaPermInv P.gamma)
    (le : ρ → ρ → Bool)
    (neg : ρ → ρ) {teams teams' : List (List (Rating ℝ))}
    (h : List.Forall₂ List.Perm teams teams') (oc : Outcome ρ) (o : CallOpts ℝ)
    (hoc : oc.fits teams.length) (i : ℕ) (t r r' : List (Rating ℝ))
    (ht : teams[i]? = some t) (hnd : (t.map (·.id)).Nodup)
    (hr : (rate K L P le neg teams oc o)[i]? = some r)
    (hr' : (rate K L P le neg teams' oc o)[i]? = some r')
    (q q' : Rating ℝ) (hq : q ∈ r) (hq' : q' ∈ r') (hid : q.id = q'.id) : q = q' := by
  obtain ⟨hs, hfid, h1, h2⟩ := C04b_rate_playerPerm_fn K L P hg le neg h oc o hoc
  rw [h1] at hr
  rw [h2] at hr'
  exact eqv_fn_id h hs hfid i t r r' ht hnd hr hr' q q' hq hq' hid

/-- `C04b_rate_playerPerm` for the tagged family: no hypothesis on gamma -/
theorem C04b_rate_playerPerm_tagged (K : Kind) (L : Leaves ℝ) (P : Params ℝ) (hg : P.gamma.Tagged)
    (le : ρ → ρ → Bool)
    (neg : ρ → ρ) {teams teams' : List (List (Rating ℝ))}
    (h : List.Forall₂ List.Perm teams teams') (oc : Outcome ρ) (o : CallOpts ℝ)
    (hoc : oc.fits teams.length) :
    List.Forall₂ List.Perm (rate K L P le neg teams oc o) (rate K L P le neg teams' oc o) :=
  C04b_rate_playerPerm K L P (gam_tagged_permInv hg) le neg h oc o hoc

/-- `C04b_rate_playerPerm_fn` for the tagged family: no hypothesis on gamma -/
theorem C04b_rate_playerPerm_fn_tagged (K : Kind) (L : Leaves ℝ) (P : Params ℝ) (hg : P.gamma.Tagged)
    (le : ρ → ρ → Bool)
    (neg : ρ → ρ) {teams teams' : List (List (Rating ℝ))}
    (h : List.Forall₂ List.Perm teams teams') (oc : Outcome ρ) (o : CallOpts ℝ)
    (hoc : oc.fits teams.length) :
    ∃ hs : List (Rating ℝ → Rating ℝ), (∀ f ∈ hs, ∀ p, (f p).id = p.id) ∧
      rate K L P le neg teams oc o = List.zipWith (fun f t => t.map f) hs teams ∧
      rate K L P le neg teams' oc o = List.zipWith (fun f t => t.map f) hs teams' :=
  C04b_rate_playerPerm_fn K L P (gam_tagged_permInv hg) le neg h oc o hoc

end ratePlayers

/-! ## 2. The sort: two presentations of the same game are sorted to the same list

`teams`, `ranks` and `teams'`, `ranks'` list the same `n` teams with the same ranks in two orders:
position `i` of the second presentation holds the team (and rank) at position `σ i` of the first.
`le` is the Boolean comparison of rank values, assumed total and transitive (ties = values that
compare `≤` both ways; they need not be equal as values, e.g. `1` and `1.0`).
"σ keeps tied teams in their relative order": if `i < j` and the ranks at `i`, `j` of the second
presentation are tied, then `σ i < σ j`.  These statements hold for any payload type `β` and any
key type `ρ`; at the `rate` level they hold for all five models and for every scalar type. -/

section sort
variable {β ρ : Type} (le : ρ → ρ → Bool)

/-- **The stable sort does not depend on the presentation.**  If `σ` keeps tied teams in their
relative order, `_unwind` returns the same sorted list of teams for both presentations, and the
tenets (original positions, in sorted order) correspond through `σ`: the `k`-th sorted team sits
at position `t` of the second presentation and at position `σ t` of the first. -/
theorem C04b_unwind_stable
    (trans : ∀ a b c, le a b = true → le b c = true → le a c = true)
    (total : ∀ a b, (le a b || le b a) = true)
    (teams teams' : List β) (ranks ranks' : List ρ) (n : ℕ)
    (ht : teams.length = n) (hr : ranks.length = n) (ht' : teams'.length = n)
    (hr' : ranks'.length = n) (σ : Equiv.Perm (Fin n))
    (hT : ∀ i : Fin n, teams'[i.1]'(ht' ▸ i.2) = teams[(σ i).1]'(ht ▸ (σ i).2))
    (hR : ∀ i : Fin n, ranks'[i.1]'(hr' ▸ i.2) = ranks[(σ i).1]'(hr ▸ (σ i).2))
    (hstab : ∀ i j : Fin n, i < j →
      le (ranks'[i.1]'(hr' ▸ i.2)) (ranks'[j.1]'(hr' ▸ j.2)) = true →
      le (ranks'[j.1]'(hr' ▸ j.2)) (ranks'[i.1]'(hr' ▸ i.2)) = true → σ i < σ j) :
    (unwind le ranks' teams').1 = (unwind le ranks teams).1 ∧
      ((unwind le ranks' teams').2).map (eqv_permNat σ) = (unwind le ranks teams).2 :=
  eqv_unwind_reindex le trans total teams teams' ranks ranks' n ht hr ht' hr' σ hT hR hstab

/-- **The sorted rank values, hence the dense ranks handed to `_compute`, do not depend on the
presentation** (same hypotheses).  The sorted key lists are equal as lists of values, not merely
up to ties. -/
theorem C04b_sortedKeys_stable
    (trans : ∀ a b c, le a b = true → le b c = true → le a c = true)
    (total : ∀ a b, (le a b || le b a) = true)
    (ranks ranks' : List ρ) (n : ℕ) (hr : ranks.length = n) (hr' : ranks'.length = n)
    (σ : Equiv.Perm (Fin n))
    (hR : ∀ i : Fin n, ranks'[i.1]'(hr' ▸ i.2) = ranks[(σ i).1]'(hr ▸ (σ i).2))
    (hstab : ∀ i j : Fin n, i < j →
      le (ranks'[i.1]'(hr' ▸ i.2)) (ranks'[j.1]'(hr' ▸ j.2)) = true →
      le (ranks'[j.1]'(hr' ▸ j.2)) (ranks'[i.1]'(hr' ▸ i.2)) = true → σ i < σ j) :
    sortedKeys le ranks' = sortedKeys le ranks ∧
      denseRanks (fun a b => !le b a) (sortedKeys le ranks')
        = denseRanks (fun a b => !le b a) (sortedKeys le ranks) := by
  have h := eqv_sortedKeys_reindex le trans total ranks ranks' n hr hr' σ hR hstab
  exact ⟨h, by rw [h]⟩

/-- **Tie-free games: every permutation.**  If no two teams are tied, the hypothesis on `σ` is
empty: the two presentations are sorted to the same list for EVERY permutation `σ`. -/
theorem C04b_unwind_tiefree
    (trans : ∀ a b c, le a b = true → le b c = true → le a c = true)
    (total : ∀ a b, (le a b || le b a) = true)
    (teams teams' : List β) (ranks ranks' : List ρ) (n : ℕ)
    (ht : teams.length = n) (hr : ranks.length = n) (ht' : teams'.length = n)
    (hr' : ranks'.length = n) (σ : Equiv.Perm (Fin n))
    (hT : ∀ i : Fin n, teams'[i.1]'(ht' ▸ i.2) = teams[(σ i).1]'(ht ▸ (σ i).2))
    (hR : ∀ i : Fin n, ranks'[i.1]'(hr' ▸ i.2) = ranks[(σ i).1]'(hr ▸ (σ i).2))
    (hnotie : ∀ i j : Fin n, i ≠ j →
      ¬ (le (ranks[i.1]'(hr ▸ i.2)) (ranks[j.1]'(hr ▸ j.2)) = true ∧
         le (ranks[j.1]'(hr ▸ j.2)) (ranks[i.1]'(hr ▸ i.2)) = true)) :
    (unwind le ranks' teams').1 = (unwind le ranks teams).1 ∧
      ((unwind le ranks' teams').2).map (eqv_permNat σ) = (unwind le ranks teams).2 ∧
      sortedKeys le ranks' = sortedKeys le ranks := by
  have hstab : ∀ i j : Fin n, i < j →
      le (ranks'[i.1]'(hr' ▸ i.2)) (ranks'[j.1]'(hr' ▸ j.2)) = true →
      le (ranks'[j.1]'(hr' ▸ j.2)) (ranks'[i.1]'(hr' ▸ i.2)) = true → σ i < σ j := by
    intro i j hij h1 h2
    rw [hR i, hR j] at h1 h2
    exact absurd ⟨h1, h2⟩ (hnotie (σ i) (σ j) (fun h => (ne_of_lt hij) (σ.injective h)))
  obtain ⟨h1, h2⟩ := eqv_unwind_reindex le trans total teams teams' ranks ranks' n ht hr ht' hr' σ
    hT hR hstab
  exact ⟨h1, h2, eqv_sortedKeys_reindex le trans total ranks ranks' n hr hr' σ hR hstab⟩

end sort

/-! ### … and therefore `rate` is equivariant (all five models, every scalar type) -/

section rate
variable {α ρ : Type} [Scalar α]

/-- **`rate` is equivariant under reordering of the teams** — all five models, including the two
partial-pairing ones, for the real numbers and for floats alike (the proof never looks at a
number).  If the second call lists the same teams with the same ranks in another order, and teams
that are tied keep their relative order, then the team at position `i` of the second call gets
exactly the result that the same team (position `σ i`) gets in the first call — with or without
the `limit_sigma` clamp, for any `tau`. -/
theorem C04b_rate_teamPerm_stable (K : Kind) (L : Leaves α) (P : Params α) (le : ρ → ρ → Bool)
    (trans : ∀ a b c, le a b = true → le b c = true → le a c = true)
    (total : ∀ a b, (le a b || le b a) = true) (o : CallOpts α)
    (teams teams' : List (List (Rating α))) (ranks ranks' : List ρ) (n : ℕ)
    (ht : teams.length = n) (hr : ranks.length = n) (ht' : teams'.length = n)
    (hr' : ranks'.length = n) (σ : Equiv.Perm (Fin n))
    (hT : ∀ i : Fin n, teams'[i.1]'(ht' ▸ i.2) = teams[(σ i).1]'(ht ▸ (σ i).2))
    (hR : ∀ i : Fin n, ranks'[i.1]'(hr' ▸ i.2) = ranks[(σ i).1]'(hr ▸ (σ i).2))
    (hstab : ∀ i j : Fin n, i < j →
      le (ranks'[i.1]'(hr' ▸ i.2)) (ranks'[j.1]'(hr' ▸ j.2)) = true →
      le (ranks'[j.1]'(hr' ▸ j.2)) (ranks'[i.1]'(hr' ▸ i.2)) = true → σ i < σ j) :
    (rateCore K L P le teams' (some ranks') o).length = n ∧
    (rateCore K L P le teams (some ranks) o).length = n ∧
    ∀ i : Fin n, (rateCore K L P le teams' (some ranks') o)[i.1]?
      = (rateCore K L P le teams (some ranks) o)[(σ i).1]? :=
  ⟨by rw [eqv_rateCore_length _ _ _ _ _ _ _ (hr'.trans ht'.symm), ht'],
   by rw [eqv_rateCore_length _ _ _ _ _ _ _ (hr.trans ht.symm), ht],
   eqv_rateCore_reindex K L P le trans total o teams teams' ranks ranks' n ht hr ht' hr' σ
     hT hR hstab⟩

/-- the same for the public entry point with `ranks=` -/
theorem C04b_rate_ranks_teamPerm_stable (K : Kind) (L : Leaves α) (P : Params α)
    (le : ρ → ρ → Bool) (neg : ρ → ρ)
    (trans : ∀ a b c, le a b = true → le b c = true → le a c = true)
    (total : ∀ a b, (le a b || le b a) = true) (o : CallOpts α)
    (teams teams' : List (List (Rating α))) (ranks ranks' : List ρ) (n : ℕ)
    (ht : teams.length = n) (hr : ranks.length = n) (ht' : teams'.length = n)
    (hr' : ranks'.length = n) (σ : Equiv.Perm (Fin n))
    (hT : ∀ i : Fin n, teams'[i.1]'(ht' ▸ i.2) = teams[(σ i).1]'(ht ▸ (σ i).2))
    (hR : ∀ i : Fin n, ranks'[i.1]'(hr' ▸ i.2) = ranks[(σ i).1]'(hr ▸ (σ i).2))
    (hstab : ∀ i j : Fin n, i < j →
      le (ranks'[i.1]'(hr' ▸ i.2)) (ranks'[j.1]'(hr' ▸ j.2)) = true →
      le (ranks'[j.1]'(hr' ▸ j.2)) (ranks'[i.1]'(hr' ▸ i.2)) = true → σ i < σ j)
    (i : Fin n) :
    (rate K L P le neg teams' (.ranks ranks') o)[i.1]?
      = (rate K L P le neg teams (.ranks ranks) o)[(σ i).1]? :=
  eqv_rateCore_reindex K L P le trans total o teams teams' ranks ranks' n ht hr ht' hr' σ
     hT hR hstab i

/-- **Games without ties: `rate` is equivariant under EVERY reordering of the teams**, all five
models. -/
theorem C04b_rate_teamPerm_tiefree (K : Kind) (L : Leaves α) (P : Params α) (le : ρ → ρ → Bool)
    (trans : ∀ a b c, le a b = true → le b c = true → le a c = true)
    (total : ∀ a b, (le a b || le b a) = true) (o : CallOpts α)
    (teams teams' : List (List (Rating α))) (ranks ranks' : List ρ) (n : ℕ)
    (ht : teams.length = n) (hr : ranks.length = n) (ht' : teams'.length = n)
    (hr' : ranks'.length = n) (σ : Equiv.Perm (Fin n))
    (hT : ∀ i : Fin n, teams'[i.1]'(ht' ▸ i.2) = teams[(σ i).1]'(ht ▸ (σ i).2))
    (hR : ∀ i : Fin n, ranks'[i.1]'(hr' ▸ i.2) = ranks[(σ i).1]'(hr ▸ (σ i).2))
    (hnotie : ∀ i j : Fin n, i ≠ j →
      ¬ (le (ranks[i.1]'(hr ▸ i.2)) (ranks[j.1]'(hr ▸ j.2)) = true ∧
         le (ranks[j.1]'(hr ▸ j.2)) (ranks[i.1]'(hr ▸ i.2)) = true))
    (i : Fin n) :
    (rateCore K L P le teams' (some ranks') o)[i.1]?
      = (rateCore K L P le teams (some ranks) o)[(σ i).1]? := by
  refine eqv_rateCore_reindex K L P le trans total o teams teams' ranks ranks' n ht hr ht' hr' σ
     hT hR ?_ i
  intro i j hij h1 h2
  rw [hR i, hR j] at h1 h2
  exact absurd ⟨h1, h2⟩ (hnotie (σ i) (σ j) (fun h => (ne_of_lt hij) (σ.injective h)))

end rate

/-! ## 1 + 2. Plackett–Luce and the full-pairing models: every reordering, ties included -/

section full
variable {ρ : Type}

/-- **For PL, BTF, TMF the rank sort of `rate` is immaterial.**  A ranked `rate` call (no clamp)
returns `_compute` of the tau-inflated teams IN THE ORDER GIVEN, each team carrying the dense rank
`#{teams whose rank value is strictly smaller}`.  (For BTP/TMP this is false: the ladder
neighbours are read off the sorted list.) -/
theorem C04b_rate_full_sortfree (K : Kind) (hK : K = .PL ∨ K = .BTF ∨ K = .TMF)
    (L : Leaves ℝ) (P : Params ℝ) (le : ρ → ρ → Bool)
    (total : ∀ a b, (le a b || le b a) = true)
    (trans : ∀ a b c, le a b = true → le b c = true → le a c = true) (o : CallOpts ℝ)
    (teams : List (List (Rating ℝ))) (ranks : List ρ) (hlen : ranks.length = teams.length)
    (hlim : resolveLimit P o = false) :
    rateCore K L P le teams (some ranks) o
      = compute K L P (inflate (resolveTau P o) teams)
          (ranks.map (fun x => (ranks.filter (fun y => !le x y)).length)) := by
  have hfull : K.eqv_full := by rcases hK with rfl | rfl | rfl <;> trivial
  rw [eqv_rateCore_eq_rateRes, hlim]
  exact eqv_rateRes_full_n le K hfull L P total trans _ teams ranks teams.length rfl hlen

/-- **`rate` is equivariant under EVERY reordering of the teams for PL, BTF, TMF** — tied teams
may be shuffled too.  If the second call lists the same teams with the same ranks in another
order (`σ` arbitrary), the team at position `i` of the second call gets exactly the result of the
same team (position `σ i`) in the first call; with or without the `limit_sigma` clamp. -/
theorem C04b_rate_teamPerm_full (K : Kind) (hK : K = .PL ∨ K = .BTF ∨ K = .TMF)
    (L : Leaves ℝ) (P : Params ℝ) (le : ρ → ρ → Bool)
    (total : ∀ a b, (le a b || le b a) = true)
    (trans : ∀ a b c, le a b = true → le b c = true → le a c = true) (o : CallOpts ℝ)
    (teams teams' : List (List (Rating ℝ))) (ranks ranks' : List ρ) (n : ℕ)
    (ht : teams.length = n) (hr : ranks.length = n) (ht' : teams'.length = n)
    (hr' : ranks'.length = n) (σ : Equiv.Perm (Fin n))
    (hT : ∀ i : Fin n, teams'[i.1]'(ht' ▸ i.2) = teams[(σ i).1]'(ht ▸ (σ i).2))
    (hR : ∀ i : Fin n, ranks'[i.1]'(hr' ▸ i.2) = ranks[(σ i).1]'(hr ▸ (σ i).2))
    (i : Fin n) :
    (rateCore K L P le teams' (some ranks') o)[i.1]?
      = (rateCore K L P le teams (some ranks) o)[(σ i).1]? := by
  have hfull : K.eqv_full := by rcases hK with rfl | rfl | rfl <;> trivial
  exact eqv_rateCore_full_reindex le K hfull L P total trans o teams teams' ranks ranks' n
    ht hr ht' hr' σ hT hR i

end full

/-! ## the hypotheses are satisfiable -/

/-- part 1 on two teams: listed the other way round, they swap their `(Ω, Δ)` -/
example (K : Kind) (hK : K = .PL ∨ K = .BTF ∨ K = .TMF) (L : Leaves ℝ) (P : Params ℝ)
    (a b : TeamAgg ℝ) :
    omegaDelta K L P [b, a]
      = [(omegaDelta K L P [a, b])[1]'(by rw [omegaDelta_length]; simp),
         (omegaDelta K L P [a, b])[0]'(by rw [omegaDelta_length]; simp)] := by
  have h := C04b_omegaDelta_teamPerm K hK L P [a, b] (Equiv.swap (0 : Fin 2) 1)
  simpa [List.ofFn_succ] using h

/-- part 2 with a tie and a non-trivial `σ`: ranks `[2, 1, 1]` for `A, B, C` and ranks `[1, 2, 1]`
for `B, A, C` (`σ` = swap of positions 0 and 1; the tied teams `B`, `C` keep their order) -/
example :
    (unwind leNat [1, 2, 1] ["B", "A", "C"]).1 = (unwind leNat [2, 1, 1] ["A", "B", "C"]).1 :=
  (C04b_unwind_stable leNat (fun a b c => by simp only [leNat, decide_eq_true_eq]; omega)
    (fun a b => by simp only [leNat, Bool.or_eq_true, decide_eq_true_eq]; omega)
    ["A", "B", "C"] ["B", "A", "C"] [2, 1, 1] [1, 2, 1] 3 rfl rfl rfl rfl
    (Equiv.swap (0 : Fin 3) 1) (by decide) (by decide) (by decide)).1

private theorem ex_hR :
    ∀ i : Fin 3, ([1, 2, 1] : List ℕ)[i.1]'(by simp)
      = ([2, 1, 1] : List ℕ)[((Equiv.swap (0 : Fin 3) 1) i).1]'(by simp) := by
  decide

private theorem ex_hstab :
    ∀ i j : Fin 3, i < j →
      leNat (([1, 2, 1] : List ℕ)[i.1]'(by simp)) (([1, 2, 1] : List ℕ)[j.1]'(by simp)) = true →
      leNat (([1, 2, 1] : List ℕ)[j.1]'(by simp)) (([1, 2, 1] : List ℕ)[i.1]'(by simp)) = true →
      (Equiv.swap (0 : Fin 3) 1) i < (Equiv.swap (0 : Fin 3) 1) j := by
  decide

/-- … and the same game at the `rate` level, all five models, every scalar type: `B`, listed
first in the second call, gets what it gets as the second team of the first call -/
example {α : Type} [Scalar α] (K : Kind) (L : Leaves α) (P : Params α) (o : CallOpts α)
    (A B C : List (Rating α)) :
    (rateCore K L P leNat [B, A, C] (some [1, 2, 1]) o)[0]?
      = (rateCore K L P leNat [A, B, C] (some [2, 1, 1]) o)[1]? :=
  (C04b_rate_teamPerm_stable K L P leNat
    (fun a b c => by simp only [leNat, decide_eq_true_eq]; omega)
    (fun a b => by simp only [leNat, Bool.or_eq_true, decide_eq_true_eq]; omega) o
    [A, B, C] [B, A, C] [2, 1, 1] [1, 2, 1] 3 rfl rfl rfl rfl (Equiv.swap (0 : Fin 3) 1)
    (by intro i; fin_cases i <;> rfl) ex_hR ex_hstab).2.2 0

/-- full models: the tied teams `B`, `C` may be swapped as well (ranks `[2, 1, 1]` for `A, B, C`
and for `A, C, B`) -/
example (K : Kind) (hK : K = .PL ∨ K = .BTF ∨ K = .TMF) (L : Leaves ℝ) (P : Params ℝ)
    (o : CallOpts ℝ) (A B C : List (Rating ℝ)) :
    (rateCore K L P leNat [A, C, B] (some [2, 1, 1]) o)[1]?
      = (rateCore K L P leNat [A, B, C] (some [2, 1, 1]) o)[2]? :=
  C04b_rate_teamPerm_full K hK L P leNat
    (fun a b => by simp only [leNat, Bool.or_eq_true, decide_eq_true_eq]; omega)
    (fun a b c => by simp only [leNat, decide_eq_true_eq]; omega) o
    [A, B, C] [A, C, B] [2, 1, 1] [2, 1, 1] 3 rfl rfl rfl rfl (Equiv.swap (1 : Fin 3) 2)
    (by intro i; fin_cases i <;> rfl) (by intro i; fin_cases i <;> rfl) 1

/-- the hypothesis on tied teams cannot be dropped for the partial-pairing models: three tied
teams `a, b, c`; `a` listed first has one ladder neighbour, `a` listed second has two, and gets a
different `Δ` -/
example (L : Leaves ℝ) :
    let P : Params ℝ := ⟨0, 0, 0, false, .const 1⟩
    let a : TeamAgg ℝ := ⟨0, 1, 0, []⟩
    let b : TeamAgg ℝ := ⟨0, 3, 0, []⟩
    let c : TeamAgg ℝ := ⟨0, 2, 0, []⟩
    ((omegaDelta .BTP L P [b, a, c])[1]'(by rw [omegaDelta_length]; simp)).2
      ≠ ((omegaDelta .BTP L P [a, b, c])[0]'(by rw [omegaDelta_length]; simp)).2 := by
  intro P a b c
  simp only [omegaDelta, List.zipIdx_cons, List.zipIdx_nil, List.map_cons, List.map_nil,
    List.getElem_cons_succ, List.getElem_cons_zero, neighboursOf, sumPairs, sumL]
  simp only [sc_ofNat, CharP.cast_eq_zero, List.length_cons, List.length_nil, zero_add, Nat.reduceAdd,
    one_ne_zero, ↓reduceIte, tsub_self, Nat.ofNat_pos, getElem?_pos, List.getElem_cons_zero,
    Option.toList_some, Nat.lt_add_one, List.getElem_cons_succ, List.cons_append, List.nil_append,
    List.map_cons, List.map_nil, List.foldl_cons, List.foldl_nil, Nat.one_lt_ofNat, ne_eq, add_eq_left]
  simp only [btPair, gammaVal, P, a, c, sc_sqrt, sc_exp, sc_ofNat]
  norm_num

/-- part 3: the hypothesis `Forall₂ Perm` on a two-team game with the first team written in the
other order -/
example (K : Kind) (L : Leaves ℝ) (P : Params ℝ) (hg : P.gamma.Tagged) (p q r : Rating ℝ) :
    List.Forall₂ List.Perm (compute K L P [[p, q], [r]] [0, 1]) (compute K L P [[q, p], [r]] [0, 1]) :=
  C04b_compute_playerPerm K L P (gam_tagged_permInv hg)
    (List.Forall₂.cons (List.Perm.swap q p []) (List.Forall₂.cons (List.Perm.refl _) .nil)) [0, 1]

end OS
end
