import OSProofs.C04FullLemmas

/-!
# Helper lemmas for C04b, part D: players within a team in a different order, at the `rate` level

Everything `rate` does to a team is a slot-wise map of its roster (`inflate`, the per-player update,
the clamp), and the sort / unsort of the teams moves whole rosters.  So there is one update
function per team, the same for every presentation of the rosters.
-/

noncomputable section
namespace OS
open List

/-- `_compute` on two presentations of the rosters: one id-preserving update function per team -/
theorem eqv_compute_fn (K : Kind) (L : Leaves ℝ) (P : Params ℝ) (hg : GammaPermInv P.gamma)
    {teams teams' : List (List (Rating ℝ))} (h : List.Forall₂ List.Perm teams teams')
    (dense : List ℕ) :
    ∃ fs : List (Rating ℝ → Rating ℝ),
      fs.length = min teams.length dense.length ∧
      (∀ f ∈ fs, ∀ p, (f p).id = p.id) ∧
      compute K L P teams dense = List.zipWith (fun f t => t.map f) fs teams ∧
      compute K L P teams' dense = List.zipWith (fun f t => t.map f) fs teams' := by
  unfold compute
  simp only []
  rw [← eqv_omegaDelta_congr K L P _ _ (eqv_teamAggs_key h dense) (gam_teamAggs_sameCalls hg h dense)]
  obtain ⟨fs, hl, hid, h1, h2⟩ := eqv_applyAll_fn P.kappa h dense
    (omegaDelta K L P (teamAggs teams dense))
  refine ⟨fs, ?_, hid, h1, h2⟩
  rw [hl, omegaDelta_length, teamAggs_length]
  omega

/-- a relation that holds slot by slot survives `_unwind` -/
theorem eqv_unwind_forall₂ {κ β γ : Type} (le : κ → κ → Bool) (r : List κ) {R : β → γ → Prop}
    {xs : List β} {ys : List γ} (h : List.Forall₂ R xs ys) :
    List.Forall₂ R (unwind le r xs).1 (unwind le r ys).1 := by
  have hl := h.length_eq
  rw [← unwind_zip_fst le r xs ys (by omega), ← unwind_zip_snd le r xs ys (by omega)]
  rw [List.forall₂_map_left_iff, List.forall₂_map_right_iff, List.forall₂_same]
  intro p hp
  have hmem : p ∈ xs.zip ys := by
    unfold unwind sortByKey at hp
    simp only [List.mem_map] at hp
    obtain ⟨e, he, rfl⟩ := hp
    have he' := (mergeSort_perm _ _).subset he
    have := (List.of_mem_zip he').2
    exact (List.mem_zipIdx' this).2 ▸ List.getElem_mem _
  exact List.forall₂_zip h hmem

/-- the clamp of a slot-wise mapped game is a slot-wise map -/
theorem eqv_clampTeams_fn (hs : List (Rating ℝ → Rating ℝ)) (teams : List (List (Rating ℝ))) :
    clampTeams teams (List.zipWith (fun h t => t.map h) hs teams)
      = List.zipWith (fun h t => t.map h)
          (hs.map (fun h p => if (h p).sigma ≤ p.sigma then h p else { h p with sigma := p.sigma }))
          teams := by
  unfold clampTeams
  induction hs generalizing teams with
  | nil => simp
  | cons h hs ih =>
    cases teams with
    | nil => simp
    | cons t ts =>
      simp only [List.zipWith_cons_cons, List.zip_cons_cons, List.map_cons, ih ts]
      congr 1
      rw [List.zip_map_left, List.map_map]
      induction t with
      | nil => rfl
      | cons p t iht => simp only [List.zip_cons_cons, List.map_cons, iht]; rfl

/-- what `_unwind` returns are objects it was given -/
theorem eqv_mem_unwind_fst {κ β : Type} (le : κ → κ → Bool) (r : List κ) (xs : List β) (p : β)
    (hp : p ∈ (unwind le r xs).1) : p ∈ xs := by
  unfold unwind sortByKey at hp
  simp only [List.mem_map] at hp
  obtain ⟨e, he, rfl⟩ := hp
  have he' := (mergeSort_perm _ _).subset he
  have := (List.of_mem_zip he').2
  exact (List.mem_zipIdx' this).2 ▸ List.getElem_mem _

/-- a slot-wise map after a slot-wise map -/
theorem eqv_zipWith_map_map {β γ δ : Type} (ip : β → γ) (fs : List (γ → δ))
    (teams : List (List β)) :
    List.zipWith (fun f t => t.map f) fs (teams.map (·.map ip))
      = List.zipWith (fun f t => t.map f) (fs.map (fun g => g ∘ ip)) teams := by
  induction fs generalizing teams with
  | nil => simp
  | cons f fs ih =>
    cases teams with
    | nil => simp
    | cons t ts => simp only [List.map_cons, List.zipWith_cons_cons, ih ts, List.map_map]

section rate
variable {ρ : Type} (le : ρ → ρ → Bool)

/-- the tau inflation of one player -/
def eqv_inflP (tau : ℝ) (p : Rating ℝ) : Rating ℝ :=
  { p with sigma := Scalar.sqrt (p.sigma * p.sigma + tau * tau) }

theorem eqv_inflate_eq_map (tau : ℝ) (teams : List (List (Rating ℝ))) :
    inflate tau teams = teams.map (·.map (eqv_inflP tau)) := rfl

theorem eqv_inflate_forall₂ (tau : ℝ) {teams teams' : List (List (Rating ℝ))}
    (h : List.Forall₂ List.Perm teams teams') :
    List.Forall₂ List.Perm (inflate tau teams) (inflate tau teams') := by
  rw [eqv_inflate_eq_map, eqv_inflate_eq_map, List.forall₂_map_left_iff, List.forall₂_map_right_iff]
  exact h.imp (fun _ _ hp => hp.map _)

/-- ranked `rate` before the clamp: one id-preserving update function per team, the same for
both presentations of the rosters -/
theorem eqv_rateRes_player_fn (K : Kind) (L : Leaves ℝ) (P : Params ℝ) (hg : GammaPermInv P.gamma)
    (tau : ℝ) {teams teams' : List (List (Rating ℝ))} (h : List.Forall₂ List.Perm teams teams')
    (r : List ρ) (hlen : r.length = teams.length) :
    ∃ hs : List (Rating ℝ → Rating ℝ), (∀ f ∈ hs, ∀ p, (f p).id = p.id) ∧
      eqv_rateRes K L P le tau teams r = List.zipWith (fun f t => t.map f) hs teams ∧
      eqv_rateRes K L P le tau teams' r = List.zipWith (fun f t => t.map f) hs teams' := by
  have hll : teams.length = teams'.length := h.length_eq
  have hI := eqv_inflate_forall₂ tau h
  have hil : (inflate tau teams).length = teams.length := length_inflate tau teams
  have hil' : (inflate tau teams').length = teams.length := (length_inflate tau teams').trans hll.symm
  have hu2 : (unwind le r (inflate tau teams')).2 = (unwind le r (inflate tau teams)).2 :=
    eqv_unwind_snd_indep le r _ _ (by rw [hil, hil'])
  have hu1 := eqv_unwind_forall₂ le r hI
  obtain ⟨fs, hfl, hfid, e1, e2⟩ := eqv_compute_fn K L P hg hu1
    (denseRanks (fun a b => !le b a) (sortedKeys le r))
  have hfl' : fs.length = teams.length := by
    rw [hfl, unwind_fst_length, length_denseRanks, length_sortedKeys, hil, hlen]
    simp
  refine ⟨((unwind leNat (unwind le r (inflate tau teams)).2 fs).1).map (fun g => g ∘ eqv_inflP tau),
    ?_, ?_, ?_⟩
  · intro f hf p
    obtain ⟨g, hg, rfl⟩ := List.mem_map.1 hf
    have := hfid g (eqv_mem_unwind_fst leNat _ fs g hg) (eqv_inflP tau p)
    simpa [eqv_inflP] using this
  · unfold eqv_rateRes
    simp only []
    rw [e1, List.zipWith_comm,
      unwind_roundtrip_zip le r (inflate tau teams) fs (fun t f => t.map f) (by rw [hlen, hil])
        (by rw [hfl', hil]),
      List.zipWith_comm, eqv_inflate_eq_map, eqv_zipWith_map_map]
  · unfold eqv_rateRes
    simp only []
    rw [e2, ← hu2, List.zipWith_comm,
      unwind_roundtrip_zip le r (inflate tau teams') fs (fun t f => t.map f) (by rw [hlen, hil'])
        (by rw [hfl', hil']),
      List.zipWith_comm, eqv_inflate_eq_map, eqv_zipWith_map_map]

/-- `rate` without ranks, before the clamp -/
theorem eqv_rateNone_player_fn (K : Kind) (L : Leaves ℝ) (P : Params ℝ) (hg : GammaPermInv P.gamma)
    (tau : ℝ) {teams teams' : List (List (Rating ℝ))} (h : List.Forall₂ List.Perm teams teams') :
    ∃ hs : List (Rating ℝ → Rating ℝ), (∀ f ∈ hs, ∀ p, (f p).id = p.id) ∧
      compute K L P (inflate tau teams) (List.range (inflate tau teams).length)
        = List.zipWith (fun f t => t.map f) hs teams ∧
      compute K L P (inflate tau teams') (List.range (inflate tau teams').length)
        = List.zipWith (fun f t => t.map f) hs teams' := by
  have hI := eqv_inflate_forall₂ tau h
  obtain ⟨fs, -, hfid, e1, e2⟩ := eqv_compute_fn K L P hg hI (List.range (inflate tau teams).length)
  refine ⟨fs.map (fun g => g ∘ eqv_inflP tau), ?_, ?_, ?_⟩
  · intro f hf p
    obtain ⟨g, hg, rfl⟩ := List.mem_map.1 hf
    have := hfid g hg (eqv_inflP tau p)
    simpa [eqv_inflP] using this
  · rw [e1, eqv_inflate_eq_map, eqv_zipWith_map_map]
  · rw [← hI.length_eq, e2, eqv_inflate_eq_map, eqv_zipWith_map_map]

/-- the result of `rate` before the clamp, ranks given or not -/
def eqv_rateRaw (K : Kind) (L : Leaves ℝ) (P : Params ℝ) (tau : ℝ) (T : List (List (Rating ℝ))) :
    Option (List ρ) → List (List (Rating ℝ))
  | none => compute K L P (inflate tau T) (List.range (inflate tau T).length)
  | some r => eqv_rateRes K L P le tau T r

theorem eqv_rateCore_eq_rateRaw (K : Kind) (L : Leaves ℝ) (P : Params ℝ) (o : CallOpts ℝ)
    (T : List (List (Rating ℝ))) (ranks : Option (List ρ)) :
    rateCore K L P le T ranks o
      = if resolveLimit P o then clampTeams T (eqv_rateRaw le K L P (resolveTau P o) T ranks)
        else eqv_rateRaw le K L P (resolveTau P o) T ranks := by
  cases ranks <;> rfl

/-- **`rate`, any outcome, with or without the clamp**: one id-preserving update function per
team, the same for both presentations of the rosters -/
theorem eqv_rateCore_player_fn (K : Kind) (L : Leaves ℝ) (P : Params ℝ) (hg : GammaPermInv P.gamma)
    (o : CallOpts ℝ) {teams teams' : List (List (Rating ℝ))} (h : List.Forall₂ List.Perm teams teams')
    (ranks : Option (List ρ)) (hlen : ∀ r, ranks = some r → r.length = teams.length) :
    ∃ hs : List (Rating ℝ → Rating ℝ), (∀ f ∈ hs, ∀ p, (f p).id = p.id) ∧
      rateCore K L P le teams ranks o = List.zipWith (fun f t => t.map f) hs teams ∧
      rateCore K L P le teams' ranks o = List.zipWith (fun f t => t.map f) hs teams' := by
  obtain ⟨hs, hid, e1, e2⟩ : ∃ hs : List (Rating ℝ → Rating ℝ), (∀ f ∈ hs, ∀ p, (f p).id = p.id) ∧
      eqv_rateRaw le K L P (resolveTau P o) teams ranks = List.zipWith (fun f t => t.map f) hs teams ∧
      eqv_rateRaw le K L P (resolveTau P o) teams' ranks
        = List.zipWith (fun f t => t.map f) hs teams' := by
    cases ranks with
    | none => exact eqv_rateNone_player_fn K L P hg _ h
    | some r => exact eqv_rateRes_player_fn le K L P hg _ h r (hlen r rfl)
  rw [eqv_rateCore_eq_rateRaw, eqv_rateCore_eq_rateRaw, e1, e2]
  by_cases hlim : resolveLimit P o = true
  · simp only [hlim, if_true, eqv_clampTeams_fn]
    refine ⟨_, ?_, rfl, rfl⟩
    intro f hf p
    obtain ⟨g, hg, rfl⟩ := List.mem_map.1 hf
    have := hid g hg p
    simp only
    split <;> exact this
  · simp only [hlim]
    exact ⟨hs, hid, rfl, rfl⟩

end rate

/-- from "one id-preserving function per team": players with the same id get the same result -/
theorem eqv_fn_id {teams teams' : List (List (Rating ℝ))}
    (h : List.Forall₂ List.Perm teams teams') (hs : List (Rating ℝ → Rating ℝ))
    (hid : ∀ f ∈ hs, ∀ p, (f p).id = p.id) (i : ℕ) (t r r' : List (Rating ℝ))
    (ht : teams[i]? = some t) (hnd : (t.map (·.id)).Nodup)
    (hr : (List.zipWith (fun f t => t.map f) hs teams)[i]? = some r)
    (hr' : (List.zipWith (fun f t => t.map f) hs teams')[i]? = some r')
    (q q' : Rating ℝ) (hq : q ∈ r) (hq' : q' ∈ r') (hqid : q.id = q'.id) : q = q' := by
  rw [List.getElem?_zipWith] at hr hr'
  obtain ⟨t', ht', hp⟩ := eqv_forall₂_getElem? h i t ht
  rw [ht] at hr
  rw [ht'] at hr'
  cases hf : hs[i]? with
  | none => rw [hf] at hr; simp at hr
  | some f =>
    rw [hf] at hr hr'
    simp only [Option.some.injEq] at hr hr'
    subst hr hr'
    obtain ⟨p, hp1, rfl⟩ := List.mem_map.1 hq
    obtain ⟨p', hp1', rfl⟩ := List.mem_map.1 hq'
    have hfi := hid f (List.mem_of_getElem? hf)
    rw [hfi, hfi] at hqid
    rw [List.inj_on_of_nodup_map hnd hp1 (hp.symm.subset hp1') hqid]

end OS
end
