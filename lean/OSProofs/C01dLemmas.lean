import OSProofs.RealInst
import OSProofs.C05Lemmas
import OSProofs.C06Lemmas
import OSProofs.Props.C17
import Mathlib.Tactic.Positivity
import Mathlib.Tactic.Linarith
import Mathlib.Tactic.Ring
import Mathlib.Tactic.FieldSimp
import Mathlib.Algebra.Order.BigOperators.Group.List
/-!
# Helper lemmas for C01d (leaf errors propagate linearly through the Thurstone–Mosteller update)

* `LeafGap` : the interface "leaf record `L` is within `ε` of leaf record `L'`" (for positive margins)
* `pairGapΩ`, `pairGapΔ` : the per-pair right-hand sides
* `lgp_abs_sum_sub_le` : `|Σ a − Σ b| ≤ Σ |a − b|` for list sums
* `lgp_sumPairs_gap` : the same through `sumPairs`
* per-player facts about `updPlayer`
* the four per-leaf gaps between the code's functions and the exact ones
-/
noncomputable section
namespace OS
open Scalar Gauss

/-! ### the interface -/

/-- leaf record `L` is, for every positive draw margin `t`, within `ε•` of leaf record `L'`.
(The margin the models feed to the leaves is `κ / c_iq`, positive when `κ > 0`; at `t = 0` the
exact tie functions are `0/0`.) -/
structure LeafGap (L L' : Leaves ℝ) (εv εw εvt εwt : ℝ → ℝ → ℝ) : Prop where
  v  : ∀ x t, 0 < t → |L.v x t - L'.v x t| ≤ εv x t
  w  : ∀ x t, 0 < t → |L.w x t - L'.w x t| ≤ εw x t
  vt : ∀ x t, 0 < t → |L.vt x t - L'.vt x t| ≤ εvt x t
  wt : ∀ x t, 0 < t → |L.wt x t - L'.wt x t| ≤ εwt x t

/-- every leaf record is within 0 of itself -/
theorem LeafGap.refl (L : Leaves ℝ) : LeafGap L L (fun _ _ => 0) (fun _ _ => 0) (fun _ _ => 0)
    (fun _ _ => 0) :=
  ⟨fun _ _ _ => by simp, fun _ _ _ => by simp, fun _ _ _ => by simp, fun _ _ _ => by simp⟩

/-- the relation is symmetric -/
theorem LeafGap.symm {L L' : Leaves ℝ} {εv εw εvt εwt : ℝ → ℝ → ℝ}
    (h : LeafGap L L' εv εw εvt εwt) : LeafGap L' L εv εw εvt εwt :=
  ⟨fun x t ht => by rw [abs_sub_comm]; exact h.v x t ht,
   fun x t ht => by rw [abs_sub_comm]; exact h.w x t ht,
   fun x t ht => by rw [abs_sub_comm]; exact h.vt x t ht,
   fun x t ht => by rw [abs_sub_comm]; exact h.wt x t ht⟩

/-! ### the per-pair right-hand sides -/

/-- `c_iq = cmul · √(σ_i² + σ_q² + 2β²)` as `tmPair` computes it -/
def lgp_tmC (cmul beta : ℝ) (ti tq : TeamAgg ℝ) : ℝ :=
  cmul * √(ti.sig2 + tq.sig2 + 2 * (beta * beta))

/-- which leaf error applies to the pair `(i, q)`: the win leaf at `x`, the win leaf at `−x`
(loss), or the tie leaf, evaluated at `x = (μ_i − μ_q)/c_iq`, `t = κ/c_iq` -/
def pairLeafErr (εwin εtie : ℝ → ℝ → ℝ) (cmul beta kappa : ℝ) (ti tq : TeamAgg ℝ) : ℝ :=
  let c := lgp_tmC cmul beta ti tq
  let x := (ti.mu - tq.mu) / c
  let t := kappa / c
  if ti.rank < tq.rank then εwin x t
  else if tq.rank < ti.rank then εwin (-x) t
  else εtie x t

/-- bound on the change of the pair's `Ω` term: `σ_i²/c_iq · e₁` -/
def pairGapΩ (εv εvt : ℝ → ℝ → ℝ) (cmul beta kappa : ℝ) (ti tq : TeamAgg ℝ) : ℝ :=
  ti.sig2 / lgp_tmC cmul beta ti tq * pairLeafErr εv εvt cmul beta kappa ti tq

/-- bound on the change of the pair's `Δ` term: `|γ| · σ_i²/c_iq / c_iq · e₂` -/
def pairGapΔ (εw εwt : ℝ → ℝ → ℝ) (cmul beta kappa : ℝ) (g : GammaFn ℝ) (n : Nat)
    (ti tq : TeamAgg ℝ) : ℝ :=
  |gammaVal g (lgp_tmC cmul beta ti tq) n ti.mu ti.sig2 ti.players ti.rank|
    * (ti.sig2 / lgp_tmC cmul beta ti tq) / lgp_tmC cmul beta ti tq
    * pairLeafErr εw εwt cmul beta kappa ti tq

/-! ### the pair term -/

theorem lgp_tmPair_fst (L : Leaves ℝ) (cmul beta kappa : ℝ) (g : GammaFn ℝ) (n : Nat)
    (ti tq : TeamAgg ℝ) :
    (tmPair L cmul beta kappa g n ti tq).1
      = ti.sig2 / lgp_tmC cmul beta ti tq *
        (if ti.rank < tq.rank then
            L.v ((ti.mu - tq.mu) / lgp_tmC cmul beta ti tq) (kappa / lgp_tmC cmul beta ti tq)
         else if tq.rank < ti.rank then
            -L.v (-((ti.mu - tq.mu) / lgp_tmC cmul beta ti tq)) (kappa / lgp_tmC cmul beta ti tq)
         else L.vt ((ti.mu - tq.mu) / lgp_tmC cmul beta ti tq) (kappa / lgp_tmC cmul beta ti tq)) := by
  simp only [tmPair, lgp_tmC, sc_sqrt, sc_ofNat, Nat.cast_ofNat]
  split_ifs <;> ring

theorem lgp_tmPair_snd (L : Leaves ℝ) (cmul beta kappa : ℝ) (g : GammaFn ℝ) (n : Nat)
    (ti tq : TeamAgg ℝ) :
    (tmPair L cmul beta kappa g n ti tq).2
      = gammaVal g (lgp_tmC cmul beta ti tq) n ti.mu ti.sig2 ti.players ti.rank
          * (ti.sig2 / lgp_tmC cmul beta ti tq) / lgp_tmC cmul beta ti tq *
        (if ti.rank < tq.rank then
            L.w ((ti.mu - tq.mu) / lgp_tmC cmul beta ti tq) (kappa / lgp_tmC cmul beta ti tq)
         else if tq.rank < ti.rank then
            L.w (-((ti.mu - tq.mu) / lgp_tmC cmul beta ti tq)) (kappa / lgp_tmC cmul beta ti tq)
         else L.wt ((ti.mu - tq.mu) / lgp_tmC cmul beta ti tq) (kappa / lgp_tmC cmul beta ti tq)) := by
  simp only [tmPair, lgp_tmC, sc_sqrt, sc_ofNat, Nat.cast_ofNat]
  split_ifs <;> rfl

/-! ### list sums -/

/-- triangle inequality for list sums: `|Σ f − Σ g| ≤ Σ h` when `|f − g| ≤ h` termwise -/
theorem lgp_abs_sum_sub_le {β : Type} (l : List β) (f g h : β → ℝ)
    (hfg : ∀ x ∈ l, |f x - g x| ≤ h x) :
    |(l.map f).sum - (l.map g).sum| ≤ (l.map h).sum := by
  induction l with
  | nil => simp
  | cons a l ih =>
    simp only [List.map_cons, List.sum_cons]
    have h1 := hfg a (by simp)
    have h2 := ih (fun x hx => hfg x (by simp [hx]))
    have : f a + (l.map f).sum - (g a + (l.map g).sum)
        = (f a - g a) + ((l.map f).sum - (l.map g).sum) := by ring
    rw [this]
    exact (abs_add_le _ _).trans (add_le_add h1 h2)

theorem lgp_sumPairs_fst {β : Type} (l : List β) (F : β → ℝ × ℝ) :
    (sumPairs (l.map F)).1 = (l.map (fun q => (F q).1)).sum := by
  simp only [sumPairs, sumL_eq_sum, List.map_map]; rfl

theorem lgp_sumPairs_snd {β : Type} (l : List β) (F : β → ℝ × ℝ) :
    (sumPairs (l.map F)).2 = (l.map (fun q => (F q).2)).sum := by
  simp only [sumPairs, sumL_eq_sum, List.map_map]; rfl

/-- through `sumPairs`: componentwise, the sums differ by at most the summed termwise bounds -/
theorem lgp_sumPairs_gap {β : Type} (l : List β) (F G : β → ℝ × ℝ) (h1 h2 : β → ℝ)
    (hF : ∀ q ∈ l, |(F q).1 - (G q).1| ≤ h1 q ∧ |(F q).2 - (G q).2| ≤ h2 q) :
    |(sumPairs (l.map F)).1 - (sumPairs (l.map G)).1| ≤ (l.map h1).sum ∧
    |(sumPairs (l.map F)).2 - (sumPairs (l.map G)).2| ≤ (l.map h2).sum := by
  rw [lgp_sumPairs_fst, lgp_sumPairs_fst, lgp_sumPairs_snd, lgp_sumPairs_snd]
  exact ⟨lgp_abs_sum_sub_le l _ _ h1 (fun q hq => (hF q hq).1),
         lgp_abs_sum_sub_le l _ _ h2 (fun q hq => (hF q hq).2)⟩

/-- the denominators are positive when the variances are non-negative and `β ≠ 0` -/
theorem lgp_tmC_pos {cmul beta : ℝ} (hm : 0 < cmul) (hb : beta ≠ 0) {ti tq : TeamAgg ℝ}
    (hi : 0 ≤ ti.sig2) (hq : 0 ≤ tq.sig2) : 0 < lgp_tmC cmul beta ti tq := by
  unfold lgp_tmC
  have : 0 < beta * beta := mul_self_pos.mpr hb
  exact mul_pos hm (Real.sqrt_pos.mpr (by linarith))

/-! ### the per-player update -/

theorem lgp_updPlayer_mu (kappa sig2 omega delta : ℝ) (p : Rating ℝ) :
    (updPlayer kappa sig2 omega delta p).mu = p.mu + p.sigma * p.sigma / sig2 * omega := rfl

/-- the squared new sigma, with the floor: `σ̂² · max(1 − share·δ, κ)` -/
theorem lgp_updPlayer_sigma_sq {kappa : ℝ} (hk : 0 < kappa) (sig2 omega delta : ℝ) (p : Rating ℝ) :
    (updPlayer kappa sig2 omega delta p).sigma ^ 2
      = p.sigma ^ 2 * max (1 - p.sigma * p.sigma / sig2 * delta) kappa := by
  rw [updPlayer_sigma, mul_pow, Real.sq_sqrt (le_trans hk.le (le_max_right _ _))]

/-- `√` is `1/(2√κ)`-Lipschitz on `[κ, ∞)` -/
theorem lgp_sqrt_lipschitz {kappa a b : ℝ} (hk : 0 < kappa) (ha : kappa ≤ a) (hb : kappa ≤ b) :
    |√a - √b| ≤ |a - b| / (2 * √kappa) := by
  have hsk : 0 < √kappa := Real.sqrt_pos.mpr hk
  have h1 : √kappa ≤ √a := Real.sqrt_le_sqrt ha
  have h2 : √kappa ≤ √b := Real.sqrt_le_sqrt hb
  have hab : a - b = (√a - √b) * (√a + √b) := by
    have ea := Real.mul_self_sqrt (hk.le.trans ha)
    have eb := Real.mul_self_sqrt (hk.le.trans hb)
    nlinarith
  rw [le_div_iff₀ (by positivity), hab, abs_mul, abs_of_pos (show 0 < √a + √b by linarith)]
  exact mul_le_mul_of_nonneg_left (by linarith) (abs_nonneg _)

/-! ### `compute`, team `i`, player `j` -/

theorem lgp_teamAggs_lt {teams : List (List (Rating ℝ))} {dense : List Nat} {i : Nat}
    (h1 : i < teams.length) (h2 : i < dense.length) : i < (teamAggs teams dense).length := by
  rw [teamAggs_length]; omega

theorem lgp_teamAggs_players (teams : List (List (Rating ℝ))) (dense : List Nat) (i : Nat)
    (h1 : i < teams.length) (h2 : i < dense.length) :
    ((teamAggs teams dense)[i]'(lgp_teamAggs_lt h1 h2)).players = teams[i] := by
  simp [teamAggs, teamAgg]

/-- team `i` of the result is the per-player update of the input team `i` with that team's
`(Ω, Δ)` -/
theorem lgp_compute_team (K : Kind) (L : Leaves ℝ) (P : Params ℝ) (teams : List (List (Rating ℝ)))
    (dense : List Nat) (i : Nat) (h1 : i < teams.length) (h2 : i < dense.length) :
    (compute K L P teams dense)[i]'(compute_lt h1 h2) =
      teams[i].map (updPlayer P.kappa ((teamAggs teams dense)[i]'(lgp_teamAggs_lt h1 h2)).sig2
        ((omegaDelta K L P (teamAggs teams dense))[i]'(omegaDelta_lt L P _ (lgp_teamAggs_lt h1 h2))).1
        ((omegaDelta K L P (teamAggs teams dense))[i]'(omegaDelta_lt L P _ (lgp_teamAggs_lt h1 h2))).2)
      := by
  rw [compute_getElem K L P teams dense i h1 h2, applyTeam_eq_map,
    lgp_teamAggs_players teams dense i h1 h2]

theorem lgp_compute_team_length (K : Kind) (L : Leaves ℝ) (P : Params ℝ)
    (teams : List (List (Rating ℝ))) (dense : List Nat) (i : Nat) (h1 : i < teams.length)
    (h2 : i < dense.length) :
    ((compute K L P teams dense)[i]'(compute_lt h1 h2)).length = teams[i].length := by
  rw [lgp_compute_team K L P teams dense i h1 h2, List.length_map]

/-- player `j` of team `i` of the result -/
theorem lgp_compute_player (K : Kind) (L : Leaves ℝ) (P : Params ℝ) (teams : List (List (Rating ℝ)))
    (dense : List Nat) (i : Nat) (h1 : i < teams.length) (h2 : i < dense.length)
    (j : Nat) (hj : j < teams[i].length) :
    ((compute K L P teams dense)[i]'(compute_lt h1 h2))[j]'(by
        rw [lgp_compute_team_length K L P teams dense i h1 h2]; exact hj) =
      updPlayer P.kappa ((teamAggs teams dense)[i]'(lgp_teamAggs_lt h1 h2)).sig2
        ((omegaDelta K L P (teamAggs teams dense))[i]'(omegaDelta_lt L P _ (lgp_teamAggs_lt h1 h2))).1
        ((omegaDelta K L P (teamAggs teams dense))[i]'(omegaDelta_lt L P _ (lgp_teamAggs_lt h1 h2))).2
        (teams[i][j]) := by
  simp only [lgp_compute_team K L P teams dense i h1 h2, List.getElem_map]

/-! ### the code's leaves against the exact ones -/

/-- error of the code's `v`: 0 off the guard, at most `V/64` on the asymptotic branch -/
def codeGapV (x t : ℝ) : ℝ := if Gauss.Phi (x - t) < epsF then vExact x t / 64 else 0

/-- error of the code's `w`: 0 off the guard; on the asymptotic branch `1/50` when `x < 0`, and
(only possible for a margin `t > 8`) 1 when `x ≥ 0`, where the code returns 0 instead of ≈ 1 -/
def codeGapW (x t : ℝ) : ℝ :=
  if Gauss.Phi (x - t) < epsF then (if x < 0 then 1 / 50 else 1) else 0

/-- error of the code's `vt`: the width of the truncation interval -/
def codeGapVt (_x t : ℝ) : ℝ := 2 * t

/-- error of the code's `wt` (the bound itself is `C17_wt_code_error`, taken as a hypothesis here) -/
def codeGapWt (_x t : ℝ) : ℝ := 4 * t ^ 2

theorem lgp_v_gap (x t : ℝ) : |vCode x t - vExact x t| ≤ codeGapV x t := by
  unfold codeGapV
  split_ifs with h
  · exact C17_v_asym_error h
  · rw [C17_v_exact_branch h]; simp

theorem lgp_w_gap (x t : ℝ) : |wCode x t - wExact x t| ≤ codeGapW x t := by
  unfold codeGapW
  split_ifs with h hx
  · exact C17_w_asym_error h hx
  · obtain ⟨h0, h1, _⟩ := C17_w_asym_nonneg_x h (not_lt.mp hx)
    have h2 : wExact x t < 1 := by
      simp only [wExact, vExact, sc_Phi, sc_phi]; exact sampford (x - t)
    rw [h0, abs_le]; constructor <;> linarith
  · rw [C17_w_exact_branch h]; simp

/-- for a margin `t ≤ 8` the `x ≥ 0` case of the asymptotic branch cannot occur, and the `w`
error is the plain "1/50 on the guard, 0 off it" -/
theorem lgp_codeGapW_of_le_eight {x t : ℝ} (ht : t ≤ 8) :
    codeGapW x t = if Gauss.Phi (x - t) < epsF then 1 / 50 else 0 := by
  unfold codeGapW
  split_ifs with h hx
  · rfl
  · have := C17_asymptote_below_minus_8 h
    exact absurd (by linarith : x < 0) hx
  · rfl

theorem lgp_codeGapV_nonneg (x t : ℝ) : 0 ≤ codeGapV x t :=
  (abs_nonneg _).trans (lgp_v_gap x t)

theorem lgp_codeGapW_le_one (x t : ℝ) : codeGapW x t ≤ 1 := by
  unfold codeGapW; split_ifs <;> norm_num

end OS
end
