import OSModel.Ladder
/-!
# `_ladder_pairs` (literal) = the neighbours the model of partial pairing uses
-/
namespace OS
variable {β : Type}

theorem ladderPairsCode_length (ts : List β) : (ladderPairsCode ts).length = max ts.length 1 := by
  cases ts with
  | nil => simp [ladderPairsCode]
  | cons a as =>
    simp only [ladderPairsCode, List.length_map, List.length_zip, List.length_cons, List.length_append,
      List.length_dropLast, List.tail_cons, List.length_nil]
    omega

/-- entry `i` of `_ladder_pairs(teams)` is `[teams[i-1], teams[i+1]]` restricted to what exists —
exactly `neighboursOf teams i` -/
theorem ladderPairsCode_getElem (ts : List β) (i : Nat) (hi : i < ts.length) :
    (ladderPairsCode ts)[i]? = some (neighboursOf ts i) := by
  unfold ladderPairsCode neighboursOf
  simp only [List.getElem?_map, List.getElem?_zip_eq_some, Option.map_eq_some_iff]
  refine ⟨((none :: ts.dropLast.map some)[i]?.getD none, (ts.tail.map some ++ [none])[i]?.getD none), ⟨?_, ?_⟩, ?_⟩
  · have : i < (none :: ts.dropLast.map some).length := by simp; omega
    rw [List.getElem?_eq_getElem this]; rfl
  · have : i < (ts.tail.map some ++ [none]).length := by simp; omega
    rw [List.getElem?_eq_getElem this]; rfl
  · cases i with
    | zero =>
      simp only [List.getElem?_cons_zero, Option.getD_some, Option.toList_none, List.nil_append, if_true]
      cases ts with
      | nil => simp at hi
      | cons a as =>
        cases as with
        | nil => simp
        | cons b bs => simp
    | succ k =>
      have h1 : (none :: ts.dropLast.map some)[k + 1]? = some (ts[k]?) := by
        simp only [List.getElem?_cons_succ, List.getElem?_map]
        have hk : k < ts.dropLast.length := by simp; omega
        rw [List.getElem?_eq_getElem hk, List.getElem_dropLast]
        simp [List.getElem?_eq_getElem (by omega : k < ts.length)]
      have h2 : (ts.tail.map some ++ [none])[k + 1]?.getD none = ts[k + 2]? := by
        by_cases hlast : k + 2 < ts.length
        · have : k + 1 < (ts.tail.map some).length := by simp; omega
          rw [List.getElem?_append_left this]
          simp [List.getElem?_eq_getElem hlast]
        · have hlen : (ts.tail.map some).length = k + 1 := by simp; omega
          have hge : (ts.tail.map some).length ≤ k + 1 := by omega
          rw [List.getElem?_append_right hge, hlen]
          simp
          omega
      rw [h1, h2]
      simp

/-- the whole list, for a non-empty team list (the library calls it with ≥ 2 teams) -/
theorem ladderPairsCode_eq (ts : List β) (h : ts ≠ []) :
    ladderPairsCode ts = (List.range ts.length).map (neighboursOf ts) := by
  apply List.ext_getElem?
  intro i
  by_cases hi : i < ts.length
  · rw [ladderPairsCode_getElem ts i hi]
    simp [hi]
  · have hl := ladderPairsCode_length ts
    have hpos : 0 < ts.length := List.length_pos_iff.mpr h
    rw [List.getElem?_eq_none (by omega), List.getElem?_eq_none (by simp; omega)]

example : ladderPairsCode [1, 2, 3] = [[2], [1, 3], [2]] := by decide
example : ladderPairsCode [1, 2] = [[2], [1]] := by decide
example : ladderPairsCode ([] : List Nat) = [[]] := by decide

end OS
