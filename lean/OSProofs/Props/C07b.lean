import OSProofs.LiftLemmas
/-!
# C07b — no rating inflation, at the level of `rate`

`C07` is proved for `_compute` (`C07_compute…`: the list of team aggregates is already rank-sorted
and carries dense ranks).  Here it is lifted to the public operation

  `rate` = tau inflation → stable sort by the rank values → dense ranks → `_compute` → un-sort →
           optional `limit_sigma` clamp,

stated on the caller's data: the teams in the caller's order, the result in the caller's order,
`τ := resolveTau P o` the tau of the call and

  `teamVar τ team = Σ_j (σ_j² + τ²)`      (the team's variance after the inflation).

The precision-weighted mu change of a call is

  `Σ_i (Σ_j (res[i][j].mu − teams[i][j].mu)) / teamVar τ teams[i]`,

written `((teams.zip res).map (fun tr => ((tr.1.zip tr.2).map (fun pq => pq.2.mu − pq.1.mu)).sum /
teamVar τ tr.1)).sum`.

* `C07_rate_sum_eq_compute`  the quantity equals the one `C07_compute` talks about, evaluated on
  `prepared …` (the aggregates `_compute` receives) — all five models, pure rearrangement: the
  un-sort permutes the (team, result) pairs, the inflation and the clamp do not touch mu;
* `C07_rate`                  it is exactly `0` for Plackett–Luce and both Bradley–Terry models —
  any outcome (omitted / ranks / scores, ties included), any tau, clamp on or off;
* `C07_rate_TMF`, `C07_rate_TMP`  exactly `0` for Thurstone–Mosteller if no two paired tied teams
  of `prepared` have exactly equal mu;
* `C07_rate_TM_caller`        the same with the hypothesis on the caller's data: no two distinct
  teams with tied rank values have exactly equal total mu;
* `C07_rate_TMF_bound`, `C07_rate_TMP_bound`  the general Thurstone–Mosteller bounds.
-/

noncomputable section
namespace OS
variable {ρ : Type}

/-- **Rearrangement.**  The precision-weighted mu change of a `rate` call, on the caller's data, is
the precision-weighted mu change of `_compute` on `prepared` (the sorted, dense-ranked aggregates of
the inflated teams).  All five models; only "one rank value per team" is assumed. -/
theorem C07_rate_sum_eq_compute (K : Kind) (L : Leaves ℝ) (P : Params ℝ) (le : ρ → ρ → Bool)
    (neg : ρ → ρ) (teams : List (List (Rating ℝ))) (oc : Outcome ρ) (o : CallOpts ℝ)
    (hoc : oc.fits teams.length) :
    ((teams.zip (rate K L P le neg teams oc o)).map (fun tr =>
        ((tr.1.zip tr.2).map (fun pq => pq.2.mu - pq.1.mu)).sum
          / teamVar (resolveTau P o) tr.1)).sum
      = (((computeOn K L P (prepared P le teams (lft_ranksOf neg oc) o)).zip
            (prepared P le teams (lft_ranksOf neg oc) o)).map
          (fun x => ((x.1.zip x.2.players).map (fun y => y.1.mu - y.2.mu)).sum / x.2.sig2)).sum := by
  rw [lft_rate_eq]
  exact lft_rate_sum_eq K L P le teams _ o (lft_fits neg oc _ hoc)

/-- … and therefore `Σ_i Ω_i / sig2_i` of `prepared`, when every inflated team variance is non-zero
(all five models). -/
theorem C07_rate_weighted_change (K : Kind) (L : Leaves ℝ) (P : Params ℝ) (le : ρ → ρ → Bool)
    (neg : ρ → ρ) (teams : List (List (Rating ℝ))) (oc : Outcome ρ) (o : CallOpts ℝ)
    (hoc : oc.fits teams.length)
    (hs : ∀ team ∈ teams, teamVar (resolveTau P o) team ≠ 0) :
    ((teams.zip (rate K L P le neg teams oc o)).map (fun tr =>
        ((tr.1.zip tr.2).map (fun pq => pq.2.mu - pq.1.mu)).sum
          / teamVar (resolveTau P o) tr.1)).sum
      = (((omegaDelta K L P (prepared P le teams (lft_ranksOf neg oc) o)).zip
            (prepared P le teams (lft_ranksOf neg oc) o)).map (fun x => x.1.1 / x.2.sig2)).sum := by
  rw [C07_rate_sum_eq_compute K L P le neg teams oc o hoc]
  have hpos := lft_prepared_pos P le teams (lft_ranksOf neg oc) o hs
  cases h : lft_ranksOf neg oc with
  | none =>
    rw [h] at hpos
    exact compute_weighted_change K L P _ _ (fun t ht => (hpos t ht).ne')
  | some r =>
    rw [h] at hpos
    exact compute_weighted_change K L P _ _ (fun t ht => (hpos t ht).ne')

/-- **C07 at the level of `rate`: no rating inflation** — Plackett–Luce, Bradley–Terry full and
partial pairing.  For every list of teams, every outcome (omitted, ranks or scores, one value per
team, ties allowed, any value type with any comparison `le`), every tau (per call or from the
model) and with or without the `limit_sigma` clamp: if no team has zero variance after the
inflation, then summing over the teams — in the caller's order — the total mu change of the
team's players divided by the team's inflated variance gives exactly zero. -/
theorem C07_rate (K : Kind) (hK : K = .PL ∨ K = .BTF ∨ K = .BTP) (L : Leaves ℝ) (P : Params ℝ)
    (le : ρ → ρ → Bool) (neg : ρ → ρ) (teams : List (List (Rating ℝ))) (oc : Outcome ρ)
    (o : CallOpts ℝ) (hoc : oc.fits teams.length)
    (hs : ∀ team ∈ teams, teamVar (resolveTau P o) team ≠ 0) :
    ((teams.zip (rate K L P le neg teams oc o)).map (fun tr =>
        ((tr.1.zip tr.2).map (fun pq => pq.2.mu - pq.1.mu)).sum
          / teamVar (resolveTau P o) tr.1)).sum = 0 := by
  rw [C07_rate_weighted_change K L P le neg teams oc o hoc hs]
  have hpos := lft_prepared_pos P le teams (lft_ranksOf neg oc) o hs
  rcases hK with rfl | rfl | rfl
  · exact C07_PL L P _ (fun t ht => (hpos t ht).ne')
  · exact C07_BTF L P _ hpos
  · exact C07_BTP L P _ hpos

/-- **C07 at the level of `rate`, Thurstone–Mosteller full pairing**: exactly zero when no two tied
teams have exactly equal mu.  The hypothesis is on `prepared …` — the sorted list of aggregates
`_compute` receives, whose `rank` is the dense rank and whose `mu` is the team's total mu; see
`C07_rate_TM_caller` for a hypothesis on the caller's data. -/
theorem C07_rate_TMF (L : Leaves ℝ) (hL : LeafFacts L) (P : Params ℝ)
    (le : ρ → ρ → Bool) (neg : ρ → ρ) (teams : List (List (Rating ℝ))) (oc : Outcome ρ)
    (o : CallOpts ℝ) (hoc : oc.fits teams.length)
    (hs : ∀ team ∈ teams, teamVar (resolveTau P o) team ≠ 0)
    (hne : ∀ i q : Fin (prepared P le teams (lft_ranksOf neg oc) o).length, i ≠ q →
      (prepared P le teams (lft_ranksOf neg oc) o)[i].rank
          = (prepared P le teams (lft_ranksOf neg oc) o)[q].rank →
      (prepared P le teams (lft_ranksOf neg oc) o)[i].mu
          ≠ (prepared P le teams (lft_ranksOf neg oc) o)[q].mu) :
    ((teams.zip (rate .TMF L P le neg teams oc o)).map (fun tr =>
        ((tr.1.zip tr.2).map (fun pq => pq.2.mu - pq.1.mu)).sum
          / teamVar (resolveTau P o) tr.1)).sum = 0 := by
  rw [C07_rate_weighted_change .TMF L P le neg teams oc o hoc hs]
  exact C07_TMF L hL P _ (lft_prepared_pos P le teams (lft_ranksOf neg oc) o hs) hne

/-- **C07 at the level of `rate`, Thurstone–Mosteller partial pairing**: exactly zero when no two
tied teams that are ADJACENT in the sorted order have exactly equal mu (hypothesis on
`prepared …`). -/
theorem C07_rate_TMP (L : Leaves ℝ) (hL : LeafFacts L) (P : Params ℝ)
    (le : ρ → ρ → Bool) (neg : ρ → ρ) (teams : List (List (Rating ℝ))) (oc : Outcome ρ)
    (o : CallOpts ℝ) (hoc : oc.fits teams.length)
    (hs : ∀ team ∈ teams, teamVar (resolveTau P o) team ≠ 0)
    (hne : ∀ (j : ℕ) (hj : j + 1 < (prepared P le teams (lft_ranksOf neg oc) o).length),
      (prepared P le teams (lft_ranksOf neg oc) o)[j].rank
          = (prepared P le teams (lft_ranksOf neg oc) o)[j + 1].rank →
      (prepared P le teams (lft_ranksOf neg oc) o)[j].mu
          ≠ (prepared P le teams (lft_ranksOf neg oc) o)[j + 1].mu) :
    ((teams.zip (rate .TMP L P le neg teams oc o)).map (fun tr =>
        ((tr.1.zip tr.2).map (fun pq => pq.2.mu - pq.1.mu)).sum
          / teamVar (resolveTau P o) tr.1)).sum = 0 := by
  rw [C07_rate_weighted_change .TMP L P le neg teams oc o hoc hs]
  exact C07_TMP L hL P _ (lft_prepared_pos P le teams (lft_ranksOf neg oc) o hs) hne

/-- **Thurstone–Mosteller full pairing, general bound at the level of `rate`**: the absolute value
of the precision-weighted mu change is at most the sum of `2κ / c_iq²` over the unordered pairs of
tied teams of `prepared` with exactly equal mu. -/
theorem C07_rate_TMF_bound (L : Leaves ℝ) (hL : LeafFacts L) (P : Params ℝ) (hk : 0 ≤ P.kappa)
    (le : ρ → ρ → Bool) (neg : ρ → ρ) (teams : List (List (Rating ℝ))) (oc : Outcome ρ)
    (o : CallOpts ℝ) (hoc : oc.fits teams.length)
    (hs : ∀ team ∈ teams, teamVar (resolveTau P o) team ≠ 0) :
    |((teams.zip (rate .TMF L P le neg teams oc o)).map (fun tr =>
        ((tr.1.zip tr.2).map (fun pq => pq.2.mu - pq.1.mu)).sum
          / teamVar (resolveTau P o) tr.1)).sum|
      ≤ ∑ i : Fin (prepared P le teams (lft_ranksOf neg oc) o).length,
          ∑ q : Fin (prepared P le teams (lft_ranksOf neg oc) o).length,
          if i < q then
            (if (prepared P le teams (lft_ranksOf neg oc) o)[i].rank
                  = (prepared P le teams (lft_ranksOf neg oc) o)[q].rank ∧
                (prepared P le teams (lft_ranksOf neg oc) o)[i].mu
                  = (prepared P le teams (lft_ranksOf neg oc) o)[q].mu
              then tmSlack 1 P.beta P.kappa (prepared P le teams (lft_ranksOf neg oc) o)[i]
                (prepared P le teams (lft_ranksOf neg oc) o)[q] else 0)
          else 0 := by
  rw [C07_rate_weighted_change .TMF L P le neg teams oc o hoc hs]
  exact C07_TMF_bound L hL P _ hk (lft_prepared_pos P le teams (lft_ranksOf neg oc) o hs)

/-- **Thurstone–Mosteller partial pairing, general bound at the level of `rate`.** -/
theorem C07_rate_TMP_bound (L : Leaves ℝ) (hL : LeafFacts L) (P : Params ℝ) (hk : 0 ≤ P.kappa)
    (le : ρ → ρ → Bool) (neg : ρ → ρ) (teams : List (List (Rating ℝ))) (oc : Outcome ρ)
    (o : CallOpts ℝ) (hoc : oc.fits teams.length)
    (hs : ∀ team ∈ teams, teamVar (resolveTau P o) team ≠ 0) :
    |((teams.zip (rate .TMP L P le neg teams oc o)).map (fun tr =>
        ((tr.1.zip tr.2).map (fun pq => pq.2.mu - pq.1.mu)).sum
          / teamVar (resolveTau P o) tr.1)).sum|
      ≤ ∑ j ∈ Finset.range ((prepared P le teams (lft_ranksOf neg oc) o).length - 1),
          if hj : j + 1 < (prepared P le teams (lft_ranksOf neg oc) o).length then
            (if (prepared P le teams (lft_ranksOf neg oc) o)[j].rank
                  = (prepared P le teams (lft_ranksOf neg oc) o)[j + 1].rank ∧
                (prepared P le teams (lft_ranksOf neg oc) o)[j].mu
                  = (prepared P le teams (lft_ranksOf neg oc) o)[j + 1].mu
              then tmSlack 2 P.beta P.kappa (prepared P le teams (lft_ranksOf neg oc) o)[j]
                (prepared P le teams (lft_ranksOf neg oc) o)[j + 1] else 0)
          else 0 := by
  rw [C07_rate_weighted_change .TMP L P le neg teams oc o hoc hs]
  exact C07_TMP_bound L hL P _ hk (lft_prepared_pos P le teams (lft_ranksOf neg oc) o hs)

/-! ### Thurstone–Mosteller with the hypothesis on the caller's data -/

/-- **C07 at the level of `rate`, both Thurstone–Mosteller models, hypothesis on the caller's data.**
`le` total and transitive.  If no two DIFFERENT teams whose rank values are tied (`x ≤ y` and
`y ≤ x`; for scores: the negated scores) have exactly the same total mu, the precision-weighted mu
change is exactly zero.  (For partial pairing this asks a little more than necessary: only tied
teams that end up adjacent after the stable sort matter — `C07_rate_TMP`.) -/
theorem C07_rate_TM_caller (K : Kind) (hK : K = .TMF ∨ K = .TMP) (L : Leaves ℝ) (hL : LeafFacts L)
    (P : Params ℝ) (le : ρ → ρ → Bool) (neg : ρ → ρ)
    (total : ∀ a b, (le a b || le b a) = true)
    (trans : ∀ a b c, le a b = true → le b c = true → le a c = true)
    (teams : List (List (Rating ℝ))) (oc : Outcome ρ)
    (o : CallOpts ℝ) (hoc : oc.fits teams.length)
    (hs : ∀ team ∈ teams, teamVar (resolveTau P o) team ≠ 0)
    (hne : ∀ r, lft_ranksOf neg oc = some r →
      ∀ (a b : Nat) (ha : a < teams.length) (hb : b < teams.length) (x y : ρ), a ≠ b →
        r[a]? = some x → r[b]? = some y → le x y = true → le y x = true →
        (teams[a].map (·.mu)).sum ≠ (teams[b].map (·.mu)).sum) :
    ((teams.zip (rate K L P le neg teams oc o)).map (fun tr =>
        ((tr.1.zip tr.2).map (fun pq => pq.2.mu - pq.1.mu)).sum
          / teamVar (resolveTau P o) tr.1)).sum = 0 := by
  have key : ∀ (i q : Nat) (hi : i < (prepared P le teams (lft_ranksOf neg oc) o).length)
      (hq : q < (prepared P le teams (lft_ranksOf neg oc) o).length), i ≠ q →
      (prepared P le teams (lft_ranksOf neg oc) o)[i].rank
          = (prepared P le teams (lft_ranksOf neg oc) o)[q].rank →
      (prepared P le teams (lft_ranksOf neg oc) o)[i].mu
          ≠ (prepared P le teams (lft_ranksOf neg oc) o)[q].mu := by
    intro i q hi hq hiq hrank
    obtain ⟨r, hr, a, b, ha, hb, ha', hb', hab, h1, h2, e1, e2⟩ :=
      lft_prepared_tie P le total trans teams (lft_ranksOf neg oc) o (lft_fits neg oc _ hoc)
        i q hi hq hiq hrank
    rw [e1, e2]
    exact hne r hr a b ha hb r[a] r[b] hab (List.getElem?_eq_getElem ha')
      (List.getElem?_eq_getElem hb') h1 h2
  rcases hK with rfl | rfl
  · exact C07_rate_TMF L hL P le neg teams oc o hoc hs
      (fun i q hiq => key i.1 q.1 i.2 q.2 (fun h => hiq (Fin.ext h)))
  · exact C07_rate_TMP L hL P le neg teams oc o hoc hs
      (fun j hj => key j (j + 1) (by omega) hj (by omega))

/-- the same for `ranks = r`, hypothesis entry by entry -/
theorem C07_rate_TM_ranks (K : Kind) (hK : K = .TMF ∨ K = .TMP) (L : Leaves ℝ) (hL : LeafFacts L)
    (P : Params ℝ) (le : ρ → ρ → Bool) (neg : ρ → ρ)
    (total : ∀ a b, (le a b || le b a) = true)
    (trans : ∀ a b c, le a b = true → le b c = true → le a c = true)
    (teams : List (List (Rating ℝ))) (r : List ρ) (o : CallOpts ℝ)
    (hlen : r.length = teams.length)
    (hs : ∀ team ∈ teams, teamVar (resolveTau P o) team ≠ 0)
    (hne : ∀ (a b : Nat) (ha : a < teams.length) (hb : b < teams.length), a ≠ b →
        le (r[a]'(hlen ▸ ha)) (r[b]'(hlen ▸ hb)) = true →
        le (r[b]'(hlen ▸ hb)) (r[a]'(hlen ▸ ha)) = true →
        (teams[a].map (·.mu)).sum ≠ (teams[b].map (·.mu)).sum) :
    ((teams.zip (rate K L P le neg teams (.ranks r) o)).map (fun tr =>
        ((tr.1.zip tr.2).map (fun pq => pq.2.mu - pq.1.mu)).sum
          / teamVar (resolveTau P o) tr.1)).sum = 0 := by
  refine C07_rate_TM_caller K hK L hL P le neg total trans teams (.ranks r) o hlen hs ?_
  intro r' hr' a b ha hb x y hab hx hy h1 h2
  cases hr'
  have ha' : a < r.length := hlen ▸ ha
  have hb' : b < r.length := hlen ▸ hb
  rw [List.getElem?_eq_getElem ha'] at hx
  rw [List.getElem?_eq_getElem hb'] at hy
  cases hx; cases hy
  exact hne a b ha hb hab h1 h2

/-- **outcome omitted: Thurstone–Mosteller is exactly zero-sum too** — with the ranks omitted no two
teams are tied, so no hypothesis on the mu values is needed. -/
theorem C07_rate_TM_omitted (K : Kind) (hK : K = .TMF ∨ K = .TMP) (L : Leaves ℝ)
    (hL : LeafFacts L) (P : Params ℝ) (le : ρ → ρ → Bool) (neg : ρ → ρ)
    (teams : List (List (Rating ℝ))) (o : CallOpts ℝ)
    (hs : ∀ team ∈ teams, teamVar (resolveTau P o) team ≠ 0) :
    ((teams.zip (rate K L P le neg teams .omitted o)).map (fun tr =>
        ((tr.1.zip tr.2).map (fun pq => pq.2.mu - pq.1.mu)).sum
          / teamVar (resolveTau P o) tr.1)).sum = 0 := by
  -- the comparison is not consulted when the outcome is omitted
  have e : rate K L P le neg teams .omitted o
      = rate K L P (fun _ _ => true) neg teams .omitted o := rfl
  rw [e]
  exact C07_rate_TM_caller K hK L hL P (fun _ _ => true) neg (fun _ _ => rfl)
    (fun _ _ _ _ _ => rfl) teams .omitted o trivial hs (fun _ h => nomatch h)

/-! ### non-vacuity -/

/-- the positivity hypothesis holds as soon as every team has a member with `σ ≠ 0`, or `τ ≠ 0` and
no team is empty; e.g. for the default rating -/
example : ∀ team ∈ ([[⟨0, 25, 25 / 3⟩], [⟨1, 25, 25 / 3⟩, ⟨2, 30, 0⟩]] : List (List (Rating ℝ))),
    teamVar (25 / 300) team ≠ 0 := by
  intro team h
  simp only [List.mem_cons, List.not_mem_nil, or_false] at h
  rcases h with rfl | rfl <;> simp [teamVar] <;> norm_num

/-- `C07_rate` applies: three teams given in the order B, A, C, ranks `[2, 1, 2]` (B and C tied, the
sort is not the identity), any tau, clamp on or off -/
example (K : Kind) (hK : K = .PL ∨ K = .BTF ∨ K = .BTP) (L : Leaves ℝ) (P : Params ℝ)
    (o : CallOpts ℝ) (A B C : List (Rating ℝ))
    (hs : ∀ team ∈ [B, A, C], teamVar (resolveTau P o) team ≠ 0) :
    (([B, A, C].zip (rate K L P (fun a b : Int => decide (a ≤ b)) (fun a => -a) [B, A, C]
        (.ranks [2, 1, 2]) o)).map (fun tr =>
        ((tr.1.zip tr.2).map (fun pq => pq.2.mu - pq.1.mu)).sum
          / teamVar (resolveTau P o) tr.1)).sum = 0 :=
  C07_rate K hK L P _ _ [B, A, C] (.ranks [2, 1, 2]) o rfl hs

/-- the hypothesis of `C07_rate_TM_ranks` is satisfiable with a tie: B and C tied with different
total mu -/
example : ∀ (a b : Nat) (ha : a < 3) (hb : b < 3), a ≠ b →
    decide (([2, 1, 2] : List Int)[a]'(by simpa using ha) ≤ ([2, 1, 2] : List Int)[b]'(by simpa using hb)) = true →
    decide (([2, 1, 2] : List Int)[b]'(by simpa using hb) ≤ ([2, 1, 2] : List Int)[a]'(by simpa using ha)) = true →
    ((([[⟨0, 25, 8⟩], [⟨1, 30, 8⟩], [⟨2, 20, 8⟩, ⟨3, 4, 1⟩]] : List (List (Rating ℝ)))[a]'(by
        simpa using ha)).map (·.mu)).sum ≠
    ((([[⟨0, 25, 8⟩], [⟨1, 30, 8⟩], [⟨2, 20, 8⟩, ⟨3, 4, 1⟩]] : List (List (Rating ℝ)))[b]'(by
        simpa using hb)).map (·.mu)).sum := by
  intro a b ha hb hab
  have : a = 0 ∨ a = 1 ∨ a = 2 := by omega
  have : b = 0 ∨ b = 1 ∨ b = 2 := by omega
  rcases ‹a = 0 ∨ _› with rfl | rfl | rfl <;> rcases ‹b = 0 ∨ _› with rfl | rfl | rfl <;>
    simp at hab ⊢ <;> norm_num

end OS
end
