"""
Static tie (second, universally quantified tie between model and code, next to the behavioural correspondence).

tools/py2lean.py translates the straight-line functions of the library (v, w, vt, wt; ordinal, the five comparison operators and the
default gamma of each of the five classes; _unary_minus) from the CURRENT source text into Lean definitions, together with theorems
`Gen.f_eq : Gen.f … = <hand-written model definition> …` for every scalar type.  The translation of the pinned tree is committed as
lean/OSProofs/GenTie.lean (part of `lake build`, audited with `#print axioms`).  On every run the translation is regenerated from
$OPENSKILL_REPO:

  identical        same text as the committed file: the tie theorems are the ones the build has just checked;
  recompiled       the text differs (the source was edited) but the regenerated definitions and their tie theorems still elaborate
                   (`lake env lean <tmp>`): the edit is definitionally the same function — tie re-established for all inputs;
  tie-broken       the definitions elaborate, some tie theorem does not: the code now says something the kernel cannot identify with the
                   model.  NOT an alarm by itself (it may be an algebraically equivalent rewrite): the numeric literals of the edited
                   functions steer a directed search (ulp-neighbourhoods of every literal, as argument, as gap, as probability level)
                   through the property's own predicate and the rounding-free correspondence; only what they find is reported;
  untranslatable   the new text left the translator's Python subset: same treatment.
"""
import ast, os, re, subprocess, sys, tempfile
import core

sys.path.insert(0, os.path.join(core.VERIF, "tools"))
LEAN_DIR = os.path.join(core.VERIF, "lean")
COMMITTED = os.path.join(LEAN_DIR, "OSProofs", "GenTie.lean")
_CACHE = None
LEAF_FNS = ("v", "w", "vt", "wt", "phi_major", "phi_minor", "phi_major_inverse")
OP_FNS = ("ordinal", "__lt__", "__le__", "__gt__", "__ge__", "__eq__")


def _strip(txt):
    return "\n".join(l for l in txt.split("\n") if not l.startswith("source digest"))


def _constants(fn_node):
    out = set()
    for n in ast.walk(fn_node):
        if isinstance(n, ast.Constant) and isinstance(n.value, (int, float)) and not isinstance(n.value, bool):
            out.add(float(n.value))
        if isinstance(n, ast.Attribute) and ast.unparse(n) == "sys.float_info.epsilon":
            out.add(sys.float_info.epsilon)
    return out


def harvest():
    """numeric literals of the leaf functions and of the rating operators, per group, from the current source"""
    import py2lean
    wl = os.path.join(core.REPO, "openskill", "models", "weng_lin")
    leaves, ops = set(), {}
    try:
        tree = ast.parse(open(os.path.join(wl, "common.py")).read())
        for n in tree.body:
            if isinstance(n, ast.FunctionDef) and n.name in LEAF_FNS:
                leaves |= _constants(n)
    except Exception:  # noqa: BLE001
        pass
    for kind, fname, cls in py2lean.KINDS:
        s = set()
        try:
            tree = ast.parse(open(os.path.join(wl, fname)).read())
            for n in tree.body:
                if isinstance(n, ast.ClassDef) and n.name == cls:
                    for m in n.body:
                        if isinstance(m, ast.FunctionDef) and m.name in OP_FNS + ("__hash__",):
                            s |= _constants(m)
        except Exception:  # noqa: BLE001
            pass
        ops[kind] = s
    return leaves, ops


def status():
    """dict(status, detail, broken=[theorem names], leaves_ok, ops_ok={kind: bool})"""
    global _CACHE
    if _CACHE is not None:
        return _CACHE
    import py2lean
    out = dict(status="identical", detail="", broken=[], leaves_ok=True, ops_ok={k: True for k, _, _ in py2lean.KINDS}, functions=0, gamma_ok=True)
    try:
        txt = py2lean.render(core.REPO, LEAN_DIR)
    except py2lean.Untranslatable as e:
        out.update(status="untranslatable", detail=str(e), leaves_ok=False, ops_ok={k: False for k, _, _ in py2lean.KINDS})
        _CACHE = out
        return out
    except Exception as e:  # noqa: BLE001   (source that does not even parse is reported by the checks themselves)
        out.update(status="untranslatable", detail="%s: %s" % (type(e).__name__, e), leaves_ok=False, ops_ok={k: False for k, _, _ in py2lean.KINDS})
        _CACHE = out
        return out
    out["functions"] = len(re.findall(r"^def ", txt, flags=re.M))
    untrans = re.findall(r"^-- UNTRANSLATABLE (\S+): (.*)$", txt, flags=re.M)
    committed = open(COMMITTED).read() if os.path.exists(COMMITTED) else ""
    if _strip(txt) == _strip(committed) and not untrans:
        _CACHE = out
        return out
    fd, tmp = tempfile.mkstemp(prefix="GenTie_", suffix=".lean")
    try:
        os.write(fd, txt.encode()); os.close(fd)
        p = subprocess.run(["lake", "env", "lean", tmp], cwd=LEAN_DIR, stdout=subprocess.PIPE, stderr=subprocess.STDOUT, timeout=600)
        log = p.stdout.decode()
    finally:
        try:
            os.unlink(tmp)
        except OSError:
            pass
    if p.returncode == 0 and not untrans:
        out.update(status="recompiled", detail="the source text changed; the regenerated definitions and all tie theorems elaborate")
        _CACHE = out
        return out
    lines = txt.split("\n")
    broken, bad_defs = [], []
    for m in re.finditer(r":(\d+):\d+: error", log):
        ln = int(m.group(1)) - 1
        while ln >= 0 and not re.match(r"(theorem|def) (\S+)", lines[ln]):
            ln -= 1
        if ln >= 0:
            kind_, name = re.match(r"(theorem|def) (\S+)", lines[ln]).groups()
            (broken if kind_ == "theorem" else bad_defs).append(name)
    broken = sorted(set(broken)); bad_defs = sorted(set(bad_defs))
    names = broken + bad_defs + [u[0] for u in untrans]
    if not names:                       # lean failed in a way that cannot be attributed: treat everything as untied
        names = ["v", "w", "vt", "wt"] + ["%s_%s" % (o, k) for k in out["ops_ok"] for o in ("ordinal", "lt", "le", "gt", "ge", "eq", "gamma")]
    detail = []
    if broken:
        detail.append("not identified with the model by the kernel: " + ", ".join(broken))
    if bad_defs:
        detail.append("translated text does not elaborate: " + ", ".join(bad_defs))
    if untrans:
        detail.append("outside the translator's subset: " + "; ".join("%s (%s)" % u for u in untrans)[:600])
    out.update(status="tie-broken" if broken and not (bad_defs or untrans) else "untranslatable", broken=names, detail=" | ".join(detail) or log[-400:])
    base = set(n[:-3] if n.endswith("_eq") else n for n in names)
    out["leaves_ok"] = not (base & {"v", "w", "vt", "wt", "phi_major", "phi_minor", "phi_major_inverse"})
    for k in out["ops_ok"]:
        out["ops_ok"][k] = not any(n in base for n in ["%s_%s" % (o, k) for o in ("ordinal", "lt", "le", "gt", "ge", "eq")])
    out["gamma_ok"] = not any(n.startswith("gamma_") for n in base)
    _CACHE = out
    return out


def note(res, what):
    st = status()
    res.count("static_tie_" + st["status"])
    res.count("static_tie_functions_translated", st["functions"])
    msg = "static tie (%s): %s" % (what, {"identical": "the translation of the current source is the committed OSProofs/GenTie.lean, whose tie theorems the build has checked",
                                          "recompiled": st["detail"]}.get(st["status"], st["status"] + " — " + st["detail"] + "; directed search run, not an alarm by itself"))
    if msg not in res.notes:
        res.notes.append(msg)
    return st


# ------------------------------------------------------------------------------------------------------------------
# the validation tie: `_check_teams` and the head of `rate`, translated into the embedded statement language (OSModel/VLang.lean)
COMMITTED_VAL = os.path.join(LEAN_DIR, "OSProofs", "GenValTie.lean")
_CACHE_VAL = None


def validation_status():
    """dict(status identical|recompiled|tie-broken|untranslatable, detail)"""
    global _CACHE_VAL
    if _CACHE_VAL is not None:
        return _CACHE_VAL
    import py2lean
    out = dict(status="identical", detail="")
    try:
        txt = py2lean.render_validation(core.REPO)
    except Exception as e:  # noqa: BLE001
        out.update(status="untranslatable", detail="%s: %s" % (type(e).__name__, e))
        _CACHE_VAL = out
        return out
    untrans = re.findall(r"^-- UNTRANSLATABLE (\S+): (.*)$", txt, flags=re.M)
    committed = open(COMMITTED_VAL).read() if os.path.exists(COMMITTED_VAL) else ""
    if txt == committed and not untrans:
        _CACHE_VAL = out
        return out
    if untrans:
        out.update(status="untranslatable", detail="; ".join("%s (%s)" % u for u in untrans)[:600])
        _CACHE_VAL = out
        return out
    fd, tmp = tempfile.mkstemp(prefix="GenValTie_", suffix=".lean")
    try:
        os.write(fd, txt.encode()); os.close(fd)
        p = subprocess.run(["lake", "env", "lean", tmp], cwd=LEAN_DIR, stdout=subprocess.PIPE, stderr=subprocess.STDOUT, timeout=600)
        log = p.stdout.decode()
    finally:
        try:
            os.unlink(tmp)
        except OSError:
            pass
    if p.returncode == 0:
        out.update(status="recompiled", detail="the source text changed; the retranslated programs are still the canonical ones")
    else:
        names = sorted(set(re.findall(r"(checkTeams_\w+|rateHead_\w+)", "\n".join(l for l in log.split("\n") if "error" in l))))
        out.update(status="tie-broken", detail="the validation code as written is no longer the program the tie theorems are about (%s)" % (", ".join(names) or log[-300:]))
    _CACHE_VAL = out
    return out


def note_validation(res):
    st = validation_status()
    res.count("static_tie_validation_" + st["status"])
    msg = "static tie (validation): " + {
        "identical": "_check_teams and the head of rate of all five classes, translated from the current source into the embedded statement language, are the "
                     "committed programs of OSProofs/GenValTie.lean, proved to compute checkTeams / validateRate for every argument triple",
        "recompiled": st["detail"]}.get(st["status"], st["status"] + " — " + st["detail"] + "; not an alarm by itself: the systematic grammar of this check is the search")
    if msg not in res.notes:
        res.notes.append(msg)
    return st
