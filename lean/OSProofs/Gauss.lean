import Mathlib.Analysis.SpecialFunctions.Gaussian.GaussianIntegral
import Mathlib.MeasureTheory.Integral.IntervalIntegral.FundThmCalculus
import Mathlib.MeasureTheory.Integral.IntegralEqImproper
import Mathlib.Analysis.Convex.Deriv
import Mathlib.Analysis.Calculus.Deriv.MeanValue

/-!
# The standard normal density and distribution function

φ(x) = exp(−x²/2)/√(2π),  Φ(x) = 1/2 + ∫₀ˣ φ.   Facts G1–G8a of DESIGN §5.
-/

noncomputable section
open Real MeasureTheory intervalIntegral Set Filter Topology

namespace Gauss

def phi (x : ℝ) : ℝ := Real.exp (-(x ^ 2) / 2) / Real.sqrt (2 * π)

def Phi (x : ℝ) : ℝ := 1 / 2 + ∫ t in (0:ℝ)..x, phi t

theorem phi_pos (x : ℝ) : 0 < phi x := by
  unfold phi; positivity

theorem phi_even (x : ℝ) : phi (-x) = phi x := by
  unfold phi; simp

theorem phi_continuous : Continuous phi := by
  unfold phi; fun_prop

theorem phi_intervalIntegrable (a b : ℝ) : IntervalIntegrable phi volume a b :=
  phi_continuous.intervalIntegrable a b

theorem Phi_hasDerivAt (x : ℝ) : HasDerivAt Phi (phi x) x := by
  unfold Phi
  have := integral_hasDerivAt_right (phi_intervalIntegrable 0 x)
    (phi_continuous.stronglyMeasurableAtFilter _ _) phi_continuous.continuousAt
  exact this.const_add (1/2)

theorem Phi_continuous : Continuous Phi :=
  continuous_iff_continuousAt.mpr (fun x => (Phi_hasDerivAt x).continuousAt)

theorem Phi_zero : Phi 0 = 1 / 2 := by simp [Phi]

theorem deriv_Phi : deriv Phi = phi := funext (fun x => (Phi_hasDerivAt x).deriv)

theorem Phi_strictMono : StrictMono Phi := by
  apply strictMono_of_deriv_pos
  intro x; rw [(Phi_hasDerivAt x).deriv]; exact phi_pos x

theorem Phi_neg (x : ℝ) : Phi (-x) = 1 - Phi x := by
  unfold Phi
  have h : (∫ t in (0:ℝ)..(-x), phi t) = -∫ t in (0:ℝ)..x, phi t := by
    have h1 := intervalIntegral.integral_comp_neg (a := 0) (b := x) phi
    simp only [phi_even, neg_zero] at h1
    rw [h1, intervalIntegral.integral_symm]
  rw [h]; ring

theorem phi_hasDerivAt (x : ℝ) : HasDerivAt phi (-x * phi x) x := by
  unfold phi
  have h1 : HasDerivAt (fun x : ℝ => -(x ^ 2) / 2) (-x) x := by
    have h := (((hasDerivAt_id' x).fun_pow 2).fun_neg).div_const 2
    refine h.congr_deriv ?_
    simp; ring
  have h2 := (h1.exp).div_const (Real.sqrt (2 * π))
  refine h2.congr_deriv ?_
  ring

theorem phi_le_phi_zero (u : ℝ) : phi u ≤ phi 0 := by
  unfold phi
  apply div_le_div_of_nonneg_right _ (by positivity)
  apply Real.exp_le_exp.mpr
  have : 0 ≤ u ^ 2 := sq_nonneg u
  simp; linarith

/-- φ is antitone on [0, ∞) -/
theorem phi_antitoneOn : AntitoneOn phi (Ici 0) := by
  intro a ha b _ hab
  unfold phi
  apply div_le_div_of_nonneg_right _ (by positivity)
  apply Real.exp_le_exp.mpr
  have ha' : 0 ≤ a := ha
  have : a ^ 2 ≤ b ^ 2 := by nlinarith
  linarith

theorem phi_eq (x : ℝ) : phi x = Real.exp (-(1/2 : ℝ) * x ^ 2) / Real.sqrt (2 * π) := by
  unfold phi; congr 1; ring_nf

theorem phi_integrable : Integrable phi := by
  have h := (integrable_exp_neg_mul_sq (b := (1/2 : ℝ)) (by norm_num)).div_const (Real.sqrt (2 * π))
  exact h.congr (Filter.Eventually.of_forall (fun x => (phi_eq x).symm))

theorem integral_phi_Ioi : ∫ x in Ioi (0:ℝ), phi x = 1 / 2 := by
  have h : ∀ x : ℝ, phi x = Real.exp (-(1/2 : ℝ) * x ^ 2) / Real.sqrt (2 * π) := phi_eq
  simp_rw [h]
  rw [MeasureTheory.integral_div, integral_gaussian_Ioi]
  have h2 : (π / (1/2 : ℝ)) = 2 * π := by ring
  rw [h2]
  have hpos : 0 < Real.sqrt (2 * π) := Real.sqrt_pos.mpr (by positivity)
  field_simp

theorem Phi_tendsto_atTop : Tendsto Phi atTop (𝓝 1) := by
  have h := intervalIntegral_tendsto_integral_Ioi (0:ℝ) (phi_integrable.integrableOn) tendsto_id
  rw [integral_phi_Ioi] at h
  have h2 := h.const_add (1/2 : ℝ)
  have : (1/2 : ℝ) + 1/2 = 1 := by norm_num
  rw [this] at h2
  exact h2

theorem Phi_le_one (x : ℝ) : Phi x ≤ 1 :=
  Phi_strictMono.monotone.ge_of_tendsto Phi_tendsto_atTop x

theorem Phi_lt_one (x : ℝ) : Phi x < 1 :=
  lt_of_lt_of_le (Phi_strictMono (by linarith : x < x + 1)) (Phi_le_one _)

theorem Phi_pos (x : ℝ) : 0 < Phi x := by
  have := Phi_lt_one (-x)
  rw [Phi_neg] at this
  linarith

theorem Phi_nonneg (x : ℝ) : 0 ≤ Phi x := (Phi_pos x).le

theorem Phi_tendsto_atBot : Tendsto Phi atBot (𝓝 0) := by
  have h : Tendsto (fun x : ℝ => 1 - Phi (-x)) atBot (𝓝 (1 - 1)) :=
    (Phi_tendsto_atTop.comp tendsto_neg_atBot_atTop).const_sub 1
  simp only [sub_self] at h
  refine h.congr (fun x => ?_)
  rw [Phi_neg]; ring

/-- Φ is concave on [0, ∞) -/
theorem Phi_concaveOn : ConcaveOn ℝ (Ici 0) Phi := by
  apply AntitoneOn.concaveOn_of_deriv (convex_Ici 0) Phi_continuous.continuousOn
  · intro x _; exact (Phi_hasDerivAt x).differentiableAt.differentiableWithinAt
  · rw [deriv_Phi, interior_Ici]
    exact phi_antitoneOn.mono Ioi_subset_Ici_self

/-! ### Mills-type bound (G5) -/

theorem pow_pos_of_ne {u : ℝ} (h : u ≠ 0) : 0 < u ^ 2 := by positivity

def kfun (u : ℝ) : ℝ := Phi u + phi u / u

theorem kfun_hasDerivAt {u : ℝ} (hu : u ≠ 0) : HasDerivAt kfun (-(phi u) / u ^ 2) u := by
  unfold kfun
  have h := (Phi_hasDerivAt u).add ((phi_hasDerivAt u).div (hasDerivAt_id' u) hu)
  refine h.congr_deriv ?_
  field_simp
  ring

theorem kfun_strictAnti : StrictAntiOn kfun (Iio 0) := by
  apply strictAntiOn_of_deriv_neg (convex_Iio 0)
  · intro u hu
    exact (kfun_hasDerivAt (ne_of_lt hu)).continuousAt.continuousWithinAt
  · intro u hu
    rw [interior_Iio] at hu
    rw [(kfun_hasDerivAt (ne_of_lt hu)).deriv]
    have : 0 < phi u / u ^ 2 := div_pos (phi_pos u) (pow_pos_of_ne (ne_of_lt hu))
    have h2 : -(phi u) / u ^ 2 = -(phi u / u ^ 2) := by ring
    rw [h2]; linarith

theorem kfun_tendsto_atBot : Tendsto kfun atBot (𝓝 0) := by
  unfold kfun
  have h2 : Tendsto (fun u : ℝ => phi u / u) atBot (𝓝 0) := by
    have hinv : Tendsto (fun u : ℝ => u⁻¹) atBot (𝓝 0) := tendsto_inv_atBot_zero
    have hb : ∀ u : ℝ, |phi u * u⁻¹| ≤ phi 0 * |u⁻¹| := by
      intro u
      rw [abs_mul, abs_of_pos (phi_pos u)]
      exact mul_le_mul_of_nonneg_right (phi_le_phi_zero u) (abs_nonneg _)
    have hz : Tendsto (fun u : ℝ => phi 0 * |u⁻¹|) atBot (𝓝 0) := by
      have := (hinv.abs).const_mul (phi 0)
      simpa using this
    have hsq : Tendsto (fun u : ℝ => phi u * u⁻¹) atBot (𝓝 0) :=
      squeeze_zero_norm (fun u => by rw [Real.norm_eq_abs]; exact hb u) hz
    simpa [div_eq_mul_inv] using hsq
  simpa using Phi_tendsto_atBot.add h2

theorem kfun_neg {u : ℝ} (hu : u < 0) : kfun u < 0 := by
  have hanti := kfun_strictAnti
  have h1 : kfun u < kfun (u - 1) := hanti (by simp; linarith) hu (by linarith)
  have h2 : kfun (u - 1) ≤ 0 := by
    apply ge_of_tendsto kfun_tendsto_atBot
    filter_upwards [eventually_lt_atBot (u - 1)] with v hv
    exact (hanti (by simp; linarith) (by simp; linarith) hv).le
  linarith

/-- G5, Mills-type lower bound: φ(u) + u Φ(u) > 0 for every real u -/
theorem mills (u : ℝ) : 0 < phi u + u * Phi u := by
  rcases lt_or_ge u 0 with hu | hu
  · have hk := kfun_neg hu
    unfold kfun at hk
    have : u * (Phi u + phi u / u) > 0 := mul_pos_of_neg_of_neg hu hk
    have h3 : u * (Phi u + phi u / u) = phi u + u * Phi u := by
      have hne : u ≠ 0 := ne_of_lt hu
      field_simp
      ring
    linarith
  · have := phi_pos u
    have := mul_nonneg hu (Phi_nonneg u)
    linarith

/-! ### truncated moments (G6, G7, G8a) -/

/-- G6: the mean of the standard normal truncated to (a,b) lies in (a,b), Cauchy-MVT form. -/
theorem trunc_mean_mem {a b : ℝ} (hab : a < b) :
    ∃ ξ ∈ Ioo a b, (phi a - phi b) = ξ * (Phi b - Phi a) := by
  obtain ⟨c, hc, h⟩ := exists_ratio_hasDerivAt_eq_ratio_slope phi (fun x => -x * phi x) hab
    (phi_continuous.continuousOn) (fun x _ => phi_hasDerivAt x) Phi phi
    (fun x _ => (Phi_hasDerivAt x).continuousAt.continuousWithinAt) (fun x _ => Phi_hasDerivAt x)
  refine ⟨c, hc, ?_⟩
  have hp := phi_pos c
  have h' : ((Phi b - Phi a) * (-c)) * phi c = (phi b - phi a) * phi c := by
    rw [← h]; ring
  have := mul_right_cancel₀ hp.ne' h'
  linarith

theorem uphi_hasDerivAt (x : ℝ) : HasDerivAt (fun u => u * phi u) ((1 - x ^ 2) * phi x) x := by
  have h := (hasDerivAt_id' x).mul (phi_hasDerivAt x)
  refine h.congr_deriv ?_
  ring

/-- G7: the first term of W̃ equals `1 − ξ²` for some ξ in the truncation interval. -/
theorem trunc_second_moment {a b : ℝ} (hab : a < b) :
    ∃ ξ ∈ Ioo a b, (b * phi b - a * phi a) = (1 - ξ ^ 2) * (Phi b - Phi a) := by
  obtain ⟨c, hc, h⟩ := exists_ratio_hasDerivAt_eq_ratio_slope (fun u => u * phi u)
    (fun x => (1 - x ^ 2) * phi x) hab
    ((continuous_id.mul phi_continuous).continuousOn)
    (fun x _ => uphi_hasDerivAt x) Phi phi
    (fun x _ => (Phi_hasDerivAt x).continuousAt.continuousWithinAt) (fun x _ => Phi_hasDerivAt x)
  refine ⟨c, hc, ?_⟩
  have hp := phi_pos c
  have h' : ((Phi b - Phi a) * (1 - c ^ 2)) * phi c = (b * phi b - a * phi a) * phi c := by
    rw [← h]; ring
  have := mul_right_cancel₀ hp.ne' h'
  linarith

/-- G8a: W̃·Z ≥ 0 for the exact formula, from G6 alone. -/
theorem Wt_mul_Z_nonneg {a b : ℝ} (hab : a < b) :
    0 ≤ (b * phi b - a * phi a) * (Phi b - Phi a) + (phi a - phi b) ^ 2 := by
  obtain ⟨ξ, ⟨h1, h2⟩, h⟩ := trunc_mean_mem hab
  have hZ : 0 < Phi b - Phi a := sub_pos.mpr (Phi_strictMono hab)
  have ha := phi_pos a
  have hb := phi_pos b
  have : (b * phi b - a * phi a) * (Phi b - Phi a) + (phi a - phi b) ^ 2
      = (Phi b - Phi a) * (phi b * (b - ξ) + phi a * (ξ - a)) := by
    rw [h]; ring_nf
    have h3 : phi a = phi b + ξ * (Phi b - Phi a) := by linarith
    rw [h3]; ring
  rw [this]
  apply mul_nonneg hZ.le
  have := mul_nonneg hb.le (sub_nonneg.mpr h2.le)
  have := mul_nonneg ha.le (sub_nonneg.mpr h1.le)
  linarith

/-! ### the inverse distribution function on (0,1) -/

theorem Phi_surj_Ioo {p : ℝ} (h0 : 0 < p) (h1 : p < 1) : ∃ x, Phi x = p := by
  have hlo : ∃ a, Phi a ≤ p := by
    obtain ⟨a, ha⟩ := (Phi_tendsto_atBot.eventually (gt_mem_nhds h0)).exists
    exact ⟨a, ha.le⟩
  have hhi : ∃ b, p ≤ Phi b := by
    obtain ⟨b, hb⟩ := (Phi_tendsto_atTop.eventually (lt_mem_nhds h1)).exists
    exact ⟨b, hb.le⟩
  exact mem_range_of_exists_le_of_exists_ge Phi_continuous hlo hhi

open Classical in
def PhiInv (p : ℝ) : ℝ :=
  if h : 0 < p ∧ p < 1 then Classical.choose (Phi_surj_Ioo h.1 h.2) else 0

theorem Phi_PhiInv {p : ℝ} (h0 : 0 < p) (h1 : p < 1) : Phi (PhiInv p) = p := by
  unfold PhiInv
  rw [dif_pos ⟨h0, h1⟩]
  exact Classical.choose_spec (Phi_surj_Ioo h0 h1)

theorem PhiInv_nonneg {p : ℝ} (h0 : 1 / 2 ≤ p) (h1 : p < 1) : 0 ≤ PhiInv p := by
  by_contra h
  push Not at h
  have := Phi_strictMono h
  rw [Phi_PhiInv (by linarith) h1, Phi_zero] at this
  linarith

end Gauss
end
