import OSModel
/-!
# C19 — the five models accept and reject exactly the same arguments with the same class

`validateRate` / `validatePredict` use the model kind only for "a rating of this model's own class".
Re-tagging every rating of kind `k` as kind `k'` (and vice versa — the same call made against another
of the five classes with *its* own ratings in place of this one's) gives the same verdict.
-/
namespace OS

/-- the kind transposition `k ↔ k'` -/
def swapK (k k' j : Kind) : Kind := if j = k then k' else if j = k' then k else j

theorem swapK_eq_iff (k k' j : Kind) : swapK k k' j = k' ↔ j = k := by
  unfold swapK
  by_cases h1 : j = k
  · simp [h1]
  · by_cases h2 : j = k'
    · subst h2
      simp only [h1, if_false, if_true]
      constructor
      · intro h; exact absurd h.symm h1
      · intro h; exact absurd h (by simp)
    · simp only [h1, h2, if_false]

/-- the same argument value as seen by model `k'` instead of `k`: own ratings become own ratings,
the other model's ratings become the other model's -/
def swapKind (k k' : Kind) : PyVal → PyVal
  | .rating j => .rating (swapK k k' j)
  | .list xs => .list (xs.map (swapKind k k'))
  | .tuple xs => .tuple (xs.map (swapKind k k'))
  | v => v

theorem swapKind_truthy (k k' : Kind) (v : PyVal) : (swapKind k k' v).truthy = v.truthy := by
  cases v <;> simp [swapKind, PyVal.truthy]

theorem swapKind_isNumber (k k' : Kind) (v : PyVal) : (swapKind k k' v).isNumber = v.isNumber := by
  cases v <;> simp [swapKind, PyVal.isNumber]

theorem swapKind_isRatingOf (k k' : Kind) (v : PyVal) :
    (swapKind k k' v).isRatingOf k' = v.isRatingOf k := by
  cases v with
  | rating j =>
    simp only [swapKind, PyVal.isRatingOf]
    have := swapK_eq_iff k k' j
    by_cases h : j = k
    · have h' := this.mpr h
      have h1 : (k' == swapK k k' j) = true := by simp [h']
      have h2 : (k == j) = true := by simp [h]
      rw [h1, h2]
    · have h' : ¬ swapK k k' j = k' := fun e => h (this.mp e)
      have h1 : (k' == swapK k k' j) = false := by simp; exact fun e => h' e.symm
      have h2 : (k == j) = false := by simp; exact fun e => h e.symm
      rw [h1, h2]
  | _ => simp [swapKind, PyVal.isRatingOf]

theorem checkPlayers_swap (k k' : Kind) (ps : List PyVal) :
    checkPlayers k' (ps.map (swapKind k k')) = checkPlayers k ps := by
  induction ps with
  | nil => rfl
  | cons p ps ih => simp only [List.map_cons, checkPlayers, swapKind_isRatingOf, ih]

theorem checkTeamList_swap (k k' : Kind) (ts : List PyVal) :
    checkTeamList k' (ts.map (swapKind k k')) = checkTeamList k ts := by
  induction ts with
  | nil => rfl
  | cons t ts ih =>
    cases t <;> simp only [List.map_cons, checkTeamList, swapKind, List.length_map, checkPlayers_swap, ih]

theorem checkTeams_swap (k k' : Kind) (v : PyVal) :
    checkTeams k' (swapKind k k' v) = checkTeams k v := by
  cases v <;> simp only [swapKind, checkTeams, List.length_map, checkTeamList_swap]

theorem checkNumbers_swap (k k' : Kind) (xs : List PyVal) :
    checkNumbers (xs.map (swapKind k k')) = checkNumbers xs := by
  induction xs with
  | nil => rfl
  | cons x xs ih => simp only [List.map_cons, checkNumbers, swapKind_isNumber, ih]

theorem checkSelector_swap (k k' : Kind) (n : Nat) (v : PyVal) :
    checkSelector n (swapKind k k' v) = checkSelector n v := by
  unfold checkSelector
  rw [swapKind_truthy]
  cases v <;> simp only [swapKind, List.length_map, checkNumbers_swap]

theorem teamCount_swap (k k' : Kind) (v : PyVal) : teamCount (swapKind k k' v) = teamCount v := by
  cases v <;> simp [swapKind, teamCount]

/-- all five models accept and reject exactly the same `rate` arguments, with the same exception class -/
theorem C19_validateRate_kind_free (k k' : Kind) (teams ranks scores : PyVal) :
    validateRate k' (swapKind k k' teams) (swapKind k k' ranks) (swapKind k k' scores)
      = validateRate k teams ranks scores := by
  unfold validateRate
  simp only [checkTeams_swap, checkSelector_swap, teamCount_swap, swapKind_truthy]

/-- … and the same `predict_*` arguments -/
theorem C19_validatePredict_kind_free (k k' : Kind) (teams : PyVal) :
    validatePredict k' (swapKind k k' teams) = validatePredict k teams := by
  unfold validatePredict; exact checkTeams_swap k k' teams

end OS
