import OSProofs.RealInst
/-!
# What the game-level theorems need to know about the four correction functions

Game-level theorems about the Thurstone–Mosteller models take `LeafFacts L` as an explicit
hypothesis; `leafFacts_code : LeafFacts codeLeaves` (OSProofs/LeafCode.lean) discharges it for
the code's `v, w, vt, wt` from the Gaussian facts G1–G8a.  So a property quantified over all
games is reduced, by proof, to a handful of facts about four scalar functions.
-/
namespace OS

structure LeafFacts (L : Leaves ℝ) : Prop where
  /-- V ≥ 0 -/
  v_nonneg : ∀ x t : ℝ, 0 ≤ L.v x t
  /-- Mills: V(x,t) ≥ t − x -/
  v_ge : ∀ x t : ℝ, t - x ≤ L.v x t
  /-- W ≥ 0 -/
  w_nonneg : ∀ x t : ℝ, 0 ≤ L.w x t
  /-- W̃ ≥ 0 for a non-negative draw margin -/
  wt_nonneg : ∀ x t : ℝ, 0 ≤ t → 0 ≤ L.wt x t
  /-- the truncated mean lies in the truncation interval: −t − x ≤ Ṽ(x,t) ≤ t − x -/
  vt_mem : ∀ x t : ℝ, 0 ≤ t → -t - x ≤ L.vt x t ∧ L.vt x t ≤ t - x
  /-- Ṽ is odd in x away from 0 -/
  vt_odd : ∀ x t : ℝ, x ≠ 0 → L.vt (-x) t = -L.vt x t

end OS
