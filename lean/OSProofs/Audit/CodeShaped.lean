import OSProofs.CodeShaped
#print axioms OS.plSumQCode_eq
#print axioms OS.plSumQCode_eq_generic
#print axioms OS.denseRanks_nondecreasing
#print axioms OS.teamAggs_rank_nondecreasing
#print axioms OS.plSumQCode_eq_denseRanks
#print axioms OS.plSumQCode_eq_range
#print axioms OS.rankDataCode_eq
