import OSProofs.RealInst
import OSProofs.LeafFacts
import OSProofs.C02Lemmas
import OSProofs.Props.C05
import Mathlib.Tactic.Positivity
import Mathlib.Tactic.Linarith
import Mathlib.Tactic.Ring
import Mathlib.Tactic.FieldSimp
/-!
# Helper lemmas for C05b (game-level direction of learning)

* list facts: who is in `othersOf ts i`, `neighboursOf ts i`, the zipped list `plOmegaDelta` walks;
  `filter` with exactly one passing position
* sign of `sumL` from the sign of the terms
* `omegaDelta` position by position
-/
noncomputable section
namespace OS

/-! ### signs of sums -/

theorem c05_sumL_nonneg {l : List ℝ} (h : ∀ x ∈ l, 0 ≤ x) : 0 ≤ sumL l := by
  rw [sumL_eq_sum]
  induction l with
  | nil => simp
  | cons a l ih =>
    rw [List.sum_cons]
    have := h a (by simp)
    have := ih (fun x hx => h x (by simp [hx]))
    linarith

theorem sumL_nonpos {l : List ℝ} (h : ∀ x ∈ l, x ≤ 0) : sumL l ≤ 0 := by
  rw [sumL_eq_sum]
  induction l with
  | nil => simp
  | cons a l ih =>
    rw [List.sum_cons]
    have := h a (by simp)
    have := ih (fun x hx => h x (by simp [hx]))
    linarith

theorem le_sumL_of_mem {l : List ℝ} (h : ∀ x ∈ l, 0 ≤ x) {a : ℝ} (ha : a ∈ l) : a ≤ sumL l := by
  rw [sumL_eq_sum]
  induction l with
  | nil => simp at ha
  | cons b l ih =>
    rw [List.sum_cons]
    have hb := h b (by simp)
    have hl : 0 ≤ l.sum := by
      have := c05_sumL_nonneg (l := l) (fun x hx => h x (by simp [hx]))
      rwa [sumL_eq_sum] at this
    rcases List.mem_cons.mp ha with rfl | ha'
    · linarith
    · have := ih (fun x hx => h x (by simp [hx])) ha'
      linarith

theorem sumL_map_nonneg {β : Type} {l : List β} {f : β → ℝ} (h : ∀ x ∈ l, 0 ≤ f x) :
    0 ≤ sumL (l.map f) := by
  apply c05_sumL_nonneg
  intro y hy
  obtain ⟨x, hx, rfl⟩ := List.mem_map.mp hy
  exact h x hx

theorem sumL_map_nonpos {β : Type} {l : List β} {f : β → ℝ} (h : ∀ x ∈ l, f x ≤ 0) :
    sumL (l.map f) ≤ 0 := by
  apply sumL_nonpos
  intro y hy
  obtain ⟨x, hx, rfl⟩ := List.mem_map.mp hy
  exact h x hx

@[simp] theorem sumL_nil : sumL ([] : List ℝ) = 0 := by simp [sumL]
@[simp] theorem sumL_singleton (x : ℝ) : sumL [x] = x := by simp [sumL]
@[simp] theorem sumL_pair (x y : ℝ) : sumL [x, y] = x + y := by simp [sumL]

/-! ### opponents -/

/-- the opponents under full pairing are exactly the teams at the other positions -/
theorem mem_othersOf {β : Type} (ts : List β) (i : Nat) (x : β) :
    x ∈ othersOf ts i ↔ ∃ (q : Nat) (hq : q < ts.length), q ≠ i ∧ ts[q] = x := by
  unfold othersOf
  simp only [List.mem_map, List.mem_filter, List.mem_zipIdx_iff_getElem?, bne_iff_ne, ne_eq]
  constructor
  · rintro ⟨⟨y, q⟩, ⟨hy, hne⟩, rfl⟩
    simp only at hy hne ⊢
    obtain ⟨hq, hyq⟩ := List.getElem?_eq_some_iff.mp hy
    exact ⟨q, hq, hne, hyq⟩
  · rintro ⟨q, hq, hne, rfl⟩
    exact ⟨(ts[q], q), ⟨by simp [hq], hne⟩, rfl⟩

/-- the opponents under partial pairing are teams at other positions (the two neighbours) -/
theorem mem_neighboursOf {β : Type} (ts : List β) (i : Nat) (x : β) :
    x ∈ neighboursOf ts i ↔
      ∃ (q : Nat) (hq : q < ts.length), (q + 1 = i ∨ q = i + 1) ∧ ts[q] = x := by
  unfold neighboursOf
  simp only [List.mem_append, Option.mem_toList]
  constructor
  · rintro (h | h)
    · split_ifs at h with h0
      · simp at h
      · obtain ⟨hq, hx⟩ := List.getElem?_eq_some_iff.mp (Option.mem_toList.mp h)
        exact ⟨i - 1, hq, Or.inl (by omega), hx⟩
    · obtain ⟨hq, hx⟩ := List.getElem?_eq_some_iff.mp h
      exact ⟨i + 1, hq, Or.inr rfl, hx⟩
  · rintro ⟨q, hq, (h | h), rfl⟩
    · left
      have h0 : ¬ i = 0 := by omega
      rw [if_neg h0]
      have : i - 1 = q := by omega
      simp [this, hq]
    · right
      subst h
      simp [hq]

theorem ne_of_mem_neighboursOf {β : Type} (ts : List β) (i : Nat) (x : β)
    (h : x ∈ neighboursOf ts i) : ∃ (q : Nat) (hq : q < ts.length), q ≠ i ∧ ts[q] = x := by
  obtain ⟨q, hq, hne, hx⟩ := (mem_neighboursOf ts i x).mp h
  exact ⟨q, hq, by omega, hx⟩

/-! ### a filter that lets exactly one position through -/

theorem filter_eq_singleton {β : Type} (p : β → Bool) (ts : List β) (i : Nat) (hi : i < ts.length)
    (hp : p ts[i] = true) (hn : ∀ (q : Nat) (hq : q < ts.length), q ≠ i → p ts[q] = false) :
    ts.filter p = [ts[i]] := by
  have hsplit : ts = ts.take i ++ ts[i] :: ts.drop (i + 1) := by
    rw [List.getElem_cons_drop, List.take_append_drop]
  have h1 : (ts.take i).filter p = [] := by
    rw [List.filter_eq_nil_iff]
    intro a ha
    obtain ⟨q, hq, rfl⟩ := List.mem_take_iff_getElem.mp ha
    have hq' : q < ts.length := by omega
    have : q ≠ i := by omega
    simp [hn q hq' this]
  have h2 : (ts.drop (i + 1)).filter p = [] := by
    rw [List.filter_eq_nil_iff]
    intro a ha
    obtain ⟨q, hq, rfl⟩ := List.mem_drop_iff_getElem.mp ha
    have hq' : i + 1 + q < ts.length := by omega
    have : i + 1 + q ≠ i := by omega
    simp [hn (i + 1 + q) hq' this]
  conv_lhs => rw [hsplit]
  rw [List.filter_append, List.filter_cons_of_pos hp, h1, h2]
  rfl

/-! ### `omegaDelta` position by position -/

variable (L : Leaves ℝ) (P : Params ℝ) (ts : List (TeamAgg ℝ))

theorem omegaDelta_lt {K : Kind} {i : Nat} (hi : i < ts.length) :
    i < (omegaDelta K L P ts).length := by rw [omegaDelta_length]; exact hi

theorem omegaDelta_PL_getElem (i : Nat) (hi : i < ts.length) :
    (omegaDelta .PL L P ts)[i]'(omegaDelta_lt L P ts hi)
      = plOmegaDelta P.gamma ts (plC P.beta ts) (plSumQ ts (plC P.beta ts)) (plA ts) i ts[i] := by
  simp [omegaDelta]

theorem omegaDelta_BTF_getElem (i : Nat) (hi : i < ts.length) :
    (omegaDelta .BTF L P ts)[i]'(omegaDelta_lt L P ts hi)
      = sumPairs ((othersOf ts i).map (btPair P.beta P.gamma ts.length ts[i])) := by
  simp [omegaDelta]

theorem omegaDelta_BTP_getElem (i : Nat) (hi : i < ts.length) :
    (omegaDelta .BTP L P ts)[i]'(omegaDelta_lt L P ts hi)
      = sumPairs ((neighboursOf ts i).map (btPair P.beta P.gamma ts.length ts[i])) := by
  simp [omegaDelta]

theorem omegaDelta_TMF_getElem (i : Nat) (hi : i < ts.length) :
    (omegaDelta .TMF L P ts)[i]'(omegaDelta_lt L P ts hi)
      = sumPairs ((othersOf ts i).map
          (tmPair L (Scalar.ofNat 1) P.beta P.kappa P.gamma ts.length ts[i])) := by
  simp [omegaDelta]

theorem omegaDelta_TMP_getElem (i : Nat) (hi : i < ts.length) :
    (omegaDelta .TMP L P ts)[i]'(omegaDelta_lt L P ts hi)
      = sumPairs ((neighboursOf ts i).map
          (tmPair L (Scalar.ofNat 2) P.beta P.kappa P.gamma ts.length ts[i])) := by
  simp [omegaDelta]

/-! ### Plackett–Luce: alone in first / last place -/

theorem mem_plZip (ts : List (TeamAgg ℝ)) (c : ℝ) (x : (TeamAgg ℝ × ℝ × Nat) × Nat)
    (hx : x ∈ (ts.zip ((plSumQ ts c).zip (plA ts))).zipIdx) :
    ∃ (hq : x.2 < ts.length), x.1.1 = ts[x.2] ∧
      x.1.2.1 = sumL ((ts.filter (fun ti => decide (ts[x.2].rank ≤ ti.rank))).map
        (fun ti => Real.exp (ti.mu / c))) ∧
      x.1.2.2 = (ts.filter (fun q => decide (ts[x.2].rank = q.rank))).length := by
  rw [List.mem_zipIdx_iff_getElem?] at hx
  obtain ⟨hq, hv⟩ := List.getElem?_eq_some_iff.mp hx
  have hq' : x.2 < ts.length := by
    simp only [List.length_zip, plSumQ, plA, List.length_map] at hq; omega
  refine ⟨hq', ?_⟩
  rw [← hv]
  simp [plSumQ, plA]

/-- `S_q ≥ 0` -/
theorem plS_nonneg (ts : List (TeamAgg ℝ)) (c : ℝ) (r : Nat) :
    0 ≤ sumL ((ts.filter (fun ti => decide (r ≤ ti.rank))).map (fun ti => Real.exp (ti.mu / c))) :=
  sumL_map_nonneg (fun _ _ => (Real.exp_pos _).le)

/-- `S_i ≥ e_i` : team `i` is in its own sum -/
theorem plS_ge_self (ts : List (TeamAgg ℝ)) (c : ℝ) (i : Nat) (hi : i < ts.length) :
    Real.exp (ts[i].mu / c) ≤
      sumL ((ts.filter (fun ti => decide (ts[i].rank ≤ ti.rank))).map
        (fun ti => Real.exp (ti.mu / c))) := by
  apply le_sumL_of_mem
  · intro y hy
    obtain ⟨t, _, rfl⟩ := List.mem_map.mp hy
    exact (Real.exp_pos _).le
  · apply List.mem_map.mpr
    exact ⟨ts[i], List.mem_filter.mpr ⟨List.getElem_mem hi, by simp⟩, rfl⟩

theorem plOmega_sole_first (g : GammaFn ℝ) (ts : List (TeamAgg ℝ)) (c : ℝ) (hc : 0 ≤ c)
    (i : Nat) (hi : i < ts.length) (hs : 0 ≤ ts[i].sig2)
    (hfirst : ∀ (q : Nat) (hq : q < ts.length), q ≠ i → ts[i].rank < ts[q].rank) :
    0 ≤ (plOmegaDelta g ts c (plSumQ ts c) (plA ts) i ts[i]).1 := by
  simp only [plOmegaDelta, sc_exp, sc_ofNat, Nat.cast_one]
  refine mul_nonneg (sumL_map_nonneg ?_) (div_nonneg hs hc)
  intro x hx
  obtain ⟨hx, hr⟩ := List.mem_filter.mp hx
  obtain ⟨hq, h1, h2, _⟩ := mem_plZip ts c x hx
  have hr' : ts[x.2].rank ≤ ts[i].rank := by rw [← h1]; simpa using hr
  have hxi : x.2 = i := by
    by_contra hne
    have := hfirst x.2 hq hne
    omega
  rw [if_pos hxi]
  have hS : Real.exp (ts[i].mu / c) ≤ x.1.2.1 := by
    rw [h2]; subst hxi; exact plS_ge_self ts c x.2 hq
  have hpos := Real.exp_pos (ts[i].mu / c)
  refine div_nonneg (sub_nonneg.mpr ?_) (Nat.cast_nonneg _)
  rw [div_le_one (by linarith)]
  exact hS

theorem plOmega_sole_last (g : GammaFn ℝ) (ts : List (TeamAgg ℝ)) (c : ℝ) (hc : 0 ≤ c)
    (i : Nat) (hi : i < ts.length) (hs : 0 ≤ ts[i].sig2)
    (hlast : ∀ (q : Nat) (hq : q < ts.length), q ≠ i → ts[q].rank < ts[i].rank) :
    (plOmegaDelta g ts c (plSumQ ts c) (plA ts) i ts[i]).1 ≤ 0 := by
  simp only [plOmegaDelta, sc_exp, sc_ofNat, Nat.cast_one]
  refine mul_nonpos_of_nonpos_of_nonneg (sumL_map_nonpos ?_) (div_nonneg hs hc)
  intro x hx
  obtain ⟨hx, -⟩ := List.mem_filter.mp hx
  obtain ⟨hq, h1, h2, _⟩ := mem_plZip ts c x hx
  have hpos := Real.exp_pos (ts[i].mu / c)
  split_ifs with hxi
  · -- own term: S_i = e_i exactly
    have hS : x.1.2.1 = Real.exp (ts[i].mu / c) := by
      rw [h2]; subst hxi
      rw [filter_eq_singleton _ ts x.2 hq (by simp)]
      · simp
      · intro q hq' hne
        have := hlast q hq' hne
        simp only [decide_eq_false_iff_not, not_le]; exact this
    rw [hS, div_self hpos.ne', sub_self, zero_div]
  · have hS : 0 ≤ x.1.2.1 := by rw [h2]; exact plS_nonneg ts c _
    have : 0 ≤ Real.exp (ts[i].mu / c) / x.1.2.1 / (x.1.2.2 : ℝ) :=
      div_nonneg (div_nonneg hpos.le hS) (Nat.cast_nonneg _)
    linarith


/-! ### two-team games -/

/-- `c_iq` of a pair -/
def pairC (β : ℝ) (ti tq : TeamAgg ℝ) : ℝ := Real.sqrt (ti.sig2 + tq.sig2 + 2 * (β * β))

theorem pairC_nonneg (β : ℝ) (ti tq : TeamAgg ℝ) : 0 ≤ pairC β ti tq := Real.sqrt_nonneg _

theorem pairC_pos (β : ℝ) (hβ : 0 < β) (ti tq : TeamAgg ℝ) (hi : 0 ≤ ti.sig2) (hq : 0 ≤ tq.sig2) :
    0 < pairC β ti tq := by
  apply Real.sqrt_pos.mpr
  have : 0 < β * β := mul_pos hβ hβ
  linarith

/-- the Bradley–Terry win probability of `ti` over `tq` -/
def btP (β : ℝ) (ti tq : TeamAgg ℝ) : ℝ := 1 / (1 + Real.exp ((tq.mu - ti.mu) / pairC β ti tq))

theorem btPair_fst_win (β : ℝ) (g : GammaFn ℝ) (n : Nat) (ti tq : TeamAgg ℝ) (h : ti.rank < tq.rank) :
    (btPair β g n ti tq).1 = ti.sig2 / pairC β ti tq * (1 - btP β ti tq) := by
  simp [btPair, if_pos h, pairC, btP]

theorem btPair_fst_draw (β : ℝ) (g : GammaFn ℝ) (n : Nat) (ti tq : TeamAgg ℝ) (h : ti.rank = tq.rank) :
    (btPair β g n ti tq).1 = ti.sig2 / pairC β ti tq * (1 / 2 - btP β ti tq) := by
  simp [btPair, h, pairC, btP]

theorem btPair_fst_loss (β : ℝ) (g : GammaFn ℝ) (n : Nat) (ti tq : TeamAgg ℝ) (h : tq.rank < ti.rank) :
    (btPair β g n ti tq).1 = ti.sig2 / pairC β ti tq * (0 - btP β ti tq) := by
  have h1 : ¬ ti.rank < tq.rank := by omega
  have h2 : ¬ tq.rank = ti.rank := by omega
  simp [btPair, h1, h2, pairC, btP]

theorem tmPair_fst_win (L : Leaves ℝ) (cmul β κ : ℝ) (g : GammaFn ℝ) (n : Nat) (ti tq : TeamAgg ℝ)
    (h : ti.rank < tq.rank) :
    (tmPair L cmul β κ g n ti tq).1 = ti.sig2 / (cmul * pairC β ti tq) *
      L.v ((ti.mu - tq.mu) / (cmul * pairC β ti tq)) (κ / (cmul * pairC β ti tq)) := by
  simp [tmPair, if_pos h, pairC]

theorem tmPair_fst_draw (L : Leaves ℝ) (cmul β κ : ℝ) (g : GammaFn ℝ) (n : Nat) (ti tq : TeamAgg ℝ)
    (h : ti.rank = tq.rank) :
    (tmPair L cmul β κ g n ti tq).1 = ti.sig2 / (cmul * pairC β ti tq) *
      L.vt ((ti.mu - tq.mu) / (cmul * pairC β ti tq)) (κ / (cmul * pairC β ti tq)) := by
  simp [tmPair, h, pairC]

theorem tmPair_fst_loss (L : Leaves ℝ) (cmul β κ : ℝ) (g : GammaFn ℝ) (n : Nat) (ti tq : TeamAgg ℝ)
    (h : tq.rank < ti.rank) :
    (tmPair L cmul β κ g n ti tq).1 = -(ti.sig2 / (cmul * pairC β ti tq)) *
      L.v (-((ti.mu - tq.mu) / (cmul * pairC β ti tq))) (κ / (cmul * pairC β ti tq)) := by
  have h1 : ¬ ti.rank < tq.rank := by omega
  simp [tmPair, h1, if_pos h, pairC]

theorem two_lt (K : Kind) (L : Leaves ℝ) (P : Params ℝ) (a b : TeamAgg ℝ) :
    0 < (omegaDelta K L P [a, b]).length := by simp [omegaDelta_length]

theorem two_BTF (L : Leaves ℝ) (P : Params ℝ) (a b : TeamAgg ℝ) :
    ((omegaDelta .BTF L P [a, b])[0]'(two_lt _ L P a b)).1 = (btPair P.beta P.gamma 2 a b).1 := by
  simp [omegaDelta, othersOf, List.zipIdx, List.filter, sumPairs]

theorem two_BTP (L : Leaves ℝ) (P : Params ℝ) (a b : TeamAgg ℝ) :
    ((omegaDelta .BTP L P [a, b])[0]'(two_lt _ L P a b)).1 = (btPair P.beta P.gamma 2 a b).1 := by
  simp [omegaDelta, neighboursOf, List.zipIdx, sumPairs]

theorem two_TMF (L : Leaves ℝ) (P : Params ℝ) (a b : TeamAgg ℝ) :
    ((omegaDelta .TMF L P [a, b])[0]'(two_lt _ L P a b)).1
      = (tmPair L 1 P.beta P.kappa P.gamma 2 a b).1 := by
  simp [omegaDelta, othersOf, List.zipIdx, List.filter, sumPairs]

theorem two_TMP (L : Leaves ℝ) (P : Params ℝ) (a b : TeamAgg ℝ) :
    ((omegaDelta .TMP L P [a, b])[0]'(two_lt _ L P a b)).1
      = (tmPair L 2 P.beta P.kappa P.gamma 2 a b).1 := by
  simp [omegaDelta, neighboursOf, List.zipIdx, sumPairs]

/-- the Plackett–Luce probability that `a` comes first of `[a, b]` -/
def plP (c : ℝ) (a b : TeamAgg ℝ) : ℝ :=
  Real.exp (a.mu / c) / (Real.exp (a.mu / c) + Real.exp (b.mu / c))

theorem two_PL_win (L : Leaves ℝ) (P : Params ℝ) (a b : TeamAgg ℝ) (h : a.rank < b.rank) :
    ((omegaDelta .PL L P [a, b])[0]'(two_lt _ L P a b)).1
      = a.sig2 / plC P.beta [a, b] * (1 - plP (plC P.beta [a, b]) a b) := by
  rw [mul_comm]
  have h1 : a.rank ≤ b.rank := by omega
  have h2 : ¬ a.rank = b.rank := by omega
  have h3 : ¬ b.rank ≤ a.rank := by omega
  simp [omegaDelta, List.zipIdx, plOmegaDelta, plSumQ, plA, List.filter, h1, h2, h3, plP]

theorem two_PL_draw (L : Leaves ℝ) (P : Params ℝ) (a b : TeamAgg ℝ) (h : a.rank = b.rank) :
    ((omegaDelta .PL L P [a, b])[0]'(two_lt _ L P a b)).1
      = a.sig2 / plC P.beta [a, b] * (1 / 2 - plP (plC P.beta [a, b]) a b) := by
  rw [mul_comm]
  simp [omegaDelta, List.zipIdx, plOmegaDelta, plSumQ, plA, List.filter, h, plP]
  left
  ring

theorem two_PL_loss (L : Leaves ℝ) (P : Params ℝ) (a b : TeamAgg ℝ) (h : b.rank < a.rank) :
    ((omegaDelta .PL L P [a, b])[0]'(two_lt _ L P a b)).1
      = a.sig2 / plC P.beta [a, b] * (0 - plP (plC P.beta [a, b]) a b) := by
  rw [mul_comm]
  have h1 : ¬ a.rank ≤ b.rank := by omega
  have h2 : ¬ a.rank = b.rank := by omega
  have h2' : ¬ b.rank = a.rank := by omega
  have h3 : b.rank ≤ a.rank := by omega
  simp [omegaDelta, List.zipIdx, plOmegaDelta, plSumQ, plA, List.filter, h1, h2, h2', h3, plP]


theorem btP_mem (β : ℝ) (ti tq : TeamAgg ℝ) : 0 < btP β ti tq ∧ btP β ti tq < 1 := logistic_mem _

theorem logistic_ge_half {x : ℝ} (h : x ≤ 0) : 1 / 2 ≤ 1 / (1 + Real.exp x) := by
  have h1 : Real.exp x ≤ 1 := Real.exp_le_one_iff.mpr h
  have h0 := Real.exp_pos x
  rw [div_le_div_iff₀ (by norm_num) (by linarith)]
  linarith

theorem logistic_le_half {x : ℝ} (h : 0 ≤ x) : 1 / (1 + Real.exp x) ≤ 1 / 2 := by
  have h1 : 1 ≤ Real.exp x := Real.one_le_exp_iff.mpr h
  rw [div_le_div_iff₀ (by linarith) (by norm_num)]
  linarith

theorem logistic_gt_half {x : ℝ} (h : x < 0) : 1 / 2 < 1 / (1 + Real.exp x) := by
  have h1 : Real.exp x < 1 := Real.exp_lt_one_iff.mpr h
  have h0 := Real.exp_pos x
  rw [div_lt_div_iff₀ (by norm_num) (by linarith)]
  linarith

theorem logistic_lt_half {x : ℝ} (h : 0 < x) : 1 / (1 + Real.exp x) < 1 / 2 := by
  have h1 : 1 < Real.exp x := Real.one_lt_exp_iff.mpr h
  rw [div_lt_div_iff₀ (by linarith) (by norm_num)]
  linarith

theorem btP_ge_half (β : ℝ) (ti tq : TeamAgg ℝ) (h : tq.mu ≤ ti.mu) : 1 / 2 ≤ btP β ti tq :=
  logistic_ge_half (div_nonpos_of_nonpos_of_nonneg (by linarith) (pairC_nonneg _ _ _))

theorem btP_le_half (β : ℝ) (ti tq : TeamAgg ℝ) (h : ti.mu ≤ tq.mu) : btP β ti tq ≤ 1 / 2 :=
  logistic_le_half (div_nonneg (by linarith) (pairC_nonneg _ _ _))

theorem btP_gt_half (β : ℝ) (ti tq : TeamAgg ℝ) (hc : 0 < pairC β ti tq) (h : tq.mu < ti.mu) :
    1 / 2 < btP β ti tq :=
  logistic_gt_half (div_neg_of_neg_of_pos (by linarith) hc)

theorem btP_lt_half (β : ℝ) (ti tq : TeamAgg ℝ) (hc : 0 < pairC β ti tq) (h : ti.mu < tq.mu) :
    btP β ti tq < 1 / 2 :=
  logistic_lt_half (div_pos (by linarith) hc)

theorem plP_mem (c : ℝ) (a b : TeamAgg ℝ) : 0 < plP c a b ∧ plP c a b < 1 := by
  unfold plP
  have ha := Real.exp_pos (a.mu / c)
  have hb := Real.exp_pos (b.mu / c)
  constructor
  · positivity
  · rw [div_lt_one (by positivity)]; linarith

theorem plP_ge_half (c : ℝ) (hc : 0 ≤ c) (a b : TeamAgg ℝ) (h : b.mu ≤ a.mu) : 1 / 2 ≤ plP c a b := by
  unfold plP
  have ha := Real.exp_pos (a.mu / c)
  have hb := Real.exp_pos (b.mu / c)
  have : Real.exp (b.mu / c) ≤ Real.exp (a.mu / c) :=
    Real.exp_le_exp.mpr (div_le_div_of_nonneg_right h hc)
  rw [div_le_div_iff₀ (by norm_num) (by positivity)]
  linarith

theorem plP_le_half (c : ℝ) (hc : 0 ≤ c) (a b : TeamAgg ℝ) (h : a.mu ≤ b.mu) : plP c a b ≤ 1 / 2 := by
  unfold plP
  have ha := Real.exp_pos (a.mu / c)
  have hb := Real.exp_pos (b.mu / c)
  have : Real.exp (a.mu / c) ≤ Real.exp (b.mu / c) :=
    Real.exp_le_exp.mpr (div_le_div_of_nonneg_right h hc)
  rw [div_le_div_iff₀ (by positivity) (by norm_num)]
  linarith

theorem plP_gt_half (c : ℝ) (hc : 0 < c) (a b : TeamAgg ℝ) (h : b.mu < a.mu) : 1 / 2 < plP c a b := by
  unfold plP
  have ha := Real.exp_pos (a.mu / c)
  have hb := Real.exp_pos (b.mu / c)
  have : Real.exp (b.mu / c) < Real.exp (a.mu / c) :=
    Real.exp_lt_exp.mpr (div_lt_div_of_pos_right h hc)
  rw [div_lt_div_iff₀ (by norm_num) (by positivity)]
  linarith

theorem plP_lt_half (c : ℝ) (hc : 0 < c) (a b : TeamAgg ℝ) (h : a.mu < b.mu) : plP c a b < 1 / 2 := by
  unfold plP
  have ha := Real.exp_pos (a.mu / c)
  have hb := Real.exp_pos (b.mu / c)
  have : Real.exp (a.mu / c) < Real.exp (b.mu / c) :=
    Real.exp_lt_exp.mpr (div_lt_div_of_pos_right h hc)
  rw [div_lt_div_iff₀ (by positivity) (by norm_num)]
  linarith

/-- `plC` does not look at ranks -/
theorem plC_two_rank (β : ℝ) (a b : TeamAgg ℝ) (ra rb : Nat) :
    plC β [{ a with rank := ra }, { b with rank := rb }] = plC β [a, b] := by
  simp [plC]

theorem plC_two_pos (β : ℝ) (hβ : 0 < β) (a b : TeamAgg ℝ) (ha : 0 ≤ a.sig2) (hb : 0 ≤ b.sig2) :
    0 < plC β [a, b] := by
  simp only [plC, List.map_cons, List.map_nil, sumL_pair, sc_sqrt]
  apply Real.sqrt_pos.mpr
  have : 0 < β * β := mul_pos hβ hβ
  linarith

theorem pairC_rank (β : ℝ) (a b : TeamAgg ℝ) (ra rb : Nat) :
    pairC β { a with rank := ra } { b with rank := rb } = pairC β a b := rfl

theorem btP_rank (β : ℝ) (a b : TeamAgg ℝ) (ra rb : Nat) :
    btP β { a with rank := ra } { b with rank := rb } = btP β a b := rfl

theorem plP_rank (c : ℝ) (a b : TeamAgg ℝ) (ra rb : Nat) :
    plP c { a with rank := ra } { b with rank := rb } = plP c a b := rfl

/-- `k·(s − p)` for `s = 0, 1/2, 1` with `k ≥ 0`, `0 ≤ p ≤ 1` -/
theorem scale_chain {k p : ℝ} (hk : 0 ≤ k) (hp0 : 0 ≤ p) (hp1 : p ≤ 1) :
    k * (0 - p) ≤ k * (1 / 2 - p) ∧ k * (1 / 2 - p) ≤ k * (1 - p) ∧
      k * (0 - p) ≤ 0 ∧ 0 ≤ k * (1 - p) := by
  refine ⟨mul_le_mul_of_nonneg_left (by linarith) hk, mul_le_mul_of_nonneg_left (by linarith) hk,
    mul_nonpos_of_nonneg_of_nonpos hk (by linarith), mul_nonneg hk (by linarith)⟩

/-- `−k·V(−x,t) ≤ k·(−t−x) ≤ k·Ṽ(x,t) ≤ k·(t−x) ≤ k·V(x,t)` -/
theorem tm_chain {L : Leaves ℝ} (hL : LeafFacts L) {k t : ℝ} (x : ℝ) (hk : 0 ≤ k) (ht : 0 ≤ t) :
    -k * L.v (-x) t ≤ k * L.vt x t ∧ k * L.vt x t ≤ k * L.v x t ∧
      -k * L.v (-x) t ≤ 0 ∧ 0 ≤ k * L.v x t := by
  have h1 := hL.v_ge (-x) t
  have h2 := hL.v_ge x t
  have h3 := hL.vt_mem x t ht
  have h4 := hL.v_nonneg (-x) t
  have h5 := hL.v_nonneg x t
  have e : -k * L.v (-x) t = k * (-L.v (-x) t) := by ring
  rw [e]
  refine ⟨mul_le_mul_of_nonneg_left (by linarith) hk, mul_le_mul_of_nonneg_left (by linarith) hk,
    mul_nonpos_of_nonneg_of_nonpos hk (by linarith), mul_nonneg hk h5⟩

/-! ### `compute` position by position -/

theorem c05_teamAggs_getElem (teams : List (List (Rating ℝ))) (dense : List Nat) (i : Nat)
    (h1 : i < teams.length) (h2 : i < dense.length) :
    (teamAggs teams dense)[i]'(by rw [teamAggs_length]; omega) = teamAgg teams[i] dense[i] := by
  simp [teamAggs]

theorem c05_teamAgg_sig2_nonneg (team : List (Rating ℝ)) (rk : Nat) : 0 ≤ (teamAgg team rk).sig2 :=
  sumL_map_nonneg (fun p _ => mul_self_nonneg p.sigma)

theorem compute_lt {K : Kind} {L : Leaves ℝ} {P : Params ℝ} {teams : List (List (Rating ℝ))}
    {dense : List Nat} {i : Nat} (h1 : i < teams.length) (h2 : i < dense.length) :
    i < (compute K L P teams dense).length := by
  simp [compute, omegaDelta_length, teamAggs_length]; omega

theorem compute_getElem (K : Kind) (L : Leaves ℝ) (P : Params ℝ) (teams : List (List (Rating ℝ)))
    (dense : List Nat) (i : Nat) (h1 : i < teams.length) (h2 : i < dense.length) :
    (compute K L P teams dense)[i]'(compute_lt h1 h2) =
      applyTeam P.kappa ((teamAggs teams dense)[i]'(by rw [teamAggs_length]; omega))
        ((omegaDelta K L P (teamAggs teams dense))[i]'(by
          rw [omegaDelta_length, teamAggs_length]; omega)).1
        ((omegaDelta K L P (teamAggs teams dense))[i]'(by
          rw [omegaDelta_length, teamAggs_length]; omega)).2 := by
  simp [compute]


/-! ### full pairing = "everybody but position `i`" -/

theorem othersOf_aux {β : Type} (ts : List β) (k i : Nat) :
    ((ts.zipIdx k).filter (fun x => x.2 != k + i)).map (·.1) = ts.eraseIdx i := by
  induction ts generalizing k i with
  | nil => simp
  | cons a l ih =>
    cases i with
    | zero =>
      have hall : ∀ x ∈ l.zipIdx (k + 1), (x.2 != k) = true := by
        intro x hx
        have := (List.mem_zipIdx_iff_le_and_getElem?_sub.mp hx).1
        simp only [bne_iff_ne, ne_eq]; omega
      simp only [List.zipIdx_cons, Nat.add_zero, List.eraseIdx_zero, List.tail_cons]
      rw [List.filter_cons_of_neg (by simp), List.filter_eq_self.mpr hall]
      simp
    | succ j =>
      simp only [List.zipIdx_cons, List.eraseIdx_cons_succ]
      rw [List.filter_cons_of_pos (by simp)]
      have := ih (k + 1) j
      rw [show k + 1 + j = k + (j + 1) by omega] at this
      simp [this]

theorem othersOf_eq_eraseIdx {β : Type} (ts : List β) (i : Nat) : othersOf ts i = ts.eraseIdx i := by
  have := othersOf_aux ts 0 i
  simpa [othersOf] using this

theorem c05_sum_map_eraseIdx {β : Type} (F : β → ℝ) (ts : List β) (i : Nat) (hi : i < ts.length) :
    F ts[i] + ((ts.eraseIdx i).map F).sum = (ts.map F).sum := by
  induction ts generalizing i with
  | nil => simp at hi
  | cons a l ih =>
    cases i with
    | zero => simp
    | succ j =>
      have := ih j (by simpa using hi)
      simp only [List.getElem_cons_succ, List.eraseIdx_cons_succ, List.map_cons, List.sum_cons]
      linarith

/-- the sum over the opponents is the sum over everybody minus the own term -/
theorem sumL_othersOf {β : Type} (F : β → ℝ) (ts : List β) (i : Nat) (hi : i < ts.length) :
    sumL ((othersOf ts i).map F) = sumL (ts.map F) - F ts[i] := by
  rw [sumL_eq_sum, sumL_eq_sum, othersOf_eq_eraseIdx, ← c05_sum_map_eraseIdx F ts i hi]
  ring

theorem sumL_map_le {β : Type} {l : List β} {f g : β → ℝ} (h : ∀ x ∈ l, f x ≤ g x) :
    sumL (l.map f) ≤ sumL (l.map g) := by
  rw [sumL_eq_sum, sumL_eq_sum]
  induction l with
  | nil => simp
  | cons a l ih =>
    simp only [List.map_cons, List.sum_cons]
    have := h a (by simp)
    have := ih (fun x hx => h x (by simp [hx]))
    linarith

/-- the Bradley–Terry score of `ti` against `tq`: 1 win, 1/2 draw, 0 loss -/
def btS (ti tq : TeamAgg ℝ) : ℝ :=
  if ti.rank < tq.rank then 1 else if tq.rank = ti.rank then 1 / 2 else 0

theorem btPair_fst (β : ℝ) (g : GammaFn ℝ) (n : Nat) (ti tq : TeamAgg ℝ) :
    (btPair β g n ti tq).1 = ti.sig2 / pairC β ti tq * (btS ti tq - btP β ti tq) := by
  unfold btS
  split_ifs with h1 h2
  · exact btPair_fst_win β g n ti tq h1
  · exact btPair_fst_draw β g n ti tq h2.symm
  · exact btPair_fst_loss β g n ti tq (by omega)

theorem btS_mono (ti tk tq : TeamAgg ℝ) (h : ti.rank < tk.rank) : btS tk tq ≤ btS ti tq := by
  unfold btS
  split_ifs <;> first | omega | norm_num

theorem btPair_fst_self (β : ℝ) (g : GammaFn ℝ) (n : Nat) (ti : TeamAgg ℝ) :
    (btPair β g n ti ti).1 = 0 := by
  have hS : btS ti ti = 1 / 2 := by simp [btS]
  have hP : btP β ti ti = 1 / 2 := by
    unfold btP
    rw [sub_self, zero_div, Real.exp_zero]; norm_num
  rw [btPair_fst, hS, hP, sub_self, mul_zero]


/-- Thurstone–Mosteller, same opponent, twins `ti`, `tk` (same mu, same variance), `ti` placed
strictly better: the pair term of `tk` is at most the pair term of `ti` -/
theorem tmPair_fst_twin_le {L : Leaves ℝ} (hL : LeafFacts L) (cmul β κ : ℝ) (g : GammaFn ℝ) (n : Nat)
    (ti tk tq : TeamAgg ℝ) (hc : 0 ≤ cmul) (hκ : 0 ≤ κ) (hs : 0 ≤ ti.sig2)
    (hmu : ti.mu = tk.mu) (hsig : ti.sig2 = tk.sig2) (hr : ti.rank < tk.rank) :
    (tmPair L cmul β κ g n tk tq).1 ≤ (tmPair L cmul β κ g n ti tq).1 := by
  have hC : pairC β tk tq = pairC β ti tq := by unfold pairC; rw [hsig]
  have hc' : 0 ≤ cmul * pairC β ti tq := mul_nonneg hc (pairC_nonneg _ _ _)
  have hk : 0 ≤ ti.sig2 / (cmul * pairC β ti tq) := div_nonneg hs hc'
  have ht : 0 ≤ κ / (cmul * pairC β ti tq) := div_nonneg hκ hc'
  obtain ⟨c1, c2, c3, c4⟩ := tm_chain hL ((ti.mu - tq.mu) / (cmul * pairC β ti tq)) hk ht
  rcases lt_trichotomy tk.rank tq.rank with h | h | h
  · rw [tmPair_fst_win _ _ _ _ _ _ _ _ h, tmPair_fst_win _ _ _ _ _ _ _ _ (show ti.rank < tq.rank by omega),
      hC, ← hmu, ← hsig]
  · rw [tmPair_fst_draw _ _ _ _ _ _ _ _ h, tmPair_fst_win _ _ _ _ _ _ _ _ (show ti.rank < tq.rank by omega),
      hC, ← hmu, ← hsig]
    exact c2
  · rw [tmPair_fst_loss _ _ _ _ _ _ _ _ h, hC, ← hmu, ← hsig]
    rcases lt_trichotomy ti.rank tq.rank with h' | h' | h'
    · rw [tmPair_fst_win _ _ _ _ _ _ _ _ h']; linarith
    · rw [tmPair_fst_draw _ _ _ _ _ _ _ _ h']; exact c1
    · rw [tmPair_fst_loss _ _ _ _ _ _ _ _ h']

theorem tmPair_fst_self_twin (L : Leaves ℝ) (cmul β κ : ℝ) (g : GammaFn ℝ) (n : Nat)
    (ti tk : TeamAgg ℝ) (hsig : ti.sig2 = tk.sig2) :
    (tmPair L cmul β κ g n tk tk).1 = (tmPair L cmul β κ g n ti ti).1 := by
  have hC : pairC β tk tk = pairC β ti ti := by unfold pairC; rw [hsig]
  rw [tmPair_fst_draw _ _ _ _ _ _ _ _ rfl, tmPair_fst_draw _ _ _ _ _ _ _ _ rfl, hC, ← hsig, sub_self,
    sub_self]

end OS
end
