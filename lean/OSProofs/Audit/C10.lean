import OSProofs.Gauss
#print axioms Gauss.Phi_concaveOn
#print axioms Gauss.phi_antitoneOn
#print axioms Gauss.Phi_PhiInv
#print axioms Gauss.PhiInv_nonneg
