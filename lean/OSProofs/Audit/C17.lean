import OSProofs.Gauss
#print axioms Gauss.mills
#print axioms Gauss.trunc_mean_mem
#print axioms Gauss.trunc_second_moment
#print axioms Gauss.Wt_mul_Z_nonneg
#print axioms Gauss.Phi_strictMono
#print axioms Gauss.Phi_pos
#print axioms Gauss.Phi_lt_one
