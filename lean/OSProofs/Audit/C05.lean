import OSProofs.Props.C05
#print axioms OS.C05_same_direction
#print axioms OS.C05_btPair_win_nonneg
#print axioms OS.C05_btPair_loss_nonpos
#print axioms OS.C05_btPair_loss_le_draw_le_win
#print axioms OS.C05_tmPair_sign
