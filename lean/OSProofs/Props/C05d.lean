import OSProofs.LiftLemmas
/-!
# C05d — direction of learning, at the level of `rate`

`C05b` proves "a team alone in first place never loses mu, a team alone in last place never gains
mu" for `_compute` (teams already rank-sorted, dense ranks given).  Here the statement is lifted to
the public operation

  `rate` = tau inflation → stable sort by the rank values → dense ranks → `_compute` → un-sort →
           optional `limit_sigma` clamp,

on the caller's data: the teams in the caller's order, the ORIGINAL rank values `r` (any type `ρ`
with a total, transitive Boolean comparison `le`), the result in the caller's order.  All five
models, any tau, clamp on or off, no hypothesis on the ratings or on `β`, `κ`, `γ`.  The two
Thurstone–Mosteller models need the leaf facts (`V ≥ 0`), the other three nothing.

"Strictly better than team `q`" is `le r[q] r[i] = false`; by totality this is the same as
`le r[i] r[q] = true ∧ le r[q] r[i] = false`.

* `C05_rate_sole_first`, `C05_rate_sole_last`                      `ranks = r`
* `C05_rate_sole_first'`, `C05_rate_sole_last'`                    the same with the two-sided hypothesis
* `C05_rate_scores_sole_first`, `C05_rate_scores_sole_last`        `scores = s`, via `neg`
* `C05_rate_scores_sole_first_of_neg`, `…_last_of_neg`            `scores = s`, hypothesis on the scores
                                                                  themselves when `neg` reverses `le`
* `C05_rate_omitted_first`, `C05_rate_omitted_last`                outcome omitted: team `0` / team `n−1`
-/

noncomputable section
namespace OS
variable {ρ : Type}

/-! ## ranks -/

/-- **Sole winner, `rate` with ranks, all five models.**  If team `i`'s rank value is strictly
better (smaller) than every other team's, then no member of the returned team `i` has a smaller mu
than the corresponding member passed in. -/
theorem C05_rate_sole_first (K : Kind) (L : Leaves ℝ) (hL : K = .TMF ∨ K = .TMP → LeafFacts L)
    (P : Params ℝ) (le : ρ → ρ → Bool) (neg : ρ → ρ)
    (total : ∀ a b, (le a b || le b a) = true)
    (trans : ∀ a b c, le a b = true → le b c = true → le a c = true)
    (teams : List (List (Rating ℝ))) (r : List ρ) (o : CallOpts ℝ)
    (hlen : r.length = teams.length) (i : Nat) (hi : i < teams.length)
    (hfirst : ∀ (q : Nat) (hq : q < teams.length), q ≠ i →
      le (r[q]'(hlen ▸ hq)) (r[i]'(hlen ▸ hi)) = false) :
    List.Forall₂ (fun p p' => p.mu ≤ p'.mu) teams[i]
      ((rate K L P le neg teams (.ranks r) o)[i]'(by
        rw [lft_rate_length K L P le neg teams (.ranks r) o hlen]; exact hi)) :=
  lft_of_getElem? _ i _ _
    (lft_rateCore_sole_first K L hL P le total trans teams r o hlen i hi hfirst)

/-- **Sole loser, `rate` with ranks, all five models.**  If team `i`'s rank value is strictly worse
(larger) than every other team's, then no member of the returned team `i` has a larger mu than the
corresponding member passed in. -/
theorem C05_rate_sole_last (K : Kind) (L : Leaves ℝ) (hL : K = .TMF ∨ K = .TMP → LeafFacts L)
    (P : Params ℝ) (le : ρ → ρ → Bool) (neg : ρ → ρ)
    (total : ∀ a b, (le a b || le b a) = true)
    (trans : ∀ a b c, le a b = true → le b c = true → le a c = true)
    (teams : List (List (Rating ℝ))) (r : List ρ) (o : CallOpts ℝ)
    (hlen : r.length = teams.length) (i : Nat) (hi : i < teams.length)
    (hlast : ∀ (q : Nat) (hq : q < teams.length), q ≠ i →
      le (r[i]'(hlen ▸ hi)) (r[q]'(hlen ▸ hq)) = false) :
    List.Forall₂ (fun p p' => p'.mu ≤ p.mu) teams[i]
      ((rate K L P le neg teams (.ranks r) o)[i]'(by
        rw [lft_rate_length K L P le neg teams (.ranks r) o hlen]; exact hi)) :=
  lft_of_getElem? _ i _ _
    (lft_rateCore_sole_last K L hL P le total trans teams r o hlen i hi hlast)

/-- `C05_rate_sole_first` with the two-sided hypothesis `r[i] ≤ r[q]` and not `r[q] ≤ r[i]`. -/
theorem C05_rate_sole_first' (K : Kind) (L : Leaves ℝ) (hL : K = .TMF ∨ K = .TMP → LeafFacts L)
    (P : Params ℝ) (le : ρ → ρ → Bool) (neg : ρ → ρ)
    (total : ∀ a b, (le a b || le b a) = true)
    (trans : ∀ a b c, le a b = true → le b c = true → le a c = true)
    (teams : List (List (Rating ℝ))) (r : List ρ) (o : CallOpts ℝ)
    (hlen : r.length = teams.length) (i : Nat) (hi : i < teams.length)
    (hfirst : ∀ (q : Nat) (hq : q < teams.length), q ≠ i →
      le (r[i]'(hlen ▸ hi)) (r[q]'(hlen ▸ hq)) = true ∧
      le (r[q]'(hlen ▸ hq)) (r[i]'(hlen ▸ hi)) = false) :
    List.Forall₂ (fun p p' => p.mu ≤ p'.mu) teams[i]
      ((rate K L P le neg teams (.ranks r) o)[i]'(by
        rw [lft_rate_length K L P le neg teams (.ranks r) o hlen]; exact hi)) :=
  C05_rate_sole_first K L hL P le neg total trans teams r o hlen i hi
    (fun q hq hne => (hfirst q hq hne).2)

/-- `C05_rate_sole_last` with the two-sided hypothesis `r[q] ≤ r[i]` and not `r[i] ≤ r[q]`. -/
theorem C05_rate_sole_last' (K : Kind) (L : Leaves ℝ) (hL : K = .TMF ∨ K = .TMP → LeafFacts L)
    (P : Params ℝ) (le : ρ → ρ → Bool) (neg : ρ → ρ)
    (total : ∀ a b, (le a b || le b a) = true)
    (trans : ∀ a b c, le a b = true → le b c = true → le a c = true)
    (teams : List (List (Rating ℝ))) (r : List ρ) (o : CallOpts ℝ)
    (hlen : r.length = teams.length) (i : Nat) (hi : i < teams.length)
    (hlast : ∀ (q : Nat) (hq : q < teams.length), q ≠ i →
      le (r[q]'(hlen ▸ hq)) (r[i]'(hlen ▸ hi)) = true ∧
      le (r[i]'(hlen ▸ hi)) (r[q]'(hlen ▸ hq)) = false) :
    List.Forall₂ (fun p p' => p'.mu ≤ p.mu) teams[i]
      ((rate K L P le neg teams (.ranks r) o)[i]'(by
        rw [lft_rate_length K L P le neg teams (.ranks r) o hlen]; exact hi)) :=
  C05_rate_sole_last K L hL P le neg total trans teams r o hlen i hi
    (fun q hq hne => (hlast q hq hne).2)

/-! ## scores -/

/-- **Sole winner, `rate` with scores.**  Scores reach the models as `neg s[q]`; if team `i`'s
negated score is strictly smaller than every other team's, nobody in team `i` loses mu.  (No
assumption on `neg`.) -/
theorem C05_rate_scores_sole_first (K : Kind) (L : Leaves ℝ)
    (hL : K = .TMF ∨ K = .TMP → LeafFacts L)
    (P : Params ℝ) (le : ρ → ρ → Bool) (neg : ρ → ρ)
    (total : ∀ a b, (le a b || le b a) = true)
    (trans : ∀ a b c, le a b = true → le b c = true → le a c = true)
    (teams : List (List (Rating ℝ))) (s : List ρ) (o : CallOpts ℝ)
    (hlen : s.length = teams.length) (i : Nat) (hi : i < teams.length)
    (hfirst : ∀ (q : Nat) (hq : q < teams.length), q ≠ i →
      le (neg (s[q]'(hlen ▸ hq))) (neg (s[i]'(hlen ▸ hi))) = false) :
    List.Forall₂ (fun p p' => p.mu ≤ p'.mu) teams[i]
      ((rate K L P le neg teams (.scores s) o)[i]'(by
        rw [lft_rate_length K L P le neg teams (.scores s) o hlen]; exact hi)) := by
  have hlen' : (s.map neg).length = teams.length := by rw [List.length_map]; exact hlen
  exact lft_of_getElem? _ i _ _
    (lft_rateCore_sole_first K L hL P le total trans teams (s.map neg) o hlen' i hi
      (fun q hq hne => by simpa only [List.getElem_map] using hfirst q hq hne))

/-- **Sole loser, `rate` with scores** (no assumption on `neg`). -/
theorem C05_rate_scores_sole_last (K : Kind) (L : Leaves ℝ)
    (hL : K = .TMF ∨ K = .TMP → LeafFacts L)
    (P : Params ℝ) (le : ρ → ρ → Bool) (neg : ρ → ρ)
    (total : ∀ a b, (le a b || le b a) = true)
    (trans : ∀ a b c, le a b = true → le b c = true → le a c = true)
    (teams : List (List (Rating ℝ))) (s : List ρ) (o : CallOpts ℝ)
    (hlen : s.length = teams.length) (i : Nat) (hi : i < teams.length)
    (hlast : ∀ (q : Nat) (hq : q < teams.length), q ≠ i →
      le (neg (s[i]'(hlen ▸ hi))) (neg (s[q]'(hlen ▸ hq))) = false) :
    List.Forall₂ (fun p p' => p'.mu ≤ p.mu) teams[i]
      ((rate K L P le neg teams (.scores s) o)[i]'(by
        rw [lft_rate_length K L P le neg teams (.scores s) o hlen]; exact hi)) := by
  have hlen' : (s.map neg).length = teams.length := by rw [List.length_map]; exact hlen
  exact lft_of_getElem? _ i _ _
    (lft_rateCore_sole_last K L hL P le total trans teams (s.map neg) o hlen' i hi
      (fun q hq hne => by simpa only [List.getElem_map] using hlast q hq hne))

/-- **Strictly highest score.**  When `neg` reverses the comparison (`−a ≤ −b ⇔ b ≤ a`, as unary
minus does): if team `i`'s score is strictly higher than every other team's (`s[i] ≤ s[q]` fails),
nobody in team `i` loses mu. -/
theorem C05_rate_scores_sole_first_of_neg (K : Kind) (L : Leaves ℝ)
    (hL : K = .TMF ∨ K = .TMP → LeafFacts L)
    (P : Params ℝ) (le : ρ → ρ → Bool) (neg : ρ → ρ)
    (hneg : ∀ a b, le (neg a) (neg b) = le b a)
    (total : ∀ a b, (le a b || le b a) = true)
    (trans : ∀ a b c, le a b = true → le b c = true → le a c = true)
    (teams : List (List (Rating ℝ))) (s : List ρ) (o : CallOpts ℝ)
    (hlen : s.length = teams.length) (i : Nat) (hi : i < teams.length)
    (hfirst : ∀ (q : Nat) (hq : q < teams.length), q ≠ i →
      le (s[i]'(hlen ▸ hi)) (s[q]'(hlen ▸ hq)) = false) :
    List.Forall₂ (fun p p' => p.mu ≤ p'.mu) teams[i]
      ((rate K L P le neg teams (.scores s) o)[i]'(by
        rw [lft_rate_length K L P le neg teams (.scores s) o hlen]; exact hi)) :=
  C05_rate_scores_sole_first K L hL P le neg total trans teams s o hlen i hi
    (fun q hq hne => by rw [hneg]; exact hfirst q hq hne)

/-- **Strictly lowest score**: nobody in team `i` gains mu (same assumption on `neg`). -/
theorem C05_rate_scores_sole_last_of_neg (K : Kind) (L : Leaves ℝ)
    (hL : K = .TMF ∨ K = .TMP → LeafFacts L)
    (P : Params ℝ) (le : ρ → ρ → Bool) (neg : ρ → ρ)
    (hneg : ∀ a b, le (neg a) (neg b) = le b a)
    (total : ∀ a b, (le a b || le b a) = true)
    (trans : ∀ a b c, le a b = true → le b c = true → le a c = true)
    (teams : List (List (Rating ℝ))) (s : List ρ) (o : CallOpts ℝ)
    (hlen : s.length = teams.length) (i : Nat) (hi : i < teams.length)
    (hlast : ∀ (q : Nat) (hq : q < teams.length), q ≠ i →
      le (s[q]'(hlen ▸ hq)) (s[i]'(hlen ▸ hi)) = false) :
    List.Forall₂ (fun p p' => p'.mu ≤ p.mu) teams[i]
      ((rate K L P le neg teams (.scores s) o)[i]'(by
        rw [lft_rate_length K L P le neg teams (.scores s) o hlen]; exact hi)) :=
  C05_rate_scores_sole_last K L hL P le neg total trans teams s o hlen i hi
    (fun q hq hne => by rw [hneg]; exact hlast q hq hne)

/-! ## outcome omitted: the order of the list is the outcome -/

/-- **Outcome omitted: the first team is the sole winner.**  Nobody in team `0` loses mu.  (The
comparison `le` is not used at all.) -/
theorem C05_rate_omitted_first (K : Kind) (L : Leaves ℝ) (hL : K = .TMF ∨ K = .TMP → LeafFacts L)
    (P : Params ℝ) (le : ρ → ρ → Bool) (neg : ρ → ρ)
    (teams : List (List (Rating ℝ))) (o : CallOpts ℝ) (h0 : 0 < teams.length) :
    List.Forall₂ (fun p p' => p.mu ≤ p'.mu) teams[0]
      ((rate K L P le neg teams .omitted o)[0]'(by
        rw [lft_rate_length K L P le neg teams .omitted o trivial]; exact h0)) := by
  refine lft_of_getElem? _ 0 _ _
    (lft_rateCore_none_slot K L P le teams o (· ≤ ·) 0 h0 (fun h1 => ?_))
  apply lft_compute_sole_first K L hL P _ _ (by simp) 0 h1
  intro q hq hne
  simp only [List.getElem_range]
  omega

/-- **Outcome omitted: the last team is the sole loser.**  Nobody in team `n−1` gains mu. -/
theorem C05_rate_omitted_last (K : Kind) (L : Leaves ℝ) (hL : K = .TMF ∨ K = .TMP → LeafFacts L)
    (P : Params ℝ) (le : ρ → ρ → Bool) (neg : ρ → ρ)
    (teams : List (List (Rating ℝ))) (o : CallOpts ℝ) (h0 : 0 < teams.length) :
    List.Forall₂ (fun p p' => p'.mu ≤ p.mu) (teams[teams.length - 1]'(by omega))
      ((rate K L P le neg teams .omitted o)[teams.length - 1]'(by
        rw [lft_rate_length K L P le neg teams .omitted o trivial]; omega)) := by
  refine lft_of_getElem? _ (teams.length - 1) _ _
    (lft_rateCore_none_slot K L P le teams o (fun a b => b ≤ a) (teams.length - 1) (by omega)
      (fun h1 => ?_))
  apply lft_compute_sole_last K L hL P _ _ (by simp) (teams.length - 1) h1
  intro q hq hne
  simp only [List.getElem_range]
  simp only [List.length_range] at hq
  have : (inflate (resolveTau P o) teams).length = teams.length := by simp [inflate]
  omega

/-! ## non-vacuity -/

/-- Python's `≤` on ints is total and transitive, and unary minus reverses it -/
example : (∀ a b : Int, (decide (a ≤ b) || decide (b ≤ a)) = true) ∧
    (∀ a b c : Int, decide (a ≤ b) = true → decide (b ≤ c) = true → decide (a ≤ c) = true) ∧
    (∀ a b : Int, decide (-a ≤ -b) = decide (b ≤ a)) := by
  refine ⟨fun a b => by simp; omega, fun a b c => by simp; omega, fun a b => by simp⟩

/-- three teams given in the order B, A, C with ranks `[2, 1, 3]` (A wins, C is last; the sort is
not the identity): the hypotheses of `C05_rate_sole_first` hold for `i = 1`, those of
`C05_rate_sole_last` for `i = 2`, for every model with the code's leaves and any parameters -/
example (K : Kind) (P : Params ℝ) (o : CallOpts ℝ) (A B C : List (Rating ℝ)) :
    List.Forall₂ (fun p p' => p.mu ≤ p'.mu) A
        ((rate K codeLeaves P (fun a b : Int => decide (a ≤ b)) (fun a => -a) [B, A, C]
          (.ranks [2, 1, 3]) o)[1]'(by
            rw [lft_rate_length _ _ _ _ _ _ _ _ (by rfl)]; simp)) ∧
    List.Forall₂ (fun p p' => p'.mu ≤ p.mu) C
        ((rate K codeLeaves P (fun a b : Int => decide (a ≤ b)) (fun a => -a) [B, A, C]
          (.ranks [2, 1, 3]) o)[2]'(by
            rw [lft_rate_length _ _ _ _ _ _ _ _ (by rfl)]; simp)) := by
  have total : ∀ a b : Int, (decide (a ≤ b) || decide (b ≤ a)) = true := fun a b => by simp; omega
  have trans : ∀ a b c : Int, decide (a ≤ b) = true → decide (b ≤ c) = true →
      decide (a ≤ c) = true := fun a b c => by simp; omega
  constructor
  · refine C05_rate_sole_first K codeLeaves (fun _ => leafFacts_code) P _ _ total trans [B, A, C]
      [2, 1, 3] o rfl 1 (by simp) ?_
    intro q hq hne
    have : q = 0 ∨ q = 2 := by simp at hq; omega
    rcases this with rfl | rfl <;> simp
  · refine C05_rate_sole_last K codeLeaves (fun _ => leafFacts_code) P _ _ total trans [B, A, C]
      [2, 1, 3] o rfl 2 (by simp) ?_
    intro q hq hne
    have : q = 0 ∨ q = 1 := by simp at hq; omega
    rcases this with rfl | rfl <;> simp

/-- the same game given by scores `[5, 9, 1]` -/
example (K : Kind) (P : Params ℝ) (o : CallOpts ℝ) (A B C : List (Rating ℝ)) :
    List.Forall₂ (fun p p' => p.mu ≤ p'.mu) A
        ((rate K codeLeaves P (fun a b : Int => decide (a ≤ b)) (fun a => -a) [B, A, C]
          (.scores [5, 9, 1]) o)[1]'(by
            rw [lft_rate_length _ _ _ _ _ _ _ _ (by rfl)]; simp)) := by
  refine C05_rate_scores_sole_first_of_neg K codeLeaves (fun _ => leafFacts_code) P
    (fun a b : Int => decide (a ≤ b)) (fun a => -a)
    (fun a b => by simp) (fun a b => by simp; omega) (fun a b c => by simp; omega) [B, A, C]
    [5, 9, 1] o rfl 1 (by simp) ?_
  intro q hq hne
  have : q = 0 ∨ q = 2 := by simp at hq; omega
  rcases this with rfl | rfl <;> simp

end OS
end
