import OSProofs.C07Lemmas
/-!
# C07 — no rating inflation

Every member `j` of team `i` receives `Δμ_ij = (σ̂_ij² / sig2_i) · Ω_i` with `sig2_i = Σ_j σ̂_ij²`
(`applyTeam`), so the total mu change of team `i` is exactly `Ω_i` (`team_total_change`) and the
precision-weighted mu change of a game is `Σ_i Ω_i / sig2_i`.  For a team list `ts` this quantity is
written `(((omegaDelta K L P ts).zip ts).map (fun x => x.1.1 / x.2.sig2)).sum` below.

* Plackett–Luce, Bradley–Terry (full and partial pairing): the quantity is exactly `0`, for every
  number of teams and every rank vector (ties included, no sortedness needed).
* Thurstone–Mosteller (full and partial pairing): exactly `0` unless two tied teams that are paired
  have exactly equal mu; each such pair contributes at most `2κ / c_iq²`.
-/
namespace OS
open Scalar Finset

/-! ### Plackett–Luce -/

/-- **C07, Plackett–Luce.** The precision-weighted mu change `Σ_i Ω_i / sig2_i` is zero, for every
number of teams and every rank vector.  (No hypothesis on `c = plC β ts` is needed.) -/
theorem C07_PL (L : Leaves ℝ) (P : Params ℝ) (ts : List (TeamAgg ℝ))
    (hs : ∀ t ∈ ts, t.sig2 ≠ 0) :
    (((omegaDelta .PL L P ts).zip ts).map (fun x => x.1.1 / x.2.sig2)).sum = 0 := by
  simp only [omegaDelta]
  rw [c07_sum_eq]
  simp only [plOmega_eq]
  have h : ∀ (a s c : ℝ), s ≠ 0 → a * (s / c) / s = a / c := by
    intro a s c hs
    by_cases hc : c = 0
    · simp [hc]
    · field_simp
  refine (Finset.sum_congr rfl
    (fun (i : Fin ts.length) _ => h _ _ _ (hs ts[i] (List.getElem_mem _)))).trans ?_
  rw [← Finset.sum_div, pl_zero_sum, zero_div]

/-! ### Bradley–Terry -/

/-- The Bradley–Terry pair term is antisymmetric after dividing by the team variances:
`Ω_iq / sig2_i + Ω_qi / sig2_q = 0` (because `c_iq = c_qi`, `p_iq + p_qi = 1`, `s_iq + s_qi = 1`). -/
theorem btPair_antisymm (β : ℝ) (g : GammaFn ℝ) (n : Nat) (ti tq : TeamAgg ℝ)
    (hi : 0 < ti.sig2) (hq : 0 < tq.sig2) :
    (btPair β g n ti tq).1 / ti.sig2 + (btPair β g n tq ti).1 / tq.sig2 = 0 := by
  simp only [btPair, sc_sqrt, sc_exp, sc_ofNat]
  have hc : Real.sqrt (tq.sig2 + ti.sig2 + (2:ℕ) * (β * β)) = Real.sqrt (ti.sig2 + tq.sig2 + (2:ℕ) * (β * β)) := by
    congr 1; ring
  rw [hc]
  set c := Real.sqrt (ti.sig2 + tq.sig2 + (2:ℕ) * (β * β)) with hcdef
  have hcpos : 0 < c := by
    apply Real.sqrt_pos.mpr
    have : 0 ≤ β * β := mul_self_nonneg β
    push_cast; linarith
  have he : Real.exp ((ti.mu - tq.mu) / c) = (Real.exp ((tq.mu - ti.mu) / c))⁻¹ := by
    rw [← Real.exp_neg]; congr 1; ring
  rw [he]
  set E := Real.exp ((tq.mu - ti.mu) / c) with hE
  have hEpos : 0 < E := Real.exp_pos _
  rcases Nat.lt_trichotomy ti.rank tq.rank with h | h | h
  · have h' : ¬ tq.rank < ti.rank := by omega
    have h'' : ti.rank ≠ tq.rank := by omega
    simp only [h, h', h'', if_true, if_false]
    push_cast
    field_simp
    ring
  · simp only [h, lt_irrefl, if_true, if_false]
    push_cast
    field_simp
    ring
  · have h' : ¬ ti.rank < tq.rank := by omega
    have h'' : tq.rank ≠ ti.rank := by omega
    simp only [h, h', h'', if_true, if_false]
    push_cast
    field_simp
    ring

/-- **C07, Bradley–Terry full pairing.** `Σ_i Ω_i / sig2_i = 0` for every number of teams and every
rank vector. -/
theorem C07_BTF (L : Leaves ℝ) (P : Params ℝ) (ts : List (TeamAgg ℝ))
    (hs : ∀ t ∈ ts, 0 < t.sig2) :
    (((omegaDelta .BTF L P ts).zip ts).map (fun x => x.1.1 / x.2.sig2)).sum = 0 := by
  simp only [omegaDelta]
  apply c07_full_zero
  intro i q _
  exact btPair_antisymm _ _ _ _ _ (hs _ (List.getElem_mem _)) (hs _ (List.getElem_mem _))

/-- **C07, Bradley–Terry partial pairing.** `Σ_i Ω_i / sig2_i = 0`: the neighbour relation is
symmetric, so the ladder sum regroups into antisymmetric pairs. -/
theorem C07_BTP (L : Leaves ℝ) (P : Params ℝ) (ts : List (TeamAgg ℝ))
    (hs : ∀ t ∈ ts, 0 < t.sig2) :
    (((omegaDelta .BTP L P ts).zip ts).map (fun x => x.1.1 / x.2.sig2)).sum = 0 := by
  simp only [omegaDelta]
  apply c07_partial_zero
  intro j hj
  exact btPair_antisymm _ _ _ _ _ (hs _ (List.getElem_mem _)) (hs _ (List.getElem_mem _))

/-! ### Thurstone–Mosteller -/

/-- Different ranks: the win term of one team and the loss term of the other are `±V` evaluated at
the same argument, so they cancel exactly (no fact about `V` is needed). -/
theorem tmPair_antisymm_of_rank_ne (L : Leaves ℝ) (cmul β κ : ℝ) (g : GammaFn ℝ) (n : ℕ)
    (ti tq : TeamAgg ℝ) (hi : ti.sig2 ≠ 0) (hq : tq.sig2 ≠ 0) (hr : ti.rank ≠ tq.rank) :
    (tmPair L cmul β κ g n ti tq).1 / ti.sig2 + (tmPair L cmul β κ g n tq ti).1 / tq.sig2 = 0 := by
  rw [tmPair_fst, tmPair_fst, tmC_symm cmul β ti tq]
  set c := tmC cmul β ti tq
  have hx : -((tq.mu - ti.mu) / c) = (ti.mu - tq.mu) / c := by ring
  rcases Nat.lt_or_gt_of_ne hr with h | h
  · simp only [h, if_true, not_lt.mpr h.le, if_false, hx, neg_mul, neg_div,
      share_cancel _ _ _ hi, share_cancel _ _ _ hq]
    ring
  · have hx' : -((ti.mu - tq.mu) / c) = (tq.mu - ti.mu) / c := by ring
    simp only [h, if_true, not_lt.mpr h.le, if_false, hx', neg_mul, neg_div,
      share_cancel _ _ _ hi, share_cancel _ _ _ hq]
    ring

/-- Tied teams with different mu: the draw terms cancel because `Ṽ` is odd. -/
theorem tmPair_antisymm_of_mu_ne (L : Leaves ℝ) (hL : LeafFacts L) (cmul β κ : ℝ) (g : GammaFn ℝ)
    (n : ℕ) (ti tq : TeamAgg ℝ) (hc : 0 < cmul) (hi : 0 < ti.sig2) (hq : 0 < tq.sig2)
    (hr : ti.rank = tq.rank) (hmu : ti.mu ≠ tq.mu) :
    (tmPair L cmul β κ g n ti tq).1 / ti.sig2 + (tmPair L cmul β κ g n tq ti).1 / tq.sig2 = 0 := by
  rw [tmPair_fst, tmPair_fst, tmC_symm cmul β ti tq]
  have hcpos := tmC_pos cmul β ti tq hc hi hq
  set c := tmC cmul β ti tq
  have hx : (tq.mu - ti.mu) / c = -((ti.mu - tq.mu) / c) := by ring
  have hx0 : (ti.mu - tq.mu) / c ≠ 0 := div_ne_zero (sub_ne_zero.mpr hmu) hcpos.ne'
  simp only [hr, lt_irrefl, if_false, hx, hL.vt_odd _ _ hx0,
    share_cancel _ _ _ hi.ne', share_cancel _ _ _ hq.ne']
  ring

/-- Tied teams with exactly equal mu: the two updates need not cancel, but their precision-weighted
sum is at most `2κ/c²` in absolute value -/
theorem tmPair_antisymm_bound (L : Leaves ℝ) (hL : LeafFacts L) (cmul β κ : ℝ) (g : GammaFn ℝ)
    (n : ℕ) (ti tq : TeamAgg ℝ) (hc : 0 < cmul) (hk : 0 ≤ κ) (hi : 0 < ti.sig2) (hq : 0 < tq.sig2)
    (hr : ti.rank = tq.rank) (hmu : ti.mu = tq.mu) :
    |(tmPair L cmul β κ g n ti tq).1 / ti.sig2 + (tmPair L cmul β κ g n tq ti).1 / tq.sig2|
      ≤ tmSlack cmul β κ ti tq := by
  unfold tmSlack
  rw [tmPair_fst, tmPair_fst, tmC_symm cmul β ti tq, ← tmC_sq cmul β ti tq hi hq]
  have hcpos := tmC_pos cmul β ti tq hc hi hq
  set c := tmC cmul β ti tq
  have ht : 0 ≤ κ / c := div_nonneg hk hcpos.le
  obtain ⟨h1, h2⟩ := hL.vt_mem 0 (κ / c) ht
  simp only [hr, hmu, lt_irrefl, if_false, sub_self, zero_div,
    share_cancel _ _ _ hi.ne', share_cancel _ _ _ hq.ne']
  have habs : |L.vt 0 (κ / c)| ≤ κ / c := abs_le.mpr ⟨by linarith, by linarith⟩
  have : L.vt 0 (κ / c) / c + L.vt 0 (κ / c) / c = 2 * L.vt 0 (κ / c) / c := by ring
  rw [this, abs_div, abs_mul, abs_of_pos hcpos, abs_of_pos (by norm_num : (0:ℝ) < 2)]
  rw [div_le_div_iff₀ hcpos (by positivity)]
  have : 2 * κ * c = 2 * (κ / c) * c ^ 2 := by field_simp
  rw [this]
  have hc2 : 0 ≤ c ^ 2 := by positivity
  nlinarith [mul_le_mul_of_nonneg_right habs hc2]


/-- The Thurstone–Mosteller pair term is antisymmetric after dividing by the team variances whenever
the two teams are not (tied with exactly equal mu). -/
theorem tmPair_antisymm (L : Leaves ℝ) (hL : LeafFacts L) (cmul β κ : ℝ) (g : GammaFn ℝ)
    (n : ℕ) (ti tq : TeamAgg ℝ) (hc : 0 < cmul) (hi : 0 < ti.sig2) (hq : 0 < tq.sig2)
    (h : ti.rank = tq.rank → ti.mu ≠ tq.mu) :
    (tmPair L cmul β κ g n ti tq).1 / ti.sig2 + (tmPair L cmul β κ g n tq ti).1 / tq.sig2 = 0 := by
  by_cases hr : ti.rank = tq.rank
  · exact tmPair_antisymm_of_mu_ne L hL cmul β κ g n ti tq hc hi hq hr (h hr)
  · exact tmPair_antisymm_of_rank_ne L cmul β κ g n ti tq hi.ne' hq.ne' hr

/-- **C07, Thurstone–Mosteller full pairing, exact form.** If no two tied teams have exactly equal
mu then `Σ_i Ω_i / sig2_i = 0`. -/
theorem C07_TMF (L : Leaves ℝ) (hL : LeafFacts L) (P : Params ℝ) (ts : List (TeamAgg ℝ))
    (hs : ∀ t ∈ ts, 0 < t.sig2)
    (hne : ∀ i q : Fin ts.length, i ≠ q → ts[i].rank = ts[q].rank → ts[i].mu ≠ ts[q].mu) :
    (((omegaDelta .TMF L P ts).zip ts).map (fun x => x.1.1 / x.2.sig2)).sum = 0 := by
  simp only [omegaDelta]
  apply c07_full_zero
  intro i q hiq
  exact tmPair_antisymm L hL _ _ _ _ _ _ _ (by simp) (hs _ (List.getElem_mem _))
    (hs _ (List.getElem_mem _)) (hne i q hiq.ne)

/-- **C07, Thurstone–Mosteller full pairing, general form.** `|Σ_i Ω_i / sig2_i|` is at most the sum
of `2κ / c_iq²` over the unordered pairs of tied teams with exactly equal mu. -/
theorem C07_TMF_bound (L : Leaves ℝ) (hL : LeafFacts L) (P : Params ℝ) (ts : List (TeamAgg ℝ))
    (hk : 0 ≤ P.kappa) (hs : ∀ t ∈ ts, 0 < t.sig2) :
    |(((omegaDelta .TMF L P ts).zip ts).map (fun x => x.1.1 / x.2.sig2)).sum|
      ≤ ∑ i : Fin ts.length, ∑ q : Fin ts.length,
          if i < q then
            (if ts[i].rank = ts[q].rank ∧ ts[i].mu = ts[q].mu
              then tmSlack 1 P.beta P.kappa ts[i] ts[q] else 0)
          else 0 := by
  simp only [omegaDelta]
  apply c07_full_abs_le ts _ (fun i q => if ts[i].rank = ts[q].rank ∧ ts[i].mu = ts[q].mu
              then tmSlack 1 P.beta P.kappa ts[i] ts[q] else 0)
  intro i q _
  have hi := hs ts[i] (List.getElem_mem _)
  have hq := hs ts[q] (List.getElem_mem _)
  simp only [sc_ofNat, Nat.cast_one]
  split_ifs with h
  · exact tmPair_antisymm_bound L hL 1 _ _ _ _ _ _ one_pos hk hi hq h.1 h.2
  · rw [tmPair_antisymm L hL 1 _ _ _ _ _ _ one_pos hi hq (fun hr hm => h ⟨hr, hm⟩), abs_zero]

/-- **C07, Thurstone–Mosteller partial pairing, exact form.** If no two adjacent tied teams have
exactly equal mu then `Σ_i Ω_i / sig2_i = 0`. -/
theorem C07_TMP (L : Leaves ℝ) (hL : LeafFacts L) (P : Params ℝ) (ts : List (TeamAgg ℝ))
    (hs : ∀ t ∈ ts, 0 < t.sig2)
    (hne : ∀ (j : ℕ) (hj : j + 1 < ts.length),
      ts[j].rank = ts[j + 1].rank → ts[j].mu ≠ ts[j + 1].mu) :
    (((omegaDelta .TMP L P ts).zip ts).map (fun x => x.1.1 / x.2.sig2)).sum = 0 := by
  simp only [omegaDelta]
  apply c07_partial_zero
  intro j hj
  exact tmPair_antisymm L hL _ _ _ _ _ _ _ (by simp) (hs _ (List.getElem_mem _))
    (hs _ (List.getElem_mem _)) (hne j hj)

/-- **C07, Thurstone–Mosteller partial pairing, general form.** `|Σ_i Ω_i / sig2_i|` is at most the
sum of `2κ / c²` (`c = 2·√(…)`) over the adjacent pairs of tied teams with exactly equal mu. -/
theorem C07_TMP_bound (L : Leaves ℝ) (hL : LeafFacts L) (P : Params ℝ) (ts : List (TeamAgg ℝ))
    (hk : 0 ≤ P.kappa) (hs : ∀ t ∈ ts, 0 < t.sig2) :
    |(((omegaDelta .TMP L P ts).zip ts).map (fun x => x.1.1 / x.2.sig2)).sum|
      ≤ ∑ j ∈ Finset.range (ts.length - 1),
          if hj : j + 1 < ts.length then
            (if ts[j].rank = ts[j + 1].rank ∧ ts[j].mu = ts[j + 1].mu
              then tmSlack 2 P.beta P.kappa ts[j] ts[j + 1] else 0)
          else 0 := by
  simp only [omegaDelta]
  apply c07_partial_abs_le ts _ (fun j => if hj : j + 1 < ts.length then
            (if ts[j].rank = ts[j + 1].rank ∧ ts[j].mu = ts[j + 1].mu
              then tmSlack 2 P.beta P.kappa ts[j] ts[j + 1] else 0)
          else 0)
  intro j hj
  have hi := hs ts[j] (List.getElem_mem _)
  have hq := hs ts[j + 1] (List.getElem_mem _)
  simp only [sc_ofNat, Nat.cast_ofNat, dif_pos hj]
  split_ifs with h
  · exact tmPair_antisymm_bound L hL 2 _ _ _ _ _ _ two_pos hk hi hq h.1 h.2
  · rw [tmPair_antisymm L hL 2 _ _ _ _ _ _ two_pos hi hq (fun hr hm => h ⟨hr, hm⟩), abs_zero]

/-! ### from `Ω` to the players' ratings -/

/-- The mu changes of the members of a team add up to the team's `Ω`: the shares
`σ̂_j² / sig2` sum to one. -/
theorem team_total_change (κ : ℝ) (team : List (Rating ℝ)) (r : ℕ) (ω δ : ℝ)
    (h : (teamAgg team r).sig2 ≠ 0) :
    (((applyTeam κ (teamAgg team r) ω δ).zip (teamAgg team r).players).map
      (fun x => x.1.mu - x.2.mu)).sum = ω :=
  team_total_change_of_coherent κ _ ω δ (teamAgg_coherent team r) h

/-- the precision-weighted mu change of the ratings returned by `compute` is `Σ_i Ω_i / sig2_i` -/
theorem compute_weighted_change (K : Kind) (L : Leaves ℝ) (P : Params ℝ)
    (teams : List (List (Rating ℝ))) (dense : List ℕ)
    (hs : ∀ t ∈ teamAggs teams dense, t.sig2 ≠ 0) :
    (((compute K L P teams dense).zip (teamAggs teams dense)).map (fun x =>
        ((x.1.zip x.2.players).map (fun y => y.1.mu - y.2.mu)).sum / x.2.sig2)).sum
      = (((omegaDelta K L P (teamAggs teams dense)).zip (teamAggs teams dense)).map
          (fun x => x.1.1 / x.2.sig2)).sum := by
  unfold compute
  have hcoh := teamAggs_coherent teams dense
  generalize teamAggs teams dense = ts at hs hcoh ⊢
  obtain ⟨F, hF⟩ := omegaDelta_shape K L P ts
  simp only [hF]
  have h1 : ts.zip (ts.zipIdx.map F) = ts.zipIdx.map (fun x => (x.1, F x)) := by
    have h : (ts.zipIdx.map Prod.fst).zip (ts.zipIdx.map F) = ts.zipIdx.map (fun x => (x.1, F x)) :=
      List.zip_map'
    rwa [List.zipIdx_map_fst] at h
  rw [h1, List.map_map, zip_zipIdx_map, zip_zipIdx_map, List.map_map, List.map_map]
  congr 1
  apply List.map_congr_left
  intro x hx
  have hm : x.1 ∈ ts := by
    have := List.mem_map_of_mem (f := Prod.fst) hx
    rwa [List.zipIdx_map_fst] at this
  simp only [Function.comp]
  rw [team_total_change_of_coherent _ _ _ _ (hcoh _ hm) (hs _ hm)]


/-- **C07 on the ratings returned by `compute`** (Plackett–Luce and both Bradley–Terry models):
summing, over the teams, the total mu change of the team's players divided by the team's variance
gives exactly zero. -/
theorem C07_compute (K : Kind) (hK : K = .PL ∨ K = .BTF ∨ K = .BTP) (L : Leaves ℝ) (P : Params ℝ)
    (teams : List (List (Rating ℝ))) (dense : List ℕ)
    (hs : ∀ t ∈ teamAggs teams dense, 0 < t.sig2) :
    (((compute K L P teams dense).zip (teamAggs teams dense)).map (fun x =>
        ((x.1.zip x.2.players).map (fun y => y.1.mu - y.2.mu)).sum / x.2.sig2)).sum = 0 := by
  rw [compute_weighted_change K L P teams dense (fun t ht => (hs t ht).ne')]
  rcases hK with rfl | rfl | rfl
  · exact C07_PL L P _ (fun t ht => (hs t ht).ne')
  · exact C07_BTF L P _ hs
  · exact C07_BTP L P _ hs

/-- **C07 on the ratings returned by `compute`, Thurstone–Mosteller full pairing**, when no two tied
teams have exactly equal mu. -/
theorem C07_compute_TMF (L : Leaves ℝ) (hL : LeafFacts L) (P : Params ℝ)
    (teams : List (List (Rating ℝ))) (dense : List ℕ)
    (hs : ∀ t ∈ teamAggs teams dense, 0 < t.sig2)
    (hne : ∀ i q : Fin (teamAggs teams dense).length, i ≠ q →
      (teamAggs teams dense)[i].rank = (teamAggs teams dense)[q].rank →
      (teamAggs teams dense)[i].mu ≠ (teamAggs teams dense)[q].mu) :
    (((compute .TMF L P teams dense).zip (teamAggs teams dense)).map (fun x =>
        ((x.1.zip x.2.players).map (fun y => y.1.mu - y.2.mu)).sum / x.2.sig2)).sum = 0 := by
  rw [compute_weighted_change .TMF L P teams dense (fun t ht => (hs t ht).ne')]
  exact C07_TMF L hL P _ hs hne

/-- **C07 on the ratings returned by `compute`, Thurstone–Mosteller partial pairing**, when no two
adjacent tied teams have exactly equal mu. -/
theorem C07_compute_TMP (L : Leaves ℝ) (hL : LeafFacts L) (P : Params ℝ)
    (teams : List (List (Rating ℝ))) (dense : List ℕ)
    (hs : ∀ t ∈ teamAggs teams dense, 0 < t.sig2)
    (hne : ∀ (j : ℕ) (hj : j + 1 < (teamAggs teams dense).length),
      (teamAggs teams dense)[j].rank = (teamAggs teams dense)[j + 1].rank →
      (teamAggs teams dense)[j].mu ≠ (teamAggs teams dense)[j + 1].mu) :
    (((compute .TMP L P teams dense).zip (teamAggs teams dense)).map (fun x =>
        ((x.1.zip x.2.players).map (fun y => y.1.mu - y.2.mu)).sum / x.2.sig2)).sum = 0 := by
  rw [compute_weighted_change .TMP L P teams dense (fun t ht => (hs t ht).ne')]
  exact C07_TMP L hL P _ hs hne

/-! ### equal team variances: plain zero sum -/

/-- If all teams have the same variance `s ≠ 0`, a zero precision-weighted sum is a zero plain sum:
the mu gained by some teams is exactly the mu lost by the others. -/
theorem C07_equal_variance (K : Kind) (L : Leaves ℝ) (P : Params ℝ) (ts : List (TeamAgg ℝ))
    (s : ℝ) (hs : s ≠ 0) (h : ∀ t ∈ ts, t.sig2 = s)
    (h0 : (((omegaDelta K L P ts).zip ts).map (fun x => x.1.1 / x.2.sig2)).sum = 0) :
    ((omegaDelta K L P ts).map (·.1)).sum = 0 := by
  obtain ⟨F, hF⟩ := omegaDelta_shape K L P ts
  rw [hF] at h0 ⊢
  rw [c07_equal_variance_aux ts F s h, div_eq_zero_iff] at h0
  exact h0.resolve_right hs

/-- Plackett–Luce with equal team variances: `Σ_i Ω_i = 0`. -/
theorem C07_equal_variance_PL (L : Leaves ℝ) (P : Params ℝ) (ts : List (TeamAgg ℝ))
    (s : ℝ) (hs : s ≠ 0) (h : ∀ t ∈ ts, t.sig2 = s) :
    ((omegaDelta .PL L P ts).map (·.1)).sum = 0 :=
  C07_equal_variance .PL L P ts s hs h (C07_PL L P ts (fun t ht => by rw [h t ht]; exact hs))

/-- Bradley–Terry full pairing with equal team variances: `Σ_i Ω_i = 0`. -/
theorem C07_equal_variance_BTF (L : Leaves ℝ) (P : Params ℝ) (ts : List (TeamAgg ℝ))
    (s : ℝ) (hs : 0 < s) (h : ∀ t ∈ ts, t.sig2 = s) :
    ((omegaDelta .BTF L P ts).map (·.1)).sum = 0 :=
  C07_equal_variance .BTF L P ts s hs.ne' h (C07_BTF L P ts (fun t ht => by rw [h t ht]; exact hs))

/-- Bradley–Terry partial pairing with equal team variances: `Σ_i Ω_i = 0`. -/
theorem C07_equal_variance_BTP (L : Leaves ℝ) (P : Params ℝ) (ts : List (TeamAgg ℝ))
    (s : ℝ) (hs : 0 < s) (h : ∀ t ∈ ts, t.sig2 = s) :
    ((omegaDelta .BTP L P ts).map (·.1)).sum = 0 :=
  C07_equal_variance .BTP L P ts s hs.ne' h (C07_BTP L P ts (fun t ht => by rw [h t ht]; exact hs))

/-! ### non-vacuity -/

/-- three teams, the first two tied: the hypotheses of `C07_PL`, `C07_BTF`, `C07_BTP` hold -/
example : ∀ t ∈ ([⟨25, 69, 0, []⟩, ⟨27, 50, 0, []⟩, ⟨20, 70, 1, []⟩] : List (TeamAgg ℝ)),
    0 < t.sig2 := by
  simp

/-- equal variances, ties: the hypotheses of the `C07_equal_variance_*` corollaries hold -/
example : ∀ t ∈ ([⟨25, 69, 0, []⟩, ⟨27, 69, 0, []⟩, ⟨20, 69, 1, []⟩] : List (TeamAgg ℝ)),
    t.sig2 = 69 := by
  simp

/-- `LeafFacts` is satisfiable (here by a crude stand-in; the code's leaves satisfy it by
`leafFacts_code`) -/
example : LeafFacts ⟨fun x t => max 0 (t - x), fun _ _ => 0, fun x _ => -x, fun _ _ => 0⟩ where
  v_nonneg := fun x t => le_max_left _ _
  v_ge := fun x t => le_max_right _ _
  w_nonneg := fun _ _ => le_rfl
  wt_nonneg := fun _ _ _ => le_rfl
  vt_mem := fun x t ht => ⟨by simp only; linarith, by simp only; linarith⟩
  vt_odd := fun x t _ => rfl

/-- a three-team game, the first two teams tied (with different mu) -/
noncomputable def exampleTeams : List (TeamAgg ℝ) :=
  [⟨25, 69, 0, []⟩, ⟨27, 50, 0, []⟩, ⟨20, 70, 1, []⟩]

/-- the hypotheses of `C07_TMF` / `C07_TMP` hold for `exampleTeams` -/
example : ∀ i q : Fin exampleTeams.length, i ≠ q →
    exampleTeams[i].rank = exampleTeams[q].rank → exampleTeams[i].mu ≠ exampleTeams[q].mu := by
  intro i q
  have h3 : exampleTeams.length = 3 := rfl
  rcases i with ⟨i, hi⟩; rcases q with ⟨q, hq⟩
  have : i < 3 := h3 ▸ hi
  have : q < 3 := h3 ▸ hq
  interval_cases i <;> interval_cases q <;> simp [exampleTeams]

/-- the theorems apply to `exampleTeams` -/
example (L : Leaves ℝ) (P : Params ℝ) :
    (((omegaDelta .PL L P exampleTeams).zip exampleTeams).map (fun x => x.1.1 / x.2.sig2)).sum = 0 :=
  C07_PL L P exampleTeams (by simp [exampleTeams])

example (L : Leaves ℝ) (P : Params ℝ) :
    (((omegaDelta .BTP L P exampleTeams).zip exampleTeams).map (fun x => x.1.1 / x.2.sig2)).sum = 0 :=
  C07_BTP L P exampleTeams (by simp [exampleTeams])

/-- The hypothesis "no tied teams with equal mu" of `C07_TMF` cannot be dropped on the basis of
`LeafFacts` alone, and the bound `tmSlack` is attained: a `Ṽ` that, like the code's `vt` below its
`1e-5` guard, returns `t` at `x = 0` satisfies `LeafFacts`, and two identical tied teams then both
gain. -/
theorem tmPair_tie_slack_attained (cmul β κ : ℝ) (g : GammaFn ℝ) (n : ℕ) (t : TeamAgg ℝ)
    (hc : 0 < cmul) (ht : 0 < t.sig2) :
    ∃ L : Leaves ℝ, LeafFacts L ∧
      (tmPair L cmul β κ g n t t).1 / t.sig2 + (tmPair L cmul β κ g n t t).1 / t.sig2
        = tmSlack cmul β κ t t := by
  refine ⟨⟨fun x t => max 0 (t - x), fun _ _ => 0, fun x t => if x = 0 then t else -x,
    fun _ _ => 0⟩, ⟨fun x t => le_max_left _ _, fun x t => le_max_right _ _, fun _ _ => le_rfl,
    fun _ _ _ => le_rfl, ?_, ?_⟩, ?_⟩
  · intro x t ht
    by_cases hx : x = 0
    · subst hx; simp only [if_true]; constructor <;> linarith
    · simp only [hx, if_false]; constructor <;> linarith
  · intro x t hx
    simp [hx]
  · rw [tmPair_fst]
    have hcpos := tmC_pos cmul β t t hc ht ht
    simp only [lt_irrefl, if_false, sub_self, zero_div, if_true, share_cancel _ _ _ ht.ne']
    unfold tmSlack
    rw [← tmC_sq cmul β t t ht ht]
    field_simp
    ring

end OS
