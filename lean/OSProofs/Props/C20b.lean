import OSModel
import OSProofs.SortLemmas
import OSProofs.C02Lemmas
import OSProofs.Props.C02
import OSProofs.Props.C20
import OSProofs.C20Lemmas
/-!
# C20 (last clause) / C14 — `rate` reads a rating only through its (mu, sigma)

Rebuilding every player from the stored (mu, sigma) — fresh objects with other ids, names or
object identities — changes no number that `rate` returns: `rate` commutes with every
replacement of ids (`reid f`), for each of the five models, every gamma callback whose value does not
depend on the `id` fields of the players it is handed (`GammaIdInv`: every tagged member, the
team-reading callback `gammaTeamSigma`, any callback that reads the players through their (mu, sigma)), every outcome form (omitted, ranks,
scores), every `tau` / `limit_sigma` option and **every** comparator and rank list (no length or
order hypothesis).  Generic over the scalar type, so the statement holds bit-for-bit at `Float`.
-/
namespace OS
open Scalar
variable {α ρ : Type} [Scalar α]

/-! ### the pieces -/

/-- The (omega, delta) of every team, for each of the five models, is computed from the team
    aggregates' `mu`, `sig2` and `rank` only — never from the players they carry. -/
theorem omegaDelta_reid (f : Nat → Nat) (K : Kind) (L : Leaves α) (P : Params α)
    (hg : GammaIdInv P.gamma) (ts : List (TeamAgg α)) :
    omegaDelta K L P (ts.map (reidAgg f)) = omegaDelta K L P ts := by
  cases K <;>
  simp only [omegaDelta, List.zipIdx_map, List.map_map, List.length_map, plC_reid, plSumQ_reid,
    plA_reid, othersOf_map, neighboursOf_map, Function.comp_def, Prod.map, id,
    plOmegaDelta_reid f _ hg, btPair_reid f _ _ hg, tmPair_reid f _ _ _ _ _ hg]

/-- `_compute` (any model) commutes with replacing the ids: same numbers, the new ids in the
    same slots. -/
theorem compute_reid (f : Nat → Nat) (K : Kind) (L : Leaves α) (P : Params α)
    (hg : GammaIdInv P.gamma) (teams : List (List (Rating α))) (dense : List Nat) :
    compute K L P (reid f teams) dense = reid f (compute K L P teams dense) := by
  simp only [compute, teamAggs_reid, omegaDelta_reid f K L P hg]
  simp only [List.zip_map_left, List.map_map, reid_eq_map, Function.comp_def, Prod.map, id,
    applyTeam_reidAgg]

/-- the tau inflation commutes with replacing the ids -/
theorem inflate_reid (f : Nat → Nat) (tau : α) (teams : List (List (Rating α))) :
    inflate tau (reid f teams) = reid f (inflate tau teams) := by
  simp [inflate, reid, List.map_map, Function.comp_def]

/-- the `limit_sigma` clamp commutes with replacing the ids (in the originals and in the results) -/
theorem clampTeams_reid (f : Nat → Nat) (orig res : List (List (Rating α))) :
    clampTeams (reid f orig) (reid f res) = reid f (clampTeams orig res) := by
  simp only [clampTeams_eq, reid_eq_map, List.zip_map, List.map_map]
  apply List.map_congr_left
  intro x _
  exact clampTeam_reid f x.1 x.2

omit [Scalar α] in
/-- `_unwind` commutes with replacing the ids of its payload: same order, same tenet -/
theorem unwind_reid {κ : Type} (f : Nat → Nat) (le : κ → κ → Bool) (tenet : List κ)
    (teams : List (List (Rating α))) :
    unwind le tenet (reid f teams) = (reid f (unwind le tenet teams).1, (unwind le tenet teams).2) :=
  unwind_map le tenet teams _

omit [Scalar α] in
theorem reid_length (f : Nat → Nat) (teams : List (List (Rating α))) :
    (reid f teams).length = teams.length := by
  simp [reid]

/-! ### `rate` -/

/-- **`rateCore` commutes with replacing the ids**, whatever the ranks (given or omitted, of any
    length, under any comparator) and whatever the per-call options. -/
theorem C20_rateCore_reid (f : Nat → Nat) (K : Kind) (L : Leaves α) (P : Params α)
    (hg : GammaIdInv P.gamma) (le : ρ → ρ → Bool) (teams : List (List (Rating α))) (ranks : Option (List ρ))
    (o : CallOpts α) :
    rateCore K L P le (reid f teams) ranks o = reid f (rateCore K L P le teams ranks o) := by
  unfold rateCore
  cases ranks with
  | none =>
    simp only [inflate_reid, reid_length, compute_reid f K L P hg]
    split
    · exact clampTeams_reid f _ _
    · rfl
  | some r =>
    simp only [inflate_reid, unwind_reid, compute_reid f K L P hg]
    split
    · exact clampTeams_reid f _ _
    · rfl

/-- **`rate` commutes with replacing the ids**: for each model, each outcome form (omitted, ranks,
    scores) and each option, rating rebuilt players (same (mu, sigma), other ids) returns the same
    numbers in the same slots, carried by the rebuilt ids. -/
theorem C20_rate_reid (f : Nat → Nat) (K : Kind) (L : Leaves α) (P : Params α)
    (hg : GammaIdInv P.gamma) (le : ρ → ρ → Bool) (neg : ρ → ρ) (teams : List (List (Rating α))) (oc : Outcome ρ)
    (o : CallOpts α) :
    rate K L P le neg (reid f teams) oc o = reid f (rate K L P le neg teams oc o) := by
  cases oc with
  | omitted => exact C20_rateCore_reid f K L P hg le teams none o
  | ranks r => exact C20_rateCore_reid f K L P hg le teams (some r) o
  | scores s => exact C20_rateCore_reid f K L P hg le teams (some (s.map neg)) o

/-! ### the numbers do not depend on the ids -/

/-- **The numbers `rate` returns are identical whatever the ids**: replacing every id changes no
    (mu, sigma) of the result, in any slot. -/
theorem C20_rate_values (f : Nat → Nat) (K : Kind) (L : Leaves α) (P : Params α)
    (hg : GammaIdInv P.gamma) (le : ρ → ρ → Bool) (neg : ρ → ρ) (teams : List (List (Rating α))) (oc : Outcome ρ)
    (o : CallOpts α) :
    valuesOf (rate K L P le neg (reid f teams) oc o) = valuesOf (rate K L P le neg teams oc o) := by
  rw [C20_rate_reid f K L P hg, valuesOf_reid]

/-- **Two games with the same numbers in the same nesting get the same numbers back**, whatever
    their ids are (equal, distinct, shared between slots or not): `rate` is a function of the
    (mu, sigma) of the players.  In particular players rebuilt from stored (mu, sigma) — fresh
    objects — are rated exactly like the originals.  (Equality of `valuesOf` includes equality of
    the nesting.) -/
theorem C20_rate_values_of_eq (K : Kind) (L : Leaves α) (P : Params α)
    (hg : GammaIdInv P.gamma) (le : ρ → ρ → Bool) (neg : ρ → ρ) (teams teams' : List (List (Rating α))) (oc : Outcome ρ)
    (o : CallOpts α) (h : valuesOf teams = valuesOf teams') :
    valuesOf (rate K L P le neg teams oc o) = valuesOf (rate K L P le neg teams' oc o) := by
  have hs : reid (fun _ => 0) teams = reid (fun _ => 0) teams' := by
    rw [reid_const_eq, reid_const_eq, h]
  rw [← C20_rate_values (fun _ => 0) K L P hg le neg teams,
    ← C20_rate_values (fun _ => 0) K L P hg le neg teams', hs]

/-- the same for `rateCore` -/
theorem C20_rateCore_values_of_eq (K : Kind) (L : Leaves α) (P : Params α)
    (hg : GammaIdInv P.gamma) (le : ρ → ρ → Bool) (teams teams' : List (List (Rating α))) (ranks : Option (List ρ))
    (o : CallOpts α) (h : valuesOf teams = valuesOf teams') :
    valuesOf (rateCore K L P le teams ranks o) = valuesOf (rateCore K L P le teams' ranks o) := by
  have hs : reid (fun _ => 0) teams = reid (fun _ => 0) teams' := by
    rw [reid_const_eq, reid_const_eq, h]
  have h1 := congrArg valuesOf (C20_rateCore_reid (fun _ => 0) K L P hg le teams ranks o)
  have h2 := congrArg valuesOf (C20_rateCore_reid (fun _ => 0) K L P hg le teams' ranks o)
  rw [valuesOf_reid] at h1 h2
  rw [← h1, ← h2, hs]

/-- **Full form, with the ids** (uses C02): if `teams'` has the numbers of `teams` (same nesting)
    under arbitrary other ids, and the outcome has one entry per team, then rating `teams'` gives
    exactly the result of rating `teams` with the ids of `teams'` written slot by slot. -/
theorem C20_rate_rebuilt (K : Kind) (L : Leaves α) (P : Params α)
    (hg : GammaIdInv P.gamma) (le : ρ → ρ → Bool) (neg : ρ → ρ) (teams teams' : List (List (Rating α))) (oc : Outcome ρ)
    (o : CallOpts α) (h : valuesOf teams = valuesOf teams') (hoc : oc.fits teams.length) :
    rate K L P le neg teams' oc o = setIds (idsOf teams') (rate K L P le neg teams oc o) := by
  have hlen : teams'.length = teams.length := by
    have := congrArg List.length h
    simpa [valuesOf] using this.symm
  have hshape : shapeOf (idsOf teams') = shapeOf (rate K L P le neg teams oc o) := by
    rw [shapeOf_idsOf, ← shapeOf_valuesOf teams', ← h, shapeOf_valuesOf, ← shapeOf_idsOf teams,
      ← C02_ids_rate K L P le neg teams oc o hoc, shapeOf_idsOf]
  apply game_ext
  · rw [C02_ids_rate K L P le neg teams' oc o (hlen ▸ hoc), setIds_ids _ _ hshape]
  · rw [setIds_values _ _ hshape]
    exact (C20_rate_values_of_eq K L P hg le neg teams teams' oc o h).symm

/-- **`rate` commutes with an arbitrary slot-wise replacement of the ids** (`ids` in the nesting of
    the game, one outcome entry per team). -/
theorem C20_rate_setIds (K : Kind) (L : Leaves α) (P : Params α)
    (hg : GammaIdInv P.gamma) (le : ρ → ρ → Bool) (neg : ρ → ρ) (teams : List (List (Rating α))) (ids : List (List Nat))
    (oc : Outcome ρ) (o : CallOpts α) (hids : shapeOf ids = shapeOf teams)
    (hoc : oc.fits teams.length) :
    rate K L P le neg (setIds ids teams) oc o = setIds ids (rate K L P le neg teams oc o) := by
  have := C20_rate_rebuilt K L P hg le neg teams (setIds ids teams) oc o
    (setIds_values ids teams hids).symm hoc
  rwa [setIds_ids ids teams hids] at this

/-! ### the statements for the tagged family (no hypothesis on gamma: a tagged member reads no player) -/

/-- `rate` commutes with replacing the ids, any gamma of the tagged family -/
theorem C20_rate_reid_tagged (f : Nat → Nat) (K : Kind) (L : Leaves α) (P : Params α)
    (hg : P.gamma.Tagged) (le : ρ → ρ → Bool) (neg : ρ → ρ) (teams : List (List (Rating α)))
    (oc : Outcome ρ) (o : CallOpts α) :
    rate K L P le neg (reid f teams) oc o = reid f (rate K L P le neg teams oc o) :=
  C20_rate_reid f K L P (gam_tagged_idInv hg) le neg teams oc o

/-- same numbers in the same nesting give the same numbers back, any gamma of the tagged family -/
theorem C20_rate_values_of_eq_tagged (K : Kind) (L : Leaves α) (P : Params α)
    (hg : P.gamma.Tagged) (le : ρ → ρ → Bool) (neg : ρ → ρ) (teams teams' : List (List (Rating α)))
    (oc : Outcome ρ) (o : CallOpts α) (h : valuesOf teams = valuesOf teams') :
    valuesOf (rate K L P le neg teams oc o) = valuesOf (rate K L P le neg teams' oc o) :=
  C20_rate_values_of_eq K L P (gam_tagged_idInv hg) le neg teams teams' oc o h

/-- rebuilt players, any gamma of the tagged family -/
theorem C20_rate_rebuilt_tagged (K : Kind) (L : Leaves α) (P : Params α)
    (hg : P.gamma.Tagged) (le : ρ → ρ → Bool) (neg : ρ → ρ) (teams teams' : List (List (Rating α)))
    (oc : Outcome ρ) (o : CallOpts α) (h : valuesOf teams = valuesOf teams') (hoc : oc.fits teams.length) :
    rate K L P le neg teams' oc o = setIds (idsOf teams') (rate K L P le neg teams oc o) :=
  C20_rate_rebuilt K L P (gam_tagged_idInv hg) le neg teams teams' oc o h hoc

/-- slot-wise replacement of the ids, any gamma of the tagged family -/
theorem C20_rate_setIds_tagged (K : Kind) (L : Leaves α) (P : Params α)
    (hg : P.gamma.Tagged) (le : ρ → ρ → Bool) (neg : ρ → ρ) (teams : List (List (Rating α)))
    (ids : List (List Nat)) (oc : Outcome ρ) (o : CallOpts α) (hids : shapeOf ids = shapeOf teams)
    (hoc : oc.fits teams.length) :
    rate K L P le neg (setIds ids teams) oc o = setIds ids (rate K L P le neg teams oc o) :=
  C20_rate_setIds K L P (gam_tagged_idInv hg) le neg teams ids oc o hids hoc

/-- the hypotheses of `C20_rate_values_of_eq` / `C20_rate_rebuilt` are met by genuinely different
    games: same numbers, other ids -/
example : valuesOf [[({ id := 1, mu := 25, sigma := 8 } : Rating Nat)], [{ id := 1, mu := 30, sigma := 7 }]]
    = valuesOf [[({ id := 5, mu := 25, sigma := 8 } : Rating Nat)], [{ id := 9, mu := 30, sigma := 7 }]] := rfl

end OS
