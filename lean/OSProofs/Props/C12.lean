import OSProofs.PredictLemmas
import OSProofs.PredictSumLemmas
import OSProofs.RealInst
import Mathlib.Algebra.BigOperators.Group.List.Basic
import Mathlib.Algebra.Order.BigOperators.Group.List
import Mathlib.Tactic.Ring
import Mathlib.Tactic.Positivity
import Mathlib.Tactic.Linarith
import Mathlib.Tactic.NormNum
/-!
# C12 / R5 — closed forms of the predictions

The code computes one term per ordered pair of teams (`itertools.permutations(teams, 2)`) and
regroups the flat list with `zip_longest(*[iter(p)] * (n - 1))`.  Over ℝ this is the documented
closed form "for each team, the sum over its opponents":

* θ(t) = Σ mu over the team, s²(t) = Σ sigma² over the team (`teamAgg_mu`, `teamAgg_sig2`);
* `predict_win`, two teams: `[Φ((θa − θb)/√(N β² + s²a + s²b)), 1 − that]`, `N` = number of players;
* `predict_win`, n ≥ 3 teams: entry i = `(Σ_{b ≠ i} Φ((θi − θb)/√(n β² + s²i + s²b))) / (n(n−1)/2)`;
* `predict_rank` probabilities: the same with `θi − θb − m`, `m = √N · β · Φ⁻¹((1 + 1/N)/2)`;
* `predict_draw`: `|Σ_{i} Σ_{b ≠ i} (Φ((m − θi + θb)/s) − Φ((θi − θb − m)/s))| / (n(n−1) if n > 2 else 1)`.

The opponents of team `i` are written `(aggs teams).eraseIdx i`.
-/

noncomputable section
namespace OS
open Scalar

/-! ### team aggregates -/

/-- θ of a team: the sum of its members' mu -/
theorem teamAgg_mu (t : List (Rating ℝ)) (r : ℕ) : (teamAgg t r).mu = (t.map (·.mu)).sum :=
  sumL_eq_sum _

/-- s² of a team: the sum of its members' sigma² -/
theorem teamAgg_sig2 (t : List (Rating ℝ)) (r : ℕ) :
    (teamAgg t r).sig2 = (t.map (fun p => p.sigma * p.sigma)).sum :=
  sumL_eq_sum _

theorem length_aggs (teams : List (List (Rating ℝ))) : (aggs teams).length = teams.length := by
  simp [aggs]

theorem getElem_aggs (teams : List (List (Rating ℝ))) (i : ℕ) (hi : i < teams.length) :
    (aggs teams)[i]'(by rw [length_aggs]; exact hi) = teamAgg teams[i] 0 := by
  simp [aggs]

theorem playerCount_eq_sum {β : Type} (teams : List (List β)) :
    playerCount teams = (teams.map List.length).sum := by
  unfold playerCount
  have : ∀ (l : List ℕ) (a : ℕ), List.foldl (· + ·) a l = a + l.sum := by
    intro l
    induction l with
    | nil => intro a; simp
    | cons x xs ih => intro a; simp [ih, Nat.add_assoc]
  rw [this]; simp

theorem playerCount_pair {β : Type} (a b : List β) : playerCount [a, b] = a.length + b.length := by
  simp [playerCount]

theorem pairDenom_eq (nb : ℕ) (β : ℝ) (a b : TeamAgg ℝ) :
    pairDenom nb β a b = Real.sqrt (nb * β ^ 2 + a.sig2 + b.sig2) := by
  unfold pairDenom
  simp only [sc_sqrt, sc_ofNat]
  congr 1
  ring

theorem drawMargin_eq (β : ℝ) (N : ℕ) :
    drawMargin β N = Real.sqrt N * β * Gauss.PhiInv ((1 + 1 / (N : ℝ)) / 2) := by
  unfold drawMargin
  simp only [sc_sqrt, sc_ofNat, sc_PhiInv, Nat.cast_one, Nat.cast_ofNat]

/-! ### regrouping -/

/-- `chunk (n-1)` of the pairwise terms followed by "sum each group and divide" is, team by team,
the sum over the opponents divided by the denominator -/
theorem regroup (ts : List (TeamAgg ℝ)) (n : ℕ) (hl : ts.length = n) (hn : 2 ≤ n)
    (g : TeamAgg ℝ → TeamAgg ℝ → ℝ) (D : ℝ) :
    (chunk (n - 1) ((orderedPairs ts).map (fun ab => g ab.1 ab.2))).map (fun c => sumL c / D)
      = ts.zipIdx.map (fun a => ((ts.eraseIdx a.2).map (g a.1)).sum / D) := by
  subst hl
  rw [chunk_orderedPairs_map_eraseIdx ts hn, List.map_map]
  apply List.map_congr_left
  intro a _
  simp only [Function.comp, sumL_eq_sum]

theorem sum_flatMap_real {ι : Type} (l : List ι) (g : ι → List ℝ) :
    (l.flatMap g).sum = (l.map (fun a => (g a).sum)).sum := by
  induction l with
  | nil => simp
  | cons a l ih => simp [ih]

/-- the sum of all pairwise terms, as a sum over the teams of sums over the opponents -/
theorem sum_orderedPairs (ts : List (TeamAgg ℝ)) (g : TeamAgg ℝ → TeamAgg ℝ → ℝ) :
    sumL ((orderedPairs ts).map (fun ab => g ab.1 ab.2))
      = (ts.zipIdx.map (fun a => ((ts.eraseIdx a.2).map (g a.1)).sum)).sum := by
  rw [sumL_eq_sum, orderedPairs_map_eraseIdx, sum_flatMap_real]

/-! ### predict_win -/

/-- **Two teams.** `predict_win([a, b]) = [Φ((θa − θb)/√(N β² + s²a + s²b)), 1 − that]` where
`N = playerCount [a, b]` is the total number of players (`playerCount_pair`: `|a| + |b|`). -/
theorem C12_win_two (β : ℝ) (a b : List (Rating ℝ)) :
    predictWin β [a, b] =
      [Gauss.Phi (((teamAgg a 0).mu - (teamAgg b 0).mu) /
          Real.sqrt (playerCount [a, b] * β ^ 2 + (teamAgg a 0).sig2 + (teamAgg b 0).sig2)),
       1 - Gauss.Phi (((teamAgg a 0).mu - (teamAgg b 0).mu) /
          Real.sqrt (playerCount [a, b] * β ^ 2 + (teamAgg a 0).sig2 + (teamAgg b 0).sig2))] := by
  simp only [predictWin, aggs, List.map_cons, List.map_nil, pairDenom_eq, sc_Phi, sc_ofNat,
    Nat.cast_one]

/-- the same, for a list of teams known to have two entries -/
theorem C12_win_two' (β : ℝ) (teams : List (List (Rating ℝ))) (a b : List (Rating ℝ))
    (h : teams = [a, b]) :
    predictWin β teams =
      [Gauss.Phi (((teamAgg a 0).mu - (teamAgg b 0).mu) /
          Real.sqrt ((a.length + b.length : ℕ) * β ^ 2 + (teamAgg a 0).sig2 + (teamAgg b 0).sig2)),
       1 - Gauss.Phi (((teamAgg a 0).mu - (teamAgg b 0).mu) /
          Real.sqrt ((a.length + b.length : ℕ) * β ^ 2 + (teamAgg a 0).sig2 + (teamAgg b 0).sig2))] := by
  subst h
  rw [C12_win_two, playerCount_pair]

/-- **Three or more teams.** Entry `i` of `predict_win` is
`(Σ_{b ∈ opponents of i} Φ((θi − θb)/√(n β² + s²i + s²b))) / (n(n−1)/2)`. -/
theorem C12_win_many (β : ℝ) (teams : List (List (Rating ℝ))) (hn : 3 ≤ teams.length) :
    predictWin β teams = (aggs teams).zipIdx.map (fun a =>
      (((aggs teams).eraseIdx a.2).map (fun b =>
        Gauss.Phi ((a.1.mu - b.mu) / Real.sqrt (teams.length * β ^ 2 + a.1.sig2 + b.sig2)))).sum
        / (((teams.length * (teams.length - 1) : ℕ) : ℝ) / 2)) := by
  have hl : (aggs teams).length = teams.length := length_aggs teams
  unfold predictWin
  split
  · rename_i a b h
    rw [h] at hl; simp at hl; omega
  · dsimp only
    rw [regroup (aggs teams) teams.length hl (by omega)
      (fun a b => Scalar.Phi ((a.mu - b.mu) / pairDenom teams.length β a b))]
    simp only [pairDenom_eq, sc_Phi, sc_ofNat, Nat.cast_ofNat]

/-- entry `i` of `predict_win` for three or more teams, with θ and s² of team `i` written out -/
theorem C12_win_many_entry (β : ℝ) (teams : List (List (Rating ℝ))) (hn : 3 ≤ teams.length)
    (i : ℕ) (hi : i < teams.length) (h : i < (predictWin β teams).length) :
    (predictWin β teams)[i] =
      (((aggs teams).eraseIdx i).map (fun b =>
        Gauss.Phi (((teamAgg teams[i] 0).mu - b.mu)
          / Real.sqrt (teams.length * β ^ 2 + (teamAgg teams[i] 0).sig2 + b.sig2)))).sum
        / (((teams.length * (teams.length - 1) : ℕ) : ℝ) / 2) := by
  rw [List.getElem_of_eq (C12_win_many β teams hn) h]
  simp only [List.getElem_map, List.getElem_zipIdx, Nat.zero_add, getElem_aggs teams i hi]

/-! ### predict_rank probabilities -/

/-- **Rank probabilities, as computed** (all n ≥ 2): entry `i` is
`|(Σ_{b ∈ opponents of i} Φ((θi − θb − m)/√(n β² + s²i + s²b))) / (n(n−1)/2)|`
with `m = drawMargin β N`, `N` the number of players. -/
theorem C12_rank_probs_abs (β : ℝ) (teams : List (List (Rating ℝ))) (hn : 2 ≤ teams.length) :
    predictRankProbs β teams = (aggs teams).zipIdx.map (fun a =>
      |(((aggs teams).eraseIdx a.2).map (fun b =>
        Gauss.Phi ((a.1.mu - b.mu - drawMargin β (playerCount teams))
          / Real.sqrt (teams.length * β ^ 2 + a.1.sig2 + b.sig2)))).sum
        / (((teams.length * (teams.length - 1) : ℕ) : ℝ) / 2)|) := by
  have hl : (aggs teams).length = teams.length := length_aggs teams
  unfold predictRankProbs
  dsimp only
  rw [regroup (aggs teams) teams.length hl hn
    (fun a b => Scalar.Phi ((a.mu - b.mu - drawMargin β (playerCount teams))
      / pairDenom teams.length β a b)), List.map_map]
  apply List.map_congr_left
  intro a _
  simp only [Function.comp, sabs_eq_abs, pairDenom_eq, sc_Phi, sc_ofNat, Nat.cast_ofNat]

theorem sum_map_Phi_nonneg {ι : Type} (l : List ι) (f : ι → ℝ) :
    0 ≤ (l.map (fun b => Gauss.Phi (f b))).sum := by
  apply List.sum_nonneg
  intro x hx
  obtain ⟨b, _, rfl⟩ := List.mem_map.mp hx
  exact Gauss.Phi_nonneg _

/-- **Rank probabilities** (all n ≥ 2): the absolute value is vacuous because Φ ≥ 0; entry `i` is
`(Σ_{b ∈ opponents of i} Φ((θi − θb − m)/√(n β² + s²i + s²b))) / (n(n−1)/2)`. -/
theorem C12_rank_probs (β : ℝ) (teams : List (List (Rating ℝ))) (hn : 2 ≤ teams.length) :
    predictRankProbs β teams = (aggs teams).zipIdx.map (fun a =>
      (((aggs teams).eraseIdx a.2).map (fun b =>
        Gauss.Phi ((a.1.mu - b.mu - drawMargin β (playerCount teams))
          / Real.sqrt (teams.length * β ^ 2 + a.1.sig2 + b.sig2)))).sum
        / (((teams.length * (teams.length - 1) : ℕ) : ℝ) / 2)) := by
  rw [C12_rank_probs_abs β teams hn]
  apply List.map_congr_left
  intro a _
  apply abs_of_nonneg
  apply div_nonneg (sum_map_Phi_nonneg _ _)
  positivity

/-- the draw margin in closed form: `m = √N · β · Φ⁻¹((1 + 1/N)/2)` -/
theorem C12_drawMargin (β : ℝ) (N : ℕ) :
    drawMargin β N = Real.sqrt N * β * Gauss.PhiInv ((1 + 1 / (N : ℝ)) / 2) :=
  drawMargin_eq β N

/-! ### predict_draw -/

/-- **Draw probability, as computed** (any number of teams):
`|Σ_i Σ_{b ∈ opponents of i} (Φ((m − θi + θb)/s_ib) − Φ((θi − θb − m)/s_ib))| / (n(n−1) if n > 2 else 1)`
with `s_ib = √(n β² + s²i + s²b)` and `m = drawMargin β N`. -/
theorem C12_draw (β : ℝ) (teams : List (List (Rating ℝ))) :
    predictDraw β teams =
      |((aggs teams).zipIdx.map (fun a =>
        (((aggs teams).eraseIdx a.2).map (fun b =>
          Gauss.Phi ((drawMargin β (playerCount teams) - a.1.mu + b.mu)
              / Real.sqrt (teams.length * β ^ 2 + a.1.sig2 + b.sig2))
            - Gauss.Phi ((a.1.mu - b.mu - drawMargin β (playerCount teams))
              / Real.sqrt (teams.length * β ^ 2 + a.1.sig2 + b.sig2)))).sum)).sum|
      / (if teams.length > 2 then ((teams.length * (teams.length - 1) : ℕ) : ℝ) else 1) := by
  unfold predictDraw
  dsimp only
  rw [sum_orderedPairs (aggs teams)
    (fun a b => Scalar.Phi ((drawMargin β (playerCount teams) - a.mu + b.mu)
        / pairDenom teams.length β a b)
      - Scalar.Phi ((a.mu - b.mu - drawMargin β (playerCount teams))
        / pairDenom teams.length β a b)), sabs_eq_abs]
  simp only [pairDenom_eq, sc_Phi, sc_ofNat, Nat.cast_one]

/-- the draw margin is non-negative when β ≥ 0 (for every N, also the degenerate N = 0, 1 where
`Φ⁻¹` is evaluated at 1/2 resp. 1 and the model's `PhiInv` returns 0) -/
theorem drawMargin_nonneg (β : ℝ) (hβ : 0 ≤ β) (N : ℕ) : 0 ≤ drawMargin β N := by
  rw [drawMargin_eq]
  apply mul_nonneg (mul_nonneg (Real.sqrt_nonneg _) hβ)
  have hp : 1 / 2 ≤ (1 + 1 / (N : ℝ)) / 2 := by
    have : 0 ≤ 1 / (N : ℝ) := by positivity
    linarith
  by_cases h1 : (1 + 1 / (N : ℝ)) / 2 < 1
  · exact Gauss.PhiInv_nonneg hp h1
  · unfold Gauss.PhiInv
    rw [dif_neg (fun h => h1 h.2)]

/-- A single ordered-pair term `Φ((m − d)/s) − Φ((d − m)/s)` can be negative (when `d > m`), but the
two terms of a pair of teams together are non-negative as soon as `m ≥ 0`. -/
theorem drawBand_symm_nonneg (m c : ℝ) (hm : 0 ≤ m) (a b : TeamAgg ℝ) :
    0 ≤ (Gauss.Phi ((m - a.mu + b.mu) / Real.sqrt (c + a.sig2 + b.sig2))
          - Gauss.Phi ((a.mu - b.mu - m) / Real.sqrt (c + a.sig2 + b.sig2)))
        + (Gauss.Phi ((m - b.mu + a.mu) / Real.sqrt (c + b.sig2 + a.sig2))
          - Gauss.Phi ((b.mu - a.mu - m) / Real.sqrt (c + b.sig2 + a.sig2))) := by
  rw [show c + b.sig2 + a.sig2 = c + a.sig2 + b.sig2 by ring]
  have hs : 0 ≤ Real.sqrt (c + a.sig2 + b.sig2) := Real.sqrt_nonneg _
  have h1 : Gauss.Phi ((b.mu - a.mu - m) / Real.sqrt (c + a.sig2 + b.sig2))
      ≤ Gauss.Phi ((m - a.mu + b.mu) / Real.sqrt (c + a.sig2 + b.sig2)) :=
    Gauss.Phi_strictMono.monotone (div_le_div_of_nonneg_right (by linarith) hs)
  have h2 : Gauss.Phi ((a.mu - b.mu - m) / Real.sqrt (c + a.sig2 + b.sig2))
      ≤ Gauss.Phi ((m - b.mu + a.mu) / Real.sqrt (c + a.sig2 + b.sig2)) :=
    Gauss.Phi_strictMono.monotone (div_le_div_of_nonneg_right (by linarith) hs)
  linarith

/-- a single ordered-pair term of `predict_draw` can indeed be negative (m = 0, d = 1, s = 1) -/
example : Gauss.Phi ((0 - 1) / 1) - Gauss.Phi ((1 - 0) / 1) < 0 := by
  have := Gauss.Phi_strictMono (show ((0 : ℝ) - 1) / 1 < (1 - 0) / 1 by norm_num)
  linarith

/-- **Draw probability** for β ≥ 0: the absolute value in the code is vacuous (the sum over the
ordered pairs is ≥ 0 because the two terms of each pair of teams add up to something ≥ 0). -/
theorem C12_draw_noabs (β : ℝ) (hβ : 0 ≤ β) (teams : List (List (Rating ℝ))) :
    predictDraw β teams =
      ((aggs teams).zipIdx.map (fun a =>
        (((aggs teams).eraseIdx a.2).map (fun b =>
          Gauss.Phi ((drawMargin β (playerCount teams) - a.1.mu + b.mu)
              / Real.sqrt (teams.length * β ^ 2 + a.1.sig2 + b.sig2))
            - Gauss.Phi ((a.1.mu - b.mu - drawMargin β (playerCount teams))
              / Real.sqrt (teams.length * β ^ 2 + a.1.sig2 + b.sig2)))).sum)).sum
      / (if teams.length > 2 then ((teams.length * (teams.length - 1) : ℕ) : ℝ) else 1) := by
  rw [C12_draw]
  congr 1
  apply abs_of_nonneg
  have h := pairSum_nonneg
    (fun a b : TeamAgg ℝ => Gauss.Phi ((drawMargin β (playerCount teams) - a.mu + b.mu)
              / Real.sqrt (teams.length * β ^ 2 + a.sig2 + b.sig2))
            - Gauss.Phi ((a.mu - b.mu - drawMargin β (playerCount teams))
              / Real.sqrt (teams.length * β ^ 2 + a.sig2 + b.sig2)))
    (fun a b => drawBand_symm_nonneg _ _ (drawMargin_nonneg β hβ _) a b) (aggs teams)
  rw [pairSum_eq_zipIdx] at h
  exact h

end OS
end
