import OSProofs.Props.C01
import OSProofs.Props.C01b
import OSProofs.Props.C01d
import OSProofs.Props.C01e
import OSProofs.CodeShaped
import OSProofs.Ladder
import OSProofs.GenTie
import OSProofs.Props.Loops
#print axioms OS.C01_PL
#print axioms OS.C01_BTF
#print axioms OS.C01_BTP
#print axioms OS.C01_TMF
#print axioms OS.C01_TMP
#print axioms OS.C01_omegaDelta
#print axioms OS.C01_player
#print axioms OS.C01_teamAgg
#print axioms OS.C01_inflate_sq
#print axioms OS.C01_teamAgg_inflate
#print axioms OS.C01_compute
#print axioms OS.C01_rate_omitted
#print axioms OS.C01_rate_ranked
#print axioms OS.C01_rate_ranked_full
#print axioms OS.C01_rate_clamped
#print axioms OS.plSumQCode_eq
#print axioms OS.plSumQCode_eq_generic
#print axioms OS.plSumQCode_eq_denseRanks
#print axioms OS.plSumQCode_eq_range
#print axioms OS.denseRanks_nondecreasing
#print axioms OS.ladderPairsCode_eq
#print axioms OS.ladderPairsCode_getElem
#print axioms OS.rateCore_via_prepared
#print axioms OS.compute_eq_computeOn
#print axioms OS.LeafGap.refl
#print axioms OS.LeafGap.symm
#print axioms OS.tmPair_gap
#print axioms OS.C01_leaf_gap_TMF
#print axioms OS.C01_leaf_gap_TMP
#print axioms OS.C01_leaf_gap_pos_of_beta
#print axioms OS.C01_leaf_gap_player
#print axioms OS.C01_leaf_gap_player_sigma
#print axioms OS.C01_leaf_gap_applyTeam
#print axioms OS.C01_leaf_gap_compute_TMF
#print axioms OS.C01_leaf_gap_compute_TMP
#print axioms OS.C01_leaf_gap_rating_TMF
#print axioms OS.C01_leaf_gap_rating_TMP
#print axioms OS.leafGap_code_exact
#print axioms OS.codeGapW_of_le_eight
#print axioms OS.codeGapVW_eq_zero
#print axioms OS.C01_code_vs_exact_TMF
#print axioms OS.C01_code_vs_exact_TMP
#print axioms OS.C01_leafGap_code_exact
#print axioms OS.Gen.gamma_PL_eq
#print axioms OS.Gen.gamma_BTF_eq
#print axioms OS.Gen.gamma_BTP_eq
#print axioms OS.Gen.gamma_TMF_eq
#print axioms OS.Gen.gamma_TMP_eq
#print axioms OS.Gen.v_eq
#print axioms OS.Gen.w_eq
#print axioms OS.Gen.vt_eq
#print axioms OS.Gen.wt_eq
#print axioms OS.computeLoop_eq
#print axioms OS.computeLoop_eq_exact
#print axioms OS.computeLoop_eq_real
#print axioms OS.computeLoopPL_eq
#print axioms OS.computeLoopBTF_eq
#print axioms OS.computeLoopBTP_eq
#print axioms OS.computeLoopTMF_eq
#print axioms OS.computeLoopTMP_eq
#print axioms OS.rateCore_via_loops
#print axioms OS.rateCore_via_loops_real
#print axioms OS.plSumQCode_eq_of_zero
#print axioms OS.computeLoopPLCodeOn_eq
#print axioms OS.computeCode_some_eq
#print axioms OS.computeCode_none_eq
#print axioms OS.rateLoop_eq
#print axioms OS.rateLoop_eq_real
#print axioms OS.lp_teamRatingsLoop_eq
#print axioms OS.lp_plCLoop_eq
#print axioms OS.lp_rankOutputLoop_eq
#print axioms OS.lp_rankingsLoopRanks_eq
#print axioms OS.lp_rankingsLoopNone_eq
#print axioms OS.lp_inflateLoop_eq
#print axioms OS.lp_negateLoop_eq
#print axioms OS.lp_copyLoop_eq
#print axioms OS.lp_clampLoop_eq
#print axioms OS.lp_loopPlayers_eq
