import OSProofs.Props.C20
import OSProofs.Props.C20b
#print axioms OS.C20_rating_given
#print axioms OS.C20_rating_defaults
#print axioms OS.C20_create_rating
#print axioms OS.C20_deepcopy
#print axioms OS.teamAgg_reid
#print axioms OS.C20_predict_reid
#print axioms OS.omegaDelta_reid
#print axioms OS.compute_reid
#print axioms OS.inflate_reid
#print axioms OS.clampTeams_reid
#print axioms OS.unwind_reid
#print axioms OS.C20_rateCore_reid
#print axioms OS.C20_rate_reid
#print axioms OS.C20_rate_values
#print axioms OS.C20_rate_values_of_eq
#print axioms OS.C20_rateCore_values_of_eq
#print axioms OS.C20_rate_rebuilt
#print axioms OS.C20_rate_setIds
