import OSProofs.Props.C19
#print axioms OS.omegaDelta_btp_eq_btf
#print axioms OS.compute_btp_eq_btf
#print axioms OS.C19_btp_eq_btf_two
