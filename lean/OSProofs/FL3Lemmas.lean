import OSModel
import OSProofs.MonoArith
import OSProofs.FL1Lemmas
import OSProofs.PredictLemmas

/-!
# Helper lemmas for FL3

* Part A (scalar-generic, list structure only): the regrouping `chunk (n-1) ∘ orderedPairs` written
  with `othersOf`, the `match` of `predictWin`, lengths.
* Part B (every `MonoArith α`): the two-team `ω` of Bradley–Terry, Plackett–Luce and
  Thurstone–Mosteller as explicit terms, and their order.

Mathlib-free.
-/

namespace OS
open Scalar
variable {α : Type} [Scalar α]

local notation "𝟘" => (Scalar.ofNat 0)
local notation "𝟙" => (Scalar.ofNat 1)

/-! ## Part A: list structure -/

theorem fl3_length_aggs (teams : List (List (Rating α))) : (aggs teams).length = teams.length := by
  simp [aggs]

/-- `chunk (n-1)` of the pairwise terms followed by "left-fold each group and divide" is, team by
team (input order), the left fold over the opponents `othersOf ts i` (input order) divided by `D`.
No arithmetic law is used. -/
theorem fl3_regroup {β : Type} (ts : List β) (n : Nat) (hl : ts.length = n) (hn : 2 ≤ n)
    (g : β → β → α) (D : α) :
    (chunk (n - 1) ((orderedPairs ts).map (fun ab => g ab.1 ab.2))).map (fun c => sumL c / D)
      = ts.zipIdx.map (fun a => sumL ((othersOf ts a.2).map (g a.1)) / D) := by
  subst hl
  rw [chunk_orderedPairs_map ts hn, List.map_map]
  apply List.map_congr_left
  intro a _
  simp only [Function.comp, othersOf, List.map_map]
  rfl

/-- the empty game: both sides are empty -/
theorem fl3_regroup_nil {β : Type} (k : Nat) (g : β → β → α) (D : α) :
    (chunk k ((orderedPairs ([] : List β)).map (fun ab => g ab.1 ab.2))).map (fun c => sumL c / D)
      = ([] : List β).zipIdx.map (fun a => sumL ((othersOf [] a.2).map (g a.1)) / D) := by
  simp [orderedPairs, chunk_nil]

/-- a one-element list has no ordered pairs -/
theorem fl3_orderedPairs_singleton {β : Type} (x : β) : orderedPairs [x] = [] := by
  simp [orderedPairs]

/-- the regrouping for every length but 1 -/
theorem fl3_regroup' {β : Type} (ts : List β) (n : Nat) (hl : ts.length = n) (hn : n ≠ 1)
    (g : β → β → α) (D : α) :
    (chunk (n - 1) ((orderedPairs ts).map (fun ab => g ab.1 ab.2))).map (fun c => sumL c / D)
      = ts.zipIdx.map (fun a => sumL ((othersOf ts a.2).map (g a.1)) / D) := by
  by_cases h0 : n = 0
  · subst h0
    have : ts = [] := List.length_eq_zero_iff.1 hl
    subst this
    exact fl3_regroup_nil _ g D
  · exact fl3_regroup ts n hl (by omega) g D

/-- the sum over all ordered pairs is the nested loop with ONE running accumulator: for each team in
order, for each opponent in order, `acc += term`.  (Not: the sum of the per-team sums.) -/
theorem fl3_sumL_orderedPairs {β : Type} (ts : List β) (g : β → β → α) :
    sumL ((orderedPairs ts).map (fun ab => g ab.1 ab.2))
      = ts.zipIdx.foldl (fun acc a => ((othersOf ts a.2).map (g a.1)).foldl (· + ·) acc) 𝟘 := by
  unfold sumL
  rw [orderedPairs_map, List.foldl_flatMap]
  congr 1
  funext acc a
  simp only [othersOf, List.map_map]
  rfl

/-! ### regrouping a left fold is not a list-structure fact -/

/-- a toy scalar type: integers in which every sum above 4 is truncated to an even number
(a caricature of a floating-point format whose spacing is 2 above 4): monotone, not associative -/
structure Fl3Toy where
  v : Int
  deriving DecidableEq

def Fl3Toy.rnd (s : Int) : Int := if s > 4 then s - s % 2 else s

instance : Scalar Fl3Toy where
  add a b := ⟨Fl3Toy.rnd (a.v + b.v)⟩
  sub a b := ⟨a.v - b.v⟩
  mul a b := ⟨a.v * b.v⟩
  div a b := ⟨a.v / b.v⟩
  neg a := ⟨-a.v⟩
  lt a b := a.v < b.v
  le a b := a.v ≤ b.v
  ofNat n := ⟨n⟩
  sqrt a := a
  exp a := a
  Phi a := a
  phi a := a
  PhiInv a := a
  decLt a b := inferInstanceAs (Decidable (a.v < b.v))
  decLe a b := inferInstanceAs (Decidable (a.v ≤ b.v))

/-- in the toy arithmetic the flat left fold over `[4, 1, 1]` and the "sum of the per-group sums" over
`[[4], [1, 1]]` differ (4 vs 6): regrouping a `sumL` needs associativity -/
theorem fl3_toy_regroup_fails :
    sumL ([[(⟨4⟩ : Fl3Toy)], [⟨1⟩, ⟨1⟩]].flatten) = ⟨4⟩
    ∧ sumL ([[(⟨4⟩ : Fl3Toy)], [⟨1⟩, ⟨1⟩]].map sumL) = ⟨6⟩ := by
  decide
/-! ## Part B: the two-team chain -/

/-! ### the order laws beyond `MonoArith` that the chain needs

`MonoArith` has `mul_le_mul'` only for non-negative factors.  The draw `ω` of a two-team game can have
either sign, so the chain `ω_loss ≤ ω_draw` compares two products whose second factors are both `≤ 0`: that
is a law of its own.  It is *not* derivable from `MonoArith`: the laws of `MonoArith` constrain `a * x` for
`0 < a`, `x < 0` only by `a * x ≤ 0`, so redefining the product on that quadrant as any non-monotone
non-positive function gives a model of `MonoArith` in which the law fails.  It holds in ℝ and in every
"exact, then monotone rounding" arithmetic (`Props/FL3Inst.lean`). -/

/-- `0 ≤ a`, `x ≤ y ≤ 0` ⟹ `a * x ≤ a * y` (used by Bradley–Terry `s2c * (s − p)`, Thurstone–Mosteller and
by the per-player `share * ω`) -/
def MulLeftMonoNonpos (α : Type) [Scalar α] : Prop :=
  ∀ a x y : α, 𝟘 ≤ a → x ≤ y → y ≤ 𝟘 → a * x ≤ a * y

/-- `0 ≤ a`, `x ≤ y ≤ 0` ⟹ `x * a ≤ y * a` (used by Plackett–Luce `Σ… * (σ²/c)`; there is no
commutativity) -/
def MulRightMonoNonpos (α : Type) [Scalar α] : Prop :=
  ∀ a x y : α, 𝟘 ≤ a → x ≤ y → y ≤ 𝟘 → x * a ≤ y * a

/-- `0 ≤ a` ⟹ `a / 2 ≤ a / 1` (Plackett–Luce: `A_q = 2` for the tie, `1` otherwise).  Follows from
"division by 1 is exact" (`fl3_halfLeOne_of_div_one`) and from "division is antitone in a positive divisor"
(`fl3_halfLeOne_of_antitone`); `MonoArith` has neither (`div_le_self'` gives `a / 1 ≤ a` only). -/
def HalfLeOne (α : Type) [Scalar α] : Prop :=
  ∀ a : α, 𝟘 ≤ a → a / ofNat 2 ≤ a / ofNat 1

/-- `(−a) * b ≤ a * (−b)` (Thurstone–Mosteller: the loss term is `(−s2c) * v(−x, t)`); an equality in every
sign-symmetric arithmetic -/
def NegMulLe (α : Type) [Scalar α] : Prop :=
  ∀ a b : α, (-a) * b ≤ a * (-b)

/-- the four laws together -/
structure ChainLaws (α : Type) [Scalar α] : Prop where
  mulL : MulLeftMonoNonpos α
  mulR : MulRightMonoNonpos α
  half : HalfLeOne α
  negMul : NegMulLe α

namespace MonoArith
variable (M : MonoArith α)
include M

theorem fl3_halfLeOne_of_div_one (h : ∀ a : α, a / ofNat 1 = a) : HalfLeOne α := by
  intro a ha
  rw [h a]
  exact M.div_le_self' ha (M.ofNat_le' (by decide))

omit M in
theorem fl3_halfLeOne_of_antitone
    (h : ∀ a b c : α, 𝟘 ≤ a → 𝟘 < c → c ≤ b → a / b ≤ a / c) (M : MonoArith α) : HalfLeOne α :=
  fun a ha => h a _ _ ha M.fl1_zero_lt_one (M.ofNat_le' (by decide))

/-- multiplication by a non-negative left factor is monotone on all of `α` -/
theorem fl3_mul_le_mul_left (hL : MulLeftMonoNonpos α) {a x y : α} (ha : 𝟘 ≤ a) (h : x ≤ y) :
    a * x ≤ a * y := by
  rcases M.le_total' 𝟘 x with hx | hx
  · exact M.mul_le_mul' ha (M.le_refl' a) hx h
  · rcases M.le_total' 𝟘 y with hy | hy
    · exact M.le_trans' (M.mul_nonpos_right' ha hx) (M.mul_nonneg' ha hy)
    · exact hL a x y ha h hy

/-- multiplication by a non-negative right factor is monotone on all of `α` -/
theorem fl3_mul_le_mul_right (hR : MulRightMonoNonpos α) {a x y : α} (ha : 𝟘 ≤ a) (h : x ≤ y) :
    x * a ≤ y * a := by
  rcases M.le_total' 𝟘 x with hx | hx
  · exact M.mul_le_mul' hx h ha (M.le_refl' a)
  · rcases M.le_total' 𝟘 y with hy | hy
    · exact M.le_trans' (M.mul_nonpos_left' hx ha) (M.mul_nonneg' hy ha)
    · exact hR a x y ha h hy

/-- `0 ≤ 1/2` as computed -/
theorem fl3_half_nonneg : (𝟘 : α) ≤ 𝟙 / ofNat 2 :=
  M.div_nonneg' M.fl1_zero_le_one (M.fl1_zero_lt_ofNat (by decide))

/-- `1/2 ≤ 1` as computed -/
theorem fl3_half_le_one : (𝟙 : α) / ofNat 2 ≤ 𝟙 :=
  M.div_le_one' (M.ofNat_le' (by decide)) (M.fl1_zero_lt_ofNat (by decide))

/-- `sumL [x] = 0 + x` is monotone in `x` -/
theorem fl3_sumL_singleton_mono {x y : α} (h : x ≤ y) : sumL [x] ≤ sumL [y] :=
  M.add_le_add' (M.le_refl' _) h

end MonoArith

/-! ### the same team with another rank -/

/-- the team aggregate `t` with its rank replaced by `r` (mu, sig2, players unchanged) -/
def fl3_wr (t : TeamAgg α) (r : Nat) : TeamAgg α := { t with rank := r }

omit [Scalar α] in
@[simp] theorem fl3_wr_mu (t : TeamAgg α) (r : Nat) : (fl3_wr t r).mu = t.mu := rfl
omit [Scalar α] in
@[simp] theorem fl3_wr_sig2 (t : TeamAgg α) (r : Nat) : (fl3_wr t r).sig2 = t.sig2 := rfl
omit [Scalar α] in
@[simp] theorem fl3_wr_rank (t : TeamAgg α) (r : Nat) : (fl3_wr t r).rank = r := rfl
omit [Scalar α] in
@[simp] theorem fl3_wr_players (t : TeamAgg α) (r : Nat) : (fl3_wr t r).players = t.players := rfl
theorem fl3_wr_teamAgg (T : List (Rating α)) (d r : Nat) : fl3_wr (teamAgg T d) r = teamAgg T r := rfl

theorem fl3_othersOf_two_zero {β : Type} (a b : β) : othersOf [a, b] 0 = [b] := rfl
theorem fl3_othersOf_two_one {β : Type} (a b : β) : othersOf [a, b] 1 = [a] := rfl
theorem fl3_neighboursOf_two_zero {β : Type} (a b : β) : neighboursOf [a, b] 0 = [b] := rfl
theorem fl3_neighboursOf_two_one {β : Type} (a b : β) : neighboursOf [a, b] 1 = [a] := rfl

/-! ### Bradley–Terry -/

/-- the Bradley–Terry divisor `c_iq` -/
def fl3_ciq (beta : α) (ti tq : TeamAgg α) : α :=
  sqrt (ti.sig2 + tq.sig2 + ofNat 2 * (beta * beta))

/-- the mean component of one Bradley–Terry pair with the score `s ∈ {1, 1/2, 0}` as a parameter:
`σ²_i / c_iq * (s − p_iq)` -/
def fl3_btOm (beta : α) (ti tq : TeamAgg α) (s : α) : α :=
  ti.sig2 / fl3_ciq beta ti tq
    * (s - 𝟙 / (𝟙 + exp ((tq.mu - ti.mu) / fl3_ciq beta ti tq)))

theorem fl3_btPair_win (beta : α) (g : GammaFn α) (n : Nat) (ti tq : TeamAgg α) {ri rq : Nat}
    (h : ri < rq) : (btPair beta g n (fl3_wr ti ri) (fl3_wr tq rq)).1 = fl3_btOm beta ti tq 𝟙 := by
  have h' : (fl3_wr ti ri).rank < (fl3_wr tq rq).rank := h
  simp only [btPair, if_pos h']
  rfl

theorem fl3_btPair_draw (beta : α) (g : GammaFn α) (n : Nat) (ti tq : TeamAgg α) (r : Nat) :
    (btPair beta g n (fl3_wr ti r) (fl3_wr tq r)).1 = fl3_btOm beta ti tq (𝟙 / ofNat 2) := by
  have h1 : ¬ (fl3_wr ti r).rank < (fl3_wr tq r).rank := Nat.lt_irrefl r
  have h2 : (fl3_wr tq r).rank = (fl3_wr ti r).rank := rfl
  simp only [btPair, if_neg h1, if_pos h2]
  rfl

theorem fl3_btPair_loss (beta : α) (g : GammaFn α) (n : Nat) (ti tq : TeamAgg α) {ri rq : Nat}
    (h : rq < ri) : (btPair beta g n (fl3_wr ti ri) (fl3_wr tq rq)).1 = fl3_btOm beta ti tq 𝟘 := by
  have h1 : ¬ (fl3_wr ti ri).rank < (fl3_wr tq rq).rank := Nat.lt_asymm h
  have h2 : ¬ (fl3_wr tq rq).rank = (fl3_wr ti ri).rank := Nat.ne_of_lt h
  simp only [btPair, if_neg h1, if_neg h2]
  rfl

namespace MonoArith
variable (M : MonoArith α)
include M

/-- the pair term is monotone in the score -/
theorem fl3_btOm_mono (hL : MulLeftMonoNonpos α) (beta : α) (ti tq : TeamAgg α)
    (hs : 𝟘 ≤ ti.sig2) (hc : 𝟘 < fl3_ciq beta ti tq) {s s' : α} (h : s ≤ s') :
    fl3_btOm beta ti tq s ≤ fl3_btOm beta ti tq s' :=
  M.fl3_mul_le_mul_left hL (M.div_nonneg' hs hc) (M.sub_le_sub' h (M.le_refl' _))

theorem fl3_btOm_one_nonneg (beta : α) (ti tq : TeamAgg α)
    (hs : 𝟘 ≤ ti.sig2) (hc : 𝟘 < fl3_ciq beta ti tq) : 𝟘 ≤ fl3_btOm beta ti tq 𝟙 :=
  M.mul_nonneg' (M.div_nonneg' hs hc) (M.sub_nonneg' (M.fl1_bt_p_le_one _))

theorem fl3_btOm_zero_nonpos (beta : α) (ti tq : TeamAgg α)
    (hs : 𝟘 ≤ ti.sig2) (hc : 𝟘 < fl3_ciq beta ti tq) : fl3_btOm beta ti tq 𝟘 ≤ 𝟘 :=
  M.mul_nonpos_right' (M.div_nonneg' hs hc) (M.sub_nonpos' (M.fl1_bt_p_nonneg _))

/-- **Bradley–Terry chain for one pair**, as the sums `0 + term` that `sumPairs` forms -/
theorem fl3_bt_chain (hL : MulLeftMonoNonpos α) (beta : α) (ti tq : TeamAgg α)
    (hs : 𝟘 ≤ ti.sig2) (hc : 𝟘 < fl3_ciq beta ti tq) :
    sumL [fl3_btOm beta ti tq 𝟘] ≤ sumL [fl3_btOm beta ti tq (𝟙 / ofNat 2)]
    ∧ sumL [fl3_btOm beta ti tq (𝟙 / ofNat 2)] ≤ sumL [fl3_btOm beta ti tq 𝟙]
    ∧ sumL [fl3_btOm beta ti tq 𝟘] ≤ 𝟘
    ∧ 𝟘 ≤ sumL [fl3_btOm beta ti tq 𝟙] :=
  ⟨M.fl3_sumL_singleton_mono (M.fl3_btOm_mono hL beta ti tq hs hc M.fl3_half_nonneg),
   M.fl3_sumL_singleton_mono (M.fl3_btOm_mono hL beta ti tq hs hc M.fl3_half_le_one),
   M.add_nonpos' (M.le_refl' _) (M.fl3_btOm_zero_nonpos beta ti tq hs hc),
   M.add_nonneg' (M.le_refl' _) (M.fl3_btOm_one_nonneg beta ti tq hs hc)⟩

end MonoArith

/-! ### Plackett–Luce: the two-team `ω` as explicit terms

`e_i = exp(μ_i / c)`; `sumL [e0, e1] = (0 + e0) + e1` is `sum_q` of a team that is not ranked behind the other,
`sumL [e_i] = 0 + e_i` is `sum_q` of a sole last team; `A_q` is `1` (no tie) or `2` (tie). -/

theorem fl3_pl0_win (g : GammaFn α) (t0 t1 : TeamAgg α) (c : α) {r0 r1 : Nat} (h : r0 < r1) :
    (plOmegaDelta g [fl3_wr t0 r0, fl3_wr t1 r1] c (plSumQ [fl3_wr t0 r0, fl3_wr t1 r1] c)
      (plA [fl3_wr t0 r0, fl3_wr t1 r1]) 0 (fl3_wr t0 r0)).1
    = sumL [(𝟙 - exp (t0.mu / c) / sumL [exp (t0.mu / c), exp (t1.mu / c)]) / ofNat 1]
        * (t0.sig2 / c) := by
  have h1 : ¬ r1 ≤ r0 := Nat.not_le.2 h
  have h2 : r0 ≤ r1 := Nat.le_of_lt h
  have h3 : ¬ r0 = r1 := Nat.ne_of_lt h
  simp only [plOmegaDelta, fl3_wr_mu, fl3_wr_rank, plSumQ, List.filter, List.map_cons, Std.le_refl,
    decide_true, h2, List.map_nil, h1, decide_false, plA, h3, List.length_cons, List.length_nil,
    Nat.zero_add, List.zip_cons_cons, List.zip_nil_right, List.zipIdx_cons, List.zipIdx,
    List.filter_cons_of_pos, ↓reduceIte, fl3_wr_sig2, Nat.reduceAdd, fl3_wr_players]

theorem fl3_pl0_draw (g : GammaFn α) (t0 t1 : TeamAgg α) (c : α) (r : Nat) :
    (plOmegaDelta g [fl3_wr t0 r, fl3_wr t1 r] c (plSumQ [fl3_wr t0 r, fl3_wr t1 r] c)
      (plA [fl3_wr t0 r, fl3_wr t1 r]) 0 (fl3_wr t0 r)).1
    = sumL [(𝟙 - exp (t0.mu / c) / sumL [exp (t0.mu / c), exp (t1.mu / c)]) / ofNat 2,
         -(exp (t0.mu / c) / sumL [exp (t0.mu / c), exp (t1.mu / c)] / ofNat 2)]
        * (t0.sig2 / c) := by
  simp only [plOmegaDelta, fl3_wr_mu, fl3_wr_rank, plSumQ, List.filter, List.map_cons, Std.le_refl,
    decide_true, List.map_nil, plA, List.length_cons, List.length_nil, Nat.zero_add, Nat.reduceAdd,
    List.zip_cons_cons, List.zip_nil_right, List.zipIdx_cons, List.zipIdx, List.filter_cons_of_pos,
    ↓reduceIte, Nat.succ_ne_self, fl3_wr_sig2, fl3_wr_players]

theorem fl3_pl0_loss (g : GammaFn α) (t0 t1 : TeamAgg α) (c : α) {r0 r1 : Nat} (h : r1 < r0) :
    (plOmegaDelta g [fl3_wr t0 r0, fl3_wr t1 r1] c (plSumQ [fl3_wr t0 r0, fl3_wr t1 r1] c)
      (plA [fl3_wr t0 r0, fl3_wr t1 r1]) 0 (fl3_wr t0 r0)).1
    = sumL [(𝟙 - exp (t0.mu / c) / sumL [exp (t0.mu / c)]) / ofNat 1,
         -(exp (t0.mu / c) / sumL [exp (t0.mu / c), exp (t1.mu / c)] / ofNat 1)]
        * (t0.sig2 / c) := by
  have h1 : ¬ r0 ≤ r1 := Nat.not_le.2 h
  have h2 : r1 ≤ r0 := Nat.le_of_lt h
  have h3 : ¬ r0 = r1 := (Nat.ne_of_lt h).symm
  have h4 : ¬ r1 = r0 := (Nat.ne_of_lt h)
  simp only [plOmegaDelta, fl3_wr_mu, fl3_wr_rank, plSumQ, List.filter, List.map_cons, Std.le_refl,
    decide_true, h1, decide_false, List.map_nil, h2, plA, h3, List.length_cons, List.length_nil,
    Nat.zero_add, h4, List.zip_cons_cons, List.zip_nil_right, List.zipIdx_cons, List.zipIdx,
    List.filter_cons_of_pos, ↓reduceIte, Nat.succ_ne_self, fl3_wr_sig2, Nat.reduceAdd, fl3_wr_players]

theorem fl3_pl1_win (g : GammaFn α) (t0 t1 : TeamAgg α) (c : α) {r0 r1 : Nat} (h : r1 < r0) :
    (plOmegaDelta g [fl3_wr t0 r0, fl3_wr t1 r1] c (plSumQ [fl3_wr t0 r0, fl3_wr t1 r1] c)
      (plA [fl3_wr t0 r0, fl3_wr t1 r1]) 1 (fl3_wr t1 r1)).1
    = sumL [(𝟙 - exp (t1.mu / c) / sumL [exp (t0.mu / c), exp (t1.mu / c)]) / ofNat 1]
        * (t1.sig2 / c) := by
  have h1 : ¬ r0 ≤ r1 := Nat.not_le.2 h
  have h2 : r1 ≤ r0 := Nat.le_of_lt h
  have h3 : ¬ r0 = r1 := (Nat.ne_of_lt h).symm
  have h4 : ¬ r1 = r0 := (Nat.ne_of_lt h)
  simp only [plOmegaDelta, fl3_wr_mu, fl3_wr_rank, plSumQ, List.filter, List.map_cons, Std.le_refl,
    decide_true, h1, decide_false, List.map_nil, h2, plA, h3, List.length_cons, List.length_nil,
    Nat.zero_add, h4, List.zip_cons_cons, List.zip_nil_right, List.zipIdx_cons, List.zipIdx,
    Bool.false_eq_true, not_false_eq_true, List.filter_cons_of_neg, ↓reduceIte, fl3_wr_sig2,
    Nat.reduceAdd, fl3_wr_players]

theorem fl3_pl1_draw (g : GammaFn α) (t0 t1 : TeamAgg α) (c : α) (r : Nat) :
    (plOmegaDelta g [fl3_wr t0 r, fl3_wr t1 r] c (plSumQ [fl3_wr t0 r, fl3_wr t1 r] c)
      (plA [fl3_wr t0 r, fl3_wr t1 r]) 1 (fl3_wr t1 r)).1
    = sumL [-(exp (t1.mu / c) / sumL [exp (t0.mu / c), exp (t1.mu / c)] / ofNat 2),
        (𝟙 - exp (t1.mu / c) / sumL [exp (t0.mu / c), exp (t1.mu / c)]) / ofNat 2]
        * (t1.sig2 / c) := by
  simp only [plOmegaDelta, fl3_wr_mu, fl3_wr_rank, plSumQ, List.filter, List.map_cons, Std.le_refl,
    decide_true, List.map_nil, plA, List.length_cons, List.length_nil, Nat.zero_add, Nat.reduceAdd,
    List.zip_cons_cons, List.zip_nil_right, List.zipIdx_cons, List.zipIdx, List.filter_cons_of_pos,
    Nat.zero_ne_one, ↓reduceIte, fl3_wr_sig2, fl3_wr_players]

theorem fl3_pl1_loss (g : GammaFn α) (t0 t1 : TeamAgg α) (c : α) {r0 r1 : Nat} (h : r0 < r1) :
    (plOmegaDelta g [fl3_wr t0 r0, fl3_wr t1 r1] c (plSumQ [fl3_wr t0 r0, fl3_wr t1 r1] c)
      (plA [fl3_wr t0 r0, fl3_wr t1 r1]) 1 (fl3_wr t1 r1)).1
    = sumL [-(exp (t1.mu / c) / sumL [exp (t0.mu / c), exp (t1.mu / c)] / ofNat 1),
        (𝟙 - exp (t1.mu / c) / sumL [exp (t1.mu / c)]) / ofNat 1]
        * (t1.sig2 / c) := by
  have h1 : ¬ r1 ≤ r0 := Nat.not_le.2 h
  have h2 : r0 ≤ r1 := Nat.le_of_lt h
  have h3 : ¬ r0 = r1 := Nat.ne_of_lt h
  have h4 : ¬ r1 = r0 := (Nat.ne_of_lt h).symm
  simp only [plOmegaDelta, fl3_wr_mu, fl3_wr_rank, plSumQ, List.filter, List.map_cons, Std.le_refl,
    decide_true, h2, List.map_nil, h1, decide_false, plA, h3, List.length_cons, List.length_nil,
    Nat.zero_add, h4, List.zip_cons_cons, List.zip_nil_right, List.zipIdx_cons, List.zipIdx,
    List.filter_cons_of_pos, Nat.zero_ne_one, ↓reduceIte, fl3_wr_sig2, Nat.reduceAdd, fl3_wr_players]

namespace MonoArith
variable (M : MonoArith α)
include M

/-- `1 ≤ e / (0 + e)` for `e > 0`: the `p_ii` of a sole last team (as in `fl1_plOmegaDelta_fst_nonpos`) -/
theorem fl3_one_le_div_singleton {e : α} (he : 𝟘 < e) : 𝟙 ≤ e / sumL [e] := by
  have hpos : 𝟘 < sumL [e] := M.fl1_lt_of_lt_of_le he (M.fl1_le_sumL_singleton _)
  have := M.div_le_div_right' (M.fl1_sumL_singleton_le e) hpos
  rwa [M.div_self' hpos] at this

/-- `e0 ≤ (0 + e0) + e1` and `e1 ≤ (0 + e0) + e1` -/
theorem fl3_le_sumL_pair {e0 e1 : α} (h0 : 𝟘 ≤ e0) (h1 : 𝟘 ≤ e1) :
    e0 ≤ sumL [e0, e1] ∧ e1 ≤ sumL [e0, e1] := by
  have hall : ∀ x ∈ [e0, e1], 𝟘 ≤ x := by
    intro x hx
    rcases List.mem_cons.1 hx with rfl | hx
    · exact h0
    · rcases List.mem_cons.1 hx with rfl | hx
      · exact h1
      · cases hx
  exact ⟨M.fl1_le_sumL_of_mem hall (by simp), M.fl1_le_sumL_of_mem hall (by simp)⟩

/-- **Plackett–Luce chain, own term first** (team 0 of two): with `p = e/S ∈ [0,1]`, `q = e/(0+e) ≥ 1`,
`w ≥ 0`:  `loss ≤ draw ≤ win`, `loss ≤ 0 ≤ win` for the three computed `ω` -/
theorem fl3_pl_chain0 (hR : MulRightMonoNonpos α) (hH : HalfLeOne α) {p q w : α}
    (hp0 : 𝟘 ≤ p) (hp1 : p ≤ 𝟙) (hq : 𝟙 ≤ q) (hw : 𝟘 ≤ w) :
    sumL [(𝟙 - q) / ofNat 1, -(p / ofNat 1)] * w ≤ sumL [(𝟙 - p) / ofNat 2, -(p / ofNat 2)] * w
    ∧ sumL [(𝟙 - p) / ofNat 2, -(p / ofNat 2)] * w ≤ sumL [(𝟙 - p) / ofNat 1] * w
    ∧ sumL [(𝟙 - q) / ofNat 1, -(p / ofNat 1)] * w ≤ 𝟘
    ∧ 𝟘 ≤ sumL [(𝟙 - p) / ofNat 1] * w := by
  have h2 : (𝟘 : α) < ofNat 2 := M.fl1_zero_lt_ofNat (by decide)
  have h1 : (𝟘 : α) < ofNat 1 := M.fl1_zero_lt_one
  have hx : 𝟘 ≤ 𝟙 - p := M.sub_nonneg' hp1
  have hy : 𝟙 - q ≤ 𝟘 := M.sub_nonpos' hq
  have hloss : sumL [(𝟙 - q) / ofNat 1, -(p / ofNat 1)] ≤ 𝟘 :=
    M.add_nonpos' (M.add_nonpos' (M.le_refl' _) (M.div_nonpos' hy h1))
      (M.neg_nonpos' (M.div_nonneg' hp0 h1))
  have hwin : 𝟘 ≤ sumL [(𝟙 - p) / ofNat 1] :=
    M.add_nonneg' (M.le_refl' _) (M.div_nonneg' hx h1)
  refine ⟨M.fl3_mul_le_mul_right hR hw ?_, M.fl3_mul_le_mul_right hR hw ?_,
    M.mul_nonpos_left' hloss hw, M.mul_nonneg' hwin hw⟩
  · exact M.add_le_add' (M.add_le_add' (M.le_refl' _)
      (M.le_trans' (M.div_nonpos' hy h1) (M.div_nonneg' hx h2)))
      (M.neg_le_neg' (hH p hp0))
  · exact M.le_trans' (M.add_le_right' (M.neg_nonpos' (M.div_nonneg' hp0 h2)))
      (M.add_le_add' (M.le_refl' _) (hH _ hx))

/-- **Plackett–Luce chain, own term last** (team 1 of two) -/
theorem fl3_pl_chain1 (hR : MulRightMonoNonpos α) (hH : HalfLeOne α) {p q w : α}
    (hp0 : 𝟘 ≤ p) (hp1 : p ≤ 𝟙) (hq : 𝟙 ≤ q) (hw : 𝟘 ≤ w) :
    sumL [-(p / ofNat 1), (𝟙 - q) / ofNat 1] * w ≤ sumL [-(p / ofNat 2), (𝟙 - p) / ofNat 2] * w
    ∧ sumL [-(p / ofNat 2), (𝟙 - p) / ofNat 2] * w ≤ sumL [(𝟙 - p) / ofNat 1] * w
    ∧ sumL [-(p / ofNat 1), (𝟙 - q) / ofNat 1] * w ≤ 𝟘
    ∧ 𝟘 ≤ sumL [(𝟙 - p) / ofNat 1] * w := by
  have h2 : (𝟘 : α) < ofNat 2 := M.fl1_zero_lt_ofNat (by decide)
  have h1 : (𝟘 : α) < ofNat 1 := M.fl1_zero_lt_one
  have hx : 𝟘 ≤ 𝟙 - p := M.sub_nonneg' hp1
  have hy : 𝟙 - q ≤ 𝟘 := M.sub_nonpos' hq
  have hloss : sumL [-(p / ofNat 1), (𝟙 - q) / ofNat 1] ≤ 𝟘 :=
    M.add_nonpos' (M.add_nonpos' (M.le_refl' _) (M.neg_nonpos' (M.div_nonneg' hp0 h1)))
      (M.div_nonpos' hy h1)
  have hwin : 𝟘 ≤ sumL [(𝟙 - p) / ofNat 1] :=
    M.add_nonneg' (M.le_refl' _) (M.div_nonneg' hx h1)
  refine ⟨M.fl3_mul_le_mul_right hR hw ?_, M.fl3_mul_le_mul_right hR hw ?_,
    M.mul_nonpos_left' hloss hw, M.mul_nonneg' hwin hw⟩
  · exact M.add_le_add' (M.add_le_add' (M.le_refl' _) (M.neg_le_neg' (hH p hp0)))
      (M.le_trans' (M.div_nonpos' hy h1) (M.div_nonneg' hx h2))
  · exact M.le_trans' (M.add_le_left'
        (M.add_nonpos' (M.le_refl' _) (M.neg_nonpos' (M.div_nonneg' hp0 h2))))
      (M.le_trans' (hH _ hx) (M.le_add_left' (M.le_refl' _)))

end MonoArith

/-! ### Thurstone–Mosteller -/

/-- the Thurstone–Mosteller divisor `cmul * c_iq` -/
def fl3_tmC (cmul beta : α) (ti tq : TeamAgg α) : α :=
  cmul * sqrt (ti.sig2 + tq.sig2 + ofNat 2 * (beta * beta))

/-- the first leaf argument `(μ_i − μ_q) / c` -/
def fl3_tmD (cmul beta : α) (ti tq : TeamAgg α) : α := (ti.mu - tq.mu) / fl3_tmC cmul beta ti tq

/-- the second leaf argument `κ / c` (the code passes `kappa`, not a draw margin, as `t`) -/
def fl3_tmT (cmul beta kappa : α) (ti tq : TeamAgg α) : α := kappa / fl3_tmC cmul beta ti tq

/-- **What the chain needs of the leaves, at the two arguments the pair is evaluated at**: with
`x = (μ_i − μ_q)/c`, `t = κ/c`: `v(x,t) ≥ 0`, `v(−x,t) ≥ 0`, and `−v(−x,t) ≤ vt(x,t) ≤ v(x,t)`
(for the exact functions: `E[Z | Z < −t−x] ≤ E[Z | −t−x < Z < t−x] ≤ E[Z | Z > t−x]`). -/
structure LeavesChainAt (L : Leaves α) (x t : α) : Prop where
  v_nonneg : 𝟘 ≤ L.v x t
  v_neg_nonneg : 𝟘 ≤ L.v (-x) t
  vt_le_v : L.vt x t ≤ L.v x t
  neg_v_le_vt : -(L.v (-x) t) ≤ L.vt x t

theorem fl3_tmPair_win (L : Leaves α) (cmul beta kappa : α) (g : GammaFn α) (n : Nat)
    (ti tq : TeamAgg α) {ri rq : Nat} (h : ri < rq) :
    (tmPair L cmul beta kappa g n (fl3_wr ti ri) (fl3_wr tq rq)).1
      = ti.sig2 / fl3_tmC cmul beta ti tq
          * L.v (fl3_tmD cmul beta ti tq) (fl3_tmT cmul beta kappa ti tq) := by
  have h' : (fl3_wr ti ri).rank < (fl3_wr tq rq).rank := h
  simp only [tmPair, if_pos h']
  rfl

theorem fl3_tmPair_draw (L : Leaves α) (cmul beta kappa : α) (g : GammaFn α) (n : Nat)
    (ti tq : TeamAgg α) (r : Nat) :
    (tmPair L cmul beta kappa g n (fl3_wr ti r) (fl3_wr tq r)).1
      = ti.sig2 / fl3_tmC cmul beta ti tq
          * L.vt (fl3_tmD cmul beta ti tq) (fl3_tmT cmul beta kappa ti tq) := by
  have h1 : ¬ (fl3_wr ti r).rank < (fl3_wr tq r).rank := Nat.lt_irrefl r
  have h2 : ¬ (fl3_wr tq r).rank < (fl3_wr ti r).rank := Nat.lt_irrefl r
  simp only [tmPair, if_neg h1, if_neg h2]
  rfl

theorem fl3_tmPair_loss (L : Leaves α) (cmul beta kappa : α) (g : GammaFn α) (n : Nat)
    (ti tq : TeamAgg α) {ri rq : Nat} (h : rq < ri) :
    (tmPair L cmul beta kappa g n (fl3_wr ti ri) (fl3_wr tq rq)).1
      = (-(ti.sig2 / fl3_tmC cmul beta ti tq))
          * L.v (-(fl3_tmD cmul beta ti tq)) (fl3_tmT cmul beta kappa ti tq) := by
  have h1 : ¬ (fl3_wr ti ri).rank < (fl3_wr tq rq).rank := Nat.lt_asymm h
  have h2 : (fl3_wr tq rq).rank < (fl3_wr ti ri).rank := h
  simp only [tmPair, if_neg h1, if_pos h2]
  rfl

namespace MonoArith
variable (M : MonoArith α)
include M

/-- **Thurstone–Mosteller chain for one pair**, as the sums `0 + term` that `sumPairs` forms -/
theorem fl3_tm_chain (hL : MulLeftMonoNonpos α) (hN : NegMulLe α) (L : Leaves α) {s2c x t : α}
    (hs : 𝟘 ≤ s2c) (hLv : LeavesChainAt L x t) :
    sumL [(-s2c) * L.v (-x) t] ≤ sumL [s2c * L.vt x t]
    ∧ sumL [s2c * L.vt x t] ≤ sumL [s2c * L.v x t]
    ∧ sumL [(-s2c) * L.v (-x) t] ≤ 𝟘
    ∧ 𝟘 ≤ sumL [s2c * L.v x t] :=
  ⟨M.fl3_sumL_singleton_mono (M.le_trans' (hN _ _) (M.fl3_mul_le_mul_left hL hs hLv.neg_v_le_vt)),
   M.fl3_sumL_singleton_mono (M.fl3_mul_le_mul_left hL hs hLv.vt_le_v),
   M.add_nonpos' (M.le_refl' _) (M.mul_nonpos_left' (M.neg_nonpos' hs) hLv.v_neg_nonneg),
   M.add_nonneg' (M.le_refl' _) (M.mul_nonneg' hs hLv.v_nonneg)⟩

end MonoArith

/-! ### the two-team `ω` of `omegaDelta` -/

/-- team 0's `ω` in the two-team game `[t0 with rank r0, t1 with rank r1]` -/
def FL3_omega0 (K : Kind) (L : Leaves α) (P : Params α) (t0 t1 : TeamAgg α) (r0 r1 : Nat) : α :=
  (fl1_od K L P [fl3_wr t0 r0, fl3_wr t1 r1] (fl3_wr t0 r0, 0)).1

/-- team 1's `ω` in the two-team game `[t0 with rank r0, t1 with rank r1]` -/
def FL3_omega1 (K : Kind) (L : Leaves α) (P : Params α) (t0 t1 : TeamAgg α) (r0 r1 : Nat) : α :=
  (fl1_od K L P [fl3_wr t0 r0, fl3_wr t1 r1] (fl3_wr t1 r1, 1)).1

/-- these are the first components of what `omegaDelta` returns -/
theorem fl3_omegaDelta_two (K : Kind) (L : Leaves α) (P : Params α) (t0 t1 : TeamAgg α)
    (r0 r1 : Nat) :
    (omegaDelta K L P [fl3_wr t0 r0, fl3_wr t1 r1]).map (·.1)
      = [FL3_omega0 K L P t0 t1 r0 r1, FL3_omega1 K L P t0 t1 r0 r1] := by
  rw [fl1_omegaDelta_eq]
  rfl

/-- `lo ≤ dr ≤ wi` and `lo ≤ 0 ≤ wi` -/
def FL3Chain (lo dr wi : α) : Prop := lo ≤ dr ∧ dr ≤ wi ∧ lo ≤ 𝟘 ∧ 𝟘 ≤ wi

theorem fl3_omega0_BT (K : Kind) (hK : K = .BTF ∨ K = .BTP) (L : Leaves α) (P : Params α)
    (t0 t1 : TeamAgg α) (r0 r1 : Nat) :
    FL3_omega0 K L P t0 t1 r0 r1
      = sumL [(btPair P.beta P.gamma 2 (fl3_wr t0 r0) (fl3_wr t1 r1)).1] := by
  rcases hK with rfl | rfl <;> rfl

theorem fl3_omega1_BT (K : Kind) (hK : K = .BTF ∨ K = .BTP) (L : Leaves α) (P : Params α)
    (t0 t1 : TeamAgg α) (r0 r1 : Nat) :
    FL3_omega1 K L P t0 t1 r0 r1
      = sumL [(btPair P.beta P.gamma 2 (fl3_wr t1 r1) (fl3_wr t0 r0)).1] := by
  rcases hK with rfl | rfl <;> rfl

/-- `1` for full, `2` for partial pairing -/
def fl3_cmul (K : Kind) : α := match K with | .TMP => ofNat 2 | _ => ofNat 1

theorem fl3_omega0_TM (K : Kind) (hK : K = .TMF ∨ K = .TMP) (L : Leaves α) (P : Params α)
    (t0 t1 : TeamAgg α) (r0 r1 : Nat) :
    FL3_omega0 K L P t0 t1 r0 r1
      = sumL [(tmPair L (fl3_cmul K) P.beta P.kappa P.gamma 2 (fl3_wr t0 r0) (fl3_wr t1 r1)).1] := by
  rcases hK with rfl | rfl <;> rfl

theorem fl3_omega1_TM (K : Kind) (hK : K = .TMF ∨ K = .TMP) (L : Leaves α) (P : Params α)
    (t0 t1 : TeamAgg α) (r0 r1 : Nat) :
    FL3_omega1 K L P t0 t1 r0 r1
      = sumL [(tmPair L (fl3_cmul K) P.beta P.kappa P.gamma 2 (fl3_wr t1 r1) (fl3_wr t0 r0)).1] := by
  rcases hK with rfl | rfl <;> rfl

theorem fl3_omega0_PL (L : Leaves α) (P : Params α) (t0 t1 : TeamAgg α) (r0 r1 : Nat) :
    FL3_omega0 .PL L P t0 t1 r0 r1
      = (plOmegaDelta P.gamma [fl3_wr t0 r0, fl3_wr t1 r1] (plC P.beta [t0, t1])
          (plSumQ [fl3_wr t0 r0, fl3_wr t1 r1] (plC P.beta [t0, t1]))
          (plA [fl3_wr t0 r0, fl3_wr t1 r1]) 0 (fl3_wr t0 r0)).1 := rfl

theorem fl3_omega1_PL (L : Leaves α) (P : Params α) (t0 t1 : TeamAgg α) (r0 r1 : Nat) :
    FL3_omega1 .PL L P t0 t1 r0 r1
      = (plOmegaDelta P.gamma [fl3_wr t0 r0, fl3_wr t1 r1] (plC P.beta [t0, t1])
          (plSumQ [fl3_wr t0 r0, fl3_wr t1 r1] (plC P.beta [t0, t1]))
          (plA [fl3_wr t0 r0, fl3_wr t1 r1]) 1 (fl3_wr t1 r1)).1 := rfl

namespace MonoArith
variable (M : MonoArith α)
include M

/-! ### the `ω` chain, model by model -/

theorem fl3_chain0_BT (hL : MulLeftMonoNonpos α) (K : Kind) (hK : K = .BTF ∨ K = .BTP)
    (L : Leaves α) (P : Params α) (t0 t1 : TeamAgg α) (hs : 𝟘 ≤ t0.sig2)
    (hc : 𝟘 < fl3_ciq P.beta t0 t1) {rw0 rw1 rd rl0 rl1 : Nat} (hw : rw0 < rw1) (hl : rl1 < rl0) :
    FL3Chain (FL3_omega0 K L P t0 t1 rl0 rl1) (FL3_omega0 K L P t0 t1 rd rd)
      (FL3_omega0 K L P t0 t1 rw0 rw1) := by
  unfold FL3Chain
  simp only [fl3_omega0_BT K hK, fl3_btPair_loss _ _ _ _ _ hl, fl3_btPair_draw,
    fl3_btPair_win _ _ _ _ _ hw]
  exact M.fl3_bt_chain hL _ t0 t1 hs hc

theorem fl3_chain1_BT (hL : MulLeftMonoNonpos α) (K : Kind) (hK : K = .BTF ∨ K = .BTP)
    (L : Leaves α) (P : Params α) (t0 t1 : TeamAgg α) (hs : 𝟘 ≤ t1.sig2)
    (hc : 𝟘 < fl3_ciq P.beta t1 t0) {rw0 rw1 rd rl0 rl1 : Nat} (hw : rw1 < rw0) (hl : rl0 < rl1) :
    FL3Chain (FL3_omega1 K L P t0 t1 rl0 rl1) (FL3_omega1 K L P t0 t1 rd rd)
      (FL3_omega1 K L P t0 t1 rw0 rw1) := by
  unfold FL3Chain
  simp only [fl3_omega1_BT K hK, fl3_btPair_loss _ _ _ _ _ hl, fl3_btPair_draw,
    fl3_btPair_win _ _ _ _ _ hw]
  exact M.fl3_bt_chain hL _ t1 t0 hs hc

theorem fl3_chain0_TM (hL : MulLeftMonoNonpos α) (hN : NegMulLe α) (K : Kind)
    (hK : K = .TMF ∨ K = .TMP) (L : Leaves α) (P : Params α) (t0 t1 : TeamAgg α)
    (hs : 𝟘 ≤ t0.sig2) (hc : 𝟘 < fl3_tmC (fl3_cmul K) P.beta t0 t1)
    (hLv : LeavesChainAt L (fl3_tmD (fl3_cmul K) P.beta t0 t1)
      (fl3_tmT (fl3_cmul K) P.beta P.kappa t0 t1))
    {rw0 rw1 rd rl0 rl1 : Nat} (hw : rw0 < rw1) (hl : rl1 < rl0) :
    FL3Chain (FL3_omega0 K L P t0 t1 rl0 rl1) (FL3_omega0 K L P t0 t1 rd rd)
      (FL3_omega0 K L P t0 t1 rw0 rw1) := by
  unfold FL3Chain
  simp only [fl3_omega0_TM K hK, fl3_tmPair_loss _ _ _ _ _ _ _ _ hl, fl3_tmPair_draw,
    fl3_tmPair_win _ _ _ _ _ _ _ _ hw]
  exact M.fl3_tm_chain hL hN L (M.div_nonneg' hs hc) hLv

theorem fl3_chain1_TM (hL : MulLeftMonoNonpos α) (hN : NegMulLe α) (K : Kind)
    (hK : K = .TMF ∨ K = .TMP) (L : Leaves α) (P : Params α) (t0 t1 : TeamAgg α)
    (hs : 𝟘 ≤ t1.sig2) (hc : 𝟘 < fl3_tmC (fl3_cmul K) P.beta t1 t0)
    (hLv : LeavesChainAt L (fl3_tmD (fl3_cmul K) P.beta t1 t0)
      (fl3_tmT (fl3_cmul K) P.beta P.kappa t1 t0))
    {rw0 rw1 rd rl0 rl1 : Nat} (hw : rw1 < rw0) (hl : rl0 < rl1) :
    FL3Chain (FL3_omega1 K L P t0 t1 rl0 rl1) (FL3_omega1 K L P t0 t1 rd rd)
      (FL3_omega1 K L P t0 t1 rw0 rw1) := by
  unfold FL3Chain
  simp only [fl3_omega1_TM K hK, fl3_tmPair_loss _ _ _ _ _ _ _ _ hl, fl3_tmPair_draw,
    fl3_tmPair_win _ _ _ _ _ _ _ _ hw]
  exact M.fl3_tm_chain hL hN L (M.div_nonneg' hs hc) hLv

theorem fl3_chain0_PL (hR : MulRightMonoNonpos α) (hH : HalfLeOne α)
    (L : Leaves α) (P : Params α) (t0 t1 : TeamAgg α) (hs : 𝟘 ≤ t0.sig2)
    (hc : 𝟘 < plC P.beta [t0, t1]) (he : 𝟘 < exp (t0.mu / plC P.beta [t0, t1]))
    {rw0 rw1 rd rl0 rl1 : Nat} (hw : rw0 < rw1) (hl : rl1 < rl0) :
    FL3Chain (FL3_omega0 .PL L P t0 t1 rl0 rl1) (FL3_omega0 .PL L P t0 t1 rd rd)
      (FL3_omega0 .PL L P t0 t1 rw0 rw1) := by
  unfold FL3Chain
  simp only [fl3_omega0_PL, fl3_pl0_loss _ _ _ _ hl, fl3_pl0_draw, fl3_pl0_win _ _ _ _ hw]
  have hle := (M.fl3_le_sumL_pair (M.fl1_le_of_lt he) (M.exp_nonneg' (t1.mu / plC P.beta [t0, t1]))).1
  have hS := M.fl1_lt_of_lt_of_le he hle
  exact M.fl3_pl_chain0 hR hH (M.div_nonneg' (M.fl1_le_of_lt he) hS) (M.div_le_one' hle hS)
    (M.fl3_one_le_div_singleton he) (M.div_nonneg' hs hc)

theorem fl3_chain1_PL (hR : MulRightMonoNonpos α) (hH : HalfLeOne α)
    (L : Leaves α) (P : Params α) (t0 t1 : TeamAgg α) (hs : 𝟘 ≤ t1.sig2)
    (hc : 𝟘 < plC P.beta [t0, t1]) (he : 𝟘 < exp (t1.mu / plC P.beta [t0, t1]))
    {rw0 rw1 rd rl0 rl1 : Nat} (hw : rw1 < rw0) (hl : rl0 < rl1) :
    FL3Chain (FL3_omega1 .PL L P t0 t1 rl0 rl1) (FL3_omega1 .PL L P t0 t1 rd rd)
      (FL3_omega1 .PL L P t0 t1 rw0 rw1) := by
  unfold FL3Chain
  simp only [fl3_omega1_PL, fl3_pl1_loss _ _ _ _ hl, fl3_pl1_draw, fl3_pl1_win _ _ _ _ hw]
  have hle := (M.fl3_le_sumL_pair (M.exp_nonneg' (t0.mu / plC P.beta [t0, t1])) (M.fl1_le_of_lt he)).2
  have hS := M.fl1_lt_of_lt_of_le he hle
  exact M.fl3_pl_chain1 hR hH (M.div_nonneg' (M.fl1_le_of_lt he) hS) (M.div_le_one' hle hS)
    (M.fl3_one_le_div_singleton he) (M.div_nonneg' hs hc)

end MonoArith

/-! ### lifting the chain through `applyTeam` and `compute` -/

/-- what the chain says about one player: `p` the prior, `pl`, `pd`, `pw` the posteriors after a loss, a
draw, a win of the player's team -/
def FL3MuChain (p pl pd pw : Rating α) : Prop :=
  pl.id = p.id ∧ pd.id = p.id ∧ pw.id = p.id
  ∧ pl.mu ≤ pd.mu ∧ pd.mu ≤ pw.mu ∧ pl.mu ≤ p.mu ∧ p.mu ≤ pw.mu

/-- the two-team chain for a whole team: `T` the prior ratings, `Tl`, `Td`, `Tw` the posterior lists -/
def FL3TeamChain (T Tl Td Tw : List (Rating α)) : Prop :=
  ∀ (j : Nat) (p : Rating α), T[j]? = some p → ∃ pl pd pw, Tl[j]? = some pl ∧ Td[j]? = some pd ∧ Tw[j]? = some pw
    ∧ FL3MuChain p pl pd pw

theorem MonoArith.fl3_upd_mu_chain (M : MonoArith α) (hL : MulLeftMonoNonpos α) {kappa sig2 : α}
    (hs : 𝟘 < sig2) {ol od ow : α} (h : FL3Chain ol od ow) (dl dd dw : α) (p : Rating α) :
    FL3MuChain p (fl1_upd kappa sig2 ol dl p) (fl1_upd kappa sig2 od dd p)
      (fl1_upd kappa sig2 ow dw p) := by
  obtain ⟨h1, h2, h3, h4⟩ := h
  have hsh := M.fl1_share_nonneg p.sigma sig2 hs
  exact ⟨rfl, rfl, rfl,
    M.add_le_add' (M.le_refl' _) (M.fl3_mul_le_mul_left hL hsh h1),
    M.add_le_add' (M.le_refl' _) (M.fl3_mul_le_mul_left hL hsh h2),
    M.fl1_upd_mu_le p hs h3, M.fl1_upd_mu_ge p hs h4⟩

theorem MonoArith.fl3_team_chain (M : MonoArith α) (hL : MulLeftMonoNonpos α) {kappa sig2 : α}
    (hs : 𝟘 < sig2) {ol od ow : α} (h : FL3Chain ol od ow) (dl dd dw : α) (T : List (Rating α)) :
    FL3TeamChain T (T.map (fl1_upd kappa sig2 ol dl)) (T.map (fl1_upd kappa sig2 od dd))
      (T.map (fl1_upd kappa sig2 ow dw)) := by
  unfold FL3TeamChain
  intro j p hj
  refine ⟨_, _, _, ?_, ?_, ?_, M.fl3_upd_mu_chain (kappa := kappa) hL hs h dl dd dw p⟩ <;>
    simp only [List.getElem?_map, hj, Option.map_some]

/-- slot 0 of `compute` for a two-team game -/
theorem fl3_compute_two_slot0 (K : Kind) (L : Leaves α) (P : Params α) (T0 T1 : List (Rating α))
    (r0 r1 : Nat) :
    (compute K L P [T0, T1] [r0, r1])[0]? = some (T0.map (fl1_upd P.kappa (teamAgg T0 0).sig2
      (FL3_omega0 K L P (teamAgg T0 0) (teamAgg T1 0) r0 r1)
      (fl1_od K L P [teamAgg T0 r0, teamAgg T1 r1] (teamAgg T0 r0, 0)).2)) :=
  fl1_compute_getElem? K L P [T0, T1] [r0, r1] 0 rfl rfl

/-- slot 1 of `compute` for a two-team game -/
theorem fl3_compute_two_slot1 (K : Kind) (L : Leaves α) (P : Params α) (T0 T1 : List (Rating α))
    (r0 r1 : Nat) :
    (compute K L P [T0, T1] [r0, r1])[1]? = some (T1.map (fl1_upd P.kappa (teamAgg T1 0).sig2
      (FL3_omega1 K L P (teamAgg T0 0) (teamAgg T1 0) r0 r1)
      (fl1_od K L P [teamAgg T0 r0, teamAgg T1 r1] (teamAgg T1 r1, 1)).2)) :=
  fl1_compute_getElem? K L P [T0, T1] [r0, r1] 1 rfl rfl

/-- the conclusion of the two-team chain for team `i ∈ {0, 1}` of `compute` -/
def FL3ComputeChain (K : Kind) (L : Leaves α) (P : Params α) (T0 T1 : List (Rating α)) (i : Nat)
    (T : List (Rating α)) (rl0 rl1 rd rw0 rw1 : Nat) : Prop :=
  ∃ Tl Td Tw, (compute K L P [T0, T1] [rl0, rl1])[i]? = some Tl
    ∧ (compute K L P [T0, T1] [rd, rd])[i]? = some Td
    ∧ (compute K L P [T0, T1] [rw0, rw1])[i]? = some Tw
    ∧ FL3TeamChain T Tl Td Tw

theorem MonoArith.fl3_lift0 (M : MonoArith α) (hL : MulLeftMonoNonpos α) (K : Kind) (L : Leaves α)
    (P : Params α) (T0 T1 : List (Rating α)) (hv : 𝟘 < (teamAgg T0 0).sig2)
    {rl0 rl1 rd rw0 rw1 : Nat}
    (h : FL3Chain (FL3_omega0 K L P (teamAgg T0 0) (teamAgg T1 0) rl0 rl1)
      (FL3_omega0 K L P (teamAgg T0 0) (teamAgg T1 0) rd rd)
      (FL3_omega0 K L P (teamAgg T0 0) (teamAgg T1 0) rw0 rw1)) :
    FL3ComputeChain K L P T0 T1 0 T0 rl0 rl1 rd rw0 rw1 :=
  ⟨_, _, _, fl3_compute_two_slot0 K L P T0 T1 rl0 rl1, fl3_compute_two_slot0 K L P T0 T1 rd rd,
    fl3_compute_two_slot0 K L P T0 T1 rw0 rw1, M.fl3_team_chain hL hv h _ _ _ T0⟩

theorem MonoArith.fl3_lift1 (M : MonoArith α) (hL : MulLeftMonoNonpos α) (K : Kind) (L : Leaves α)
    (P : Params α) (T0 T1 : List (Rating α)) (hv : 𝟘 < (teamAgg T1 0).sig2)
    {rl0 rl1 rd rw0 rw1 : Nat}
    (h : FL3Chain (FL3_omega1 K L P (teamAgg T0 0) (teamAgg T1 0) rl0 rl1)
      (FL3_omega1 K L P (teamAgg T0 0) (teamAgg T1 0) rd rd)
      (FL3_omega1 K L P (teamAgg T0 0) (teamAgg T1 0) rw0 rw1)) :
    FL3ComputeChain K L P T0 T1 1 T1 rl0 rl1 rd rw0 rw1 :=
  ⟨_, _, _, fl3_compute_two_slot1 K L P T0 T1 rl0 rl1, fl3_compute_two_slot1 K L P T0 T1 rd rd,
    fl3_compute_two_slot1 K L P T0 T1 rw0 rw1, M.fl3_team_chain hL hv h _ _ _ T1⟩

namespace MonoArith
variable (M : MonoArith α)
include M

/-- the Plackett–Luce `c` of two teams is positive as soon as one team variance is positive and the other
non-negative (team 0 positive) -/
theorem fl3_plC_pos_two0 (beta : α) (t0 t1 : TeamAgg α) (h0 : 𝟘 < t0.sig2) (h1 : 𝟘 ≤ t1.sig2) :
    𝟘 < plC beta [t0, t1] := by
  have a0 : 𝟘 < t0.sig2 + beta * beta := M.fl1_add_pos_of_pos_of_nonneg h0 (M.mul_self_nonneg' _)
  have a1 : 𝟘 ≤ t1.sig2 + beta * beta := M.add_nonneg' h1 (M.mul_self_nonneg' _)
  exact M.sqrt_pos' (M.fl1_lt_of_lt_of_le a0 (M.fl3_le_sumL_pair (M.fl1_le_of_lt a0) a1).1)

/-- the same with team 1's variance positive -/
theorem fl3_plC_pos_two1 (beta : α) (t0 t1 : TeamAgg α) (h0 : 𝟘 ≤ t0.sig2) (h1 : 𝟘 < t1.sig2) :
    𝟘 < plC beta [t0, t1] := by
  have a0 : 𝟘 ≤ t0.sig2 + beta * beta := M.add_nonneg' h0 (M.mul_self_nonneg' _)
  have a1 : 𝟘 < t1.sig2 + beta * beta := M.fl1_add_pos_of_pos_of_nonneg h1 (M.mul_self_nonneg' _)
  exact M.sqrt_pos' (M.fl1_lt_of_lt_of_le a1 (M.fl3_le_sumL_pair a0 (M.fl1_le_of_lt a1)).2)

end MonoArith

end OS
