import OSModel
import OSProofs.MonoArith
import OSProofs.PredictLemmas
/-!
# Helper lemmas for FL2: the prediction ranges in every arithmetic with monotone rounding

Everything here is for an arbitrary `α` with `[Scalar α]` and `M : MonoArith α` (no field axioms,
no Mathlib): a small order toolkit derived from `M`, bounds for the left fold `sumL`, `sabs`,
generic facts about `chunk`, and the competition ranking `rankData` over a total preorder.
-/
namespace OS
open Scalar

/-! ### scalar-free list facts -/

/-- every chunk of `chunk k l` has at most `k` entries, all of them entries of `l` -/
theorem fl2_chunk_mem {β : Type} (k : Nat) (l : List β) :
    ∀ c ∈ chunk k l, c.length ≤ k ∧ ∀ x ∈ c, x ∈ l := by
  fun_induction chunk k l with
  | case1 => intro c hc; simp at hc
  | case2 x xs hk => intro c hc; simp at hc
  | case3 x xs hk ih =>
    intro c hc
    rcases List.mem_cons.mp hc with rfl | hc'
    · exact ⟨List.length_take_le _ _, fun y hy => List.mem_of_mem_take hy⟩
    · obtain ⟨h1, h2⟩ := ih c hc'
      exact ⟨h1, fun y hy => List.mem_of_mem_drop (h2 y hy)⟩

/-- if the length of `l` is a multiple of `k`, every chunk of `chunk k l` has exactly `k` entries -/
theorem fl2_chunk_length_eq {β : Type} (k : Nat) (l : List β) (q : Nat) (hq : l.length = k * q) :
    ∀ c ∈ chunk k l, c.length = k := by
  fun_induction chunk k l generalizing q with
  | case1 => intro c hc; simp at hc
  | case2 x xs hk => intro c hc; simp at hc
  | case3 x xs hk ih =>
    intro c hc
    cases q with
    | zero => simp at hq
    | succ q' =>
      rw [Nat.mul_succ] at hq
      rcases List.mem_cons.mp hc with rfl | hc'
      · rw [List.length_take]; omega
      · refine ih q' ?_ c hc'
        rw [List.length_drop]; omega

/-- cutting the `n (n - 1)` pairwise terms into groups of `n - 1`: every group has `n - 1` entries -/
theorem fl2_chunk_orderedPairs_length {β γ : Type} (l : List β) (f : β × β → γ) :
    ∀ c ∈ chunk (l.length - 1) ((orderedPairs l).map f), c.length = l.length - 1 := by
  apply fl2_chunk_length_eq (l.length - 1) _ l.length
  rw [List.length_map, length_orderedPairs, Nat.mul_comm]

/-- … and there are `n` groups -/
theorem fl2_chunk_orderedPairs_count {β γ : Type} (l : List β) (hn : 2 ≤ l.length)
    (f : β × β → γ) : (chunk (l.length - 1) ((orderedPairs l).map f)).length = l.length := by
  rw [chunk_orderedPairs_map l hn, List.length_map, List.length_zipIdx]

/-- fewer than two entries: there are no ordered pairs -/
theorem fl2_orderedPairs_nil {β : Type} (l : List β) (hn : l.length < 2) : orderedPairs l = [] := by
  apply List.eq_nil_of_length_eq_zero
  rw [length_orderedPairs]
  have : l.length = 0 ∨ l.length = 1 := by omega
  rcases this with h | h <;> rw [h]

/-- `n (n − 1)` is even -/
theorem fl2_even (n : Nat) : ∃ m, n * (n - 1) = m * 2 := by
  have h := length_unorderedPairs (List.replicate n ())
  rw [List.length_replicate] at h
  exact ⟨(unorderedPairs (List.replicate n ())).length, by omega⟩

/-- `n (n − 1) = 2 m` and `n ≥ 2` give `n − 1 ≤ m` -/
theorem fl2_pred_le_half {n m : Nat} (hn : 2 ≤ n) (hm : n * (n - 1) = m * 2) : n - 1 ≤ m := by
  have := Nat.mul_le_mul_right (n - 1) hn
  omega

theorem fl2_length_aggs {α : Type} [Scalar α] (teams : List (List (Rating α))) :
    (aggs teams).length = teams.length := by
  simp [aggs]

/-! ### `listMaxNat` is an attained upper bound (natural numbers only) -/

theorem fl2_foldl_max_ge_init (l : List Nat) (a : Nat) : a ≤ l.foldl Nat.max a := by
  induction l generalizing a with
  | nil => exact Nat.le_refl a
  | cons x xs ih =>
    rw [List.foldl_cons]
    exact Nat.le_trans (Nat.le_max_left a x) (ih _)

theorem fl2_foldl_max_ge_mem (l : List Nat) (a : Nat) {x : Nat} (hx : x ∈ l) :
    x ≤ l.foldl Nat.max a := by
  induction l generalizing a with
  | nil => simp at hx
  | cons y ys ih =>
    rw [List.foldl_cons]
    rcases List.mem_cons.mp hx with rfl | hx'
    · exact Nat.le_trans (Nat.le_max_right a x) (fl2_foldl_max_ge_init ys _)
    · exact ih _ hx'

theorem fl2_foldl_max_mem (l : List Nat) (a : Nat) :
    l.foldl Nat.max a = a ∨ l.foldl Nat.max a ∈ l := by
  induction l generalizing a with
  | nil => left; rfl
  | cons y ys ih =>
    rw [List.foldl_cons]
    rcases ih (Nat.max a y) with h | h
    · rw [h]
      rcases Nat.le_total a y with hay | hya
      · right
        have e : a.max y = y := Nat.max_eq_right hay
        rw [e]; exact List.mem_cons_self
      · left; exact Nat.max_eq_left hya
    · right; exact List.mem_cons_of_mem _ h

theorem fl2_le_listMaxNat {l : List Nat} {x : Nat} (hx : x ∈ l) : x ≤ listMaxNat l :=
  fl2_foldl_max_ge_mem l 0 hx

theorem fl2_listMaxNat_mem {l : List Nat} (hl : l ≠ []) : listMaxNat l ∈ l := by
  rcases fl2_foldl_max_mem l 0 with h | h
  · obtain ⟨x, hx⟩ := List.exists_mem_of_ne_nil l hl
    have hx0 : x ≤ 0 := by
      have := fl2_le_listMaxNat hx
      unfold listMaxNat at this
      rwa [h] at this
    have : x = 0 := Nat.le_zero.mp hx0
    unfold listMaxNat
    rw [h, ← this]; exact hx
  · exact h

/-! ### order toolkit derived from `MonoArith` -/

section toolkit
variable {α : Type} [Scalar α] (M : MonoArith α)
include M

theorem fl2_le_of_lt {a b : α} (h : a < b) : a ≤ b := by
  have h' := M.lt_iff_not_le'.mp h
  rcases M.le_total' a b with h1 | h1
  · exact h1
  · exact absurd h1 h'

theorem fl2_le_of_not_lt {a b : α} (h : ¬ a < b) : b ≤ a := by
  by_cases h1 : b ≤ a
  · exact h1
  · exact absurd (M.lt_iff_not_le'.mpr h1) h

theorem fl2_not_lt_of_le {a b : α} (h : a ≤ b) : ¬ b < a :=
  fun h1 => M.lt_iff_not_le'.mp h1 h

theorem fl2_lt_irrefl (a : α) : ¬ a < a := fl2_not_lt_of_le M (M.le_refl' a)

theorem fl2_lt_of_lt_of_le {a b c : α} (h1 : a < b) (h2 : b ≤ c) : a < c := by
  apply M.lt_iff_not_le'.mpr
  intro h3
  exact M.lt_iff_not_le'.mp h1 (M.le_trans' h2 h3)

theorem fl2_lt_of_le_of_lt {a b c : α} (h1 : a ≤ b) (h2 : b < c) : a < c := by
  apply M.lt_iff_not_le'.mpr
  intro h3
  exact M.lt_iff_not_le'.mp h2 (M.le_trans' h3 h1)

theorem fl2_lt_trans {a b c : α} (h1 : a < b) (h2 : b < c) : a < c :=
  fl2_lt_of_lt_of_le M h1 (fl2_le_of_lt M h2)

theorem fl2_zero_le_one : (ofNat 0 : α) ≤ ofNat 1 := M.ofNat_le' (Nat.zero_le 1)

theorem fl2_zero_lt_one : (ofNat 0 : α) < ofNat 1 := M.ofNat_lt' Nat.zero_lt_one

theorem fl2_ofNat_pos {n : Nat} (h : 0 < n) : (ofNat 0 : α) < ofNat n := M.ofNat_lt' h

/-- `1 − 0 ≤ 1` -/
theorem fl2_one_sub_zero_le : (ofNat 1 - ofNat 0 : α) ≤ ofNat 1 :=
  M.sub_le_self' (M.le_refl' _)

/-- `−0 ≤ 0` -/
theorem fl2_neg_zero_le : -(ofNat 0 : α) ≤ ofNat 0 := M.neg_nonpos' (M.le_refl' _)

/-! ### `sabs` -/

theorem fl2_sabs_nonneg (a : α) : ofNat 0 ≤ sabs a := by
  unfold sabs
  split
  · next h => exact M.neg_nonneg' (fl2_le_of_lt M h)
  · next h => exact fl2_le_of_not_lt M h

theorem fl2_sabs_of_nonneg {a : α} (h : ofNat 0 ≤ a) : sabs a = a := by
  unfold sabs
  rw [if_neg (fl2_not_lt_of_le M h)]

omit M in
/-- `|a| ≤ b` from `a ≤ b` and `−a ≤ b` -/
theorem fl2_sabs_le {a b : α} (h1 : a ≤ b) (h2 : -a ≤ b) : sabs a ≤ b := by
  unfold sabs
  split
  · exact h2
  · exact h1

/-! ### the left fold `sumL` -/

theorem fl2_foldl_nonneg (l : List α) (s : α) (hs : ofNat 0 ≤ s) (h : ∀ x ∈ l, ofNat 0 ≤ x) :
    ofNat 0 ≤ l.foldl (· + ·) s := by
  induction l generalizing s with
  | nil => exact hs
  | cons x xs ih =>
    rw [List.foldl_cons]
    exact ih _ (M.add_nonneg' hs (h x List.mem_cons_self))
      (fun y hy => h y (List.mem_cons_of_mem _ hy))

theorem fl2_sumL_nonneg (l : List α) (h : ∀ x ∈ l, ofNat 0 ≤ x) : ofNat 0 ≤ sumL l :=
  fl2_foldl_nonneg M l _ (M.le_refl' _) h

theorem fl2_foldl_le_ofNat (l : List α) (s : α) (m : Nat) (hs : s ≤ ofNat m)
    (h : ∀ x ∈ l, x ≤ ofNat 1) : l.foldl (· + ·) s ≤ ofNat (m + l.length) := by
  induction l generalizing s m with
  | nil => exact hs
  | cons x xs ih =>
    rw [List.foldl_cons, List.length_cons, show m + (xs.length + 1) = (m + 1) + xs.length by omega]
    refine ih _ (m + 1) ?_ (fun y hy => h y (List.mem_cons_of_mem _ hy))
    rw [← M.ofNat_add' m 1]
    exact M.add_le_add' hs (h x List.mem_cons_self)

/-- a `sumL` of `k` terms, each `≤ 1`, is `≤ k` -/
theorem fl2_sumL_le_ofNat_length (l : List α) (h : ∀ x ∈ l, x ≤ ofNat 1) :
    sumL l ≤ ofNat l.length := by
  have := fl2_foldl_le_ofNat M l (ofNat 0) 0 (M.le_refl' _) h
  rwa [Nat.zero_add] at this

/-- the negated fold, given that negation distributes (one way) over the computed sum -/
theorem fl2_foldl_neg_le_ofNat (hna : ∀ a b : α, -(a + b) ≤ -a + -b)
    (l : List α) (s : α) (m : Nat) (hs : -s ≤ ofNat m)
    (h : ∀ x ∈ l, -x ≤ ofNat 1) : -(l.foldl (· + ·) s) ≤ ofNat (m + l.length) := by
  induction l generalizing s m with
  | nil => exact hs
  | cons x xs ih =>
    rw [List.foldl_cons, List.length_cons, show m + (xs.length + 1) = (m + 1) + xs.length by omega]
    refine ih _ (m + 1) ?_ (fun y hy => h y (List.mem_cons_of_mem _ hy))
    rw [← M.ofNat_add' m 1]
    exact M.le_trans' (hna s x) (M.add_le_add' hs (h x List.mem_cons_self))

theorem fl2_neg_sumL_le_ofNat_length (hna : ∀ a b : α, -(a + b) ≤ -a + -b)
    (l : List α) (h : ∀ x ∈ l, -x ≤ ofNat 1) : -(sumL l) ≤ ofNat l.length := by
  have := fl2_foldl_neg_le_ofNat M hna l (ofNat 0) 0 (fl2_neg_zero_le M) h
  rwa [Nat.zero_add] at this

/-- `|sumL l| ≤ length l` when every term and every negated term is `≤ 1` -/
theorem fl2_sabs_sumL_le (hna : ∀ a b : α, -(a + b) ≤ -a + -b)
    (l : List α) (h1 : ∀ x ∈ l, x ≤ ofNat 1) (h2 : ∀ x ∈ l, -x ≤ ofNat 1) :
    sabs (sumL l) ≤ ofNat l.length :=
  fl2_sabs_le (fl2_sumL_le_ofNat_length M l h1) (fl2_neg_sumL_le_ofNat_length M hna l h2)

/-! ### a difference of two values of Φ -/

theorem fl2_Phi_sub_le_one (a b : α) : Phi a - Phi b ≤ ofNat 1 :=
  M.le_trans' (M.sub_le_sub' (M.Phi_le_one' a) (M.Phi_nonneg' b)) (fl2_one_sub_zero_le M)

theorem fl2_zero_sub_one_le_Phi_sub (a b : α) : (ofNat 0 - ofNat 1 : α) ≤ Phi a - Phi b :=
  M.sub_le_sub' (M.Phi_nonneg' a) (M.Phi_le_one' b)

theorem fl2_neg_Phi_sub_le_one (hn1 : -(ofNat 0 - ofNat 1 : α) ≤ ofNat 1) (a b : α) :
    -(Phi a - Phi b) ≤ ofNat 1 :=
  M.le_trans' (M.neg_le_neg' (fl2_zero_sub_one_le_Phi_sub M a b)) hn1

/-- `−(0 − 1) ≤ 1` follows from the general sign-symmetry law `−(a − b) ≤ b − a` -/
theorem fl2_neg_one_of_neg_sub (hns : ∀ a b : α, -(a - b) ≤ b - a) :
    -(ofNat 0 - ofNat 1 : α) ≤ ofNat 1 :=
  M.le_trans' (hns _ _) (fl2_one_sub_zero_le M)

/-! ### the pairwise terms of `predict_draw` -/

/-- the absolute value of the sum of the `n (n − 1)` terms `Φ(·) − Φ(·)` is at most `n (n − 1)`;
`hna` and `hn1` are the two sign-symmetry facts that `MonoArith` does not list -/
theorem fl2_draw_sum_le (hna : ∀ a b : α, -(a + b) ≤ -a + -b)
    (hn1 : -(ofNat 0 - ofNat 1 : α) ≤ ofNat 1) {β : Type} (ts : List β) (g h : β × β → α) :
    sabs (sumL ((orderedPairs ts).map (fun ab => Phi (g ab) - Phi (h ab))))
      ≤ ofNat (ts.length * (ts.length - 1)) := by
  have key := fl2_sabs_sumL_le M hna ((orderedPairs ts).map (fun ab => Phi (g ab) - Phi (h ab)))
    (by
      intro x hx
      obtain ⟨ab, _, rfl⟩ := List.mem_map.mp hx
      exact fl2_Phi_sub_le_one M _ _)
    (by
      intro x hx
      obtain ⟨ab, _, rfl⟩ := List.mem_map.mp hx
      exact fl2_neg_Phi_sub_le_one M hn1 _ _)
  rwa [List.length_map, length_orderedPairs] at key

/-! ### the regrouped averages `sumL c / (n (n − 1) / 2)` -/

/-- the divisor `n (n − 1) / 2` is the exact integer `m` with `n (n − 1) = 2 m` -/
theorem fl2_denom_eq {n m : Nat} (hm : n * (n - 1) = m * 2) :
    (ofNat (n * (n - 1)) / ofNat 2 : α) = ofNat m := by
  rw [hm]
  exact M.ofNat_mul_div' (by omega)

/-- `n ≥ 2` terms in [0, 1], cut into groups of `n − 1`, each summed and divided by `n (n − 1) / 2`:
every result is in [0, 1] -/
theorem fl2_window_range (n : Nat) (hn : 2 ≤ n) (pw : List α)
    (hpw : ∀ x ∈ pw, ofNat 0 ≤ x ∧ x ≤ ofNat 1) :
    ∀ p ∈ (chunk (n - 1) pw).map (fun c => sumL c / (ofNat (n * (n - 1)) / ofNat 2)),
      ofNat 0 ≤ p ∧ p ≤ ofNat 1 := by
  intro p hp
  obtain ⟨c, hc, rfl⟩ := List.mem_map.mp hp
  obtain ⟨hlen, hmem⟩ := fl2_chunk_mem (n - 1) pw c hc
  obtain ⟨m, hm⟩ := fl2_even n
  have hle : n - 1 ≤ m := fl2_pred_le_half hn hm
  have hmpos : (ofNat 0 : α) < ofNat m := fl2_ofNat_pos M (by omega)
  rw [fl2_denom_eq M hm]
  have h0 : ofNat 0 ≤ sumL c := fl2_sumL_nonneg M c (fun x hx => (hpw x (hmem x hx)).1)
  have h1 : sumL c ≤ ofNat m :=
    M.le_trans' (fl2_sumL_le_ofNat_length M c (fun x hx => (hpw x (hmem x hx)).2))
      (M.ofNat_le' (Nat.le_trans hlen hle))
  exact ⟨M.div_nonneg' h0 hmpos, M.div_le_one' h1 hmpos⟩

/-- the same for every `n`: with fewer than two teams there is no pairwise term -/
theorem fl2_window_range_pairs {β : Type} (ts : List β) (f : β × β → α)
    (hf : ∀ ab, ofNat 0 ≤ f ab ∧ f ab ≤ ofNat 1) :
    ∀ p ∈ (chunk (ts.length - 1) ((orderedPairs ts).map f)).map
        (fun c => sumL c / (ofNat (ts.length * (ts.length - 1)) / ofNat 2)),
      ofNat 0 ≤ p ∧ p ≤ ofNat 1 := by
  by_cases hn : 2 ≤ ts.length
  · apply fl2_window_range M ts.length hn
    intro x hx
    obtain ⟨ab, _, rfl⟩ := List.mem_map.mp hx
    exact hf ab
  · rw [fl2_orderedPairs_nil ts (by omega)]
    intro p hp
    simp [chunk_nil] at hp

/-! ### competition ranking over a total preorder -/

/-- number of entries of `v` strictly below `x` (the count inside `rankData`) -/
def fl2_cnt (v : List α) (x : α) : Nat := (v.filter (fun y => decide (y < x))).length

omit M in
theorem fl2_rankData_eq (v : List α) : rankData v = v.map (fun x => 1 + fl2_cnt v x) := rfl

omit M in
theorem fl2_cnt_cons (z : α) (zs : List α) (x : α) :
    fl2_cnt (z :: zs) x = (if z < x then 1 else 0) + fl2_cnt zs x := by
  unfold fl2_cnt
  by_cases h : z < x
  · rw [List.filter_cons_of_pos (by simpa using h), if_pos h, List.length_cons]; omega
  · rw [List.filter_cons_of_neg (by simpa using h), if_neg h]; omega

theorem fl2_cnt_mono (v : List α) {x y : α} (h : x ≤ y) : fl2_cnt v x ≤ fl2_cnt v y := by
  induction v with
  | nil => exact Nat.le_refl _
  | cons z zs ih =>
    rw [fl2_cnt_cons, fl2_cnt_cons]
    by_cases hzx : z < x
    · rw [if_pos hzx, if_pos (fl2_lt_of_lt_of_le M hzx h)]; omega
    · rw [if_neg hzx]; omega

theorem fl2_cnt_strict (v : List α) {x y : α} (hx : x ∈ v) (h : x < y) :
    fl2_cnt v x < fl2_cnt v y := by
  induction v with
  | nil => simp at hx
  | cons z zs ih =>
    rw [fl2_cnt_cons, fl2_cnt_cons]
    have hmono := fl2_cnt_mono M zs (fl2_le_of_lt M h)
    rcases List.mem_cons.mp hx with rfl | hx'
    · rw [if_neg (fl2_lt_irrefl M x), if_pos h]; omega
    · have := ih hx'
      by_cases hzx : z < x
      · rw [if_pos hzx, if_pos (fl2_lt_trans M hzx h)]; omega
      · rw [if_neg hzx]; omega

theorem fl2_cnt_lt_length (v : List α) {x : α} (hx : x ∈ v) : fl2_cnt v x < v.length := by
  induction v with
  | nil => simp at hx
  | cons z zs ih =>
    rw [fl2_cnt_cons, List.length_cons]
    have hle : fl2_cnt zs x ≤ zs.length := List.length_filter_le _ _
    rcases List.mem_cons.mp hx with rfl | hx'
    · rw [if_neg (fl2_lt_irrefl M x)]; omega
    · have := ih hx'
      split <;> omega

/-- the integer ranks `predict_rank` returns: `max(rankData) − rankData + 1` -/
def fl2_finalRanks (probs : List α) : List Nat :=
  (rankData probs).map (fun x => (listMaxNat (rankData probs) - x) + 1)

omit M in
theorem fl2_rankData_length (v : List α) : (rankData v).length = v.length := by
  simp [rankData]

omit M in
theorem fl2_finalRanks_length (v : List α) : (fl2_finalRanks v).length = v.length := by
  simp [fl2_finalRanks, rankData]

omit M in
theorem fl2_finalRanks_getElem (v : List α) (a : Nat) (ha : a < v.length) :
    (fl2_finalRanks v)[a]'(by rw [fl2_finalRanks_length]; exact ha)
      = (listMaxNat (rankData v) - (1 + fl2_cnt v v[a])) + 1 := by
  simp [fl2_finalRanks, fl2_rankData_eq]

omit M in
theorem fl2_rankData_le_max (v : List α) (a : Nat) (ha : a < v.length) :
    1 + fl2_cnt v v[a] ≤ listMaxNat (rankData v) := by
  apply fl2_le_listMaxNat
  rw [fl2_rankData_eq]
  exact List.mem_map.mpr ⟨v[a], List.getElem_mem ha, rfl⟩

theorem fl2_listMaxNat_rankData_le (v : List α) : listMaxNat (rankData v) ≤ v.length := by
  by_cases hv : v = []
  · subst hv; simp [rankData, listMaxNat]
  · have hne : rankData v ≠ [] := by
      intro h; apply hv
      have := congrArg List.length h
      rw [fl2_rankData_length] at this
      exact List.eq_nil_of_length_eq_zero this
    have hmem := fl2_listMaxNat_mem hne
    rw [fl2_rankData_eq] at hmem
    obtain ⟨x, hx, hxe⟩ := List.mem_map.mp hmem
    have := fl2_cnt_lt_length M v hx
    rw [fl2_rankData_eq, ← hxe]
    omega

/-- the largest `rankData` value is the one of a maximal entry -/
theorem fl2_rankData_of_maximal (v : List α) (a : Nat) (ha : a < v.length)
    (hmax : ∀ y ∈ v, y ≤ v[a]) : 1 + fl2_cnt v v[a] = listMaxNat (rankData v) := by
  apply Nat.le_antisymm (fl2_rankData_le_max v a ha)
  have hne : rankData v ≠ [] := by
    intro h
    have := congrArg List.length h
    rw [fl2_rankData_length, List.length_nil] at this
    omega
  have hmem := fl2_listMaxNat_mem hne
  rw [fl2_rankData_eq] at hmem
  obtain ⟨x, hx, hxe⟩ := List.mem_map.mp hmem
  rw [fl2_rankData_eq, ← hxe]
  have := fl2_cnt_mono M v (hmax x hx)
  omega

/-- every returned rank is in `1..n` -/
theorem fl2_rank_range (v : List α) (a : Nat) (ha : a < v.length) :
    1 ≤ (fl2_finalRanks v)[a]'(by rw [fl2_finalRanks_length]; exact ha)
      ∧ (fl2_finalRanks v)[a]'(by rw [fl2_finalRanks_length]; exact ha) ≤ v.length := by
  rw [fl2_finalRanks_getElem v a ha]
  have h1 := fl2_listMaxNat_rankData_le M v
  omega

/-- a strictly larger value gets a strictly smaller rank number -/
theorem fl2_rank_strict (v : List α) (a b : Nat) (ha : a < v.length) (hb : b < v.length)
    (h : v[b] < v[a]) :
    (fl2_finalRanks v)[a]'(by rw [fl2_finalRanks_length]; exact ha)
      < (fl2_finalRanks v)[b]'(by rw [fl2_finalRanks_length]; exact hb) := by
  rw [fl2_finalRanks_getElem v a ha, fl2_finalRanks_getElem v b hb]
  have h1 := fl2_cnt_strict M v (List.getElem_mem hb) h
  have h2 := fl2_rankData_le_max v a ha
  have h3 := fl2_rankData_le_max v b hb
  omega

/-- values that are `≤` each other get the same rank -/
theorem fl2_rank_tie (v : List α) (a b : Nat) (ha : a < v.length) (hb : b < v.length)
    (h1 : v[a] ≤ v[b]) (h2 : v[b] ≤ v[a]) :
    (fl2_finalRanks v)[a]'(by rw [fl2_finalRanks_length]; exact ha)
      = (fl2_finalRanks v)[b]'(by rw [fl2_finalRanks_length]; exact hb) := by
  rw [fl2_finalRanks_getElem v a ha, fl2_finalRanks_getElem v b hb]
  have e1 := fl2_cnt_mono M v h1
  have e2 := fl2_cnt_mono M v h2
  omega

/-- a largest value gets rank 1 -/
theorem fl2_rank_max_one (v : List α) (a : Nat) (ha : a < v.length)
    (hmax : ∀ y ∈ v, y ≤ v[a]) :
    (fl2_finalRanks v)[a]'(by rw [fl2_finalRanks_length]; exact ha) = 1 := by
  rw [fl2_finalRanks_getElem v a ha, fl2_rankData_of_maximal M v a ha hmax]
  omega

end toolkit

end OS
