import OSProofs.Props.C17
import OSProofs.Gauss3
import Mathlib.Tactic.FieldSimp
import Mathlib.Tactic.Ring
import Mathlib.Tactic.Linarith
import Mathlib.Tactic.Positivity

/-!
# C17b — the error `wt` makes by returning the constant 1 on its guard branch (analytic side)

The paper's `W̃(x,t) = 1 − Var`, where `Var` is the variance of the standard normal truncated to
`[−t−x, t−x]`, an interval of length `2t`; so `0 ≤ Var ≤ (2t)²` (`Gauss.Wt_mul_Z_le`,
`Gauss.Wt_mul_Z_ge`) and `1 − 4t² ≤ W̃ ≤ 1` for EVERY `x` and every `t > 0`.  The code's `wtCode`
equals `W̃` outside its guard (`C17_wt_exact_branch`) and returns 1 inside it; hence over ℝ
`|wtCode − W̃| ≤ 4t²` everywhere, which is `≤ 20t` for `t ≤ 5` (the models use `t ≈ 1e-5`).
Float rounding / libm accuracy (the `1e-13/t` part of the tolerance) is outside any theorem over ℝ.
-/

noncomputable section
namespace OS
open Gauss

/-- the paper's W̃ as one fraction over `Z²`, with `a = −t−x`, `b = t−x` -/
theorem wtb_wtExact_frac {x t : ℝ} (ht : 0 < t) :
    wtExact x t = (((t - x) * phi (t - x) - (-t - x) * phi (-t - x)) * (Phi (t - x) - Phi (-t - x))
      + (phi (-t - x) - phi (t - x)) ^ 2) / (Phi (t - x) - Phi (-t - x)) ^ 2 := by
  have hZ : 0 < Phi (t - x) - Phi (-t - x) := Z_pos (by linarith)
  simp only [wtExact, vtExact, sc_Phi, sc_phi]
  field_simp
  ring

/-- the paper's W̃ is at most 1 (truncated variance ≥ 0), for every x and every positive margin -/
theorem C17_wtExact_le_one {x t : ℝ} (ht : 0 < t) : wtExact x t ≤ 1 := by
  have hab : -t - x < t - x := by linarith
  have hZ := Z_pos hab
  rw [wtb_wtExact_frac ht, div_le_one (by positivity)]
  exact Wt_mul_Z_le hab

/-- the paper's W̃ is at least `1 − 4t²` (the variance of a distribution supported on an interval of
length `2t` is at most `(2t)²`), for every x and every positive margin -/
theorem C17_wtExact_ge {x t : ℝ} (ht : 0 < t) : 1 - 4 * t ^ 2 ≤ wtExact x t := by
  have hab : -t - x < t - x := by linarith
  have hZ := Z_pos hab
  rw [wtb_wtExact_frac ht, le_div_iff₀ (by positivity)]
  have h := Wt_mul_Z_ge hab
  have e : (t - x - (-t - x)) ^ 2 = 4 * t ^ 2 := by ring
  rw [e] at h
  exact h

/-- the paper's W̃ is even in x -/
theorem wtb_wtExact_neg (x t : ℝ) : wtExact (-x) t = wtExact x t := by
  simp only [wtExact, vtExact, sc_Phi, sc_phi]
  have h1 : t - -x = -(-t - x) := by ring
  have h2 : -t - -x = -(t - x) := by ring
  rw [h1, h2, phi_even, phi_even, Phi_neg, Phi_neg]
  have h3 : 1 - Phi (-t - x) - (1 - Phi (t - x)) = Phi (t - x) - Phi (-t - x) := by ring
  have h4 : phi (t - x) - phi (-t - x) = -(phi (-t - x) - phi (t - x)) := by ring
  rw [h3, h4, neg_div, neg_mul_neg]
  ring

/-- over ℝ, on BOTH branches, the code's `wt` differs from the paper's W̃ by at most `4t²`:
outside the guard they are equal; inside the guard the code returns 1 and `1 − 4t² ≤ W̃ ≤ 1`.
Stated for `0 < t`: at `t = 0` the paper's formula is `0/0`. -/
theorem C17_wt_code_error {x t : ℝ} (ht : 0 < t) : |wtCode x t - wtExact x t| ≤ 4 * t ^ 2 := by
  by_cases h : Zc x t < epsF
  · rw [wtCode_asym h]
    have h1 := C17_wtExact_ge (x := x) ht
    have h2 := C17_wtExact_le_one (x := x) ht
    rw [abs_le]; constructor <;> linarith
  · rw [C17_wt_exact_branch h, sub_self, abs_zero]; positivity

/-- for margins `t ≤ 5` the bound `4t²` is within the harness tolerance `20t` -/
theorem C17_wt_code_error_20t {x t : ℝ} (ht : 0 < t) (ht5 : t ≤ 5) :
    |wtCode x t - wtExact x t| ≤ 20 * t := by
  refine (C17_wt_code_error ht).trans ?_
  nlinarith

/-- the guard branch is reachable with a positive margin (so the error bound is not only the
trivial `0` of the exact branch): for every `t` there is an `x` with `Zc x t < 2⁻⁵²` -/
example (t : ℝ) : ∃ x : ℝ, Zc x t < epsF := by
  obtain ⟨u, hu⟩ := (Phi_tendsto_atBot.eventually (gt_mem_nhds epsF_pos)).exists
  refine ⟨|u| + |t|, ?_⟩
  unfold Zc
  rw [abs_of_nonneg (by positivity)]
  have h1 : t - (|u| + |t|) ≤ u := by
    have := neg_abs_le u; have := le_abs_self t; linarith
  have h2 := Phi_strictMono.monotone h1
  have h3 := Phi_pos (-t - (|u| + |t|))
  linarith

end OS
end
