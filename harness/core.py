"""
Infrastructure shared by all property checks: locating /repo's working tree, the model
driver, float transport, comparison, evidence, replay and the VIOLATION protocol.
"""
import json, math, os, struct, subprocess, sys, time, hashlib, random, traceback

VERIF = os.path.dirname(os.path.dirname(os.path.abspath(__file__)))
REPO = os.environ.get("OPENSKILL_REPO", "/repo")
LEAN_DIR = os.path.join(VERIF, "lean")
DRIVER = os.path.join(LEAN_DIR, ".lake", "build", "bin", "driver")

# ---------------------------------------------------------------- the implementation
if REPO not in sys.path:
    sys.path.insert(0, REPO)
import openskill  # noqa: E402

if not os.path.realpath(openskill.__file__).startswith(os.path.realpath(REPO) + os.sep):
    print(f"INTERNAL: openskill imported from {openskill.__file__}, not from {REPO}")
    sys.exit(2)

from openskill.models.weng_lin import plackett_luce as _pl  # noqa: E402
from openskill.models.weng_lin import bradley_terry_full as _btf  # noqa: E402
from openskill.models.weng_lin import bradley_terry_part as _btp  # noqa: E402
from openskill.models.weng_lin import thurstone_mosteller_full as _tmf  # noqa: E402
from openskill.models.weng_lin import thurstone_mosteller_part as _tmp  # noqa: E402
from openskill.models.weng_lin import common as wl_common  # noqa: E402
from openskill.models import common as m_common  # noqa: E402

KINDS = ["PL", "BTF", "BTP", "TMF", "TMP"]
MODULES = {"PL": _pl, "BTF": _btf, "BTP": _btp, "TMF": _tmf, "TMP": _tmp}
MODEL_CLS = {
    "PL": _pl.PlackettLuce,
    "BTF": _btf.BradleyTerryFull,
    "BTP": _btp.BradleyTerryPart,
    "TMF": _tmf.ThurstoneMostellerFull,
    "TMP": _tmp.ThurstoneMostellerPart,
}
RATING_CLS = {
    "PL": _pl.PlackettLuceRating,
    "BTF": _btf.BradleyTerryFullRating,
    "BTP": _btp.BradleyTerryPartRating,
    "TMF": _tmf.ThurstoneMostellerFullRating,
    "TMP": _tmp.ThurstoneMostellerPartRating,
}
IS_TM = {"PL": False, "BTF": False, "BTP": False, "TMF": True, "TMP": True}
IS_PART = {"PL": False, "BTF": False, "BTP": True, "TMF": False, "TMP": True}


# ---------------------------------------------------------------- float transport
def f2h(x):
    return struct.pack(">d", float(x)).hex()


def h2f(s):
    return struct.unpack(">d", bytes.fromhex(s))[0]


def ulp(x):
    return math.ulp(x)


# ---------------------------------------------------------------- gamma callbacks
_SHAPE = [0]
_OTHER_MODELS = []


def gamma_callable(tag, arg):
    if tag == "D":
        return None
    if tag == "C":
        return lambda c, k, mu, s2, team, rank: arg
    if tag == "I":
        return lambda c, k, mu, s2, team, rank: 1 / k
    if tag == "R":
        # the same callback in the shapes users write it: a plain function, extra parameters with defaults, the rank taken from *rest,
        # everything taken from *args, a functools.partial, an object with __call__  (the library passes six positional arguments)
        _SHAPE[0] += 1
        k_ = _SHAPE[0] % 6
        if k_ == 0:
            return lambda c, k, mu, s2, team, rank: 1 / (rank + 1)
        if k_ == 1:
            def g1(c, k, mu, sigma_squared, team, rank, scale=1.0, *more, **opts):
                return scale / (rank + 1)
            return g1
        if k_ == 2:
            def g2(c, k, mu, sigma_squared, team, *extra):
                return 1 / (extra[0] + 1)
            return g2
        if k_ == 3:
            return lambda *a: 1 / (a[5] + 1)
        if k_ == 4:
            import functools
            return functools.partial(lambda one, c, k, mu, s2, team, rank: one / (rank + 1), 1)

        class G5:
            def __call__(self, c, k, mu, s2, team, rank):
                return 1 / (rank + 1)
        return G5()
    if tag == "Q":
        return lambda c, k, mu, s2, team, rank: s2 / (c * c)
    if tag == "Z":
        return lambda c, k, mu, s2, team, rank: 0.0
    if tag == "T":
        # mathematically the default sqrt(sigma_squared)/c, but computed from the `team` argument (the players the callback is
        # handed): a callback may read them, so they must hold the tau-inflated PRIOR values whenever it is called
        return lambda c, k, mu, s2, team, rank: math.sqrt(sum(p.sigma * p.sigma for p in team)) / c
    raise ValueError(tag)


# ---------------------------------------------------------------- games
DEFAULTS = dict(beta=25.0 / 6.0, kappa=0.0001, tau=25.0 / 300.0, ls=False, gamma=("D", 0.0))


def make_game(kind, teams, oc=("N", None), beta=None, kappa=None, tau=None, ls=False,
              gamma=("D", 0.0), tauopt=None, lsopt=None, leaves="c"):
    """teams: list of list of (mu, sigma) floats.  oc: ('N',None) | ('R',[..]) | ('S',[..])"""
    return dict(kind=kind, teams=[[(float(m), float(s)) for (m, s) in t] for t in teams],
                oc=oc, beta=DEFAULTS["beta"] if beta is None else float(beta),
                kappa=DEFAULTS["kappa"] if kappa is None else float(kappa),
                tau=DEFAULTS["tau"] if tau is None else float(tau),
                ls=bool(ls), gamma=gamma, tauopt=tauopt, lsopt=lsopt, leaves=leaves)


def num_token(v):
    if isinstance(v, bool):
        return "i1" if v else "i0"
    if isinstance(v, int):
        return "i%d" % v
    return "f" + f2h(v)


def teams_tokens(teams):
    toks = [str(len(teams))] + [str(len(t)) for t in teams]
    for t in teams:
        for (m, s) in t:
            toks.append(f2h(m))
            toks.append(f2h(s))
    return toks


def rate_line(g):
    toks = ["RATE", g["kind"], g.get("leaves", "c"), f2h(g["beta"]), f2h(g["kappa"]), f2h(g["tau"]),
            "1" if g["ls"] else "0", g["gamma"][0], f2h(g["gamma"][1]),
            "-" if g["tauopt"] is None else f2h(g["tauopt"]),
            "-" if g["lsopt"] is None else ("1" if g["lsopt"] else "0"),
            g["oc"][0]]
    toks += teams_tokens(g["teams"])
    if g["oc"][0] != "N":
        toks += [num_token(v) for v in g["oc"][1]]
    return " ".join(toks)


def build_model(g, cls=None):
    cls = cls or MODEL_CLS[g["kind"]]
    kw = dict(beta=g["beta"], kappa=g["kappa"], tau=g["tau"], limit_sigma=g["ls"])
    if g.get("model_mu") is not None:
        # the model's default mu / sigma for NEW ratings (every rating in a game is built with explicit values)
        kw.update(mu=g["model_mu"], sigma=g["model_mu"] / 3.0)
    cb = gamma_callable(*g["gamma"])
    if cb is not None:
        kw["gamma"] = cb
    if RETUNE_EVERY and game_hash(g) % RETUNE_EVERY == 2:
        # a running system being re-tuned: the model is constructed with OTHER settings and its public attributes are then assigned
        # the game's values.  Every setting is read from the attribute at call time; nothing may be derived from it at construction.
        CALL_STATS["models_retuned_in_place"] = CALL_STATS.get("models_retuned_in_place", 0) + 1
        kw0 = dict(kw, beta=kw["beta"] * 3.0 + 1.0, kappa=min(1.0, kw["kappa"] * 7.0), tau=kw["tau"] * 2.0 + 0.125, limit_sigma=not kw["limit_sigma"])
        m = cls(**kw0)
        if game_hash(g) % (3 * RETUNE_EVERY) >= RETUNE_EVERY:
            # ... or it is a copy (shallow, or deep) of such a model, the original staying alive and being re-tuned again afterwards
            import copy as _copy
            m0 = m
            m = _copy.copy(m0) if game_hash(g) % (3 * RETUNE_EVERY) < 2 * RETUNE_EVERY else _copy.deepcopy(m0)
            m.beta, m.kappa, m.tau, m.limit_sigma = kw["beta"], kw["kappa"], kw["tau"], kw["limit_sigma"]
            m0.beta, m0.tau = kw0["beta"] * 1.7, kw0["tau"] + 1.0
            _OTHER_MODELS.append(m0)
            del _OTHER_MODELS[:-6]
            CALL_STATS["models_that_are_retuned_copies"] = CALL_STATS.get("models_that_are_retuned_copies", 0) + 1
            return m
        m.beta, m.kappa, m.tau, m.limit_sigma = kw["beta"], kw["kappa"], kw["tau"], kw["limit_sigma"]
        return m
    return cls(**kw)


def build_teams(model, g, names=True):
    """integral values are handed over as Python ints every other player (rating(mu=30, sigma=2) is ordinary use; the type of a
    value must not matter)"""
    teams = []
    k = 0
    for t in g["teams"]:
        team = []
        for (m, s) in t:
            if k % 2 == 0 and float(m).is_integer() and abs(m) < 2 ** 53:
                m = int(m)
                CALL_STATS["int_typed_values"] = CALL_STATS.get("int_typed_values", 0) + 1
            if k % 2 == 0 and float(s).is_integer() and abs(s) < 2 ** 53:
                s = int(s)
            team.append(model.rating(mu=m, sigma=s, name=("p%d" % k) if names else None))
            if names == "some" and (k % 3 == 1 or len(g["teams"]) % 2 == 0):
                team[-1].name = None          # most applications never name their ratings: None is the default
            elif names == "dup" and k % 2 == 1:
                team[-1].name = "Guest"       # names are labels, not identities: several entrants may carry the same one
            k += 1
        teams.append(team)
    return teams


def game_hash(g):
    return int(hashlib.sha1(json.dumps(jsonable(g), sort_keys=True).encode()).hexdigest()[:8], 16)


REENTRANT_EVERY = int(os.environ.get("VERIF_REENTRANT_EVERY", "6"))
RETUNE_EVERY = int(os.environ.get("VERIF_RETUNE_EVERY", "5"))
HISTORY_EVERY = int(os.environ.get("VERIF_HISTORY_EVERY", "3"))
REENTRANT_STATS = {"calls": 0}
CALL_STATS = {"positional": 0, "selector_reused": 0}
INTERLEAVE_FAILURES = []      # drained by the runner: (text, game)


def nested_game(g):
    """an unrelated game rated on the SAME model object while the outer call is in progress"""
    teams = [[(m * 0.5 + g["beta"], s * 1.25 + 0.01 * g["beta"]) for (m, s) in t] for t in reversed(g["teams"])]
    teams = teams + [teams[0][:1]]
    n = len(teams)
    ranks = [(i * 2 + 1) % n if n % 2 else (i + 1) % n for i in range(n)]
    return teams, ranks


SEL_OBJECT = {}


def call_rate(model, teams, g, reentrant=None, history=None):
    if history is None:
        history = HISTORY_EVERY > 0 and game_hash(g) % HISTORY_EVERY == 1 and not g.get("_no_history")
    if history:
        history_prelude(model, teams, g, game_hash(g))
    try:
        # another model object of the same class with other settings comes to life (and is re-tuned) before the call: settings are per object
        other_ = type(model)(beta=g["beta"] * 2.0 + 0.5, kappa=min(1.0, g["kappa"] * 3.0), tau=g["tau"] * 0.5 + 0.375, limit_sigma=not g["ls"])
        other_.tau, other_.limit_sigma, other_.beta = other_.tau * 2.0, not other_.limit_sigma, other_.beta * 1.5
        _OTHER_MODELS.append(other_)
        del _OTHER_MODELS[:-4]
    except Exception:  # noqa: BLE001
        pass
    kw = {}
    if g["oc"][0] == "R":
        kw["ranks"] = SEL_OBJECT.pop(id(g), None) or list(g["oc"][1])
    elif g["oc"][0] == "S":
        kw["scores"] = SEL_OBJECT.pop(id(g), None) or list(g["oc"][1])
    if g["tauopt"] is not None:
        kw["tau"] = g["tauopt"]
    if g["lsopt"] is not None:
        kw["limit_sigma"] = g["lsopt"]
    if reentrant is None:
        reentrant = REENTRANT_EVERY > 0 and game_hash(g) % REENTRANT_EVERY == 0
    if not reentrant:
        h = game_hash(g)
        sel = kw.get("ranks", kw.get("scores"))
        before = list(sel) if sel is not None else None
        if h % 5 == 3 and sel is not None:
            # the documented positional form: rate(teams, ranks, scores, tau, limit_sigma)
            CALL_STATS["positional"] += 1
            rest = {k_: v_ for k_, v_ in kw.items() if k_ not in ("ranks", "scores")}
            if h % 10 == 3:
                # all five documented parameters by position: rate(teams, ranks, scores, tau, limit_sigma)
                CALL_STATS["fully_positional"] = CALL_STATS.get("fully_positional", 0) + 1
                out = model.rate(teams, kw.get("ranks"), kw.get("scores"), kw.get("tau"), kw.get("limit_sigma"))
            else:
                out = model.rate(teams, kw["ranks"], **rest) if "ranks" in kw else model.rate(teams, None, kw["scores"], **rest)
        elif h % 8 == 5:
            out = in_thread(lambda: model.rate(teams, **kw))
        elif h % 8 == 7:
            with odd_ambient():
                out = model.rate(teams, **kw)
        else:
            out = model.rate(teams, **kw)
        if sel is not None and (len(sel) != len(before) or any(a is not b and a != b for a, b in zip(sel, before))):
            INTERLEAVE_FAILURES.append(("rate() modified the caller's ranks/scores list: %r -> %r (a second call reusing the list would see another outcome)" % (before, sel), g))
        elif h % 4 == 2 and sel is not None:
            # the same selector list object reused for an identical second call on fresh rating objects
            CALL_STATS["selector_reused"] += 1
            first = [[(p.mu, p.sigma) for p in t] for t in out]
            again = model.rate(build_teams(model, g), **kw)
            if [[(p.mu, p.sigma) for p in t] for t in again] != first:
                INTERLEAVE_FAILURES.append(("an identical second rate() call reusing the same ranks/scores list returns a different result", g))
        return out
    # Deterministic interleaving (C14, and every property of rate under concurrent use): while the
    # outer call is inside _compute, the gamma callback runs a complete, unrelated rate() on the same
    # model object, as a second thread scheduled at that point would.  On code that keeps no per-call
    # state on the model the outer result is bit-identical to the plain call.
    REENTRANT_STATS["calls"] += 1
    orig = model.gamma
    state = {"n": 0, "at": 1 + game_hash(g) // 7 % 3, "busy": False}

    # the interleaved call omits tau / limit_sigma half of the time (then it must see the MODEL's settings, not the
    # outer call's per-call values); its own result is verified against the same call on a fresh model
    nt, nr = nested_game(g)
    nkw = dict(ranks=nr)
    if game_hash(g) // 5 % 2:
        nkw.update(tau=g["beta"] / 7, limit_sigma=not g["ls"])
    ref_model = type(model)(beta=g["beta"], kappa=g["kappa"], tau=g["tau"], limit_sigma=g["ls"])
    ref_model.gamma = orig
    expected = [[(p.mu, p.sigma) for p in t]
                for t in ref_model.rate([[ref_model.rating(mu=m, sigma=s) for (m, s) in t] for t in nt], **dict(nkw, ranks=list(nr)))]

    def cb(c, k, mu, s2, team, rank):
        state["n"] += 1
        if state["n"] == state["at"] and not state["busy"]:
            state["busy"] = True
            inner = [[model.rating(mu=m, sigma=s) for (m, s) in t] for t in nt]
            model.gamma = orig
            try:
                got = [[(p.mu, p.sigma) for p in t] for t in model.rate(inner, **dict(nkw, ranks=list(nr)))]
            finally:
                model.gamma = cb
            if got != expected:
                INTERLEAVE_FAILURES.append((
                    "a rate() call (tau/limit_sigma %s) made on the same model while another rate() call was in progress "
                    "returned %r, on a fresh model %r" % ("omitted" if "tau" not in nkw else "given", first_pair(got, expected), None), g))
        return orig(c, k, mu, s2, team, rank)
    model.gamma = cb
    try:
        return model.rate(teams, **kw)
    finally:
        model.gamma = orig


import contextlib as _ctxlib


@_ctxlib.contextmanager
def odd_ambient():
    """process-wide settings an application may have changed and that must not matter to the library: the decimal context (precision 5,
    traps as usual), the warnings filter ("error": a warning emitted on a valid call becomes an exception), the random module's state"""
    import decimal as _dec, warnings as _w, random as _r
    st = _r.getstate()
    CALL_STATS["calls_under_odd_ambient_settings"] = CALL_STATS.get("calls_under_odd_ambient_settings", 0) + 1
    with _dec.localcontext() as c_, _w.catch_warnings():
        c_.prec = 5
        _w.simplefilter("error")
        _r.seed(12345)
        try:
            yield
        finally:
            _r.setstate(st)


def in_thread(fn):
    """run fn() in a freshly started worker thread and hand back its result or exception: the library is used from request / worker
    threads, which never imported it themselves"""
    import threading
    box = {}

    def run():
        try:
            box["v"] = fn()
        except BaseException as e:  # noqa: BLE001
            box["e"] = e
    th = threading.Thread(target=run)
    th.start(); th.join()
    CALL_STATS["calls_made_in_a_worker_thread"] = CALL_STATS.get("calls_made_in_a_worker_thread", 0) + 1
    if "e" in box:
        raise box["e"]
    return box["v"]


def first_pair(a, b):
    for ta, tb in zip(a, b):
        for x, y in zip(ta, tb):
            if x != y:
                return (x, y)
    return None


SHARED_ID_EVERY = 7
SUBCLASS_EVERY = 9
_ACCOUNT_CLS = {}


def account_class(rating_cls):
    """a user's subclass of the library's rating class with its own constructor signature (an application record that IS a
    rating): instances pass every isinstance check and are valid players; the library's own copies of them are plain ratings"""
    c = _ACCOUNT_CLS.get(rating_cls)
    if c is None:
        class Account(rating_cls):
            def __init__(self, account, region, mu, sigma):
                super().__init__(mu, sigma, account)
                self.region = region
        Account.__name__ = "Account"
        c = _ACCOUNT_CLS[rating_cls] = Account
    return c


def with_user_subclass(teams, h):
    """every SUBCLASS_EVERY-th game (by hash) some of the players are instances of a user subclass of the rating class"""
    if not SUBCLASS_EVERY or h % SUBCLASS_EVERY != 4:
        return teams
    CALL_STATS["user_subclass_players"] = CALL_STATS.get("user_subclass_players", 0) + 1
    out = []
    k = 0
    for t in teams:
        row = []
        for p in t:
            if (h // 9 + k) % 2 == 0:
                a = account_class(type(p))(p.name, "eu", p.mu, p.sigma)
                a.id = p.id
                row.append(a)
            else:
                row.append(p)
            k += 1
        out.append(row)
    return out


def run_impl_rate(g, cls=None):
    """-> ('OK', [[(slot_id, mu, sigma)..]..]) or ('EXC', class name).
    Players are told apart by their (unique) names.  Every seventh game (by hash) the first players of all teams — or, every
    other time, all players — are distinct objects carrying ONE id (clones of a template: deepcopy keeps the id; a shared
    guest account): ids are labels, never keys."""
    model = build_model(g, cls)
    h = game_hash(g)
    nm = "some" if h % 4 == 2 else ("dup" if h % 4 == 3 else True)
    teams = with_user_subclass(build_teams(model, g, names=nm), h) if cls is None else build_teams(model, g, names=nm)
    if SHARED_ID_EVERY and h % SHARED_ID_EVERY == 1:
        CALL_STATS["shared_ids"] = CALL_STATS.get("shared_ids", 0) + 1
        flat = [p for t in teams for p in t]
        for p in ([t[0] for t in teams] if h // 7 % 2 else flat):
            p.id = flat[0].id
    if nm != True:                                        # noqa: E712   (players told apart by object identity)
        CALL_STATS["games_with_unnamed_or_same_named_players"] = CALL_STATS.get("games_with_unnamed_or_same_named_players", 0) + 1
        keyf = lambda p: ("obj", id(p))                  # noqa: E731
    else:
        keyf = lambda p: p.name                           # noqa: E731
    slot = {}
    k = 0
    for t in teams:
        for p in t:
            slot[keyf(p)] = k
            k += 1
    try:
        res = call_rate(model, teams, g)
    except Exception as e:  # noqa: BLE001
        return ("EXC", type(e).__name__)
    out = []
    for t in res:
        out.append([(slot.get(keyf(p), -1), p.mu, p.sigma) for p in t])
    return ("OK", out)


class _Abort(Exception):
    """raised by the harness's own gamma callback to make a rate() call fail half-way"""


def history_prelude(model, teams, g, h):
    """What happened on this model and on these rating objects BEFORE the call under test must not matter (C13: a rejected call has no
    side effect; C14: no state is kept between calls).  One of four histories, chosen by the game's hash:
      0  a call rejected by validation (wrong-length / wrong-type ranks or scores, both selectors, a single team) that carries per-call
         tau / limit_sigma different from the model's — on the same model and the same rating objects;
      1  a call that fails half-way because the gamma callback raises at its k-th invocation (per-call options given); the application
         rolls the players back by assigning the prior values to the public attributes, then retries;
      2  a valid call on OTHER rating objects that shares the caller's ranks/scores list object, whose contents are then edited in
         place (a re-used buffer);
      3  a valid unrelated game with other team count and options on the same model;
      5  the three predictions about this very lobby asked just before; a re-tuned shallow copy of the model rating a game of its own;
      4  the SAME rating objects played an earlier game while they held other values (last season: lower sigma, shifted mu; limit_sigma
         on), and were then assigned this game's prior values.
    After every history the rating objects hold exactly the prior values again; the result of the call under test is compared with the
    model as usual, so any trace a history leaves shows up as an ordinary mismatch."""
    mode = (h // 3) % 6
    prior = [[(p.mu, p.sigma) for p in t] for t in teams]
    n = len(teams)

    def restore(check, what):
        for t, pt in zip(teams, prior):
            for p, (m, s_) in zip(t, pt):
                if check and (p.mu != m or p.sigma != s_) and not (p.mu != p.mu):
                    INTERLEAVE_FAILURES.append(("%s left a rating modified: (%r, %r) -> (%r, %r)" % (what, m, s_, p.mu, p.sigma), g))
                    check = False
                p.mu, p.sigma = m, s_
    CALL_STATS["history_mode_%d" % mode] = CALL_STATS.get("history_mode_%d" % mode, 0) + 1
    if h % 2:
        try:        # whatever else happened before: the model was asked about this very lobby (same objects, same order)
            model.predict_win(teams); model.predict_rank(teams); model.predict_draw(teams)
        except Exception:  # noqa: BLE001
            pass
    other_tau = g["tau"] * 3.0 + g["beta"] / 5.0 if (h // 12) % 2 else 0.0
    opts = dict(tau=other_tau, limit_sigma=not (g["ls"] if g["lsopt"] is None else g["lsopt"]))
    if mode == 0:
        bad = [dict(ranks=list(range(n + 1))), dict(ranks=list(range(n - 1)) + ["x"]), dict(scores=[21] + ["abc"] + [23] * (n - 2)),
               dict(scores=[float(i) for i in range(n)] + [1.0]), dict(ranks=list(range(n)), scores=list(range(n))),
               dict(ranks=[None] * n), dict(scores=[1.5] * (n - 1) + [[2]])][(h // 48) % 7]
        for kw in (dict(bad, **opts), bad):
            try:
                model.rate(teams, **kw)
                INTERLEAVE_FAILURES.append(("a malformed rate() call (%r) was not rejected" % sorted(kw), g))
            except (TypeError, ValueError):
                pass
            except Exception as e:  # noqa: BLE001
                INTERLEAVE_FAILURES.append(("a malformed rate() call raised %s instead of TypeError/ValueError" % type(e).__name__, g))
            restore(True, "a rate() call rejected by validation")
        try:
            model.rate(teams[:1], **opts)
        except (TypeError, ValueError):
            pass
        except Exception as e:  # noqa: BLE001
            INTERLEAVE_FAILURES.append(("rate() on a single team raised %s instead of TypeError/ValueError" % type(e).__name__, g))
        restore(True, "a rate() call rejected by validation")
    elif mode == 1:
        orig = model.gamma
        st = {"n": 0, "at": 1 + (h // 48) % (2 * n)}

        def cb(c, k, mu, s2, team, rank):
            st["n"] += 1
            if st["n"] >= st["at"]:
                raise _Abort()
            return orig(c, k, mu, s2, team, rank)
        model.gamma = cb
        try:
            kw = dict(opts)
            if g["oc"][0] == "R":
                kw["ranks"] = list(g["oc"][1])
            elif g["oc"][0] == "S":
                kw["scores"] = list(g["oc"][1])
            if (h // 96) % 2:
                # ... or fails earlier, inside the tau step: a rating whose sigma is None is a rating object all the same
                broken = model.rating(mu=g["beta"], sigma=g["beta"])
                broken.sigma = None
                teams2 = [list(t) for t in teams]
                teams2[-1] = teams2[-1] + [broken]
                model.rate(teams2, **kw)
            else:
                model.rate(teams, **kw)
        except _Abort:
            pass
        except Exception:  # noqa: BLE001   (the call under test will meet the same condition and report it)
            pass
        finally:
            model.gamma = orig
        restore(False, "")
    elif mode == 2 and g["oc"][0] in "RS":
        keep = list(g["oc"][1])
        if len(set(map(repr, keep))) > 1:
            key = "ranks" if g["oc"][0] == "R" else "scores"
            sel = keep[::-1] if keep[::-1] != keep else keep[1:] + keep[:1]     # the caller's buffer, first holding another outcome
            try:
                model.rate(build_teams(model, g), **{key: sel})
            except Exception:  # noqa: BLE001
                pass
            sel[:] = keep                                                       # ... then overwritten in place with this game's outcome
            SEL_OBJECT[id(g)] = sel                                             # and passed, the same list object, to the call under test
    elif mode == 5:
        # the three predictions about this very lobby (same objects, same order) were asked of the model just before the game is rated;
        # and a shallow copy of the model, re-tuned, rated a game of its own
        try:
            model.predict_win(teams); model.predict_draw(teams); model.predict_rank(teams)
        except Exception:  # noqa: BLE001
            pass
        try:
            import copy as _copy
            twin = _copy.copy(model)
            twin.tau, twin.beta, twin.limit_sigma = g["tau"] * 4.0 + 0.5, g["beta"] * 0.5, not g["ls"]
            twin.rate([[twin.rating(mu=g["beta"] * 5, sigma=g["beta"])], [twin.rating(mu=g["beta"] * 6, sigma=g["beta"] * 2)]])
        except Exception:  # noqa: BLE001
            pass
        restore(True, "predictions about the lobby / a game rated by a re-tuned shallow copy of the model")
    elif mode == 4:
        for t in teams:
            for p in t:
                p.mu, p.sigma = p.mu * 0.75 + g["beta"], p.sigma * 0.5 + 1e-3 * g["beta"]
        try:
            model.rate(teams, ranks=[(i * 3 + 1) % n for i in range(n)], limit_sigma=True, tau=g["beta"] / 4)
        except Exception:  # noqa: BLE001
            pass
        restore(False, "")
    else:
        try:
            k2 = 2 if n != 2 else 3
            others = [[model.rating(mu=g["beta"] * (4 + i), sigma=g["beta"] * (1.5 + 0.25 * i))] for i in range(k2)]
            model.rate(others, ranks=[(i * 2) % k2 for i in range(k2)], **opts)
        except Exception:  # noqa: BLE001
            pass


def parse_rate_out(line):
    """driver line -> ('OK'|'NONFINITE', teams) """
    parts = line.split(" ")
    status = parts[0]
    if status not in ("OK", "NONFINITE"):
        return (status, line)
    teams = [[]]
    for tok in parts[1:]:
        if tok == "":
            continue
        if tok == "/":
            teams.append([])
            continue
        i, m, s = tok.split(":")
        teams[-1].append((int(i), h2f(m), h2f(s)))
    return (status, teams)


# ---------------------------------------------------------------- the model driver
class HarnessError(Exception):
    """the verification machinery itself is not in working order (model driver missing or crashing): an internal error (exit 2),
    never a finding about the implementation"""


class Driver:
    def __init__(self):
        if not os.path.exists(DRIVER):
            raise HarnessError("driver not built: " + DRIVER)

    def run(self, lines):
        if not lines:
            return []
        p = subprocess.run([DRIVER], input=("\n".join(lines) + "\n").encode(), stdout=subprocess.PIPE,
                           stderr=subprocess.PIPE, check=False)
        out = p.stdout.decode().split("\n")
        if out and out[-1] == "":
            out.pop()
        if p.returncode != 0 or len(out) != len(lines):
            raise HarnessError("driver failed rc=%s out=%d in=%d err=%s" % (
                p.returncode, len(out), len(lines), p.stderr.decode()[:500]))
        return out


# ---------------------------------------------------------------- tolerances  (DESIGN §6.2)
def tm_tmin(g):
    """smallest draw margin t = kappa/c_iq that can occur in this game (after tau inflation)"""
    tau = g["tau"] if g["tauopt"] is None else g["tauopt"]
    s2 = sorted(sum(s * s + tau * tau for (_, s) in t) for t in g["teams"])
    cmax = math.sqrt(s2[-1] + s2[-2] + 2 * g["beta"] ** 2)
    if g["kind"] == "TMP":
        cmax *= 2
    return g["kappa"] / cmax


def has_ties(g):
    if g["oc"][0] == "N":
        return False
    v = g["oc"][1]
    return len(set(float(x) if not isinstance(x, int) else x for x in v)) < len(v)


def rel_budget(g):
    """relative float-noise budget for posterior numbers of game g (B1 / B2-noise)"""
    b = 1e-9
    if IS_TM[g["kind"]] and has_ties(g):
        b += 4e-13 / max(tm_tmin(g), 1e-300)
    return b


def close(a, b, rel, scale):
    if a == b:
        return True
    if not (math.isfinite(a) and math.isfinite(b)):
        return False
    return abs(a - b) <= rel * max(abs(a), abs(b), scale)


def sigma_close(a, b, rel, sscale):
    """posterior sigmas a, b of a player whose tau-inflated prior sigma is sscale.  sigma' = sscale * sqrt(f) with the variance
    factor f = max(1 - share*delta, kappa) computed from O(1) operands, so what doubles can deliver is an ABSOLUTE accuracy of
    f of the order of the budget; near the floor (f ~ kappa) that is a large relative error of sigma'.  Accepted: the usual
    relative criterion, or |f_a - f_b| <= 2 rel."""
    return close(a, b, rel, sscale) or (math.isfinite(a) and math.isfinite(b) and abs(a * a - b * b) <= 2 * rel * sscale * sscale)


def compare_rate(g, impl, model, rel=None):
    """compare impl ('OK', teams) with model ('OK', teams); returns None or a description"""
    rel = rel_budget(g) if rel is None else rel
    if impl[0] != "OK":
        return "impl raised %s, model %s" % (impl[1], model[0])
    if model[0] != "OK":
        return "model status %s" % (model[0],)
    it, mt = impl[1], model[1]
    if [len(t) for t in it] != [len(t) for t in mt]:
        return "shape differs impl=%s model=%s" % ([len(t) for t in it], [len(t) for t in mt])
    flat_prior = [p for t in g["teams"] for p in t]
    for ti, (a, b) in enumerate(zip(it, mt)):
        for pi, (x, y) in enumerate(zip(a, b)):
            if x[0] != y[0]:
                return "slot [%d][%d]: impl returns player %d, model player %d" % (ti, pi, x[0], y[0])
            prior = flat_prior[y[0]] if 0 <= y[0] < len(flat_prior) else (0.0, 1.0)
            tau = g["tau"] if g["tauopt"] is None else g["tauopt"]
            sscale = math.sqrt(prior[1] ** 2 + tau * tau)
            if not close(x[1], y[1], rel, g["beta"]):
                return "slot [%d][%d] mu: impl %r model %r (rel budget %.3g)" % (ti, pi, x[1], y[1], rel)
            if not sigma_close(x[2], y[2], rel, sscale):
                return "slot [%d][%d] sigma: impl %r model %r (rel budget %.3g)" % (ti, pi, x[2], y[2], rel)
    return None


# ---------------------------------------------------------------- results, evidence, replays
class Result:
    def __init__(self, prop, tier, seed):
        self.prop, self.tier, self.seed = prop, tier, seed
        self.t0 = time.time()
        self.evaluations = 0
        self.nontrivial = set()
        self.samples = []
        self.hist = {}
        self.failures = []   # dicts: kind ('property'|'correspondence'|'proof'), what, input
        self.traces = 0
        self.notes = []
        self.rule = ""
        self.shard, self.nshards = 0, 1

    def count(self, key, n=1):
        self.hist[key] = self.hist.get(key, 0) + n

    def maxstat(self, key, v):
        """a maximum over the run, kept as the exponent bucket: key_le_1e-XX counts (merges by addition over shards)"""
        import math as _m
        if v <= 0:
            b = "0"
        else:
            b = "le_1e%d" % int(_m.ceil(_m.log10(v)))
        self.count("%s_%s" % (key, b))

    def case(self, obj, nontrivial=True):
        self.evaluations += 1
        if nontrivial:
            self.nontrivial.add(hashlib.sha1(json.dumps(obj, sort_keys=True, default=repr).encode()).hexdigest())
        if len(self.samples) < 3:
            self.samples.append(obj)

    def fail(self, kind, what, inp):
        self.failures.append(dict(kind=kind, what=what, input=inp))


def jsonable(o):
    if isinstance(o, float):
        if math.isfinite(o):
            return o
        return repr(o)
    if isinstance(o, (list, tuple)):
        return [jsonable(x) for x in o]
    if isinstance(o, dict):
        return {str(k): jsonable(v) for k, v in o.items()}
    if isinstance(o, (int, str, bool)) or o is None:
        return o
    return repr(o)


# ---------------------------------------------------------------- helpers used by the checks
def size(res, quick, thorough):
    return quick if res.tier == "quick" else thorough


def impl_teams(g, cls=None):
    """run rate on the implementation; -> list of teams of (mu, sigma) or raises"""
    model = build_model(g, cls)
    h = game_hash(g)
    nm = "some" if h % 4 == 2 else ("dup" if h % 4 == 3 else True)
    teams = with_user_subclass(build_teams(model, g, names=nm), h) if cls is None else build_teams(model, g, names=nm)
    if SHARED_ID_EVERY and h % SHARED_ID_EVERY == 1:
        CALL_STATS["shared_ids"] = CALL_STATS.get("shared_ids", 0) + 1
        flat = [p for t in teams for p in t]
        for p in ([t[0] for t in teams] if h // 7 % 2 else flat):
            p.id = flat[0].id
    out = call_rate(model, teams, g)
    return [[(p.mu, p.sigma) for p in t] for t in out]


def prior_scales(g):
    tau = g["tau"] if g["tauopt"] is None else g["tauopt"]
    return [[math.sqrt(s * s + tau * tau) for (_, s) in t] for t in g["teams"]]


def teams_close(g, A, B, rel):
    """A, B: teams of (mu, sigma) in the slot layout of g; None or description"""
    sc = prior_scales(g)
    if [len(t) for t in A] != [len(t) for t in B]:
        return "shape differs"
    for i, (ta, tb) in enumerate(zip(A, B)):
        for j, (x, y) in enumerate(zip(ta, tb)):
            if not close(x[0], y[0], rel, g["beta"]):
                return "slot [%d][%d] mu %r vs %r (rel %.3g)" % (i, j, x[0], y[0], rel)
            if not sigma_close(x[1], y[1], rel, sc[i][j]):
                return "slot [%d][%d] sigma %r vs %r (rel %.3g)" % (i, j, x[1], y[1], rel)
    return None


def explained_by_rounding(g, impl, model, drv):
    """Last resort before a double-against-double mismatch is reported: how far is the MODEL's own double evaluation from the
    same model terms on 192-bit floats (HRATEX)?  That distance is the rounding noise of this very input (it explodes where
    the variance factor 1 - share*delta is a difference of nearly equal numbers, or in Thurstone-Mosteller ties).  The
    implementation — another double evaluation of the same formula — is granted 30 times the noise of its team plus the usual
    budget; anything beyond that is not rounding."""
    try:
        import exact as _ex
        line = rate_line(dict(g, leaves="c")).replace("RATE", "HRATEX", 1)
        ex = _ex.parse_ratex(drv.run([line])[0])
        if ex is None:
            return False
        rel = rel_budget(g)
        tau = g["tau"] if g["tauopt"] is None else g["tauopt"]
        flat_prior = [p for t in g["teams"] for p in t]
        for a, b, c in zip(impl[1], model[1], ex):
            if len(a) != len(b) or len(a) != len(c):
                return False
            nm = max(abs(y[1] - float(z[1])) for y, z in zip(b, c))
            ns = max(abs(y[2] - float(z[2])) for y, z in zip(b, c))
            for x, y, z in zip(a, b, c):
                if x[0] != y[0] or y[0] != z[0]:
                    return False
                prior = flat_prior[y[0]]
                sscale = math.sqrt(prior[1] ** 2 + tau * tau)
                if abs(x[1] - float(z[1])) > 30 * nm + rel * max(abs(y[1]), g["beta"]):
                    return False
                if abs(x[2] - float(z[2])) > 30 * ns + rel * max(abs(y[2]), sscale):
                    return False
        return True
    except Exception:  # noqa: BLE001
        return False


def corr_games(res, games, kind_on_mismatch, label, drv=None, exact_sample=(24, 60)):
    """implementation vs the model driver on rate games; records mismatches; returns
    list of (game, impl, model)"""
    drv = drv or Driver()
    outs = drv.run([rate_line(g) for g in games])
    # every 4th game also through the literal loop-shaped model (OSModel/Loops.lean, op RLOOP): it must agree with the closed-form model
    # BIT FOR BIT at Float (the equality theorems `rateLoop_eq` assume three IEEE laws — a-b = a+-b, 1*a = a, 0+a = a — which Float,
    # being opaque to the kernel, can only exhibit by running), so the comparison with the implementation covers the literal loops too
    lsub = games[::4]
    if lsub:
        louts = drv.run(["RLOOP" + rate_line(g)[4:] for g in lsub])
        cf = dict((id(g), o) for g, o in zip(games, outs))
        for g, lo in zip(lsub, louts):
            res.count("literal_loop_model_vs_closed_form_games")
            if lo != cf[id(g)] and not any(m == 0.0 and math.copysign(1.0, m) < 0 for t in g["teams"] for (m, _s) in t):
                res.fail("correspondence", "%s: the literal loop-shaped model (rateLoop) and the closed-form model (rate) differ at Float" % label,
                         dict(type="game", game=g))
    results = []
    for g, o in zip(games, outs):
        impl = run_impl_rate(g)
        model = parse_rate_out(o)
        res.traces += 1
        mm = compare_rate(g, impl, model)
        if mm and impl[0] == "OK" and model[0] == "OK" and explained_by_rounding(g, impl, model, drv):
            # ill-conditioned input: the model's OWN evaluation on doubles is as far from its evaluation on 192-bit floats
            res.count("mismatches_explained_by_rounding_of_the_model_itself")
            mm = None
        if mm:
            res.fail(kind_on_mismatch, "%s: implementation and model disagree: %s" % (label, mm),
                     dict(type="game", game=g))
        elif model[0] == "OK":
            # branch statistics from the model's own output: kappa-floor hits, clamp hits
            sc = prior_scales(g)
            rk = math.sqrt(g["kappa"])
            flat = [x for t in sc for x in t]
            for t in model[1]:
                for (pid, m_, s_) in t:
                    if 0 <= pid < len(flat) and flat[pid] > 0 and abs(s_ / flat[pid] - rk) <= 1e-12 * rk:
                        res.count("kappa_floor_hits")
        results.append((g, impl, model))
    if exact_sample and games:
        # tier B-exact: the formula the code evaluates, recorded operation by operation, against the model on 192-bit floats
        import exact
        n = size(res, *exact_sample)
        exact.exact_rate_games(res, games[:: max(1, len(games) // n)][:n], label, kind_on_mismatch, drv=drv)
    return results


def describe(res, g):
    res.count("kind_" + g["kind"])
    res.count("gamma_" + g["gamma"][0])
    res.count("teams_%d" % len(g["teams"]))
    res.count("ties" if has_ties(g) else "no_ties")
    res.count("outcome_" + g["oc"][0])
    mx = max(len(t) for t in g["teams"])
    res.count("maxteamsize_%d" % mx)


# ---------------------------------------------------------------- C01: exact-leaf, high-precision specification
def tm_bias_budget(g):
    """per slot (allowed |d mu|, allowed |d sigma^2|) between the implementation and the closed form with EXACT
    V, W, V~, W~ (evaluated by the driver on 192-bit floats): the documented asymptotic forms' stated errors
    (C17: vt within 2t, wt within 20t + 1e-13/t, v and w within 2 percent on the asymptotic branch, 1e-6 relative
    above the guard) propagated linearly through omega and delta, plus 1e-9 float accuracy."""
    tau = g["tau"] if g["tauopt"] is None else g["tauopt"]
    n = len(g["teams"])
    beta, kappa = g["beta"], g["kappa"]
    s2 = [sum(s * s + tau * tau for (_, s) in t) for t in g["teams"]]
    th = [sum(m for (m, _) in t) for t in g["teams"]]
    if g["oc"][0] == "N":
        key = list(range(n))
    elif g["oc"][0] == "R":
        key = list(g["oc"][1])
    else:
        key = [-v for v in g["oc"][1]]
    dense = [sum(1 for q in range(n) if key[q] < key[i]) for i in range(n)]
    eps_om, eps_de = [0.0] * n, [0.0] * n
    if IS_TM[g["kind"]]:
        cm = 2.0 if g["kind"] == "TMP" else 1.0
        order = sorted(range(n), key=lambda i: key[i])          # stable
        pos = {i: k for k, i in enumerate(order)}
        cb = gamma_callable(*g["gamma"]) if g["gamma"][0] != "T" else None      # "T" is the default, read off the team argument
        for i in range(n):
            if IS_PART[g["kind"]]:
                opp = [order[k] for k in (pos[i] - 1, pos[i] + 1) if 0 <= k < n]
            else:
                opp = [q for q in range(n) if q != i]
            for q in opp:
                c = cm * math.sqrt(s2[i] + s2[q] + 2 * beta * beta)
                t = kappa / c
                x = (th[i] - th[q]) / c
                s2c = s2[i] / c
                gam = abs(cb(c, n, th[i], s2[i], None, dense[i])) if cb else math.sqrt(s2[i]) / c
                if key[i] == key[q]:
                    eps_om[i] += s2c * 2 * t
                    eps_de[i] += gam * s2c / c * (20 * t + 1e-13 / t)
                else:
                    u = (x if key[i] < key[q] else -x) - t
                    if wl_common.phi_major(u) < 2.3e-16:
                        eps_om[i] += s2c * 0.02 * (abs(u) + 2)
                        eps_de[i] += gam * s2c / c * 0.02
                    else:
                        eps_om[i] += s2c * 1e-6 * (abs(u) + 2)
                        eps_de[i] += gam * s2c / c * 1e-6
    out = []
    for i, t in enumerate(g["teams"]):
        row = []
        for (m, s) in t:
            v = s * s + tau * tau
            share = v / s2[i] if s2[i] > 0 else 0.0
            row.append((share * eps_om[i] * (1 + 1e-6) + 1e-9 * max(abs(m), beta), v * share * eps_de[i] * (1 + 1e-6) + 4e-9 * v))
        out.append(row)
    return out


def compare_rate_exact(g, impl, model):
    """implementation vs the exact-leaf high-precision closed form, within tm_bias_budget"""
    if impl[0] != "OK":
        return "impl raised %s" % (impl[1],)
    if model[0] != "OK":
        return "model status %s" % (model[0],)
    bud = tm_bias_budget(g)
    for ti, (a, b) in enumerate(zip(impl[1], model[1])):
        if len(a) != len(b):
            return "shape differs"
        for pi, (x, y) in enumerate(zip(a, b)):
            if x[0] != y[0]:
                return "slot [%d][%d]: impl returns player %d, spec player %d" % (ti, pi, x[0], y[0])
            bm, bs = bud[ti][pi]
            if not abs(x[1] - y[1]) <= bm:
                return "slot [%d][%d] mu: impl %r, exact closed form %r, allowed deviation %.3g" % (ti, pi, x[1], y[1], bm)
            ls = (g["ls"] if g["lsopt"] is None else g["lsopt"])
            if not abs(x[2] * x[2] - y[2] * y[2]) <= bs and not (ls and x[2] == g["teams"][ti][pi][1]):
                return "slot [%d][%d] sigma^2: impl %r, exact closed form %r, allowed deviation %.3g" % (ti, pi, x[2] ** 2, y[2] ** 2, bs)
    return None


# ---------------------------------------------------------------- gamma-callback trace (internal state of rate)
def impl_trace(g):
    """the arguments with which the library calls the gamma callback during rate(g), in order:
    [(c, k, mu, sigma_squared, rank, [slot ids of the team's players])]"""
    model = build_model(g)
    teams = build_teams(model, g)
    slot = {}
    k = 0
    for t in teams:
        for p in t:
            slot[p.id] = k
            k += 1
    base = model.gamma
    calls = []

    def cb(c, k_, mu, s2, team, rank):
        calls.append((c, k_, mu, s2, rank, [slot.get(p.id, -1) for p in team]))
        return base(c, k_, mu, s2, team, rank)
    model.gamma = cb
    kw = {}
    if g["oc"][0] == "R":
        kw["ranks"] = list(g["oc"][1])
    elif g["oc"][0] == "S":
        kw["scores"] = list(g["oc"][1])
    if g["tauopt"] is not None:
        kw["tau"] = g["tauopt"]
    if g["lsopt"] is not None:
        kw["limit_sigma"] = g["lsopt"]
    model.rate(teams, **kw)
    return calls


def parse_trace(line):
    out = []
    for tok in line.split(" ")[1:]:
        if not tok:
            continue
        c, k, mu, s2, rank, ids = tok.split(":")
        out.append((h2f(c), int(k), h2f(mu), h2f(s2), int(rank), [int(x) for x in ids.split(",") if x]))
    return out


def trace_games(res, games, kind_on_mismatch, label):
    lines = [rate_line(g).replace("RATE", "TRACE", 1) for g in games]
    outs = Driver().run(lines)
    for g, o in zip(games, outs):
        try:
            got = impl_trace(g)
        except Exception as e:  # noqa: BLE001
            res.fail("property", "%s: valid call raised %s" % (label, type(e).__name__), dict(type="game", game=g))
            continue
        want = parse_trace(o)
        res.traces += 1
        res.count("gamma_trace_comparisons")
        bad = None
        if len(got) != len(want):
            bad = "the callback is called %d times, the model predicts %d" % (len(got), len(want))
        else:
            for n, (a, b) in enumerate(zip(got, want)):
                if a[1] != b[1] or a[4] != b[4] or a[5] != b[5]:
                    bad = "call %d: (k, rank, players) = %r, model %r" % (n, (a[1], a[4], a[5]), (b[1], b[4], b[5])); break
                if not (close(a[0], b[0], 1e-12, 0.0) and close(a[2], b[2], 1e-12, 1e-300) and close(a[3], b[3], 1e-12, 0.0)):
                    bad = "call %d: (c, team mu, team sigma^2) = %r, model %r" % (n, (a[0], a[2], a[3]), (b[0], b[2], b[3])); break
        if bad:
            res.fail(kind_on_mismatch, "%s: the library's calls of the gamma callback (its internal state: inflation, rank sort, dense ranks, "
                     "aggregates, c / c_iq, pairing) differ from the model's: %s" % (label, bad), dict(type="game", game=g))


# ---------------------------------------------------------------- the optimised interpreter
_OPT_CHILD = """
import sys, json, hashlib
sys.path.insert(0, %(harness)r)
import core, gen, random
print(json.dumps(dict(optimize=sys.flags.optimize, rows=core.option_battery(%(seed)d))))
"""


def option_battery(seed):
    """a fixed battery of rate calls exercising model-level and per-call tau / limit_sigma on all five models -> one digest per call"""
    import random as _r, gen as _gen
    _gen._CYCLE[0] = 0
    rng = _r.Random(seed)
    rows = []
    for k in range(60):
        g = _gen.gen_game(rng, kind=KINDS[k % 5], stratum=("typical", "floor", "newcomers")[k % 3], options=True)
        g["ls"] = (k % 2 == 0)
        g["tau"] = max(g["tau"], g["beta"] / 10)
        g["_no_history"] = True
        try:
            model = MODEL_CLS[g["kind"]](beta=g["beta"], kappa=g["kappa"], tau=g["tau"], limit_sigma=g["ls"])
            teams = [[model.rating(mu=m, sigma=s_) for (m, s_) in t] for t in g["teams"]]
            kw = {}
            if g["oc"][0] == "R":
                kw["ranks"] = list(g["oc"][1])
            elif g["oc"][0] == "S":
                kw["scores"] = list(g["oc"][1])
            if g["tauopt"] is not None:
                kw["tau"] = g["tauopt"]
            if g["lsopt"] is not None:
                kw["limit_sigma"] = g["lsopt"]
            out = model.rate(teams, **kw)
            rows.append(hashlib.sha1(repr([[(p.mu, p.sigma) for p in t] for t in out]).encode()).hexdigest()[:12])
        except Exception as e:  # noqa: BLE001
            rows.append("EXC:" + type(e).__name__)
    return rows


def optimised_interpreter(res, prop):
    """the same battery in a child interpreter started with -O (assert statements and `if __debug__:` blocks removed): bit-identical"""
    import subprocess
    here = option_battery(res.seed)
    env = dict(os.environ, OPENSKILL_REPO=REPO)
    p = subprocess.run([sys.executable, "-B", "-O", "-c", _OPT_CHILD % dict(harness=os.path.dirname(os.path.abspath(__file__)), seed=res.seed)],
                       stdout=subprocess.PIPE, stderr=subprocess.PIPE, env=env)
    if p.returncode != 0:
        res.fail("property", "%s: the library cannot be used under python -O: %s" % (prop, p.stderr.decode()[-300:]), dict(type="optflag"))
        return
    body = json.loads(p.stdout.decode().strip().split("\n")[-1])
    res.count("battery_calls_under_python_O", len(body["rows"]))
    bad = [i for i, (a, b) in enumerate(zip(here, body["rows"])) if a != b]
    if bad or len(here) != len(body["rows"]):
        res.fail("property", "%s: under python -O (assert statements removed) rate returns other numbers than in the default interpreter for %d of %d calls "
                 "with model-level / per-call tau and limit_sigma (first: call %s: %s vs %s)" % (prop, len(bad), len(here), bad[:1], body["rows"][bad[0]] if bad else "-", here[bad[0]] if bad else "-"),
                 dict(type="optflag"))
