#!/usr/bin/env python3
"""
Evaluate the registered checks against a seeded change without touching /repo:
    tools/seeded.py eval <patch.diff> [Cxx ...]      (default: all 20 properties, quick tier, lean gate skipped)
    tools/seeded.py all                               every /verif/seeded/*/patch.diff; writes seeded/RESULTS.json
A scratch worktree of /repo is created under /tmp, the patch applied, the checks run with
OPENSKILL_REPO pointing at it, and the worktree removed.
"""
import concurrent.futures as cf, json, os, subprocess, sys, tempfile, time, glob

VERIF = os.path.dirname(os.path.dirname(os.path.abspath(__file__)))
PROPS = ["C%02d" % i for i in range(1, 21)]


def run_check(prop, repo, tier="quick"):
    evd = tempfile.mkdtemp(prefix="ev-")
    env = dict(os.environ, OPENSKILL_REPO=repo, VERIF_EVIDENCE_DIR=evd)
    t = time.time()
    try:
        p = subprocess.run([os.path.join(VERIF, "check"), prop, "--tier", tier, "--no-lean"], stdout=subprocess.PIPE, stderr=subprocess.STDOUT, env=env)
    finally:
        import shutil
        shutil.rmtree(evd, ignore_errors=True)
    out = p.stdout.decode()
    viol = [l for l in out.split("\n") if l.startswith("VIOLATION")]
    fail = [l for l in out.split("\n") if l.startswith("  failing:")]
    return dict(prop=prop, rc=p.returncode, violation=bool(viol), concrete=bool(viol) and "no-failing-input-found" not in viol[0],
                first=(fail[0][:300] if fail else ""), wall=round(time.time() - t, 1))


def evaluate(patch, props):
    wt = tempfile.mkdtemp(prefix="seeded-wt-")
    os.rmdir(wt)
    subprocess.run(["git", "-C", "/repo", "worktree", "add", "-q", "--detach", wt, "HEAD"], check=True)
    try:
        subprocess.run(["git", "-C", wt, "apply", os.path.abspath(patch)], check=True)
        with cf.ThreadPoolExecutor(int(os.environ.get("SEEDED_THREADS", "10"))) as ex:
            res = list(ex.map(lambda pr: run_check(pr, wt), props))
    finally:
        subprocess.run(["git", "-C", "/repo", "worktree", "remove", "--force", wt])
    return res


def main():
    if sys.argv[1] == "eval":
        patch = sys.argv[2]
        props = sys.argv[3:] or PROPS
        for r in evaluate(patch, props):
            print("%s rc=%d %s %s" % (r["prop"], r["rc"], "VIOLATION" + ("" if r["concrete"] else "(no-failing-input)") if r["violation"] else "ok", r["first"][:160]))
    elif sys.argv[1] == "all":
        results = {}
        os.environ.setdefault("SEEDED_THREADS", "7")

        def one(d):
            name = os.path.basename(os.path.dirname(d))
            meta = json.load(open(os.path.join(os.path.dirname(d), "meta.json")))
            res = evaluate(d, PROPS)
            caught = [r["prop"] for r in res if r["violation"]]
            concrete = [r["prop"] for r in res if r["concrete"]]
            errors = [r["prop"] for r in res if r["rc"] == 2]
            print(name, "breaks", meta["property"], "caught_by", caught, "concrete", concrete, "errors", errors, flush=True)
            return name, dict(breaks=meta["property"], caught_by=caught, with_failing_input=concrete, errors=errors,
                              target_caught=meta["property"] in caught)
        with cf.ThreadPoolExecutor(int(os.environ.get("SEEDED_PARALLEL", "2"))) as ex:
            for name, r in ex.map(one, sorted(glob.glob(os.path.join(VERIF, "seeded", "*", "patch.diff")))):
                results[name] = r
        json.dump(results, open(os.path.join(VERIF, "seeded", "RESULTS.json"), "w"), indent=1)


def target_mode(names):
    """re-evaluate only the check of the property each change was written to break (after a harness change) and merge the outcome
    into RESULTS.json: tools/seeded.py target [Cxx_y ...]   (default: every change)"""
    path = os.path.join(VERIF, "seeded", "RESULTS.json")
    results = json.load(open(path)) if os.path.exists(path) else {}
    dirs = sorted(glob.glob(os.path.join(VERIF, "seeded", "*", "patch.diff")))
    if names:
        dirs = [d for d in dirs if os.path.basename(os.path.dirname(d)) in names]

    def one(d):
        name = os.path.basename(os.path.dirname(d))
        meta = json.load(open(os.path.join(os.path.dirname(d), "meta.json")))
        r = evaluate(d, [meta["property"]])[0]
        print(name, "breaks", meta["property"], "target", "CAUGHT" if r["violation"] else "missed", "concrete" if r["concrete"] else "", r["first"][:120], flush=True)
        return name, meta["property"], r
    with cf.ThreadPoolExecutor(int(os.environ.get("SEEDED_PARALLEL", "8"))) as ex:
        for name, prop, r in ex.map(one, dirs):
            v = results.setdefault(name, dict(breaks=prop, caught_by=[], with_failing_input=[], errors=[], target_caught=False))
            cb = set(v["caught_by"]); cc = set(v["with_failing_input"])
            (cb.add if r["violation"] else cb.discard)(prop)
            (cc.add if r["concrete"] else cc.discard)(prop)
            v["caught_by"] = sorted(cb); v["with_failing_input"] = sorted(cc)
            v["target_caught"] = prop in cb
    json.dump(results, open(path, "w"), indent=1)


if __name__ == "__main__":
    if len(sys.argv) > 1 and sys.argv[1] == "target":
        target_mode(sys.argv[2:])
    else:
        main()
