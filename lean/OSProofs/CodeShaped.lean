import OSProofs.CodeShapedLemmas

/-!
# The closed forms `plSumQ` and `rankData` are justified by proof

In two places the executable model (`OSModel`) uses a *closed form* of a Python loop instead of a
transliteration.  `OSModel/CodeShaped.lean` contains literal, code-shaped versions of those two
loops; this file proves them equal to the closed forms.

* `plSumQCode_eq`  — `PlackettLuce._sum_q` (a `dict` filled by a double loop, returned as
  `list(sum_q.values())`) equals `plSumQ`, provided the ranks are non-decreasing along the list;
  `denseRanks_nondecreasing` shows `_calculate_rankings` always produces such ranks, and
  `plSumQCode_eq_denseRanks` / `plSumQCode_eq_range` instantiate the hypothesis at the two call
  sites of `compute` in `OSModel/Rate.lean`.
  `plSumQCode_eq_generic` is the same statement for an arbitrary scalar type (hence also for
  `Float`), with the exact summation order of the code.
* `rankDataCode_eq` — `_rank_data` (`_arg_sort`, then a scan over runs of equal values) equals
  `rankData`, for every list of reals.

**Remark (what happens without sortedness).**  If the ranks are not non-decreasing, the keys of
the dict are in general *not* inserted in ascending order, so `list(sum_q.values())[q]` need not
be the entry of key `q`: for ranks `[0, 1, 0]` iteration `i = 0` inserts the keys `0, 2` and
iteration `i = 1` appends key `1`, the dict is `{0: …, 2: …, 1: …}` and the returned list is a
permutation of the closed form (checked by `#guard` at the end of this file; Python returns the
same permuted list).  The multiset of values is still that of `plSumQ`; only the positions move.
The library never calls `_sum_q` with such ranks.

**Remark (floating point).**  `plSumQCode_eq_generic` uses no law of arithmetic.  The only
difference between the code and `plSumQ` at `Float` is that the dict entry starts as `summed`
whereas `sumL` starts as `0.0 + summed`; these are equal for every float except `-0.0`, and
`math.exp` never returns `-0.0`.
-/

namespace OS
open Scalar

/-! ## `_sum_q` -/

section
variable {α : Type} [Scalar α]

/-- **`_sum_q`, code-shaped = closed form, for every scalar type** (no algebraic law is used, so
this holds for `Float` too): with non-decreasing ranks the dict keys end up in the order
`0, 1, …, n-1`, and the value of key `q` is the left-to-right sum of `exp(mu_i / c)` over the
teams `i` with `rank_i ≥ rank_q`, started from its first term. -/
theorem plSumQCode_eq_generic (ts : List (TeamAgg α)) (c : α)
    (hs : ts.Pairwise (fun a b => a.rank ≤ b.rank)) :
    plSumQCode ts c =
      ts.map (fun tq => lit_sumL1
        ((ts.filter (fun ti => decide (tq.rank ≤ ti.rank))).map (fun ti => exp (ti.mu / c)))) := by
  have hL : (ts.zipIdx.map (·.2)).Nodup := by
    have : ts.zipIdx.map (·.2) = List.range' 0 ts.length := List.zipIdx_map_snd 0 ts
    rw [this]; exact List.nodup_range'
  have hsL : ts.zipIdx.Pairwise (fun a b => a.1.rank ≤ b.1.rank) := by
    have : (ts.zipIdx.map (·.1)).Pairwise (fun a b => a.rank ≤ b.rank) := by
      rw [show ts.zipIdx.map (·.1) = ts from List.zipIdx_map_fst 0 ts]; exact hs
    rw [List.pairwise_map] at this
    exact this
  have hInv := lit_Inv_fold ts.zipIdx (fun ti => exp (ti.mu / c)) hL hsL ts [] []
    (lit_Inv_nil _ _)
  rw [List.nil_append, ← lit_plSumQDict_eq] at hInv
  obtain ⟨hnd, hkeys, hval⟩ := hInv
  have hall : ts.zipIdx.filter
      (fun tq => ts.any (fun tj => decide (tq.1.rank ≤ tj.rank))) = ts.zipIdx := by
    rw [List.filter_eq_self]
    intro tq htq
    rw [List.any_eq_true]
    refine ⟨tq.1, ?_, by simp⟩
    have : tq.1 ∈ ts.zipIdx.map (·.1) := List.mem_map_of_mem htq
    rwa [show ts.zipIdx.map (·.1) = ts from List.zipIdx_map_fst 0 ts] at this
  rw [hall] at hkeys
  have hv := lit_values_eq (plSumQDict ts c) hnd
  rw [hkeys, List.map_map] at hv
  have hv2 : (plSumQDict ts c).map (fun kv => some kv.2) =
      ts.zipIdx.map (fun tq => lit_sum1
        ((ts.filter (fun tj => decide (tq.1.rank ≤ tj.rank))).map (fun ti => exp (ti.mu / c)))) := by
    rw [hv]
    apply List.map_congr_left
    intro tq htq
    exact hval tq htq
  have hv3 := congrArg (List.map (fun o : Option α => o.getD (ofNat 0))) hv2
  rw [List.map_map, List.map_map] at hv3
  unfold plSumQCode
  have e1 : ((fun o : Option α => o.getD (ofNat 0)) ∘ fun kv : Nat × α => some kv.2) =
      (·.2) := rfl
  rw [e1] at hv3
  rw [hv3]
  have e2 : ∀ F : TeamAgg α → α, ts.map F = ts.zipIdx.map (fun tq => F tq.1) := by
    intro F
    conv_lhs => rw [← List.zipIdx_map_fst 0 ts, List.map_map]
    rfl
  rw [e2]
  rfl

end

/-- **`_sum_q`: the dict-building double loop equals the closed form `plSumQ`** (over ℝ) when
the team ranks are non-decreasing along the list — which `_calculate_rankings` guarantees
(`denseRanks_nondecreasing`). -/
theorem plSumQCode_eq (ts : List (TeamAgg ℝ)) (c : ℝ)
    (hs : ts.Pairwise (fun a b => a.rank ≤ b.rank)) :
    plSumQCode ts c = plSumQ ts c := by
  rw [plSumQCode_eq_generic ts c hs]
  unfold plSumQ
  apply List.map_congr_left
  intro tq _
  exact lit_sumL1_real _

/-- **`_calculate_rankings` produces non-decreasing ranks**, whatever the comparison and the
input list: the running value `s` is only ever replaced by the (larger) current index. -/
theorem denseRanks_nondecreasing {ρ : Type} (lt : ρ → ρ → Bool) (s : List ρ) :
    (denseRanks lt s).Pairwise (· ≤ ·) := by
  cases s with
  | nil => simp [denseRanks]
  | cons x xs =>
    simp only [denseRanks]
    exact List.pairwise_cons.mpr
      ⟨fun y _ => Nat.zero_le y, (lit_denseRanksAux_mono lt xs x 1 0 (by omega)).2⟩

/-- the team aggregates inherit non-decreasing ranks from the rank list -/
theorem teamAggs_rank_nondecreasing {α : Type} [Scalar α] (teams : List (List (Rating α)))
    (ranks : List Nat) (h : ranks.Pairwise (· ≤ ·)) :
    (teamAggs teams ranks).Pairwise (fun a b => a.rank ≤ b.rank) := by
  unfold teamAggs
  rw [List.pairwise_map]
  show (teams.zip ranks).Pairwise (fun a b => a.2 ≤ b.2)
  induction teams generalizing ranks with
  | nil => simp
  | cons t teams ih =>
    cases ranks with
    | nil => simp
    | cons r ranks =>
      rw [List.pairwise_cons] at h
      rw [List.zip_cons_cons, List.pairwise_cons]
      refine ⟨?_, ih ranks h.2⟩
      intro a ha
      exact h.1 a.2 (List.of_mem_zip (show (a.1, a.2) ∈ teams.zip ranks from ha)).2

/-- **`_sum_q` = `plSumQ` at the call site of `rate` with ranks/scores**: the team ratings built
from the output of `_calculate_rankings` (any comparison, any rank values). -/
theorem plSumQCode_eq_denseRanks {ρ : Type} (lt : ρ → ρ → Bool) (s : List ρ)
    (teams : List (List (Rating ℝ))) (c : ℝ) :
    plSumQCode (teamAggs teams (denseRanks lt s)) c = plSumQ (teamAggs teams (denseRanks lt s)) c :=
  plSumQCode_eq _ c (teamAggs_rank_nondecreasing teams _ (denseRanks_nondecreasing lt s))

/-- **`_sum_q` = `plSumQ` at the call site of `rate` without ranks** (`ranks = range(n)`). -/
theorem plSumQCode_eq_range (teams : List (List (Rating ℝ))) (n : Nat) (c : ℝ) :
    plSumQCode (teamAggs teams (List.range n)) c = plSumQ (teamAggs teams (List.range n)) c := by
  apply plSumQCode_eq _ c (teamAggs_rank_nondecreasing teams _ ?_)
  exact List.pairwise_lt_range.imp Nat.le_of_lt

/-! ## `_rank_data` -/

/-- **`_rank_data`: the sort-and-scan loop equals the closed form `rankData`** (over ℝ), for
every input list: each entry gets `1 +` the number of strictly smaller entries. -/
theorem rankDataCode_eq (v : List ℝ) : rankDataCode v = rankData v := by
  rw [lit_rankDataCode_unfold]
  have hsv := lit_argSorted_eq v
  have hperm := lit_idx_perm v
  have hlenI : (argSortCode v).length = v.length := by
    rw [hperm.length_eq, List.length_range]
  have hn : v.length = ((lit_S v).map (·.1)).length := by
    rw [List.length_map, lit_S_length]
  have hnd : (argSortCode v).Nodup := hperm.nodup_iff.mpr List.nodup_range
  have hltI : ∀ j < ((lit_S v).map (·.1)).length,
      (argSortCode v).getD j 0 < ((lit_S v).map (·.1)).length := by
    intro j hj
    rw [← hn] at hj ⊢
    have hj' : j < (argSortCode v).length := by omega
    rw [lit_getD_eq _ 0 hj']
    have : (argSortCode v)[j] ∈ List.range v.length := hperm.mem_iff.mp (List.getElem_mem hj')
    exact List.mem_range.mp this
  have hspec := lit_loop_spec ((lit_S v).map (·.1)) (argSortCode v) (lit_S_sorted v)
    (by rw [hlenI, hn]) hnd hltI
  rw [hsv]
  rw [← hn] at hspec
  obtain ⟨hlenO, hget⟩ := hspec
  apply List.ext_getElem?
  intro i
  by_cases hi : i < v.length
  · have him : i ∈ argSortCode v := hperm.mem_iff.mpr (List.mem_range.mpr hi)
    obtain ⟨j, hj, hji⟩ := List.getElem_of_mem him
    have hjv : j < v.length := by omega
    have h1 := hget j hjv
    rw [lit_getD_eq _ 0 hj, hji] at h1
    rw [h1]
    have hsvj : ((lit_S v).map (·.1)).getD j 0 = v[i] := by
      rw [← hsv]
      rw [lit_getD_eq _ 0 (by rw [List.length_map]; exact hj)]
      rw [List.getElem_map, hji]
      exact lit_getD_eq v _ hi
    rw [hsvj, lit_cntLt_perm (lit_sv_perm v), rankData_eq, List.getElem?_map,
      List.getElem?_eq_getElem hi, Option.map_some, Nat.add_comm]
  · rw [List.getElem?_eq_none (by omega), List.getElem?_eq_none]
    rw [rankData_length]; omega

/-! ## The literal definitions compute what Python computes

`#guard` evaluates the code-shaped definitions at `Float` (compile-time check, no axiom).  The
expected values are the outputs of the pinned Python library, e.g.
`/venv/bin/python -c "from openskill.models.common import _rank_data, _arg_sort;
print(_rank_data([0.3,0.1,0.3,0.2]), _arg_sort([0.3,0.1,0.3,0.2]))"` prints
`[3, 1, 3, 2] [1, 3, 0, 2]`. -/

example : dictAdd [(0, 1), (2, 5)] 2 3 = [(0, 1), (2, 8)] := by decide
example : dictAdd [(0, 1), (2, 5)] 1 3 = [(0, 1), (2, 5), (1, 3)] := by decide
example : denseRanks (fun a b => decide (a < b)) [1, 1, 4, 7, 7] = [0, 0, 2, 3, 3] := by decide

private def lit_mk (mu : Float) (r : Nat) : TeamAgg Float :=
  { mu := mu, sig2 := 1.0, rank := r, players := [] }

private def lit_close (a b : List Float) : Bool :=
  a.length == b.length && (a.zip b).all (fun p => (p.1 - p.2).abs < 1e-9)

-- `_arg_sort`, `_rank_data`
#guard argSortCode ([0.3, 0.1, 0.3, 0.2] : List Float) == [1, 3, 0, 2]
#guard rankDataCode ([0.3, 0.1, 0.3, 0.2] : List Float) == [3, 1, 3, 2]
#guard rankDataCode ([5.0, 5.0, 1.0, 7.0, 5.0, 1.0] : List Float) == [3, 3, 1, 6, 3, 1]
#guard rankDataCode ([] : List Float) == []
#guard rankDataCode ([0.3, 0.1, 0.3, 0.2] : List Float) == rankData ([0.3, 0.1, 0.3, 0.2] : List Float)
-- `_sum_q` for ranks `[0, 0, 2]`, mu `[25, 30, 20]`, `c = 7`:
-- Python: `[125.63349967102378, 125.63349967102378, 17.41170806332765]`
#guard (plSumQDict [lit_mk 25.0 0, lit_mk 30.0 0, lit_mk 20.0 2] 7.0).map (·.1) == [0, 1, 2]
#guard lit_close (plSumQCode [lit_mk 25.0 0, lit_mk 30.0 0, lit_mk 20.0 2] 7.0)
  [125.63349967102378, 125.63349967102378, 17.41170806332765]
#guard plSumQCode [lit_mk 25.0 0, lit_mk 30.0 0, lit_mk 20.0 2] 7.0 ==
  plSumQ [lit_mk 25.0 0, lit_mk 30.0 0, lit_mk 20.0 2] 7.0
-- unsorted ranks `[0, 1, 0]`: the key order is `0, 2, 1` and the returned list is permuted
-- Python: `[125.63349967102378, 125.63349967102378, 72.65442420716546]`
#guard (plSumQDict [lit_mk 25.0 0, lit_mk 30.0 1, lit_mk 20.0 0] 7.0).map (·.1) == [0, 2, 1]
#guard lit_close (plSumQCode [lit_mk 25.0 0, lit_mk 30.0 1, lit_mk 20.0 0] 7.0)
  [125.63349967102378, 125.63349967102378, 72.65442420716546]
#guard lit_close (plSumQ [lit_mk 25.0 0, lit_mk 30.0 1, lit_mk 20.0 0] 7.0)
  [125.63349967102378, 72.65442420716546, 125.63349967102378]

end OS
