import OSProofs.Gauss
import OSProofs.RealInst
import OSProofs.Sched
import OSProofs.LeafFacts
import OSProofs.Props.C14
import OSProofs.Props.C15
import OSProofs.Props.C18
import OSProofs.Props.C19
