import OSModel.Team
/-
  The dynamic values `rate` / `predict_*` can be handed, and the argument validation the
  five model files share (`_check_teams` + the ranks/scores checks at the top of `rate`).
-/
namespace OS

inductive PyVal where
  | none
  | bool (b : Bool)
  | int (i : Int)
  | flt (zero : Bool)          -- a float; for validation only "is it 0.0" matters
  | str (len : Nat)
  | list (xs : List PyVal)
  | tuple (xs : List PyVal)
  | dict (len : Nat)
  | set (len : Nat)
  | rating (k : Kind)          -- a rating object of model `k`
  | obj                        -- any other object (truthy, not a number, not a container)
  deriving Repr, Inhabited

inductive PyExc where
  | TypeError | ValueError
  deriving DecidableEq, Repr

/-- Python truthiness -/
def PyVal.truthy : PyVal → Bool
  | .none => false
  | .bool b => b
  | .int i => i != 0
  | .flt z => !z
  | .str n => n != 0
  | .list xs => !xs.isEmpty
  | .tuple xs => !xs.isEmpty
  | .dict n => n != 0
  | .set n => n != 0
  | .rating _ => true
  | .obj => true

/-- `isinstance(x, (int, float))` (bool is a subclass of int) -/
def PyVal.isNumber : PyVal → Bool
  | .bool _ => true
  | .int _ => true
  | .flt _ => true
  | _ => false

def PyVal.isRatingOf (k : Kind) : PyVal → Bool
  | .rating k' => k == k'
  | _ => false

/-- first element of `xs` failing `p`, in iteration order -/
def checkPlayers (k : Kind) : List PyVal → Except PyExc Unit
  | [] => .ok ()
  | p :: ps => if p.isRatingOf k then checkPlayers k ps else .error .TypeError

def checkTeamList (k : Kind) : List PyVal → Except PyExc Unit
  | [] => .ok ()
  | t :: ts =>
    match t with
    | .list players =>
      if players.length < 1 then .error .ValueError
      else match checkPlayers k players with
        | .ok () => checkTeamList k ts
        | .error e => .error e
    | _ => .error .TypeError

/-- `_check_teams` -/
def checkTeams (k : Kind) : PyVal → Except PyExc Unit
  | .list teams => if teams.length < 2 then .error .ValueError else checkTeamList k teams
  | _ => .error .TypeError

def checkNumbers : List PyVal → Except PyExc Unit
  | [] => .ok ()
  | x :: xs => if x.isNumber then checkNumbers xs else .error .TypeError

/-- the `if ranks:` / `if scores:` block for one selector (`n` = number of teams) -/
def checkSelector (n : Nat) (v : PyVal) : Except PyExc Unit :=
  if v.truthy then
    match v with
    | .list xs => if xs.length != n then .error .ValueError else checkNumbers xs
    | _ => .error .TypeError
  else .ok ()

def teamCount : PyVal → Nat
  | .list ts => ts.length
  | _ => 0

/-- the validation prefix of `rate` in the order the code performs it -/
def validateRate (k : Kind) (teams ranks scores : PyVal) : Except PyExc Unit :=
  match checkTeams k teams with
  | .error e => .error e
  | .ok () =>
    match checkSelector (teamCount teams) ranks with
    | .error e => .error e
    | .ok () =>
      if ranks.truthy && scores.truthy then .error .ValueError
      else checkSelector (teamCount teams) scores

/-- `predict_*` validate only the teams -/
def validatePredict (k : Kind) (teams : PyVal) : Except PyExc Unit := checkTeams k teams

end OS
