import OSModel.Scalar
/-
  `Scalar Float`: what the driver executes.
  Φ(x) = ½·erfc(−x/√2) with an erfc that keeps *relative* accuracy in the tail
  (positive-term series below 1, continued fraction above); Φ⁻¹ by bisection + Newton on
  that Φ (independent of CPython's AS241 tables).
-/
namespace OS

def sqrtPi : Float := 1.7724538509055160272981674833411451827975494561224
def sqrt2 : Float := 1.4142135623730950488016887242096980785696718753769
def sqrt2Pi : Float := 2.5066282746310005024157652848110452530069867406099

/-- erf(z) for 0 ≤ z < 1: 2/√π · e^{−z²} · Σ 2ⁿ z^{2n+1}/(2n+1)!!  (all terms positive) -/
def erfSeries (z : Float) : Float := Id.run do
  let z2 := z * z
  let mut term := z
  let mut sum := z
  for n in [0:150] do
    term := term * (2.0 * z2) / (2.0 * n.toFloat + 3.0)
    sum := sum + term
  return 2.0 / sqrtPi * Float.exp (-z2) * sum

/-- erfc(z) for z ≥ 1 (depth 200: truncation error ≈ exp(−2z√400) ≤ 4e-18): e^{−z²}/√π · 1/(z + (1/2)/(z + 1/(z + (3/2)/(z + …)))) -/
def erfcCF (z : Float) : Float := Id.run do
  let mut f := z
  for i in [0:200] do
    let k := (200 - i).toFloat
    f := z + (k / 2.0) / f
  return Float.exp (-(z * z)) / (sqrtPi * f)

def erfcF (z : Float) : Float :=
  if z < 0.0 then
    let a := -z
    if a < 1.0 then 1.0 + erfSeries a else 2.0 - erfcCF a
  else
    if z < 1.0 then 1.0 - erfSeries z else erfcCF z

def PhiF (x : Float) : Float := 0.5 * erfcF (-x / sqrt2)

def phiF (x : Float) : Float := Float.exp (x * x / (-2.0)) / sqrt2Pi

/-- Φ⁻¹ on (0,1): bisection on [−40, 40] then Newton polish -/
def PhiInvF (p : Float) : Float := Id.run do
  let mut lo : Float := -40.0
  let mut hi : Float := 40.0
  for _ in [0:70] do
    let mid := (lo + hi) / 2.0
    if PhiF mid < p then lo := mid else hi := mid
  let mut x := (lo + hi) / 2.0
  for _ in [0:3] do
    let d := phiF x
    if d > 1e-300 then x := x - (PhiF x - p) / d
  return x

instance : Scalar Float where
  ofNat n := n.toFloat
  sqrt := Float.sqrt
  exp := Float.exp
  Phi := PhiF
  phi := phiF
  PhiInv := PhiInvF
  decLt a b := inferInstanceAs (Decidable (a < b))
  decLe a b := inferInstanceAs (Decidable (a ≤ b))

end OS
