import OSModel.Scalar
namespace OS
open Scalar

/-- a rating object: `id` stands for the object's identity (and its uuid / name) -/
structure Rating (α : Type) where
  id : Nat
  mu : α
  sigma : α

/-- `…TeamRating` -/
structure TeamAgg (α : Type) where
  mu : α
  sig2 : α
  rank : Nat
  players : List (Rating α)

variable {α : Type} [Scalar α]

/-- `_calculate_team_ratings` for one team -/
def teamAgg (team : List (Rating α)) (rank : Nat) : TeamAgg α :=
  { mu := sumL (team.map (·.mu)),
    sig2 := sumL (team.map (fun p => p.sigma * p.sigma)),
    rank := rank, players := team }

def teamAggs (teams : List (List (Rating α))) (ranks : List Nat) : List (TeamAgg α) :=
  (teams.zip ranks).map (fun tr => teamAgg tr.1 tr.2)

/-- the gamma callbacks the harness can also build on the Python side -/
inductive GammaFn (α : Type) where
  | dflt                -- sqrt(sigma_squared) / c      (the library default)
  | const (k : α)       -- lambda *_: k
  | invK                -- 1 / k
  | rankDep             -- 1 / (rank + 1)
  | sq                  -- sigma_squared / c**2
  | zero
  /-- any pure callback `gamma(c, k, mu, sigma_squared, team, rank)`; `team` is the list of the team's
  players (with their tau-inflated prior values), in the team's order -/
  | fn (f : α → Nat → α → α → List (Rating α) → Nat → α)

/-- the value the callback returns on the arguments `_compute` passes it, in Python's argument order
`gamma(c, k, mu, sigma_squared, team, rank)`; the six tagged members ignore `team` -/
def gammaVal (g : GammaFn α) (c : α) (k : Nat) (mu sig2 : α) (team : List (Rating α)) (rank : Nat) : α :=
  match g with
  | .fn f => f c k mu sig2 team rank
  | .dflt => sqrt sig2 / c
  | .const x => x
  | .invK => ofNat 1 / ofNat k
  | .rankDep => ofNat 1 / ofNat (rank + 1)
  | .sq => sig2 / (c * c)
  | .zero => ofNat 0

/-- the team-reading callback of the harness (gamma tag `"T"`):
`lambda c, k, mu, s2, team, rank: math.sqrt(sum(p.sigma*p.sigma for p in team))/c`
(Python's `sum` starts from int 0 and adds left to right, like `sumL`) -/
def gammaTeamSigma : GammaFn α :=
  .fn (fun c _ _ _ team _ => sqrt (sumL (team.map (fun p => p.sigma * p.sigma))) / c)

inductive Kind where
  | PL | BTF | BTP | TMF | TMP
  deriving DecidableEq, Repr

structure Params (α : Type) where
  beta : α
  kappa : α
  tau : α
  limitSigma : Bool
  gamma : GammaFn α

/-- tail of every `_compute`: the per-player update with the kappa floor -/
def applyTeam (kappa : α) (t : TeamAgg α) (omega delta : α) : List (Rating α) :=
  t.players.map (fun p =>
    let share := p.sigma * p.sigma / t.sig2
    { p with mu := p.mu + share * omega,
             sigma := p.sigma * sqrt (smax (ofNat 1 - share * delta) kappa) })

end OS
