/-
  Python numbers as they can appear in `ranks` / `scores`: int (bool included) or float,
  with Python's exact mixed comparison.
-/
namespace OS

inductive PyNum where
  | int (i : Int)
  | flt (f : Float)

/-- exact value of a finite double as `m * 2^e` -/
def floatDecompose (f : Float) : Int × Int :=
  let bits : Nat := f.toBits.toNat
  let sign : Int := if bits / 2^63 % 2 = 1 then -1 else 1
  let ex : Nat := bits / 2^52 % 2048
  let frac : Nat := bits % 2^52
  if ex = 0 then (sign * Int.ofNat frac, -1074)
  else (sign * Int.ofNat (frac + 2^52), Int.ofNat ex - 1075)

/-- compare an int with a finite float exactly: returns (i < f, i == f) -/
def cmpIntFloat (i : Int) (f : Float) : Bool × Bool :=
  if f.isNaN then (false, false)
  else if f.isInf then (f > 0.0, false)
  else
    let (m, e) := floatDecompose f
    if e ≥ 0 then
      let v := m * (2 : Int) ^ e.toNat
      (decide (i < v), decide (i = v))
    else
      let l := i * (2 : Int) ^ (-e).toNat
      (decide (l < m), decide (l = m))

def PyNum.le : PyNum → PyNum → Bool
  | .int a, .int b => decide (a ≤ b)
  | .flt a, .flt b => a ≤ b
  | .int a, .flt b => let (lt, eq) := cmpIntFloat a b; lt || eq
  | .flt a, .int b =>
    if a.isNaN then false else let (lt, eq) := cmpIntFloat b a; !lt || eq

def PyNum.neg : PyNum → PyNum
  | .int a => .int (-a)
  | .flt a => .flt (-a)

end OS
