import OSProofs.LeagueLemmas
/-!
# C20 (rebuild clause) for a concrete league

`OSModel/League.lean` models a league: a store `player ↦ (mu, sigma)`, games given by player
numbers, `playGame` = load the participants' ratings from the store, `rate`, write the results
back.  This file shows that **rebuilding the players from their stored (mu, sigma) before every
game changes no number, ever**: a league in which every game is rated on fresh objects carrying
other ids (and the results are written back by position) goes through exactly the same stores
as the original league.

Generic over the scalar type `[Scalar α]` — no real numbers, so every equality below holds
bit-for-bit for the `Float` instance the driver runs.  No hypothesis on the comparator `le`,
on `neg`, on the parameters or on the ids chosen for the rebuilt objects (they need not be
injective, and may change from game to game).  The gamma callback must not read the `id` fields of the
players it is handed (`GammaIdInv P.gamma`; `gam_tagged_idInv` for every tagged member,
`gam_teamSigma_idInv` for the team-reading callback, `gam_fn_idInv_of_values` for any callback that
reads the players through their (mu, sigma)).
-/
namespace OS
open Scalar
variable {α ρ : Type} [Scalar α]

/-! ### one game -/

/-- **`playGame` depends on the loaded objects only through their numbers and the player numbers
    used to write back.**  Any team list with the values of the loaded one and the game's player
    numbers as ids *is* the loaded one, so rating it and writing back by id is `playGame`. -/
theorem C20_playGame_of_values_ids (L : Leaves α) (P : Params α) (le : ρ → ρ → Bool) (neg : ρ → ρ)
    (s : Store α) (g : LeagueGame α ρ) (ts' : List (List (Rating α)))
    (hv : valuesOf ts' = valuesOf (loadTeams s g)) (hi : idsOf ts' = g.teams) :
    storeBack s (rate g.kind L P le neg ts' g.outcome g.opts) = playGame L P le neg s g := by
  rw [game_ext ts' (loadTeams s g) (by rw [hi, lg_idsOf_loadTeams]) hv]
  rfl

/-- **Rebuilt objects get identical numbers from `rate`**: rating the loaded teams under any
    other ids `ι (player)` returns the same (mu, sigma) in every slot. -/
theorem C20_rate_load_reid (ι : Nat → Nat) (L : Leaves α) (P : Params α) (hg : GammaIdInv P.gamma) (le : ρ → ρ → Bool)
    (neg : ρ → ρ) (s : Store α) (g : LeagueGame α ρ) :
    valuesOf (rate g.kind L P le neg (reid ι (loadTeams s g)) g.outcome g.opts)
      = valuesOf (rate g.kind L P le neg (loadTeams s g) g.outcome g.opts) :=
  C20_rate_values ι g.kind L P hg le neg (loadTeams s g) g.outcome g.opts

/-- **Writing back by position is writing back by id** when the game is rated on the loaded
    objects and the outcome has one entry per team (the ids of the result are the loaded ids, C02).
    Distinctness of the players is not needed. -/
theorem C20_playGamePos_eq_playGame (L : Leaves α) (P : Params α) (le : ρ → ρ → Bool)
    (neg : ρ → ρ) (s : Store α) (g : LeagueGame α ρ) (hf : g.outcome.fits g.teams.length) :
    playGamePos L P le neg s g (loadTeams s g) = playGame L P le neg s g :=
  playGamePos_load L P le neg s g hf

/-- **A game rated on any objects with the stored numbers** (same nesting; ids arbitrary, shared
    or not) and written back by position gives the store of the game rated on the loaded objects.
    No hypothesis on the game. -/
theorem C20_playGamePos_rebuilt (L : Leaves α) (P : Params α) (hg : GammaIdInv P.gamma) (le : ρ → ρ → Bool) (neg : ρ → ρ)
    (s : Store α) (g : LeagueGame α ρ) (ts' : List (List (Rating α)))
    (hv : valuesOf ts' = valuesOf (loadTeams s g)) :
    playGamePos L P le neg s g ts' = playGamePos L P le neg s g (loadTeams s g) :=
  playGamePos_congr L P hg le neg s g ts' (loadTeams s g) hv

/-- the same with the rebuilt copies `reid ι` of the loaded objects -/
theorem C20_playGamePos_reid (ι : Nat → Nat) (L : Leaves α) (P : Params α) (hg : GammaIdInv P.gamma) (le : ρ → ρ → Bool)
    (neg : ρ → ρ) (s : Store α) (g : LeagueGame α ρ) :
    playGamePos L P le neg s g (reid ι (loadTeams s g))
      = playGamePos L P le neg s g (loadTeams s g) :=
  C20_playGamePos_rebuilt L P hg le neg s g _ (valuesOf_reid ι _)

/-- one game on rebuilt copies, written back by position, is `playGame` -/
theorem C20_playGame_rebuild (ι : Nat → Nat) (L : Leaves α) (P : Params α) (hg : GammaIdInv P.gamma) (le : ρ → ρ → Bool)
    (neg : ρ → ρ) (s : Store α) (g : LeagueGame α ρ) (hf : g.outcome.fits g.teams.length) :
    playGamePos L P le neg s g (reid ι (loadTeams s g)) = playGame L P le neg s g := by
  rw [C20_playGamePos_reid ι L P hg, C20_playGamePos_eq_playGame L P le neg s g hf]

/-! ### a history -/

/-- **General form.**  Let game number `k` of the history be rated on the objects
    `build k s g` — anything that has the numbers stored in `s` for the players of `g`, in the
    nesting of `g` — and written back by position.  If every outcome has one entry per team, the
    final store is the one of the original league.  (Apply it to `gs.take k` for the store after
    `k` games.) -/
theorem C20_league_rebuild_general (L : Leaves α) (P : Params α) (hg : GammaIdInv P.gamma) (le : ρ → ρ → Bool) (neg : ρ → ρ)
    (build : Nat → Store α → LeagueGame α ρ → List (List (Rating α)))
    (s : Store α) (gs : List (LeagueGame α ρ))
    (hb : ∀ k (hk : k < gs.length) (s' : Store α),
      valuesOf (build k s' gs[k]) = valuesOf (loadTeams s' gs[k]))
    (hf : ∀ g ∈ gs, g.outcome.fits g.teams.length) :
    playLeagueWith L P le neg build s gs = playLeague L P le neg s gs := by
  unfold playLeagueWith playLeague
  apply lg_foldl_zipIdx (fun k s g => playGamePos L P le neg s g (build k s g))
  intro i hi s'
  rw [Nat.zero_add, C20_playGamePos_rebuilt L P hg le neg s' gs[i] _ (hb i hi s'),
    C20_playGamePos_eq_playGame L P le neg s' gs[i] (hf _ (List.getElem_mem hi))]

/-- **Rebuilding the players before every game changes nothing.**  For every history of
    well-formed games and every choice `ι k` of new ids for game number `k` (no injectivity
    needed, a different one per game allowed): the league in which every game is rated on
    rebuilt copies `reid (ι k) (loadTeams s g)` of the stored ratings, written back by position,
    ends in the same store — the same (mu, sigma) for every player, as elements of `α` — as the
    original league.  (Only the "one outcome entry per team" half of well-formedness is used.) -/
theorem C20_league_rebuild (L : Leaves α) (P : Params α) (hg : GammaIdInv P.gamma) (le : ρ → ρ → Bool) (neg : ρ → ρ)
    (ι : Nat → Nat → Nat) (s : Store α) (gs : List (LeagueGame α ρ)) (hwf : ∀ g ∈ gs, g.WF) :
    playLeagueWith L P le neg (fun k s g => reid (ι k) (loadTeams s g)) s gs
      = playLeague L P le neg s gs :=
  C20_league_rebuild_general L P hg le neg _ s gs (fun k _ _ => valuesOf_reid (ι k) _)
    (fun g hg => (hwf g hg).2)

/-- the same after every prefix of the history -/
theorem C20_league_rebuild_prefix (L : Leaves α) (P : Params α) (hg : GammaIdInv P.gamma) (le : ρ → ρ → Bool) (neg : ρ → ρ)
    (ι : Nat → Nat → Nat) (s : Store α) (gs : List (LeagueGame α ρ)) (hwf : ∀ g ∈ gs, g.WF) (k : Nat) :
    playLeagueWith L P le neg (fun k s g => reid (ι k) (loadTeams s g)) s (gs.take k)
      = playLeague L P le neg s (gs.take k) :=
  C20_league_rebuild L P hg le neg ι s (gs.take k) (fun g hg => hwf g (List.mem_of_mem_take hg))

/-- **Fresh ids slot by slot** (not even a function of the player): game number `k` is rated on
    `setIds (fresh k) (loadTeams s g)`, `fresh k` any nested list of ids in the nesting of the
    game. -/
theorem C20_league_rebuild_fresh (L : Leaves α) (P : Params α) (hg : GammaIdInv P.gamma) (le : ρ → ρ → Bool) (neg : ρ → ρ)
    (fresh : Nat → List (List Nat)) (s : Store α) (gs : List (LeagueGame α ρ))
    (hsh : ∀ k (hk : k < gs.length), shapeOf (fresh k) = shapeOf gs[k].teams)
    (hf : ∀ g ∈ gs, g.outcome.fits g.teams.length) :
    playLeagueWith L P le neg (fun k s g => setIds (fresh k) (loadTeams s g)) s gs
      = playLeague L P le neg s gs := by
  apply C20_league_rebuild_general L P hg le neg _ s gs _ hf
  intro k hk s'
  apply setIds_values
  rw [hsh k hk, ← lg_idsOf_loadTeams s' gs[k], shapeOf_idsOf]

/-! ### the hypotheses are satisfiable -/

/-- a three-player, two-game history of well-formed games: a 2-vs-1 game with ranks, then a
    free-for-all with scores and a per-call tau -/
example (t : α) :
    ∀ g ∈ ([⟨.PL, [[0, 1], [2]], .ranks [1, 2], ⟨none, none⟩⟩,
            ⟨.TMF, [[2], [0], [1]], .scores [3, 1, 2], ⟨some t, some true⟩⟩] : List (LeagueGame α Nat)),
      g.WF := by
  intro g hg
  simp only [List.mem_cons, List.not_mem_nil, or_false] at hg
  rcases hg with rfl | rfl <;> exact ⟨by dsimp only; decide, by dsimp only; decide⟩

/-- well-formedness is decidable; a game literal over `Float` is checked by evaluation -/
example : (⟨.BTF, [[0, 1], [2]], .omitted, ⟨none, none⟩⟩ : LeagueGame Float Nat).WF := by decide

/-- a player twice in a game, or an outcome of the wrong length, is not well-formed -/
example : ¬ (⟨.BTF, [[0, 1], [0]], .omitted, ⟨none, none⟩⟩ : LeagueGame Float Nat).WF := by decide
example : ¬ (⟨.BTF, [[0, 1], [2]], .ranks [1], ⟨none, none⟩⟩ : LeagueGame Float Nat).WF := by decide

/-- `C20_league_rebuild` instantiated: that history, ids shifted by `100·(k+1)` before game `k` -/
example (L : Leaves α) (P : Params α) (hg : GammaIdInv P.gamma) (s : Store α) (t : α) :
    playLeagueWith L P leNat id (fun k s g => reid (fun p => p + 100 * (k + 1)) (loadTeams s g)) s
        [⟨.PL, [[0, 1], [2]], .ranks [1, 2], ⟨none, none⟩⟩,
         ⟨.TMF, [[2], [0], [1]], .scores [3, 1, 2], ⟨some t, some true⟩⟩]
      = playLeague L P leNat id s
        [⟨.PL, [[0, 1], [2]], .ranks [1, 2], ⟨none, none⟩⟩,
         ⟨.TMF, [[2], [0], [1]], .scores [3, 1, 2], ⟨some t, some true⟩⟩] := by
  apply C20_league_rebuild L P hg leNat id (fun k p => p + 100 * (k + 1))
  intro g hg
  simp only [List.mem_cons, List.not_mem_nil, or_false] at hg
  rcases hg with rfl | rfl <;> exact ⟨by dsimp only; decide, by dsimp only; decide⟩

end OS
