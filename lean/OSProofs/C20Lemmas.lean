import OSModel
import OSProofs.SortLemmas
import OSProofs.Props.C02
import OSProofs.Props.C20
import OSProofs.GammaLemmas
/-!
# Helper lemmas for C20b (`rate` reads a rating only through its (mu, sigma))

Generic over the scalar type; nothing here looks at a number.
-/
namespace OS
open Scalar
variable {α ρ : Type} [Scalar α]

/-- replace the id of one player -/
def reidP (f : Nat → Nat) (p : Rating α) : Rating α := { p with id := f p.id }

/-- replace the ids of one team -/
def reidT (f : Nat → Nat) (t : List (Rating α)) : List (Rating α) :=
  t.map (fun p => { p with id := f p.id })

/-- replace the ids of the players carried by a team aggregate -/
def reidAgg (f : Nat → Nat) (t : TeamAgg α) : TeamAgg α :=
  { t with players := t.players.map (fun p => { p with id := f p.id }) }

omit [Scalar α] in
theorem reid_eq_map (f : Nat → Nat) (teams : List (List (Rating α))) :
    reid f teams = teams.map (reidT f) := rfl

omit [Scalar α] in
@[simp] theorem reidAgg_mu (f : Nat → Nat) (t : TeamAgg α) : (reidAgg f t).mu = t.mu := rfl
omit [Scalar α] in
@[simp] theorem reidAgg_sig2 (f : Nat → Nat) (t : TeamAgg α) : (reidAgg f t).sig2 = t.sig2 := rfl
omit [Scalar α] in
@[simp] theorem reidAgg_rank (f : Nat → Nat) (t : TeamAgg α) : (reidAgg f t).rank = t.rank := rfl

theorem teamAgg_reidT (f : Nat → Nat) (t : List (Rating α)) (rk : Nat) :
    teamAgg (reidT f t) rk = reidAgg f (teamAgg t rk) := by
  simp [teamAgg, reidT, reidAgg, List.map_map, Function.comp_def]

theorem teamAggs_reid (f : Nat → Nat) (teams : List (List (Rating α))) (ds : List Nat) :
    teamAggs (reid f teams) ds = (teamAggs teams ds).map (reidAgg f) := by
  simp only [teamAggs, reid_eq_map, List.zip_map_left, List.map_map]
  apply List.map_congr_left
  intro x _
  exact teamAgg_reidT f x.1 x.2

theorem applyTeam_reidAgg (f : Nat → Nat) (kappa : α) (t : TeamAgg α) (om de : α) :
    applyTeam kappa (reidAgg f t) om de = reidT f (applyTeam kappa t om de) := by
  simp [applyTeam, reidAgg, reidT, List.map_map, Function.comp_def]

/-! ### the (omega, delta) computation never looks at `players` -/

theorem plC_reid (f : Nat → Nat) (beta : α) (ts : List (TeamAgg α)) :
    plC beta (ts.map (reidAgg f)) = plC beta ts := by
  simp [plC, List.map_map, Function.comp_def]

theorem plSumQ_reid (f : Nat → Nat) (ts : List (TeamAgg α)) (c : α) :
    plSumQ (ts.map (reidAgg f)) c = plSumQ ts c := by
  simp only [plSumQ, List.map_map, List.filter_map, Function.comp_def, reidAgg_mu, reidAgg_rank]
  rfl

omit [Scalar α] in
theorem plA_reid (f : Nat → Nat) (ts : List (TeamAgg α)) :
    plA (ts.map (reidAgg f)) = plA ts := by
  simp only [plA, List.map_map, List.filter_map, Function.comp_def, reidAgg_rank, List.length_map]
  rfl

/-- the gamma call for a team whose players' ids were replaced, for an id-invariant callback -/
theorem gam_reidAgg_gamma (f : Nat → Nat) (g : GammaFn α) (hg : GammaIdInv g) (c : α) (n : Nat)
    (t : TeamAgg α) :
    gammaVal g c n t.mu t.sig2 (t.players.map (fun p => { p with id := f p.id })) t.rank
      = gammaVal g c n t.mu t.sig2 t.players t.rank :=
  hg f c n t.mu t.sig2 t.players t.rank

theorem plOmegaDelta_reid (f : Nat → Nat) (g : GammaFn α) (hg : GammaIdInv g) (ts : List (TeamAgg α))
    (c : α) (sq : List α) (a : List Nat) (i : Nat) (ti : TeamAgg α) :
    plOmegaDelta g (ts.map (reidAgg f)) c sq a i (reidAgg f ti) = plOmegaDelta g ts c sq a i ti := by
  simp only [plOmegaDelta, List.zip_map_left, List.zipIdx_map, List.map_map, List.filter_map,
    Function.comp_def, Prod.map, reidAgg_mu, reidAgg_rank, reidAgg_sig2, List.length_map, id]
  simp only [reidAgg, gam_reidAgg_gamma f g hg]
  rfl

theorem btPair_reid (f : Nat → Nat) (beta : α) (g : GammaFn α) (hg : GammaIdInv g) (n : Nat)
    (ti tq : TeamAgg α) :
    btPair beta g n (reidAgg f ti) (reidAgg f tq) = btPair beta g n ti tq := by
  simp only [btPair, reidAgg, gam_reidAgg_gamma f g hg]
  rfl

theorem tmPair_reid (f : Nat → Nat) (L : Leaves α) (cmul beta kappa : α) (g : GammaFn α)
    (hg : GammaIdInv g) (n : Nat) (ti tq : TeamAgg α) :
    tmPair L cmul beta kappa g n (reidAgg f ti) (reidAgg f tq) = tmPair L cmul beta kappa g n ti tq := by
  simp only [tmPair, reidAgg, gam_reidAgg_gamma f g hg]

theorem othersOf_map {β γ : Type} (h : β → γ) (ts : List β) (i : Nat) :
    othersOf (ts.map h) i = (othersOf ts i).map h := by
  simp [othersOf, List.zipIdx_map, List.filter_map, List.map_map, Function.comp_def]

theorem neighboursOf_map {β γ : Type} (h : β → γ) (ts : List β) (i : Nat) :
    neighboursOf (ts.map h) i = (neighboursOf ts i).map h := by
  unfold neighboursOf
  split <;> simp [List.getElem?_map, Option.toList_map]

/-- the limit_sigma clamp of one slot -/
def c20_clampP (pq : Rating α × Rating α) : Rating α :=
  if pq.1.sigma ≤ pq.2.sigma then pq.1 else { pq.1 with sigma := pq.2.sigma }

theorem clampTeams_eq (orig res : List (List (Rating α))) :
    clampTeams orig res = (res.zip orig).map (fun tr => (tr.1.zip tr.2).map c20_clampP) := rfl

theorem clampP_reid (f : Nat → Nat) (p q : Rating α) :
    c20_clampP ((({ p with id := f p.id } : Rating α)), ({ q with id := f q.id } : Rating α))
      = ({ c20_clampP (p, q) with id := f (c20_clampP (p, q)).id } : Rating α) := by
  unfold c20_clampP
  split <;> rfl

theorem clampTeam_reid (f : Nat → Nat) (a b : List (Rating α)) :
    ((reidT f a).zip (reidT f b)).map c20_clampP = reidT f ((a.zip b).map c20_clampP) := by
  simp only [reidT, List.zip_map, List.map_map]
  apply List.map_congr_left
  intro x _
  exact clampP_reid f x.1 x.2

/-! ### ids, values and nesting of a game -/

/-- slot-wise replacement of the ids by an arbitrary nested list of ids -/
def setIds (ids : List (List Nat)) (teams : List (List (Rating α))) : List (List (Rating α)) :=
  List.zipWith (fun is t => List.zipWith (fun i (p : Rating α) => { p with id := i }) is t) ids teams

/-- the nesting of a game: the team sizes -/
def shapeOf {β : Type} (x : List (List β)) : List Nat := x.map List.length

omit [Scalar α] in
theorem shapeOf_idsOf (x : List (List (Rating α))) : shapeOf (idsOf x) = shapeOf x := by
  simp [shapeOf, idsOf, List.map_map, Function.comp_def]

omit [Scalar α] in
theorem shapeOf_valuesOf (x : List (List (Rating α))) : shapeOf (valuesOf x) = shapeOf x := by
  simp [shapeOf, valuesOf, List.map_map, Function.comp_def]

omit [Scalar α] in
theorem valuesOf_reid (f : Nat → Nat) (teams : List (List (Rating α))) :
    valuesOf (reid f teams) = valuesOf teams := by
  simp [valuesOf, reid, List.map_map, Function.comp_def]

omit [Scalar α] in
theorem idsOf_reid (f : Nat → Nat) (teams : List (List (Rating α))) :
    idsOf (reid f teams) = (idsOf teams).map (·.map f) := by
  simp [idsOf, reid, List.map_map, Function.comp_def]

omit [Scalar α] in
/-- forgetting the ids (all set to 0) is a function of the values -/
theorem reid_const_eq (teams : List (List (Rating α))) :
    reid (fun _ => 0) teams
      = (valuesOf teams).map (·.map (fun v => ({ id := 0, mu := v.1, sigma := v.2 } : Rating α))) := by
  simp [valuesOf, reid, List.map_map, Function.comp_def]

omit [Scalar α] in
theorem setIdsT_ids (is : List Nat) (t : List (Rating α)) (h : is.length = t.length) :
    (List.zipWith (fun i (p : Rating α) => ({ p with id := i } : Rating α)) is t).map (·.id) = is := by
  induction is generalizing t with
  | nil => simp
  | cons i is ih =>
    cases t with
    | nil => simp at h
    | cons p t => simp [ih t (by simpa using h)]

omit [Scalar α] in
theorem setIdsT_values (is : List Nat) (t : List (Rating α)) (h : is.length = t.length) :
    (List.zipWith (fun i (p : Rating α) => ({ p with id := i } : Rating α)) is t).map
        (fun p => (p.mu, p.sigma)) = t.map (fun p => (p.mu, p.sigma)) := by
  induction is generalizing t with
  | nil => cases t with
    | nil => rfl
    | cons p t => simp at h
  | cons i is ih =>
    cases t with
    | nil => simp at h
    | cons p t => simp [ih t (by simpa using h)]

omit [Scalar α] in
/-- after `setIds ids`, the ids are `ids` (when `ids` has the nesting of the game) -/
theorem setIds_ids (ids : List (List Nat)) (x : List (List (Rating α)))
    (h : shapeOf ids = shapeOf x) : idsOf (setIds ids x) = ids := by
  induction ids generalizing x with
  | nil => simp [setIds, idsOf]
  | cons is ids ih =>
    cases x with
    | nil => simp [shapeOf] at h
    | cons t x =>
      simp only [shapeOf, List.map_cons, List.cons.injEq] at h
      have := ih x h.2
      simp only [setIds, idsOf] at this
      simp only [setIds, idsOf, List.zipWith_cons_cons, List.map_cons, this, setIdsT_ids is t h.1]

omit [Scalar α] in
/-- `setIds` changes no number (when `ids` has the nesting of the game) -/
theorem setIds_values (ids : List (List Nat)) (x : List (List (Rating α)))
    (h : shapeOf ids = shapeOf x) : valuesOf (setIds ids x) = valuesOf x := by
  induction ids generalizing x with
  | nil => cases x with
    | nil => rfl
    | cons t x => simp [shapeOf] at h
  | cons is ids ih =>
    cases x with
    | nil => simp [shapeOf] at h
    | cons t x =>
      simp only [shapeOf, List.map_cons, List.cons.injEq] at h
      have := ih x h.2
      simp only [setIds, valuesOf] at this
      simp only [setIds, valuesOf, List.zipWith_cons_cons, List.map_cons, this,
        setIdsT_values is t h.1]

omit [Scalar α] in
theorem team_ext (a b : List (Rating α)) (hi : a.map (·.id) = b.map (·.id))
    (hv : a.map (fun p => (p.mu, p.sigma)) = b.map (fun p => (p.mu, p.sigma))) : a = b := by
  induction a generalizing b with
  | nil => cases b with
    | nil => rfl
    | cons q b => simp at hi
  | cons p a ih =>
    cases b with
    | nil => simp at hi
    | cons q b =>
      simp only [List.map_cons, List.cons.injEq, Prod.mk.injEq] at hi hv
      rw [ih b hi.2 hv.2]
      obtain ⟨pi, pm, ps⟩ := p
      obtain ⟨qi, qm, qs⟩ := q
      simp only at hi hv
      rw [hi.1, hv.1.1, hv.1.2]

omit [Scalar α] in
/-- a game is determined by its ids and its values -/
theorem game_ext (a b : List (List (Rating α))) (hi : idsOf a = idsOf b)
    (hv : valuesOf a = valuesOf b) : a = b := by
  induction a generalizing b with
  | nil => cases b with
    | nil => rfl
    | cons q b => simp [idsOf] at hi
  | cons p a ih =>
    cases b with
    | nil => simp [idsOf] at hi
    | cons q b =>
      simp only [idsOf, valuesOf, List.map_cons, List.cons.injEq] at hi hv
      rw [ih b hi.2 hv.2, team_ext p q hi.1 hv.1]

end OS
