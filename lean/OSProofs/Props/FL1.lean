import OSProofs.FL1Lemmas

/-!
# FL1 — C05 / C06 hold *exactly* in every arithmetic with monotone rounding

Every theorem here is about the model of `OSModel` over an arbitrary scalar type `α` that satisfies the
order laws `MonoArith α` (`OSProofs/MonoArith.lean`): the reals, and "compute exactly, then round" for every
monotone, odd, idempotent rounding that fixes the natural numbers (`OSProofs/MonoArithInst.lean`).  No field
axiom is used, so the inequalities are statements about the numbers the library *returns*, not about
the exact values they approximate.

* `FL_share_nonneg`, `FL_applyTeam_sigma_le`, `FL_applyTeam_mu_ge`, `FL_applyTeam_mu_le` — the per-player tail;
* `FL_delta_nonneg` (`_BT`, `_PL`, and the conditional `_TM`) — every `δ` is `≥ 0`;
* `FL_C06_compute`, `FL_C06_clamp`, `FL_C06_rateCore` — no posterior sigma above the (inflated) prior,
  slot by slot, through the sort / compute / unsort round trip and the limit_sigma clamp;
* `FL_C05_sole_first` / `FL_C05_sole_last` (`_BT`, `_PL`), `FL_C05_compute_sole_first` / `_last` — a sole
  winner's `ω` is `≥ 0` and none of its members loses mu; a sole loser's `ω` is `≤ 0` and none of its
  members gains mu.

Hypotheses, and why they are there:

* `GammaNonneg g` — the gamma callback is `≥ 0` for `c > 0`, `σ² ≥ 0`, at least one team;
* `DivisorsPos K P ts` — the divisors the code computes are `> 0`.  Positivity of a *product* (`c * c`)
  or of an `exp` cannot follow from order laws (both underflow to `0` in doubles), so it is assumed;
  everything that can be derived is derived (`DivisorsPosRest`: with positive team variances nothing is
  left to assume for Bradley–Terry, and only `0 < c * c` and `0 < exp(μ_t / c)` for Plackett–Luce);
* team variances `> 0` where a theorem divides by them (`share = σ² / Σσ²`): a `sumL` of squares is
  `≥ 0` by the laws (`FL_teamAggs_sig2_nonneg`), but `> 0` fails when every square underflows;
* `LeavesNonneg L` for the two Thurstone–Mosteller models only.
-/

namespace OS
open Scalar
variable {α : Type} [Scalar α]

local notation "𝟘" => (Scalar.ofNat 0)
local notation "𝟙" => (Scalar.ofNat 1)

section
variable (M : MonoArith α)
include M

/-! ### the per-player tail -/

/-- **The share is non-negative.**  In `applyTeam`, a player's share `σ·σ / Σσ²` of the team variance is
`≥ 0` as computed, whenever the computed team variance is `> 0`. -/
theorem FL_share_nonneg (t : TeamAgg α) (hs : 𝟘 < t.sig2) (p : Rating α) :
    𝟘 ≤ p.sigma * p.sigma / t.sig2 :=
  M.fl1_share_nonneg _ _ hs

/-- **applyTeam never raises a sigma.**  If the players' sigmas are `≥ 0`, the team variance is `> 0`,
`δ ≥ 0` and `κ ≤ 1`, then slot by slot the new rating keeps its id, its sigma is `≤` the old sigma of the
same slot — *exactly*: `σ·sqrt(max(1 − share·δ, κ)) ≤ σ` survives every monotone rounding — and `≥ 0`. -/
theorem FL_applyTeam_sigma_le {kappa omega delta : α} (t : TeamAgg α)
    (hp : ∀ p ∈ t.players, 𝟘 ≤ p.sigma) (hs : 𝟘 < t.sig2) (hd : 𝟘 ≤ delta) (hk : kappa ≤ 𝟙) :
    List.Forall₂ (fun p p' => p'.id = p.id ∧ p'.sigma ≤ p.sigma ∧ 𝟘 ≤ p'.sigma)
      t.players (applyTeam kappa t omega delta) := by
  rw [fl1_applyTeam_eq_map, List.forall₂_map_right_iff, List.forall₂_same]
  intro p hpm
  exact ⟨rfl, M.fl1_upd_sigma_le p (hp p hpm) hs hd hk, M.fl1_upd_sigma_nonneg p (hp p hpm)⟩

/-- **ω ≥ 0 ⟹ no member's mu decreases** (team variance `> 0`). -/
theorem FL_applyTeam_mu_ge {kappa omega delta : α} (t : TeamAgg α) (hs : 𝟘 < t.sig2)
    (ho : 𝟘 ≤ omega) :
    List.Forall₂ (fun p p' => p'.id = p.id ∧ p.mu ≤ p'.mu)
      t.players (applyTeam kappa t omega delta) := by
  rw [fl1_applyTeam_eq_map, List.forall₂_map_right_iff, List.forall₂_same]
  intro p _
  exact ⟨rfl, M.fl1_upd_mu_ge p hs ho⟩

/-- **ω ≤ 0 ⟹ no member's mu increases** (team variance `> 0`). -/
theorem FL_applyTeam_mu_le {kappa omega delta : α} (t : TeamAgg α) (hs : 𝟘 < t.sig2)
    (ho : omega ≤ 𝟘) :
    List.Forall₂ (fun p p' => p'.id = p.id ∧ p'.mu ≤ p.mu)
      t.players (applyTeam kappa t omega delta) := by
  rw [fl1_applyTeam_eq_map, List.forall₂_map_right_iff, List.forall₂_same]
  intro p _
  exact ⟨rfl, M.fl1_upd_mu_le p hs ho⟩

/-! ### team variances -/

/-- **Team variances are `≥ 0`**: derived (a `sumL` of squares), not assumed. -/
theorem FL_teamAggs_sig2_nonneg (teams : List (List (Rating α))) (dense : List Nat) :
    ∀ t ∈ teamAggs teams dense, 𝟘 ≤ t.sig2 := by
  intro t ht
  obtain ⟨S, _, r, rfl⟩ := fl1_mem_teamAggs ht
  exact M.fl1_teamAgg_sig2_nonneg S r

/-! ### δ ≥ 0 -/

/-- **δ ≥ 0, all five models.**  Every `δ` that `omegaDelta K L P ts` produces is `≥ 0`, given a
non-negative gamma, non-negative team variances and positive computed divisors (and non-negative leaves
for the two Thurstone–Mosteller models). -/
theorem FL_delta_nonneg (K : Kind) (L : Leaves α) (P : Params α) (ts : List (TeamAgg α))
    (hL : K = .TMF ∨ K = .TMP → LeavesNonneg L) (hg : GammaNonneg P.gamma)
    (hts : ∀ t ∈ ts, 𝟘 ≤ t.sig2) (hd : DivisorsPos K P ts) :
    ∀ od ∈ omegaDelta K L P ts, 𝟘 ≤ od.2 := by
  intro od hod
  obtain ⟨i, hi⟩ := List.mem_iff_getElem?.1 hod
  obtain ⟨ti, h1, rfl⟩ := fl1_omegaDelta_getElem?_inv hi
  exact M.fl1_od_snd_nonneg K L P ts hL hg hts hd i ti h1

/-- **δ ≥ 0, Bradley–Terry (full and partial pairing).**  Key step: `1 + exp(·) ≥ 1`, so
`p = 1/(1+e) ∈ [0,1]` and `1 − p ≥ 0`, as computed. -/
theorem FL_delta_nonneg_BT (K : Kind) (hK : K = .BTF ∨ K = .BTP) (L : Leaves α) (P : Params α)
    (ts : List (TeamAgg α)) (hg : GammaNonneg P.gamma) (hts : ∀ t ∈ ts, 𝟘 ≤ t.sig2)
    (hd : DivisorsPos K P ts) : ∀ od ∈ omegaDelta K L P ts, 𝟘 ≤ od.2 :=
  FL_delta_nonneg M K L P ts (by rintro (h | h) <;> rcases hK with h' | h' <;> simp [h] at h') hg hts hd

/-- **δ ≥ 0, Plackett–Luce.**  Key step: `sum_q[q]` contains the summand `exp(θ_i/c)` whenever
`rank_q ≤ rank_i`, so `p_iq = e_i / sum_q[q] ≤ 1`, as computed. -/
theorem FL_delta_nonneg_PL (L : Leaves α) (P : Params α)
    (ts : List (TeamAgg α)) (hg : GammaNonneg P.gamma) (hts : ∀ t ∈ ts, 𝟘 ≤ t.sig2)
    (hd : DivisorsPos .PL P ts) : ∀ od ∈ omegaDelta .PL L P ts, 𝟘 ≤ od.2 :=
  FL_delta_nonneg M .PL L P ts (by rintro (h | h) <;> cases h) hg hts hd

/-- **δ ≥ 0, Thurstone–Mosteller** (conditional on the sign of the leaves). -/
theorem FL_delta_nonneg_TM (K : Kind) (L : Leaves α) (hL : LeavesNonneg L) (P : Params α)
    (ts : List (TeamAgg α)) (hg : GammaNonneg P.gamma) (hts : ∀ t ∈ ts, 𝟘 ≤ t.sig2)
    (hd : DivisorsPos K P ts) : ∀ od ∈ omegaDelta K L P ts, 𝟘 ≤ od.2 :=
  FL_delta_nonneg M K L P ts (fun _ => hL) hg hts hd

/-- with positive team variances: Bradley–Terry needs no divisor hypothesis at all, Plackett–Luce only
`0 < c * c` and `0 < exp(μ_t / c)` -/
theorem FL_divisorsPos_of_var_pos (K : Kind) (P : Params α) (ts : List (TeamAgg α))
    (hv : ∀ t ∈ ts, 𝟘 < t.sig2) (hr : DivisorsPosRest K P ts) : DivisorsPos K P ts :=
  M.fl1_divisorsPos_of_var_pos K P ts hv hr

/-! ### C06: `compute` -/

/-- what C06 says about one slot of `compute`: `p` the rating passed in, `p'` the rating returned -/
def FLSlot (p p' : Rating α) : Prop :=
  p'.id = p.id ∧ p'.sigma ≤ p.sigma ∧ 𝟘 ≤ p'.sigma

omit M in
theorem fl1_mem_teamAggs_var {teams : List (List (Rating α))} {dense : List Nat}
    (hv : ∀ T ∈ teams, 𝟘 < sumL (T.map (fun p => p.sigma * p.sigma))) :
    ∀ t ∈ teamAggs teams dense, 𝟘 < t.sig2 := by
  intro t ht
  obtain ⟨S, hS, r, rfl⟩ := fl1_mem_teamAggs ht
  exact hv S hS

/-- **C06 for `compute`, slot by slot, all five models.**  For a game in which every sigma is `≥ 0`, every
computed team variance is `> 0`, `κ ≤ 1`, gamma is non-negative and the remaining computed divisors are
positive (nothing for Bradley–Terry; `0 < c*c`, `0 < exp(μ_t/c)` for Plackett–Luce): the result has the shape
of the input and every posterior sigma is `≤` the prior sigma of the same slot, and `≥ 0` — exactly, in
every monotone arithmetic. -/
theorem FL_C06_compute (K : Kind) (L : Leaves α) (P : Params α)
    (teams : List (List (Rating α))) (dense : List Nat) (hlen : teams.length ≤ dense.length)
    (hL : K = .TMF ∨ K = .TMP → LeavesNonneg L)
    (hsig : ∀ T ∈ teams, ∀ p ∈ T, 𝟘 ≤ p.sigma)
    (hv : ∀ T ∈ teams, 𝟘 < sumL (T.map (fun p => p.sigma * p.sigma)))
    (hk : P.kappa ≤ 𝟙) (hg : GammaNonneg P.gamma)
    (hd : DivisorsPosRest K P (teamAggs teams dense)) :
    List.Forall₂ (List.Forall₂ FLSlot) teams (compute K L P teams dense) := by
  have hvar := fl1_mem_teamAggs_var (dense := dense) hv
  have hdp := M.fl1_divisorsPos_of_var_pos K P _ hvar hd
  apply fl1_compute_forall₂ K L P teams dense hlen
  intro i T d hT hdd
  have hTm : T ∈ teams := List.mem_of_getElem? hT
  have hi := fl1_teamAggs_getElem? teams dense i hT hdd
  exact FL_applyTeam_sigma_le M (teamAgg T d) (hsig T hTm) (hv T hTm)
    (M.fl1_od_snd_nonneg K L P _ hL hg (FL_teamAggs_sig2_nonneg M teams dense) hdp i _ hi) hk

/-! ### C06: the clamp -/

/-- **The limit_sigma clamp.**  Whenever slot `[i][j]` of `clampTeams orig res` exists, so do slots `[i][j]`
of `orig` (rating `p`) and of `res` (rating `q`); the clamped rating has the id and the mu of `q`, its sigma
is `≤` the sigma of `p` and `≤` the sigma of `q`, and is one of the two.  Needs only totality and
reflexivity of `≤`. -/
theorem FL_C06_clamp (orig res : List (List (Rating α))) :
    ∀ (i j : Nat) (r : Rating α), ((clampTeams orig res)[i]?).bind (·[j]?) = some r →
      ∃ p q, (orig[i]?).bind (·[j]?) = some p ∧ (res[i]?).bind (·[j]?) = some q ∧
        r.id = q.id ∧ r.mu = q.mu ∧ r.sigma ≤ p.sigma ∧ r.sigma ≤ q.sigma
        ∧ (r.sigma = q.sigma ∨ r.sigma = p.sigma) := by
  intro i j r h
  rw [fl1_clampTeams_eq_zipWith, List.getElem?_zipWith] at h
  cases hR : res[i]? with
  | none => simp [hR] at h
  | some R =>
    cases hO : orig[i]? with
    | none => simp [hR, hO] at h
    | some O =>
      simp only [hR, hO, Option.bind_some, List.getElem?_zipWith] at h
      cases hq : R[j]? with
      | none => simp [hq] at h
      | some q =>
        cases hp : O[j]? with
        | none => simp [hq, hp] at h
        | some p =>
          simp only [hq, hp, Option.some.injEq] at h
          subst h
          refine ⟨p, q, by simp [hp], by simp [hq], by simp, by simp,
            M.fl1_clampP_sigma_le_orig q p, M.fl1_clampP_sigma_le_res q p, ?_⟩
          rcases fl1_clampP_sigma_cases q p with ⟨_, e⟩ | ⟨_, e⟩
          · exact Or.inl e
          · exact Or.inr e

/-- the clamp on lists of the same shape, as a slot-wise relation -/
theorem FL_C06_clamp_forall₂ {A : Rating α → Rating α → Prop} {orig res : List (List (Rating α))}
    (h : List.Forall₂ (List.Forall₂ A) orig res) :
    List.Forall₂ (List.Forall₂ (fun p r => ∃ q, A p q ∧ r.id = q.id ∧ r.mu = q.mu
        ∧ r.sigma ≤ p.sigma ∧ r.sigma ≤ q.sigma)) orig (clampTeams orig res) := by
  rw [fl1_clampTeams_eq_zipWith]
  refine (fl1_forall₂_zipWith_right (List.zipWith fl1_clampP) h).imp ?_
  rintro S T' ⟨T, hST, rfl⟩
  refine (fl1_forall₂_zipWith_right fl1_clampP hST).imp ?_
  rintro p r ⟨q, hpq, rfl⟩
  exact ⟨q, hpq, by simp, by simp, M.fl1_clampP_sigma_le_orig q p, M.fl1_clampP_sigma_le_res q p⟩

end

/-! ### C06: `rateCore` -/

/-- the result of `rateCore` before the limit_sigma clamp -/
def FL_rawResult {ρ : Type} (K : Kind) (L : Leaves α) (P : Params α) (le : ρ → ρ → Bool)
    (teams : List (List (Rating α))) (ranks : Option (List ρ)) (o : CallOpts α) :
    List (List (Rating α)) :=
  match ranks with
  | none => compute K L P (inflate (resolveTau P o) teams)
      (List.range (inflate (resolveTau P o) teams).length)
  | some r =>
    (unwind leNat (unwind le r (inflate (resolveTau P o) teams)).2
      (compute K L P (unwind le r (inflate (resolveTau P o) teams)).1
        (denseRanks (fun a b => !le b a) (sortedKeys le r)))).1

theorem FL_rateCore_eq_clamp {ρ : Type} (K : Kind) (L : Leaves α) (P : Params α)
    (le : ρ → ρ → Bool) (teams : List (List (Rating α))) (ranks : Option (List ρ))
    (o : CallOpts α) :
    rateCore K L P le teams ranks o =
      if resolveLimit P o then clampTeams teams (FL_rawResult K L P le teams ranks o)
      else FL_rawResult K L P le teams ranks o := by
  cases ranks <;> rfl

/-- the team aggregates `rateCore` hands to `omegaDelta`: those of the tau-inflated teams, in the caller's
order with ranks `0, 1, 2, …` when no ranks are given, in rank-sorted order with the dense ranks otherwise.
(The divisor hypotheses have to be about this list: without associativity the computed `c` of
Plackett–Luce depends on the order of summation.) -/
def FL_rateAggs {ρ : Type} (P : Params α) (le : ρ → ρ → Bool)
    (teams : List (List (Rating α))) (ranks : Option (List ρ)) (o : CallOpts α) :
    List (TeamAgg α) :=
  match ranks with
  | none => teamAggs (inflate (resolveTau P o) teams)
      (List.range (inflate (resolveTau P o) teams).length)
  | some r => teamAggs (unwind le r (inflate (resolveTau P o) teams)).1
      (denseRanks (fun a b => !le b a) (sortedKeys le r))

/-- what C06 says about one slot of `rateCore`: `p` the rating passed in, `p'` the rating returned,
`τ` and `limit_sigma` as resolved for the call -/
def FLSlotRate (tau : α) (limit : Bool) (p p' : Rating α) : Prop :=
  p'.id = p.id
  ∧ p'.sigma ≤ sqrt (p.sigma * p.sigma + tau * tau)
  ∧ (limit = true → p'.sigma ≤ p.sigma)
  ∧ (limit = false → 𝟘 ≤ p'.sigma)
  ∧ (𝟘 ≤ p.sigma → 𝟘 ≤ p'.sigma)

section
variable (M : MonoArith α)
include M

/-- before the clamp: slot by slot, the sigma returned is `≤` the tau-inflated sigma, and `≥ 0` -/
theorem FL_C06_rawResult {ρ : Type} (K : Kind) (L : Leaves α) (P : Params α) (le : ρ → ρ → Bool)
    (teams : List (List (Rating α))) (ranks : Option (List ρ)) (o : CallOpts α)
    (hL : K = .TMF ∨ K = .TMP → LeavesNonneg L)
    (hv : ∀ T ∈ inflate (resolveTau P o) teams, 𝟘 < sumL (T.map (fun p => p.sigma * p.sigma)))
    (hk : P.kappa ≤ 𝟙) (hg : GammaNonneg P.gamma)
    (hd : DivisorsPosRest K P (FL_rateAggs P le teams ranks o))
    (hr : ∀ r, ranks = some r → r.length = teams.length) :
    List.Forall₂ (List.Forall₂ FLSlot) (inflate (resolveTau P o) teams)
      (FL_rawResult K L P le teams ranks o) := by
  have hsig : ∀ T ∈ inflate (resolveTau P o) teams, ∀ p ∈ T, 𝟘 ≤ p.sigma := by
    intro T hT p hp
    rw [fl1_inflate_eq_map] at hT
    obtain ⟨T₀, _, rfl⟩ := List.mem_map.1 hT
    obtain ⟨p₀, _, rfl⟩ := List.mem_map.1 hp
    exact M.sqrt_nonneg' _
  have hlen : (inflate (resolveTau P o) teams).length = teams.length := by simp [inflate]
  cases ranks with
  | none =>
    exact FL_C06_compute M K L P _ _ (by simp) hL hsig hv hk hg hd
  | some r =>
    have hr' : (inflate (resolveTau P o) teams).length ≤ r.length := by
      rw [hlen, hr r rfl]
    simp only [FL_rawResult]
    apply fl1_unwind_forall₂ le r _ hr'
    apply FL_C06_compute M K L P _ _ _ hL _ _ hk hg hd
    · rw [fl1_unwind_fst_length le r _ hr', denseRanks_length, sortedKeys_length]; exact hr'
    · intro T hT; exact hsig T (fl1_mem_unwind_fst _ _ _ hT)
    · intro T hT; exact hv T (fl1_mem_unwind_fst _ _ _ hT)

/-- **C06 for `rateCore`, slot by slot, all five models.**  Ranks omitted or as many ranks as teams; every
computed variance of a tau-inflated team `> 0`; `κ ≤ 1`; gamma non-negative; the remaining computed
divisors positive (nothing for Bradley–Terry).  Then the result has the shape of the input and the rating
`p'` returned in slot `[i][j]` for the rating `p` passed in that slot has the same id and

* `σ' ≤ sqrt(σ·σ + τ·τ)` — the tau-inflated prior, exactly as the library computes it;
* `σ' ≤ σ` if limit_sigma is on;
* `0 ≤ σ'` if limit_sigma is off, or if `0 ≤ σ`.

No hypothesis on the caller's sigmas is needed: the inflated sigma is a `sqrt`. -/
theorem FL_C06_rateCore {ρ : Type} (K : Kind) (L : Leaves α) (P : Params α) (le : ρ → ρ → Bool)
    (teams : List (List (Rating α))) (ranks : Option (List ρ)) (o : CallOpts α)
    (hL : K = .TMF ∨ K = .TMP → LeavesNonneg L)
    (hv : ∀ T ∈ inflate (resolveTau P o) teams, 𝟘 < sumL (T.map (fun p => p.sigma * p.sigma)))
    (hk : P.kappa ≤ 𝟙) (hg : GammaNonneg P.gamma)
    (hd : DivisorsPosRest K P (FL_rateAggs P le teams ranks o))
    (hr : ∀ r, ranks = some r → r.length = teams.length) :
    List.Forall₂ (List.Forall₂ (FLSlotRate (resolveTau P o) (resolveLimit P o)))
      teams (rateCore K L P le teams ranks o) := by
  have hraw := FL_C06_rawResult M K L P le teams ranks o hL hv hk hg hd hr
  rw [fl1_inflate_eq_map, List.forall₂_map_left_iff] at hraw
  have hraw' : List.Forall₂ (List.Forall₂ (fun p p' => FLSlot (fl1_inflP (resolveTau P o) p) p'))
      teams (FL_rawResult K L P le teams ranks o) :=
    hraw.imp (fun S T h => by rwa [List.forall₂_map_left_iff] at h)
  rw [FL_rateCore_eq_clamp]
  cases hlim : resolveLimit P o with
  | false =>
    simp only [Bool.false_eq_true, if_false]
    refine hraw'.imp (fun S T h => h.imp ?_)
    rintro p p' ⟨h1, h2, h3⟩
    exact ⟨h1, h2, fun h => Bool.noConfusion h, fun _ => h3, fun _ => h3⟩
  | true =>
    simp only [if_true]
    rw [fl1_clampTeams_eq_zipWith]
    refine (fl1_forall₂_zipWith_right (List.zipWith fl1_clampP) hraw').imp ?_
    rintro S T' ⟨T, hST, rfl⟩
    refine (fl1_forall₂_zipWith_right fl1_clampP hST).imp ?_
    rintro p p'' ⟨p', ⟨h1, h2, h3⟩, rfl⟩
    refine ⟨by simp only [fl1_clampP_id]; exact h1, ?_, fun _ => M.fl1_clampP_sigma_le_orig p' p,
      fun h => Bool.noConfusion h, fun hp => ?_⟩
    · exact M.le_trans' (M.fl1_clampP_sigma_le_res p' p) h2
    · rcases fl1_clampP_sigma_cases p' p with ⟨_, e⟩ | ⟨_, e⟩
      · rw [e]; exact h3
      · rw [e]; exact hp

/-- **C06 for `rate`** (ranks, scores or neither): the same slot-wise statement as `FL_C06_rateCore` -/
theorem FL_C06_rate {ρ : Type} (K : Kind) (L : Leaves α) (P : Params α) (le : ρ → ρ → Bool)
    (neg : ρ → ρ) (teams : List (List (Rating α))) (oc : Outcome ρ) (o : CallOpts α)
    (hL : K = .TMF ∨ K = .TMP → LeavesNonneg L)
    (hv : ∀ T ∈ inflate (resolveTau P o) teams, 𝟘 < sumL (T.map (fun p => p.sigma * p.sigma)))
    (hk : P.kappa ≤ 𝟙) (hg : GammaNonneg P.gamma)
    (hd : DivisorsPosRest K P (FL_rateAggs P le teams
      (match oc with | .omitted => none | .ranks r => some r | .scores s => some (s.map neg)) o))
    (hr : ∀ r, (oc = .ranks r ∨ oc = .scores r) → r.length = teams.length) :
    List.Forall₂ (List.Forall₂ (FLSlotRate (resolveTau P o) (resolveLimit P o)))
      teams (rate K L P le neg teams oc o) := by
  cases oc with
  | omitted =>
    exact FL_C06_rateCore M K L P le teams none o hL hv hk hg hd (by intro r h; cases h)
  | ranks r =>
    refine FL_C06_rateCore M K L P le teams (some r) o hL hv hk hg hd ?_
    intro r' h; cases h; exact hr r (Or.inl rfl)
  | scores s =>
    refine FL_C06_rateCore M K L P le teams (some (s.map neg)) o hL hv hk hg hd ?_
    intro r' h; cases h; rw [List.length_map]; exact hr s (Or.inr rfl)

/-! ### C05: same direction -/

/-- **A sole first team has `ω ≥ 0`, all five models.**  In `omegaDelta`, a team whose rank is strictly
smaller than every other team's has `0 ≤ ω`, as computed. -/
theorem FL_C05_sole_first (K : Kind) (L : Leaves α) (P : Params α) (ts : List (TeamAgg α))
    (hL : K = .TMF ∨ K = .TMP → LeavesNonneg L)
    (hts : ∀ t ∈ ts, 𝟘 ≤ t.sig2) (hd : DivisorsPos K P ts)
    (i : Nat) (ti : TeamAgg α) (hi : ts[i]? = some ti)
    (hfirst : ∀ j tj, ts[j]? = some tj → j ≠ i → ti.rank < tj.rank) :
    ∀ od, (omegaDelta K L P ts)[i]? = some od → 𝟘 ≤ od.1 := by
  intro od hod
  obtain ⟨ti', h1, rfl⟩ := fl1_omegaDelta_getElem?_inv hod
  rw [hi] at h1; cases h1
  exact M.fl1_od_fst_nonneg K L P ts hL hts hd i ti hi hfirst

/-- **A sole last team has `ω ≤ 0`, all five models.** -/
theorem FL_C05_sole_last (K : Kind) (L : Leaves α) (P : Params α) (ts : List (TeamAgg α))
    (hL : K = .TMF ∨ K = .TMP → LeavesNonneg L)
    (hts : ∀ t ∈ ts, 𝟘 ≤ t.sig2) (hd : DivisorsPos K P ts)
    (i : Nat) (ti : TeamAgg α) (hi : ts[i]? = some ti)
    (hlast : ∀ j tj, ts[j]? = some tj → j ≠ i → tj.rank < ti.rank) :
    ∀ od, (omegaDelta K L P ts)[i]? = some od → od.1 ≤ 𝟘 := by
  intro od hod
  obtain ⟨ti', h1, rfl⟩ := fl1_omegaDelta_getElem?_inv hod
  rw [hi] at h1; cases h1
  exact M.fl1_od_fst_nonpos K L P ts hL hts hd i ti hi hlast

omit M in
theorem fl1_not_TM_of_BT {K : Kind} (hK : K = .BTF ∨ K = .BTP) (L : Leaves α) :
    K = .TMF ∨ K = .TMP → LeavesNonneg L := by
  rintro (h | h) <;> rcases hK with h' | h' <;> simp [h] at h'

/-- **Bradley–Terry, sole first**: every pair term is `s2c·(1 − p_iq)` with `p_iq ≤ 1`. -/
theorem FL_C05_sole_first_BT (K : Kind) (hK : K = .BTF ∨ K = .BTP) (L : Leaves α) (P : Params α)
    (ts : List (TeamAgg α)) (hts : ∀ t ∈ ts, 𝟘 ≤ t.sig2) (hd : DivisorsPos K P ts)
    (i : Nat) (ti : TeamAgg α) (hi : ts[i]? = some ti)
    (hfirst : ∀ j tj, ts[j]? = some tj → j ≠ i → ti.rank < tj.rank) :
    ∀ od, (omegaDelta K L P ts)[i]? = some od → 𝟘 ≤ od.1 :=
  FL_C05_sole_first M K L P ts (fl1_not_TM_of_BT hK L) hts hd i ti hi hfirst

/-- **Bradley–Terry, sole last**: every pair term is `s2c·(0 − p_iq)` with `p_iq ≥ 0`. -/
theorem FL_C05_sole_last_BT (K : Kind) (hK : K = .BTF ∨ K = .BTP) (L : Leaves α) (P : Params α)
    (ts : List (TeamAgg α)) (hts : ∀ t ∈ ts, 𝟘 ≤ t.sig2) (hd : DivisorsPos K P ts)
    (i : Nat) (ti : TeamAgg α) (hi : ts[i]? = some ti)
    (hlast : ∀ j tj, ts[j]? = some tj → j ≠ i → tj.rank < ti.rank) :
    ∀ od, (omegaDelta K L P ts)[i]? = some od → od.1 ≤ 𝟘 :=
  FL_C05_sole_last M K L P ts (fl1_not_TM_of_BT hK L) hts hd i ti hi hlast

/-- **Plackett–Luce, sole first**: the only `q` with `rank_q ≤ rank_i` is `i` itself, and
`(1 − p_ii)/A_i ≥ 0`. -/
theorem FL_C05_sole_first_PL (L : Leaves α) (P : Params α)
    (ts : List (TeamAgg α)) (hts : ∀ t ∈ ts, 𝟘 ≤ t.sig2) (hd : DivisorsPos .PL P ts)
    (i : Nat) (ti : TeamAgg α) (hi : ts[i]? = some ti)
    (hfirst : ∀ j tj, ts[j]? = some tj → j ≠ i → ti.rank < tj.rank) :
    ∀ od, (omegaDelta .PL L P ts)[i]? = some od → 𝟘 ≤ od.1 :=
  FL_C05_sole_first M .PL L P ts (by rintro (h | h) <;> cases h) hts hd i ti hi hfirst

/-- **Plackett–Luce, sole last**: `sum_q[i] = 0 + e_i`, which lies on both sides of `e_i`, so
`p_ii = e_i / (0 + e_i) ≥ (0 + e_i)/(0 + e_i) = 1` by `div_self'` — the law "`0 + a = a`" is not needed —
and all other terms are `−p_iq/A_q ≤ 0`. -/
theorem FL_C05_sole_last_PL (L : Leaves α) (P : Params α)
    (ts : List (TeamAgg α)) (hts : ∀ t ∈ ts, 𝟘 ≤ t.sig2) (hd : DivisorsPos .PL P ts)
    (i : Nat) (ti : TeamAgg α) (hi : ts[i]? = some ti)
    (hlast : ∀ j tj, ts[j]? = some tj → j ≠ i → tj.rank < ti.rank) :
    ∀ od, (omegaDelta .PL L P ts)[i]? = some od → od.1 ≤ 𝟘 :=
  FL_C05_sole_last M .PL L P ts (by rintro (h | h) <;> cases h) hts hd i ti hi hlast

omit M in
/-- ranks of `teamAggs`: a sole first / last position of `dense` is one of the aggregates -/
theorem fl1_sole_of_dense {teams : List (List (Rating α))} {dense : List Nat} {i : Nat}
    {T : List (Rating α)} {d : Nat} (R : Nat → Nat → Prop)
    (h : ∀ j dj, j < teams.length → j ≠ i → dense[j]? = some dj → R d dj) :
    ∀ j tj, (teamAggs teams dense)[j]? = some tj → j ≠ i → R (teamAgg T d).rank tj.rank := by
  intro j tj hj hne
  obtain ⟨Tj, dj, h1, h2, rfl⟩ := fl1_teamAggs_getElem?_inv teams dense j hj
  exact h j dj (List.getElem?_eq_some_iff.1 h1).1 hne h2

/-- **C05 for `compute`: no member of a sole winner loses mu**, all five models.  Team `i` has a dense rank
strictly smaller than every other team's; team variances `> 0`; remaining divisors positive.  Then, slot by
slot, every member of team `i` keeps its id and its posterior mu is `≥` its prior mu — exactly, in every
monotone arithmetic. -/
theorem FL_C05_compute_sole_first (K : Kind) (L : Leaves α) (P : Params α)
    (teams : List (List (Rating α))) (dense : List Nat)
    (hL : K = .TMF ∨ K = .TMP → LeavesNonneg L)
    (hv : ∀ T ∈ teams, 𝟘 < sumL (T.map (fun p => p.sigma * p.sigma)))
    (hd : DivisorsPosRest K P (teamAggs teams dense))
    (i : Nat) (T : List (Rating α)) (d : Nat) (hT : teams[i]? = some T) (hdi : dense[i]? = some d)
    (hfirst : ∀ j dj, j < teams.length → j ≠ i → dense[j]? = some dj → d < dj) :
    ∃ T', (compute K L P teams dense)[i]? = some T' ∧
      List.Forall₂ (fun p p' => p'.id = p.id ∧ p.mu ≤ p'.mu) T T' := by
  have hvar := fl1_mem_teamAggs_var (dense := dense) hv
  have hdp := M.fl1_divisorsPos_of_var_pos K P _ hvar hd
  refine ⟨_, fl1_compute_getElem? K L P teams dense i hT hdi, ?_⟩
  have hi := fl1_teamAggs_getElem? teams dense i hT hdi
  exact FL_applyTeam_mu_ge M (teamAgg T d) (hv T (List.mem_of_getElem? hT))
    (M.fl1_od_fst_nonneg K L P _ hL (FL_teamAggs_sig2_nonneg M teams dense) hdp i _ hi
      (fl1_sole_of_dense (fun a b => a < b) hfirst))

/-- **C05 for `compute`: no member of a sole loser gains mu**, all five models. -/
theorem FL_C05_compute_sole_last (K : Kind) (L : Leaves α) (P : Params α)
    (teams : List (List (Rating α))) (dense : List Nat)
    (hL : K = .TMF ∨ K = .TMP → LeavesNonneg L)
    (hv : ∀ T ∈ teams, 𝟘 < sumL (T.map (fun p => p.sigma * p.sigma)))
    (hd : DivisorsPosRest K P (teamAggs teams dense))
    (i : Nat) (T : List (Rating α)) (d : Nat) (hT : teams[i]? = some T) (hdi : dense[i]? = some d)
    (hlast : ∀ j dj, j < teams.length → j ≠ i → dense[j]? = some dj → dj < d) :
    ∃ T', (compute K L P teams dense)[i]? = some T' ∧
      List.Forall₂ (fun p p' => p'.id = p.id ∧ p'.mu ≤ p.mu) T T' := by
  have hvar := fl1_mem_teamAggs_var (dense := dense) hv
  have hdp := M.fl1_divisorsPos_of_var_pos K P _ hvar hd
  refine ⟨_, fl1_compute_getElem? K L P teams dense i hT hdi, ?_⟩
  have hi := fl1_teamAggs_getElem? teams dense i hT hdi
  exact FL_applyTeam_mu_le M (teamAgg T d) (hv T (List.mem_of_getElem? hT))
    (M.fl1_od_fst_nonpos K L P _ hL (FL_teamAggs_sig2_nonneg M teams dense) hdp i _ hi
      (fl1_sole_of_dense (fun a b => b < a) hlast))

/-! ### the hypotheses are satisfiable in every monotone arithmetic -/

/-- the library's default gamma, `1/k`, `1/(rank+1)`, `0` and the constant `1` are admissible -/
example : GammaNonneg (GammaFn.dflt : GammaFn α) ∧ GammaNonneg (GammaFn.invK : GammaFn α)
    ∧ GammaNonneg (GammaFn.rankDep : GammaFn α) ∧ GammaNonneg (GammaFn.zero : GammaFn α)
    ∧ GammaNonneg (GammaFn.const 𝟙 : GammaFn α) :=
  ⟨M.fl1_gammaNonneg_of_tag _ (by intro x h; cases h) (by intro h; cases h) (by intro f h; cases h),
   M.fl1_gammaNonneg_of_tag _ (by intro x h; cases h) (by intro h; cases h) (by intro f h; cases h),
   M.fl1_gammaNonneg_of_tag _ (by intro x h; cases h) (by intro h; cases h) (by intro f h; cases h),
   M.fl1_gammaNonneg_of_tag _ (by intro x h; cases h) (by intro h; cases h) (by intro f h; cases h),
   M.fl1_gammaNonneg_of_tag _ (by intro x h; cases h; exact M.fl1_zero_le_one) (by intro h; cases h) (by intro f h; cases h)⟩

/-- `LeavesNonneg` has a model -/
example : LeavesNonneg (⟨fun _ _ => 𝟘, fun _ _ => 𝟘, fun _ _ => 𝟘, fun _ _ => 𝟘⟩ : Leaves α) :=
  ⟨fun _ _ => M.le_refl' _, fun _ _ => M.le_refl' _, fun _ _ => M.le_refl' _⟩

/-- for Bradley–Terry nothing is left to assume about divisors once the variances are positive -/
example (P : Params α) (ts : List (TeamAgg α)) : DivisorsPosRest .BTF P ts ∧ DivisorsPosRest .BTP P ts :=
  ⟨trivial, trivial⟩

/-- `κ = 1/10000 ≤ 1` as the library computes it (`div_le_one'`) -/
example : (𝟙 : α) / ofNat 10000 ≤ 𝟙 :=
  M.div_le_one' (M.ofNat_le' (by decide)) (M.fl1_zero_lt_ofNat (by decide))

end

end OS
