import OSProofs.Props.C08
#print axioms OS.C08_sqrt_arg_nonneg
#print axioms OS.C08_ciq_pos
#print axioms OS.C08_plC_pos
#print axioms OS.C08_team_var_pos
#print axioms OS.C08_inflate_pos
#print axioms OS.C08_invcdf_arg
#print axioms OS.C08_bt_exp_arg_bound
