#!/usr/bin/env python3
"""assemble DESIGN.md from its hand-written parts and the seeded RESULTS table"""
import json, os
V = os.path.dirname(os.path.dirname(os.path.abspath(__file__)))
head = open(os.path.join(V, "design_src", "part1.md")).read()
rest = open(os.path.join(V, "design_src", "part2.md")).read()
r = json.load(open(os.path.join(V, "seeded", "RESULTS.json")))
rows = ["| change | breaks | what it needs | caught by (quick tier) | with a concrete failing input |", "|---|---|---|---|---|"]
for k in sorted(r):
    m = json.load(open(os.path.join(V, "seeded", k, "meta.json")))
    v = r[k]
    tgt = v["breaks"]
    cb = ", ".join(("**%s**" % c) if c == tgt else c for c in v["caught_by"]) or "— (missed)"
    rows.append("| %s | %s | %s | %s | %s |" % (k, tgt, m["needs"].replace("|", "/"), cb, ", ".join(v["with_failing_input"])))
n = len(r); ok = sum(1 for v in r.values() if v["target_caught"])
summary = "%d of %d seeded changes are caught by the check of the property they were written to break (bold); every change is caught by at least one check: %s.\n\n" % (
    ok, n, "yes" if all(v["caught_by"] for v in r.values()) else "NO: " + ", ".join(k for k, v in r.items() if not v["caught_by"]))
import re, glob, subprocess
counts = {}
for f in glob.glob(os.path.join(V, "lean", "OSProofs", "Audit", "C*.lean")):
    counts[os.path.basename(f)[:-5]] = len(re.findall(r"^#print axioms", open(f).read(), flags=re.M))
body = rest.replace("@@RESULTS@@", summary + "\n".join(rows))
for k, v in counts.items():
    body = body.replace("@@N:%s@@" % k, str(v))
names = set()
for f in glob.glob(os.path.join(V, "lean", "OSProofs", "Audit", "*.lean")):
    names.update(re.findall(r"^#print axioms\s+(\S+)", open(f).read(), flags=re.M))
def wc(pattern):
    return sum(len(open(f).read().split("\n")) for f in glob.glob(os.path.join(V, "lean", pattern), recursive=True))
body = body.replace("@@NTOTAL@@", str(len(names))).replace("@@LINES@@", str(wc("OSProofs/**/*.lean")))
body = body.replace("@@NSEEDED@@", str(n))
body = body.replace("@@MLINES@@", str(wc("OSModel/*.lean") + wc("Driver.lean")))
open(os.path.join(V, "DESIGN.md"), "w").write(head + body)
print("DESIGN.md written:", ok, "/", n)
