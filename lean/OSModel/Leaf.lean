import OSModel.Scalar
/-
  common.py :: v, w, vt, wt  (the code as repaired by fix F1 (Φ via erfc lives in the
  Scalar instance) and fix F5 (`wt` squares the exact ratio, not `vt`)).
  `Leaves α` lets every formula above the leaves be shared between the code-shaped
  leaves and exact ones.
-/
namespace OS
open Scalar
variable {α : Type} [Scalar α]

def vCode (x t : α) : α :=
  let xt := x - t
  let d := Phi xt
  if d < epsF then -xt else phi xt / d

def wCode (x t : α) : α :=
  let xt := x - t
  let d := Phi xt
  if d < epsF then (if x < ofNat 0 then ofNat 1 else ofNat 0)
  else vCode x t * (vCode x t + xt)

def vtCode (x t : α) : α :=
  let xx := sabs x
  let b := Phi (t - xx) - Phi (-t - xx)
  if b < tiny5 then (if x < ofNat 0 then -x - t else -x + t)
  else
    let a := phi (-t - xx) - phi (t - xx)
    (if x < ofNat 0 then -a else a) / b

def wtCode (x t : α) : α :=
  let xx := sabs x
  let b := Phi (t - xx) - Phi (-t - xx)
  if b < epsF then ofNat 1
  else
    let vtx := (phi (-t - xx) - phi (t - xx)) / b
    ((t - xx) * phi (t - xx) + (t + xx) * phi (-t - xx)) / b + vtx * vtx

/-- pre-repair `wt` (squares `vt`, which switches to its asymptote at b < 1e-5): kept only to
state and replay the counter-model of finding F5 -/
def wtLegacy (x t : α) : α :=
  let xx := sabs x
  let b := Phi (t - xx) - Phi (-t - xx)
  if b < epsF then ofNat 1
  else
    ((t - xx) * phi (t - xx) + (t + xx) * phi (-t - xx)) / b + vtCode x t * vtCode x t

structure Leaves (α : Type) where
  v : α → α → α
  w : α → α → α
  vt : α → α → α
  wt : α → α → α

def codeLeaves : Leaves α := ⟨vCode, wCode, vtCode, wtCode⟩

/-- the exact (paper) functions, no guards: V = φ/Φ, W = V(V+x−t),
    Ṽ = (φ(−t−x) − φ(t−x))/(Φ(t−x) − Φ(−t−x)), W̃ likewise -/
def vExact (x t : α) : α := phi (x - t) / Phi (x - t)
def wExact (x t : α) : α := vExact x t * (vExact x t + (x - t))
def vtExact (x t : α) : α :=
  (phi (-t - x) - phi (t - x)) / (Phi (t - x) - Phi (-t - x))
def wtExact (x t : α) : α :=
  ((t - x) * phi (t - x) + (t + x) * phi (-t - x)) / (Phi (t - x) - Phi (-t - x))
    + vtExact x t * vtExact x t

def exactLeaves : Leaves α := ⟨vExact, wExact, vtExact, wtExact⟩

end OS
