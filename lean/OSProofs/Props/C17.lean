import OSProofs.LeafCode
/-!
# C17 — the four Gaussian correction functions `v, w, vt, wt` of the Thurstone–Mosteller models

All statements are about the code's functions (`vCode`, `wCode`, `vtCode`, `wtCode` of
`OSModel/Leaf.lean`, with their guards `Φ(x−t) < 2⁻⁵²`, `b < 1e-5`, `b < 2⁻⁵²`) read over ℝ with
the exact normal density `Gauss.phi` and distribution function `Gauss.Phi`.  They cover the branch
logic and the ranges; the accuracy of libm and float rounding is outside any theorem over ℝ
(checked against the `HiPrec` oracle by the harness).

Gaussian facts used: G5 `Gauss.mills`, G6 `Gauss.trunc_mean_mem`, G8a `Gauss.Wt_mul_Z_nonneg`,
G8b `Gauss.Wt_mul_Z_le` (truncated variance ≥ 0), G8c `Gauss.sampford` — all proved, no hypothesis
left open.
-/

noncomputable section
namespace OS
open Gauss

/-! ### on the exact branches the code computes the paper's formulas -/

/-- outside its guard, `v` is the paper's V = φ/Φ -/
theorem C17_v_exact_branch {x t : ℝ} (h : ¬ Phi (x - t) < epsF) : vCode x t = vExact x t := by
  rw [vCode_exact h]; simp only [vExact, sc_Phi, sc_phi]

/-- outside its guard, `w` is the paper's W = V(V + x − t) -/
theorem C17_w_exact_branch {x t : ℝ} (h : ¬ Phi (x - t) < epsF) : wCode x t = wExact x t := by
  rw [wCode_exact h]; simp only [wExact, vExact, sc_Phi, sc_phi]

/-- the paper's normaliser is even in x: Φ(t−x) − Φ(−t−x) = Φ(t−|x|) − Φ(−t−|x|) -/
theorem Zc_eq (x t : ℝ) : Phi (t - x) - Phi (-t - x) = Zc x t := by
  unfold Zc
  rcases lt_or_ge x 0 with hx | hx
  · rw [abs_of_neg hx]
    have h1 : t - x = -(-t - -x) := by ring
    have h2 : -t - x = -(t - -x) := by ring
    rw [h1, h2, Phi_neg, Phi_neg]; ring
  · rw [abs_of_nonneg hx]

/-- outside its guard, `vt` is the paper's Ṽ (written with x, not |x|), for every sign of x -/
theorem C17_vt_exact_branch {x t : ℝ} (h : ¬ Zc x t < tiny5) : vtCode x t = vtExact x t := by
  simp only [vtExact, sc_Phi, sc_phi]
  rw [Zc_eq]
  rcases lt_or_ge x 0 with hx | hx
  · rw [vtCode_exact_neg h hx, abs_of_neg hx]
    have h1 : -t - x = -(t - -x) := by ring
    have h2 : t - x = -(-t - -x) := by ring
    rw [h1, h2, phi_even, phi_even]; ring
  · rw [vtCode_exact_nonneg h (not_lt.mpr hx), abs_of_nonneg hx]

/-- outside its guard, `wt` is the paper's W̃ (written with x, not |x|), for every sign of x -/
theorem C17_wt_exact_branch {x t : ℝ} (h : ¬ Zc x t < epsF) : wtCode x t = wtExact x t := by
  simp only [wtExact, vtExact, sc_Phi, sc_phi]
  rw [Zc_eq, wtCode_exact h]
  rcases lt_or_ge x 0 with hx | hx
  · rw [abs_of_neg hx]
    have h1 : -t - x = -(t - -x) := by ring
    have h2 : t - x = -(-t - -x) := by ring
    rw [h1, h2, phi_even, phi_even]; ring
  · rw [abs_of_nonneg hx]

/-! ### v -/

/-- `v ≥ 0` on both branches -/
theorem C17_v_nonneg (x t : ℝ) : 0 ≤ vCode x t := vCode_nonneg x t

/-- the asymptotic branch of `v` and `w` (guard `Φ(x−t) < 2⁻⁵²`) is only taken for `x − t < 0`,
where the asymptote `−(x−t)` is positive -/
theorem C17_asymptote_only_negative {x t : ℝ} (h : Phi (x - t) < epsF) : x - t < 0 :=
  neg_of_Phi_lt_epsF h

/-- the guard can fire (the previous theorem is not vacuous) -/
example : ∃ u : ℝ, Phi u < epsF :=
  (Phi_tendsto_atBot.eventually (gt_mem_nhds epsF_pos)).exists

/-- Mills-type lower bound on both branches: `v(x,t) ≥ t − x` -/
theorem C17_v_ge_mills (x t : ℝ) : t - x ≤ vCode x t := vCode_ge x t

/-! ### w -/

theorem C17_w_nonneg (x t : ℝ) : 0 ≤ wCode x t := wCode_nonneg x t

/-- `0 ≤ w ≤ 1` on both branches; the upper bound on the exact branch is Sampford's inequality
`V(u)(V(u)+u) < 1` (`Gauss.sampford`, proved) -/
theorem C17_w_range (x t : ℝ) : 0 ≤ wCode x t ∧ wCode x t ≤ 1 := by
  refine ⟨wCode_nonneg x t, ?_⟩
  by_cases h : Phi (x - t) < epsF
  · by_cases hx : x < 0
    · rw [wCode_asym_neg h hx]
    · rw [wCode_asym_nonneg h hx]; exact zero_le_one
  · rw [wCode_exact h]; exact (sampford _).le

/-! ### wt -/

theorem C17_wt_nonneg (x t : ℝ) (ht : 0 ≤ t) : 0 ≤ wtCode x t := wtCode_nonneg x t ht

/-- `wt ≤ 1` for every margin (the exact branch is `1 − Var` of the truncated normal,
`Gauss.Wt_mul_Z_le`) -/
theorem wtCode_le_one (x t : ℝ) : wtCode x t ≤ 1 := by
  by_cases h : Zc x t < epsF
  · rw [wtCode_asym h]
  · have hZ := Zc_pos_of_not_lt_epsF h
    rw [wtCode_exact_frac h, div_le_one (by positivity)]
    exact Wt_mul_Z_le (interval_of_Zc_pos hZ)

/-- `0 ≤ wt ≤ 1` for a non-negative draw margin, on both branches (after repair F5) -/
theorem C17_wt_range (x t : ℝ) (ht : 0 ≤ t) : 0 ≤ wtCode x t ∧ wtCode x t ≤ 1 :=
  ⟨wtCode_nonneg x t ht, wtCode_le_one x t⟩

/-! ### vt -/

/-- the code's `vt` lies in the truncation interval `[−t−x, t−x]`, on both branches -/
theorem C17_vt_mem (x t : ℝ) (ht : 0 ≤ t) : -t - x ≤ vtCode x t ∧ vtCode x t ≤ t - x :=
  vtCode_mem x t ht

/-- the paper's Ṽ lies strictly inside the truncation interval (for a positive margin) -/
theorem vtExact_mem (x t : ℝ) (ht : 0 < t) : -t - x < vtExact x t ∧ vtExact x t < t - x := by
  simp only [vtExact, sc_Phi, sc_phi]
  exact trunc_ratio_mem (by linarith)

/-- on either branch the code's `vt` is within `2t` of the paper's Ṽ (on the exact branch they
are equal, `C17_vt_exact_branch`; on the small-`b` branch both lie in an interval of length 2t).
Stated for `0 < t`: at `t = 0` the paper's formula is `0/0`. -/
theorem C17_vt_within_2t (x t : ℝ) (ht : 0 < t) : |vtCode x t - vtExact x t| ≤ 2 * t := by
  obtain ⟨h1, h2⟩ := vtCode_mem x t ht.le
  obtain ⟨h3, h4⟩ := vtExact_mem x t ht
  rw [abs_le]; constructor <;> linarith

/-- `vt` is odd in x (x ≠ 0) -/
theorem C17_vt_odd (x t : ℝ) (hx : x ≠ 0) : vtCode (-x) t = -vtCode x t := vtCode_odd x t hx

/-! ### quantitative statements on the asymptotic branch of `v`, `w` (G9 + two-sided Mills bounds) -/

/-- G9: the guard `Φ(x−t) < 2⁻⁵²` only fires for `x − t < −8` (because `Φ(−8) > 6·10⁻¹⁶ > 2⁻⁵²`) -/
theorem C17_asymptote_below_minus_8 {x t : ℝ} (h : Phi (x - t) < epsF) : x - t < -8 := by
  by_contra hu
  have h0 : Phi (-8) ≤ Phi (x - t) := Phi_strictMono.monotone (not_lt.mp hu)
  have h8 := Phi_neg_eight_gt
  have he : (epsF : ℝ) < 6 / 10 ^ 16 := by rw [epsF_eq]; norm_num
  linarith

/-- on the asymptotic branch `v` returns `−(x−t)`, which is below the paper's V by less than V/64 -/
theorem C17_v_asym_error {x t : ℝ} (h : Phi (x - t) < epsF) :
    |vCode x t - vExact x t| ≤ vExact x t / 64 := by
  have hu := C17_asymptote_below_minus_8 h
  have hneg : x - t < 0 := by linarith
  rw [vCode_asym h]
  simp only [vExact, sc_Phi, sc_phi]
  have h1 := mills_ratio_add_pos (x - t)
  have h2 := mills_ratio_add_lt hneg
  have h3 : 1 / (-(x - t)) ≤ -(x - t) / 64 := by
    rw [div_le_div_iff₀ (by linarith) (by norm_num)]
    nlinarith
  rw [abs_le]; constructor <;> linarith

/-- on the asymptotic branch with `x < 0`, `w` returns 1, which is above the paper's W by less
than 0.02 -/
theorem C17_w_asym_error {x t : ℝ} (h : Phi (x - t) < epsF) (hx : x < 0) :
    |wCode x t - wExact x t| ≤ 1 / 50 := by
  have hu := C17_asymptote_below_minus_8 h
  have hneg : x - t < 0 := by linarith
  rw [wCode_asym_neg h hx]
  simp only [wExact, vExact, sc_Phi, sc_phi]
  have h1 := sampford (x - t)
  have h2 := sampford_lower hneg
  have h3 : 49 / 50 ≤ (x - t) ^ 2 * ((x - t) ^ 2 + 3) / ((x - t) ^ 2 + 2) ^ 2 := by
    rw [div_le_div_iff₀ (by norm_num) (by positivity)]
    have hs : 64 ≤ (x - t) ^ 2 := by nlinarith
    nlinarith
  rw [abs_le]; constructor <;> linarith

/-- OBSERVATION (kept as a theorem so that it is not overlooked): the asymptotic branch of `w`
decides between 1 and 0 by the sign of `x`, not of `x − t`.  If the guard fires with `x ≥ 0`
(this needs a draw margin `t > 8`, i.e. ε/c > 8 — not reachable with sensible parameters) the
code returns 0 although the paper's W exceeds 0.98 there. -/
theorem C17_w_asym_nonneg_x {x t : ℝ} (h : Phi (x - t) < epsF) (hx : 0 ≤ x) :
    wCode x t = 0 ∧ 49 / 50 < wExact x t ∧ 8 < t := by
  have hu := C17_asymptote_below_minus_8 h
  have hneg : x - t < 0 := by linarith
  refine ⟨wCode_asym_nonneg h (not_lt.mpr hx), ?_, by linarith⟩
  simp only [wExact, vExact, sc_Phi, sc_phi]
  have h2 := sampford_lower hneg
  have h3 : 49 / 50 ≤ (x - t) ^ 2 * ((x - t) ^ 2 + 3) / ((x - t) ^ 2 + 2) ^ 2 := by
    rw [div_le_div_iff₀ (by norm_num) (by positivity)]
    have hs : 64 ≤ (x - t) ^ 2 := by nlinarith
    nlinarith
  linarith

end OS
end
