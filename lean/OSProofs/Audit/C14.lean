import OSProofs.Props.C14
import OSProofs.Props.C20b
import OSProofs.Props.C15
#print axioms OS.C14_attrs_unchanged
#print axioms OS.runHistory_eq
#print axioms OS.C14_history_irrelevant
#print axioms Sched.commute
#print axioms Sched.interleave_serial
#print axioms Sched.interleave_serial'
#print axioms Sched.shuffle_serial
#print axioms Sched.calls_indep
#print axioms Sched.C14_interleaving
#print axioms OS.C20_rate_values_of_eq
#print axioms OS.C20_rate_reid
#print axioms OS.C20_predict_reid
#print axioms OS.C15_both
