import OSProofs.C04Lemmas
import OSProofs.C04SortLemmas

/-!
# Helper lemmas for C04b, part C: the full models do not need the sort

For Plackett–Luce and the two full-pairing models `_compute` is equivariant under ANY reordering
of its input, so the rank sort of `rate` is immaterial: `rate` = `_compute` on the teams in the
given order with the dense rank `#{teams strictly better}`.  Hence `rate` is equivariant under
every reordering of the teams, tied or not.
-/

noncomputable section
namespace OS
open List

/-! ### `omegaDelta` and `_compute` under a permutation of the teams (full models) -/

theorem eqv_omegaDelta_teamPerm_n (K : Kind) (hK : K.eqv_full) (L : Leaves ℝ) (P : Params ℝ)
    (ts ts' : List (TeamAgg ℝ)) (n : ℕ) (hl : ts.length = n) (hl' : ts'.length = n)
    (σ : Equiv.Perm (Fin n))
    (h : ∀ i : Fin n, ts'[i.1]'(hl' ▸ i.2) = ts[(σ i).1]'(hl ▸ (σ i).2)) (i : Fin n) :
    (omegaDelta K L P ts')[i.1]'(by rw [omegaDelta_length, hl']; exact i.2)
      = (omegaDelta K L P ts)[(σ i).1]'(by rw [omegaDelta_length, hl]; exact (σ i).2) := by
  subst hl
  have h' : ∀ j : Fin ts'.length, ts'[j] = ts[((finCongr hl').trans σ) j] :=
    fun j => h (finCongr hl' j)
  have key := eqv_omegaDelta_reindex K L P ts ts' ((finCongr hl').trans σ)
    (fun j => by rw [h']) (fun j => by rw [h']) (fun j => by rw [h'])
    (fun j => gam_sameCalls_of_eq _ (h' j)) (Or.inl hK)
  simp only [key, List.getElem_ofFn]
  rfl

/-- `_compute` is equivariant under any reordering of the teams (with their dense ranks), for the
full models -/
theorem eqv_compute_teamPerm (K : Kind) (hK : K.eqv_full) (L : Leaves ℝ) (P : Params ℝ)
    (T T' : List (List (Rating ℝ))) (D D' : List ℕ) (n : ℕ)
    (hT : T.length = n) (hD : D.length = n) (hT' : T'.length = n) (hD' : D'.length = n)
    (σ : Equiv.Perm (Fin n))
    (hTσ : ∀ i : Fin n, T'[i.1]'(hT' ▸ i.2) = T[(σ i).1]'(hT ▸ (σ i).2))
    (hDσ : ∀ i : Fin n, D'[i.1]'(hD' ▸ i.2) = D[(σ i).1]'(hD ▸ (σ i).2)) (i : Fin n) :
    (compute K L P T' D')[i.1]? = (compute K L P T D)[(σ i).1]? := by
  have hl : (teamAggs T D).length = n := by rw [teamAggs_length, hT, hD, Nat.min_self]
  have hl' : (teamAggs T' D').length = n := by rw [teamAggs_length, hT', hD', Nat.min_self]
  have hts : ∀ i : Fin n, (teamAggs T' D')[i.1]'(hl' ▸ i.2)
      = (teamAggs T D)[(σ i).1]'(hl ▸ (σ i).2) := by
    intro i
    rw [teamAggs_getElem T' D' i.1 (hT' ▸ i.2) (hD' ▸ i.2),
      teamAggs_getElem T D (σ i).1 (hT ▸ (σ i).2) (hD ▸ (σ i).2), hTσ i, hDσ i]
  have hod := eqv_omegaDelta_teamPerm_n K hK L P _ _ n hl hl' σ hts
  unfold compute
  simp only []
  rw [List.getElem?_eq_getElem (by simp [omegaDelta_length, hl']),
    List.getElem?_eq_getElem (by simp [omegaDelta_length, hl])]
  simp only [List.getElem_map, List.getElem_zip, hts i, hod i]

/-! ### the sorted keys and dense ranks, slot by slot -/

section slots
variable {ρ : Type} (le : ρ → ρ → Bool)

/-- `#{y ∈ S : y strictly below x}` does not depend on the order of `S` -/
theorem eqv_below_perm {S S' : List ρ} (h : S.Perm S') (x : ρ) : below le S x = below le S' x :=
  (h.filter _).length_eq

/-- the tenet (original positions in sorted order) does not depend on the payload -/
theorem eqv_unwind_snd_indep {β γ : Type} (ranks : List ρ) (xs : List β) (ys : List γ)
    (h : xs.length = ys.length) : (unwind le ranks xs).2 = (unwind le ranks ys).2 := by
  have h1 := congrArg Prod.snd (unwind_map le ranks (xs.zip ys) Prod.fst)
  have h2 := congrArg Prod.snd (unwind_map le ranks (xs.zip ys) Prod.snd)
  rw [List.map_fst_zip (by omega)] at h1
  rw [List.map_snd_zip (by omega)] at h2
  exact h1.trans h2.symm

/-- sorting the rank values as their own payload gives `sorted(ranks)` -/
theorem eqv_unwind_self_fst (ranks : List ρ) :
    (unwind le ranks ranks).1 = sortedKeys le ranks := by
  unfold unwind sortedKeys
  simp only []
  apply List.map_congr_left
  intro e he
  have hmem : e ∈ ranks.zip ranks.zipIdx := by
    unfold sortByKey at he
    exact (mergeSort_perm _ _).subset he
  obtain ⟨i, hi, rfl⟩ := List.mem_iff_getElem.1 hmem
  simp

/-- the key at sorted position `k` is the rank of the team that came from position `tenet[k]` -/
theorem eqv_sortedKeys_slot {β : Type} (ranks : List ρ) (teams : List β)
    (hlen : ranks.length = teams.length) (k t : ℕ)
    (hk : ((unwind le ranks teams).2)[k]? = some t) :
    (sortedKeys le ranks)[k]? = ranks[t]? := by
  rw [eqv_unwind_snd_indep le ranks teams ranks hlen.symm] at hk
  have hslot := (unwind_first le ranks ranks rfl).2 k t
  rw [← eqv_unwind_self_fst]
  have hkl : k < ((unwind le ranks ranks).1).length := by
    have := (List.getElem?_eq_some_iff.1 hk).1
    rw [unwind_snd_length] at this
    rw [unwind_fst_length]; exact this
  rw [List.getElem?_eq_getElem hkl]
  exact (hslot _ hk (List.getElem?_eq_getElem hkl)).symm

/-- the dense rank at sorted position `k` is `#{teams strictly better}` of the team that came from
position `tenet[k]` -/
theorem eqv_dense_slot {β : Type}
    (total : ∀ a b, (le a b || le b a) = true)
    (trans : ∀ a b c, le a b = true → le b c = true → le a c = true)
    (ranks : List ρ) (teams : List β)
    (hlen : ranks.length = teams.length) (k t : ℕ)
    (hk : ((unwind le ranks teams).2)[k]? = some t) :
    (denseRanks (fun a b => !le b a) (sortedKeys le ranks))[k]?
      = (ranks.map (below le ranks))[t]? := by
  rw [denseRanks_eq_map total trans _ (sortedKeys_pairwise le total trans ranks)]
  have hperm : (sortedKeys le ranks).Perm ranks := by
    rw [sortedKeys_eq_mergeSort]; exact mergeSort_perm _ _
  simp only [List.getElem?_map, eqv_sortedKeys_slot le ranks teams hlen k t hk]
  congr 1
  funext x
  exact eqv_below_perm le hperm x

end slots

/-! ### `rate` without the sort (full models) -/

section sortfree
variable {ρ : Type} (le : ρ → ρ → Bool)

/-- **For the full models the rank sort is immaterial**: the ranked `rate` (before the clamp) is
`_compute` on the tau-inflated teams IN THE GIVEN ORDER, each with the dense rank
`#{teams with a strictly smaller rank value}`. -/
theorem eqv_rateRes_full_n (K : Kind) (hK : K.eqv_full) (L : Leaves ℝ) (P : Params ℝ)
    (total : ∀ a b, (le a b || le b a) = true)
    (trans : ∀ a b c, le a b = true → le b c = true → le a c = true)
    (tau : ℝ) (teams : List (List (Rating ℝ))) (ranks : List ρ) (n : ℕ)
    (hn : teams.length = n) (hlen : ranks.length = n) :
    eqv_rateRes K L P le tau teams ranks
      = compute K L P (inflate tau teams) (ranks.map (below le ranks)) := by
  have hi : (inflate tau teams).length = n := (length_inflate tau teams).trans hn
  have hri : ranks.length = (inflate tau teams).length := hlen.trans hi.symm
  obtain ⟨hperm, hslot⟩ := unwind_first le ranks (inflate tau teams) hri
  rw [hi] at hperm
  have hul2 : ((unwind le ranks (inflate tau teams)).2).length = n := by
    rw [unwind_snd_length, hri, Nat.min_self, hi]
  have hul1 : ((unwind le ranks (inflate tau teams)).1).length = n := by
    rw [unwind_fst_length, hri, Nat.min_self, hi]
  have hdl : (denseRanks (fun a b => !le b a) (sortedKeys le ranks)).length = n := by
    rw [length_denseRanks, length_sortedKeys, hlen]
  have hDl : (ranks.map (below le ranks)).length = n := by
    rw [List.length_map, hlen]
  -- the permutation `k ↦ tenet[k]`
  have hlt : ∀ k : Fin n,
      ((unwind le ranks (inflate tau teams)).2)[k.1]'(hul2 ▸ k.2) < n :=
    fun k => List.mem_range.1 (hperm.subset (List.getElem_mem _))
  have hnd : ((unwind le ranks (inflate tau teams)).2).Nodup :=
    (hperm.nodup_iff).2 List.nodup_range
  let f : Fin n → Fin n := fun k => ⟨_, hlt k⟩
  have finj : Function.Injective f := by
    intro a b hab
    have := (hnd.getElem_inj_iff (hi := hul2 ▸ a.2) (hj := hul2 ▸ b.2)).1 (Fin.mk.inj hab)
    exact Fin.ext this
  let e : Equiv.Perm (Fin n) :=
    Equiv.ofBijective f (Finite.injective_iff_bijective.1 finj)
  have he : ∀ k : Fin n,
      ((unwind le ranks (inflate tau teams)).2)[k.1]? = some (e k).1 :=
    fun k => List.getElem?_eq_getElem (hul2 ▸ k.2)
  have hT : ∀ k : Fin n,
      ((unwind le ranks (inflate tau teams)).1)[k.1]'(hul1 ▸ k.2)
        = (inflate tau teams)[(e k).1]'(hi ▸ (e k).2) := by
    intro k
    have := hslot k.1 (e k).1 _ (he k) (List.getElem?_eq_getElem (hul1 ▸ k.2))
    rw [List.getElem?_eq_getElem (hi ▸ (e k).2), Option.some.injEq] at this
    exact this.symm
  have hD : ∀ k : Fin n,
      (denseRanks (fun a b => !le b a) (sortedKeys le ranks))[k.1]'(hdl ▸ k.2)
        = (ranks.map (below le ranks))[(e k).1]'(hDl ▸ (e k).2) := by
    intro k
    have := eqv_dense_slot le total trans ranks (inflate tau teams) hri k.1 (e k).1 (he k)
    rw [List.getElem?_eq_getElem (hdl ▸ k.2), List.getElem?_eq_getElem (hDl ▸ (e k).2),
      Option.some.injEq] at this
    exact this
  have hCE := eqv_compute_teamPerm K hK L P (inflate tau teams) _ (ranks.map (below le ranks)) _
    n hi hDl hul1 hdl e hT hD
  have hCl : (compute K L P (unwind le ranks (inflate tau teams)).1
      (denseRanks (fun a b => !le b a) (sortedKeys le ranks))).length = n := by
    rw [length_compute, hul1, hdl, Nat.min_self]
  unfold eqv_rateRes
  simp only []
  apply List.ext_getElem?
  intro t
  by_cases ht : t < n
  · have hmem : t ∈ (unwind le ranks (inflate tau teams)).2 :=
      hperm.symm.subset (List.mem_range.2 ht)
    obtain ⟨k, hk⟩ := List.mem_iff_getElem?.1 hmem
    have hkl : k < n := hul2 ▸ (List.getElem?_eq_some_iff.1 hk).1
    rw [unwind_by_perm _ _ n hCl hperm k t hk, hCE ⟨k, hkl⟩]
    have : (e ⟨k, hkl⟩).1 = t := by
      have h2 := he ⟨k, hkl⟩
      rw [hk, Option.some.injEq] at h2
      exact h2.symm
    rw [this]
  · rw [List.getElem?_eq_none (by rw [unwind_fst_length, hul2, hCl, Nat.min_self]; omega),
      List.getElem?_eq_none (by rw [length_compute, hi, hDl, Nat.min_self]; omega)]

/-- a re-indexed list is a permutation of the list -/
theorem eqv_reindex_perm {γ : Type} (l l' : List γ) (n : ℕ) (hn : l.length = n)
    (hn' : l'.length = n) (σ : Equiv.Perm (Fin n))
    (hl : ∀ i : Fin n, l'[i.1]'(hn' ▸ i.2) = l[(σ i).1]'(hn ▸ (σ i).2)) : l'.Perm l := by
  have h1 : l = List.ofFn (fun i : Fin n => l[i.1]'(hn ▸ i.2)) := by
    subst hn; apply List.ext_getElem <;> simp
  have h2 : l' = List.ofFn ((fun i : Fin n => l[i.1]'(hn ▸ i.2)) ∘ σ) := by
    apply List.ext_getElem
    · simp [hn']
    · intro i h1 h2
      have hi : i < n := hn' ▸ h1
      simp only [List.getElem_ofFn, Function.comp_apply]
      exact hl ⟨i, hi⟩
  rw [h2]
  conv_rhs => rw [h1]
  exact σ.ofFn_comp_perm _

/-- **Full models: `rate` is equivariant under EVERY reordering of the teams** (before the
clamp) -/
theorem eqv_rateRes_full_reindex (K : Kind) (hK : K.eqv_full) (L : Leaves ℝ) (P : Params ℝ)
    (total : ∀ a b, (le a b || le b a) = true)
    (trans : ∀ a b c, le a b = true → le b c = true → le a c = true) (tau : ℝ)
    (teams teams' : List (List (Rating ℝ))) (ranks ranks' : List ρ) (n : ℕ)
    (ht : teams.length = n) (hr : ranks.length = n) (ht' : teams'.length = n)
    (hr' : ranks'.length = n) (σ : Equiv.Perm (Fin n))
    (hT : ∀ i : Fin n, teams'[i.1]'(ht' ▸ i.2) = teams[(σ i).1]'(ht ▸ (σ i).2))
    (hR : ∀ i : Fin n, ranks'[i.1]'(hr' ▸ i.2) = ranks[(σ i).1]'(hr ▸ (σ i).2))
    (i : Fin n) :
    (eqv_rateRes K L P le tau teams' ranks')[i.1]? = (eqv_rateRes K L P le tau teams ranks)[(σ i).1]? := by
  rw [eqv_rateRes_full_n le K hK L P total trans tau teams' ranks' n ht' hr',
    eqv_rateRes_full_n le K hK L P total trans tau teams ranks n ht hr]
  have hi : (inflate tau teams).length = n := (length_inflate tau teams).trans ht
  have hi' : (inflate tau teams').length = n := (length_inflate tau teams').trans ht'
  have hI : ∀ i : Fin n, (inflate tau teams')[i.1]'(hi' ▸ i.2)
      = (inflate tau teams)[(σ i).1]'(hi ▸ (σ i).2) := by
    intro i; simp only [inflate, List.getElem_map, hT i]
  have hperm : ranks'.Perm ranks := eqv_reindex_perm ranks ranks' n hr hr' σ hR
  have hDl : (ranks.map (below le ranks)).length = n := by rw [List.length_map, hr]
  have hDl' : (ranks'.map (below le ranks')).length = n := by rw [List.length_map, hr']
  refine eqv_compute_teamPerm K hK L P _ _ _ _ n hi hDl hi' hDl' σ hI ?_ i
  intro j
  simp only [List.getElem_map, hR j]
  exact eqv_below_perm le hperm _

/-- … and with the `limit_sigma` clamp -/
theorem eqv_rateCore_full_reindex (K : Kind) (hK : K.eqv_full) (L : Leaves ℝ) (P : Params ℝ)
    (total : ∀ a b, (le a b || le b a) = true)
    (trans : ∀ a b c, le a b = true → le b c = true → le a c = true) (o : CallOpts ℝ)
    (teams teams' : List (List (Rating ℝ))) (ranks ranks' : List ρ) (n : ℕ)
    (ht : teams.length = n) (hr : ranks.length = n) (ht' : teams'.length = n)
    (hr' : ranks'.length = n) (σ : Equiv.Perm (Fin n))
    (hT : ∀ i : Fin n, teams'[i.1]'(ht' ▸ i.2) = teams[(σ i).1]'(ht ▸ (σ i).2))
    (hR : ∀ i : Fin n, ranks'[i.1]'(hr' ▸ i.2) = ranks[(σ i).1]'(hr ▸ (σ i).2))
    (i : Fin n) :
    (rateCore K L P le teams' (some ranks') o)[i.1]?
      = (rateCore K L P le teams (some ranks) o)[(σ i).1]? := by
  have key := eqv_rateRes_full_reindex le K hK L P total trans (resolveTau P o) teams teams'
    ranks ranks' n ht hr ht' hr' σ hT hR
  rw [eqv_rateCore_eq_rateRes, eqv_rateCore_eq_rateRes]
  split
  · exact eqv_clampTeams_reindex teams teams' _ _ n ht ht'
      (by rw [eqv_rateRes_length _ _ _ _ _ _ _ (hr.trans ht.symm), ht])
      (by rw [eqv_rateRes_length _ _ _ _ _ _ _ (hr'.trans ht'.symm), ht']) σ hT key i
  · exact key i

end sortfree

end OS
end
