import OSProofs.SortLemmas
import OSProofs.C03Lemmas
import OSProofs.C06Lemmas
import OSProofs.Props.C02
import OSProofs.Props.C03
import OSProofs.Props.C05b
import OSProofs.Props.C06
import OSProofs.Props.C07
import OSModel.Trace

/-!
# Helper lemmas for lifting `_compute`-level properties to `rate`  (C05d, C07b)

`rate` = tau inflation → stable sort by the rank values → dense ranks → `_compute` → un-sort →
optional clamp.  The lemmas below say

* the un-sort is a permutation of the list of pairs (input team, result team)
  (`lft_unsort_zip_perm`), so sums over the teams do not see the sort;
* the sorted keys are the keys of the sorted teams: at sorted position `k` sit the object and the
  key of the same original position `tenet[k]` (`lft_sorted_pos`);
* a team whose rank value is strictly better (worse) than all the others gets a dense rank strictly
  smaller (larger) than all the others (`lft_sole_first_dense`, `lft_sole_last_dense`);
* the inflation and the clamp never touch a mu (`lft_clamp_mu`, `lft_inflate_forall₂`).
-/

noncomputable section
namespace OS
open Scalar

/-- the variance of a team after the tau inflation: `Σ_j (σ_j² + τ²)` -/
def teamVar (τ : ℝ) (team : List (Rating ℝ)) : ℝ :=
  (team.map (fun p => p.sigma ^ 2 + τ ^ 2)).sum

theorem teamVar_nonneg (τ : ℝ) (team : List (Rating ℝ)) : 0 ≤ teamVar τ team := by
  unfold teamVar
  apply List.sum_nonneg
  intro x hx
  obtain ⟨p, _, rfl⟩ := List.mem_map.1 hx
  positivity

/-! ### generic list facts about `unwind` -/

section generic
variable {κ β γ : Type}

/-- `_unwind` only permutes its payload -/
theorem lft_unwind_fst_perm (le : κ → κ → Bool) (tenet : List κ) (xs : List β)
    (h : xs.length ≤ tenet.length) : ((unwind le tenet xs).1).Perm xs := by
  have h1 := (List.mergeSort_perm (tenet.zip xs.zipIdx) (fun a b => le a.1 b.1)).map
    (fun x : κ × β × Nat => x.2.1)
  have h2 : (tenet.zip xs.zipIdx).map (fun x : κ × β × Nat => x.2.1) = xs := by
    have e : (tenet.zip xs.zipIdx).map (fun x : κ × β × Nat => x.2.1)
        = ((tenet.zip xs.zipIdx).map (·.2)).map (·.1) := by
      simp [List.map_map, Function.comp_def]
    rw [e, List.map_snd_zip (by simpa using h), List.zipIdx_map_fst]
  rw [h2] at h1
  exact h1

/-- **the un-sort is a permutation of (input, result) pairs.**  Sort `teams` by `ranks`, let `C` be
any list computed in sorted order, sort `C` back by the tenet: pairing every ORIGINAL team with the
entry that comes back to its position gives the same pairs as pairing every SORTED team with its
entry of `C` — in another order. -/
theorem lft_unsort_zip_perm (le : κ → κ → Bool) (ranks : List κ) (teams : List β) (C : List γ)
    (hlen : ranks.length = teams.length) (hC : C.length = teams.length) :
    (teams.zip (unwind leNat (unwind le ranks teams).2 C).1).Perm
      ((unwind le ranks teams).1.zip C) := by
  have h := unwind_roundtrip_zip le ranks teams C Prod.mk hlen hC
  have e1 : teams.zip (unwind leNat (unwind le ranks teams).2 C).1
      = List.zipWith Prod.mk teams (unwind leNat (unwind le ranks teams).2 C).1 :=
    List.zip_eq_zipWith ..
  have e2 : (unwind le ranks teams).1.zip C = List.zipWith Prod.mk (unwind le ranks teams).1 C :=
    List.zip_eq_zipWith ..
  rw [e1, ← h, ← e2]
  apply lft_unwind_fst_perm
  rw [List.length_zip, unwind_fst_length, unwind_snd_length, hlen, hC]
  simp

end generic

/-! ### the mu-change functional -/

/-- total mu change of a (team, result) pair, divided by the aggregate variance of the team -/
def lft_G (x : List (Rating ℝ) × List (Rating ℝ)) : ℝ :=
  ((x.2.zip x.1).map (fun y => y.1.mu - y.2.mu)).sum / (teamAgg x.1 0).sig2

/-- the form in which `C07_compute` is stated, as a sum over (team, result) pairs -/
theorem lft_zip_teamAggs (S : List (List (Rating ℝ))) (d : List Nat)
    (C : List (List (Rating ℝ))) (h : S.length ≤ d.length) :
    (C.zip (teamAggs S d)).map (fun x =>
        ((x.1.zip x.2.players).map (fun y => y.1.mu - y.2.mu)).sum / x.2.sig2)
      = (S.zip C).map lft_G := by
  induction S generalizing d C with
  | nil => simp [teamAggs]
  | cons s S ih =>
    cases d with
    | nil => simp at h
    | cons r d =>
      cases C with
      | nil => simp
      | cons c C =>
        have ih' := ih d C (by simpa using h)
        simp only [teamAggs, List.zip_cons_cons, List.map_cons] at ih' ⊢
        rw [ih']
        rfl

theorem lft_mu_diff_inflate (τ : ℝ) (S T : List (Rating ℝ)) :
    (T.zip (S.map (inflP τ))).map (fun y => y.1.mu - y.2.mu)
      = (S.zip T).map (fun pq => pq.2.mu - pq.1.mu) := by
  induction S generalizing T with
  | nil => simp
  | cons s S ih =>
    cases T with
    | nil => simp
    | cons t T =>
      simp only [List.map_cons, List.zip_cons_cons, ih T]
      rfl

/-- after the inflation the aggregate variance of a team is `Σ_j (σ_j² + τ²)` -/
theorem lft_sig2_inflate (τ : ℝ) (S : List (Rating ℝ)) (r : Nat) :
    (teamAgg (S.map (inflP τ)) r).sig2 = teamVar τ S := by
  unfold teamAgg teamVar
  simp only [sumL_eq_sum, List.map_map]
  refine congrArg List.sum (List.map_congr_left (fun p _ => ?_))
  simp only [Function.comp_apply, inflP, sc_sqrt]
  rw [Real.mul_self_sqrt (add_nonneg (mul_self_nonneg _) (mul_self_nonneg _))]
  ring

/-- the mu-change functional on an inflated team, in the caller's terms -/
theorem lft_G_inflate (τ : ℝ) (S T : List (Rating ℝ)) :
    lft_G (S.map (inflP τ), T)
      = ((S.zip T).map (fun pq => pq.2.mu - pq.1.mu)).sum / teamVar τ S := by
  unfold lft_G
  simp only [lft_mu_diff_inflate, lft_sig2_inflate]

theorem lft_zip_inflate (τ : ℝ) (teams R : List (List (Rating ℝ))) :
    ((inflate τ teams).zip R).map lft_G
      = (teams.zip R).map (fun tr =>
          ((tr.1.zip tr.2).map (fun pq => pq.2.mu - pq.1.mu)).sum / teamVar τ tr.1) := by
  rw [inflate_eq_map, List.zip_map_left, List.map_map]
  refine List.map_congr_left (fun x _ => ?_)
  simp only [Function.comp_apply, Prod.map, id]
  exact lft_G_inflate τ x.1 x.2

/-! ### the clamp never touches a mu -/

theorem lft_clampP_row_zip (S T : List (Rating ℝ)) :
    (S.zip (List.zipWith clampP T S)).map (fun pq => pq.2.mu - pq.1.mu)
      = (S.zip T).map (fun pq => pq.2.mu - pq.1.mu) := by
  induction S generalizing T with
  | nil => simp
  | cons s S ih =>
    cases T with
    | nil => simp
    | cons t T => simp only [List.zipWith_cons_cons, List.zip_cons_cons, List.map_cons, ih T, clampP_mu]

/-- the precision-weighted mu change does not see the clamp (no hypothesis on the shapes) -/
theorem lft_clamp_zip (τ : ℝ) (teams raw : List (List (Rating ℝ))) :
    (teams.zip (clampTeams teams raw)).map (fun tr =>
        ((tr.1.zip tr.2).map (fun pq => pq.2.mu - pq.1.mu)).sum / teamVar τ tr.1)
      = (teams.zip raw).map (fun tr =>
        ((tr.1.zip tr.2).map (fun pq => pq.2.mu - pq.1.mu)).sum / teamVar τ tr.1) := by
  rw [clampTeams_eq_zipWith]
  induction teams generalizing raw with
  | nil => simp
  | cons s S ih =>
    cases raw with
    | nil => simp
    | cons t T =>
      simp only [List.zipWith_cons_cons, List.zip_cons_cons, List.map_cons, ih T,
        lft_clampP_row_zip]

theorem lft_clampP_row (T S : List (Rating ℝ)) (h : S.length = T.length) :
    List.Forall₂ (fun q q' => q'.mu = q.mu) T (List.zipWith clampP T S) := by
  induction T generalizing S with
  | nil => simp
  | cons t T ih =>
    cases S with
    | nil => simp at h
    | cons s S =>
      rw [List.zipWith_cons_cons]
      exact List.Forall₂.cons (clampP_mu t s) (ih S (by simpa using h))

/-- **the `limit_sigma` clamp keeps every mu**: if the result has the shape of the original teams,
the clamped result has, slot by slot, the mu of the unclamped one. -/
theorem lft_clamp_mu (orig res : List (List (Rating ℝ)))
    (h : List.Forall₂ (fun a b => a.length = b.length) orig res) :
    List.Forall₂ (List.Forall₂ (fun q q' => q'.mu = q.mu)) res (clampTeams orig res) := by
  rw [clampTeams_eq_zipWith]
  induction h with
  | nil => simp
  | cons hab _ ih =>
    rw [List.zipWith_cons_cons]
    exact List.Forall₂.cons (lft_clampP_row _ _ hab) ih

/-! ### positivity of the aggregate variances handed to `_compute` -/

theorem lft_teamAggs_pos (τ : ℝ) (teams X : List (List (Rating ℝ))) (d : List Nat)
    (hX : ∀ S ∈ X, S ∈ inflate τ teams)
    (hs : ∀ team ∈ teams, teamVar τ team ≠ 0) : ∀ t ∈ teamAggs X d, 0 < t.sig2 := by
  intro t ht
  obtain ⟨S, hS, r, rfl⟩ := mem_teamAggs ht
  have hS' := hX S hS
  rw [inflate_eq_map] at hS'
  obtain ⟨S₀, hS₀, rfl⟩ := List.mem_map.1 hS'
  rw [lft_sig2_inflate]
  exact lt_of_le_of_ne (teamVar_nonneg _ _) (Ne.symm (hs S₀ hS₀))

/-- every aggregate of `prepared` has positive variance as soon as every inflated team has -/
theorem lft_prepared_pos {ρ : Type} (P : Params ℝ) (le : ρ → ρ → Bool)
    (teams : List (List (Rating ℝ))) (ranks : Option (List ρ)) (o : CallOpts ℝ)
    (hs : ∀ team ∈ teams, teamVar (resolveTau P o) team ≠ 0) :
    ∀ t ∈ prepared P le teams ranks o, 0 < t.sig2 := by
  cases ranks with
  | none => exact lft_teamAggs_pos _ teams _ _ (fun S hS => hS) hs
  | some r => exact lft_teamAggs_pos _ teams _ _ (fun S hS => mem_unwind_fst _ _ _ hS) hs

/-! ### the precision-weighted mu change of `rate` is that of `_compute` on `prepared` -/

/-- **the sort, the un-sort, the inflation and the clamp are invisible to the precision-weighted
mu change.**  Pure rearrangement: no positivity, no hypothesis on the model. -/
theorem lft_rate_sum_eq {ρ : Type} (K : Kind) (L : Leaves ℝ) (P : Params ℝ) (le : ρ → ρ → Bool)
    (teams : List (List (Rating ℝ))) (ranks : Option (List ρ)) (o : CallOpts ℝ)
    (hr : ∀ r, ranks = some r → r.length = teams.length) :
    ((teams.zip (rateCore K L P le teams ranks o)).map (fun tr =>
        ((tr.1.zip tr.2).map (fun pq => pq.2.mu - pq.1.mu)).sum
          / teamVar (resolveTau P o) tr.1)).sum
      = (((computeOn K L P (prepared P le teams ranks o)).zip (prepared P le teams ranks o)).map
          (fun x => ((x.1.zip x.2.players).map (fun y => y.1.mu - y.2.mu)).sum / x.2.sig2)).sum := by
  have hclamp : ((teams.zip (rateCore K L P le teams ranks o)).map (fun tr =>
        ((tr.1.zip tr.2).map (fun pq => pq.2.mu - pq.1.mu)).sum
          / teamVar (resolveTau P o) tr.1))
      = ((teams.zip (rawResult K L P le teams ranks o)).map (fun tr =>
        ((tr.1.zip tr.2).map (fun pq => pq.2.mu - pq.1.mu)).sum
          / teamVar (resolveTau P o) tr.1)) := by
    rw [rateCore_eq_clamp]
    split
    · exact lft_clamp_zip _ _ _
    · rfl
  rw [hclamp, ← lft_zip_inflate]
  have hil : (inflate (resolveTau P o) teams).length = teams.length := by simp [inflate]
  cases ranks with
  | none =>
    have e : rawResult K L P le teams none o
        = compute K L P (inflate (resolveTau P o) teams)
            (List.range (inflate (resolveTau P o) teams).length) := rfl
    have e2 : prepared P le teams none o
        = teamAggs (inflate (resolveTau P o) teams)
            (List.range (inflate (resolveTau P o) teams).length) := rfl
    rw [e, e2, ← compute_eq_computeOn, lft_zip_teamAggs _ _ _ (by simp)]
  | some r =>
    have hrl : r.length = (inflate (resolveTau P o) teams).length := by rw [hil]; exact hr r rfl
    have e : rawResult K L P le teams (some r) o
        = (unwind leNat (unwind le r (inflate (resolveTau P o) teams)).2
            (compute K L P (unwind le r (inflate (resolveTau P o) teams)).1
              (denseRanks (fun a b => !le b a) (sortedKeys le r)))).1 := rfl
    have e2 : prepared P le teams (some r) o
        = teamAggs (unwind le r (inflate (resolveTau P o) teams)).1
            (denseRanks (fun a b => !le b a) (sortedKeys le r)) := rfl
    have hsl : ((unwind le r (inflate (resolveTau P o) teams)).1).length
        = (inflate (resolveTau P o) teams).length := by
      rw [unwind_fst_length, hrl, Nat.min_self]
    have hdl : (denseRanks (fun a b => !le b a) (sortedKeys le r)).length
        = (inflate (resolveTau P o) teams).length := by
      rw [length_denseRanks, length_sortedKeys, hrl]
    rw [e, e2, ← compute_eq_computeOn, lft_zip_teamAggs _ _ _ (by rw [hsl, hdl])]
    have hperm := lft_unsort_zip_perm le r (inflate (resolveTau P o) teams)
      (compute K L P (unwind le r (inflate (resolveTau P o) teams)).1
        (denseRanks (fun a b => !le b a) (sortedKeys le r))) hrl
      (by rw [length_compute, hsl, hdl, Nat.min_self])
    exact (hperm.map lft_G).sum_eq

/-! ### the outcome argument as the optional rank list `rateCore` receives -/

/-- the optional rank list that `rate` hands to `rateCore`: nothing, the ranks, or the negated
scores -/
def lft_ranksOf {ρ : Type} (neg : ρ → ρ) : Outcome ρ → Option (List ρ)
  | .omitted => none
  | .ranks r => some r
  | .scores s => some (s.map neg)

theorem lft_rate_eq {ρ : Type} (K : Kind) (L : Leaves ℝ) (P : Params ℝ) (le : ρ → ρ → Bool)
    (neg : ρ → ρ) (teams : List (List (Rating ℝ))) (oc : Outcome ρ) (o : CallOpts ℝ) :
    rate K L P le neg teams oc o = rateCore K L P le teams (lft_ranksOf neg oc) o := by
  cases oc <;> rfl

theorem lft_fits {ρ : Type} (neg : ρ → ρ) (oc : Outcome ρ) (n : Nat) (h : oc.fits n) :
    ∀ r, lft_ranksOf neg oc = some r → r.length = n := by
  intro r hr
  cases oc with
  | omitted => cases hr
  | ranks r' => cases hr; exact h
  | scores s => cases hr; rw [List.length_map]; exact h

/-! ### the sorted keys are the keys of the sorted teams -/

section sortedpos
variable {κ β : Type}

/-- `sorted(ranks)` is the key column of the list of (key, (object, index)) triples that the first
`_unwind` sorts -/
theorem lft_sortedKeys_eq (le : κ → κ → Bool) (r : List κ) (objs : List β)
    (h : r.length ≤ objs.length) :
    sortedKeys le r = (sortByKey le (r.zip objs.zipIdx)).map (·.1) := by
  rw [sortedKeys_eq_mergeSort]
  unfold sortByKey
  rw [List.map_mergeSort (s := le) (fun _ _ _ _ => rfl), List.map_fst_zip (by simpa using h)]

/-- at sorted position `k` sit the original index `t = tenet[k]`, the object `objs[t]` and the key
`r[t]` of one and the same original position -/
theorem lft_sorted_pos (le : κ → κ → Bool) (r : List κ) (objs : List β)
    (hlen : r.length = objs.length) (k : Nat) (hk : k < objs.length) :
    ∃ (t : Nat) (ht : t < objs.length), ((unwind le r objs).2)[k]? = some t ∧
      ((unwind le r objs).1)[k]? = some objs[t] ∧
      (sortedKeys le r)[k]? = some (r[t]'(hlen ▸ ht)) := by
  rw [lft_sortedKeys_eq le r objs hlen.le]
  have hperm : (sortByKey le (r.zip objs.zipIdx)).Perm (r.zip objs.zipIdx) := by
    simpa [sortByKey] using List.mergeSort_perm (r.zip objs.zipIdx) _
  have hSl : (sortByKey le (r.zip objs.zipIdx)).length = objs.length := by
    rw [hperm.length_eq]; simp [hlen]
  have hkS : k < (sortByKey le (r.zip objs.zipIdx)).length := by omega
  have hmem : (sortByKey le (r.zip objs.zipIdx))[k] ∈ r.zip objs.zipIdx :=
    hperm.subset (List.getElem_mem hkS)
  obtain ⟨j, hj, hje⟩ := List.mem_iff_getElem.1 hmem
  have hj' : j < objs.length := by simp at hj; omega
  have hjr : j < r.length := by omega
  have hz : (r.zip objs.zipIdx)[j] = (r[j], (objs[j], j)) := by simp
  rw [hz] at hje
  refine ⟨j, hj', ?_, ?_, ?_⟩
  · simp only [unwind, List.getElem?_map, List.getElem?_eq_getElem hkS, ← hje, Option.map_some]
  · simp only [unwind, List.getElem?_map, List.getElem?_eq_getElem hkS, ← hje, Option.map_some]
  · simp only [List.getElem?_map, List.getElem?_eq_getElem hkS, ← hje, Option.map_some]

variable {ρ : Type}

/-- **dense ranks in the caller's terms.**  If sorted positions `k`, `q` hold the teams of original
positions `a`, `b`, then `dense[k] < dense[q]` iff rank value `r[a]` is strictly smaller than
`r[b]`, and `dense[k] = dense[q]` iff the two rank values are tied. -/
theorem lft_dense_iff (le : ρ → ρ → Bool)
    (total : ∀ a b, (le a b || le b a) = true)
    (trans : ∀ a b c, le a b = true → le b c = true → le a c = true)
    (r : List ρ) (objs : List β) (hlen : r.length = objs.length)
    (k q a b : Nat) (ha : a < r.length) (hb : b < r.length)
    (hk : ((unwind le r objs).2)[k]? = some a) (hq : ((unwind le r objs).2)[q]? = some b) :
    ∃ (hk' : k < (denseRanks (fun a b => !le b a) (sortedKeys le r)).length)
      (hq' : q < (denseRanks (fun a b => !le b a) (sortedKeys le r)).length),
      ((denseRanks (fun a b => !le b a) (sortedKeys le r))[k]
          < (denseRanks (fun a b => !le b a) (sortedKeys le r))[q] ↔ le r[b] r[a] = false) ∧
      ((denseRanks (fun a b => !le b a) (sortedKeys le r))[k]
          = (denseRanks (fun a b => !le b a) (sortedKeys le r))[q]
        ↔ (le r[a] r[b] = true ∧ le r[b] r[a] = true)) := by
  have hkn : k < objs.length := by
    have := (List.getElem?_eq_some_iff.1 hk).1
    rw [unwind_snd_length] at this; omega
  have hqn : q < objs.length := by
    have := (List.getElem?_eq_some_iff.1 hq).1
    rw [unwind_snd_length] at this; omega
  obtain ⟨a', ha', hka, -, hsa⟩ := lft_sorted_pos le r objs hlen k hkn
  obtain ⟨b', hb', hqb, -, hsb⟩ := lft_sorted_pos le r objs hlen q hqn
  have ea : a' = a := by rw [hk] at hka; exact (Option.some.inj hka).symm
  have eb : b' = b := by rw [hq] at hqb; exact (Option.some.inj hqb).symm
  subst ea; subst eb
  have hks : k < (sortedKeys le r).length := by rw [length_sortedKeys]; omega
  have hqs : q < (sortedKeys le r).length := by rw [length_sortedKeys]; omega
  have e1 : (sortedKeys le r)[k] = r[a'] := by
    rw [List.getElem?_eq_getElem hks] at hsa; exact Option.some.inj hsa
  have e2 : (sortedKeys le r)[q] = r[b'] := by
    rw [List.getElem?_eq_getElem hqs] at hsb; exact Option.some.inj hsb
  have hsorted := sortedKeys_sorted le total trans r
  refine ⟨by rw [length_denseRanks]; exact hks, by rw [length_denseRanks]; exact hqs, ?_, ?_⟩
  · rw [C03_strict le total trans _ hsorted k q hks hqs, e1, e2]
    simp
  · rw [C03_ties le total trans _ hsorted k q hks hqs, e1, e2]

end sortedpos

/-! ### a strictly best (worst) rank value gets a strictly smallest (largest) dense rank -/

section sole
variable {ρ β : Type}

/-- every original position occurs in the tenet -/
theorem lft_tenet_pos (le : ρ → ρ → Bool) (r : List ρ) (objs : List β)
    (hlen : r.length = objs.length) (i : Nat) (hi : i < objs.length) :
    ∃ k, k < objs.length ∧ ((unwind le r objs).2)[k]? = some i := by
  have hperm := (unwind_first le r objs hlen).1
  have hmem : i ∈ (unwind le r objs).2 := hperm.symm.subset (List.mem_range.2 hi)
  obtain ⟨k, hk⟩ := List.mem_iff_getElem?.1 hmem
  refine ⟨k, ?_, hk⟩
  have := (List.getElem?_eq_some_iff.1 hk).1
  rw [unwind_snd_length] at this; omega

/-- two different sorted positions hold two different original positions -/
theorem lft_tenet_inj (le : ρ → ρ → Bool) (r : List ρ) (objs : List β)
    (hlen : r.length = objs.length) (k q a : Nat)
    (hk : ((unwind le r objs).2)[k]? = some a) (hq : ((unwind le r objs).2)[q]? = some a) :
    k = q := by
  have hperm := (unwind_first le r objs hlen).1
  have hnd : ((unwind le r objs).2).Nodup := hperm.nodup_iff.2 List.nodup_range
  obtain ⟨hk1, hk2⟩ := List.getElem?_eq_some_iff.1 hk
  obtain ⟨hq1, hq2⟩ := List.getElem?_eq_some_iff.1 hq
  exact (hnd.getElem_inj_iff).1 (hk2.trans hq2.symm)

/-- the original position behind a sorted position -/
theorem lft_tenet_get (le : ρ → ρ → Bool) (r : List ρ) (objs : List β)
    (hlen : r.length = objs.length) (q : Nat) (hq : q < objs.length) :
    ∃ b, b < objs.length ∧ ((unwind le r objs).2)[q]? = some b := by
  obtain ⟨b, hb, h, -, -⟩ := lft_sorted_pos le r objs hlen q hq
  exact ⟨b, hb, h⟩

/-- **sole first.**  If the rank value of original position `i` is strictly smaller than every other
rank value, the sorted position `k` that holds team `i` has a dense rank strictly smaller than every
other dense rank. -/
theorem lft_sole_first_dense (le : ρ → ρ → Bool)
    (total : ∀ a b, (le a b || le b a) = true)
    (trans : ∀ a b c, le a b = true → le b c = true → le a c = true)
    (r : List ρ) (objs : List β) (hlen : r.length = objs.length) (i : Nat) (hi : i < r.length)
    (hfirst : ∀ (q : Nat) (hq : q < r.length), q ≠ i → le r[q] r[i] = false) :
    ∃ k, k < objs.length ∧ ((unwind le r objs).2)[k]? = some i ∧
      ∃ hk : k < (denseRanks (fun a b => !le b a) (sortedKeys le r)).length,
      ∀ (q : Nat) (hq : q < (denseRanks (fun a b => !le b a) (sortedKeys le r)).length), q ≠ k →
        (denseRanks (fun a b => !le b a) (sortedKeys le r))[k]
          < (denseRanks (fun a b => !le b a) (sortedKeys le r))[q] := by
  obtain ⟨k, hkn, hk⟩ := lft_tenet_pos le r objs hlen i (by omega)
  have hkd : k < (denseRanks (fun a b => !le b a) (sortedKeys le r)).length := by
    rw [length_denseRanks, length_sortedKeys]; omega
  refine ⟨k, hkn, hk, hkd, ?_⟩
  intro q hq hne
  have hqn : q < objs.length := by
    rw [length_denseRanks, length_sortedKeys] at hq; omega
  obtain ⟨b, hb, hqb⟩ := lft_tenet_get le r objs hlen q hqn
  have hbi : b ≠ i := by
    rintro rfl
    exact hne (lft_tenet_inj le r objs hlen q k b hqb hk)
  obtain ⟨_, _, h1, -⟩ := lft_dense_iff le total trans r objs hlen k q i b hi (by omega) hk hqb
  exact h1.2 (hfirst b (by omega) hbi)

/-- **sole last.**  If the rank value of original position `i` is strictly larger than every other
rank value, the sorted position `k` that holds team `i` has a dense rank strictly larger than every
other dense rank. -/
theorem lft_sole_last_dense (le : ρ → ρ → Bool)
    (total : ∀ a b, (le a b || le b a) = true)
    (trans : ∀ a b c, le a b = true → le b c = true → le a c = true)
    (r : List ρ) (objs : List β) (hlen : r.length = objs.length) (i : Nat) (hi : i < r.length)
    (hlast : ∀ (q : Nat) (hq : q < r.length), q ≠ i → le r[i] r[q] = false) :
    ∃ k, k < objs.length ∧ ((unwind le r objs).2)[k]? = some i ∧
      ∃ hk : k < (denseRanks (fun a b => !le b a) (sortedKeys le r)).length,
      ∀ (q : Nat) (hq : q < (denseRanks (fun a b => !le b a) (sortedKeys le r)).length), q ≠ k →
        (denseRanks (fun a b => !le b a) (sortedKeys le r))[q]
          < (denseRanks (fun a b => !le b a) (sortedKeys le r))[k] := by
  obtain ⟨k, hkn, hk⟩ := lft_tenet_pos le r objs hlen i (by omega)
  have hkd : k < (denseRanks (fun a b => !le b a) (sortedKeys le r)).length := by
    rw [length_denseRanks, length_sortedKeys]; omega
  refine ⟨k, hkn, hk, hkd, ?_⟩
  intro q hq hne
  have hqn : q < objs.length := by
    rw [length_denseRanks, length_sortedKeys] at hq; omega
  obtain ⟨b, hb, hqb⟩ := lft_tenet_get le r objs hlen q hqn
  have hbi : b ≠ i := by
    rintro rfl
    exact hne (lft_tenet_inj le r objs hlen q k b hqb hk)
  obtain ⟨_, _, h1, -⟩ := lft_dense_iff le total trans r objs hlen q k b i (by omega) hi hqb hk
  exact h1.2 (hlast b (by omega) hbi)

end sole

/-! ### transfer of a mu-relation from a sorted slot of `_compute` to the caller's slot of `rate` -/

/-- the leaves are only read by the two Thurstone–Mosteller models -/
theorem lft_compute_leaf_irrel (K : Kind) (hK : ¬ (K = .TMF ∨ K = .TMP)) (L L' : Leaves ℝ)
    (P : Params ℝ) (teams : List (List (Rating ℝ))) (dense : List Nat) :
    compute K L P teams dense = compute K L' P teams dense := by
  cases K
  · rfl
  · rfl
  · rfl
  · exact absurd (Or.inl rfl) hK
  · exact absurd (Or.inr rfl) hK

/-- a relation that only reads mu does not see the inflation of the input team -/
theorem lft_inflate_forall₂ (Rel : ℝ → ℝ → Prop) (τ : ℝ) (S T : List (Rating ℝ))
    (h : List.Forall₂ (fun p p' => Rel p.mu p'.mu) (S.map (inflP τ)) T) :
    List.Forall₂ (fun p p' => Rel p.mu p'.mu) S T := by
  rw [List.forall₂_map_left_iff] at h
  exact h

/-- a relation that only reads mu does not see the clamp of the result team -/
theorem lft_clamp_forall₂ (Rel : ℝ → ℝ → Prop) (S T : List (Rating ℝ))
    (h : List.Forall₂ (fun p p' => Rel p.mu p'.mu) S T) :
    List.Forall₂ (fun p p' => Rel p.mu p'.mu) S (List.zipWith clampP T S) := by
  induction h with
  | nil => simp
  | cons hab _ ih =>
    rw [List.zipWith_cons_cons]
    refine List.Forall₂.cons ?_ ih
    rw [clampP_mu]; exact hab

/-- slot `i` of the clamped result -/
theorem lft_clampTeams_getElem? (orig res : List (List (Rating ℝ))) (i : Nat)
    (S T : List (Rating ℝ)) (hS : orig[i]? = some S) (hT : res[i]? = some T) :
    (clampTeams orig res)[i]? = some (List.zipWith clampP T S) := by
  rw [clampTeams_eq_zipWith, List.getElem?_zipWith, hS, hT]

/-- from the raw result to the result of `rateCore`, one slot, a relation on mu -/
theorem lft_rateCore_of_raw {ρ : Type} (K : Kind) (L : Leaves ℝ) (P : Params ℝ)
    (le : ρ → ρ → Bool) (teams : List (List (Rating ℝ))) (ranks : Option (List ρ))
    (o : CallOpts ℝ) (Rel : ℝ → ℝ → Prop) (i : Nat) (hi : i < teams.length)
    (T : List (Rating ℝ)) (hT : (rawResult K L P le teams ranks o)[i]? = some T)
    (h : List.Forall₂ (fun p p' => Rel p.mu p'.mu) teams[i] T) :
    ∃ T', (rateCore K L P le teams ranks o)[i]? = some T' ∧
      List.Forall₂ (fun p p' => Rel p.mu p'.mu) teams[i] T' := by
  rw [rateCore_eq_clamp]
  split
  · exact ⟨_, lft_clampTeams_getElem? teams _ i teams[i] T (List.getElem?_eq_getElem hi) hT,
      lft_clamp_forall₂ Rel _ _ h⟩
  · exact ⟨T, hT, h⟩

/-- **slot transfer.**  If sorted position `k` holds the team of original position `i`
(`tenet[k] = i`) and a relation on mu holds, member by member, between the `k`-th sorted inflated
team and the `k`-th team `_compute` returns, then it holds between the caller's `teams[i]` and
slot `i` of the result of `rateCore` (un-sorted, clamped or not). -/
theorem lft_rateCore_slot {ρ : Type} (K : Kind) (L : Leaves ℝ) (P : Params ℝ)
    (le : ρ → ρ → Bool) (teams : List (List (Rating ℝ))) (r : List ρ) (o : CallOpts ℝ)
    (hlen : r.length = teams.length) (Rel : ℝ → ℝ → Prop) (i k : Nat) (hi : i < teams.length)
    (hk : ((unwind le r (inflate (resolveTau P o) teams)).2)[k]? = some i)
    (S T : List (Rating ℝ))
    (hS : ((unwind le r (inflate (resolveTau P o) teams)).1)[k]? = some S)
    (hT : (compute K L P (unwind le r (inflate (resolveTau P o) teams)).1
            (denseRanks (fun a b => !le b a) (sortedKeys le r)))[k]? = some T)
    (h : List.Forall₂ (fun p p' => Rel p.mu p'.mu) S T) :
    ∃ T', (rateCore K L P le teams (some r) o)[i]? = some T' ∧
      List.Forall₂ (fun p p' => Rel p.mu p'.mu) teams[i] T' := by
  have hil : (inflate (resolveTau P o) teams).length = teams.length := by simp [inflate]
  have hrl : r.length = (inflate (resolveTau P o) teams).length := by rw [hil]; exact hlen
  have hsl : ((unwind le r (inflate (resolveTau P o) teams)).1).length
      = (inflate (resolveTau P o) teams).length := by
    rw [unwind_fst_length, hrl, Nat.min_self]
  have hdl : (denseRanks (fun a b => !le b a) (sortedKeys le r)).length
      = (inflate (resolveTau P o) teams).length := by
    rw [length_denseRanks, length_sortedKeys, hrl]
  obtain ⟨h1, h2⟩ := unwind_roundtrip_slot le r (inflate (resolveTau P o) teams)
    (compute K L P (unwind le r (inflate (resolveTau P o) teams)).1
      (denseRanks (fun a b => !le b a) (sortedKeys le r))) hrl
    (by rw [length_compute, hsl, hdl, Nat.min_self]) k i hk
  have e : rawResult K L P le teams (some r) o
      = (unwind leNat (unwind le r (inflate (resolveTau P o) teams)).2
          (compute K L P (unwind le r (inflate (resolveTau P o) teams)).1
            (denseRanks (fun a b => !le b a) (sortedKeys le r)))).1 := rfl
  apply lft_rateCore_of_raw K L P le teams (some r) o Rel i hi T
  · rw [e, h1, hT]
  · rw [hS] at h2
    have h3 : (inflate (resolveTau P o) teams)[i]? = some (teams[i].map (inflP (resolveTau P o))) := by
      rw [inflate_eq_map, List.getElem?_map, List.getElem?_eq_getElem hi]; rfl
    rw [h3] at h2
    have h4 : S = teams[i].map (inflP (resolveTau P o)) := (Option.some.inj h2).symm
    rw [h4] at h
    exact lft_inflate_forall₂ Rel _ _ _ h

/-! ### lengths -/

theorem lft_rawResult_length {ρ : Type} (K : Kind) (L : Leaves ℝ) (P : Params ℝ)
    (le : ρ → ρ → Bool) (teams : List (List (Rating ℝ))) (ranks : Option (List ρ))
    (o : CallOpts ℝ) (hr : ∀ r, ranks = some r → r.length = teams.length) :
    (rawResult K L P le teams ranks o).length = teams.length := by
  cases ranks with
  | none =>
    have e : rawResult K L P le teams none o
        = compute K L P (inflate (resolveTau P o) teams)
            (List.range (inflate (resolveTau P o) teams).length) := rfl
    rw [e, length_compute]; simp [inflate]
  | some r =>
    have e : rawResult K L P le teams (some r) o
        = (unwind leNat (unwind le r (inflate (resolveTau P o) teams)).2
            (compute K L P (unwind le r (inflate (resolveTau P o) teams)).1
              (denseRanks (fun a b => !le b a) (sortedKeys le r)))).1 := rfl
    rw [e]
    simp [unwind_fst_length, unwind_snd_length, length_compute, length_inflate, hr r rfl]

theorem lft_rateCore_length {ρ : Type} (K : Kind) (L : Leaves ℝ) (P : Params ℝ)
    (le : ρ → ρ → Bool) (teams : List (List (Rating ℝ))) (ranks : Option (List ρ))
    (o : CallOpts ℝ) (hr : ∀ r, ranks = some r → r.length = teams.length) :
    (rateCore K L P le teams ranks o).length = teams.length := by
  rw [rateCore_eq_clamp]
  split
  · rw [clampTeams_eq_zipWith, List.length_zipWith, lft_rawResult_length K L P le teams ranks o hr,
      Nat.min_self]
  · exact lft_rawResult_length K L P le teams ranks o hr

/-- `rate` returns one team per input team -/
theorem lft_rate_length {ρ : Type} (K : Kind) (L : Leaves ℝ) (P : Params ℝ) (le : ρ → ρ → Bool)
    (neg : ρ → ρ) (teams : List (List (Rating ℝ))) (oc : Outcome ρ) (o : CallOpts ℝ)
    (hoc : oc.fits teams.length) :
    (rate K L P le neg teams oc o).length = teams.length := by
  rw [lft_rate_eq]
  exact lft_rateCore_length K L P le teams _ o (lft_fits neg oc _ hoc)

/-- from the `getElem?` form to the `getElem` form -/
theorem lft_of_getElem? {β : Type} (l : List β) (i : Nat) (hi : i < l.length) (Q : β → Prop)
    (h : ∃ x, l[i]? = some x ∧ Q x) : Q l[i] := by
  obtain ⟨x, h1, h2⟩ := h
  rw [List.getElem?_eq_getElem hi] at h1
  rw [Option.some.inj h1]; exact h2

/-! ### sole first / sole last: `_compute` (leaf facts only where the leaves are read) -/

theorem lft_compute_sole_first (K : Kind) (L : Leaves ℝ) (hL : K = .TMF ∨ K = .TMP → LeafFacts L)
    (P : Params ℝ) (teams : List (List (Rating ℝ))) (dense : List Nat)
    (hlen : dense.length = teams.length) (i : Nat) (hi : i < teams.length)
    (hfirst : ∀ (q : Nat) (hq : q < dense.length), q ≠ i → dense[i] < dense[q]) :
    List.Forall₂ (fun p p' => p.mu ≤ p'.mu) teams[i]
      ((compute K L P teams dense)[i]'(compute_lt hi (by omega))) := by
  by_cases hTM : K = .TMF ∨ K = .TMP
  · exact C05_compute_sole_first K L (hL hTM) P teams dense hlen i hi hfirst
  · have h := C05_compute_sole_first K codeLeaves leafFacts_code P teams dense hlen i hi hfirst
    simp only [lft_compute_leaf_irrel K hTM L codeLeaves]
    exact h

theorem lft_compute_sole_last (K : Kind) (L : Leaves ℝ) (hL : K = .TMF ∨ K = .TMP → LeafFacts L)
    (P : Params ℝ) (teams : List (List (Rating ℝ))) (dense : List Nat)
    (hlen : dense.length = teams.length) (i : Nat) (hi : i < teams.length)
    (hlast : ∀ (q : Nat) (hq : q < dense.length), q ≠ i → dense[q] < dense[i]) :
    List.Forall₂ (fun p p' => p'.mu ≤ p.mu) teams[i]
      ((compute K L P teams dense)[i]'(compute_lt hi (by omega))) := by
  by_cases hTM : K = .TMF ∨ K = .TMP
  · exact C05_compute_sole_last K L (hL hTM) P teams dense hlen i hi hlast
  · have h := C05_compute_sole_last K codeLeaves leafFacts_code P teams dense hlen i hi hlast
    simp only [lft_compute_leaf_irrel K hTM L codeLeaves]
    exact h

/-! ### sole first / sole last: `rateCore` -/

section rateCoreSole
variable {ρ : Type}

theorem lft_rateCore_sole_first (K : Kind) (L : Leaves ℝ)
    (hL : K = .TMF ∨ K = .TMP → LeafFacts L) (P : Params ℝ) (le : ρ → ρ → Bool)
    (total : ∀ a b, (le a b || le b a) = true)
    (trans : ∀ a b c, le a b = true → le b c = true → le a c = true)
    (teams : List (List (Rating ℝ))) (r : List ρ) (o : CallOpts ℝ)
    (hlen : r.length = teams.length) (i : Nat) (hi : i < teams.length)
    (hfirst : ∀ (q : Nat) (hq : q < teams.length), q ≠ i →
      le (r[q]'(hlen ▸ hq)) (r[i]'(hlen ▸ hi)) = false) :
    ∃ T', (rateCore K L P le teams (some r) o)[i]? = some T' ∧
      List.Forall₂ (fun p p' => p.mu ≤ p'.mu) teams[i] T' := by
  have hil : (inflate (resolveTau P o) teams).length = teams.length := by simp [inflate]
  have hrl : r.length = (inflate (resolveTau P o) teams).length := by rw [hil]; exact hlen
  have hsl : ((unwind le r (inflate (resolveTau P o) teams)).1).length
      = (inflate (resolveTau P o) teams).length := by
    rw [unwind_fst_length, hrl, Nat.min_self]
  have hdl : (denseRanks (fun a b => !le b a) (sortedKeys le r)).length
      = (inflate (resolveTau P o) teams).length := by
    rw [length_denseRanks, length_sortedKeys, hrl]
  obtain ⟨k, hkn, hk, hkd, hdense⟩ := lft_sole_first_dense le total trans r
    (inflate (resolveTau P o) teams) hrl i (by omega)
    (fun q hq hne => hfirst q (by omega) hne)
  have hks : k < ((unwind le r (inflate (resolveTau P o) teams)).1).length := by omega
  have hc := lft_compute_sole_first K L hL P (unwind le r (inflate (resolveTau P o) teams)).1
    (denseRanks (fun a b => !le b a) (sortedKeys le r)) (hdl.trans hsl.symm) k hks hdense
  exact lft_rateCore_slot K L P le teams r o hlen (· ≤ ·) i k hi hk _ _
    (List.getElem?_eq_getElem hks) (List.getElem?_eq_getElem (compute_lt hks hkd)) hc

theorem lft_rateCore_sole_last (K : Kind) (L : Leaves ℝ)
    (hL : K = .TMF ∨ K = .TMP → LeafFacts L) (P : Params ℝ) (le : ρ → ρ → Bool)
    (total : ∀ a b, (le a b || le b a) = true)
    (trans : ∀ a b c, le a b = true → le b c = true → le a c = true)
    (teams : List (List (Rating ℝ))) (r : List ρ) (o : CallOpts ℝ)
    (hlen : r.length = teams.length) (i : Nat) (hi : i < teams.length)
    (hlast : ∀ (q : Nat) (hq : q < teams.length), q ≠ i →
      le (r[i]'(hlen ▸ hi)) (r[q]'(hlen ▸ hq)) = false) :
    ∃ T', (rateCore K L P le teams (some r) o)[i]? = some T' ∧
      List.Forall₂ (fun p p' => p'.mu ≤ p.mu) teams[i] T' := by
  have hil : (inflate (resolveTau P o) teams).length = teams.length := by simp [inflate]
  have hrl : r.length = (inflate (resolveTau P o) teams).length := by rw [hil]; exact hlen
  have hsl : ((unwind le r (inflate (resolveTau P o) teams)).1).length
      = (inflate (resolveTau P o) teams).length := by
    rw [unwind_fst_length, hrl, Nat.min_self]
  have hdl : (denseRanks (fun a b => !le b a) (sortedKeys le r)).length
      = (inflate (resolveTau P o) teams).length := by
    rw [length_denseRanks, length_sortedKeys, hrl]
  obtain ⟨k, hkn, hk, hkd, hdense⟩ := lft_sole_last_dense le total trans r
    (inflate (resolveTau P o) teams) hrl i (by omega)
    (fun q hq hne => hlast q (by omega) hne)
  have hks : k < ((unwind le r (inflate (resolveTau P o) teams)).1).length := by omega
  have hc := lft_compute_sole_last K L hL P (unwind le r (inflate (resolveTau P o) teams)).1
    (denseRanks (fun a b => !le b a) (sortedKeys le r)) (hdl.trans hsl.symm) k hks hdense
  exact lft_rateCore_slot K L P le teams r o hlen (fun a b => b ≤ a) i k hi hk _ _
    (List.getElem?_eq_getElem hks) (List.getElem?_eq_getElem (compute_lt hks hkd)) hc

/-- ranks omitted: the dense ranks are the positions; slot `i` against `_compute` on the inflated
teams in the given order -/
theorem lft_rateCore_none_slot (K : Kind) (L : Leaves ℝ) (P : Params ℝ) (le : ρ → ρ → Bool)
    (teams : List (List (Rating ℝ))) (o : CallOpts ℝ) (Rel : ℝ → ℝ → Prop) (i : Nat)
    (hi : i < teams.length)
    (h : ∀ (h1 : i < (inflate (resolveTau P o) teams).length),
      List.Forall₂ (fun p p' => Rel p.mu p'.mu) (inflate (resolveTau P o) teams)[i]
        ((compute K L P (inflate (resolveTau P o) teams)
          (List.range (inflate (resolveTau P o) teams).length))[i]'(compute_lt h1 (by simpa using h1)))) :
    ∃ T', (rateCore K L P le teams none o)[i]? = some T' ∧
      List.Forall₂ (fun p p' => Rel p.mu p'.mu) teams[i] T' := by
  have hil : (inflate (resolveTau P o) teams).length = teams.length := by simp [inflate]
  have hi' : i < (inflate (resolveTau P o) teams).length := by omega
  have e : rawResult K L P le teams none o
      = compute K L P (inflate (resolveTau P o) teams)
          (List.range (inflate (resolveTau P o) teams).length) := rfl
  have h' := h hi'
  have h3 : (inflate (resolveTau P o) teams)[i] = teams[i].map (inflP (resolveTau P o)) := by
    simp only [inflate_eq_map, List.getElem_map]
  rw [h3] at h'
  apply lft_rateCore_of_raw K L P le teams none o Rel i hi _ _ (lft_inflate_forall₂ Rel _ _ _ h')
  rw [e]
  exact List.getElem?_eq_getElem _

end rateCoreSole

/-! ### ties in `prepared`, in the caller's terms -/

theorem lft_mu_inflate (τ : ℝ) (S : List (Rating ℝ)) (r : Nat) :
    (teamAgg (S.map (inflP τ)) r).mu = (S.map (·.mu)).sum := by
  unfold teamAgg
  simp only [sumL_eq_sum, List.map_map]
  rfl

/-- **ties in `prepared` are ties of the caller's rank values.**  Two different entries of
`prepared` with the same (dense) rank are the aggregates of two different teams `a ≠ b` of the
caller whose rank values are tied, and their `mu` is the total mu of those teams.  With the
outcome omitted there are no such entries. -/
theorem lft_prepared_tie {ρ : Type} (P : Params ℝ) (le : ρ → ρ → Bool)
    (total : ∀ a b, (le a b || le b a) = true)
    (trans : ∀ a b c, le a b = true → le b c = true → le a c = true)
    (teams : List (List (Rating ℝ))) (ranks : Option (List ρ)) (o : CallOpts ℝ)
    (hr : ∀ r, ranks = some r → r.length = teams.length)
    (i q : Nat) (hi : i < (prepared P le teams ranks o).length)
    (hq : q < (prepared P le teams ranks o).length) (hiq : i ≠ q)
    (hrank : (prepared P le teams ranks o)[i].rank = (prepared P le teams ranks o)[q].rank) :
    ∃ r, ranks = some r ∧ ∃ (a b : Nat) (ha : a < teams.length) (hb : b < teams.length)
      (ha' : a < r.length) (hb' : b < r.length), a ≠ b ∧
      le r[a] r[b] = true ∧ le r[b] r[a] = true ∧
      (prepared P le teams ranks o)[i].mu = (teams[a].map (·.mu)).sum ∧
      (prepared P le teams ranks o)[q].mu = (teams[b].map (·.mu)).sum := by
  have hil : (inflate (resolveTau P o) teams).length = teams.length := by simp [inflate]
  cases ranks with
  | none =>
    exfalso
    have e2 : prepared P le teams none o
        = teamAggs (inflate (resolveTau P o) teams)
            (List.range (inflate (resolveTau P o) teams).length) := rfl
    simp only [e2] at hi hq hrank
    rw [teamAggs_length, List.length_range, Nat.min_self] at hi hq
    rw [c05_teamAggs_getElem _ _ i hi (by simpa using hi),
      c05_teamAggs_getElem _ _ q hq (by simpa using hq)] at hrank
    simp only [teamAgg, List.getElem_range] at hrank
    exact hiq hrank
  | some r =>
    refine ⟨r, rfl, ?_⟩
    have hrl : r.length = (inflate (resolveTau P o) teams).length := by rw [hil]; exact hr r rfl
    have hsl : ((unwind le r (inflate (resolveTau P o) teams)).1).length
        = (inflate (resolveTau P o) teams).length := by
      rw [unwind_fst_length, hrl, Nat.min_self]
    have hdl : (denseRanks (fun a b => !le b a) (sortedKeys le r)).length
        = (inflate (resolveTau P o) teams).length := by
      rw [length_denseRanks, length_sortedKeys, hrl]
    have e2 : prepared P le teams (some r) o
        = teamAggs (unwind le r (inflate (resolveTau P o) teams)).1
            (denseRanks (fun a b => !le b a) (sortedKeys le r)) := rfl
    simp only [e2] at hi hq hrank ⊢
    rw [teamAggs_length, hsl, hdl, Nat.min_self] at hi hq
    have his : i < ((unwind le r (inflate (resolveTau P o) teams)).1).length := by omega
    have hqs : q < ((unwind le r (inflate (resolveTau P o) teams)).1).length := by omega
    have hid : i < (denseRanks (fun a b => !le b a) (sortedKeys le r)).length := by omega
    have hqd : q < (denseRanks (fun a b => !le b a) (sortedKeys le r)).length := by omega
    rw [c05_teamAggs_getElem _ _ i his hid, c05_teamAggs_getElem _ _ q hqs hqd] at hrank ⊢
    obtain ⟨a, ha, hta, hsa, -⟩ := lft_sorted_pos le r (inflate (resolveTau P o) teams) hrl i hi
    obtain ⟨b, hb, htb, hsb, -⟩ := lft_sorted_pos le r (inflate (resolveTau P o) teams) hrl q hq
    have hab : a ≠ b := by
      rintro rfl
      exact hiq (lft_tenet_inj le r _ hrl i q a hta htb)
    obtain ⟨_, _, -, h2⟩ := lft_dense_iff le total trans r (inflate (resolveTau P o) teams) hrl
      i q a b (by omega) (by omega) hta htb
    have htie := h2.1 (by simpa only [teamAgg] using hrank)
    have ea : (unwind le r (inflate (resolveTau P o) teams)).1[i]
        = teams[a].map (inflP (resolveTau P o)) := by
      rw [List.getElem?_eq_getElem his] at hsa
      rw [Option.some.inj hsa]
      simp only [inflate_eq_map, List.getElem_map]
    have eb : (unwind le r (inflate (resolveTau P o) teams)).1[q]
        = teams[b].map (inflP (resolveTau P o)) := by
      rw [List.getElem?_eq_getElem hqs] at hsb
      rw [Option.some.inj hsb]
      simp only [inflate_eq_map, List.getElem_map]
    refine ⟨a, b, by omega, by omega, by omega, by omega, hab, htie.1, htie.2, ?_, ?_⟩
    · rw [ea, lft_mu_inflate]
    · rw [eb, lft_mu_inflate]

end OS
end
