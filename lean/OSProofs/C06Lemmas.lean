import OSProofs.RealInst
import OSProofs.LeafFacts
import OSProofs.GammaRealLemmas
import Mathlib.Tactic.Positivity
import Mathlib.Tactic.Linarith
import Mathlib.Tactic.Ring
import Mathlib.Algebra.Order.BigOperators.Group.List
import Mathlib.Data.List.Forall2

/-!
# Helper lemmas for C06 (sigma stays positive, grows by at most tau, limit_sigma caps it)

Everything is at `α := ℝ`.  The chain is

* `GammaOK g` : the gamma callback is non-negative on the arguments the models feed it
  (`0 ≤ c`, `0 ≤ sigma_squared`); `gammaVal_nonneg` discharges it for the tagged family.
* pair terms / the Plackett–Luce sum have a non-negative variance component;
* `applyTeam` is `map (updPlayer …)` and `updPlayer` can only shrink a non-negative sigma
  while keeping a positive sigma positive;
* `unwind` only permutes.
-/

noncomputable section
namespace OS
open Scalar

/-! ### sums -/

theorem sumL_nonneg {l : List ℝ} (h : ∀ x ∈ l, 0 ≤ x) : 0 ≤ sumL l := by
  rw [sumL_eq_sum]; exact List.sum_nonneg h

theorem le_sum_of_mem_of_nonneg {l : List ℝ} (h : ∀ x ∈ l, 0 ≤ x) {a : ℝ} (ha : a ∈ l) :
    a ≤ l.sum := by
  induction l with
  | nil => simp at ha
  | cons y ys ih =>
    have hy : 0 ≤ y := h y (List.mem_cons_self)
    have hys : ∀ x ∈ ys, 0 ≤ x := fun x hx => h x (List.mem_cons_of_mem _ hx)
    rw [List.sum_cons]
    rcases List.mem_cons.1 ha with rfl | ha'
    · have := List.sum_nonneg hys; linarith
    · have := ih hys ha'; linarith

/-! ### the gamma callback -/

/-- the gamma callback returns a non-negative number whenever it is handed a non-negative
`c` and a non-negative team variance (the only way the five models call it) -/
def GammaOK (g : GammaFn ℝ) : Prop :=
  ∀ (c : ℝ) (k : Nat) (mu s2 : ℝ) (team : List (Rating ℝ)) (r : Nat),
    0 ≤ c → 0 ≤ s2 → 0 ≤ gammaVal g c k mu s2 team r

/-- every callback of the tagged family is non-negative (a constant one iff its constant is) -/
theorem gammaVal_nonneg (g : GammaFn ℝ) (ht : g.Tagged) (hg : ∀ x, g = .const x → 0 ≤ x)
    (c : ℝ) (k : Nat) (mu s2 : ℝ) (team : List (Rating ℝ)) (r : Nat) (hc : 0 ≤ c) (hs : 0 ≤ s2) :
    0 ≤ gammaVal g c k mu s2 team r := by
  cases g with
  | fn f => exact ht.elim
  | dflt => simp only [gammaVal, sc_sqrt]; exact div_nonneg (Real.sqrt_nonneg _) hc
  | const x => simp only [gammaVal]; exact hg x rfl
  | invK => simp only [gammaVal, sc_ofNat]; positivity
  | rankDep => simp only [gammaVal, sc_ofNat]; positivity
  | sq => simp only [gammaVal]; exact div_nonneg hs (mul_self_nonneg c)
  | zero => simp only [gammaVal, sc_ofNat, Nat.cast_zero]; exact le_refl _

theorem gammaOK_of_tag (g : GammaFn ℝ) (ht : g.Tagged) (hg : ∀ x, g = .const x → 0 ≤ x) : GammaOK g :=
  fun c k mu s2 team r hc hs => gammaVal_nonneg g ht hg c k mu s2 team r hc hs

/-- an arbitrary callback is `GammaOK` exactly when the function is non-negative for `c, σ² ≥ 0` -/
theorem gam_gammaOK_fn (f : ℝ → Nat → ℝ → ℝ → List (Rating ℝ) → Nat → ℝ) :
    GammaOK (.fn f) ↔ ∀ c k mu s2 team r, 0 ≤ c → 0 ≤ s2 → 0 ≤ f c k mu s2 team r := Iff.rfl

/-- the team-reading callback `sqrt(Σ_team σ²)/c` is non-negative for `c ≥ 0` -/
theorem gam_teamSigma_gammaOK : GammaOK gammaTeamSigma :=
  fun c k mu s2 team r hc _ => gam_teamSigma_nonneg c hc k mu s2 team r

/-! ### team aggregates -/

theorem teamAgg_sig2_nonneg (team : List (Rating ℝ)) (rank : Nat) :
    0 ≤ (teamAgg team rank).sig2 := by
  simp only [teamAgg]
  apply sumL_nonneg
  intro x hx
  obtain ⟨p, _, rfl⟩ := List.mem_map.1 hx
  exact mul_self_nonneg _

theorem mem_teamAggs {teams : List (List (Rating ℝ))} {ranks : List Nat} {t : TeamAgg ℝ}
    (h : t ∈ teamAggs teams ranks) : ∃ S ∈ teams, ∃ r, t = teamAgg S r := by
  simp only [teamAggs] at h
  obtain ⟨⟨S, r⟩, hm, rfl⟩ := List.mem_map.1 h
  exact ⟨S, (List.of_mem_zip hm).1, r, rfl⟩

theorem teamAggs_sig2_nonneg {teams : List (List (Rating ℝ))} {ranks : List Nat} {t : TeamAgg ℝ}
    (h : t ∈ teamAggs teams ranks) : 0 ≤ t.sig2 := by
  obtain ⟨S, _, r, rfl⟩ := mem_teamAggs h
  exact teamAgg_sig2_nonneg S r

/-! ### pair terms -/

theorem sumPairs_snd_nonneg {prs : List (ℝ × ℝ)} (h : ∀ x ∈ prs, 0 ≤ x.2) :
    0 ≤ (sumPairs prs).2 := by
  simp only [sumPairs]
  apply sumL_nonneg
  intro y hy
  obtain ⟨x, hx, rfl⟩ := List.mem_map.1 hy
  exact h x hx

/-- Bradley–Terry: `γ·(σ_i²/c_iq)/c_iq · p(1-p) ≥ 0` -/
theorem btPair_snd_nonneg (beta : ℝ) (g : GammaFn ℝ) (hg : GammaOK g) (n : Nat)
    (ti tq : TeamAgg ℝ) (hi : 0 ≤ ti.sig2) : 0 ≤ (btPair beta g n ti tq).2 := by
  simp only [btPair, sc_sqrt, sc_exp, sc_ofNat, Nat.cast_one, Nat.cast_ofNat]
  have hc : 0 ≤ √(ti.sig2 + tq.sig2 + 2 * (beta * beta)) := Real.sqrt_nonneg _
  have hgam := hg _ n ti.mu ti.sig2 ti.players ti.rank hc hi
  have he : 0 < Real.exp ((tq.mu - ti.mu) / √(ti.sig2 + tq.sig2 + 2 * (beta * beta))) :=
    Real.exp_pos _
  have hp0 : 0 ≤ 1 / (1 + Real.exp ((tq.mu - ti.mu) / √(ti.sig2 + tq.sig2 + 2 * (beta * beta)))) :=
    by positivity
  have hp1 : 1 / (1 + Real.exp ((tq.mu - ti.mu) / √(ti.sig2 + tq.sig2 + 2 * (beta * beta)))) ≤ 1 := by
    rw [div_le_one (by positivity)]; linarith
  exact mul_nonneg (mul_nonneg (div_nonneg (mul_nonneg hgam (div_nonneg hi hc)) hc) hp0)
    (sub_nonneg.2 hp1)

/-- Thurstone–Mosteller: `γ·(σ_i²/c_iq)/c_iq · W ≥ 0` (or `W̃` at draw margin `κ/c_iq ≥ 0`) -/
theorem tmPair_snd_nonneg (L : Leaves ℝ) (hL : LeafFacts L) (cmul beta kappa : ℝ)
    (hm : 0 ≤ cmul) (hk : 0 ≤ kappa) (g : GammaFn ℝ) (hg : GammaOK g) (n : Nat)
    (ti tq : TeamAgg ℝ) (hi : 0 ≤ ti.sig2) : 0 ≤ (tmPair L cmul beta kappa g n ti tq).2 := by
  simp only [tmPair, sc_sqrt, sc_ofNat, Nat.cast_ofNat]
  have hc : 0 ≤ cmul * √(ti.sig2 + tq.sig2 + 2 * (beta * beta)) :=
    mul_nonneg hm (Real.sqrt_nonneg _)
  have hgam := hg _ n ti.mu ti.sig2 ti.players ti.rank hc hi
  have hpre : 0 ≤ gammaVal g (cmul * √(ti.sig2 + tq.sig2 + 2 * (beta * beta))) n ti.mu ti.sig2 ti.players ti.rank
      * (ti.sig2 / (cmul * √(ti.sig2 + tq.sig2 + 2 * (beta * beta))))
      / (cmul * √(ti.sig2 + tq.sig2 + 2 * (beta * beta))) :=
    div_nonneg (mul_nonneg hgam (div_nonneg hi hc)) hc
  split_ifs
  · exact mul_nonneg hpre (hL.w_nonneg _ _)
  · exact mul_nonneg hpre (hL.w_nonneg _ _)
  · exact mul_nonneg hpre (hL.wt_nonneg _ _ (div_nonneg hk hc))

/-! ### Plackett–Luce -/

theorem zip_map_zip_map {β γ δ : Type} (f : β → γ) (g : β → δ) (l : List β) :
    l.zip ((l.map f).zip (l.map g)) = l.map (fun t => (t, f t, g t)) := by
  induction l with
  | nil => rfl
  | cons x xs ih => simp only [List.map_cons, List.zip_cons_cons, ih]

/-- `p_iq = e_i / sum_q[q] ∈ [0,1]` when team `i` is one of the teams `sum_q[q]` runs over -/
theorem pl_p_mem (ts : List (TeamAgg ℝ)) (c : ℝ) (ti tq : TeamAgg ℝ) (hti : ti ∈ ts)
    (hr : tq.rank ≤ ti.rank) :
    0 ≤ Real.exp (ti.mu / c) /
        sumL ((ts.filter (fun tj => decide (tq.rank ≤ tj.rank))).map (fun tj => exp (tj.mu / c)))
    ∧ Real.exp (ti.mu / c) /
        sumL ((ts.filter (fun tj => decide (tq.rank ≤ tj.rank))).map (fun tj => exp (tj.mu / c)))
      ≤ 1 := by
  rw [sumL_eq_sum]
  have hnn : ∀ x ∈ (ts.filter (fun tj => decide (tq.rank ≤ tj.rank))).map
      (fun tj => (exp (tj.mu / c) : ℝ)), 0 ≤ x := by
    intro x hx
    obtain ⟨t, _, rfl⟩ := List.mem_map.1 hx
    exact (Real.exp_pos _).le
  have hmem : Real.exp (ti.mu / c) ∈ (ts.filter (fun tj => decide (tq.rank ≤ tj.rank))).map
      (fun tj => (exp (tj.mu / c) : ℝ)) :=
    List.mem_map.2 ⟨ti, List.mem_filter.2 ⟨hti, by simpa using hr⟩, rfl⟩
  have hle := le_sum_of_mem_of_nonneg hnn hmem
  have hpos : 0 < Real.exp (ti.mu / c) := Real.exp_pos _
  refine ⟨div_nonneg hpos.le (hpos.le.trans hle), ?_⟩
  rw [div_le_one (lt_of_lt_of_le hpos hle)]
  exact hle

theorem plOmegaDelta_snd_nonneg (g : GammaFn ℝ) (hg : GammaOK g) (ts : List (TeamAgg ℝ))
    (c : ℝ) (hc : 0 ≤ c) (i : Nat) (ti : TeamAgg ℝ) (hti : ti ∈ ts) (hs : 0 ≤ ti.sig2) :
    0 ≤ (plOmegaDelta g ts c (plSumQ ts c) (plA ts) i ti).2 := by
  simp only [plOmegaDelta, plSumQ, plA, zip_map_zip_map, sc_exp, sc_ofNat, Nat.cast_one]
  refine mul_nonneg (mul_nonneg ?_ (div_nonneg hs (mul_self_nonneg c)))
    (hg c ts.length ti.mu ti.sig2 ti.players ti.rank hc hs)
  apply sumL_nonneg
  intro y hy
  obtain ⟨x, hx, rfl⟩ := List.mem_map.1 hy
  obtain ⟨hx1, hx2⟩ := List.mem_filter.1 hx
  have hx3 := List.fst_mem_of_mem_zipIdx hx1
  obtain ⟨tq, htq, hxe⟩ := List.mem_map.1 hx3
  have hr : tq.rank ≤ ti.rank := by
    have : x.1.1 = tq := by rw [← hxe]
    rw [this] at hx2; simpa using hx2
  obtain ⟨hp0, hp1⟩ := pl_p_mem ts c ti tq hti hr
  rw [← hxe]
  exact div_nonneg (mul_nonneg hp0 (sub_nonneg.2 hp1)) (Nat.cast_nonneg _)

/-! ### all five models: the variance component of every team is non-negative -/

theorem othersOf_subset {β : Type} (ts : List β) (i : Nat) : ∀ x ∈ othersOf ts i, x ∈ ts := by
  intro x hx
  simp only [othersOf] at hx
  obtain ⟨y, hy, rfl⟩ := List.mem_map.1 hx
  exact List.fst_mem_of_mem_zipIdx (List.mem_filter.1 hy).1

theorem omegaDelta_snd_nonneg (K : Kind) (L : Leaves ℝ)
    (hL : K = .TMF ∨ K = .TMP → LeafFacts L) (P : Params ℝ)
    (hk : 0 ≤ P.kappa) (hg : GammaOK P.gamma) (ts : List (TeamAgg ℝ))
    (hts : ∀ t ∈ ts, 0 ≤ t.sig2) : ∀ od ∈ omegaDelta K L P ts, 0 ≤ od.2 := by
  intro od hod
  cases K <;> simp only [omegaDelta] at hod <;> obtain ⟨x, hx, rfl⟩ := List.mem_map.1 hod <;>
    have hx1 := List.fst_mem_of_mem_zipIdx hx
  · exact plOmegaDelta_snd_nonneg _ hg ts _ (by simp only [plC, sc_sqrt]; exact Real.sqrt_nonneg _)
      _ _ hx1 (hts _ hx1)
  · apply sumPairs_snd_nonneg
    intro y hy
    obtain ⟨tq, _, rfl⟩ := List.mem_map.1 hy
    exact btPair_snd_nonneg _ _ hg _ _ _ (hts _ hx1)
  · apply sumPairs_snd_nonneg
    intro y hy
    obtain ⟨tq, _, rfl⟩ := List.mem_map.1 hy
    exact btPair_snd_nonneg _ _ hg _ _ _ (hts _ hx1)
  · apply sumPairs_snd_nonneg
    intro y hy
    obtain ⟨tq, _, rfl⟩ := List.mem_map.1 hy
    exact tmPair_snd_nonneg L (hL (Or.inl rfl)) _ _ _ (by simp) hk _ hg _ _ _ (hts _ hx1)
  · apply sumPairs_snd_nonneg
    intro y hy
    obtain ⟨tq, _, rfl⟩ := List.mem_map.1 hy
    exact tmPair_snd_nonneg L (hL (Or.inr rfl)) _ _ _ (by simp) hk _ hg _ _ _ (hts _ hx1)

/-! ### the per-player update -/

/-- the per-player update at the tail of every `_compute` -/
def updPlayer (kappa sig2 omega delta : ℝ) (p : Rating ℝ) : Rating ℝ :=
  { p with mu := p.mu + p.sigma * p.sigma / sig2 * omega,
           sigma := p.sigma * sqrt (smax (ofNat 1 - p.sigma * p.sigma / sig2 * delta) kappa) }

theorem applyTeam_eq_map (kappa : ℝ) (t : TeamAgg ℝ) (omega delta : ℝ) :
    applyTeam kappa t omega delta = t.players.map (updPlayer kappa t.sig2 omega delta) := rfl

@[simp] theorem updPlayer_id (kappa sig2 omega delta : ℝ) (p : Rating ℝ) :
    (updPlayer kappa sig2 omega delta p).id = p.id := rfl

theorem updPlayer_sigma (kappa sig2 omega delta : ℝ) (p : Rating ℝ) :
    (updPlayer kappa sig2 omega delta p).sigma
      = p.sigma * √(max (1 - p.sigma * p.sigma / sig2 * delta) kappa) := by
  simp only [updPlayer, sc_sqrt, sc_ofNat, Nat.cast_one, smax_eq_max]

/-- the factor `√max(1 − share·δ, κ)` lies in `(0, 1]` -/
theorem shrink_factor_mem {kappa sig2 delta s : ℝ} (hd : 0 ≤ delta) (hk0 : 0 < kappa)
    (hk1 : kappa ≤ 1) (hs : 0 ≤ sig2) :
    0 < √(max (1 - s * s / sig2 * delta) kappa) ∧ √(max (1 - s * s / sig2 * delta) kappa) ≤ 1 := by
  constructor
  · exact Real.sqrt_pos.2 (lt_of_lt_of_le hk0 (le_max_right _ _))
  · rw [Real.sqrt_le_one]
    refine max_le ?_ hk1
    have : 0 ≤ s * s / sig2 * delta := mul_nonneg (div_nonneg (mul_self_nonneg s) hs) hd
    linarith

theorem updPlayer_sigma_le {kappa sig2 omega delta : ℝ} (hd : 0 ≤ delta) (hk0 : 0 < kappa)
    (hk1 : kappa ≤ 1) (hs : 0 ≤ sig2) (p : Rating ℝ) (hp : 0 ≤ p.sigma) :
    (updPlayer kappa sig2 omega delta p).sigma ≤ p.sigma := by
  rw [updPlayer_sigma]
  exact mul_le_of_le_one_right hp (shrink_factor_mem hd hk0 hk1 hs).2

theorem updPlayer_sigma_nonneg {kappa sig2 omega delta : ℝ} (p : Rating ℝ) (hp : 0 ≤ p.sigma) :
    0 ≤ (updPlayer kappa sig2 omega delta p).sigma := by
  rw [updPlayer_sigma]
  exact mul_nonneg hp (Real.sqrt_nonneg _)

theorem updPlayer_sigma_pos {kappa sig2 omega delta : ℝ} (hk0 : 0 < kappa)
    (p : Rating ℝ) (hp : 0 < p.sigma) :
    0 < (updPlayer kappa sig2 omega delta p).sigma := by
  rw [updPlayer_sigma]
  exact mul_pos hp (Real.sqrt_pos.2 (lt_of_lt_of_le hk0 (le_max_right _ _)))

/-! ### inflation -/

/-- the `tau` inflation of one player -/
def inflP (tau : ℝ) (p : Rating ℝ) : Rating ℝ :=
  { p with sigma := sqrt (p.sigma * p.sigma + tau * tau) }

theorem inflate_eq_map (tau : ℝ) (teams : List (List (Rating ℝ))) :
    inflate tau teams = teams.map (·.map (inflP tau)) := rfl

theorem inflP_sigma (tau : ℝ) (p : Rating ℝ) :
    (inflP tau p).sigma = √(p.sigma ^ 2 + tau ^ 2) := by
  simp only [inflP, sc_sqrt, sq]

@[simp] theorem inflP_id (tau : ℝ) (p : Rating ℝ) : (inflP tau p).id = p.id := rfl

theorem inflP_sigma_nonneg (tau : ℝ) (p : Rating ℝ) : 0 ≤ (inflP tau p).sigma := by
  rw [inflP_sigma]; exact Real.sqrt_nonneg _

theorem inflP_sigma_pos (tau : ℝ) (p : Rating ℝ) (h : p.sigma ≠ 0 ∨ tau ≠ 0) :
    0 < (inflP tau p).sigma := by
  rw [inflP_sigma]
  apply Real.sqrt_pos.2
  rcases h with h | h
  · have := pow_pos (abs_pos.2 h) 2; rw [sq_abs] at this; have := sq_nonneg tau; linarith
  · have := pow_pos (abs_pos.2 h) 2; rw [sq_abs] at this; have := sq_nonneg p.sigma; linarith

/-! ### `unwind` only permutes -/

theorem mem_unwind_fst {κ β : Type} (le : κ → κ → Bool) (tenet : List κ) (objs : List β)
    {x : β} (h : x ∈ (unwind le tenet objs).1) : x ∈ objs := by
  simp only [unwind, sortByKey] at h
  obtain ⟨y, hy, rfl⟩ := List.mem_map.1 h
  rw [List.mem_mergeSort] at hy
  obtain ⟨k, b, i⟩ := y
  exact List.fst_mem_of_mem_zipIdx (List.of_mem_zip hy).2

/-! ### sort, compute, unsort: the slot correspondence

`rateCore` sorts the teams by rank (`unwind le r`), computes, and sorts the result back by the
remembered original indices (`unwind leNat u.2`).  `unwind_forall₂` says that any slot-wise
relation `R` between the *sorted* input and the computed list holds slot-wise between the
*original* input and the un-sorted result. -/

theorem unsort_forall₂ {β γ : Type} (objs : List β) (P : List (β × Nat)) (hP : P.Perm objs.zipIdx)
    (R : β → γ → Prop) (C : List γ) (hC : List.Forall₂ R (P.map (·.1)) C) :
    List.Forall₂ R objs (unwind leNat (P.map (·.2)) C).1 := by
  have hPlen : P.length = objs.length := by simpa using hP.length_eq
  have hClen : C.length = objs.length := by have := hC.length_eq; simp at this; omega
  obtain ⟨_, hCget⟩ := List.forall₂_iff_get.1 hC
  simp only [unwind, sortByKey]
  generalize hQ : (P.map (·.2)).zip C.zipIdx = Q
  generalize hs2 : Q.mergeSort (fun a b => leNat a.1 b.1) = s2
  have hperm : s2.Perm Q := hs2 ▸ List.mergeSort_perm _ _
  have hQlen : Q.length = objs.length := by subst hQ; simp; omega
  have hslen : s2.length = objs.length := by rw [hperm.length_eq, hQlen]
  -- every sorted entry pairs an original index with a related object
  have ha : ∀ z ∈ s2, ∃ b, objs[z.1]? = some b ∧ R b z.2.1 := by
    intro z hz
    have hz' : z ∈ Q := hperm.subset hz
    obtain ⟨k, hk, rfl⟩ := List.mem_iff_getElem.1 hz'
    have hk' : k < P.length := by omega
    have hkC : k < C.length := by omega
    refine ⟨P[k].1, ?_, ?_⟩
    · have h1 : P[k] ∈ objs.zipIdx := hP.subset (List.getElem_mem _)
      have h2 := List.mem_zipIdx_iff_getElem?.1 h1
      subst hQ
      simpa using h2
    · have h3 := hCget k (by simpa using hk') hkC
      subst hQ
      simpa using h3
  have hkeys : s2.map (·.1) = List.range objs.length := by
    apply List.Perm.eq_of_pairwise (le := (· ≤ ·))
    · intro a b _ _ h1 h2; exact Nat.le_antisymm h1 h2
    · rw [List.pairwise_map, ← hs2]
      have := List.pairwise_mergeSort (le := fun a b : Nat × γ × Nat => leNat a.1 b.1)
        (by intro a b c; simp only [leNat, decide_eq_true_eq]; omega)
        (by intro a b; simp only [leNat, Bool.or_eq_true, decide_eq_true_eq]; omega) Q
      exact this.imp (by intro a b h; simpa [leNat] using h)
    · exact List.pairwise_le_range
    · have e1 : Q.map (·.1) = P.map (·.2) := by
        subst hQ; exact List.map_fst_zip (by simp; omega)
      have e2 : objs.zipIdx.map (·.2) = List.range objs.length := by
        simp [List.range_eq_range']
      have := (hperm.map (fun x : Nat × γ × Nat => x.1)).trans
        (e1 ▸ (hP.map (fun x : β × Nat => x.2)))
      rwa [e2] at this
  apply List.forall₂_of_length_eq_of_get
  · simp [hslen]
  · intro i h1 h2
    have hi : i < s2.length := by omega
    have hki : s2[i].1 = i := by
      have := congrArg (fun l => l[i]?) hkeys
      simpa [hi, h1] using this
    obtain ⟨b, hb1, hb2⟩ := ha s2[i] (List.getElem_mem _)
    rw [hki, List.getElem?_eq_getElem h1] at hb1
    simp only [List.get_eq_getElem, List.getElem_map]
    rw [Option.some.inj hb1]
    exact hb2

theorem unwind_forall₂ {κ β γ : Type} (le : κ → κ → Bool) (tenet : List κ) (objs : List β)
    (hlen : objs.length ≤ tenet.length) (R : β → γ → Prop) (C : List γ)
    (hC : List.Forall₂ R (unwind le tenet objs).1 C) :
    List.Forall₂ R objs (unwind leNat (unwind le tenet objs).2 C).1 := by
  have hP : ((sortByKey le (tenet.zip objs.zipIdx)).map (·.2)).Perm objs.zipIdx := by
    have h1 := (List.mergeSort_perm (tenet.zip objs.zipIdx) (fun a b => le a.1 b.1)).map
      (fun x : κ × β × Nat => x.2)
    have h2 : (tenet.zip objs.zipIdx).map (fun x : κ × β × Nat => x.2) = objs.zipIdx :=
      List.map_snd_zip (by simpa using hlen)
    rw [h2] at h1
    exact h1
  have h3 := unsort_forall₂ objs _ hP R C (by simpa [unwind, List.map_map, Function.comp_def] using hC)
  simpa [unwind, List.map_map, Function.comp_def] using h3

theorem c06_unwind_fst_length {κ β : Type} (le : κ → κ → Bool) (tenet : List κ) (objs : List β)
    (hlen : objs.length ≤ tenet.length) : (unwind le tenet objs).1.length = objs.length := by
  simp [unwind, sortByKey]; omega

theorem c06_denseRanksAux_length {ρ : Type} (lt : ρ → ρ → Bool) (prev : ρ) (idx s : Nat) (l : List ρ) :
    (denseRanksAux lt prev idx s l).length = l.length := by
  induction l generalizing prev idx s with
  | nil => rfl
  | cons x xs ih => simp [denseRanksAux, ih]

theorem c06_denseRanks_length {ρ : Type} (lt : ρ → ρ → Bool) (l : List ρ) :
    (denseRanks lt l).length = l.length := by
  cases l with
  | nil => rfl
  | cons x xs => simp [denseRanks, c06_denseRanksAux_length]

theorem c06_sortedKeys_length {κ : Type} (le : κ → κ → Bool) (tenet : List κ) :
    (sortedKeys le tenet).length = tenet.length := by
  simp [sortedKeys, sortByKey]

theorem c06_omegaDelta_length (K : Kind) (L : Leaves ℝ) (P : Params ℝ) (ts : List (TeamAgg ℝ)) :
    (omegaDelta K L P ts).length = ts.length := by
  cases K <;> simp [omegaDelta]

/-- `T` is what the tail of `_compute` makes of the team `S` for some rank, some `ω` and some
non-negative `δ` -/
def IsUpdateOf (kappa : ℝ) (S T : List (Rating ℝ)) : Prop :=
  ∃ (rank : Nat) (omega delta : ℝ), 0 ≤ delta ∧ T = applyTeam kappa (teamAgg S rank) omega delta

theorem compute_mem (K : Kind) (L : Leaves ℝ)
    (hL : K = .TMF ∨ K = .TMP → LeafFacts L) (P : Params ℝ)
    (hk : 0 ≤ P.kappa) (hg : GammaOK P.gamma) (teams : List (List (Rating ℝ))) (dense : List Nat) :
    ∀ T ∈ compute K L P teams dense, ∃ S ∈ teams, IsUpdateOf P.kappa S T := by
  intro T hT
  simp only [compute] at hT
  obtain ⟨⟨t, ω, δ⟩, hx, rfl⟩ := List.mem_map.1 hT
  obtain ⟨ht, hod⟩ := List.of_mem_zip hx
  obtain ⟨S, hS, r, rfl⟩ := mem_teamAggs ht
  exact ⟨S, hS, r, ω, δ,
    omegaDelta_snd_nonneg K L hL P hk hg _ (fun t ht => teamAggs_sig2_nonneg ht) _ hod, rfl⟩

theorem compute_forall₂ (K : Kind) (L : Leaves ℝ)
    (hL : K = .TMF ∨ K = .TMP → LeafFacts L) (P : Params ℝ)
    (hk : 0 ≤ P.kappa) (hg : GammaOK P.gamma) (teams : List (List (Rating ℝ))) (dense : List Nat)
    (hlen : teams.length ≤ dense.length) :
    List.Forall₂ (IsUpdateOf P.kappa) teams (compute K L P teams dense) := by
  have hts : (teamAggs teams dense).length = teams.length := by simp [teamAggs]; omega
  apply List.forall₂_of_length_eq_of_get
  · simp [compute, c06_omegaDelta_length, hts]
  · intro i h1 h2
    have hi : i < (teamAggs teams dense).length := by omega
    have hio : i < (omegaDelta K L P (teamAggs teams dense)).length := by
      rw [c06_omegaDelta_length]; exact hi
    have hd : i < dense.length := by omega
    refine ⟨dense[i], ((omegaDelta K L P (teamAggs teams dense))[i]).1,
      ((omegaDelta K L P (teamAggs teams dense))[i]).2, ?_, ?_⟩
    · exact omegaDelta_snd_nonneg K L hL P hk hg _ (fun t ht => teamAggs_sig2_nonneg ht) _
        (List.getElem_mem _)
    · simp [compute, teamAggs]


/-! ### the clamp -/

/-- the limit_sigma clamp of one player: `q` is the new rating, `p` the deep-copied original -/
def clampP (q p : Rating ℝ) : Rating ℝ :=
  if q.sigma ≤ p.sigma then q else { q with sigma := p.sigma }

theorem clampTeams_eq_zipWith (orig res : List (List (Rating ℝ))) :
    clampTeams orig res = List.zipWith (List.zipWith clampP) res orig := by
  simp only [clampTeams, List.zip_eq_zipWith, List.map_zipWith]
  rfl

theorem clampP_sigma (q p : Rating ℝ) : (clampP q p).sigma = min q.sigma p.sigma := by
  unfold clampP
  split_ifs with h
  · exact (min_eq_left h).symm
  · exact (min_eq_right (not_le.1 h).le).symm

@[simp] theorem clampP_id (q p : Rating ℝ) : (clampP q p).id = q.id := by
  unfold clampP; split_ifs <;> rfl

@[simp] theorem clampP_mu (q p : Rating ℝ) : (clampP q p).mu = q.mu := by
  unfold clampP; split_ifs <;> rfl

theorem forall₂_zipWith_right {α β γ : Type} {A : α → β → Prop} (f : β → α → γ)
    {l₁ : List α} {l₂ : List β} (h : List.Forall₂ A l₁ l₂) :
    List.Forall₂ (fun a c => ∃ b, A a b ∧ c = f b a) l₁ (List.zipWith f l₂ l₁) := by
  induction h with
  | nil => exact List.Forall₂.nil
  | cons hab _ ih => exact List.Forall₂.cons ⟨_, hab, rfl⟩ ih

end OS
end
