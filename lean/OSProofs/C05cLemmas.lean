import OSProofs.C05Lemmas
import OSProofs.Props.C01
import Mathlib.Logic.Equiv.Basic
/-!
# Helper lemmas for C05c (place exchange, identical teams under Plackett–Luce)

Everything is proved on the closed forms of `OSProofs/Spec.lean` (index sums over `Fin n`) and
transported to `omegaDelta` on lists through `C01_omegaDelta`.
-/
noncomputable section
namespace OS
open Finset

/-! ### from `omegaDelta` on a list to the closed form on a `Game n` -/

/-- the `Ω` of the closed form, by model -/
def swp_specΩ {n : ℕ} (K : Kind) (L : Leaves ℝ) (β κ : ℝ) (G : Game n) (i : Fin n) : ℝ :=
  match K with
  | .PL => SpecPL.Ω G β i
  | .BTF => SpecBT.ΩF G β i
  | .BTP => SpecBT.ΩP G β i
  | .TMF => SpecTM.ΩF G L β κ i
  | .TMP => SpecTM.ΩP G L β κ i

/-- the game read off a list whose length is known to be `n` -/
def swp_gameAt (ts : List (TeamAgg ℝ)) (n : ℕ) (h : ts.length = n) : Game n :=
  { θ := fun p => (ts[p.1]'(by omega)).mu,
    s2 := fun p => (ts[p.1]'(by omega)).sig2,
    r := fun p => (ts[p.1]'(by omega)).rank }

theorem swp_omega_spec (K : Kind) (L : Leaves ℝ) (P : Params ℝ) (ts : List (TeamAgg ℝ))
    (n : ℕ) (h : ts.length = n) (i : Nat) (hi : i < ts.length) :
    ((omegaDelta K L P ts)[i]'(omegaDelta_lt L P ts hi)).1
      = swp_specΩ K L P.beta P.kappa (swp_gameAt ts n h) ⟨i, h ▸ hi⟩ := by
  subst h
  simp only [C01_omegaDelta, List.getElem_ofFn]
  cases K <;> rfl

/-! ### full pairing: the pair term is monotone in the outcome -/

/-- Bradley–Terry: if the outcome of `i` against `q` does not get worse (win stays win, tie stays
tie or becomes win) the pair term does not decrease -/
theorem swp_BT_ω_le {n : ℕ} (G G' : Game n) (β : ℝ) (hθ : G'.θ = G.θ) (hs2 : G'.s2 = G.s2)
    (i q : Fin n) (hs : 0 ≤ G.s2 i)
    (h1 : G.r i < G.r q → G'.r i < G'.r q) (h2 : G.r i = G.r q → G'.r i ≤ G'.r q) :
    SpecBT.ω G β i q ≤ SpecBT.ω G' β i q := by
  have hS : SpecBT.s G i q ≤ SpecBT.s G' i q := by
    have h1' := Decidable.not_or_of_imp h1
    have h2' := Decidable.not_or_of_imp h2
    unfold SpecBT.s
    split_ifs <;> first | (exfalso; omega) | norm_num
  unfold SpecBT.ω SpecBT.p SpecBT.c
  rw [hθ, hs2]
  exact mul_le_mul_of_nonneg_left (by linarith) (div_nonneg hs (Real.sqrt_nonneg _))

/-- Thurstone–Mosteller: the same, from `−k·V(−x,t) ≤ k·Ṽ(x,t) ≤ k·V(x,t)` -/
theorem swp_TM_ω_le {n : ℕ} (G G' : Game n) (L : Leaves ℝ) (hL : LeafFacts L) (cmul β κ : ℝ)
    (hc : 0 ≤ cmul) (hκ : 0 ≤ κ) (hθ : G'.θ = G.θ) (hs2 : G'.s2 = G.s2)
    (i q : Fin n) (hs : 0 ≤ G.s2 i)
    (h1 : G.r i < G.r q → G'.r i < G'.r q) (h2 : G.r i = G.r q → G'.r i ≤ G'.r q) :
    SpecTM.ω G L cmul β κ i q ≤ SpecTM.ω G' L cmul β κ i q := by
  unfold SpecTM.ω SpecTM.x SpecTM.t SpecTM.c
  rw [hθ, hs2]
  have hC : 0 ≤ cmul * Real.sqrt (G.s2 i + G.s2 q + 2 * β ^ 2) :=
    mul_nonneg hc (Real.sqrt_nonneg _)
  obtain ⟨c1, c2, c3, c4⟩ := tm_chain hL
    ((G.θ i - G.θ q) / (cmul * Real.sqrt (G.s2 i + G.s2 q + 2 * β ^ 2)))
    (div_nonneg hs hC) (div_nonneg hκ hC)
  rw [neg_mul] at c1 c3
  simp only [neg_mul]
  have h1' := Decidable.not_or_of_imp h1
  have h2' := Decidable.not_or_of_imp h2
  split_ifs <;> first | (exfalso; omega) | linarith

theorem swp_BT_ΩF_le {n : ℕ} (G G' : Game n) (β : ℝ) (hθ : G'.θ = G.θ) (hs2 : G'.s2 = G.s2)
    (i : Fin n) (hs : 0 ≤ G.s2 i)
    (h : ∀ q, q ≠ i → (G.r i < G.r q → G'.r i < G'.r q) ∧ (G.r i = G.r q → G'.r i ≤ G'.r q)) :
    SpecBT.ΩF G β i ≤ SpecBT.ΩF G' β i := by
  unfold SpecBT.ΩF
  refine Finset.sum_le_sum fun q hq => ?_
  have hq' : q ≠ i := (Finset.mem_filter.mp hq).2
  exact swp_BT_ω_le G G' β hθ hs2 i q hs (h q hq').1 (h q hq').2

theorem swp_TM_ΩF_le {n : ℕ} (G G' : Game n) (L : Leaves ℝ) (hL : LeafFacts L) (β κ : ℝ)
    (hκ : 0 ≤ κ) (hθ : G'.θ = G.θ) (hs2 : G'.s2 = G.s2)
    (i : Fin n) (hs : 0 ≤ G.s2 i)
    (h : ∀ q, q ≠ i → (G.r i < G.r q → G'.r i < G'.r q) ∧ (G.r i = G.r q → G'.r i ≤ G'.r q)) :
    SpecTM.ΩF G L β κ i ≤ SpecTM.ΩF G' L β κ i := by
  unfold SpecTM.ΩF
  refine Finset.sum_le_sum fun q hq => ?_
  have hq' : q ≠ i := (Finset.mem_filter.mp hq).2
  exact swp_TM_ω_le G G' L hL 1 β κ zero_le_one hκ hθ hs2 i q hs (h q hq').1 (h q hq').2

/-! ### Plackett–Luce: `Ω_i = (s2_i/c)·(1/A_i − U(e_i, r_i))` -/
namespace SpecPL
variable {n : ℕ} (G : Game n) (β : ℝ)

theorem swp_e_pos (i : Fin n) : 0 < e G β i := Real.exp_pos _

theorem swp_S_nonneg (q : Fin n) : 0 ≤ S G β q :=
  Finset.sum_nonneg fun _ _ => (Real.exp_pos _).le

theorem swp_A_pos (q : Fin n) : 0 < A G q :=
  Finset.card_pos.mpr ⟨q, by simp⟩

theorem swp_c_nonneg : 0 ≤ c G β := Real.sqrt_nonneg _

/-- `U(x, m) = Σ_{p : r_p ≤ m} (x / S_p) / A_p` -/
def swp_U (x : ℝ) (m : ℕ) : ℝ :=
  ∑ p ∈ univ.filter (fun p => G.r p ≤ m), x / S G β p / (A G p : ℝ)

theorem swp_U_mono (x : ℝ) (hx : 0 ≤ x) {m m' : ℕ} (h : m ≤ m') :
    swp_U G β x m ≤ swp_U G β x m' := by
  unfold swp_U
  refine Finset.sum_le_sum_of_subset_of_nonneg ?_ ?_
  · intro p hp
    simp only [Finset.mem_filter, Finset.mem_univ, true_and] at hp ⊢
    omega
  · intro p _ _
    exact div_nonneg (div_nonneg hx (swp_S_nonneg G β p)) (Nat.cast_nonneg _)

theorem swp_Ω_eq (i : Fin n) :
    Ω G β i = (G.s2 i / c G β) * (1 / (A G i : ℝ) - swp_U G β (e G β i) (G.r i)) := by
  unfold Ω p swp_U
  congr 1
  simp only [sub_div]
  rw [Finset.sum_sub_distrib]
  congr 1
  rw [Finset.sum_eq_single_of_mem i (by simp) (fun b _ hb => by simp [hb])]
  simp

/-- twins: same mean, same variance, `i` placed strictly better, `i`'s tie group no larger
than `k`'s: `Ω_k ≤ Ω_i` -/
theorem swp_PL_twins (i k : Fin n) (hθ : G.θ i = G.θ k) (hs2 : G.s2 i = G.s2 k)
    (hs : 0 ≤ G.s2 i) (hr : G.r i < G.r k) (hA : A G i ≤ A G k) : Ω G β k ≤ Ω G β i := by
  rw [swp_Ω_eq, swp_Ω_eq]
  have he : e G β k = e G β i := by unfold e; rw [hθ]
  rw [he, ← hs2]
  refine mul_le_mul_of_nonneg_left ?_ (div_nonneg hs (swp_c_nonneg G β))
  have h1 := swp_U_mono G β (e G β i) (swp_e_pos G β i).le hr.le
  have h2 : 1 / (A G k : ℝ) ≤ 1 / (A G i : ℝ) :=
    one_div_le_one_div_of_le (by exact_mod_cast swp_A_pos G i) (by exact_mod_cast hA)
  linarith

/-- a team that is not tied has `A = 1` -/
theorem swp_A_eq_one (q : Fin n) (h : ∀ p, p ≠ q → G.r p ≠ G.r q) : A G q = 1 := by
  unfold A
  rw [Finset.card_eq_one]
  refine ⟨q, ?_⟩
  ext s
  simp only [Finset.mem_filter, Finset.mem_univ, true_and, Finset.mem_singleton]
  constructor
  · intro hs
    by_contra hne
    exact h s hne hs
  · rintro rfl; rfl

end SpecPL

/-! ### Plackett–Luce: exchanging the ranks of `i` and `q` -/
namespace SpecPL
variable {n : ℕ} (G G' : Game n) (β : ℝ)

theorem swp_c_congr (hs2 : G'.s2 = G.s2) : c G' β = c G β := by unfold c; rw [hs2]

theorem swp_e_congr (hθ : G'.θ = G.θ) (hs2 : G'.s2 = G.s2) : e G' β = e G β := by
  funext j; unfold e; rw [swp_c_congr G G' β hs2, hθ]

theorem swp_A_swap (σ : Equiv.Perm (Fin n)) (hr' : ∀ p, G'.r p = G.r (σ p)) (p : Fin n) :
    A G' p = A G (σ p) := by
  unfold A
  refine Finset.card_equiv σ (fun s => ?_)
  simp only [Finset.mem_filter, Finset.mem_univ, true_and, hr']

theorem swp_S_swap (hθ : G'.θ = G.θ) (hs2 : G'.s2 = G.s2) (i q : Fin n)
    (hr' : ∀ p, G'.r p = G.r (Equiv.swap i q p)) (hr : G.r q < G.r i) (p : Fin n)
    (hp : G.r (Equiv.swap i q p) ≤ G.r q) : S G' β p = S G β (Equiv.swap i q p) := by
  unfold S
  rw [swp_e_congr G G' β hθ hs2]
  refine Finset.sum_congr (Finset.filter_congr fun j _ => ?_) (fun _ _ => rfl)
  rw [hr' p, hr' j]
  by_cases hji : j = i
  · subst hji
    rw [Equiv.swap_apply_left]
    constructor <;> intro _ <;> omega
  · by_cases hjq : j = q
    · subst hjq
      rw [Equiv.swap_apply_right]
      constructor <;> intro _ <;> omega
    · rw [Equiv.swap_apply_of_ne_of_ne hji hjq]

theorem swp_U_swap (hθ : G'.θ = G.θ) (hs2 : G'.s2 = G.s2) (i q : Fin n)
    (hr' : ∀ p, G'.r p = G.r (Equiv.swap i q p)) (hr : G.r q < G.r i) (x : ℝ) :
    swp_U G' β x (G'.r i) = swp_U G β x (G.r q) := by
  unfold swp_U
  have hri : G'.r i = G.r q := by rw [hr' i, Equiv.swap_apply_left]
  rw [hri]
  refine Finset.sum_equiv (Equiv.swap i q) (fun p => ?_) (fun p hp => ?_)
  · simp only [Finset.mem_filter, Finset.mem_univ, true_and, hr']
  · simp only [Finset.mem_filter, Finset.mem_univ, true_and, hr'] at hp
    rw [swp_S_swap G G' β hθ hs2 i q hr' hr p hp, swp_A_swap G G' (Equiv.swap i q) hr' p]

/-- exchange of the ranks of `i` and `q`, `q` placed strictly better, `q`'s tie group no larger
than `i`'s: the team that moves up does not lose -/
theorem swp_PL_exchange (hθ : G'.θ = G.θ) (hs2 : G'.s2 = G.s2) (i q : Fin n)
    (hr' : ∀ p, G'.r p = G.r (Equiv.swap i q p)) (hs : 0 ≤ G.s2 i) (hr : G.r q < G.r i)
    (hA : A G q ≤ A G i) : Ω G β i ≤ Ω G' β i := by
  rw [swp_Ω_eq, swp_Ω_eq, swp_c_congr G G' β hs2, swp_e_congr G G' β hθ hs2, hs2,
    swp_U_swap G G' β hθ hs2 i q hr' hr, swp_A_swap G G' (Equiv.swap i q) hr' i,
    Equiv.swap_apply_left]
  refine mul_le_mul_of_nonneg_left ?_ (div_nonneg hs (swp_c_nonneg G β))
  have h1 := swp_U_mono G β (e G β i) (swp_e_pos G β i).le hr.le
  have h2 : 1 / (A G i : ℝ) ≤ 1 / (A G q : ℝ) :=
    one_div_le_one_div_of_le (by exact_mod_cast swp_A_pos G q) (by exact_mod_cast hA)
  linarith

end SpecPL

/-! ### the same on lists -/

/-- the number of teams whose rank is `r` -/
def C05_tieGroup (ts : List (TeamAgg ℝ)) (r : Nat) : Nat :=
  (ts.filter (fun t => decide (t.rank = r))).length

theorem swp_A_gameAt (ts : List (TeamAgg ℝ)) (i : Nat) (hi : i < ts.length) :
    SpecPL.A (swp_gameAt ts ts.length rfl) ⟨i, hi⟩ = C05_tieGroup ts ts[i].rank := by
  unfold C05_tieGroup SpecPL.A
  rw [length_filter_list]
  simp only [swp_gameAt, decide_eq_true_eq]
  rfl

theorem swp_twins_list (L : Leaves ℝ) (P : Params ℝ) (ts : List (TeamAgg ℝ))
    (i k : Nat) (hi : i < ts.length) (hk : k < ts.length) (hs : 0 ≤ ts[i].sig2)
    (hmu : ts[i].mu = ts[k].mu) (hsig : ts[i].sig2 = ts[k].sig2) (hr : ts[i].rank < ts[k].rank)
    (hA : SpecPL.A (swp_gameAt ts ts.length rfl) ⟨i, hi⟩
      ≤ SpecPL.A (swp_gameAt ts ts.length rfl) ⟨k, hk⟩) :
    ((omegaDelta .PL L P ts)[k]'(omegaDelta_lt L P ts hk)).1 ≤
      ((omegaDelta .PL L P ts)[i]'(omegaDelta_lt L P ts hi)).1 := by
  rw [swp_omega_spec .PL L P ts ts.length rfl i hi, swp_omega_spec .PL L P ts ts.length rfl k hk]
  exact SpecPL.swp_PL_twins (swp_gameAt ts ts.length rfl) P.beta ⟨i, hi⟩ ⟨k, hk⟩ hmu hsig hs hr hA

theorem swp_exchange_list (L : Leaves ℝ) (P : Params ℝ)
    (ts ts' : List (TeamAgg ℝ)) (hlen : ts'.length = ts.length)
    (hmu : ∀ (p : Nat) (hp : p < ts.length), (ts'[p]'(by omega)).mu = ts[p].mu)
    (hsig : ∀ (p : Nat) (hp : p < ts.length), (ts'[p]'(by omega)).sig2 = ts[p].sig2)
    (i q : Nat) (hi : i < ts.length) (hq : q < ts.length) (hsi : 0 ≤ ts[i].sig2)
    (hr : ts[q].rank < ts[i].rank)
    (hri : (ts'[i]'(by omega)).rank = ts[q].rank) (hrq : (ts'[q]'(by omega)).rank = ts[i].rank)
    (hro : ∀ (p : Nat) (hp : p < ts.length), p ≠ i → p ≠ q → (ts'[p]'(by omega)).rank = ts[p].rank)
    (hA : SpecPL.A (swp_gameAt ts ts.length rfl) ⟨q, hq⟩
      ≤ SpecPL.A (swp_gameAt ts ts.length rfl) ⟨i, hi⟩) :
    ((omegaDelta .PL L P ts)[i]'(omegaDelta_lt L P ts hi)).1 ≤
      ((omegaDelta .PL L P ts')[i]'(omegaDelta_lt L P ts' (by omega))).1 := by
  rw [swp_omega_spec .PL L P ts ts.length rfl i hi,
    swp_omega_spec .PL L P ts' ts.length hlen i (by omega)]
  refine SpecPL.swp_PL_exchange (swp_gameAt ts ts.length rfl) (swp_gameAt ts' ts.length hlen) P.beta
    (funext fun p => hmu p.1 p.2) (funext fun p => hsig p.1 p.2) ⟨i, hi⟩ ⟨q, hq⟩ ?_ hsi hr hA
  intro p
  by_cases hpi : p = ⟨i, hi⟩
  · subst hpi
    rw [Equiv.swap_apply_left]
    exact hri
  · by_cases hpq : p = ⟨q, hq⟩
    · subst hpq
      rw [Equiv.swap_apply_right]
      exact hrq
    · rw [Equiv.swap_apply_of_ne_of_ne hpi hpq]
      exact hro p.1 p.2 (fun e => hpi (Fin.ext e)) (fun e => hpq (Fin.ext e))

theorem swp_swap_ranks (ts ts' : List (TeamAgg ℝ)) (hlen : ts'.length = ts.length)
    (i q : Nat) (hi : i < ts.length) (hq : q < ts.length)
    (hri : (ts'[i]'(by omega)).rank = ts[q].rank) (hrq : (ts'[q]'(by omega)).rank = ts[i].rank)
    (hro : ∀ (p : Nat) (hp : p < ts.length), p ≠ i → p ≠ q → (ts'[p]'(by omega)).rank = ts[p].rank)
    (p : Fin ts.length) :
    (swp_gameAt ts' ts.length hlen).r p
      = (swp_gameAt ts ts.length rfl).r (Equiv.swap ⟨i, hi⟩ ⟨q, hq⟩ p) := by
  by_cases hpi : p = ⟨i, hi⟩
  · subst hpi
    rw [Equiv.swap_apply_left]
    exact hri
  · by_cases hpq : p = ⟨q, hq⟩
    · subst hpq
      rw [Equiv.swap_apply_right]
      exact hrq
    · rw [Equiv.swap_apply_of_ne_of_ne hpi hpq]
      exact hro p.1 p.2 (fun e => hpi (Fin.ext e)) (fun e => hpq (Fin.ext e))

/-- the team that moves down does not gain -/
theorem swp_exchange_list_down (L : Leaves ℝ) (P : Params ℝ)
    (ts ts' : List (TeamAgg ℝ)) (hlen : ts'.length = ts.length)
    (hmu : ∀ (p : Nat) (hp : p < ts.length), (ts'[p]'(by omega)).mu = ts[p].mu)
    (hsig : ∀ (p : Nat) (hp : p < ts.length), (ts'[p]'(by omega)).sig2 = ts[p].sig2)
    (i q : Nat) (hi : i < ts.length) (hq : q < ts.length) (hsq : 0 ≤ ts[q].sig2)
    (hr : ts[q].rank < ts[i].rank)
    (hri : (ts'[i]'(by omega)).rank = ts[q].rank) (hrq : (ts'[q]'(by omega)).rank = ts[i].rank)
    (hro : ∀ (p : Nat) (hp : p < ts.length), p ≠ i → p ≠ q → (ts'[p]'(by omega)).rank = ts[p].rank)
    (hA : SpecPL.A (swp_gameAt ts ts.length rfl) ⟨q, hq⟩
      ≤ SpecPL.A (swp_gameAt ts ts.length rfl) ⟨i, hi⟩) :
    ((omegaDelta .PL L P ts')[q]'(omegaDelta_lt L P ts' (by omega))).1 ≤
      ((omegaDelta .PL L P ts)[q]'(omegaDelta_lt L P ts hq)).1 := by
  rw [swp_omega_spec .PL L P ts ts.length rfl q hq,
    swp_omega_spec .PL L P ts' ts.length hlen q (by omega)]
  have hsw := swp_swap_ranks ts ts' hlen i q hi hq hri hrq hro
  have hθ : (swp_gameAt ts' ts.length hlen).θ = (swp_gameAt ts ts.length rfl).θ :=
    funext fun p => hmu p.1 p.2
  have hs2 : (swp_gameAt ts' ts.length hlen).s2 = (swp_gameAt ts ts.length rfl).s2 :=
    funext fun p => hsig p.1 p.2
  refine SpecPL.swp_PL_exchange (swp_gameAt ts' ts.length hlen) (swp_gameAt ts ts.length rfl) P.beta
    hθ.symm hs2.symm ⟨q, hq⟩ ⟨i, hi⟩ ?_ ?_ ?_ ?_
  · intro p
    rw [hsw, Equiv.swap_comm, Equiv.swap_apply_self]
  · rw [hs2]; exact hsq
  · rw [hsw, hsw, Equiv.swap_apply_left, Equiv.swap_apply_right]
    exact hr
  · rw [SpecPL.swp_A_swap _ _ _ hsw, SpecPL.swp_A_swap _ _ _ hsw, Equiv.swap_apply_left,
      Equiv.swap_apply_right]
    exact hA

theorem swp_tieGroup_pos (ts : List (TeamAgg ℝ)) (i : Nat) (hi : i < ts.length) :
    0 < C05_tieGroup ts ts[i].rank := by
  rw [← swp_A_gameAt ts i hi]; exact SpecPL.swp_A_pos _ _

theorem swp_tieGroup_eq_one (ts : List (TeamAgg ℝ)) (i : Nat) (hi : i < ts.length)
    (h : ∀ (p : Nat) (hp : p < ts.length), p ≠ i → ts[p].rank ≠ ts[i].rank) :
    C05_tieGroup ts ts[i].rank = 1 := by
  rw [← swp_A_gameAt ts i hi]
  exact SpecPL.swp_A_eq_one _ _ (fun p hp => h p.1 p.2 (fun e => hp (Fin.ext e)))

/-! ### the rank exchange as an operation on the list -/

/-- the game `ts` with the ranks of the teams at positions `i` and `q` exchanged (everything else,
including the order of the list, unchanged) -/
def C05_exchangeRanks (ts : List (TeamAgg ℝ)) (i q : Nat) : List (TeamAgg ℝ) :=
  ts.zipIdx.map (fun x =>
    if x.2 = i then { x.1 with rank := (ts[q]?.getD x.1).rank }
    else if x.2 = q then { x.1 with rank := (ts[i]?.getD x.1).rank } else x.1)

@[simp] theorem swp_exchangeRanks_length (ts : List (TeamAgg ℝ)) (i q : Nat) :
    (C05_exchangeRanks ts i q).length = ts.length := by simp [C05_exchangeRanks]

theorem swp_exchangeRanks_getElem (ts : List (TeamAgg ℝ)) (i q : Nat) (hi : i < ts.length)
    (hq : q < ts.length) (p : Nat) (hp : p < ts.length) :
    (C05_exchangeRanks ts i q)[p]'(by simpa using hp) =
      if p = i then { ts[p] with rank := ts[q].rank }
      else if p = q then { ts[p] with rank := ts[i].rank } else ts[p] := by
  simp [C05_exchangeRanks, hi, hq]


/-- `C05_exchangeRanks ts i q` is `ts` with the ranks at positions `i` and `q` exchanged and nothing
else changed -/
theorem swp_exchangeRanks_spec (ts : List (TeamAgg ℝ)) (i q : Nat) (hi : i < ts.length)
    (hq : q < ts.length) :
    (∀ (p : Nat) (hp : p < ts.length),
      ((C05_exchangeRanks ts i q)[p]'(by simpa using hp)).mu = ts[p].mu ∧
      ((C05_exchangeRanks ts i q)[p]'(by simpa using hp)).sig2 = ts[p].sig2 ∧
      ((C05_exchangeRanks ts i q)[p]'(by simpa using hp)).players = ts[p].players) ∧
    ((C05_exchangeRanks ts i q)[i]'(by simpa using hi)).rank = ts[q].rank ∧
    ((C05_exchangeRanks ts i q)[q]'(by simpa using hq)).rank = ts[i].rank ∧
    (∀ (p : Nat) (hp : p < ts.length), p ≠ i → p ≠ q →
      ((C05_exchangeRanks ts i q)[p]'(by simpa using hp)).rank = ts[p].rank) := by
  refine ⟨fun p hp => ?_, ?_, ?_, fun p hp h1 h2 => ?_⟩
  · rw [swp_exchangeRanks_getElem ts i q hi hq p hp]
    split_ifs <;> simp
  · rw [swp_exchangeRanks_getElem ts i q hi hq i hi]; simp
  · rw [swp_exchangeRanks_getElem ts i q hi hq q hq]
    by_cases h : q = i
    · subst h; simp
    · simp [h]
  · rw [swp_exchangeRanks_getElem ts i q hi hq p hp, if_neg h1, if_neg h2]

/-! ### partial pairing: a ladder of identical teams -/

theorem swp_sumL_neighbours (F : TeamAgg ℝ → ℝ) (ts : List (TeamAgg ℝ)) (i : Nat)
    (hi : i < ts.length) :
    sumL ((neighboursOf ts i).map F)
      = (if h : 0 < i then F (ts[i - 1]'(by omega)) else 0)
        + (if h : i + 1 < ts.length then F ts[i + 1] else 0) := by
  unfold neighboursOf
  by_cases h0 : i = 0
  · subst h0
    by_cases h1 : 0 + 1 < ts.length
    · simp [h1]
    · simp [h1]
  · have h0' : 0 < i := by omega
    have h2 : i - 1 < ts.length := by omega
    by_cases h1 : i + 1 < ts.length
    · simp [h0, h0', h1, h2]
    · simp [h0, h0', h1, h2]

/-- a ladder of identical teams: every win term is `w ≥ 0`, every loss term `−w` -/
theorem swp_ladder_abstract (F : TeamAgg ℝ → TeamAgg ℝ → ℝ) (w : ℝ) (hw : 0 ≤ w)
    (ts : List (TeamAgg ℝ))
    (hwin : ∀ (p q : Nat) (hp : p < ts.length) (hq : q < ts.length), p < q → F ts[p] ts[q] = w)
    (hloss : ∀ (p q : Nat) (hp : p < ts.length) (hq : q < ts.length), q < p → F ts[p] ts[q] = -w) :
    (∀ (i : Nat) (hi : i < ts.length), 0 < i → i + 1 < ts.length →
      sumL ((neighboursOf ts i).map (F ts[i])) = 0) ∧
    (∀ (p q : Nat) (hp : p < ts.length) (hq : q < ts.length), p < q →
      sumL ((neighboursOf ts q).map (F ts[q])) ≤ 0 ∧
      0 ≤ sumL ((neighboursOf ts p).map (F ts[p]))) := by
  constructor
  · intro i hi h0 h1
    rw [swp_sumL_neighbours _ ts i hi, dif_pos h0, dif_pos h1,
      hloss i (i - 1) hi (by omega) (by omega), hwin i (i + 1) hi h1 (by omega)]
    ring
  · intro p q hp hq hpq
    constructor
    · rw [swp_sumL_neighbours _ ts q hq, dif_pos (show 0 < q by omega),
        hloss q (q - 1) hq (by omega) (by omega)]
      split_ifs with h1
      · rw [hwin q (q + 1) hq h1 (by omega)]; linarith
      · linarith
    · rw [swp_sumL_neighbours _ ts p hp, dif_pos (show p + 1 < ts.length by omega),
        hwin p (p + 1) hp (by omega) (by omega)]
      split_ifs with h0
      · rw [hloss p (p - 1) hp (by omega) (by omega)]; linarith
      · linarith


theorem swp_btPair_identical (β : ℝ) (g : GammaFn ℝ) (n : Nat) (m s : ℝ) (ti tq : TeamAgg ℝ)
    (hi : ti.mu = m ∧ ti.sig2 = s) (hq : tq.mu = m ∧ tq.sig2 = s) :
    (ti.rank < tq.rank → (btPair β g n ti tq).1 = s / Real.sqrt (s + s + 2 * (β * β)) * (1 / 2)) ∧
    (tq.rank < ti.rank → (btPair β g n ti tq).1 = -(s / Real.sqrt (s + s + 2 * (β * β)) * (1 / 2))) := by
  have hP : btP β ti tq = 1 / 2 := by
    unfold btP
    rw [hi.1, hq.1, sub_self, zero_div, Real.exp_zero]; norm_num
  have hC : pairC β ti tq = Real.sqrt (s + s + 2 * (β * β)) := by unfold pairC; rw [hi.2, hq.2]
  constructor
  · intro h
    rw [btPair_fst_win β g n ti tq h, hP, hC, hi.2]; norm_num
  · intro h
    rw [btPair_fst_loss β g n ti tq h, hP, hC, hi.2]; ring

theorem swp_tmPair_identical (L : Leaves ℝ) (cmul β κ : ℝ) (g : GammaFn ℝ) (n : Nat) (m s : ℝ)
    (ti tq : TeamAgg ℝ) (hi : ti.mu = m ∧ ti.sig2 = s) (hq : tq.mu = m ∧ tq.sig2 = s) :
    (ti.rank < tq.rank → (tmPair L cmul β κ g n ti tq).1 =
      s / (cmul * Real.sqrt (s + s + 2 * (β * β))) *
        L.v 0 (κ / (cmul * Real.sqrt (s + s + 2 * (β * β))))) ∧
    (tq.rank < ti.rank → (tmPair L cmul β κ g n ti tq).1 =
      -(s / (cmul * Real.sqrt (s + s + 2 * (β * β))) *
        L.v 0 (κ / (cmul * Real.sqrt (s + s + 2 * (β * β)))))) := by
  have hC : pairC β ti tq = Real.sqrt (s + s + 2 * (β * β)) := by unfold pairC; rw [hi.2, hq.2]
  constructor
  · intro h
    rw [tmPair_fst_win L cmul β κ g n ti tq h, hC, hi.1, hq.1, hi.2, sub_self, zero_div]
  · intro h
    rw [tmPair_fst_loss L cmul β κ g n ti tq h, hC, hi.1, hq.1, hi.2, sub_self, zero_div, neg_zero,
      neg_mul]


/-! ### a game with a tie for first place (counter-model for the Plackett–Luce statements) -/
/-- five identical teams; the first two tie for first place -/
def swp_exTiesPL : List (TeamAgg ℝ) :=
  [⟨0, 1, 0, []⟩, ⟨0, 1, 0, []⟩, ⟨0, 1, 1, []⟩, ⟨0, 1, 2, []⟩, ⟨0, 1, 3, []⟩]

theorem swp_exTies_c_pos (β : ℝ) : 0 < SpecPL.c (swp_gameAt swp_exTiesPL 5 rfl) β := by
  unfold SpecPL.c
  apply Real.sqrt_pos.mpr
  simp only [Fin.sum_univ_five, swp_gameAt, swp_exTiesPL]
  simp
  positivity

theorem swp_exTies_e (β : ℝ) (j : Fin 5) : SpecPL.e (swp_gameAt swp_exTiesPL 5 rfl) β j = 1 := by
  have : (swp_gameAt swp_exTiesPL 5 rfl).θ j = 0 := by
    fin_cases j <;> rfl
  unfold SpecPL.e
  rw [this, zero_div, Real.exp_zero]

theorem swp_exTies_s2 (j : Fin 5) : (swp_gameAt swp_exTiesPL 5 rfl).s2 j = 1 := by
  fin_cases j <;> rfl

theorem swp_exTies_vals (β : ℝ) :
    SpecPL.Ω (swp_gameAt swp_exTiesPL 5 rfl) β 0 = 1 / SpecPL.c (swp_gameAt swp_exTiesPL 5 rfl) β * (3 / 10) ∧
    SpecPL.Ω (swp_gameAt swp_exTiesPL 5 rfl) β 2 = 1 / SpecPL.c (swp_gameAt swp_exTiesPL 5 rfl) β * (7 / 15) := by
  constructor
  · unfold SpecPL.Ω
    rw [swp_exTies_s2]
    congr 1
    simp only [SpecPL.p, SpecPL.S, SpecPL.A, swp_exTies_e, Finset.sum_filter, Finset.card_filter,
      Fin.sum_univ_five]
    simp [swp_gameAt, swp_exTiesPL]
    norm_num
  · unfold SpecPL.Ω
    rw [swp_exTies_s2]
    congr 1
    simp only [SpecPL.p, SpecPL.S, SpecPL.A, swp_exTies_e, Finset.sum_filter, Finset.card_filter,
      Fin.sum_univ_five]
    simp [swp_gameAt, swp_exTiesPL]
    norm_num

theorem swp_exTies_len : swp_exTiesPL.length = 5 := rfl

/-- the same five teams after the team at position 2 has exchanged places with the (tied) winner at
position 0: ranks `[1, 0, 0, 2, 3]` -/
def swp_exTiesPL' : List (TeamAgg ℝ) :=
  [⟨0, 1, 1, []⟩, ⟨0, 1, 0, []⟩, ⟨0, 1, 0, []⟩, ⟨0, 1, 2, []⟩, ⟨0, 1, 3, []⟩]

theorem swp_exTies'_eq : C05_exchangeRanks swp_exTiesPL 2 0 = swp_exTiesPL' := by
  simp [C05_exchangeRanks, swp_exTiesPL, swp_exTiesPL', List.zipIdx]

theorem swp_exTies'_c (β : ℝ) :
    SpecPL.c (swp_gameAt swp_exTiesPL' 5 rfl) β = SpecPL.c (swp_gameAt swp_exTiesPL 5 rfl) β := by
  unfold SpecPL.c
  congr 1

theorem swp_exTies'_e (β : ℝ) (j : Fin 5) : SpecPL.e (swp_gameAt swp_exTiesPL' 5 rfl) β j = 1 := by
  have : (swp_gameAt swp_exTiesPL' 5 rfl).θ j = 0 := by
    fin_cases j <;> rfl
  unfold SpecPL.e
  rw [this, zero_div, Real.exp_zero]

theorem swp_exTies'_s2 (j : Fin 5) : (swp_gameAt swp_exTiesPL' 5 rfl).s2 j = 1 := by
  fin_cases j <;> rfl

theorem swp_exTies'_val (β : ℝ) :
    SpecPL.Ω (swp_gameAt swp_exTiesPL' 5 rfl) β 2
      = 1 / SpecPL.c (swp_gameAt swp_exTiesPL 5 rfl) β * (3 / 10) := by
  unfold SpecPL.Ω
  rw [swp_exTies'_s2, swp_exTies'_c]
  congr 1
  simp only [SpecPL.p, SpecPL.S, SpecPL.A, swp_exTies'_e, Finset.sum_filter, Finset.card_filter,
    Fin.sum_univ_five]
  simp [swp_gameAt, swp_exTiesPL']
  norm_num

end OS
end
