import OSProofs.DrawLemmas

/-!
# C10 — `predict_draw` is a probability, largest for evenly matched teams (analytic core)

`predict_draw` adds, for every ORDERED pair (a,b) of teams, the term
`band m s d = Φ((m − d)/s) − Φ((d − m)/s)` with gap `d = θa − θb`, margin
`m = √N·β·Φ⁻¹((1 + 1/N)/2)` (N = total number of players) and scale
`s = √(n β² + σa² + σb²)` (n = number of teams).  A single term is `2Φ((m−d)/s) − 1`, which is
negative for `d > m` (`band_neg_of_gt`); the two ordered pairs of one unordered pair together give
`pairBand m s d = 2·[Φ((d+m)/s) − Φ((d−m)/s)]`, twice the probability that a N(d, s²) variable
falls in [−m, m].  All statements below are over ℝ.

The regrouping of the list of ordered pairs produced by `orderedPairs` into unordered pairs
is the business of the closed-form property (C12); here the n > 2 case is stated for an arbitrary
list of unordered-pair terms (`C10_avg_bound`).  The two-team case is proved end to end for
the model function `predictDraw` (`C10_predictDraw_two_teams`).
-/

noncomputable section
namespace OS
open Gauss

/-! ### the pair terms of the model -/

/-- The term `predictDraw` computes for an ordered pair of team aggregates is `band` at the gap
`a.mu − b.mu`. -/
theorem C10_term_eq_band (m s : ℝ) (a b : TeamAgg ℝ) :
    Scalar.Phi ((m - a.mu + b.mu) / s) - Scalar.Phi ((a.mu - b.mu - m) / s)
      = band m s (a.mu - b.mu) := by
  simp only [sc_Phi, band]
  have h : m - a.mu + b.mu = m - (a.mu - b.mu) := by ring
  rw [h]

/-- the scale of a pair does not depend on the order of the pair -/
theorem pairDenom_symm (n : ℕ) (β : ℝ) (a b : TeamAgg ℝ) :
    pairDenom n β b a = pairDenom n β a b := by
  unfold pairDenom
  congr 1; ring

/-- The two ordered pairs (a,b), (b,a) of the model together contribute `pairBand`. -/
theorem C10_terms_eq_pairBand (n : ℕ) (β m : ℝ) (a b : TeamAgg ℝ) :
    (Scalar.Phi ((m - a.mu + b.mu) / pairDenom n β a b)
        - Scalar.Phi ((a.mu - b.mu - m) / pairDenom n β a b))
      + (Scalar.Phi ((m - b.mu + a.mu) / pairDenom n β b a)
        - Scalar.Phi ((b.mu - a.mu - m) / pairDenom n β b a))
      = pairBand m (pairDenom n β a b) (a.mu - b.mu) := by
  rw [C10_term_eq_band, C10_term_eq_band, pairDenom_symm n β a b]
  unfold pairBand
  rw [neg_sub]

/-! ### one unordered pair -/

/-- The contribution of an unordered pair is `2·[Φ((d+m)/s) − Φ((d−m)/s)]`. -/
theorem C10_pairBand_eq (m s d : ℝ) :
    pairBand m s d = 2 * (Phi ((d + m) / s) - Phi ((d - m) / s)) :=
  pairBand_eq m s d

/-- With a nonnegative margin and a positive scale, the contribution of an unordered pair lies
in [0, 2] (that is, its half is a probability), whatever the gap. -/
theorem C10_pairBand_mem {m s : ℝ} (hm : 0 ≤ m) (hs : 0 < s) (d : ℝ) :
    0 ≤ pairBand m s d ∧ pairBand m s d ≤ 2 :=
  ⟨pairBand_nonneg hm hs d, pairBand_le_two m s d⟩

/-- It does not matter which team of the pair is called `a`. -/
theorem C10_pairBand_even (m s d : ℝ) : pairBand m s (-d) = pairBand m s d :=
  pairBand_even m s d

/-- A larger absolute gap never gives a larger contribution. -/
theorem C10_pairBand_antitone {m s : ℝ} (hm : 0 ≤ m) (hs : 0 < s) {d₁ d₂ : ℝ}
    (h : |d₁| ≤ |d₂|) : pairBand m s d₂ ≤ pairBand m s d₁ :=
  pairBand_antitone_abs hm hs h

/-- The contribution is largest at zero gap. -/
theorem C10_pairBand_max_at_zero {m s : ℝ} (hm : 0 ≤ m) (hs : 0 < s) (d : ℝ) :
    pairBand m s d ≤ pairBand m s 0 :=
  pairBand_le_zero_gap hm hs d

/-! ### more than two teams: the mean of the pair contributions -/

/-- n > 2 teams: `predict_draw` is the sum over the `k = n(n−1)/2` unordered pairs of their
contributions, divided by `n(n−1) = 2k`.  If each contribution is in [0,2], the result is in
[0,1]. -/
theorem C10_avg_bound (l : List ℝ) (k : ℕ) (hk : 0 < k) (hl : l.length = k)
    (h : ∀ x ∈ l, 0 ≤ x ∧ x ≤ 2) :
    0 ≤ l.sum / (2 * k) ∧ l.sum / (2 * k) ≤ 1 :=
  avg_bound l k hk hl h

/-- The same with the contributions spelled out: any list of `k > 0` (scale, gap) data with
positive scales and a common nonnegative margin. -/
theorem C10_many_teams_mem {m : ℝ} (hm : 0 ≤ m) (sd : List (ℝ × ℝ)) (hpos : ∀ p ∈ sd, 0 < p.1)
    (hne : sd ≠ []) :
    0 ≤ (sd.map (fun p => pairBand m p.1 p.2)).sum / (2 * sd.length)
      ∧ (sd.map (fun p => pairBand m p.1 p.2)).sum / (2 * sd.length) ≤ 1 := by
  apply avg_bound _ sd.length (List.length_pos_iff.mpr hne) (by simp)
  intro x hx
  obtain ⟨p, hp, rfl⟩ := List.mem_map.mp hx
  exact C10_pairBand_mem hm (hpos p hp) p.2

/-- Equalising: replacing every gap by 0 (all teams equally strong; margins and scales are not
affected, they depend on β, the team sizes and the σ only) lowers no term … -/
theorem C10_equalise {m s : ℝ} (hm : 0 ≤ m) (hs : 0 < s) (d : ℝ) :
    pairBand m s d ≤ pairBand m s 0 :=
  pairBand_le_zero_gap hm hs d

/-- … and hence does not lower the sum (or the mean) of the pair contributions. -/
theorem C10_equalise_sum {m : ℝ} (hm : 0 ≤ m) (sd : List (ℝ × ℝ)) (hpos : ∀ p ∈ sd, 0 < p.1) :
    (sd.map (fun p => pairBand m p.1 p.2)).sum ≤ (sd.map (fun p => pairBand m p.1 0)).sum := by
  induction sd with
  | nil => simp
  | cons p ps ih =>
    simp only [List.map_cons, List.sum_cons]
    have h1 := pairBand_le_zero_gap hm (hpos p (by simp)) p.2
    have h2 := ih (fun q hq => hpos q (by simp [hq]))
    linarith

/-! ### two teams -/

/-- the margin is nonnegative when there are at least two players -/
theorem margin_nonneg {N β : ℝ} (hN : 2 ≤ N) (hβ : 0 < β) :
    0 ≤ Real.sqrt N * β * PhiInv ((1 + 1 / N) / 2) := by
  have := (zN_spec hN).2
  positivity

theorem scale_pos {β v : ℝ} (hβ : 0 < β) (hv : 0 ≤ v) : 0 < Real.sqrt (2 * β ^ 2 + v) :=
  Real.sqrt_pos.mpr (by positivity)

/-- Two teams: `predict_draw = pairBand m s d` with `m = √N·β·Φ⁻¹((1+1/N)/2)` and
`s = √(2β² + v)`, `v = σa² + σb² ≥ 0`.  It is nonnegative … -/
theorem C10_two_team_nonneg {N β v : ℝ} (hN : 2 ≤ N) (hβ : 0 < β) (hv : 0 ≤ v) (d : ℝ) :
    0 ≤ pairBand (Real.sqrt N * β * PhiInv ((1 + 1 / N) / 2)) (Real.sqrt (2 * β ^ 2 + v)) d :=
  pairBand_nonneg (margin_nonneg hN hβ) (scale_pos hβ hv) d

/-- … and at most 1, for every real `N ≥ 2` (so for every total player count), every β > 0,
every σ and every gap.  This is the inequality `Φ(√(N/2)·z_N) ≤ ¾` over all team sizes, proved
from the concavity of Φ on [0,∞). -/
theorem C10_two_team_le_one {N β v : ℝ} (hN : 2 ≤ N) (hβ : 0 < β) (hv : 0 ≤ v) (d : ℝ) :
    pairBand (Real.sqrt N * β * PhiInv ((1 + 1 / N) / 2)) (Real.sqrt (2 * β ^ 2 + v)) d ≤ 1 := by
  have hm := margin_nonneg hN hβ
  have hs := scale_pos hβ hv
  refine le_trans (pairBand_le_zero_gap hm hs d) ?_
  rw [pairBand_zero_gap]
  have hratio := two_team_ratio_le hN hβ hv (zN_spec hN).2
  have h1 := Phi_strictMono.monotone hratio
  have h2 := size_ineq_inst hN
  linarith

/-- Two teams: the value never increases when the absolute gap grows. -/
theorem C10_two_team_antitone_gap {N β v : ℝ} (hN : 2 ≤ N) (hβ : 0 < β) (hv : 0 ≤ v)
    {d₁ d₂ : ℝ} (h : |d₁| ≤ |d₂|) :
    pairBand (Real.sqrt N * β * PhiInv ((1 + 1 / N) / 2)) (Real.sqrt (2 * β ^ 2 + v)) d₂
      ≤ pairBand (Real.sqrt N * β * PhiInv ((1 + 1 / N) / 2)) (Real.sqrt (2 * β ^ 2 + v)) d₁ :=
  pairBand_antitone_abs (margin_nonneg hN hβ) (scale_pos hβ hv) h

/-- The bound 1 is sharp: with N = 2 and σ = 0 (v = 0) and zero gap the value is exactly 1. -/
theorem C10_two_team_sharp {β : ℝ} (hβ : 0 < β) :
    pairBand (Real.sqrt 2 * β * PhiInv ((1 + 1 / 2) / 2)) (Real.sqrt (2 * β ^ 2 + 0)) 0 = 1 := by
  rw [pairBand_zero_gap]
  have hs : Real.sqrt (2 * β ^ 2 + 0) = Real.sqrt 2 * β := by
    rw [add_zero, Real.sqrt_mul (by norm_num), Real.sqrt_sq hβ.le]
  have h2 : 0 < Real.sqrt 2 := Real.sqrt_pos.mpr (by norm_num)
  have hq : Real.sqrt 2 * β * PhiInv ((1 + 1 / 2) / 2) / (Real.sqrt 2 * β)
      = PhiInv ((1 + 1 / 2) / 2) := by
    field_simp
  rw [hs, hq, Phi_PhiInv (by norm_num) (by norm_num)]
  norm_num

/-! ### two teams, end to end for the model function -/

theorem sig2_nonneg (t : List (Rating ℝ)) : 0 ≤ (teamAgg t 0).sig2 := by
  unfold teamAgg
  simp only [sumL_eq_sum]
  apply List.sum_nonneg
  intro x hx
  obtain ⟨p, _, rfl⟩ := List.mem_map.mp hx
  exact mul_self_nonneg _

theorem drawMargin_real (β : ℝ) (N : ℕ) :
    drawMargin β N = Real.sqrt N * β * PhiInv ((1 + 1 / (N:ℝ)) / 2) := by
  simp [drawMargin]

theorem pairDenom_two_eq (β : ℝ) (a b : TeamAgg ℝ) :
    pairDenom 2 β a b = Real.sqrt (2 * β ^ 2 + (a.sig2 + b.sig2)) := by
  simp only [pairDenom, sc_sqrt, sc_ofNat, Nat.cast_ofNat]
  congr 1; ring

/-- For two teams the model's `predictDraw` is the absolute value of the pair contribution. -/
theorem predictDraw_two_eq (β : ℝ) (ta tb : List (Rating ℝ)) :
    predictDraw β [ta, tb]
      = |pairBand (drawMargin β (ta.length + tb.length))
          (pairDenom 2 β (teamAgg ta 0) (teamAgg tb 0))
          ((teamAgg ta 0).mu - (teamAgg tb 0).mu)| := by
  have hpc : playerCount [ta, tb] = ta.length + tb.length := by
    simp [playerCount]
  have hop : orderedPairs (aggs [ta, tb])
      = [(teamAgg ta 0, teamAgg tb 0), (teamAgg tb 0, teamAgg ta 0)] := by
    rfl
  unfold predictDraw
  simp only [hpc, hop, List.length_cons, List.length_nil, List.map_cons, List.map_nil,
    sumL_eq_sum, List.sum_cons, List.sum_nil, add_zero, sabs_eq_abs]
  rw [C10_terms_eq_pairBand]
  simp

/-- C10 for two teams, end to end: for β > 0 and two non-empty teams, the model's
`predictDraw` equals the pair contribution (no absolute value needed) and lies in [0, 1]. -/
theorem C10_predictDraw_two_teams (β : ℝ) (hβ : 0 < β) (ta tb : List (Rating ℝ))
    (ha : ta ≠ []) (hb : tb ≠ []) :
    predictDraw β [ta, tb]
        = pairBand (drawMargin β (ta.length + tb.length))
            (pairDenom 2 β (teamAgg ta 0) (teamAgg tb 0))
            ((teamAgg ta 0).mu - (teamAgg tb 0).mu)
      ∧ 0 ≤ predictDraw β [ta, tb] ∧ predictDraw β [ta, tb] ≤ 1 := by
  have hN : (2:ℝ) ≤ ((ta.length + tb.length : ℕ) : ℝ) := by
    have h1 := List.length_pos_iff.mpr ha
    have h2 := List.length_pos_iff.mpr hb
    exact_mod_cast (by omega : 2 ≤ ta.length + tb.length)
  have hv : 0 ≤ (teamAgg ta 0).sig2 + (teamAgg tb 0).sig2 :=
    add_nonneg (sig2_nonneg ta) (sig2_nonneg tb)
  have h0 := C10_two_team_nonneg hN hβ hv ((teamAgg ta 0).mu - (teamAgg tb 0).mu)
  have h1 := C10_two_team_le_one hN hβ hv ((teamAgg ta 0).mu - (teamAgg tb 0).mu)
  rw [← drawMargin_real, ← pairDenom_two_eq] at h0 h1
  rw [predictDraw_two_eq, abs_of_nonneg h0]
  exact ⟨rfl, h0, h1⟩

/-- C10 for two teams, end to end: a larger absolute gap between the team means (same team
sizes and σ's, hence the same margin and scale) never gives a larger `predictDraw`. -/
theorem C10_predictDraw_two_teams_antitone (β : ℝ) (hβ : 0 < β)
    (ta tb ta' tb' : List (Rating ℝ)) (ha : ta ≠ []) (hb : tb ≠ [])
    (hla : ta'.length = ta.length) (hlb : tb'.length = tb.length)
    (hsa : (teamAgg ta' 0).sig2 = (teamAgg ta 0).sig2)
    (hsb : (teamAgg tb' 0).sig2 = (teamAgg tb 0).sig2)
    (hgap : |(teamAgg ta 0).mu - (teamAgg tb 0).mu| ≤ |(teamAgg ta' 0).mu - (teamAgg tb' 0).mu|) :
    predictDraw β [ta', tb'] ≤ predictDraw β [ta, tb] := by
  have ha' : ta' ≠ [] := by
    intro h; rw [h] at hla; exact ha (List.eq_nil_of_length_eq_zero hla.symm)
  have hb' : tb' ≠ [] := by
    intro h; rw [h] at hlb; exact hb (List.eq_nil_of_length_eq_zero hlb.symm)
  rw [(C10_predictDraw_two_teams β hβ ta tb ha hb).1,
    (C10_predictDraw_two_teams β hβ ta' tb' ha' hb').1, hla, hlb]
  have hN : (2:ℝ) ≤ ((ta.length + tb.length : ℕ) : ℝ) := by
    have h1 := List.length_pos_iff.mpr ha
    have h2 := List.length_pos_iff.mpr hb
    exact_mod_cast (by omega : 2 ≤ ta.length + tb.length)
  have hv : 0 ≤ (teamAgg ta 0).sig2 + (teamAgg tb 0).sig2 :=
    add_nonneg (sig2_nonneg ta) (sig2_nonneg tb)
  have h := C10_two_team_antitone_gap hN hβ hv hgap
  rw [← drawMargin_real, ← pairDenom_two_eq] at h
  rw [pairDenom_two_eq β (teamAgg ta' 0), hsa, hsb, ← pairDenom_two_eq]
  exact h

/-- the hypotheses of the two-team theorems are satisfiable, and the value can be computed -/
example : ∃ (β : ℝ) (ta tb : List (Rating ℝ)), 0 < β ∧ ta ≠ [] ∧ tb ≠ [] :=
  ⟨1, [⟨0, 25, 8⟩], [⟨1, 25, 8⟩], by norm_num, by simp, by simp⟩

end OS
end
