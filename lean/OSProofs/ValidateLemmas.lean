import OSModel.Validate
/-!
# Helper lemmas on the argument-validation model (`OSModel/Validate.lean`)

Characterisations of each checking function (when does it return `.ok ()`, and which
exception class does it raise otherwise).  Core Lean only.
-/
namespace OS

/-! ## small facts on `PyVal` -/

theorem isRatingOf_iff (k : Kind) (p : PyVal) : p.isRatingOf k = true ↔ p = .rating k := by
  cases p <;> simp [PyVal.isRatingOf]
  exact eq_comm

theorem isRatingOf_self (k : Kind) : (PyVal.rating k).isRatingOf k = true :=
  (isRatingOf_iff k _).2 rfl

/-- every result of a check is `.ok ()` or an error -/
theorem except_unit_cases (r : Except PyExc Unit) : r = .ok () ∨ ∃ e, r = .error e := by
  cases r with
  | ok u => exact .inl rfl
  | error e => exact .inr ⟨e, rfl⟩

theorem pyexc_cases (e : PyExc) : e = .TypeError ∨ e = .ValueError := by
  cases e
  · exact .inl rfl
  · exact .inr rfl

/-- a truthy list is a non-empty list -/
theorem truthy_list (xs : List PyVal) : (PyVal.list xs).truthy = true ↔ xs ≠ [] := by
  cases xs <;> simp [PyVal.truthy]

/-! ## `checkPlayers` -/

@[simp] theorem checkPlayers_nil (k : Kind) : checkPlayers k [] = .ok () := rfl

theorem checkPlayers_cons (k : Kind) (p : PyVal) (ps : List PyVal) :
    checkPlayers k (p :: ps) = if p.isRatingOf k then checkPlayers k ps else .error .TypeError := rfl

theorem checkPlayers_ok_iff (k : Kind) (ps : List PyVal) :
    checkPlayers k ps = .ok () ↔ ∀ p ∈ ps, p = .rating k := by
  induction ps with
  | nil => simp
  | cons p ps ih =>
    rw [checkPlayers_cons]
    by_cases h : p.isRatingOf k = true
    · have hp := (isRatingOf_iff k p).1 h
      rw [if_pos h, ih]
      simp [hp]
    · have hp : p ≠ .rating k := fun e => h ((isRatingOf_iff k p).2 e)
      simp [h, hp]

/-- the only exception `checkPlayers` raises is `TypeError` -/
theorem checkPlayers_error (k : Kind) (ps : List PyVal) (e : PyExc)
    (h : checkPlayers k ps = .error e) : e = .TypeError := by
  induction ps with
  | nil => simp at h
  | cons p ps ih =>
    rw [checkPlayers_cons] at h
    by_cases hp : p.isRatingOf k = true
    · simp [hp] at h; exact ih h
    · simp [hp] at h; exact h.symm

/-- a player list containing something that is not an own rating raises `TypeError` -/
theorem checkPlayers_bad (k : Kind) (ps : List PyVal) (h : ∃ p ∈ ps, p ≠ .rating k) :
    checkPlayers k ps = .error .TypeError := by
  rcases except_unit_cases (checkPlayers k ps) with h1 | ⟨e, h1⟩
  · obtain ⟨p, hp, hne⟩ := h
    exact absurd ((checkPlayers_ok_iff k ps).1 h1 p hp) hne
  · rw [h1, checkPlayers_error k ps e h1]

/-! ## `checkTeamList` -/

@[simp] theorem checkTeamList_nil (k : Kind) : checkTeamList k [] = .ok () := rfl

theorem checkTeamList_cons_list (k : Kind) (ps : List PyVal) (ts : List PyVal) :
    checkTeamList k (.list ps :: ts) =
      if ps.length < 1 then .error .ValueError
      else match checkPlayers k ps with
        | .ok () => checkTeamList k ts
        | .error e => .error e := rfl

/-- a first item that is not a list raises `TypeError` -/
theorem checkTeamList_cons_not_list (k : Kind) (t : PyVal) (ts : List PyVal)
    (h : ∀ ps, t ≠ .list ps) : checkTeamList k (t :: ts) = .error .TypeError := by
  cases t <;> first | rfl | exact absurd rfl (h _)

/-- a first item that is an empty list raises `ValueError` -/
theorem checkTeamList_cons_empty (k : Kind) (ts : List PyVal) :
    checkTeamList k (.list [] :: ts) = .error .ValueError := rfl

/-- a first item that is a non-empty list of own ratings is passed over -/
theorem checkTeamList_cons_good (k : Kind) (ps ts : List PyVal) (hne : ps ≠ [])
    (hps : ∀ p ∈ ps, p = .rating k) :
    checkTeamList k (.list ps :: ts) = checkTeamList k ts := by
  rw [checkTeamList_cons_list]
  have h1 : ¬ ps.length < 1 := by
    cases ps with
    | nil => exact absurd rfl hne
    | cons a as => simp
  rw [if_neg h1, (checkPlayers_ok_iff k ps).2 hps]

/-- a first item that is a non-empty list with a foreign player raises `TypeError` -/
theorem checkTeamList_cons_bad_player (k : Kind) (ps ts : List PyVal)
    (h : ∃ p ∈ ps, p ≠ .rating k) :
    checkTeamList k (.list ps :: ts) = .error .TypeError := by
  rw [checkTeamList_cons_list]
  have h1 : ¬ ps.length < 1 := by
    obtain ⟨p, hp, -⟩ := h
    cases ps with
    | nil => simp at hp
    | cons a as => simp
  rw [if_neg h1, checkPlayers_bad k ps h]

/-- the well-formedness of one team, as in the property statement -/
def GoodTeam (k : Kind) (t : PyVal) : Prop :=
  ∃ ps, t = .list ps ∧ ps ≠ [] ∧ ∀ p ∈ ps, p = .rating k

/-- every value is a good team, or not a list, or an empty list, or a list with a foreign player -/
theorem team_cases (k : Kind) (t : PyVal) :
    GoodTeam k t ∨ (∀ ps, t ≠ .list ps) ∨ t = .list [] ∨
      (∃ ps, t = .list ps ∧ ∃ p ∈ ps, p ≠ .rating k) := by
  by_cases hl : ∃ ps, t = .list ps
  · obtain ⟨ps, rfl⟩ := hl
    by_cases hne : ps = []
    · exact .inr (.inr (.inl (by rw [hne])))
    · by_cases hall : ∀ p ∈ ps, p = .rating k
      · exact .inl ⟨ps, rfl, hne, hall⟩
      · refine .inr (.inr (.inr ⟨ps, rfl, ?_⟩))
        apply Classical.byContradiction
        intro hno
        apply hall
        intro p hp
        apply Classical.byContradiction
        intro hpk
        exact hno ⟨p, hp, hpk⟩
  · exact .inr (.inl (fun ps e => hl ⟨ps, e⟩))

theorem checkTeamList_ok_iff (k : Kind) (ts : List PyVal) :
    checkTeamList k ts = .ok () ↔ ∀ t ∈ ts, GoodTeam k t := by
  induction ts with
  | nil => simp
  | cons t ts ih =>
    rcases team_cases k t with hg | hnl | he | ⟨ps, rfl, hbad⟩
    · obtain ⟨ps, rfl, hne, hps⟩ := hg
      rw [checkTeamList_cons_good k ps ts hne hps, ih]
      constructor
      · intro h t ht
        rcases List.mem_cons.1 ht with rfl | ht
        · exact ⟨ps, rfl, hne, hps⟩
        · exact h t ht
      · intro h t ht
        exact h t (List.mem_cons_of_mem _ ht)
    · rw [checkTeamList_cons_not_list k t ts hnl]
      constructor
      · intro h; cases h
      · intro h
        obtain ⟨ps, e, -⟩ := h t List.mem_cons_self
        exact absurd e (hnl ps)
    · subst he
      rw [checkTeamList_cons_empty]
      constructor
      · intro h; cases h
      · intro h
        obtain ⟨ps, e, hne, -⟩ := h _ List.mem_cons_self
        injection e with e
        exact absurd e.symm hne
    · rw [checkTeamList_cons_bad_player k ps ts hbad]
      constructor
      · intro h; cases h
      · intro h
        obtain ⟨ps', e, -, hall⟩ := h _ List.mem_cons_self
        injection e with e
        subst e
        obtain ⟨p, hp, hpk⟩ := hbad
        exact absurd (hall p hp) hpk

/-- a prefix of good teams is passed over: the verdict is that of the rest of the list -/
theorem checkTeamList_append_good (k : Kind) (pre rest : List PyVal)
    (h : ∀ t ∈ pre, GoodTeam k t) :
    checkTeamList k (pre ++ rest) = checkTeamList k rest := by
  induction pre with
  | nil => rfl
  | cons t pre ih =>
    obtain ⟨ps, rfl, hne, hps⟩ := h t List.mem_cons_self
    rw [List.cons_append, checkTeamList_cons_good k ps _ hne hps]
    exact ih (fun t ht => h t (List.mem_cons_of_mem _ ht))

/-! ## `checkNumbers` -/

@[simp] theorem checkNumbers_nil : checkNumbers [] = .ok () := rfl

theorem checkNumbers_cons (x : PyVal) (xs : List PyVal) :
    checkNumbers (x :: xs) = if x.isNumber then checkNumbers xs else .error .TypeError := rfl

theorem checkNumbers_ok_iff (xs : List PyVal) :
    checkNumbers xs = .ok () ↔ ∀ x ∈ xs, x.isNumber = true := by
  induction xs with
  | nil => simp
  | cons x xs ih =>
    rw [checkNumbers_cons]
    by_cases h : x.isNumber = true
    · simp [h, ih]
    · simp [h]

theorem checkNumbers_error (xs : List PyVal) (e : PyExc)
    (h : checkNumbers xs = .error e) : e = .TypeError := by
  induction xs with
  | nil => simp at h
  | cons x xs ih =>
    rw [checkNumbers_cons] at h
    by_cases hx : x.isNumber = true
    · simp [hx] at h; exact ih h
    · simp [hx] at h; exact h.symm

theorem checkNumbers_bad (xs : List PyVal) (h : ∃ x ∈ xs, x.isNumber = false) :
    checkNumbers xs = .error .TypeError := by
  rcases except_unit_cases (checkNumbers xs) with h1 | ⟨e, h1⟩
  · obtain ⟨x, hx, hne⟩ := h
    have := (checkNumbers_ok_iff xs).1 h1 x hx
    rw [hne] at this
    cases this
  · rw [h1, checkNumbers_error xs e h1]

/-! ## `checkSelector` -/

theorem checkSelector_falsy (n : Nat) (v : PyVal) (h : v.truthy = false) :
    checkSelector n v = .ok () := by
  simp [checkSelector, h]

theorem checkSelector_list (n : Nat) (xs : List PyVal) (h : xs ≠ []) :
    checkSelector n (.list xs) =
      if xs.length != n then .error .ValueError else checkNumbers xs := by
  have ht : (PyVal.list xs).truthy = true := (truthy_list xs).2 h
  simp [checkSelector, ht]

end OS
