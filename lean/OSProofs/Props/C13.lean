import OSModel.Validate
import OSProofs.ValidateLemmas
/-!
# C13 — malformed calls are rejected with `TypeError` / `ValueError`; well-formed calls are accepted

The validation prefix of `rate` (`validateRate`) and of `predict_*` (`validatePredict`) is
characterised against a well-formedness predicate that is *transcribed from the property
statement* (plain logic over lists; it does not mention the checking functions):

* `teams` is a list of at least two non-empty lists of this model's own rating objects;
* `ranks` / `scores` are each either not given (falsy: `None`, `[]`, …) or a list of numbers
  (`bool`, `int`, `float`; any value, zero and negative included) with one entry per team;
* `ranks` and `scores` are not both given.

Main results: `C13_validateRate_iff`, `C13_validatePredict_iff` (accepted ⇔ well-formed),
`C13_reject_class` / `C13_malformed_rejected` (otherwise a `TypeError` or a `ValueError`), and a
family of small lemmas giving the class of the exception in each malformed case, in the order
the code performs the checks.
-/
namespace OS

/-! ## The specification -/

/-- teams: a list of at least two non-empty lists of this model's own rating objects -/
def WellFormedTeams (k : Kind) (v : PyVal) : Prop :=
  ∃ ts, v = .list ts ∧ 2 ≤ ts.length ∧
    ∀ t ∈ ts, ∃ ps, t = .list ps ∧ ps ≠ [] ∧ ∀ p ∈ ps, p = .rating k

/-- ranks / scores: not given (falsy), or a list of numbers (bool, int, float) of the same
length as teams -/
def SelectorOK (n : Nat) (v : PyVal) : Prop :=
  v.truthy = false ∨ ∃ xs, v = .list xs ∧ xs.length = n ∧ ∀ x ∈ xs, x.isNumber = true

/-- a well-formed `rate` call -/
def WellFormedRate (k : Kind) (teams ranks scores : PyVal) : Prop :=
  WellFormedTeams k teams ∧ SelectorOK (teamCount teams) ranks ∧ SelectorOK (teamCount teams) scores
    ∧ ¬ (ranks.truthy = true ∧ scores.truthy = true)

/-! ## `checkTeams`: decision logic -/

/-- `teams` is not a list → `TypeError` -/
theorem checkTeams_not_list (k : Kind) (v : PyVal) (h : ∀ ts, v ≠ .list ts) :
    checkTeams k v = .error .TypeError := by
  cases v <;> first | rfl | exact absurd rfl (h _)

/-- fewer than two teams → `ValueError` (whatever the items are) -/
theorem checkTeams_too_few (k : Kind) (ts : List PyVal) (h : ts.length < 2) :
    checkTeams k (.list ts) = .error .ValueError := by
  simp [checkTeams, h]

/-- with at least two items, the verdict is that of the item-by-item scan -/
theorem checkTeams_list (k : Kind) (ts : List PyVal) (h : 2 ≤ ts.length) :
    checkTeams k (.list ts) = checkTeamList k ts := by
  have : ¬ ts.length < 2 := Nat.not_lt.2 h
  simp [checkTeams, this]

/-- the first offending item (everything before it is a good team) is not a list → `TypeError` -/
theorem checkTeams_team_not_list (k : Kind) (pre post : List PyVal) (t : PyVal)
    (hlen : 2 ≤ (pre ++ t :: post).length)
    (hpre : ∀ u ∈ pre, ∃ ps, u = .list ps ∧ ps ≠ [] ∧ ∀ p ∈ ps, p = .rating k)
    (ht : ∀ ps, t ≠ .list ps) :
    checkTeams k (.list (pre ++ t :: post)) = .error .TypeError := by
  rw [checkTeams_list k _ hlen, checkTeamList_append_good k pre _ hpre,
    checkTeamList_cons_not_list k t post ht]

/-- the first offending item is an empty team → `ValueError` -/
theorem checkTeams_empty_team (k : Kind) (pre post : List PyVal)
    (hlen : 2 ≤ (pre ++ PyVal.list [] :: post).length)
    (hpre : ∀ u ∈ pre, ∃ ps, u = .list ps ∧ ps ≠ [] ∧ ∀ p ∈ ps, p = .rating k) :
    checkTeams k (.list (pre ++ .list [] :: post)) = .error .ValueError := by
  rw [checkTeams_list k _ hlen, checkTeamList_append_good k pre _ hpre, checkTeamList_cons_empty]

/-- the first offending item is a team containing something that is not a rating object of
this model (another model's rating, a number, `None`, …) → `TypeError` -/
theorem checkTeams_foreign_player (k : Kind) (pre post ps : List PyVal)
    (hlen : 2 ≤ (pre ++ PyVal.list ps :: post).length)
    (hpre : ∀ u ∈ pre, ∃ ps, u = .list ps ∧ ps ≠ [] ∧ ∀ p ∈ ps, p = .rating k)
    (hbad : ∃ p ∈ ps, p ≠ .rating k) :
    checkTeams k (.list (pre ++ .list ps :: post)) = .error .TypeError := by
  rw [checkTeams_list k _ hlen, checkTeamList_append_good k pre _ hpre,
    checkTeamList_cons_bad_player k ps post hbad]

/-- `_check_teams` accepts exactly the well-formed teams -/
theorem checkTeams_ok_iff (k : Kind) (v : PyVal) :
    checkTeams k v = .ok () ↔ WellFormedTeams k v := by
  constructor
  · intro h
    by_cases hl : ∃ ts, v = .list ts
    · obtain ⟨ts, rfl⟩ := hl
      by_cases h2 : ts.length < 2
      · rw [checkTeams_too_few k ts h2] at h; cases h
      · have h2' : 2 ≤ ts.length := Nat.le_of_not_lt h2
        rw [checkTeams_list k ts h2'] at h
        exact ⟨ts, rfl, h2', (checkTeamList_ok_iff k ts).1 h⟩
    · rw [checkTeams_not_list k v (fun ts e => hl ⟨ts, e⟩)] at h; cases h
  · rintro ⟨ts, rfl, h2, hall⟩
    rw [checkTeams_list k ts h2]
    exact (checkTeamList_ok_iff k ts).2 hall

/-! ## `checkSelector`: decision logic -/

/-- a selector that is not given (`None`, `[]`, `0`, `""`, …) is skipped -/
theorem checkSelector_not_given (n : Nat) (v : PyVal) (h : v.truthy = false) :
    checkSelector n v = .ok () := checkSelector_falsy n v h

/-- a given (truthy) selector that is not a list → `TypeError` -/
theorem checkSelector_not_list (n : Nat) (v : PyVal) (ht : v.truthy = true)
    (h : ∀ xs, v ≠ .list xs) : checkSelector n v = .error .TypeError := by
  unfold checkSelector
  rw [if_pos ht]
  cases v <;> first | rfl | exact absurd rfl (h _)

/-- a non-empty list of the wrong length → `ValueError` (whatever its elements are) -/
theorem checkSelector_wrong_length (n : Nat) (xs : List PyVal) (hne : xs ≠ [])
    (h : xs.length ≠ n) : checkSelector n (.list xs) = .error .ValueError := by
  rw [checkSelector_list n xs hne]
  simp [h]

/-- a non-empty list of the right length with an element that is not a number → `TypeError` -/
theorem checkSelector_non_number (n : Nat) (xs : List PyVal) (hne : xs ≠ [])
    (hlen : xs.length = n) (hbad : ∃ x ∈ xs, x.isNumber = false) :
    checkSelector n (.list xs) = .error .TypeError := by
  rw [checkSelector_list n xs hne]
  simp [hlen, checkNumbers_bad xs hbad]

/-- **C13 (numbers accepted).** Any list of `bool` / `int` / `float` values (zero, negative,
anything) with one entry per team is an accepted selector. -/
theorem C13_wellformed_numbers_accepted (n : Nat) (xs : List PyVal)
    (hnum : ∀ x ∈ xs, x.isNumber = true) (hlen : xs.length = n) :
    checkSelector n (.list xs) = .ok () := by
  by_cases hne : xs = []
  · exact checkSelector_falsy n _ (by rw [hne]; rfl)
  · rw [checkSelector_list n xs hne]
    simp [hlen, (checkNumbers_ok_iff xs).2 hnum]

/-- the selector block accepts exactly `SelectorOK` -/
theorem checkSelector_ok_iff (n : Nat) (v : PyVal) :
    checkSelector n v = .ok () ↔ SelectorOK n v := by
  constructor
  · intro h
    by_cases ht : v.truthy = true
    · by_cases hl : ∃ xs, v = .list xs
      · obtain ⟨xs, rfl⟩ := hl
        have hne : xs ≠ [] := (truthy_list xs).1 ht
        by_cases hlen : xs.length = n
        · refine .inr ⟨xs, rfl, hlen, ?_⟩
          rw [checkSelector_list n xs hne] at h
          have h' : checkNumbers xs = .ok () := by simpa [hlen] using h
          exact (checkNumbers_ok_iff xs).1 h'
        · rw [checkSelector_wrong_length n xs hne hlen] at h; cases h
      · rw [checkSelector_not_list n v ht (fun xs e => hl ⟨xs, e⟩)] at h; cases h
    · exact .inl (by simpa using ht)
  · rintro (h | ⟨xs, rfl, hlen, hnum⟩)
    · exact checkSelector_falsy n v h
    · exact C13_wellformed_numbers_accepted n xs hnum hlen

/-- a selector check only ever raises `TypeError` or `ValueError` -/
theorem checkSelector_error_class (n : Nat) (v : PyVal) (e : PyExc)
    (_ : checkSelector n v = .error e) : e = .TypeError ∨ e = .ValueError := pyexc_cases e

/-! ## `validateRate`: decision logic, in the order the code runs -/

/-- 1. an error in the teams check is the error of the call (selectors are not looked at) -/
theorem validateRate_teams_error (k : Kind) (teams ranks scores : PyVal) (e : PyExc)
    (h : checkTeams k teams = .error e) : validateRate k teams ranks scores = .error e := by
  simp [validateRate, h]

/-- 2. teams fine, an error in the `ranks` check is the error of the call -/
theorem validateRate_ranks_error (k : Kind) (teams ranks scores : PyVal) (e : PyExc)
    (hT : checkTeams k teams = .ok ())
    (h : checkSelector (teamCount teams) ranks = .error e) :
    validateRate k teams ranks scores = .error e := by
  simp [validateRate, hT, h]

/-- 3. teams fine, `ranks` passed its own checks, both selectors given → `ValueError`
(before `scores` is inspected any further) -/
theorem validateRate_both (k : Kind) (teams ranks scores : PyVal)
    (hT : checkTeams k teams = .ok ())
    (hR : checkSelector (teamCount teams) ranks = .ok ())
    (hr : ranks.truthy = true) (hs : scores.truthy = true) :
    validateRate k teams ranks scores = .error .ValueError := by
  simp [validateRate, hT, hR, hr, hs]

/-- 4. otherwise the verdict is that of the `scores` check -/
theorem validateRate_scores (k : Kind) (teams ranks scores : PyVal)
    (hT : checkTeams k teams = .ok ())
    (hR : checkSelector (teamCount teams) ranks = .ok ())
    (hnb : ¬ (ranks.truthy = true ∧ scores.truthy = true)) :
    validateRate k teams ranks scores = checkSelector (teamCount teams) scores := by
  have : (ranks.truthy && scores.truthy) = false := by
    cases hr : ranks.truthy <;> cases hs : scores.truthy <;> simp_all
  simp [validateRate, hT, hR, this]

/-- `teams` not a list → `TypeError` -/
theorem validateRate_teams_not_list (k : Kind) (teams ranks scores : PyVal)
    (h : ∀ ts, teams ≠ .list ts) : validateRate k teams ranks scores = .error .TypeError :=
  validateRate_teams_error k teams ranks scores _ (checkTeams_not_list k teams h)

/-- fewer than two teams → `ValueError` -/
theorem validateRate_too_few (k : Kind) (ts : List PyVal) (ranks scores : PyVal)
    (h : ts.length < 2) : validateRate k (.list ts) ranks scores = .error .ValueError :=
  validateRate_teams_error k _ ranks scores _ (checkTeams_too_few k ts h)

/-- teams fine, `ranks` given and not a list → `TypeError` -/
theorem validateRate_ranks_not_list (k : Kind) (teams ranks scores : PyVal)
    (hT : checkTeams k teams = .ok ()) (ht : ranks.truthy = true) (h : ∀ xs, ranks ≠ .list xs) :
    validateRate k teams ranks scores = .error .TypeError :=
  validateRate_ranks_error k teams ranks scores _ hT (checkSelector_not_list _ ranks ht h)

/-- teams fine, `ranks` a non-empty list of the wrong length → `ValueError` -/
theorem validateRate_ranks_wrong_length (k : Kind) (teams scores : PyVal) (xs : List PyVal)
    (hT : checkTeams k teams = .ok ()) (hne : xs ≠ []) (h : xs.length ≠ teamCount teams) :
    validateRate k teams (.list xs) scores = .error .ValueError :=
  validateRate_ranks_error k teams _ scores _ hT (checkSelector_wrong_length _ xs hne h)

/-- teams fine, `ranks` of the right length with a non-number element → `TypeError` -/
theorem validateRate_ranks_non_number (k : Kind) (teams scores : PyVal) (xs : List PyVal)
    (hT : checkTeams k teams = .ok ()) (hne : xs ≠ []) (hlen : xs.length = teamCount teams)
    (hbad : ∃ x ∈ xs, x.isNumber = false) :
    validateRate k teams (.list xs) scores = .error .TypeError :=
  validateRate_ranks_error k teams _ scores _ hT (checkSelector_non_number _ xs hne hlen hbad)

/-- teams fine, `ranks` not given, `scores` given and not a list → `TypeError`;
likewise the other `scores` errors are those of `checkSelector` (by `validateRate_scores`) -/
theorem validateRate_scores_not_list (k : Kind) (teams ranks scores : PyVal)
    (hT : checkTeams k teams = .ok ()) (hr : ranks.truthy = false)
    (ht : scores.truthy = true) (h : ∀ xs, scores ≠ .list xs) :
    validateRate k teams ranks scores = .error .TypeError := by
  rw [validateRate_scores k teams ranks scores hT (checkSelector_falsy _ ranks hr)
    (by simp [hr])]
  exact checkSelector_not_list _ scores ht h

/-! ## The property -/

/-- **C13 (rate).** The validation prefix of `rate` accepts a call exactly when the call is
well-formed: `teams` is a list of ≥ 2 non-empty lists of own ratings, each of `ranks` / `scores`
is either not given or a list of numbers with one entry per team, and not both are given. -/
theorem C13_validateRate_iff (k : Kind) (teams ranks scores : PyVal) :
    validateRate k teams ranks scores = .ok () ↔ WellFormedRate k teams ranks scores := by
  unfold WellFormedRate
  rw [← checkTeams_ok_iff, ← checkSelector_ok_iff, ← checkSelector_ok_iff]
  rcases except_unit_cases (checkTeams k teams) with hT | ⟨e, hT⟩
  · rcases except_unit_cases (checkSelector (teamCount teams) ranks) with hR | ⟨e, hR⟩
    · by_cases hb : ranks.truthy = true ∧ scores.truthy = true
      · rw [validateRate_both k teams ranks scores hT hR hb.1 hb.2]
        constructor
        · intro h; cases h
        · intro h; exact absurd hb h.2.2.2
      · rw [validateRate_scores k teams ranks scores hT hR hb]
        constructor
        · intro h; exact ⟨hT, hR, h, hb⟩
        · intro h; exact h.2.2.1
    · rw [validateRate_ranks_error k teams ranks scores e hT hR]
      constructor
      · intro h; cases h
      · intro h; rw [hR] at h; cases h.2.1
  · rw [validateRate_teams_error k teams ranks scores e hT]
    constructor
    · intro h; cases h
    · intro h; rw [hT] at h; cases h.1

/-- **C13 (predict).** `predict_win` / `predict_draw` / `predict_rank` accept exactly the
well-formed teams. -/
theorem C13_validatePredict_iff (k : Kind) (teams : PyVal) :
    validatePredict k teams = .ok () ↔ WellFormedTeams k teams :=
  checkTeams_ok_iff k teams

/-- **C13 (class of the rejection).** Whatever `rate` rejects, it rejects with a `TypeError`
or a `ValueError` (the model's validation has no other outcome). -/
theorem C13_reject_class (k : Kind) (teams ranks scores : PyVal) (e : PyExc)
    (_ : validateRate k teams ranks scores = .error e) : e = .TypeError ∨ e = .ValueError :=
  pyexc_cases e

/-- same for `predict_*` -/
theorem C13_reject_class_predict (k : Kind) (teams : PyVal) (e : PyExc)
    (_ : validatePredict k teams = .error e) : e = .TypeError ∨ e = .ValueError :=
  pyexc_cases e

/-- **C13 (malformed calls are rejected).** A `rate` call that is not well-formed raises
`TypeError` or `ValueError`. -/
theorem C13_malformed_rejected (k : Kind) (teams ranks scores : PyVal)
    (h : ¬ WellFormedRate k teams ranks scores) :
    validateRate k teams ranks scores = .error .TypeError ∨
      validateRate k teams ranks scores = .error .ValueError := by
  rcases except_unit_cases (validateRate k teams ranks scores) with h1 | ⟨e, h1⟩
  · exact absurd ((C13_validateRate_iff k teams ranks scores).1 h1) h
  · rcases pyexc_cases e with rfl | rfl
    · exact .inl h1
    · exact .inr h1

/-- **C13 (malformed teams are rejected by `predict_*`).** -/
theorem C13_malformed_rejected_predict (k : Kind) (teams : PyVal)
    (h : ¬ WellFormedTeams k teams) :
    validatePredict k teams = .error .TypeError ∨ validatePredict k teams = .error .ValueError := by
  rcases except_unit_cases (validatePredict k teams) with h1 | ⟨e, h1⟩
  · exact absurd ((C13_validatePredict_iff k teams).1 h1) h
  · rcases pyexc_cases e with rfl | rfl
    · exact .inl h1
    · exact .inr h1

/-! ## Non-vacuity: concrete calls -/

section Examples

/-- two teams (1 and 2 players) of Plackett-Luce ratings -/
private def goodTeams : PyVal :=
  .list [.list [.rating .PL], .list [.rating .PL, .rating .PL]]

/-- a well-formed call, shown well-formed directly from the specification
(ranks `[True, 0.0]`: a bool and a zero float are numbers) … -/
example : WellFormedRate .PL goodTeams (.list [.bool true, .flt true]) .none := by
  refine ⟨⟨_, rfl, by decide, ?_⟩, .inr ⟨_, rfl, rfl, ?_⟩, .inl rfl, ?_⟩
  · intro t ht
    simp only [List.mem_cons, List.not_mem_nil, or_false] at ht
    rcases ht with rfl | rfl
    · exact ⟨_, rfl, by simp, by simp⟩
    · exact ⟨_, rfl, by simp, by simp⟩
  · intro x hx
    simp only [List.mem_cons, List.not_mem_nil, or_false] at hx
    rcases hx with rfl | rfl <;> rfl
  · intro h; cases h.2

/-- … and accepted by the model -/
example : validateRate .PL goodTeams (.list [.bool true, .flt true]) .none = .ok () := rfl
example : validatePredict .PL goodTeams = .ok () := rfl
/-- negative ints, zero, floats as scores -/
example : validateRate .PL goodTeams .none (.list [.int (-3), .int 0]) = .ok () := rfl
/-- `ranks=[]` counts as not given -/
example : validateRate .PL goodTeams (.list []) (.list [.flt false, .flt true]) = .ok () := rfl

/-- malformed calls -/
example : validateRate .PL .none .none .none = .error .TypeError := rfl
example : validateRate .PL (.tuple [.list [.rating .PL], .list [.rating .PL]]) .none .none
    = .error .TypeError := rfl
example : validateRate .PL (.list [.list [.rating .PL]]) .none .none = .error .ValueError := rfl
example : validateRate .PL (.list [.list [.rating .PL], .obj]) .none .none
    = .error .TypeError := rfl
example : validateRate .PL (.list [.list [.rating .PL], .list []]) .none .none
    = .error .ValueError := rfl
/-- a rating object of another model is not an own rating -/
example : validateRate .PL (.list [.list [.rating .PL], .list [.rating .BTF]]) .none .none
    = .error .TypeError := rfl
/-- the same teams handed to another model -/
example : validateRate .BTF goodTeams .none .none = .error .TypeError := rfl
example : validateRate .PL goodTeams (.int 1) .none = .error .TypeError := rfl
example : validateRate .PL goodTeams (.tuple [.int 1, .int 2]) .none = .error .TypeError := rfl
example : validateRate .PL goodTeams (.list [.int 1]) .none = .error .ValueError := rfl
example : validateRate .PL goodTeams (.list [.int 1, .str 1]) .none = .error .TypeError := rfl
example : validateRate .PL goodTeams (.list [.int 1, .none]) .none = .error .TypeError := rfl
example : validateRate .PL goodTeams (.list [.int 1, .int 2]) (.list [.int 1, .int 2])
    = .error .ValueError := rfl
/-- both given: `ValueError` even if `scores` is itself malformed (it is not inspected) -/
example : validateRate .PL goodTeams (.list [.int 1, .int 2]) .obj = .error .ValueError := rfl
example : validateRate .PL goodTeams .none (.list [.int 1, .int 2, .int 3])
    = .error .ValueError := rfl
example : validatePredict .PL (.list [.list [.rating .PL]]) = .error .ValueError := rfl
/-- the malformed examples are indeed not well-formed (via the characterisation) -/
example : ¬ WellFormedRate .PL goodTeams (.list [.int 1, .int 2]) .obj := by
  rw [← C13_validateRate_iff]; intro h; cases h

end Examples

end OS
