import OSProofs.Props.C01
import OSProofs.Props.C02
import OSProofs.Props.C04b
/-!
# C01 — `rate` with an outcome: the published closed form, slot by slot

`C01_compute` (Props/C01) says `_compute` is the published update of the list it is handed.
Here the wrapper is added: tau inflation, the rank sort, the dense ranks, the un-sort, the clamp.
-/
noncomputable section
namespace OS
variable {ρ : Type}

/-- **Any model, any outcome encoding**: a ranked `rate` call without the clamp is the published
update (`specCompute`) of the rank-sorted, tau-inflated teams with their dense ranks, put back into
the caller's order. -/
theorem C01_rate_ranked (K : Kind) (L : Leaves ℝ) (P : Params ℝ) (le : ρ → ρ → Bool)
    (teams : List (List (Rating ℝ))) (r : List ρ) (o : CallOpts ℝ)
    (hl : resolveLimit P o = false) :
    rateCore K L P le teams (some r) o
      = (unwind leNat (unwind le r (inflate (resolveTau P o) teams)).2
          (specCompute K L P
            (teamAggs (unwind le r (inflate (resolveTau P o) teams)).1
              (denseRanks (fun a b => !le b a) (sortedKeys le r))))).1 := by
  simp only [rateCore, hl, C01_compute]
  rfl

/-- **Plackett–Luce and the full-pairing models**: the sort is immaterial — a ranked `rate` call is
the published update of the tau-inflated teams IN THE CALLER'S ORDER, team `i` carrying the rank
`#{q : ρ_q < ρ_i}` computed from the original rank values (ints, floats, scores negated …): exactly
the specification of DESIGN §4, with no sorting and no dense-rank loop in it. -/
theorem C01_rate_ranked_full (K : Kind) (hK : K = .PL ∨ K = .BTF ∨ K = .TMF)
    (L : Leaves ℝ) (P : Params ℝ) (le : ρ → ρ → Bool)
    (total : ∀ a b, (le a b || le b a) = true)
    (trans : ∀ a b c, le a b = true → le b c = true → le a c = true) (o : CallOpts ℝ)
    (teams : List (List (Rating ℝ))) (ranks : List ρ) (hlen : ranks.length = teams.length)
    (hlim : resolveLimit P o = false) :
    rateCore K L P le teams (some ranks) o
      = specCompute K L P
          (teamAggs (inflate (resolveTau P o) teams)
            (ranks.map (fun x => (ranks.filter (fun y => !le x y)).length))) := by
  rw [C04b_rate_full_sortfree K hK L P le total trans o teams ranks hlen hlim, C01_compute]

/-- **limit_sigma**: with the clamp in force the result is the unclamped closed form, each sigma
replaced by the prior sigma of the same slot when it would exceed it -/
theorem C01_rate_clamped (K : Kind) (L : Leaves ℝ) (P : Params ℝ) (le : ρ → ρ → Bool)
    (teams : List (List (Rating ℝ))) (ranks : Option (List ρ)) (o : CallOpts ℝ)
    (hl : resolveLimit P o = true) :
    rateCore K L P le teams ranks o
      = clampTeams teams (rateCore K L P le teams ranks { o with limitSigma := some false }) :=
  C02_clamp_slot K L P le teams ranks o hl

end OS
end
