import OSProofs.SortLemmas
import OSProofs.C03Lemmas
import Mathlib.Data.List.FinRange
import Mathlib.Logic.Equiv.Fin.Basic

/-!
# Helper lemmas for C04b, part B: uniqueness of the stable sort

`List.mergeSort` is stable: by core's `List.mergeSort_zipIdx` it is the sort of the pairs
`(element, position)` for the lexicographic comparison `List.zipIdxLE le`, which is antisymmetric on
a list with distinct positions, so its output is the UNIQUE sorted permutation.  Consequence: two
presentations `l`, `l' = l ∘ σ` of the same items in which mutually tied items keep their relative
order have the same sorted list.
-/

namespace OS
open List

/-- a permutation of `Fin n`, as a function on `ℕ` (identity outside `[0, n)`) -/
def eqv_permNat {n : ℕ} (σ : Equiv.Perm (Fin n)) (i : ℕ) : ℕ :=
  if h : i < n then (σ ⟨i, h⟩).1 else i

theorem eqv_permNat_of_lt {n : ℕ} (σ : Equiv.Perm (Fin n)) {i : ℕ} (h : i < n) :
    eqv_permNat σ i = (σ ⟨i, h⟩).1 := dif_pos h

theorem eqv_permNat_lt {n : ℕ} (σ : Equiv.Perm (Fin n)) {i : ℕ} (h : i < n) : eqv_permNat σ i < n := by
  rw [eqv_permNat_of_lt σ h]; exact (σ ⟨i, h⟩).2

section stable
variable {γ : Type} (le : γ → γ → Bool)

theorem eqv_mem_zipIdx {l : List γ} {x : γ × ℕ} (h : x ∈ l.zipIdx) :
    ∃ hi : x.2 < l.length, x.1 = l[x.2] := by
  obtain ⟨a, i⟩ := x
  have := List.mem_zipIdx h
  simp only [Nat.zero_le, Nat.zero_add, Nat.sub_zero, true_and] at this
  exact ⟨this.1, this.2⟩

theorem eqv_zipIdx_eq_ofFn (l : List γ) (n : ℕ) (hn : l.length = n) :
    l.zipIdx = List.ofFn (fun i : Fin n => (l[i.1]'(hn ▸ i.2), i.1)) := by
  subst hn
  apply List.ext_getElem <;> simp

/-- the pairs `(element, position)` of `l' = l ∘ σ`, with the positions sent back through `σ`,
are a permutation of the pairs of `l` -/
theorem eqv_zipIdx_reindex_perm (l l' : List γ) (n : ℕ) (hn : l.length = n) (hn' : l'.length = n)
    (σ : Equiv.Perm (Fin n))
    (hl : ∀ i : Fin n, l'[i.1]'(hn' ▸ i.2) = l[(σ i).1]'(hn ▸ (σ i).2)) :
    (l'.zipIdx.map (Prod.map id (eqv_permNat σ))).Perm l.zipIdx := by
  have h1 : l'.zipIdx.map (Prod.map id (eqv_permNat σ))
      = List.ofFn ((fun i : Fin n => (l[i.1]'(hn ▸ i.2), i.1)) ∘ σ) := by
    rw [eqv_zipIdx_eq_ofFn l' n hn', List.map_ofFn]
    congr 1
    funext i
    simp only [Function.comp_apply, Prod.map_apply, id_eq, hl i, eqv_permNat_of_lt σ i.2]
  rw [h1, eqv_zipIdx_eq_ofFn l n hn]
  exact σ.ofFn_comp_perm _

/-- **Uniqueness of the stable sort** (position-tracking form).  If `l' = l ∘ σ` and `σ` keeps
mutually tied items in their relative order, then sorting the `(item, position)` pairs of `l'` and
sending the positions through `σ` gives the sorted `(item, position)` pairs of `l`. -/
theorem eqv_mergeSort_zipIdx_reindex
    (trans : ∀ a b c, le a b = true → le b c = true → le a c = true)
    (total : ∀ a b, (le a b || le b a) = true)
    (l l' : List γ) (n : ℕ) (hn : l.length = n) (hn' : l'.length = n)
    (σ : Equiv.Perm (Fin n))
    (hl : ∀ i : Fin n, l'[i.1]'(hn' ▸ i.2) = l[(σ i).1]'(hn ▸ (σ i).2))
    (hstab : ∀ i j : Fin n, i < j → le (l'[i.1]'(hn' ▸ i.2)) (l'[j.1]'(hn' ▸ j.2)) = true →
      le (l'[j.1]'(hn' ▸ j.2)) (l'[i.1]'(hn' ▸ i.2)) = true → σ i < σ j) :
    (mergeSort l'.zipIdx (zipIdxLE le)).map (Prod.map id (eqv_permNat σ))
      = mergeSort l.zipIdx (zipIdxLE le) := by
  have hperm : ((mergeSort l'.zipIdx (zipIdxLE le)).map (Prod.map id (eqv_permNat σ))).Perm
      (mergeSort l.zipIdx (zipIdxLE le)) :=
    (((mergeSort_perm _ _).map _).trans (eqv_zipIdx_reindex_perm l l' n hn hn' σ hl)).trans
      (mergeSort_perm _ _).symm
  refine List.Perm.eq_of_pairwise (le := fun a b => zipIdxLE le a b = true) ?_ ?_ ?_ hperm
  · -- antisymmetry on the pairs of `l`
    intro a b ha hb hab hba
    have ha' : a ∈ l.zipIdx := mem_mergeSort.1 (hperm.subset ha)
    have hb' : b ∈ l.zipIdx := mem_mergeSort.1 hb
    obtain ⟨hai, hax⟩ := eqv_mem_zipIdx ha'
    obtain ⟨hbi, hbx⟩ := eqv_mem_zipIdx hb'
    have hidx : a.2 = b.2 := by
      unfold zipIdxLE at hab hba
      by_cases h1 : le a.1 b.1 = true
      · by_cases h2 : le b.1 a.1 = true
        · simp only [h1, h2, if_true, decide_eq_true_eq] at hab hba
          omega
        · simp [h2] at hba
      · simp [h1] at hab
    apply Prod.ext _ hidx
    rw [hax, hbx]
    exact getElem_congr_idx hidx
  · -- the re-indexed sorted pairs of `l'` are sorted
    rw [List.pairwise_map]
    refine (pairwise_mergeSort (zipIdxLE_trans trans) (zipIdxLE_total total) l'.zipIdx).imp_of_mem ?_
    intro a b ha hb hab
    obtain ⟨hai, hax⟩ := eqv_mem_zipIdx (mem_mergeSort.1 ha)
    obtain ⟨hbi, hbx⟩ := eqv_mem_zipIdx (mem_mergeSort.1 hb)
    unfold zipIdxLE at hab ⊢
    simp only [Prod.map_fst, Prod.map_snd, id_eq]
    by_cases h1 : le a.1 b.1 = true
    · by_cases h2 : le b.1 a.1 = true
      · simp only [h1, h2, if_true, decide_eq_true_eq] at hab ⊢
        rcases Nat.eq_or_lt_of_le hab with h | h
        · rw [h]
        · rw [eqv_permNat_of_lt σ (hn' ▸ hai), eqv_permNat_of_lt σ (hn' ▸ hbi)]
          have := hstab ⟨a.2, hn' ▸ hai⟩ ⟨b.2, hn' ▸ hbi⟩ h (by simpa only [← hax, ← hbx] using h1)
            (by simpa only [← hax, ← hbx] using h2)
          exact Nat.le_of_lt this
      · simp [h1, h2]
    · simp [h1] at hab
  · exact pairwise_mergeSort (zipIdxLE_trans trans) (zipIdxLE_total total) l.zipIdx

/-- **Uniqueness of the stable sort.**  If `l' = l ∘ σ` and `σ` keeps mutually tied items in their
relative order, `l'` and `l` have the same sorted list. -/
theorem eqv_mergeSort_reindex
    (trans : ∀ a b c, le a b = true → le b c = true → le a c = true)
    (total : ∀ a b, (le a b || le b a) = true)
    (l l' : List γ) (n : ℕ) (hn : l.length = n) (hn' : l'.length = n)
    (σ : Equiv.Perm (Fin n))
    (hl : ∀ i : Fin n, l'[i.1]'(hn' ▸ i.2) = l[(σ i).1]'(hn ▸ (σ i).2))
    (hstab : ∀ i j : Fin n, i < j → le (l'[i.1]'(hn' ▸ i.2)) (l'[j.1]'(hn' ▸ j.2)) = true →
      le (l'[j.1]'(hn' ▸ j.2)) (l'[i.1]'(hn' ▸ i.2)) = true → σ i < σ j) :
    mergeSort l' le = mergeSort l le := by
  have key := eqv_mergeSort_zipIdx_reindex le trans total l l' n hn hn' σ hl hstab
  rw [← mergeSort_zipIdx (l := l'), ← mergeSort_zipIdx (l := l), ← key, List.map_map]
  rfl

end stable

/-! ### `_unwind` of two presentations of the same game -/

section unwind
variable {κ β : Type} (le : κ → κ → Bool)

theorem eqv_zip_zipIdx_getElem (ranks : List κ) (teams : List β) (i : ℕ)
    (h : i < (ranks.zip teams.zipIdx).length) :
    (ranks.zip teams.zipIdx)[i]
      = (ranks[i]'(by simp at h; omega), teams[i]'(by simp at h; omega), i) := by
  simp

/-- the sorted `(key, object, original index)` triples of the two presentations correspond: same
keys, same objects, original indices related by `σ` -/
theorem eqv_sortByKey_reindex
    (trans : ∀ a b c, le a b = true → le b c = true → le a c = true)
    (total : ∀ a b, (le a b || le b a) = true)
    (teams teams' : List β) (ranks ranks' : List κ) (n : ℕ)
    (ht : teams.length = n) (hr : ranks.length = n) (ht' : teams'.length = n)
    (hr' : ranks'.length = n) (σ : Equiv.Perm (Fin n))
    (hT : ∀ i : Fin n, teams'[i.1]'(ht' ▸ i.2) = teams[(σ i).1]'(ht ▸ (σ i).2))
    (hR : ∀ i : Fin n, ranks'[i.1]'(hr' ▸ i.2) = ranks[(σ i).1]'(hr ▸ (σ i).2))
    (hstab : ∀ i j : Fin n, i < j →
      le (ranks'[i.1]'(hr' ▸ i.2)) (ranks'[j.1]'(hr' ▸ j.2)) = true →
      le (ranks'[j.1]'(hr' ▸ j.2)) (ranks'[i.1]'(hr' ▸ i.2)) = true → σ i < σ j) :
    (sortByKey le (ranks'.zip teams'.zipIdx)).map
        (fun x : κ × β × ℕ => (x.1, x.2.1, eqv_permNat σ x.2.2))
      = sortByKey le (ranks.zip teams.zipIdx) := by
  unfold sortByKey
  rw [List.map_mergeSort (s := fun a b : κ × β × ℕ => le a.1 b.1) (fun _ _ _ _ => rfl)]
  have hzl : (ranks.zip teams.zipIdx).length = n := by simp [hr, ht]
  have hzl' : ((ranks'.zip teams'.zipIdx).map
      (fun x : κ × β × ℕ => (x.1, x.2.1, eqv_permNat σ x.2.2))).length = n := by simp [hr', ht']
  refine eqv_mergeSort_reindex (fun a b : κ × β × ℕ => le a.1 b.1)
    (fun a b c => trans a.1 b.1 c.1) (fun a b => total a.1 b.1) _ _ n hzl hzl' σ ?_ ?_
  · intro i
    simp only [List.getElem_map, eqv_zip_zipIdx_getElem, hT i, hR i, eqv_permNat_of_lt σ i.2]
  · intro i j hij h1 h2
    simp only [List.getElem_map, eqv_zip_zipIdx_getElem] at h1 h2
    exact hstab i j hij h1 h2

/-- **The two presentations are sorted to the same list of objects**, and the tenets (original
indices in sorted order) correspond through `σ`. -/
theorem eqv_unwind_reindex
    (trans : ∀ a b c, le a b = true → le b c = true → le a c = true)
    (total : ∀ a b, (le a b || le b a) = true)
    (teams teams' : List β) (ranks ranks' : List κ) (n : ℕ)
    (ht : teams.length = n) (hr : ranks.length = n) (ht' : teams'.length = n)
    (hr' : ranks'.length = n) (σ : Equiv.Perm (Fin n))
    (hT : ∀ i : Fin n, teams'[i.1]'(ht' ▸ i.2) = teams[(σ i).1]'(ht ▸ (σ i).2))
    (hR : ∀ i : Fin n, ranks'[i.1]'(hr' ▸ i.2) = ranks[(σ i).1]'(hr ▸ (σ i).2))
    (hstab : ∀ i j : Fin n, i < j →
      le (ranks'[i.1]'(hr' ▸ i.2)) (ranks'[j.1]'(hr' ▸ j.2)) = true →
      le (ranks'[j.1]'(hr' ▸ j.2)) (ranks'[i.1]'(hr' ▸ i.2)) = true → σ i < σ j) :
    (unwind le ranks' teams').1 = (unwind le ranks teams).1 ∧
      ((unwind le ranks' teams').2).map (eqv_permNat σ) = (unwind le ranks teams).2 := by
  have key := eqv_sortByKey_reindex le trans total teams teams' ranks ranks' n ht hr ht' hr' σ
    hT hR hstab
  unfold unwind
  simp only [← key, List.map_map]
  exact ⟨rfl, rfl⟩

/-- the sorted keys of the two presentations are equal -/
theorem eqv_sortedKeys_reindex
    (trans : ∀ a b c, le a b = true → le b c = true → le a c = true)
    (total : ∀ a b, (le a b || le b a) = true)
    (ranks ranks' : List κ) (n : ℕ) (hr : ranks.length = n) (hr' : ranks'.length = n)
    (σ : Equiv.Perm (Fin n))
    (hR : ∀ i : Fin n, ranks'[i.1]'(hr' ▸ i.2) = ranks[(σ i).1]'(hr ▸ (σ i).2))
    (hstab : ∀ i j : Fin n, i < j →
      le (ranks'[i.1]'(hr' ▸ i.2)) (ranks'[j.1]'(hr' ▸ j.2)) = true →
      le (ranks'[j.1]'(hr' ▸ j.2)) (ranks'[i.1]'(hr' ▸ i.2)) = true → σ i < σ j) :
    sortedKeys le ranks' = sortedKeys le ranks := by
  rw [sortedKeys_eq_mergeSort, sortedKeys_eq_mergeSort]
  exact eqv_mergeSort_reindex le trans total ranks ranks' n hr hr' σ hR hstab

end unwind

/-! ### the second `_unwind` (sorting the results back) and `rate` -/

section back
variable {γ : Type}

/-- sorting back by two tenets that correspond through `σ`: position `t` of one result is
position `σ t` of the other -/
theorem eqv_unwind_back (tenet tenet' : List ℕ) (xs : List γ) (n : ℕ) (hx : xs.length = n)
    (hp : tenet.Perm (List.range n)) (hp' : tenet'.Perm (List.range n))
    (σ : Equiv.Perm (Fin n)) (hσ : tenet'.map (eqv_permNat σ) = tenet) (t : ℕ) (ht : t < n) :
    ((unwind leNat tenet' xs).1)[t]? = ((unwind leNat tenet xs).1)[eqv_permNat σ t]? := by
  have hmem : t ∈ tenet' := hp'.symm.subset (List.mem_range.2 ht)
  obtain ⟨k, hk⟩ := List.mem_iff_getElem?.1 hmem
  rw [unwind_by_perm tenet' xs n hx hp' k t hk]
  have hk2 : tenet[k]? = some (eqv_permNat σ t) := by rw [← hσ]; simp [hk]
  rw [unwind_by_perm tenet xs n hx hp k _ hk2]

end back

section rate
open Scalar
variable {α ρ : Type} [Scalar α]

/-- the result of a ranked `rate` call before the `limit_sigma` clamp -/
def eqv_rateRes (K : Kind) (L : Leaves α) (P : Params α) (le : ρ → ρ → Bool) (tau : α)
    (teams : List (List (Rating α))) (r : List ρ) : List (List (Rating α)) :=
  let u := unwind le r (inflate tau teams)
  (unwind leNat u.2 (compute K L P u.1 (denseRanks (fun a b => !le b a) (sortedKeys le r)))).1

theorem eqv_rateCore_eq_rateRes (K : Kind) (L : Leaves α) (P : Params α) (le : ρ → ρ → Bool)
    (teams : List (List (Rating α))) (r : List ρ) (o : CallOpts α) :
    rateCore K L P le teams (some r) o
      = if resolveLimit P o then clampTeams teams (eqv_rateRes K L P le (resolveTau P o) teams r)
        else eqv_rateRes K L P le (resolveTau P o) teams r := rfl

theorem eqv_rateRes_length (K : Kind) (L : Leaves α) (P : Params α) (le : ρ → ρ → Bool) (tau : α)
    (teams : List (List (Rating α))) (r : List ρ) (hr : r.length = teams.length) :
    (eqv_rateRes K L P le tau teams r).length = teams.length := by
  simp [eqv_rateRes, unwind_fst_length, unwind_snd_length, length_compute, length_inflate, hr]

theorem eqv_clampTeams_length (orig res : List (List (Rating α))) :
    (clampTeams orig res).length = min res.length orig.length := by
  simp [clampTeams]

theorem eqv_rateCore_length (K : Kind) (L : Leaves α) (P : Params α) (le : ρ → ρ → Bool)
    (teams : List (List (Rating α))) (r : List ρ) (o : CallOpts α)
    (hr : r.length = teams.length) :
    (rateCore K L P le teams (some r) o).length = teams.length := by
  rw [eqv_rateCore_eq_rateRes]
  split
  · rw [eqv_clampTeams_length, eqv_rateRes_length _ _ _ _ _ _ _ hr, Nat.min_self]
  · exact eqv_rateRes_length _ _ _ _ _ _ _ hr

/-- two presentations of the same game, tied teams in the same relative order: team by team the
same result, before the clamp -/
theorem eqv_rateRes_reindex (K : Kind) (L : Leaves α) (P : Params α) (le : ρ → ρ → Bool)
    (trans : ∀ a b c, le a b = true → le b c = true → le a c = true)
    (total : ∀ a b, (le a b || le b a) = true) (tau : α)
    (teams teams' : List (List (Rating α))) (ranks ranks' : List ρ) (n : ℕ)
    (ht : teams.length = n) (hr : ranks.length = n) (ht' : teams'.length = n)
    (hr' : ranks'.length = n) (σ : Equiv.Perm (Fin n))
    (hT : ∀ i : Fin n, teams'[i.1]'(ht' ▸ i.2) = teams[(σ i).1]'(ht ▸ (σ i).2))
    (hR : ∀ i : Fin n, ranks'[i.1]'(hr' ▸ i.2) = ranks[(σ i).1]'(hr ▸ (σ i).2))
    (hstab : ∀ i j : Fin n, i < j →
      le (ranks'[i.1]'(hr' ▸ i.2)) (ranks'[j.1]'(hr' ▸ j.2)) = true →
      le (ranks'[j.1]'(hr' ▸ j.2)) (ranks'[i.1]'(hr' ▸ i.2)) = true → σ i < σ j)
    (i : Fin n) :
    (eqv_rateRes K L P le tau teams' ranks')[i.1]? = (eqv_rateRes K L P le tau teams ranks)[(σ i).1]? := by
  have hi : (inflate tau teams).length = n := by rw [length_inflate, ht]
  have hi' : (inflate tau teams').length = n := by rw [length_inflate, ht']
  have hI : ∀ i : Fin n, (inflate tau teams')[i.1]'(hi' ▸ i.2)
      = (inflate tau teams)[(σ i).1]'(hi ▸ (σ i).2) := by
    intro i; simp only [inflate, List.getElem_map, hT i]
  obtain ⟨h1, h2⟩ := eqv_unwind_reindex le trans total (inflate tau teams) (inflate tau teams')
    ranks ranks' n hi hr hi' hr' σ hI hR hstab
  have h3 := eqv_sortedKeys_reindex le trans total ranks ranks' n hr hr' σ hR hstab
  unfold eqv_rateRes
  simp only [h1, h3]
  have hp := (unwind_first le ranks (inflate tau teams) (by rw [hr, hi])).1
  have hp' := (unwind_first le ranks' (inflate tau teams') (by rw [hr', hi'])).1
  rw [hi] at hp
  rw [hi'] at hp'
  have hx : (compute K L P (unwind le ranks (inflate tau teams)).1
      (denseRanks (fun a b => !le b a) (sortedKeys le ranks))).length = n := by
    simp [length_compute, unwind_fst_length, hr, hi]
  rw [eqv_unwind_back _ _ _ n hx hp hp' σ h2 i.1 i.2, eqv_permNat_of_lt σ i.2]

theorem eqv_clampTeams_reindex (orig orig' res res' : List (List (Rating α))) (n : ℕ)
    (ho : orig.length = n) (ho' : orig'.length = n) (hs : res.length = n) (hs' : res'.length = n)
    (σ : Equiv.Perm (Fin n))
    (hO : ∀ i : Fin n, orig'[i.1]'(ho' ▸ i.2) = orig[(σ i).1]'(ho ▸ (σ i).2))
    (hS : ∀ i : Fin n, res'[i.1]? = res[(σ i).1]?) (i : Fin n) :
    (clampTeams orig' res')[i.1]? = (clampTeams orig res)[(σ i).1]? := by
  have h1 : i.1 < res'.length := hs' ▸ i.2
  have h2 : (σ i).1 < res.length := hs ▸ (σ i).2
  have h3 : i.1 < orig'.length := ho' ▸ i.2
  have h4 : (σ i).1 < orig.length := ho ▸ (σ i).2
  have hS' := hS i
  rw [List.getElem?_eq_getElem h1, List.getElem?_eq_getElem h2, Option.some.injEq] at hS'
  unfold clampTeams
  rw [List.getElem?_eq_getElem (by simp; omega), List.getElem?_eq_getElem (by simp; omega)]
  simp only [List.getElem_map, List.getElem_zip, hS', hO i]

/-- **`rate` on two presentations of the same game** (generic in the model `K` and in the scalar
type): if `teams' = teams ∘ σ`, `ranks' = ranks ∘ σ` and `σ` keeps mutually tied teams in their
relative order, the team at position `i` of the second presentation gets the result of the team
at position `σ i` of the first. -/
theorem eqv_rateCore_reindex (K : Kind) (L : Leaves α) (P : Params α) (le : ρ → ρ → Bool)
    (trans : ∀ a b c, le a b = true → le b c = true → le a c = true)
    (total : ∀ a b, (le a b || le b a) = true) (o : CallOpts α)
    (teams teams' : List (List (Rating α))) (ranks ranks' : List ρ) (n : ℕ)
    (ht : teams.length = n) (hr : ranks.length = n) (ht' : teams'.length = n)
    (hr' : ranks'.length = n) (σ : Equiv.Perm (Fin n))
    (hT : ∀ i : Fin n, teams'[i.1]'(ht' ▸ i.2) = teams[(σ i).1]'(ht ▸ (σ i).2))
    (hR : ∀ i : Fin n, ranks'[i.1]'(hr' ▸ i.2) = ranks[(σ i).1]'(hr ▸ (σ i).2))
    (hstab : ∀ i j : Fin n, i < j →
      le (ranks'[i.1]'(hr' ▸ i.2)) (ranks'[j.1]'(hr' ▸ j.2)) = true →
      le (ranks'[j.1]'(hr' ▸ j.2)) (ranks'[i.1]'(hr' ▸ i.2)) = true → σ i < σ j)
    (i : Fin n) :
    (rateCore K L P le teams' (some ranks') o)[i.1]?
      = (rateCore K L P le teams (some ranks) o)[(σ i).1]? := by
  have key := eqv_rateRes_reindex K L P le trans total (resolveTau P o) teams teams' ranks ranks'
    n ht hr ht' hr' σ hT hR hstab
  rw [eqv_rateCore_eq_rateRes, eqv_rateCore_eq_rateRes]
  split
  · exact eqv_clampTeams_reindex teams teams' _ _ n ht ht'
      (by rw [eqv_rateRes_length _ _ _ _ _ _ _ (hr.trans ht.symm), ht])
      (by rw [eqv_rateRes_length _ _ _ _ _ _ _ (hr'.trans ht'.symm), ht']) σ hT key i
  · exact key i

end rate

end OS
