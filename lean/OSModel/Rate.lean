import OSModel.Compute
import OSModel.Sort
import OSModel.Ranking
/-
  `rate(teams, ranks, scores, tau, limit_sigma)` after validation (validation is modelled
  over `PyVal` in Validate.lean).  Mirrors the code as repaired by F2 (per-call limit_sigma
  resolved locally, never written to the model), F3 (`tau is not None`), F4.
  The rank values live in any type `ρ` with a comparison `le` (Python's exact mixed
  int/float/bool comparison in the driver).
-/
namespace OS
open Scalar
variable {α : Type} [Scalar α]

structure CallOpts (α : Type) where
  tau : Option α
  limitSigma : Option Bool

def resolveTau (P : Params α) (o : CallOpts α) : α :=
  match o.tau with
  | some t => t
  | none => P.tau

def resolveLimit (P : Params α) (o : CallOpts α) : Bool :=
  match o.limitSigma with
  | some b => b
  | none => P.limitSigma

def inflate (tau : α) (teams : List (List (Rating α))) : List (List (Rating α)) :=
  teams.map (·.map (fun p => { p with sigma := sqrt (p.sigma * p.sigma + tau * tau) }))

/-- the limit_sigma clamp: slot `[i][j]` of the result against slot `[i][j]` of the
    deep-copied original teams -/
def clampTeams (orig res : List (List (Rating α))) : List (List (Rating α)) :=
  (res.zip orig).map (fun tr =>
    (tr.1.zip tr.2).map (fun pq =>
      if pq.1.sigma ≤ pq.2.sigma then pq.1 else { pq.1 with sigma := pq.2.sigma }))

/-- outcome selector after validation: `none` = neither ranks nor scores (truthy) given -/
def rateCore {ρ : Type} (K : Kind) (L : Leaves α) (P : Params α) (le : ρ → ρ → Bool)
    (teams : List (List (Rating α))) (ranks : Option (List ρ)) (o : CallOpts α) :
    List (List (Rating α)) :=
  let infl := inflate (resolveTau P o) teams
  let res := match ranks with
    | none => compute K L P infl (List.range infl.length)
    | some r =>
      let u := unwind le r infl
      let dense := denseRanks (fun a b => !le b a) (sortedKeys le r)
      (unwind leNat u.2 (compute K L P u.1 dense)).1
  if resolveLimit P o then clampTeams teams res else res

/-- the three ways an outcome reaches `rate` -/
inductive Outcome (ρ : Type) where
  | omitted
  | ranks (r : List ρ)
  | scores (s : List ρ)

/-- `rate`: scores become ranks by negation (`_unary_minus`) -/
def rate {ρ : Type} (K : Kind) (L : Leaves α) (P : Params α) (le : ρ → ρ → Bool) (neg : ρ → ρ)
    (teams : List (List (Rating α))) (oc : Outcome ρ) (o : CallOpts α) :
    List (List (Rating α)) :=
  match oc with
  | .omitted => rateCore K L P le teams none o
  | .ranks r => rateCore K L P le teams (some r) o
  | .scores s => rateCore K L P le teams (some (s.map neg)) o

end OS
