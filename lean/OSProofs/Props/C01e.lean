import OSProofs.Props.C01d
import OSProofs.Props.C17b
/-!
# C01 — the code's leaves against the exact ones, with no hypothesis left

`leafGap_code_exact` took the `wt` bound as a hypothesis while `C17_wt_code_error` was being proved
in parallel; here it is discharged.
-/
noncomputable section
namespace OS

/-- the code's `v, w, vt, wt` are within the documented errors of the exact `V, W, Ṽ, W̃`
(`V/64` resp. `1/50` on the asymptotic branch of `v, w`, `2t` for `vt`, `4t²` for `wt`; 0 elsewhere) -/
theorem C01_leafGap_code_exact :
    LeafGap codeLeaves exactLeaves codeGapV codeGapW codeGapVt codeGapWt :=
  leafGap_code_exact (fun _ _ ht => C17_wt_code_error ht)

end OS
end
