import OSModel
import OSProofs.MonoArith
import OSProofs.FL1Lemmas
import OSProofs.FL2Lemmas
import OSProofs.FL3Lemmas

/-!
# Helper lemmas for FL5: monotonicity of the predictions in a player's mu, exactly

Over an abstract `α` with `[Scalar α]`, `(M : MonoArith α)` and the one further law `PhiMono α`.
No field axioms.

* list facts (scalar-free): `Forall₂` along `set`, along `othersOf`;
* `sumL` is monotone entry by entry (`add_le_add'` along the left fold);
* the pair term `Φ(g(θa − θb)/d_ab)` is monotone in `θa`, antitone in `θb`;
* the per-team entry `sumL (opponent terms) / (n(n−1)/2)`.
-/

namespace OS
open Scalar
variable {α : Type} [Scalar α]

local notation "𝟘" => (Scalar.ofNat 0)
local notation "𝟙" => (Scalar.ofNat 1)

/-- **The one law beyond `MonoArith`**: the computed `Φ` is monotone.  True in ℝ and in every
"exact, then monotone rounding" arithmetic; for IEEE doubles it is a property of the libm in use
(`erfc` of the C library is not guaranteed monotone), which is why it is a hypothesis of the theorems
that need it and not a law of `MonoArith`. -/
def PhiMono (α : Type) [Scalar α] : Prop := ∀ a b : α, a ≤ b → Phi a ≤ Phi b

/-- team `t` with the mu of its `j`-th member replaced by `m` (nothing happens if there is no such member) -/
def fl5_setMu (t : List (Rating α)) (j : Nat) (m : α) : List (Rating α) :=
  t.modify j (fun p => { p with mu := m })

/-- `b'` is `b` with the same `s²` and a `θ` that is not smaller -/
def fl5_Raised (b b' : TeamAgg α) : Prop := b'.sig2 = b.sig2 ∧ b.mu ≤ b'.mu

/-! ### list facts -/

theorem fl5_forall₂_refl {β : Type} {R : β → β → Prop} (hR : ∀ x, R x x) :
    ∀ l : List β, List.Forall₂ R l l
  | [] => List.Forall₂.nil
  | a :: l => List.Forall₂.cons (hR a) (fl5_forall₂_refl hR l)

theorem fl5_forall₂_set {β : Type} {R : β → β → Prop} (hR : ∀ x, R x x) :
    ∀ (l : List β) (i : Nat) (x' : β), (∀ x, l[i]? = some x → R x x') →
      List.Forall₂ R l (l.set i x')
  | [], _, _, _ => by simp
  | a :: l, 0, x', h => by
    rw [List.set_cons_zero]
    exact List.Forall₂.cons (h a (by simp)) (fl5_forall₂_refl hR l)
  | a :: l, i + 1, x', h => by
    rw [List.set_cons_succ]
    exact List.Forall₂.cons (hR a) (fl5_forall₂_set hR l i x' (by simpa using h))

theorem fl5_others_aux_forall₂ {β : Type} {R : β → β → Prop} (k : Nat) (ts ts' : List β)
    (h : List.Forall₂ R ts ts') (s : Nat) :
    List.Forall₂ R (((ts.zipIdx s).filter (fun x => x.2 != k)).map (·.1))
      (((ts'.zipIdx s).filter (fun x => x.2 != k)).map (·.1)) := by
  induction h generalizing s with
  | nil => exact List.Forall₂.nil
  | cons hab _ ih =>
    simp only [List.zipIdx_cons, List.filter_cons]
    by_cases hs : (s != k) = true
    · simp only [hs, if_true, List.map_cons]
      exact List.Forall₂.cons hab (ih (s + 1))
    · simp only [hs]
      exact ih (s + 1)

/-- the opponents of team `k` in two lists related entry by entry are related entry by entry -/
theorem fl5_othersOf_forall₂ {β : Type} {R : β → β → Prop} (k : Nat) (ts ts' : List β)
    (h : List.Forall₂ R ts ts') : List.Forall₂ R (othersOf ts k) (othersOf ts' k) :=
  fl5_others_aux_forall₂ k ts ts' h 0

theorem fl5_others_aux_set_self {β : Type} : ∀ (ts : List β) (i s : Nat) (x' : β),
    ((((ts.set i x').zipIdx s).filter (fun x => x.2 != s + i)).map (·.1))
      = (((ts.zipIdx s).filter (fun x => x.2 != s + i)).map (·.1))
  | [], _, _, _ => by simp
  | a :: l, 0, s, x' => by
    simp [List.zipIdx_cons]
  | a :: l, i + 1, s, x' => by
    have h := fl5_others_aux_set_self l i (s + 1) x'
    have e : s + 1 + i = s + (i + 1) := by omega
    rw [e] at h
    have hs : (s != s + (i + 1)) = true := by simp
    simp only [List.set_cons_succ, List.zipIdx_cons, List.filter_cons, hs, if_true, List.map_cons, h]

/-- replacing team `i` does not change the opponents of team `i` -/
theorem fl5_othersOf_set_self {β : Type} (ts : List β) (i : Nat) (x' : β) :
    othersOf (ts.set i x') i = othersOf ts i := by
  have h := fl5_others_aux_set_self ts i 0 x'
  rw [Nat.zero_add] at h
  exact h

/-- `playerCount` does not change when a team is replaced by one of the same size -/
theorem fl5_playerCount_set {β : Type} (teams : List (List β)) (i : Nat) (hi : i < teams.length)
    (t' : List β) (hlen : t'.length = teams[i].length) :
    playerCount (teams.set i t') = playerCount teams := by
  unfold playerCount
  rw [List.map_set, hlen]
  congr 1
  apply List.ext_getElem (by simp)
  intro k h1 h2
  simp only [List.getElem_set, List.getElem_map]
  split
  · next h => subst h; rfl
  · rfl

theorem fl5_aggs_set (teams : List (List (Rating α))) (i : Nat) (t' : List (Rating α)) :
    aggs (teams.set i t') = (aggs teams).set i (teamAgg t' 0) := by
  simp only [aggs, List.map_set]

theorem fl5_getElem_aggs (teams : List (List (Rating α))) (i : Nat) (hi : i < teams.length)
    (h : i < (aggs teams).length) : (aggs teams)[i] = teamAgg teams[i] 0 := by
  simp only [aggs, List.getElem_map]

omit [Scalar α] in
@[simp] theorem fl5_length_setMu (t : List (Rating α)) (j : Nat) (m : α) :
    (fl5_setMu t j m).length = t.length := by
  simp [fl5_setMu]

/-- `sig2` reads only the sigmas -/
theorem fl5_setMu_sigmas : ∀ (t : List (Rating α)) (j : Nat) (m : α),
    (fl5_setMu t j m).map (fun p => p.sigma * p.sigma) = t.map (fun p => p.sigma * p.sigma)
  | [], _, _ => by simp [fl5_setMu]
  | a :: l, 0, m => by simp [fl5_setMu]
  | a :: l, j + 1, m => by
    have h := fl5_setMu_sigmas l j m
    simp only [fl5_setMu] at h ⊢
    simp only [List.modify_succ_cons, List.map_cons, h]

/-- the mus of the modified team dominate those of the original entry by entry -/
theorem fl5_setMu_mus (hrefl : ∀ a : α, a ≤ a) : ∀ (t : List (Rating α)) (j : Nat) (m : α),
    (∀ p, t[j]? = some p → p.mu ≤ m) →
    List.Forall₂ (· ≤ ·) (t.map (·.mu)) ((fl5_setMu t j m).map (·.mu))
  | [], _, _, _ => by simp [fl5_setMu]
  | a :: l, 0, m, h => by
    simp only [fl5_setMu, List.modify_zero_cons, List.map_cons]
    exact List.Forall₂.cons (h a (by simp)) (fl5_forall₂_refl hrefl _)
  | a :: l, j + 1, m, h => by
    have ih := fl5_setMu_mus hrefl l j m (by simpa using h)
    simp only [fl5_setMu] at ih ⊢
    simp only [List.modify_succ_cons, List.map_cons]
    exact List.Forall₂.cons (hrefl _) ih

/-! ### arithmetic -/

/-- the pair term of `predict_win` (`g = id`) and of `predict_rank` (`g = (· − margin)`) -/
def fl5_term (g : α → α) (n : Nat) (β : α) (a b : TeamAgg α) : α :=
  Phi (g (a.mu - b.mu) / pairDenom n β a b)

/-- the divisor `n (n − 1) / 2` as computed -/
def fl5_D (α : Type) [Scalar α] (n : Nat) : α := ofNat (n * (n - 1)) / ofNat 2

/-- a team's entry: the left-fold sum of its terms against its opponents, divided by `n (n − 1) / 2` -/
def fl5_entry (g : α → α) (n : Nat) (β : α) (ts : List (TeamAgg α)) (a : TeamAgg α) (k : Nat) : α :=
  sumL ((othersOf ts k).map (fl5_term g n β a)) / fl5_D α n

namespace MonoArith
variable (M : MonoArith α)
include M

theorem fl5_foldl_mono {l l' : List α} (h : List.Forall₂ (· ≤ ·) l l') :
    ∀ {acc acc' : α}, acc ≤ acc' → l.foldl (· + ·) acc ≤ l'.foldl (· + ·) acc' := by
  induction h with
  | nil => intro acc acc' h; exact h
  | cons hab _ ih =>
    intro acc acc' h
    simp only [List.foldl_cons]
    exact ih (M.add_le_add' h hab)

/-- **`sumL` is monotone entry by entry** (also in a non-associative arithmetic) -/
theorem fl5_sumL_mono {l l' : List α} (h : List.Forall₂ (· ≤ ·) l l') : sumL l ≤ sumL l' :=
  M.fl5_foldl_mono h (M.le_refl' _)

omit M in
theorem fl5_forall₂_map_flip {β : Type} {R : β → β → Prop} {f f' : β → α} {l l' : List β}
    (h : List.Forall₂ R l l') (hf : ∀ b ∈ l, ∀ b', R b b' → f' b' ≤ f b) :
    List.Forall₂ (· ≤ ·) (l'.map f') (l.map f) := by
  induction h with
  | nil => exact List.Forall₂.nil
  | cons hab _ ih =>
    simp only [List.map_cons]
    exact List.Forall₂.cons (hf _ (List.mem_cons_self) _ hab)
      (ih (fun b hb b' hr => hf b (List.mem_cons_of_mem _ hb) b' hr))

/-- the divisor `n (n − 1) / 2` is positive for `n ≥ 2` (it is the exact integer) -/
theorem fl5_D_pos {n : Nat} (hn : 2 ≤ n) : (𝟘 : α) < fl5_D α n := by
  obtain ⟨m, hm⟩ := fl2_even n
  have hle : n - 1 ≤ m := fl2_pred_le_half hn hm
  unfold fl5_D
  rw [fl2_denom_eq M hm]
  exact M.ofNat_lt' (by omega)

/-- **the pair term is monotone in the first team's θ and antitone in the second's** -/
theorem fl5_term_le (hΦ : PhiMono α) {g : α → α} (hg : ∀ x y, x ≤ y → g x ≤ g y) (n : Nat) (β : α)
    {a a' b b' : TeamAgg α} (ha : a'.mu ≤ a.mu) (has : a'.sig2 = a.sig2) (hb : fl5_Raised b b')
    (hd : 𝟘 < pairDenom n β a b) : fl5_term g n β a' b' ≤ fl5_term g n β a b := by
  have e : pairDenom n β a' b' = pairDenom n β a b := by
    unfold pairDenom; rw [has, hb.1]
  unfold fl5_term
  rw [e]
  exact hΦ _ _ (M.div_le_div_right' (hg _ _ (M.sub_le_sub' ha hb.2)) hd)

/-- sums of such terms -/
theorem fl5_sum_terms_le (hΦ : PhiMono α) {g : α → α} (hg : ∀ x y, x ≤ y → g x ≤ g y) (n : Nat)
    (β : α) {a a' : TeamAgg α} (ha : a'.mu ≤ a.mu) (has : a'.sig2 = a.sig2)
    {l l' : List (TeamAgg α)} (h : List.Forall₂ fl5_Raised l l')
    (hd : ∀ b ∈ l, 𝟘 < pairDenom n β a b) :
    sumL (l'.map (fl5_term g n β a')) ≤ sumL (l.map (fl5_term g n β a)) :=
  M.fl5_sumL_mono (fl5_forall₂_map_flip h
    (fun b hb _ hr => M.fl5_term_le hΦ hg n β ha has hr (hd b hb)))

theorem fl5_raised_refl (b : TeamAgg α) : fl5_Raised b b := ⟨rfl, M.le_refl' _⟩

omit M in
theorem fl5_mem_of_mem_othersOf {β : Type} {ts : List β} {k : Nat} {b : β} (h : b ∈ othersOf ts k) :
    b ∈ ts := by
  obtain ⟨j, _, hj⟩ := fl1_mem_othersOf h
  exact fl1_mem_of_getElem? hj

/-- **own entry**: raise `θ_i` (same `s²_i`): team `i`'s entry does not go down -/
theorem fl5_entry_own (hΦ : PhiMono α) {g : α → α} (hg : ∀ x y, x ≤ y → g x ≤ g y) {n : Nat}
    (hn : 2 ≤ n) (β : α) (ts : List (TeamAgg α)) (i : Nat) (hi : i < ts.length) (x' : TeamAgg α)
    (hx : fl5_Raised ts[i] x') (hd : ∀ b ∈ ts, 𝟘 < pairDenom n β ts[i] b) :
    fl5_entry g n β ts ts[i] i ≤ fl5_entry g n β (ts.set i x') x' i := by
  unfold fl5_entry
  rw [fl5_othersOf_set_self]
  refine M.div_le_div_right' ?_ (M.fl5_D_pos hn)
  refine M.fl5_sum_terms_le hΦ hg n β hx.2 hx.1.symm
    (fl5_forall₂_refl M.fl5_raised_refl _) ?_
  intro b hb
  have e : pairDenom n β x' b = pairDenom n β ts[i] b := by
    unfold pairDenom; rw [hx.1]
  rw [e]
  exact hd b (fl5_mem_of_mem_othersOf hb)

/-- **any entry** (in particular another team's, `a = ts[k]`, `k ≠ i`): raise `θ_i` (same `s²_i`): the entry
does not go up -/
theorem fl5_entry_other (hΦ : PhiMono α) {g : α → α} (hg : ∀ x y, x ≤ y → g x ≤ g y) {n : Nat}
    (hn : 2 ≤ n) (β : α) (ts : List (TeamAgg α)) (i : Nat) (hi : i < ts.length) (x' : TeamAgg α)
    (hx : fl5_Raised ts[i] x') (a : TeamAgg α) (k : Nat) (hd : ∀ b ∈ ts, 𝟘 < pairDenom n β a b) :
    fl5_entry g n β (ts.set i x') a k ≤ fl5_entry g n β ts a k := by
  unfold fl5_entry
  refine M.div_le_div_right' ?_ (M.fl5_D_pos hn)
  refine M.fl5_sum_terms_le hΦ hg n β (M.le_refl' _) rfl
    (fl5_othersOf_forall₂ k _ _ (fl5_forall₂_set M.fl5_raised_refl ts i x' ?_))
    (fun b hb => hd b (fl5_mem_of_mem_othersOf hb))
  intro x hxs
  rw [List.getElem?_eq_getElem hi] at hxs
  cases hxs
  exact hx

/-- the computed pair denominator is positive when the first team's computed variance is -/
theorem fl5_pairDenom_pos (n : Nat) (β : α) {a b : TeamAgg α} (ha : 𝟘 < a.sig2) (hb : 𝟘 ≤ b.sig2) :
    𝟘 < pairDenom n β a b := by
  unfold pairDenom
  refine M.sqrt_pos' (M.fl1_add_pos_of_pos_of_nonneg ?_ hb)
  exact M.fl1_lt_of_lt_of_le ha
    (M.le_add_left' (M.mul_nonneg' (M.fl1_zero_le_ofNat n) (M.mul_self_nonneg' β)))

/-- a team's entry is `≥ 0` as computed (so `abs` of it is the entry itself) -/
theorem fl5_entry_nonneg (g : α → α) {n : Nat} (hn : 2 ≤ n) (β : α) (ts : List (TeamAgg α))
    (a : TeamAgg α) (k : Nat) : 𝟘 ≤ fl5_entry g n β ts a k := by
  unfold fl5_entry
  refine M.div_nonneg' (M.fl1_sumL_nonneg ?_) (M.fl5_D_pos hn)
  intro x hx
  obtain ⟨b, _, rfl⟩ := List.mem_map.mp hx
  exact M.Phi_nonneg' _

theorem fl5_sabs_entry (g : α → α) {n : Nat} (hn : 2 ≤ n) (β : α) (ts : List (TeamAgg α))
    (a : TeamAgg α) (k : Nat) : sabs (fl5_entry g n β ts a k) = fl5_entry g n β ts a k :=
  fl2_sabs_of_nonneg M (M.fl5_entry_nonneg g hn β ts a k)

end MonoArith

end OS
