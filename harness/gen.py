"""
Generators (DESIGN §6.4).  Every random choice derives from the one `random.Random` passed in.
"""
import itertools, math, random
from core import make_game, KINDS, DEFAULTS

GAMMAS = [("D", 0.0), ("D", 0.0), ("D", 0.0), ("C", 0.5), ("C", 2.0), ("I", 0.0), ("R", 0.0), ("Q", 0.0), ("Z", 0.0), ("T", 0.0)]


def weak_orders(n):
    """every weak order of n items as a dense rank vector (restricted growth after sorting)"""
    out = []
    for levels in itertools.product(range(n), repeat=n):
        used = sorted(set(levels))
        if used == list(range(len(used))):
            out.append(list(levels))
    return out


def random_weak_order(rng, n):
    mode = rng.random()
    if mode < 0.35:
        r = list(range(n))
        rng.shuffle(r)
        return r
    k = rng.randint(1, n)
    r = [rng.randrange(k) for _ in range(n)]
    used = sorted(set(r))
    return [used.index(x) for x in r]


def encode_ranks(rng, dense, how=None):
    """encode a dense rank vector as a list of Python numbers inducing the same weak order"""
    n = len(dense)
    how = how or rng.choice(["int", "float", "mixed", "neg", "big", "gap", "bool", "frac", "huge", "near", "unit"])
    levels = sorted(set(dense))
    if how == "bool" and len(levels) > 2:
        how = "int"
    if how == "unit":
        # values inside [0, n-1] with the end points exactly 0 and n-1 and fractional values in between, several sharing an integer
        # part (finishing times normalised to the field): NOT a permutation of 0..n-1 although min, max and distinctness look like one
        top = n - 1
        inner = sorted(rng.uniform(0.05, max(0.1, top - 0.05)) for _ in range(max(0, len(levels) - 2)))
        if len(inner) >= 2 and rng.random() < 0.7:
            inner[1] = math.floor(inner[0]) + (inner[0] - math.floor(inner[0])) * 0.5 + 0.25 if math.floor(inner[0]) + 0.75 > inner[0] else inner[1]
            inner = sorted(set(inner))
            while len(inner) < len(levels) - 2:
                inner.append(inner[-1] + 1e-3)
        seq = ([0] + inner + [top]) if len(levels) >= 2 else [0]
        seq = sorted(seq[: len(levels)]) if len(seq) >= len(levels) else list(range(len(levels)))
        vals = {l: (seq[k] if (k not in (0, len(levels) - 1) or rng.random() < 0.5) else float(seq[k])) for k, l in enumerate(levels)}
    elif how == "near":
        # distinct floats a few ulps apart (0.1 + 0.2 against 0.3): different values, different places
        x = rng.choice([0.3, 0.1 + 0.2 - 2e-16, 1.0, 1234.5, -2.5e-3, 1e9])
        vals = {}
        for l in levels:
            vals[l] = x
            for _ in range(rng.randint(1, 3)):
                x = math.nextafter(x, math.inf)
    elif how == "int":
        vals = {l: l for l in levels}
    elif how == "float":
        vals = {l: float(l) for l in levels}
    elif how == "mixed":
        vals = {l: (float(l) if rng.random() < 0.5 else l) for l in levels}
    elif how == "neg":
        off = len(levels) + rng.randint(0, 3)
        vals = {l: l - off for l in levels}
    elif how == "big":
        base = rng.choice([2 ** 53, 2 ** 60, 10 ** 18])
        vals = {l: (base + l if rng.random() < 0.7 else float(base) + 4096.0 * l) for l in levels}
        # keep strictly increasing under exact comparison
        prev = None
        for l in levels:
            if prev is not None and not (prev < vals[l]):
                vals[l] = base + l if isinstance(prev, int) and prev < base + l else prev + 8192
            prev = vals[l]
    elif how == "huge":
        # ints beyond the float range, next to floats and bools: still exactly ordered by Python
        vals, pool = {}, [False, True, 2.5, 1e300, 10 ** 400, 10 ** 400 + 1, 2 ** 1024, 2 ** 2000]
        pool = sorted(pool, key=lambda v: v)[: ]
        pick = sorted(rng.sample(range(len(pool)), min(len(levels), len(pool))))
        if len(levels) > len(pool):
            pick = list(range(len(pool)))
        for k, l in enumerate(levels):
            vals[l] = pool[pick[k]] if k < len(pick) else 2 ** 2000 + (k - len(pick) + 1)
    elif how == "gap":
        acc, vals = rng.randint(-5, 5), {}
        for l in levels:
            vals[l] = acc
            acc += rng.randint(1, 7)
    elif how == "bool":
        vals = {levels[0]: False}
        if len(levels) > 1:
            vals[levels[1]] = True
    elif how == "frac":
        acc, vals = rng.uniform(-3, 3), {}
        for l in levels:
            vals[l] = acc
            acc += rng.choice([0.25, 0.5, 1.5, 1e-3, 3.0])
    out = []
    for d in dense:
        v = vals[d]
        # the same level may appear as int in one slot and float in another (1 == 1.0)
        if how == "mixed" and isinstance(v, int) and not isinstance(v, bool) and rng.random() < 0.3:
            v = float(v)
        out.append(v)
    return out


def gen_teams(rng, stratum, beta, n=None, maxsize=8):
    n = n or rng.randint(2, 8)
    s = beta / DEFAULTS["beta"]
    teams = []
    if stratum == "typical":
        for _ in range(n):
            teams.append([(rng.gauss(25, 8) * s, rng.uniform(0.5, 9) * s) for _ in range(rng.randint(1, min(4, maxsize)))])
    elif stratum == "wide":
        for _ in range(n):
            teams.append([(rng.uniform(-20, 20) * beta, beta * 10 ** rng.uniform(-4, 1))
                          for _ in range(rng.randint(1, maxsize))])
    elif stratum == "corners":
        for _ in range(n):
            teams.append([(rng.choice([-20, 20, 0, 6, -6]) * beta, rng.choice([1e-4, 10, 1, 2]) * beta)
                          for _ in range(rng.randint(1, maxsize))])
    elif stratum == "mismatch":
        # teams placed z*c apart, z in [4, 9]
        base = rng.uniform(-5, 5) * beta
        sig = rng.uniform(0.2, 2.5) * beta
        for i in range(n):
            sz = rng.randint(1, 2)
            c = math.sqrt(2 * sz * sig * sig + 2 * beta * beta)
            z = rng.uniform(4, 9) * rng.choice([1, 1, -1])
            teams.append([((base + z * c * (i % 3)) / sz, sig) for _ in range(sz)])
    elif stratum == "lopsided":
        # one team far stronger than the rest, inside the supported range: exp(theta/c) spans many decades
        sz = rng.randint(2, 8)
        for i in range(n):
            top = (i == 0)
            teams.append([((rng.uniform(14, 20) if top else rng.uniform(-20, -8)) * beta, rng.uniform(0.05, 1.0) * beta) for _ in range(sz)])
        rng.shuffle(teams)
    elif stratum == "integers":
        # whole-number ratings (mu 30, sigma 2): the harness hands every other one over as a Python int
        for _ in range(n):
            teams.append([(float(rng.randint(5, 45)) * (beta / DEFAULTS["beta"] if (beta / DEFAULTS["beta"]).is_integer() else 1.0), float(rng.randint(1, 9)))
                          for _ in range(rng.randint(1, min(3, maxsize)))])
    elif stratum == "newcomers":
        # new players hold the default rating: equal (mu, sigma) within a team and across teams, next to a few established ones
        dflt = (25.0 * s, 25.0 / 3.0 * s)
        alt = (rng.gauss(25, 6) * s, rng.uniform(1, 9) * s)
        for _ in range(n):
            teams.append([dflt if rng.random() < 0.7 else (alt if rng.random() < 0.6 else (rng.gauss(25, 6) * s, rng.uniform(1, 9) * s))
                          for _ in range(rng.randint(1, min(4, maxsize)))])
    elif stratum == "bigsum":
        # few large teams of settled players whose summed mu is a large multiple of c (exp(theta/c) up to e^113, far from overflow)
        n = min(n, rng.randint(2, 3))
        sz = rng.randint(6, 8)
        for i in range(n):
            lo, hi = (15, 20) if i == 0 or rng.random() < 0.4 else rng.choice([(5, 14), (10, 19), (-20, -12)])
            teams.append([(rng.uniform(lo, hi) * beta, beta * 10 ** rng.uniform(-4, -1.3)) for _ in range(sz)])
        rng.shuffle(teams)
    elif stratum == "lowedge":
        # large equal-size teams of settled players at the low edge of the range: exp(theta/c) is tiny
        sz = rng.randint(4, 8)
        for _ in range(n):
            teams.append([(rng.uniform(-20, -16) * beta, rng.uniform(0.05, 0.5) * beta) for _ in range(sz)])
    elif stratum == "floor":
        # multi-player teams with unequal sigmas; used with a large gamma so that the kappa floor is reached
        for _ in range(n):
            teams.append([(rng.gauss(25, 8) * s, rng.choice([0.3, 2, 9, 9]) * rng.uniform(0.8, 1.2) * s) for _ in range(rng.randint(2, 3))])
    elif stratum == "equal-ordinal":
        # team-mates (and teams) with exactly equal ordinals mu - 3 sigma but different (mu, sigma), exactly representable: the rating
        # objects then compare neither < nor > although they are different players
        for _ in range(n):
            o = float(rng.choice([10, 10, 4, 0, -3]))
            sz = rng.randint(2, min(4, max(2, maxsize)))
            sg = rng.sample([1.0, 2.0, 3.0, 4.0, 5.0, 6.0, 0.5, 2.5], sz)
            teams.append([(o + 3.0 * x, x) for x in sg])
    elif stratum == "same-sigma":
        # team-mates (hand-seeded players) who share one sigma exactly but differ in mu; and some who share a mu but differ in sigma
        for _ in range(n):
            sg = rng.choice([5.0, 25.0 / 3.0, rng.uniform(0.5, 9)]) * s
            m0 = rng.gauss(25, 8) * s
            sz = rng.randint(2, min(4, max(2, maxsize)))
            teams.append([(rng.gauss(25, 8) * s, sg) if rng.random() < 0.75 else (m0, rng.uniform(0.5, 9) * s) for _ in range(sz)])
    elif stratum == "zero-mu":
        # players whose mu is exactly 0.0 (a falsy number) — a perfectly ordinary rating on a scale centred at 0 — next to others
        for _ in range(n):
            teams.append([(0.0 if rng.random() < 0.5 else rng.gauss(0, 6) * s, rng.uniform(0.5, 9) * s) for _ in range(rng.randint(1, min(4, maxsize)))])
    elif stratum == "ragged-newcomers":
        # every player holds the same rating; the teams differ in size only
        v = rng.choice([(25.0 * s, 25.0 / 3.0 * s), (rng.gauss(25, 6) * s, rng.uniform(1, 9) * s)])
        sizes = [rng.randint(1, min(4, maxsize)) for _ in range(n)]
        if len(set(sizes)) == 1:
            sizes[0] = sizes[0] % min(4, maxsize) + 1
        teams = [[v] * k for k in sizes]
    elif stratum == "identical":
        sz = rng.randint(1, 3)
        t = [(rng.gauss(25, 8) * s, rng.uniform(0.5, 9) * s) for _ in range(sz)]
        teams = [list(t) for _ in range(n)]
    elif stratum == "equalsize":
        sz = rng.randint(1, 4)
        for _ in range(n):
            teams.append([(rng.gauss(25, 8) * s, rng.uniform(0.5, 9) * s) for _ in range(sz)])
    else:
        raise ValueError(stratum)
    return teams


STRATA = ["typical", "typical", "wide", "corners", "mismatch", "identical", "equalsize", "floor", "lowedge", "lopsided", "bigsum", "newcomers", "integers",
          "equal-ordinal", "ragged-newcomers", "inflated-twin", "same-sigma", "zero-mu", "sure-thing"]


COINCIDENCE_STRATA = ["equal-ordinal", "ragged-newcomers", "inflated-twin", "same-sigma", "zero-mu", "newcomers", "integers", "sure-thing"]


def gen_config(rng, default_bias=0.4):
    if rng.random() < default_bias:
        beta, kappa, tau = DEFAULTS["beta"], DEFAULTS["kappa"], DEFAULTS["tau"]
    else:
        beta = DEFAULTS["beta"] * 10 ** rng.uniform(-3, 3)
        kappa = rng.choice([1e-4, 1e-6, 1e-2, 10 ** rng.uniform(-8, -2)])
        tau = rng.choice([0.0, 1e-9 * beta, beta / 50, beta * 2, beta / 50, 1e-6 * beta, 3e-8 * beta])
    return beta, kappa, tau


_CYCLE = [0]


def gen_game(rng, kind=None, stratum=None, ties=None, n=None, maxsize=8, encode=True, options=True):
    # the model kind, the way the outcome is given and which per-call options are present are CYCLED with pairwise coprime odd periods
    # (5, 7, 9: every combination comes round whatever the stride of the caller), not drawn: a combination such as "partial-pairing
    # Thurstone-Mosteller x outcome omitted x per-call tau" must not be left to chance in a run of 300 games
    cyc = _CYCLE[0]
    _CYCLE[0] += 1
    rng.random()                      # (keeps the stream aligned with earlier corpus seeds as far as possible)
    kind = kind or KINDS[cyc % 5]
    if stratum in ("typical", "wide", "corners") and cyc % 6 == 5 and n is None:
        # checks that ask for a generic stratum get one of the coincidence strata every sixth time (value coincidences are nobody's
        # special case: every property quantifies over them)
        stratum = COINCIDENCE_STRATA[(cyc // 6) % len(COINCIDENCE_STRATA)]
    stratum = stratum or rng.choice(STRATA)
    beta, kappa, tau = gen_config(rng)
    if stratum == "floor" and n is None:
        n = rng.randint(4, 8)
    if stratum == "equal-ordinal":
        beta = DEFAULTS["beta"]
        if rng.random() < 0.6:
            tau = 0.0
    if stratum == "sure-thing":
        # a small unit, a settled solo favourite (sigma 1e-4 beta) meeting a team about 20 beta weaker, tau (almost) 0: the expected result
        # moves everybody by amounts far below any absolute threshold one might be tempted to write — and they still have to balance
        beta = DEFAULTS["beta"] * rng.choice([1e-3, 1e-3, 1e-2, 1.0])
        tau = rng.choice([0.0, 0.0, 1e-9 * beta])
        teams = [[(rng.uniform(-2, 2) * beta, 1e-4 * beta * rng.uniform(1.0, 3.0))],
                 [(rng.uniform(-20, -14) * beta / k_, rng.uniform(0.5, 3.0) * beta) for k_ in [rng.randint(1, 3)] for _ in range(k_)]]
        want = n if n is not None else (3 if rng.random() < 0.4 else 2)
        while len(teams) < want:
            teams.append([(rng.uniform(-20, -10) * beta, rng.uniform(0.5, 3.0) * beta)])
        if rng.random() < 0.5:
            teams.reverse()
    elif stratum == "inflated-twin":
        # a player next to one with the same mu whose sigma is exactly the first one's sigma inflated once by this model's tau
        # (somebody who sat out a game): two different players, whatever == on (mu, sigma) says at any moment during the call
        if tau == 0.0:
            tau = beta / 50
        teams = gen_teams(rng, "typical", beta, n=n, maxsize=min(maxsize, 3))
        for t_ in teams:
            m0, s0 = t_[0]
            tw = (m0, math.sqrt(s0 * s0 + tau * tau))
            if rng.random() < 0.5:
                t_.append(tw)
            else:
                teams[rng.randrange(len(teams))].append(tw)
    else:
        teams = gen_teams(rng, stratum, beta, n=n, maxsize=maxsize)
    if n is not None and len(teams) != n and stratum != "bigsum":
        teams = gen_teams(rng, "typical", beta, n=n, maxsize=maxsize)       # a caller that fixes the number of teams gets that number
    n = len(teams)
    r = rng.random()
    form = "RRSRSNR"[cyc % 7]
    r = {"N": 0.05, "S": 0.3, "R": 0.7}[form]
    if r < 0.12:
        oc = ("N", None)
    else:
        dense = random_weak_order(rng, n)
        if ties is False:
            dense = list(range(n)); rng.shuffle(dense)
        vals = encode_ranks(rng, dense) if encode else dense
        if r < 0.4:
            oc = ("S", [-v if not isinstance(v, bool) else v for v in vals] if False else vals)
        else:
            oc = ("R", vals)
    gamma = rng.choice(GAMMAS)
    if stratum == "floor":
        gamma = ("C", rng.choice([3.0, 10.0, 40.0]))
    tauopt = lsopt = None
    ls = False
    if options:
        u1, u2, u3 = rng.random(), rng.random(), rng.random()
        osel = ("", "t", "", "l", "", "tl", "t", "", "l")[cyc % 9]
        if "t" in osel:
            tauopt = rng.choice([0.0, tau, beta / 10, 1e-9 * beta, 0, 1, 3])     # ints too: rate(..., tau=0)
        ls = u2 < 0.25
        if "l" in osel:
            lsopt = rng.random() < 0.5
    if stratum in ("inflated-twin", "sure-thing"):
        tauopt = None
    return make_game(kind, teams, oc=oc, beta=beta, kappa=kappa, tau=tau, ls=ls, gamma=gamma,
                     tauopt=tauopt, lsopt=lsopt)
