import OSProofs.Props.C04
import OSProofs.Props.C04b
import OSProofs.Props.Gamma
#print axioms OS.sumL_perm
#print axioms OS.C04_teamAgg_perm
#print axioms OS.C04_applyTeam_perm
#print axioms OS.C04_sumPairs_perm
#print axioms OS.C04_plC_perm
#print axioms OS.C04b_omegaDelta_teamPerm
#print axioms OS.C04b_omegaDelta_teamPerm_getElem
#print axioms OS.C04b_teamAggs_playerPerm
#print axioms OS.C04b_omegaDelta_congr
#print axioms OS.C04b_omegaDelta_playerPerm
#print axioms OS.C04b_compute_playerPerm_fn
#print axioms OS.C04b_compute_playerPerm
#print axioms OS.C04b_compute_playerPerm_id
#print axioms OS.C04b_rate_playerPerm_fn
#print axioms OS.C04b_rate_playerPerm
#print axioms OS.C04b_rate_playerPerm_id
#print axioms OS.C04b_unwind_stable
#print axioms OS.C04b_sortedKeys_stable
#print axioms OS.C04b_unwind_tiefree
#print axioms OS.C04b_rate_teamPerm_stable
#print axioms OS.C04b_rate_ranks_teamPerm_stable
#print axioms OS.C04b_rate_teamPerm_tiefree
#print axioms OS.C04b_rate_full_sortfree
#print axioms OS.C04b_rate_teamPerm_full
#print axioms OS.C04_playerPerm_any_gamma
#print axioms OS.C04b_omegaDelta_congr_tagged
#print axioms OS.C04b_rate_playerPerm_tagged
#print axioms OS.C04b_rate_playerPerm_fn_tagged
#print axioms OS.Gamma_tagged_players
#print axioms OS.Gamma_fn_permInv
#print axioms OS.gam_teamSigma_permInv
