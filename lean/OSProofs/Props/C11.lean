import OSProofs.DrawLemmas

/-!
# C11 — `predict_rank`: the integer ranks agree with the probabilities (rank part)

`predict_rank` computes one probability per team (`predictRankProbs`), then
`rankData probs` (competition ranking: 1 + number of strictly smaller entries), and returns for
team `a` the rank `max(rankData) − rankData[a] + 1` paired with its probability.
`finalRanks probs` is that list of integer ranks.  For ANY list of reals `probs`:
the ranks are integers in `1..n`; a strictly larger probability gets a strictly smaller
(better) rank; equal probabilities get equal ranks; a largest probability gets rank 1.
The same statements are then read off for the model function `predictRank`.
-/

noncomputable section
namespace OS

/-! ### any list of reals -/

/-- one rank per entry -/
theorem C11_ranks_length (probs : List ℝ) : (finalRanks probs).length = probs.length :=
  finalRanks_length probs

/-- `rankData` values lie in `1..n` -/
theorem C11_rankData_range (probs : List ℝ) (a : ℕ) (ha : a < probs.length) :
    1 ≤ (rankData probs)[a]'(by rw [rankData_length]; exact ha)
      ∧ (rankData probs)[a]'(by rw [rankData_length]; exact ha) ≤ probs.length := by
  rw [rankData_getElem probs a ha]
  have := cntLt_lt_length probs (List.getElem_mem ha)
  omega

/-- `rankData` is strictly monotone in the value … -/
theorem C11_rankData_strict (probs : List ℝ) (a b : ℕ) (ha : a < probs.length)
    (hb : b < probs.length) (h : probs[b] < probs[a]) :
    (rankData probs)[b]'(by rw [rankData_length]; exact hb)
      < (rankData probs)[a]'(by rw [rankData_length]; exact ha) := by
  rw [rankData_getElem probs a ha, rankData_getElem probs b hb]
  have := cntLt_strict probs (List.getElem_mem hb) h
  omega

/-- every returned rank is an integer in `1..n` -/
theorem C11_rank_range (probs : List ℝ) (a : ℕ) (ha : a < probs.length) :
    1 ≤ (finalRanks probs)[a]'(by rw [finalRanks_length]; exact ha)
      ∧ (finalRanks probs)[a]'(by rw [finalRanks_length]; exact ha) ≤ probs.length := by
  rw [finalRanks_getElem probs a ha]
  have h1 := listMaxNat_rankData_le probs
  omega

/-- a strictly larger probability gets a strictly smaller (better) rank -/
theorem C11_rank_strict (probs : List ℝ) (a b : ℕ) (ha : a < probs.length)
    (hb : b < probs.length) (h : probs[b] < probs[a]) :
    (finalRanks probs)[a]'(by rw [finalRanks_length]; exact ha)
      < (finalRanks probs)[b]'(by rw [finalRanks_length]; exact hb) := by
  rw [finalRanks_getElem probs a ha, finalRanks_getElem probs b hb]
  have h1 := cntLt_strict probs (List.getElem_mem hb) h
  have h2 := rankData_le_max probs a ha
  have h3 := rankData_le_max probs b hb
  omega

/-- equal probabilities get equal ranks -/
theorem C11_rank_tie (probs : List ℝ) (a b : ℕ) (ha : a < probs.length)
    (hb : b < probs.length) (h : probs[a] = probs[b]) :
    (finalRanks probs)[a]'(by rw [finalRanks_length]; exact ha)
      = (finalRanks probs)[b]'(by rw [finalRanks_length]; exact hb) := by
  rw [finalRanks_getElem probs a ha, finalRanks_getElem probs b hb, h]

/-- the ranks order the teams exactly as the probabilities do (converse of the two above) -/
theorem C11_rank_lt_iff (probs : List ℝ) (a b : ℕ) (ha : a < probs.length)
    (hb : b < probs.length) :
    (finalRanks probs)[a]'(by rw [finalRanks_length]; exact ha)
      < (finalRanks probs)[b]'(by rw [finalRanks_length]; exact hb) ↔ probs[b] < probs[a] := by
  constructor
  · intro hlt
    rcases lt_trichotomy probs[b] probs[a] with h | h | h
    · exact h
    · have := C11_rank_tie probs a b ha hb h.symm
      omega
    · have := C11_rank_strict probs b a hb ha h
      omega
  · exact C11_rank_strict probs a b ha hb

theorem C11_rank_eq_iff (probs : List ℝ) (a b : ℕ) (ha : a < probs.length)
    (hb : b < probs.length) :
    (finalRanks probs)[a]'(by rw [finalRanks_length]; exact ha)
      = (finalRanks probs)[b]'(by rw [finalRanks_length]; exact hb) ↔ probs[a] = probs[b] := by
  constructor
  · intro heq
    rcases lt_trichotomy probs[b] probs[a] with h | h | h
    · have := C11_rank_strict probs a b ha hb h
      omega
    · exact h.symm
    · have := C11_rank_strict probs b a hb ha h
      omega
  · exact C11_rank_tie probs a b ha hb

/-- a largest probability gets rank 1 -/
theorem C11_rank_max_one (probs : List ℝ) (a : ℕ) (ha : a < probs.length)
    (hmax : ∀ y ∈ probs, y ≤ probs[a]) :
    (finalRanks probs)[a]'(by rw [finalRanks_length]; exact ha) = 1 := by
  rw [finalRanks_getElem probs a ha, rankData_of_maximal probs a ha hmax]
  omega

/-- rank 1 is always awarded when there is at least one team -/
theorem C11_rank_one_exists (probs : List ℝ) (hn : 1 ≤ probs.length) :
    1 ∈ finalRanks probs := by
  have hne : rankData probs ≠ [] := by
    intro h
    have := congrArg List.length h
    rw [rankData_length, List.length_nil] at this
    omega
  have hmem := listMaxNat_mem hne
  unfold finalRanks
  refine List.mem_map.mpr ⟨_, hmem, ?_⟩
  omega

/-! ### the model function -/

/-- `predictRank` pairs the integer ranks with the probabilities. -/
theorem predictRank_eq_zip (β : ℝ) (teams : List (List (Rating ℝ))) :
    predictRank β teams
      = (finalRanks (predictRankProbs β teams)).zip (predictRankProbs β teams) := rfl

/-- the second components are the probabilities, in order -/
theorem C11_predictRank_probs (β : ℝ) (teams : List (List (Rating ℝ))) :
    (predictRank β teams).map (·.2) = predictRankProbs β teams := by
  rw [predictRank_eq_zip]
  exact List.map_snd_zip (by rw [finalRanks_length])

/-- the first components are the ranks `max(rankData) − rankData + 1` of those probabilities -/
theorem C11_predictRank_ranks (β : ℝ) (teams : List (List (Rating ℝ))) :
    (predictRank β teams).map (·.1) = finalRanks (predictRankProbs β teams) := by
  rw [predictRank_eq_zip]
  exact List.map_fst_zip (by rw [finalRanks_length])

theorem C11_predictRank_length (β : ℝ) (teams : List (List (Rating ℝ))) :
    (predictRank β teams).length = (predictRankProbs β teams).length := by
  rw [predictRank_eq_zip, List.length_zip, finalRanks_length, Nat.min_self]

theorem predictRank_getElem (β : ℝ) (teams : List (List (Rating ℝ))) (a : ℕ)
    (ha : a < (predictRank β teams).length) :
    (predictRank β teams)[a]
      = ((finalRanks (predictRankProbs β teams))[a]'(by
            rw [finalRanks_length, ← C11_predictRank_length]; exact ha),
         (predictRankProbs β teams)[a]'(by rw [← C11_predictRank_length]; exact ha)) := by
  simp only [predictRank_eq_zip, List.getElem_zip]

/-- every rank returned by `predictRank` is in `1..(number of results)` -/
theorem C11_predictRank_range (β : ℝ) (teams : List (List (Rating ℝ))) (a : ℕ)
    (ha : a < (predictRank β teams).length) :
    1 ≤ (predictRank β teams)[a].1
      ∧ (predictRank β teams)[a].1 ≤ (predictRank β teams).length := by
  have ha' : a < (predictRankProbs β teams).length := by
    rw [← C11_predictRank_length]; exact ha
  have h := C11_rank_range _ a ha'
  rw [predictRank_getElem β teams a ha]
  exact ⟨h.1, h.2.trans (le_of_eq (C11_predictRank_length β teams).symm)⟩

/-- `predictRank`: a strictly larger probability gets a strictly smaller rank, and conversely -/
theorem C11_predictRank_lt_iff (β : ℝ) (teams : List (List (Rating ℝ))) (a b : ℕ)
    (ha : a < (predictRank β teams).length) (hb : b < (predictRank β teams).length) :
    (predictRank β teams)[a].1 < (predictRank β teams)[b].1
      ↔ (predictRank β teams)[b].2 < (predictRank β teams)[a].2 := by
  rw [predictRank_getElem β teams a ha, predictRank_getElem β teams b hb]
  exact C11_rank_lt_iff _ a b _ _

/-- `predictRank`: a strictly larger probability gets a strictly smaller (better) rank -/
theorem C11_predictRank_strict (β : ℝ) (teams : List (List (Rating ℝ))) (a b : ℕ)
    (ha : a < (predictRank β teams).length) (hb : b < (predictRank β teams).length)
    (h : (predictRank β teams)[b].2 < (predictRank β teams)[a].2) :
    (predictRank β teams)[a].1 < (predictRank β teams)[b].1 :=
  (C11_predictRank_lt_iff β teams a b ha hb).mpr h

/-- `predictRank`: equal probabilities get equal ranks, and conversely -/
theorem C11_predictRank_eq_iff (β : ℝ) (teams : List (List (Rating ℝ))) (a b : ℕ)
    (ha : a < (predictRank β teams).length) (hb : b < (predictRank β teams).length) :
    (predictRank β teams)[a].1 = (predictRank β teams)[b].1
      ↔ (predictRank β teams)[a].2 = (predictRank β teams)[b].2 := by
  rw [predictRank_getElem β teams a ha, predictRank_getElem β teams b hb]
  exact C11_rank_eq_iff _ a b _ _

/-- `predictRank`: equal probabilities get equal ranks -/
theorem C11_predictRank_tie (β : ℝ) (teams : List (List (Rating ℝ))) (a b : ℕ)
    (ha : a < (predictRank β teams).length) (hb : b < (predictRank β teams).length)
    (h : (predictRank β teams)[a].2 = (predictRank β teams)[b].2) :
    (predictRank β teams)[a].1 = (predictRank β teams)[b].1 :=
  (C11_predictRank_eq_iff β teams a b ha hb).mpr h

/-- `predictRank`: a team whose probability is largest gets rank 1 -/
theorem C11_predictRank_max_one (β : ℝ) (teams : List (List (Rating ℝ))) (a : ℕ)
    (ha : a < (predictRank β teams).length)
    (hmax : ∀ q ∈ predictRank β teams, q.2 ≤ (predictRank β teams)[a].2) :
    (predictRank β teams)[a].1 = 1 := by
  have ha' : a < (predictRankProbs β teams).length := by
    rw [← C11_predictRank_length]; exact ha
  have hmax' : ∀ y ∈ predictRankProbs β teams, y ≤ (predictRankProbs β teams)[a] := by
    intro y hy
    rw [← C11_predictRank_probs] at hy
    obtain ⟨q, hq, rfl⟩ := List.mem_map.mp hy
    have := hmax q hq
    rwa [predictRank_getElem β teams a ha] at this
  rw [predictRank_getElem β teams a ha]
  exact C11_rank_max_one _ a ha' hmax'

/-- a concrete instance: values 2, 5, 2, 1 have `rankData` 2, 4, 2, 1 (ties share the smallest
ascending rank) and final ranks 3, 1, 3, 4 — so in the returned (descending) ranking tied teams
share the LARGEST rank of their group ("1334", not "1224"); this is what the Python code does
(`_rank_data` then `max − r + 1`), and it satisfies all the statements above. -/
example : finalRanks ([2, 5, 2, 1] : List ℝ) = [3, 1, 3, 4] := by
  have e : rankData ([2, 5, 2, 1] : List ℝ) = [2, 4, 2, 1] := by
    simp only [rankData, List.map_cons, List.map_nil, List.filter_cons, List.filter_nil]
    norm_num
  simp [finalRanks, e, listMaxNat]

end OS
end
