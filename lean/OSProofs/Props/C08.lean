import OSProofs.RealInst
import Mathlib.Tactic.Positivity
import Mathlib.Tactic.Linarith
/-!
# C08 — totality: the guards behind "no arithmetic exception escapes" (partial)

Python raises on a zero float denominator, a negative `math.sqrt` argument, an overflowing
`math.exp` and an `inv_cdf` argument outside (0,1).  Over ℝ the corresponding guards are proved
for every game in the stated domain.  Overflow/underflow of IEEE doubles inside sums and products
cannot be exhibited by a model over the reals: that part is sampled at the domain corners by the
correspondence, not proved.
-/
noncomputable section
namespace OS

/-- every square-root argument of the update is non-negative (kappa floor) -/
theorem C08_sqrt_arg_nonneg (x κ : ℝ) (hκ : 0 < κ) : 0 < smax x κ := by
  rw [smax_eq_max]; exact lt_max_of_lt_right hκ

/-- the Bradley–Terry / Thurstone–Mosteller pair denominator `c_iq ≥ √2·β > 0` -/
theorem C08_ciq_pos (β si sq : ℝ) (hβ : 0 < β) (hi : 0 ≤ si) (hq : 0 ≤ sq) :
    0 < Real.sqrt (si + sq + 2 * (β * β)) ∧ Real.sqrt 2 * β ≤ Real.sqrt (si + sq + 2 * (β * β)) := by
  have h2 : 0 < 2 * (β * β) := by positivity
  refine ⟨Real.sqrt_pos.mpr (by linarith), ?_⟩
  have : Real.sqrt 2 * β = Real.sqrt (2 * (β * β)) := by
    rw [Real.sqrt_mul (by norm_num), Real.sqrt_mul_self hβ.le]
  rw [this]
  exact Real.sqrt_le_sqrt (by linarith)

/-- the Plackett–Luce normaliser `c > 0` for a non-empty game -/
theorem C08_plC_pos (β : ℝ) (hβ : 0 < β) (ts : List (TeamAgg ℝ)) (hne : ts ≠ [])
    (hs : ∀ t ∈ ts, 0 ≤ t.sig2) : 0 < plC β ts := by
  unfold plC
  rw [sc_sqrt, sumL_eq_sum]
  apply Real.sqrt_pos.mpr
  cases ts with
  | nil => exact absurd rfl hne
  | cons t rest =>
    simp only [List.map_cons, List.sum_cons]
    have h1 : 0 < t.sig2 + β * β := by
      have := hs t (by simp); positivity
    have h2 : 0 ≤ (rest.map (fun t => t.sig2 + β * β)).sum := by
      apply List.sum_nonneg
      intro x hx
      obtain ⟨t', ht', rfl⟩ := List.mem_map.mp hx
      have := hs t' (by simp [ht']); positivity
    linarith

/-- the team variance is strictly positive as soon as one inflated sigma is (sigma > 0 or tau > 0) -/
theorem C08_team_var_pos (team : List (Rating ℝ)) (rk : Nat) (h : ∃ p ∈ team, p.sigma ≠ 0) :
    0 < (teamAgg team rk).sig2 := by
  simp only [teamAgg, sumL_eq_sum]
  obtain ⟨p, hp, hne⟩ := h
  have hnn : ∀ x ∈ team.map (fun p => p.sigma * p.sigma), 0 ≤ x := by
    intro x hx; obtain ⟨q, _, rfl⟩ := List.mem_map.mp hx; exact mul_self_nonneg _
  have hle := List.single_le_sum hnn (p.sigma * p.sigma) (List.mem_map.mpr ⟨p, hp, rfl⟩)
  have : 0 < p.sigma * p.sigma := mul_self_pos.mpr hne
  linarith

/-- the inflated sigma is positive when sigma > 0 or tau ≠ 0 -/
theorem C08_inflate_pos (σ τ : ℝ) (h : σ ≠ 0 ∨ τ ≠ 0) : 0 < Real.sqrt (σ * σ + τ * τ) := by
  apply Real.sqrt_pos.mpr
  rcases h with h | h
  · have := mul_self_pos.mpr h; have := mul_self_nonneg τ; linarith
  · have := mul_self_pos.mpr h; have := mul_self_nonneg σ; linarith

/-- the inverse-CDF argument `(1 + 1/N)/2` lies in (1/2, 1) … for N ≥ 2 players, and in (0, 1] only
when N = 1 — which cannot occur (a game has ≥ 2 teams of ≥ 1 player) -/
theorem C08_invcdf_arg (N : ℕ) (hN : 2 ≤ N) :
    (1:ℝ) / 2 < (1 + 1 / (N:ℝ)) / 2 ∧ (1 + 1 / (N:ℝ)) / 2 < 1 := by
  have h2 : (2:ℝ) ≤ N := by exact_mod_cast hN
  have hpos : (0:ℝ) < N := by linarith
  constructor
  · have : 0 < 1 / (N:ℝ) := by positivity
    linarith
  · have : 1 / (N:ℝ) ≤ 1 / 2 := one_div_le_one_div_of_le (by norm_num) h2
    linarith

/-- Bradley–Terry: the `exp` argument is bounded on the stated domain: |θ_q − θ_i| ≤ 640 β
(16 players, |mu| ≤ 20 β) and c_iq ≥ √2 β give |arg| ≤ 640/√2 < 453 < 709.78 (no overflow) -/
theorem C08_bt_exp_arg_bound (β d c : ℝ) (hβ : 0 < β) (hd : |d| ≤ 640 * β) (hc : Real.sqrt 2 * β ≤ c) :
    |d / c| ≤ 453 := by
  have hs2 : (1.414:ℝ) < Real.sqrt 2 := by
    rw [show (1.414:ℝ) = Real.sqrt (1.414 ^ 2) from (Real.sqrt_sq (by norm_num)).symm]
    exact Real.sqrt_lt_sqrt (by norm_num) (by norm_num)
  have hcpos : 0 < c := lt_of_lt_of_le (by positivity) hc
  rw [abs_div, abs_of_pos hcpos, div_le_iff₀ hcpos]
  have : 1.414 * β ≤ c := le_trans (by nlinarith) hc
  nlinarith

end OS
end
