import OSProofs.LeagueLemmas
import OSProofs.Props.C06

/-!
# Helper lemmas for C06b (the concrete league over ℝ)

* `gameBudget`, `leagueBudget` : what a game / a history adds to a player's variance budget;
* `lg_playGame_slotC06` : after a well-formed game the store holds, for every participant, a
  rating that satisfies `SlotC06` against the rating loaded for him.
-/

noncomputable section
namespace OS
open Scalar
variable {ρ : Type}

/-! ### the variance budget -/

/-- what game `g` adds to the variance budget of player `p`: `τ_g²` if `p` takes part, else `0`
(`τ_g` is the tau in force in that call) -/
def gameBudget (P : Params ℝ) (g : LeagueGame ℝ ρ) (p : Nat) : ℝ :=
  if g.plays p then resolveTau P g.opts ^ 2 else 0

/-- `Σ τ_g²` over the games of `gs` in which player `p` takes part -/
def leagueBudget (P : Params ℝ) (gs : List (LeagueGame ℝ ρ)) (p : Nat) : ℝ :=
  (gs.map (fun g => gameBudget P g p)).sum

theorem gameBudget_pos {P : Params ℝ} {g : LeagueGame ℝ ρ} {p : Nat} (h : g.plays p) :
    gameBudget P g p = resolveTau P g.opts ^ 2 := by
  simp [gameBudget, h]

theorem gameBudget_neg {P : Params ℝ} {g : LeagueGame ℝ ρ} {p : Nat} (h : ¬ g.plays p) :
    gameBudget P g p = 0 := by
  simp [gameBudget, h]

theorem gameBudget_nonneg (P : Params ℝ) (g : LeagueGame ℝ ρ) (p : Nat) : 0 ≤ gameBudget P g p := by
  unfold gameBudget; split_ifs
  · exact sq_nonneg _
  · exact le_refl _

theorem leagueBudget_cons (P : Params ℝ) (g : LeagueGame ℝ ρ) (gs : List (LeagueGame ℝ ρ)) (p : Nat) :
    leagueBudget P (g :: gs) p = gameBudget P g p + leagueBudget P gs p := by
  simp [leagueBudget]

theorem leagueBudget_append (P : Params ℝ) (gs hs : List (LeagueGame ℝ ρ)) (p : Nat) :
    leagueBudget P (gs ++ hs) p = leagueBudget P gs p + leagueBudget P hs p := by
  simp [leagueBudget]

theorem leagueBudget_nonneg (P : Params ℝ) (gs : List (LeagueGame ℝ ρ)) (p : Nat) :
    0 ≤ leagueBudget P gs p := by
  apply List.sum_nonneg
  intro x hx
  obtain ⟨g, _, rfl⟩ := List.mem_map.1 hx
  exact gameBudget_nonneg P g p

/-! ### one game -/

theorem lg_forall₂_mem_left {β γ : Type} {R : β → γ → Prop} {l₁ : List β} {l₂ : List γ}
    (h : List.Forall₂ R l₁ l₂) {a : β} (ha : a ∈ l₁) : ∃ b ∈ l₂, R a b := by
  induction h with
  | nil => cases ha
  | cons hab _ ih =>
    rcases List.mem_cons.1 ha with rfl | ha'
    · exact ⟨_, List.mem_cons_self, hab⟩
    · obtain ⟨b, hb, hr⟩ := ih ha'
      exact ⟨b, List.mem_cons_of_mem _ hb, hr⟩

/-- the outcome hypothesis of `C06_rate` from well-formedness -/
theorem lg_fits_loaded (s : Store ℝ) (g : LeagueGame ℝ ρ) (hf : g.outcome.fits g.teams.length) :
    ∀ r, (g.outcome = .ranks r ∨ g.outcome = .scores r) → r.length = (loadTeams s g).length := by
  intro r h
  rw [lg_loadTeams_length]
  rcases h with h | h <;> rw [h] at hf <;> exact hf

/-- after a well-formed game the store holds for participant `p` the (mu, sigma) of a rating `r'`
that `rate` returned for the rating `s.load p` passed in (`SlotC06`) -/
theorem lg_playGame_slotC06 (L : Leaves ℝ) (P : Params ℝ) (le : ρ → ρ → Bool) (neg : ρ → ρ)
    (s : Store ℝ) (g : LeagueGame ℝ ρ)
    (hL : g.kind = .TMF ∨ g.kind = .TMP → LeafFacts L) (hk0 : 0 < P.kappa) (hk1 : P.kappa ≤ 1)
    (hg : GammaOK P.gamma) (hwf : g.WF) (p : Nat) (hp : g.plays p) :
    ∃ r' : Rating ℝ, SlotC06 (resolveTau P g.opts) (resolveLimit P g.opts) (s.load p) r'
      ∧ (playGame L P le neg s g).mu p = r'.mu ∧ (playGame L P le neg s g).sigma p = r'.sigma := by
  have h := C06_rate g.kind L P le neg (loadTeams s g) g.outcome g.opts hL hk0 hk1 hg
    (lg_fits_loaded s g hwf.2)
  have hfl := List.rel_flatten h
  rw [lg_loadTeams_flatten] at hfl
  obtain ⟨r', hr', hslot⟩ := lg_forall₂_mem_left hfl (List.mem_map.2 ⟨p, hp, rfl⟩)
  have hid : r'.id = p := hslot.1
  obtain ⟨hm, hs⟩ := playGame_stored L P le neg s g hwf r' hr'
  rw [hid] at hm hs
  exact ⟨r', hslot, hm, hs⟩

end OS
end
